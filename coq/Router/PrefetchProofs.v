(* Router/PrefetchProofs.v — proofs about Router/Prefetch.v (C19). *)
From Mos Require Import Base.Prelude Router.Prefetch.
Local Open Scope Z_scope.

(* ================================================================== window arithmetic *)

Lemma shiftr2_div4 a : Z.shiftr a 2 = a / 4.
Proof. rewrite Z.shiftr_div_pow2 by lia. reflexivity. Qed.

Lemma lt_div4 x a : x < a / 4 <-> 4 * x + 4 <= a.
Proof.
  pose proof (Z.div_mod a 4 ltac:(lia)) as E.
  pose proof (Z.mod_pos_bound a 4 ltac:(lia)) as B.
  split; intros H; lia.
Qed.

(* needPrefetch <=> remaining < floor(lifetime / 4)   (floor: towards minus infinity, as Go's >> on int64) *)
Lemma need_prefetch_spec s e n : need_prefetch s e n = true <-> e - n < (e - s) / 4.
Proof. unfold need_prefetch. rewrite shiftr2_div4. apply Z.ltb_lt. Qed.

(* the same without division: 4*(remaining + 1 ns) <= lifetime *)
Lemma need_prefetch_lin s e n : need_prefetch s e n = true <-> 4 * (e - n) + 4 <= e - s.
Proof. rewrite need_prefetch_spec. apply lt_div4. Qed.

Lemma need_prefetch_threshold s e n : need_prefetch s e n = true <-> prefetch_threshold s e <= n.
Proof.
  rewrite need_prefetch_spec. unfold prefetch_threshold. rewrite shiftr2_div4. lia.
Qed.

Lemma need_prefetch_mono s e n n' : n <= n' -> need_prefetch s e n = true -> need_prefetch s e n' = true.
Proof. rewrite !need_prefetch_threshold. lia. Qed.

(* more than a quarter of the lifetime left: no refresh *)
Lemma need_prefetch_early s e n : e - s <= 4 * (e - n) -> need_prefetch s e n = false.
Proof.
  intros H. destruct (need_prefetch s e n) eqn:E; auto. apply need_prefetch_lin in E. lia.
Qed.

(* degenerate entries: expire <= stored never asks for a refresh before the entry is overdue *)
Lemma need_prefetch_degenerate s e n : e <= s -> need_prefetch s e n = true -> e < n.
Proof. intros H E. apply need_prefetch_lin in E. lia. Qed.

(* an overdue entry (now > expire) of non-negative lifetime always asks for a refresh *)
Lemma need_prefetch_overdue s e n : s <= e -> e < n -> need_prefetch s e n = true.
Proof.
  intros H1 H2. apply need_prefetch_spec.
  assert (0 <= (e - s) / 4) by (apply Z.div_pos; lia). lia.
Qed.

(* ================================================================== list helpers *)

Definition cnt {A} (f : A -> bool) (l : list A) : nat := length (filter f l).
Definition b2n (b : bool) : nat := if b then 1%nat else 0%nat.

Lemma cnt_app {A} (f : A -> bool) a b : cnt f (a ++ b) = (cnt f a + cnt f b)%nat.
Proof. unfold cnt. rewrite filter_app, app_length. reflexivity. Qed.

Lemma cnt_cons {A} (f : A -> bool) x l : cnt f (x :: l) = (b2n (f x) + cnt f l)%nat.
Proof. unfold cnt. cbn. destruct (f x); reflexivity. Qed.

Lemma cnt_upd {A} (f : A -> bool) l i x y :
  nth_error l i = Some y -> (cnt f (p_upd l i x) + b2n (f y) = cnt f l + b2n (f x))%nat.
Proof.
  revert i. induction l as [|a l IH]; intros [|i] H; cbn in H; try discriminate.
  - inversion H; subst. cbn [p_upd]. rewrite !cnt_cons. lia.
  - cbn [p_upd]. rewrite !cnt_cons. specialize (IH i H). lia.
Qed.

Lemma upd_length {A} (l : list A) i x : length (p_upd l i x) = length l.
Proof. revert i. induction l; intros [|i]; cbn; auto. Qed.

Lemma nth_upd_same {A} (l : list A) i x y : nth_error l i = Some y -> nth_error (p_upd l i x) i = Some x.
Proof. revert i. induction l; intros [|i] H; cbn in *; try discriminate; eauto. Qed.

Lemma nth_upd_other {A} (l : list A) i j x : i <> j -> nth_error (p_upd l i x) j = nth_error l j.
Proof.
  revert i j. induction l; intros [|i] [|j] H; cbn; auto; try congruence;
    try (apply IHl; congruence).
Qed.

Lemma nth_upd_inv {A} (l : list A) i j x z :
  nth_error (p_upd l i x) j = Some z -> (j = i /\ z = x) \/ (j <> i /\ nth_error l j = Some z).
Proof.
  intros H. destruct (Nat.eq_dec j i) as [->|N].
  - left. split; auto.
    destruct (nth_error l i) eqn:E.
    + rewrite (nth_upd_same _ _ _ _ E) in H. congruence.
    + apply nth_error_None in E. assert (nth_error (p_upd l i x) i = None) as E2.
      { apply nth_error_None. rewrite upd_length. exact E. }
      congruence.
  - right. split; auto. rewrite nth_upd_other in H; auto.
Qed.

Lemma nth_app_inv {A} (l : list A) x j z :
  nth_error (l ++ [x]) j = Some z -> nth_error l j = Some z \/ (j = length l /\ z = x).
Proof.
  intros H. destruct (Nat.lt_ge_cases j (length l)) as [L|L].
  - rewrite nth_error_app1 in H; auto.
  - rewrite nth_error_app2 in H; auto.
    destruct (j - length l)%nat eqn:E; cbn in H.
    + inversion H. right. split; auto. lia.
    + destruct n; discriminate.
Qed.

Lemma nth_app_keep {A} (l : list A) x j z : nth_error l j = Some z -> nth_error (l ++ [x]) j = Some z.
Proof. intros H. rewrite nth_error_app1; auto. apply nth_error_Some. congruence. Qed.

Lemma nth_some_lt {A} (l : list A) j z : nth_error l j = Some z -> (j < length l)%nat.
Proof. intros H. apply nth_error_Some. congruence. Qed.

(* two distinct positions satisfying f: the count is at least two *)
Lemma cnt_two {A} (f : A -> bool) l i j x y :
  i <> j -> nth_error l i = Some x -> nth_error l j = Some y -> f x = true -> f y = true ->
  (2 <= cnt f l)%nat.
Proof.
  assert (one : forall l i x, nth_error l i = Some x -> f x = true -> (1 <= cnt f l)%nat).
  { induction l0 as [|a l0 IH]; intros [|i0] x0 H Hf; cbn in H; try discriminate.
    - inversion H; subst. rewrite cnt_cons, Hf. cbn. lia.
    - rewrite cnt_cons. specialize (IH _ _ H Hf). lia. }
  revert i j. induction l as [|a l IH]; intros [|i] [|j] N Hi Hj Hx Hy; cbn in Hi, Hj; try discriminate;
    try congruence; rewrite cnt_cons.
  - inversion Hi; subst. rewrite Hx. specialize (one _ _ _ Hj Hy). cbn. lia.
  - inversion Hj; subst. rewrite Hy. specialize (one _ _ _ Hi Hx). cbn. lia.
  - assert (i <> j) by congruence. specialize (IH _ _ H Hi Hj Hx Hy). lia.
Qed.

(* ================================================================== the in-flight set *)

Definition occ (k : N) (l : list N) : nat := cnt (N.eqb k) l.

Lemma key_mem_occ k l : p_key_mem k l = false <-> occ k l = 0%nat.
Proof.
  unfold p_key_mem, occ. induction l as [|a l IH]; [cbn; tauto|].
  cbn [existsb]. rewrite cnt_cons. destruct (N.eqb k a); cbn [orb b2n]; [split; [discriminate|lia]|exact IH].
Qed.

Lemma key_mem_In k l : p_key_mem k l = true <-> In k l.
Proof.
  unfold p_key_mem. rewrite existsb_exists. split.
  - intros [x [Hx E]]. apply N.eqb_eq in E. subst. exact Hx.
  - intros H. exists k. split; auto. apply N.eqb_refl.
Qed.

Lemma occ_remove_same k l : occ k (p_key_remove k l) = 0%nat.
Proof.
  unfold occ. induction l as [|a l IH]; [reflexivity|]. cbn [p_key_remove].
  destruct (N.eqb k a) eqn:E; auto. rewrite cnt_cons, E. exact IH.
Qed.

Lemma occ_remove_other k k' l : k' <> k -> occ k' (p_key_remove k l) = occ k' l.
Proof.
  unfold occ. intros N. induction l as [|a l IH]; [reflexivity|]. cbn [p_key_remove].
  destruct (N.eqb k a) eqn:E.
  - apply N.eqb_eq in E. subst a. rewrite cnt_cons.
    assert (N.eqb k' k = false) as -> by (apply N.eqb_neq; exact N). exact IH.
  - rewrite !cnt_cons, IH. reflexivity.
Qed.

Lemma occ_cons k' k l : occ k' (k :: l) = (b2n (N.eqb k' k) + occ k' l)%nat.
Proof. unfold occ. apply cnt_cons. Qed.

Lemma not_In_remove k l : ~ In k (p_key_remove k l).
Proof.
  intros H. apply key_mem_In in H.
  assert (p_key_mem k (p_key_remove k l) = false) by (apply key_mem_occ, occ_remove_same). congruence.
Qed.

(* reserve answers true exactly when the key is absent, and then inserts it; otherwise no change *)
Lemma reserve_spec k q :
  (In k q -> p_reserve k q = (q, false)) /\ (~ In k q -> p_reserve k q = (k :: q, true)).
Proof.
  unfold p_reserve. destruct (p_key_mem k q) eqn:E; split; intros H; auto.
  - apply key_mem_In in E. contradiction.
  - exfalso. apply key_mem_In in H. congruence.
Qed.

Definition set_like (q : list N) : Prop := forall k, (occ k q <= 1)%nat.

Lemma reserve_set_like k q : set_like q -> set_like (fst (p_reserve k q)).
Proof.
  unfold p_reserve. intros H. destruct (p_key_mem k q) eqn:E; cbn; auto.
  intros k'. rewrite occ_cons. destruct (N.eqb k' k) eqn:E2; cbn.
  - apply N.eqb_eq in E2. subst. apply key_mem_occ in E. lia.
  - apply H.
Qed.

Lemma done_set_like k q : set_like q -> set_like (p_done k q).
Proof.
  intros H k'. unfold p_done. destruct (N.eq_dec k' k) as [->|N].
  - rewrite occ_remove_same. lia.
  - rewrite occ_remove_other; auto.
Qed.

Lemma ctl_run_set_like ops q : set_like q -> set_like (snd (pfctl_run ops q)).
Proof.
  revert q. induction ops as [|[b k] ops IH]; intros q H; cbn; auto.
  destruct b.
  - pose proof (reserve_set_like k q H) as H2. destruct (p_reserve k q) as [q' r]. cbn in H2.
    specialize (IH q' H2). destruct (pfctl_run ops q'). cbn in *. exact IH.
  - apply IH. apply done_set_like. exact H.
Qed.

(* a second reserve of the same key without a done in between fails; after done it succeeds again *)
Lemma reserve_twice k q : snd (p_reserve k (fst (p_reserve k q))) = false.
Proof.
  unfold p_reserve at 2. destruct (p_key_mem k q) eqn:E; cbn; unfold p_reserve.
  - rewrite E. reflexivity.
  - assert (p_key_mem k (k :: q) = true) as ->; auto. cbn. rewrite N.eqb_refl. reflexivity.
Qed.

Lemma reserve_after_done k q : p_reserve k (p_done k q) = (k :: p_done k q, true).
Proof. apply reserve_spec. apply not_In_remove. Qed.

(* ================================================================== cache helpers *)

Lemma lookup_remove_same q c : p_lookup q (p_cache_remove q c) = None.
Proof.
  induction c as [|[k e] c IH]; cbn; auto.
  destruct (N.eqb q k) eqn:E; auto. cbn. rewrite E. exact IH.
Qed.

Lemma lookup_remove_other q q' c : q' <> q -> p_lookup q' (p_cache_remove q c) = p_lookup q' c.
Proof.
  intros N. induction c as [|[k e] c IH]; cbn; auto.
  destruct (N.eqb q k) eqn:E.
  - apply N.eqb_eq in E. subst k.
    assert (N.eqb q' q = false) as -> by (apply N.eqb_neq; exact N). exact IH.
  - cbn. rewrite IH. reflexivity.
Qed.

(* Set: a positive answer replaces whatever was there *)
Lemma store_positive q e c : pe_neg e = false -> p_lookup q (p_cache_store q e c) = Some e.
Proof. unfold p_cache_store. intros ->. cbn. rewrite N.eqb_refl. reflexivity. Qed.

(* SetIfAbsent: a negative answer never replaces a present entry *)
Lemma store_negative_present q e e0 c :
  pe_neg e = true -> p_lookup q c = Some e0 -> p_cache_store q e c = c.
Proof. unfold p_cache_store. intros -> ->. reflexivity. Qed.

Lemma store_negative_absent q e c :
  pe_neg e = true -> p_lookup q c = None -> p_lookup q (p_cache_store q e c) = Some e.
Proof. unfold p_cache_store. intros -> ->. cbn. rewrite N.eqb_refl. reflexivity. Qed.

Lemma store_other q q' e c : q' <> q -> p_lookup q' (p_cache_store q e c) = p_lookup q' c.
Proof.
  intros N. unfold p_cache_store.
  assert (N.eqb q' q = false) as E by (apply N.eqb_neq; exact N).
  destruct (pe_neg e).
  - destruct (p_lookup q c); auto. cbn. rewrite E. reflexivity.
  - cbn. rewrite E. apply lookup_remove_other. exact N.
Qed.

(* ================================================================== the LTS *)
Section LTSProofs.
  Variable hash : N -> N.
  Notation p_step := (p_step hash).
  Notation p_run := (p_run hash).

  Lemma run_app a b s : p_run (a ++ b) s = match p_run a s with Some s' => p_run b s' | None => None end.
  Proof. revert s. induction a as [|l a IH]; intros s; cbn; auto. destruct (p_step s l); auto. Qed.

  Lemma run_cons l ls s s1 : p_step s l = Some s1 -> p_run (l :: ls) s = p_run ls s1.
  Proof. intros H. cbn [Prefetch.p_run]. rewrite H. reflexivity. Qed.

  Definition reachable (s : pstate) : Prop := exists t0 ls, p_run ls (p_init t0) = Some s.

  Lemma reachable_step s l s' : reachable s -> p_step s l = Some s' -> reachable s'.
  Proof.
    intros [t0 [ls H]] Hs. exists t0, (ls ++ [l]). rewrite run_app, H. cbn. rewrite Hs. reflexivity.
  Qed.

  (* invariants are proved by: holds initially, preserved by every step *)
  Lemma reachable_ind (P : pstate -> Prop) :
    (forall t0, P (p_init t0)) -> (forall s l s', P s -> p_step s l = Some s' -> P s') ->
    forall s, reachable s -> P s.
  Proof.
    intros H0 Hs s [t0 [ls H]].
    assert (G : forall ls s0, P s0 -> p_run ls s0 = Some s -> P s).
    { induction ls0 as [|l ls0 IH]; intros s0 P0 R; cbn in R.
      - inversion R; subst; auto.
      - destruct (p_step s0 l) eqn:E; [|discriminate]. eapply IH; [|exact R]. eapply Hs; eauto. }
    eapply G; [apply H0|exact H].
  Qed.

  (* ---------------------------------------------------------------- step inversion *)

  Inductive hit_step (s : pstate) (i : nat) (h : phit) : pstate -> Prop :=
  | HsMiss : h_pc h = HLookup -> p_lookup (h_q h) (p_cache s) = None ->
      hit_step s i h (p_set_hit s i (mkHit (h_q h) HMiss (h_tw h) (h_att h)))
  | HsFound e : h_pc h = HLookup -> p_lookup (h_q h) (p_cache s) = Some e ->
      hit_step s i h (p_set_hit s i (mkHit (h_q h) (HWindow e) (h_tw h) (h_att h)))
  | HsNeed e : h_pc h = HWindow e -> need_prefetch (pe_stored e) (pe_expire e) (p_now s) = true ->
      hit_step s i h (p_set_hit s i (mkHit (h_q h) (HReserve e) (p_now s) None))
  | HsNoNeed e : h_pc h = HWindow e -> need_prefetch (pe_stored e) (pe_expire e) (p_now s) = false ->
      hit_step s i h (p_set_hit s i (mkHit (h_q h) (HRespond e) (p_now s) None))
  | HsReserved e : h_pc h = HReserve e -> p_key_mem (hash (h_q h)) (p_inflight s) = false ->
      hit_step s i h (mkPst (p_now s) (p_cache s) (hash (h_q h) :: p_inflight s)
                           (p_upd (p_hits s) i (mkHit (h_q h) (HRespond e) (h_tw h) (Some true)))
                           (p_refs s ++ [mkRef (h_q h) (hash (h_q h)) i RfSend None]) (p_sent s))
  | HsBusy e : h_pc h = HReserve e -> p_key_mem (hash (h_q h)) (p_inflight s) = true ->
      hit_step s i h (p_set_hit s i (mkHit (h_q h) (HRespond e) (h_tw h) (Some false)))
  | HsRespond e : h_pc h = HRespond e ->
      hit_step s i h (p_set_hit s i (mkHit (h_q h) (HDone e) (h_tw h) (h_att h))).

  Lemma step_hit_inv s i h s' : p_step_hit hash s i h = Some s' -> hit_step s i h s'.
  Proof.
    unfold p_step_hit, p_reserve. destruct (h_pc h) eqn:P; try discriminate.
    - destruct (p_lookup (h_q h) (p_cache s)) eqn:L; intros H; inversion H; subst; econstructor; eauto.
    - destruct (need_prefetch _ _ _) eqn:Nd; intros H; inversion H; subst;
        [eapply HsNeed|eapply HsNoNeed]; eauto.
    - destruct (p_key_mem _ _) eqn:K; intros H; inversion H; subst;
        [eapply HsBusy|eapply HsReserved]; eauto.
    - intros H; inversion H; subst. eapply HsRespond; eauto.
  Qed.

  Inductive ref_step (s : pstate) (j : nat) (r : refr) : pstate -> Prop :=
  | RsSend : r_pc r = RfSend ->
      ref_step s j r (mkPst (p_now s) (p_cache s) (p_inflight s) (p_hits s)
                           (p_upd (p_refs s) j (mkRef (r_q r) (r_key r) (r_by r) RfWait (r_out r)))
                           (p_sent s ++ [r_q r]))
  | RsStore v ttl neg : r_pc r = RfStore v ttl neg ->
      ref_step s j r (mkPst (p_now s) (p_cache_store (r_q r) (mkPentry (p_now s) (p_now s + ttl) v neg) (p_cache s))
                           (p_inflight s) (p_hits s)
                           (p_upd (p_refs s) j (mkRef (r_q r) (r_key r) (r_by r) RfRelease (r_out r))) (p_sent s))
  | RsRelease : r_pc r = RfRelease ->
      ref_step s j r (mkPst (p_now s) (p_cache s) (p_done (r_key r) (p_inflight s)) (p_hits s)
                           (p_upd (p_refs s) j (mkRef (r_q r) (r_key r) (r_by r) RfFin (r_out r))) (p_sent s)).

  Lemma step_ref_inv s j r s' : p_step_ref s j r = Some s' -> ref_step s j r s'.
  Proof.
    unfold p_step_ref. destruct (r_pc r) eqn:P; try discriminate; intros H; inversion H; subst.
    - apply RsSend; auto.
    - eapply RsStore; eauto.
    - apply RsRelease; auto.
  Qed.

  Inductive up_step (s : pstate) (j : nat) (r : refr) : poutcome -> pstate -> Prop :=
  | UsFail : r_pc r = RfWait ->
      up_step s j r RfFail (p_set_ref s j (mkRef (r_q r) (r_key r) (r_by r) RfRelease (Some RfFail)))
  | UsOk v ttl neg : r_pc r = RfWait ->
      up_step s j r (RfOk v ttl neg)
              (p_set_ref s j (mkRef (r_q r) (r_key r) (r_by r) (RfStore v ttl neg) (Some (RfOk v ttl neg)))).

  Lemma step_up_inv s j r o s' : p_step_up s j r o = Some s' -> up_step s j r o s'.
  Proof.
    unfold p_step_up. destruct (r_pc r) eqn:P; try discriminate.
    destruct o; intros H; inversion H; subst; constructor; auto.
  Qed.

  (* one tactic to open a step *)
  Ltac open_step H :=
    match type of H with
    | p_step ?s ?l = Some ?s' =>
        destruct l as [d|q|i|j|j o|q|q|q v ttl neg]; cbn [Prefetch.p_step] in H;
        [ destruct (0 <=? d) eqn:?; [|discriminate]; inversion H; subst; clear H
        | inversion H; subst; clear H
        | destruct (nth_error (p_hits s) i) as [h|] eqn:?; [|discriminate]; apply step_hit_inv in H
        | destruct (nth_error (p_refs s) j) as [r|] eqn:?; [|discriminate]; apply step_ref_inv in H
        | destruct (nth_error (p_refs s) j) as [r|] eqn:?; [|discriminate]; apply step_up_inv in H
        | inversion H; subst; clear H
        | destruct (p_lookup q (p_cache s)) as [e|] eqn:?; [|discriminate];
          destruct (pe_expire e <=? p_now s) eqn:?; [|discriminate]; inversion H; subst; clear H
        | inversion H; subst; clear H ]
    end.

  (* ---------------------------------------------------------------- invariant 1: single flight *)

  Definition holding (k : N) (s : pstate) : nat := cnt (ref_holds k) (p_refs s).

  Definition inv_sf (s : pstate) : Prop :=
    set_like (p_inflight s) /\ forall k, holding k s = occ k (p_inflight s).

  Lemma holds_same_pc k r pc' o' :
    rpc_fin pc' = rpc_fin (r_pc r) ->
    ref_holds k (mkRef (r_q r) (r_key r) (r_by r) pc' o') = ref_holds k r.
  Proof. unfold ref_holds, ref_active. cbn. intros ->. reflexivity. Qed.

  Lemma cnt_upd_same {A} (f : A -> bool) l i x y :
    nth_error l i = Some y -> f x = f y -> cnt f (p_upd l i x) = cnt f l.
  Proof. intros H E. pose proof (cnt_upd f l i x y H). rewrite E in H0. lia. Qed.

  Lemma inv_sf_init t0 : inv_sf (p_init t0).
  Proof. split; [intros k; cbn; lia|intros k; reflexivity]. Qed.

  Lemma inv_sf_step s l s' : inv_sf s -> p_step s l = Some s' -> inv_sf s'.
  Proof.
    intros [SL HC] H. open_step H; try (split; [exact SL|exact HC]).
    - (* hit *)
      inversion H; subst; clear H; try (split; [exact SL|exact HC]).
      (* reserve succeeded *)
      split.
      + intros k'. cbn [p_inflight]. rewrite occ_cons. destruct (N.eqb k' (hash (h_q h))) eqn:E; cbn.
        * apply N.eqb_eq in E. subst. apply key_mem_occ in H1. lia.
        * apply SL.
      + intros k'. unfold holding. cbn [p_refs p_inflight]. rewrite cnt_app, occ_cons.
        fold (holding k' s). rewrite HC. unfold cnt. cbn. unfold ref_holds, ref_active. cbn.
        rewrite (N.eqb_sym k'). destruct (N.eqb (hash (h_q h)) k'); cbn; lia.
    - (* refresh own step *)
      inversion H; subst; clear H.
      + split; [exact SL|]. intros k. unfold holding. cbn [p_refs p_inflight].
        rewrite (cnt_upd_same _ _ _ _ r); auto. apply HC.
        apply holds_same_pc. rewrite H0. reflexivity.
      + split; [exact SL|]. intros k. unfold holding. cbn [p_refs p_inflight].
        rewrite (cnt_upd_same _ _ _ _ r); auto. apply HC.
        apply holds_same_pc. rewrite H0. reflexivity.
      + (* done *)
        split; [apply done_set_like; exact SL|].
        intros k. unfold holding. cbn [p_refs p_inflight].
        pose proof (cnt_upd (ref_holds k) (p_refs s) j
                      (mkRef (r_q r) (r_key r) (r_by r) RfFin (r_out r)) r Heqo) as C.
        fold (holding k s) in C. rewrite HC in C.
        unfold ref_holds at 2 3 in C. unfold ref_active in C. cbn in C. rewrite H0 in C. cbn in C.
        unfold p_done. destruct (N.eq_dec k (r_key r)) as [->|N].
        * rewrite N.eqb_refl in C. cbn in C. rewrite occ_remove_same.
          pose proof (SL (r_key r)). unfold cnt in *. lia.
        * assert (N.eqb (r_key r) k = false) as E by (apply N.eqb_neq; congruence).
          rewrite E in C. cbn in C. rewrite occ_remove_other; auto. unfold cnt in *. lia.
    - (* upstream returns *)
      inversion H; subst; clear H; (split; [exact SL|]); intros k; unfold holding; cbn [p_refs p_inflight p_set_ref];
        rewrite (cnt_upd_same _ _ _ _ r); auto; try apply HC; apply holds_same_pc; rewrite H0; reflexivity.
  Qed.

  Lemma inv_sf_reachable s : reachable s -> inv_sf s.
  Proof. apply reachable_ind; [apply inv_sf_init|apply inv_sf_step]. Qed.

  (* at most one refresh thread per key is between reserve and done *)
  Theorem single_flight_count s k : reachable s -> (holding k s <= 1)%nat.
  Proof. intros R. destruct (inv_sf_reachable s R) as [SL HC]. rewrite HC. apply SL. Qed.

  Theorem single_flight s j1 j2 r1 r2 :
    reachable s ->
    nth_error (p_refs s) j1 = Some r1 -> nth_error (p_refs s) j2 = Some r2 ->
    r_pc r1 <> RfFin -> r_pc r2 <> RfFin -> r_key r1 = r_key r2 -> j1 = j2.
  Proof.
    intros R H1 H2 A1 A2 K. destruct (Nat.eq_dec j1 j2) as [|N]; auto. exfalso.
    pose proof (single_flight_count s (r_key r1) R) as C. unfold holding in C.
    assert (forall r, r_pc r <> RfFin -> ref_active r = true) as Act.
    { intros r. unfold ref_active. destruct (r_pc r); cbn; congruence. }
    assert (2 <= cnt (ref_holds (r_key r1)) (p_refs s))%nat.
    { eapply cnt_two; eauto; unfold ref_holds; rewrite Act; auto; cbn; apply N.eqb_eq; auto. }
    lia.
  Qed.

  (* the in-flight set is exactly the set of keys held by running refresh threads *)
  Theorem inflight_exact s k : reachable s -> (In k (p_inflight s) <-> holding k s = 1%nat).
  Proof.
    intros R. destruct (inv_sf_reachable s R) as [SL HC]. rewrite HC.
    pose proof (SL k). rewrite <- key_mem_In. split; intros H1.
    - destruct (occ k (p_inflight s)) as [|[|n]] eqn:E; try lia.
      apply key_mem_occ in E. congruence.
    - destruct (p_key_mem k (p_inflight s)) eqn:E; auto. apply key_mem_occ in E. lia.
  Qed.

  (* ---------------------------------------------------------------- invariant 2: ghosts (window, origin, outcome) *)

  Definition hit_ok (h : phit) : Prop :=
    match h_pc h with
    | HReserve e => need_prefetch (pe_stored e) (pe_expire e) (h_tw h) = true /\ h_att h = None
    | HRespond e | HDone e =>
        (h_att h <> None <-> need_prefetch (pe_stored e) (pe_expire e) (h_tw h) = true)
    | _ => h_att h = None
    end.

  Definition hit_answered (h : phit) : Prop :=
    exists e, (h_pc h = HRespond e \/ h_pc h = HDone e) /\
              need_prefetch (pe_stored e) (pe_expire e) (h_tw h) = true.

  Definition pc_out_ok (pc : rpc) (o : option poutcome) : Prop :=
    match pc with
    | RfStore v ttl neg => o = Some (RfOk v ttl neg)
    | RfSend | RfWait => o = None
    | _ => True
    end /\
    (o = Some RfFail -> pc = RfRelease \/ pc = RfFin).

  Definition ref_okh (hs : list phit) (r : refr) : Prop :=
    r_key r = hash (r_q r) /\
    (exists h, nth_error hs (r_by r) = Some h /\ h_q h = r_q r /\ h_att h = Some true /\ hit_answered h) /\
    pc_out_ok (r_pc r) (r_out r).

  Definition inv_ghl (hs : list phit) (rs : list refr) : Prop :=
    (forall i h, nth_error hs i = Some h -> hit_ok h) /\
    (forall j r, nth_error rs j = Some r -> ref_okh hs r) /\
    (forall i h, nth_error hs i = Some h -> h_att h = Some true ->
                 exists j r, nth_error rs j = Some r /\ r_by r = i).

  Definition inv_gh (s : pstate) : Prop := inv_ghl (p_hits s) (p_refs s).

  Lemma inv_gh_init t0 : inv_gh (p_init t0).
  Proof. split; [|split]; intros [|i] ? H; cbn in H; discriminate. Qed.

  Lemma ref_okh_upd hs i h h' r :
    nth_error hs i = Some h ->
    (h_att h = Some true -> hit_answered h -> h_q h' = h_q h /\ h_att h' = Some true /\ hit_answered h') ->
    ref_okh hs r -> ref_okh (p_upd hs i h') r.
  Proof.
    intros N Hk [K [[h0 [N0 [Q [A An]]]] P]]. split; [exact K|]. split; [|exact P].
    destruct (Nat.eq_dec i (r_by r)) as [E|Ne].
    - subst i. rewrite N in N0. inversion N0; subst h0. exists h'. rewrite (nth_upd_same _ _ _ _ N).
      destruct (Hk A An) as [Q' [A' An']]. repeat split; auto. congruence.
    - exists h0. rewrite nth_upd_other; auto.
  Qed.

  Lemma ref_okh_app hs x r : ref_okh hs r -> ref_okh (hs ++ [x]) r.
  Proof.
    intros [K [[h0 [N0 [Q [A An]]]] P]]. split; [exact K|]. split; [|exact P].
    exists h0. rewrite (nth_app_keep _ _ _ _ N0). auto.
  Qed.

  (* a hit thread moves on without having spawned anything new *)
  Lemma gh_upd_hit hs rs i h h' :
    inv_ghl hs rs -> nth_error hs i = Some h -> hit_ok h' ->
    (h_att h = Some true -> hit_answered h -> h_q h' = h_q h /\ h_att h' = Some true /\ hit_answered h') ->
    (h_att h' = Some true -> h_att h = Some true) ->
    inv_ghl (p_upd hs i h') rs.
  Proof.
    intros [IH [IR IS]] N OK Hk Hb. split; [|split].
    - intros i0 h0 N0. apply nth_upd_inv in N0. destruct N0 as [[-> ->]|[_ N0]]; eauto.
    - intros j r Nr. eapply ref_okh_upd; eauto.
    - intros i0 h0 N0 A0. apply nth_upd_inv in N0. destruct N0 as [[-> ->]|[_ N0]]; eauto.
  Qed.

  Lemma gh_upd_ref hs rs j r pc' o' :
    inv_ghl hs rs -> nth_error rs j = Some r -> pc_out_ok pc' o' ->
    inv_ghl hs (p_upd rs j (mkRef (r_q r) (r_key r) (r_by r) pc' o')).
  Proof.
    intros [IH [IR IS]] N P. split; [exact IH|]. split.
    - intros j0 r0 N0. apply nth_upd_inv in N0. destruct N0 as [[-> ->]|[_ N0]]; eauto.
      destruct (IR _ _ N) as [K [O _]]. split; [exact K|]. split; [exact O|exact P].
    - intros i0 h0 N0 A0. destruct (IS _ _ N0 A0) as [j0 [r0 [N1 R1]]].
      destruct (Nat.eq_dec j j0) as [<-|Ne].
      + eexists j, _. split; [apply (nth_upd_same _ _ _ _ N)|]. rewrite N in N1. inversion N1; subst. reflexivity.
      + exists j0, r0. split; auto. rewrite nth_upd_other; auto.
  Qed.

  Lemma gh_arrive hs rs q : inv_ghl hs rs -> inv_ghl (hs ++ [mkHit q HLookup 0 None]) rs.
  Proof.
    intros [IH [IR IS]]. split; [|split].
    - intros i h N. apply nth_app_inv in N. destruct N as [N|[_ ->]]; [eauto|]. reflexivity.
    - intros j r N. apply ref_okh_app. eauto.
    - intros i h N A. apply nth_app_inv in N. destruct N as [N|[_ ->]]; [eauto|]. cbn in A. discriminate.
  Qed.

  (* reserve succeeded: the hit thread records Some true and a new refresh thread appears *)
  Lemma gh_spawn hs rs i h e :
    inv_ghl hs rs -> nth_error hs i = Some h -> h_pc h = HReserve e ->
    inv_ghl (p_upd hs i (mkHit (h_q h) (HRespond e) (h_tw h) (Some true)))
            (rs ++ [mkRef (h_q h) (hash (h_q h)) i RfSend None]).
  Proof.
    intros [IH [IR IS]] N P.
    pose proof (IH _ _ N) as OK. unfold hit_ok in OK. rewrite P in OK. destruct OK as [Nd AttN].
    set (h' := mkHit (h_q h) (HRespond e) (h_tw h) (Some true)).
    assert (An' : hit_answered h') by (exists e; split; [left; reflexivity|exact Nd]).
    split; [|split].
    - intros i0 h0 N0. apply nth_upd_inv in N0. destruct N0 as [[-> ->]|[_ N0]]; [|eauto].
      unfold hit_ok. cbn. split; [intros _; exact Nd|congruence].
    - intros j r Nr. apply nth_app_inv in Nr. destruct Nr as [Nr|[_ ->]].
      + eapply ref_okh_upd; [exact N| |eauto]. intros A. rewrite AttN in A. discriminate.
      + split; [reflexivity|]. split; [|split; [reflexivity|cbn; discriminate]].
        exists h'. cbn [r_by r_q]. rewrite (nth_upd_same _ _ _ _ N). auto.
    - intros i0 h0 N0 A0. apply nth_upd_inv in N0. destruct N0 as [[-> ->]|[_ N0]].
      + exists (length rs), (mkRef (h_q h) (hash (h_q h)) i RfSend None).
        split; auto. rewrite nth_error_app2 by lia. rewrite Nat.sub_diag. reflexivity.
      + destruct (IS _ _ N0 A0) as [j [r [Nr R]]]. exists j, r. split; auto. apply nth_app_keep. exact Nr.
  Qed.

  Lemma inv_gh_step s l s' : inv_gh s -> p_step s l = Some s' -> inv_gh s'.
  Proof.
    unfold inv_gh. intros I H. open_step H; cbn [p_hits p_refs]; auto.
    - apply gh_arrive; exact I.
    - (* hit thread *)
      pose proof (proj1 I _ _ Heqo) as OK. unfold hit_ok in OK.
      inversion H; subst; clear H; rewrite H0 in OK; unfold p_set_hit; cbn [p_hits p_refs].
      + (* miss *) eapply gh_upd_hit; eauto; cbn; auto; rewrite OK; discriminate.
      + (* found *) eapply gh_upd_hit; eauto; cbn; auto; rewrite OK; discriminate.
      + (* need *) eapply gh_upd_hit; eauto; cbn; auto; rewrite OK; discriminate.
      + (* no need *) eapply gh_upd_hit; eauto; cbn; try (rewrite OK; discriminate); try discriminate.
        unfold hit_ok. cbn. split; congruence.
      + (* reserved *) eapply gh_spawn; eauto.
      + (* busy *) destruct OK as [Nd AttN].
        eapply gh_upd_hit; eauto; cbn; try (rewrite AttN; discriminate); try discriminate.
        unfold hit_ok. cbn. split; [auto|discriminate].
      + (* respond *) eapply gh_upd_hit; eauto; cbn; auto.
        intros A [e' [[P|P] Nd]]; rewrite H0 in P; inversion P; subst.
        split; auto. split; auto. exists e'. auto.
    - (* refresh own step *)
      pose proof (proj1 (proj2 I) _ _ Heqo) as [_ [_ [P F]]].
      inversion H; subst; clear H; cbn [p_hits p_refs]; rewrite H0 in P, F; eapply gh_upd_ref; eauto; split; auto;
        try (intros E; apply F in E; destruct E; discriminate);
        try (intros E; rewrite E in P; discriminate).
    - (* upstream returns *)
      inversion H; subst; clear H; unfold p_set_ref; cbn [p_hits p_refs]; eapply gh_upd_ref; eauto; split; auto; try discriminate.
  Qed.

  Lemma inv_gh_reachable s : reachable s -> inv_gh s.
  Proof. apply reachable_ind; [apply inv_gh_init|apply inv_gh_step]. Qed.

  (* ---------------------------------------------------------------- the hit path never waits *)

  Lemma hit_respond_step s i h e :
    nth_error (p_hits s) i = Some h -> h_pc h = HRespond e ->
    exists s' h', p_step s (PlHit i) = Some s' /\ nth_error (p_hits s') i = Some h' /\ h_pc h' = HDone e /\
                  h_q h' = h_q h.
  Proof.
    intros N P. cbn [Prefetch.p_step]. rewrite N. unfold p_step_hit. rewrite P.
    eexists _, _. split; [reflexivity|]. unfold p_set_hit. cbn [p_hits].
    rewrite (nth_upd_same _ _ _ _ N). auto.
  Qed.

  Lemma hit_reserve_step s i h e :
    nth_error (p_hits s) i = Some h -> h_pc h = HReserve e ->
    exists s' h', p_step s (PlHit i) = Some s' /\ nth_error (p_hits s') i = Some h' /\ h_pc h' = HRespond e /\
                  h_q h' = h_q h.
  Proof.
    intros N P. cbn [Prefetch.p_step]. rewrite N. unfold p_step_hit, p_reserve. rewrite P.
    destruct (p_key_mem _ _); eexists _, _; (split; [reflexivity|]); unfold p_set_hit; cbn [p_hits];
      rewrite (nth_upd_same _ _ _ _ N); auto.
  Qed.

  Lemma hit_window_step s i h e :
    nth_error (p_hits s) i = Some h -> h_pc h = HWindow e ->
    exists s' h', p_step s (PlHit i) = Some s' /\ nth_error (p_hits s') i = Some h' /\
                  (h_pc h' = HReserve e \/ h_pc h' = HRespond e) /\ h_q h' = h_q h.
  Proof.
    intros N P. cbn [Prefetch.p_step]. rewrite N. unfold p_step_hit. rewrite P.
    destruct (need_prefetch _ _ _); eexists _, _; (split; [reflexivity|]); unfold p_set_hit; cbn [p_hits];
      rewrite (nth_upd_same _ _ _ _ N); auto.
  Qed.

  (* From every state (reachable or not) in which hit thread i holds a looked-up entry e, the thread
     reaches "responded with e" in at most three steps, all of them its own: the schedule consists of
     PlHit i only, no refresh step and no environment step is needed. *)
  Theorem hit_nonblocking s i h e :
    nth_error (p_hits s) i = Some h ->
    (h_pc h = HWindow e \/ h_pc h = HReserve e \/ h_pc h = HRespond e) ->
    exists n s' h', (n <= 3)%nat /\ p_run (repeat (PlHit i) n) s = Some s' /\
                    nth_error (p_hits s') i = Some h' /\ h_pc h' = HDone e /\ h_q h' = h_q h.
  Proof.
    assert (R1 : forall s h, nth_error (p_hits s) i = Some h -> h_pc h = HRespond e ->
               exists s' h', p_run (repeat (PlHit i) 1) s = Some s' /\ nth_error (p_hits s') i = Some h' /\
                             h_pc h' = HDone e /\ h_q h' = h_q h).
    { intros s0 h0 N P. destruct (hit_respond_step _ _ _ _ N P) as [s1 [h1 [S1 [N1 [P1 Q1]]]]].
      exists s1, h1. cbn [repeat]. rewrite (run_cons _ _ _ _ S1). cbn [Prefetch.p_run]. auto. }
    assert (R2 : forall s h, nth_error (p_hits s) i = Some h -> h_pc h = HReserve e ->
               exists s' h', p_run (repeat (PlHit i) 2) s = Some s' /\ nth_error (p_hits s') i = Some h' /\
                             h_pc h' = HDone e /\ h_q h' = h_q h).
    { intros s0 h0 N P. destruct (hit_reserve_step _ _ _ _ N P) as [s1 [h1 [S1 [N1 [P1 Q1]]]]].
      destruct (R1 _ _ N1 P1) as [s2 [h2 [S2 [N2 [P2 Q2]]]]].
      exists s2, h2. cbn [repeat]. rewrite (run_cons _ _ _ _ S1). cbn [repeat] in S2. rewrite S2.
      repeat split; auto. congruence. }
    intros N [P|[P|P]].
    - destruct (hit_window_step _ _ _ _ N P) as [s1 [h1 [S1 [N1 [[P1|P1] Q1]]]]].
      + destruct (R2 _ _ N1 P1) as [s2 [h2 [S2 [N2 [P2 Q2]]]]].
        exists 3%nat, s2, h2. split; [lia|]. cbn [repeat]. rewrite (run_cons _ _ _ _ S1).
        cbn [repeat] in S2. rewrite S2. repeat split; auto. congruence.
      + destruct (R1 _ _ N1 P1) as [s2 [h2 [S2 [N2 [P2 Q2]]]]].
        exists 2%nat, s2, h2. split; [lia|]. cbn [repeat]. rewrite (run_cons _ _ _ _ S1).
        cbn [repeat] in S2. rewrite S2. repeat split; auto. congruence.
    - destruct (R2 _ _ N P) as [s2 [h2 [S2 R]]]. exists 2%nat, s2, h2. split; [lia|]. auto.
    - destruct (R1 _ _ N P) as [s2 [h2 [S2 R]]]. exists 1%nat, s2, h2. split; [lia|]. auto.
  Qed.

  (* no guard of a hit-thread action mentions another thread: the next action is always enabled *)
  Theorem hit_never_blocked s i h :
    nth_error (p_hits s) i = Some h ->
    (forall e, h_pc h <> HDone e) -> h_pc h <> HMiss -> exists s', p_step s (PlHit i) = Some s'.
  Proof.
    intros N D M. destruct (h_pc h) eqn:P; try congruence.
    - cbn [Prefetch.p_step]. rewrite N. unfold p_step_hit. rewrite P. destruct (p_lookup _ _); eauto.
    - destruct (hit_window_step _ _ _ _ N P) as [s' [? [S _]]]. eauto.
    - destruct (hit_reserve_step _ _ _ _ N P) as [s' [? [S _]]]. eauto.
    - destruct (hit_respond_step _ _ _ _ N P) as [s' [? [S _]]]. eauto.
  Qed.

  (* ---- the whole hit path, from the lookup on, as a function of (clock, cache, question) alone ----
     What the next action of a hit thread reads: its own record, the clock and the cache.  The refresh threads
     (p_refs) and the in-flight set (p_inflight) decide only the ghost h_att (whether THIS hit was the one that
     spawned); they are never a guard and never reach the pc. *)
  Definition hit_next_pc (now : Z) (c : list (N * pentry)) (h : phit) : hpc :=
    match h_pc h with
    | HLookup => match p_lookup (h_q h) c with None => HMiss | Some e => HWindow e end
    | HWindow e => if need_prefetch (pe_stored e) (pe_expire e) now then HReserve e else HRespond e
    | HReserve e => HRespond e
    | HRespond e => HDone e
    | pc => pc
    end.

  Definition hit_next_tw (now : Z) (h : phit) : Z :=
    match h_pc h with HWindow _ => now | _ => h_tw h end.

  (* number of own actions from the lookup to the response *)
  Definition hit_steps (now : Z) (e : pentry) : nat :=
    if need_prefetch (pe_stored e) (pe_expire e) now then 4%nat else 3%nat.

  (* one action of a hit thread: always enabled (unless finished), and a frame: clock, cache and the upstream
     log are untouched, every existing refresh thread is untouched, at most one refresh thread is appended
     (the spawn is part of the SAME atomic action as the reserve: there is no separate "start the worker"
     step that could be disabled) *)
  Lemma hit_step_total s i h :
    nth_error (p_hits s) i = Some h -> (forall e, h_pc h <> HDone e) -> h_pc h <> HMiss ->
    exists s' h', p_step s (PlHit i) = Some s' /\ nth_error (p_hits s') i = Some h' /\
      h_q h' = h_q h /\ h_pc h' = hit_next_pc (p_now s) (p_cache s) h /\ h_tw h' = hit_next_tw (p_now s) h /\
      p_now s' = p_now s /\ p_cache s' = p_cache s /\ p_sent s' = p_sent s /\
      (forall j r, nth_error (p_refs s) j = Some r -> nth_error (p_refs s') j = Some r) /\
      (length (p_refs s') <= S (length (p_refs s)))%nat.
  Proof.
    intros Nh D M. destruct (hit_never_blocked s i h Nh D M) as [s' S]. exists s'.
    pose proof S as S0. cbn [Prefetch.p_step] in S0. rewrite Nh in S0. apply step_hit_inv in S0.
    unfold hit_next_pc, hit_next_tw.
    inversion S0 as [P L|e P L|e P W|e P W|e P K|e P K|e P]; subst; rewrite P; try rewrite L; try rewrite W;
      eexists; (split; [exact S|]); unfold p_set_hit; cbn [p_hits p_now p_cache p_sent p_refs h_q h_pc h_tw];
      (split; [apply (nth_upd_same _ _ _ _ Nh)|]); repeat split; auto;
      try (intros j r Hj; apply nth_app_keep; exact Hj); try lia.
    rewrite app_length. cbn. lia.
  Qed.

  (* From EVERY state — whatever refresh threads exist, in whatever number, and whatever the in-flight set
     holds — a hit thread that is about to look up a present entry e runs to "responded with e" by its own
     actions alone.  Their number and the response are functions of (clock, e) and of the cache lookup: neither
     p_refs nor p_inflight occurs in them.  The run leaves every existing refresh thread alone and appends at
     most one. *)
  Theorem hit_total s i h e :
    nth_error (p_hits s) i = Some h -> h_pc h = HLookup -> p_lookup (h_q h) (p_cache s) = Some e ->
    exists s' h', p_run (repeat (PlHit i) (hit_steps (p_now s) e)) s = Some s' /\
      nth_error (p_hits s') i = Some h' /\ h_pc h' = HDone e /\ h_q h' = h_q h /\ h_tw h' = p_now s /\
      p_now s' = p_now s /\ p_cache s' = p_cache s /\ p_sent s' = p_sent s /\
      (forall j r, nth_error (p_refs s) j = Some r -> nth_error (p_refs s') j = Some r) /\
      (length (p_refs s') <= S (length (p_refs s)))%nat.
  Proof.
    intros N0 P0 L.
    (* lookup *)
    destruct (hit_step_total s i h N0) as [s1 [h1 [S1 [N1 [Q1 [P1 [T1 [W1 [C1 [U1 [F1 G1]]]]]]]]]]];
      [intros ?; congruence|congruence|].
    unfold hit_next_pc in P1. rewrite P0, L in P1.
    (* window test *)
    destruct (hit_step_total s1 i h1 N1) as [s2 [h2 [S2 [N2 [Q2 [P2 [T2 [W2 [C2 [U2 [F2 G2]]]]]]]]]]];
      [intros ?; congruence|congruence|].
    unfold hit_next_pc in P2. unfold hit_next_tw in T2. rewrite P1 in P2, T2. rewrite W1 in P2, T2.
    assert (G1' : length (p_refs s1) = length (p_refs s)).
    { pose proof S1 as X. cbn [Prefetch.p_step] in X. rewrite N0 in X. apply step_hit_inv in X.
      inversion X; subst; try congruence; reflexivity. }
    assert (G2' : length (p_refs s2) = length (p_refs s1)).
    { pose proof S2 as X. cbn [Prefetch.p_step] in X. rewrite N1 in X. apply step_hit_inv in X.
      inversion X; subst; try congruence; reflexivity. }
    unfold hit_steps. destruct (need_prefetch (pe_stored e) (pe_expire e) (p_now s)) eqn:Nd.
    - (* reserve (+ spawn), respond *)
      destruct (hit_step_total s2 i h2 N2) as [s3 [h3 [S3 [N3 [Q3 [P3 [T3 [W3 [C3 [U3 [F3 G3]]]]]]]]]]];
        [intros ?; congruence|congruence|].
      unfold hit_next_pc in P3. unfold hit_next_tw in T3. rewrite P2 in P3, T3.
      destruct (hit_step_total s3 i h3 N3) as [s4 [h4 [S4 [N4 [Q4 [P4 [T4 [W4 [C4 [U4 [F4 G4]]]]]]]]]]];
        [intros ?; congruence|congruence|].
      unfold hit_next_pc in P4. unfold hit_next_tw in T4. rewrite P3 in P4, T4.
      assert (G4' : length (p_refs s4) = length (p_refs s3)).
      { pose proof S4 as X. cbn [Prefetch.p_step] in X. rewrite N3 in X. apply step_hit_inv in X.
        inversion X; subst; try congruence; reflexivity. }
      exists s4, h4. cbn [repeat].
      rewrite (run_cons _ _ _ _ S1), (run_cons _ _ _ _ S2), (run_cons _ _ _ _ S3), (run_cons _ _ _ _ S4).
      cbn [Prefetch.p_run]. repeat split; auto; try congruence; try lia.
    - (* respond *)
      destruct (hit_step_total s2 i h2 N2) as [s3 [h3 [S3 [N3 [Q3 [P3 [T3 [W3 [C3 [U3 [F3 G3]]]]]]]]]]];
        [intros ?; congruence|congruence|].
      unfold hit_next_pc in P3. unfold hit_next_tw in T3. rewrite P2 in P3, T3.
      assert (G3' : length (p_refs s3) = length (p_refs s2)).
      { pose proof S3 as X. cbn [Prefetch.p_step] in X. rewrite N2 in X. apply step_hit_inv in X.
        inversion X; subst; try congruence; reflexivity. }
      exists s3, h3. cbn [repeat].
      rewrite (run_cons _ _ _ _ S1), (run_cons _ _ _ _ S2), (run_cons _ _ _ _ S3).
      cbn [Prefetch.p_run]. repeat split; auto; try congruence; try lia.
  Qed.

  (* ... hence two states that agree on the clock, the cache and this hit thread, and differ ARBITRARILY in
     their refresh threads and in-flight sets (none in one, a thousand stalled ones in the other), give the
     same schedule length, the same response and the same window-test instant. *)
  Theorem hit_independent_of_refreshes s1 s2 i h e :
    p_now s1 = p_now s2 -> p_cache s1 = p_cache s2 ->
    nth_error (p_hits s1) i = Some h -> nth_error (p_hits s2) i = Some h ->
    h_pc h = HLookup -> p_lookup (h_q h) (p_cache s1) = Some e ->
    exists n s1' s2' h1 h2, (n <= 4)%nat /\
      p_run (repeat (PlHit i) n) s1 = Some s1' /\ p_run (repeat (PlHit i) n) s2 = Some s2' /\
      nth_error (p_hits s1') i = Some h1 /\ nth_error (p_hits s2') i = Some h2 /\
      h_pc h1 = HDone e /\ h_pc h2 = HDone e /\ h_tw h1 = h_tw h2 /\
      p_cache s1' = p_cache s2' /\ p_now s1' = p_now s2'.
  Proof.
    intros En Ec N1 N2 P L.
    destruct (hit_total s1 i h e N1 P L) as [s1' [h1 [R1 [M1 [D1 [_ [T1 [W1 [C1 _]]]]]]]]].
    assert (L2 : p_lookup (h_q h) (p_cache s2) = Some e) by (rewrite <- Ec; exact L).
    destruct (hit_total s2 i h e N2 P L2) as [s2' [h2 [R2 [M2 [D2 [_ [T2 [W2 [C2 _]]]]]]]]].
    exists (hit_steps (p_now s1) e), s1', s2', h1, h2. rewrite En in R1 |- *.
    repeat split; auto; try congruence.
    unfold hit_steps. destruct (need_prefetch _ _ _); lia.
  Qed.

  (* the entry a hit thread carries is the one the cache held at its lookup *)
  Theorem hit_lookup_step s i h s' :
    nth_error (p_hits s) i = Some h -> h_pc h = HLookup -> p_step s (PlHit i) = Some s' ->
    exists h', nth_error (p_hits s') i = Some h' /\ h_q h' = h_q h /\
      match p_lookup (h_q h) (p_cache s) with
      | Some e => h_pc h' = HWindow e
      | None => h_pc h' = HMiss
      end.
  Proof.
    intros N P. cbn [Prefetch.p_step]. rewrite N. unfold p_step_hit. rewrite P.
    destruct (p_lookup _ _); intros H; inversion H; subst; unfold p_set_hit; cbn [p_hits];
      rewrite (nth_upd_same _ _ _ _ N); eauto.
  Qed.

  (* ---------------------------------------------------------------- window *)

  Theorem window_step s i h e s' :
    nth_error (p_hits s) i = Some h -> h_pc h = HWindow e -> p_step s (PlHit i) = Some s' ->
    exists h', nth_error (p_hits s') i = Some h' /\ h_tw h' = p_now s /\
      p_refs s' = p_refs s /\ p_inflight s' = p_inflight s /\ p_cache s' = p_cache s /\
      ((need_prefetch (pe_stored e) (pe_expire e) (p_now s) = true /\ h_pc h' = HReserve e) \/
       (need_prefetch (pe_stored e) (pe_expire e) (p_now s) = false /\ h_pc h' = HRespond e /\ h_att h' = None)).
  Proof.
    intros N P. cbn [Prefetch.p_step]. rewrite N. unfold p_step_hit. rewrite P.
    destruct (need_prefetch _ _ _) eqn:Nd; intros H; inversion H; subst; unfold p_set_hit; cbn;
      rewrite (nth_upd_same _ _ _ _ N); eexists; (split; [reflexivity|]); cbn; repeat split; auto.
  Qed.

  (* the reserve attempt: refused iff the key is in flight; otherwise exactly one new refresh thread *)
  Theorem reserve_step s i h e s' :
    nth_error (p_hits s) i = Some h -> h_pc h = HReserve e -> p_step s (PlHit i) = Some s' ->
    p_cache s' = p_cache s /\
    ((In (hash (h_q h)) (p_inflight s) /\ p_refs s' = p_refs s /\ p_inflight s' = p_inflight s) \/
     (~ In (hash (h_q h)) (p_inflight s) /\
      p_refs s' = p_refs s ++ [mkRef (h_q h) (hash (h_q h)) i RfSend None] /\
      p_inflight s' = hash (h_q h) :: p_inflight s)).
  Proof.
    intros N P. cbn [Prefetch.p_step]. rewrite N. unfold p_step_hit, p_reserve. rewrite P.
    destruct (p_key_mem _ _) eqn:K; intros H; inversion H; subst; cbn; (split; [reflexivity|]).
    - left. apply key_mem_In in K. auto.
    - right. split; auto. intros I. apply key_mem_In in I. congruence.
  Qed.

  (* only the reserve action of a hit thread creates refresh threads *)
  Theorem refs_grow_only_by_reserve s l s' :
    p_step s l = Some s' -> length (p_refs s') <> length (p_refs s) ->
    exists i h e, l = PlHit i /\ nth_error (p_hits s) i = Some h /\ h_pc h = HReserve e.
  Proof.
    intros H L. open_step H; cbn [p_refs] in L; try congruence.
    - inversion H; subst; cbn [p_refs p_set_hit] in L; try congruence. eauto 6.
    - inversion H; subst; cbn [p_refs] in L; rewrite upd_length in L; congruence.
    - inversion H; subst; cbn [p_refs p_set_ref] in L; rewrite upd_length in L; congruence.
  Qed.

  Theorem window_global s :
    reachable s ->
    (forall i h e, nth_error (p_hits s) i = Some h -> (h_pc h = HRespond e \/ h_pc h = HDone e) ->
        (h_att h <> None <-> need_prefetch (pe_stored e) (pe_expire e) (h_tw h) = true)) /\
    (forall j r, nth_error (p_refs s) j = Some r ->
        r_key r = hash (r_q r) /\
        exists h e, nth_error (p_hits s) (r_by r) = Some h /\ h_q h = r_q r /\ h_att h = Some true /\
                    (h_pc h = HRespond e \/ h_pc h = HDone e) /\
                    need_prefetch (pe_stored e) (pe_expire e) (h_tw h) = true) /\
    (forall i h, nth_error (p_hits s) i = Some h -> h_att h = Some true ->
        exists j r, nth_error (p_refs s) j = Some r /\ r_by r = i).
  Proof.
    intros R. destruct (inv_gh_reachable s R) as [IH [IR IS]]. split; [|split].
    - intros i h e N P. pose proof (IH _ _ N) as OK. unfold hit_ok in OK.
      destruct P as [P|P]; rewrite P in OK; exact OK.
    - intros j r N. destruct (IR _ _ N) as [K [[h [Nh [Q [A [e [P Nd]]]]]] _]].
      split; [exact K|]. exists h, e. auto.
    - exact IS.
  Qed.

  (* a fortiori per (question, group): the key is a function of them.  Two different questions whose
     hashes collide share one flight (fewer refreshes, never more). *)
  Theorem single_flight_question s j1 j2 r1 r2 :
    reachable s ->
    nth_error (p_refs s) j1 = Some r1 -> nth_error (p_refs s) j2 = Some r2 ->
    r_pc r1 <> RfFin -> r_pc r2 <> RfFin -> r_q r1 = r_q r2 -> j1 = j2.
  Proof.
    intros R N1 N2 A1 A2 Q. eapply single_flight; eauto.
    destruct (window_global s R) as [_ [W _]].
    destruct (W _ _ N1) as [K1 _]. destruct (W _ _ N2) as [K2 _]. congruence.
  Qed.

  (* ---------------------------------------------------------------- effect of a refresh on the cache *)

  Theorem refresh_store_step s j r v ttl neg s' :
    nth_error (p_refs s) j = Some r -> r_pc r = RfStore v ttl neg -> p_step s (PlRef j) = Some s' ->
    p_cache s' = p_cache_store (r_q r) (mkPentry (p_now s) (p_now s + ttl) v neg) (p_cache s) /\
    (neg = false -> p_lookup (r_q r) (p_cache s') = Some (mkPentry (p_now s) (p_now s + ttl) v false)) /\
    (neg = true -> forall e0, p_lookup (r_q r) (p_cache s) = Some e0 -> p_cache s' = p_cache s) /\
    (neg = true -> p_lookup (r_q r) (p_cache s) = None ->
                   p_lookup (r_q r) (p_cache s') = Some (mkPentry (p_now s) (p_now s + ttl) v true)) /\
    (forall q', q' <> r_q r -> p_lookup q' (p_cache s') = p_lookup q' (p_cache s)) /\
    p_inflight s' = p_inflight s /\
    exists r', nth_error (p_refs s') j = Some r' /\ r_pc r' = RfRelease /\ r_key r' = r_key r.
  Proof.
    intros N P. cbn [Prefetch.p_step]. rewrite N. unfold p_step_ref. rewrite P.
    intros H. inversion H; subst; clear H. cbn [p_cache p_inflight p_refs].
    split; [reflexivity|]. split; [|split; [|split; [|split; [|split]]]].
    - intros ->. apply store_positive. reflexivity.
    - intros -> e0 L. eapply store_negative_present; eauto.
    - intros -> L. apply store_negative_absent; auto.
    - intros q' Nq. apply store_other. exact Nq.
    - reflexivity.
    - rewrite (nth_upd_same _ _ _ _ N). eauto.
  Qed.

  (* a hit arriving after the store finds the stored entry *)
  Theorem later_hit_sees s i h e :
    nth_error (p_hits s) i = Some h -> h_pc h = HLookup -> p_lookup (h_q h) (p_cache s) = Some e ->
    exists s' h', p_step s (PlHit i) = Some s' /\ nth_error (p_hits s') i = Some h' /\ h_pc h' = HWindow e.
  Proof.
    intros N P L. cbn [Prefetch.p_step]. rewrite N. unfold p_step_hit. rewrite P, L.
    eexists _, _. split; [reflexivity|]. unfold p_set_hit. cbn [p_hits]. rewrite (nth_upd_same _ _ _ _ N). auto.
  Qed.

  (* which labels may touch the cache at all *)
  Definition stores_or_evicts (s : pstate) (l : plabel) : bool :=
    match l with
    | PlEvict _ | PlEnvStore _ _ _ _ => true
    | PlRef j => match nth_error (p_refs s) j with
                | Some r => match r_pc r with RfStore _ _ _ => true | _ => false end
                | None => false
                end
    | _ => false
    end.

  Theorem cache_frame s l s' :
    p_step s l = Some s' -> stores_or_evicts s l = false -> (forall q, l <> PlExpire q) -> p_cache s' = p_cache s.
  Proof.
    intros H F X. open_step H; cbn [p_cache]; auto; try discriminate.
    - inversion H; subst; reflexivity.
    - cbn in F. rewrite Heqo in F. inversion H; subst; cbn [p_cache]; auto. rewrite H0 in F. discriminate.
    - inversion H; subst; reflexivity.
    - exfalso. eapply X. reflexivity.
  Qed.

  (* an entry stays usable until it expires: short of capacity eviction or a store, only the expiry
     step removes it, and that step is enabled only once now >= expire *)
  Theorem entry_survives s l s' q e :
    p_step s l = Some s' -> stores_or_evicts s l = false ->
    p_lookup q (p_cache s) = Some e -> p_now s < pe_expire e -> p_lookup q (p_cache s') = Some e.
  Proof.
    intros H F L T. destruct (match l with PlExpire _ => true | _ => false end) eqn:X.
    - destruct l; try discriminate. cbn [Prefetch.p_step] in H.
      destruct (p_lookup q0 (p_cache s)) as [e0|] eqn:L0; [|discriminate].
      destruct (pe_expire e0 <=? p_now s) eqn:D; [|discriminate]. inversion H; subst. cbn [p_cache].
      destruct (N.eq_dec q q0) as [->|Nq].
      + rewrite L in L0. inversion L0; subst. apply Z.leb_le in D. lia.
      + rewrite lookup_remove_other; auto.
    - rewrite (cache_frame s l s' H F); auto. intros q0 ->. discriminate.
  Qed.

  (* a failed refresh never stores: none of its steps changes the cache *)
  Theorem failed_refresh_stores_nothing s j r l s' :
    reachable s -> nth_error (p_refs s) j = Some r -> r_out r = Some RfFail ->
    (l = PlRef j \/ exists o, l = PlUp j o) -> p_step s l = Some s' -> p_cache s' = p_cache s.
  Proof.
    intros R N O Hl H. destruct (inv_gh_reachable s R) as [_ [IR _]].
    destruct (IR _ _ N) as [_ [_ [_ F]]]. specialize (F O).
    destruct Hl as [->|[o ->]]; cbn [Prefetch.p_step] in H; rewrite N in H.
    - unfold p_step_ref in H. destruct F as [F|F]; rewrite F in H; inversion H; subst; reflexivity.
    - unfold p_step_up in H. destruct F as [F|F]; rewrite F in H; discriminate.
  Qed.

  Theorem upstream_failure_step s j r s' :
    nth_error (p_refs s) j = Some r -> p_step s (PlUp j RfFail) = Some s' ->
    p_cache s' = p_cache s /\ p_inflight s' = p_inflight s /\
    exists r', nth_error (p_refs s') j = Some r' /\ r_pc r' = RfRelease /\ r_out r' = Some RfFail /\
               r_key r' = r_key r.
  Proof.
    intros N. cbn [Prefetch.p_step]. rewrite N. unfold p_step_up. destruct (r_pc r); try discriminate.
    intros H. inversion H; subst. unfold p_set_ref. cbn. rewrite (nth_upd_same _ _ _ _ N). eauto 7.
  Qed.

  (* ---------------------------------------------------------------- done always runs *)

  Definition rmeasure (p : rpc) : nat :=
    match p with RfSend => 4 | RfWait => 3 | RfStore _ _ _ => 2 | RfRelease => 1 | RfFin => 0 end%nat.

  (* the next action of a refresh thread is always enabled (for RfWait: whatever the upstream returns) *)
  Theorem refresh_progress s j r :
    nth_error (p_refs s) j = Some r ->
    match r_pc r with
    | RfFin => True
    | RfWait => forall o, exists s', p_step s (PlUp j o) = Some s'
    | _ => exists s', p_step s (PlRef j) = Some s'
    end.
  Proof.
    intros N. destruct (r_pc r) eqn:P; auto; try intros o; cbn [Prefetch.p_step]; rewrite N;
      unfold p_step_ref, p_step_up; rewrite P; try destruct o; eauto.
  Qed.

  Theorem refresh_own_step_decreases s l s' j r :
    nth_error (p_refs s) j = Some r -> (l = PlRef j \/ exists o, l = PlUp j o) -> p_step s l = Some s' ->
    exists r', nth_error (p_refs s') j = Some r' /\ (rmeasure (r_pc r') < rmeasure (r_pc r))%nat /\
               r_key r' = r_key r /\ r_q r' = r_q r.
  Proof.
    intros N [->|[o ->]] H; cbn [Prefetch.p_step] in H; rewrite N in H.
    - apply step_ref_inv in H. inversion H; subst; cbn [p_refs]; rewrite (nth_upd_same _ _ _ _ N);
        eexists; (split; [reflexivity|]); rewrite H0; cbn; auto.
    - apply step_up_inv in H. inversion H; subst; unfold p_set_ref; cbn [p_refs];
        rewrite (nth_upd_same _ _ _ _ N); eexists; (split; [reflexivity|]); rewrite H0; cbn; auto.
  Qed.

  Theorem refresh_other_step_keeps s l s' j1 r1 :
    nth_error (p_refs s) j1 = Some r1 -> l <> PlRef j1 -> (forall o, l <> PlUp j1 o) -> p_step s l = Some s' ->
    nth_error (p_refs s') j1 = Some r1.
  Proof.
    intros N N1 N2 H. open_step H; cbn [p_refs]; auto.
    - inversion H; subst; unfold p_set_hit; cbn [p_refs]; auto. apply nth_app_keep. exact N.
    - assert (j <> j1) by congruence.
      inversion H; subst; cbn [p_refs]; rewrite nth_upd_other; auto.
    - assert (j <> j1) by (intros ->; eapply N2; reflexivity).
      inversion H; subst; unfold p_set_ref; cbn [p_refs]; rewrite nth_upd_other; auto.
  Qed.

  Ltac solve_forall :=
    repeat (apply Forall_cons; [first [left; reflexivity | right; reflexivity]|]); apply Forall_nil.

  Lemma done_from_release s j r :
    nth_error (p_refs s) j = Some r -> r_pc r = RfRelease ->
    exists s' r', p_run [PlRef j] s = Some s' /\ nth_error (p_refs s') j = Some r' /\ r_pc r' = RfFin /\
                  r_key r' = r_key r /\ ~ In (r_key r) (p_inflight s').
  Proof.
    intros N P. cbn [Prefetch.p_run Prefetch.p_step]. rewrite N. unfold p_step_ref. rewrite P.
    eexists _, _. split; [reflexivity|]. cbn [p_refs p_inflight]. rewrite (nth_upd_same _ _ _ _ N).
    split; [reflexivity|]. split; [reflexivity|]. split; [reflexivity|]. apply not_In_remove.
  Qed.

  Lemma done_from_store s j r v ttl neg :
    nth_error (p_refs s) j = Some r -> r_pc r = RfStore v ttl neg ->
    exists s' r', p_run [PlRef j; PlRef j] s = Some s' /\ nth_error (p_refs s') j = Some r' /\ r_pc r' = RfFin /\
                  r_key r' = r_key r /\ ~ In (r_key r) (p_inflight s').
  Proof.
    intros N P.
    destruct (p_step s (PlRef j)) as [s1|] eqn:S1.
    2: { exfalso. cbn [Prefetch.p_step] in S1. rewrite N in S1. unfold p_step_ref in S1. rewrite P in S1.
         discriminate. }
    destruct (refresh_store_step s j r v ttl neg s1 N P S1) as [_ [_ [_ [_ [_ [_ [r1 [N1 [P1 K1]]]]]]]]].
    destruct (done_from_release _ _ _ N1 P1) as [s2 [r2 [S2 [N2 [P2 [K2 I2]]]]]].
    exists s2, r2. rewrite (run_cons _ _ _ _ S1). rewrite S2. rewrite <- K1. repeat split; auto; try congruence.
  Qed.

  Lemma done_from_wait s j r o :
    nth_error (p_refs s) j = Some r -> r_pc r = RfWait ->
    exists ls s' r', (length ls <= 3)%nat /\ Forall (fun l => l = PlRef j \/ l = PlUp j o) ls /\
                  p_run ls s = Some s' /\ nth_error (p_refs s') j = Some r' /\ r_pc r' = RfFin /\
                  r_key r' = r_key r /\ ~ In (r_key r) (p_inflight s').
  Proof.
    intros N P. destruct o as [|v ttl neg].
    - assert (S1 : p_step s (PlUp j RfFail) =
                   Some (p_set_ref s j (mkRef (r_q r) (r_key r) (r_by r) RfRelease (Some RfFail)))).
      { cbn [Prefetch.p_step]. rewrite N. unfold p_step_up. rewrite P. reflexivity. }
      destruct (upstream_failure_step _ _ _ _ N S1) as [_ [_ [r1 [N1 [P1 [_ K1]]]]]].
      destruct (done_from_release _ _ _ N1 P1) as [s2 [r2 [S2 [N2 [P2 [K2 I2]]]]]].
      exists [PlUp j RfFail; PlRef j], s2, r2. split; [cbn; lia|]. split; [solve_forall|].
      rewrite (run_cons _ _ _ _ S1). rewrite S2. rewrite <- K1. repeat split; auto; try congruence.
    - set (r1 := mkRef (r_q r) (r_key r) (r_by r) (RfStore v ttl neg) (Some (RfOk v ttl neg))).
      assert (S1 : p_step s (PlUp j (RfOk v ttl neg)) = Some (p_set_ref s j r1)).
      { cbn [Prefetch.p_step]. rewrite N. unfold p_step_up. rewrite P. reflexivity. }
      assert (N1 : nth_error (p_refs (p_set_ref s j r1)) j = Some r1).
      { unfold p_set_ref. cbn [p_refs]. apply (nth_upd_same _ _ _ _ N). }
      destruct (done_from_store _ _ _ v ttl neg N1 eq_refl) as [s2 [r2 [S2 [N2 [P2 [K2 I2]]]]]].
      exists [PlUp j (RfOk v ttl neg); PlRef j; PlRef j], s2, r2. split; [cbn; lia|].
      split; [solve_forall|].
      rewrite (run_cons _ _ _ _ S1). rewrite S2. repeat split; auto.
  Qed.

  (* Whatever the upstream does (answer o, after any delay), a refresh thread that has started can run
     to done(key) by its own steps plus the one environment step "the exchange returns"; at the end its
     key is no longer in the in-flight set.  Together with refresh_progress (never stuck),
     refresh_own_step_decreases (every own step makes progress) and refresh_other_step_keeps (nobody
     else can move it) this is "done is reached on every path" under weak fairness and C14 (the
     exchange returns by its deadline). *)
  Theorem done_reached s j r o :
    nth_error (p_refs s) j = Some r -> r_pc r <> RfFin ->
    exists ls s' r', (length ls <= 4)%nat /\ Forall (fun l => l = PlRef j \/ l = PlUp j o) ls /\
                  p_run ls s = Some s' /\ nth_error (p_refs s') j = Some r' /\ r_pc r' = RfFin /\
                  ~ In (r_key r) (p_inflight s').
  Proof.
    intros N A. destruct (r_pc r) eqn:P; try congruence.
    - (* RfSend *)
      set (r1 := mkRef (r_q r) (r_key r) (r_by r) RfWait (r_out r)).
      assert (S1 : exists s1, p_step s (PlRef j) = Some s1 /\ nth_error (p_refs s1) j = Some r1).
      { cbn [Prefetch.p_step]. rewrite N. unfold p_step_ref. rewrite P. eexists. split; [reflexivity|].
        cbn [p_refs]. apply (nth_upd_same _ _ _ _ N). }
      destruct S1 as [s1 [S1 N1]].
      destruct (done_from_wait s1 j r1 o N1 eq_refl) as [ls [s2 [r2 [L [F [S2 [N2 [P2 [K2 I2]]]]]]]]].
      exists (PlRef j :: ls), s2, r2. split; [cbn; lia|]. split; [apply Forall_cons; [left; reflexivity|exact F]|].
      rewrite (run_cons _ _ _ _ S1). auto.
    - destruct (done_from_wait s j r o N P) as [ls [s2 [r2 [L [F [S2 [N2 [P2 [K2 I2]]]]]]]]].
      exists ls, s2, r2. split; [lia|]. auto.
    - destruct (done_from_store s j r val ttl neg N P) as [s2 [r2 [S2 [N2 [P2 [K2 I2]]]]]].
      exists [PlRef j; PlRef j], s2, r2. split; [cbn; lia|]. split; [solve_forall|]. auto.
    - destruct (done_from_release s j r N P) as [s2 [r2 [S2 [N2 [P2 [K2 I2]]]]]].
      exists [PlRef j], s2, r2. split; [cbn; lia|]. split; [solve_forall|]. auto.
  Qed.

  (* once released, the next hit in the window reserves again *)
  Theorem reserve_after_release s i h e s' :
    nth_error (p_hits s) i = Some h -> h_pc h = HReserve e -> ~ In (hash (h_q h)) (p_inflight s) ->
    p_step s (PlHit i) = Some s' ->
    p_refs s' = p_refs s ++ [mkRef (h_q h) (hash (h_q h)) i RfSend None].
  Proof.
    intros N P I H. destruct (reserve_step _ _ _ _ _ N P H) as [_ [[I' _]|[_ [R _]]]]; [contradiction|exact R].
  Qed.

  (* ---------------------------------------------------------------- big-step = one schedule of the small-step system *)

  Lemma run_lenient_taken ls s : p_run (p_taken hash ls s) s = Some (p_run_lenient hash ls s).
  Proof.
    revert s. induction ls as [|l ls IH]; intros s; cbn; auto.
    destruct (Prefetch.p_step hash s l) eqn:E; cbn; [rewrite E|]; apply IH.
  Qed.

  Theorem big_step_refines_small s e : exists ls, p_run ls s = Some (p_big_step hash s e).
  Proof. exists (p_taken hash (p_ev_labels s e) s). apply run_lenient_taken. Qed.

  Theorem big_refines_small es s : exists ls, p_run ls s = Some (p_big hash es s).
  Proof.
    revert s. induction es as [|e es IH]; intros s; cbn.
    - exists []. reflexivity.
    - destruct (big_step_refines_small s e) as [l1 H1]. destruct (IH (p_big_step hash s e)) as [l2 H2].
      exists (l1 ++ l2). rewrite run_app, H1. exact H2.
  Qed.

  Theorem big_reachable es t0 : reachable (p_big hash es (p_init t0)).
  Proof. destruct (big_refines_small es (p_init t0)) as [ls H]. exists t0, ls. exact H. Qed.
End LTSProofs.
