(* Router/Rules.v — model of the rule list of app/router (rule.go, router.go handleReq): first-match
   selection with reverse, reject before forward, REFUSED defaults; and the declarative meaning of a
   domain set (the spec side of C11) used to evaluate rule conditions. *)
From Mos Require Import Base.Prelude Codec.Name.

(* ---------- declarative domain sets (spec of internal/domain_matcher, see C11) ---------- *)
Fixpoint labels_eqb (a b : list (list N)) : bool :=
  match a, b with
  | [], [] => true
  | x :: a', y :: b' => list_eqb x y && labels_eqb a' b'
  | _, _ => false
  end.

(* e is a suffix of n on a label boundary *)
Fixpoint is_suffix (e n : list (list N)) : bool :=
  labels_eqb e n || match n with [] => false | _ :: n' => is_suffix e n' end.

Inductive dset_entry := DsFull (ls : list (list N)) | DsDomain (ls : list (list N)).

Definition entry_matches (e : dset_entry) (ls : list (list N)) : bool :=
  match e with DsFull f => labels_eqb f ls | DsDomain d => is_suffix d ls end.

(* a name that does not scan matches nothing (the trie walk stops at the scanner error) *)
Definition set_match (es : list dset_entry) (name : list N) : bool :=
  match scan name with Ok ls => existsb (fun e => entry_matches e ls) es | _ => false end.

(* ---------- rules ---------- *)
Record rule := mkRule {
  ru_cond : option (nat * bool);   (* domain-set index and the reverse flag; None = no condition *)
  ru_reject : N;                   (* > 0: answer with this rcode *)
  ru_forward : option nat }.       (* upstream index *)

Section Select.
  Variable matches : nat -> list N -> bool.   (* does domain set #i match the (lower-cased) name *)

  Definition applies (r : rule) (name : list N) : bool :=
    match ru_cond r with None => true | Some (s, rev) => xorb (matches s name) rev end.

  (* the loop of handleReq: index and rule of the first rule whose condition holds *)
  Fixpoint select_from (i : nat) (rules : list rule) (name : list N) : option (nat * rule) :=
    match rules with
    | [] => None
    | r :: rest => if applies r name then Some (i, r) else select_from (S i) rest name
    end.
  Definition select := select_from 0.

  Inductive action := AReject (rc : N) | AForward (u : nat) | ARefused.

  Definition action_of (r : rule) : action :=
    if (0 <? ru_reject r)%N then AReject (ru_reject r)
    else match ru_forward r with Some u => AForward u | None => ARefused end.

  Definition decide (rules : list rule) (name : list N) : action :=
    match select rules name with None => ARefused | Some (_, r) => action_of r end.
End Select.

(* ---------- configuration loading (rule.go loadRule, domain_set.go, upstream.go initUpstream) ---------- *)
(* tags are byte strings; a raw rule refers to a domain-set tag and an upstream tag (empty = absent) *)
Record raw_rule := mkRawRule { rr_reverse : bool; rr_domain : list N; rr_reject : N; rr_forward : list N }.
Record raw_config := mkRawConfig {
  rc_upstreams : list (list N * list N);   (* tag, addr *)
  rc_sets : list (list N);                 (* tags *)
  rc_rules : list raw_rule }.

Inductive load_err := LMissingTag | LDupTag | LMissingAddr | LUnknownSet | LUnknownUpstream.

Fixpoint index_of (t : list N) (tags : list (list N)) : option nat :=
  match tags with
  | [] => None
  | x :: r => if list_eqb t x then Some 0 else option_map S (index_of t r)
  end.

Fixpoint check_tags (seen : list (list N)) (tags : list (list N)) : option load_err :=
  match tags with
  | [] => None
  | t :: r => match t with
              | [] => Some LMissingTag
              | _ => match index_of t seen with Some _ => Some LDupTag | None => check_tags (t :: seen) r end
              end
  end.

Fixpoint check_upstreams (seen : list (list N)) (us : list (list N * list N)) : option load_err :=
  match us with
  | [] => None
  | (t, a) :: r =>
    match t with
    | [] => Some LMissingTag
    | _ => match index_of t seen with
           | Some _ => Some LDupTag
           | None => match a with [] => Some LMissingAddr | _ => check_upstreams (t :: seen) r end
           end
    end
  end.

Definition load_rule (utags stags : list (list N)) (r : raw_rule) : load_err + rule :=
  let cond := match rr_domain r with
              | [] => inr None
              | d => match index_of d stags with Some i => inr (Some (i, rr_reverse r)) | None => inl LUnknownSet end
              end in
  match cond with
  | inl e => inl e
  | inr c =>
    match rr_forward r with
    | [] => inr (mkRule c (rr_reject r) None)
    | f => match index_of f utags with Some u => inr (mkRule c (rr_reject r) (Some u)) | None => inl LUnknownUpstream end
    end
  end.

Fixpoint load_rules (utags stags : list (list N)) (rs : list raw_rule) : load_err + list rule :=
  match rs with
  | [] => inr []
  | r :: rest => match load_rule utags stags r with
                 | inl e => inl e
                 | inr x => match load_rules utags stags rest with inl e => inl e | inr xs => inr (x :: xs) end
                 end
  end.

(* run(): upstreams, then domain sets, then rules; the first error aborts *)
Definition load (c : raw_config) : load_err + list rule :=
  match check_upstreams [] (rc_upstreams c) with
  | Some e => inl e
  | None => match check_tags [] (rc_sets c) with
            | Some e => inl e
            | None => load_rules (map fst (rc_upstreams c)) (rc_sets c) (rc_rules c)
            end
  end.
