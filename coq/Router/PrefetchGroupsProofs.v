(* Router/PrefetchGroupsProofs.v — proofs about Router/PrefetchGroups.v (client groups of the prefetch model). *)
From Mos Require Import Base.Prelude Cache.Netlist Router.Prefetch Router.PrefetchProofs Router.PrefetchGroups.

Local Open Scope Z_scope.

(* ------------------------------------------------------------------ the key code is injective *)

Definition pg_bytes (g : list N) : Prop := Forall (fun b => (b < 256)%N) g.

Lemma pg_lab_code_snoc g b : pg_lab_code (g ++ [b]) = (pg_lab_code g * 256 + b)%N.
Proof. unfold pg_lab_code. rewrite fold_left_app. reflexivity. Qed.

Lemma pg_lab_code_pos g : (1 <= pg_lab_code g)%N.
Proof.
  induction g as [|b g IH] using rev_ind; [cbn; lia|]. rewrite pg_lab_code_snoc. lia.
Qed.

Lemma pg_lab_code_inj g1 : forall g2, pg_bytes g1 -> pg_bytes g2 -> pg_lab_code g1 = pg_lab_code g2 -> g1 = g2.
Proof.
  unfold pg_bytes.
  induction g1 as [|b1 g1 IH] using rev_ind; intros g2 B1 B2 E; destruct g2 as [|b2 g2 _] using rev_ind; auto.
  - rewrite pg_lab_code_snoc in E. pose proof (pg_lab_code_pos g2). cbn in E. lia.
  - rewrite pg_lab_code_snoc in E. pose proof (pg_lab_code_pos g1). cbn in E. lia.
  - rewrite !pg_lab_code_snoc in E.
    apply Forall_app in B1. destruct B1 as [B1 Hb1]. apply Forall_app in B2. destruct B2 as [B2 Hb2].
    inversion Hb1; subst. inversion Hb2; subst.
    assert (pg_lab_code g1 = pg_lab_code g2 /\ b1 = b2) as [E1 E2] by lia.
    subst b2. rewrite (IH g2 B1 B2 E1). reflexivity.
Qed.

Lemma pg_ck_inj q1 g1 q2 g2 :
  (q1 < 4294967296)%N -> (q2 < 4294967296)%N -> pg_bytes g1 -> pg_bytes g2 ->
  pg_ck q1 g1 = pg_ck q2 g2 -> q1 = q2 /\ g1 = g2.
Proof.
  unfold pg_ck. intros L1 L2 B1 B2 E.
  assert (pg_lab_code g1 = pg_lab_code g2 /\ q1 = q2) as [E1 E2] by lia.
  split; [exact E2|]. apply pg_lab_code_inj; auto.
Qed.

(* the labels of a marker whose file has octet labels are octet strings *)
Definition pg_marker_bytes (mk : option (list range)) : Prop :=
  match mk with Some es => Forall (fun r => pg_bytes (r_val r)) es | None => True end.

Lemma lookup_some_in es ip lb : lookup es ip = Ok (Some lb) -> exists r, In r es /\ r_val r = lb.
Proof.
  unfold lookup. destruct (search es ip) as [i| | |]; cbn; try discriminate.
  destruct i as [|k]; [discriminate|].
  destruct (nth_error es k) as [r|] eqn:NE; [|discriminate].
  destruct (contains r ip); intros H; inversion H; subst.
  exists r. split; [eapply nth_error_In; eauto|reflexivity].
Qed.

Lemma pg_group_bytes mk c : pg_marker_bytes mk -> pg_bytes (pg_group mk c).
Proof.
  unfold pg_group, mark_of, pg_marker_bytes, pg_bytes. intros MB.
  destruct mk as [es|]; [|constructor]. destruct c as [a|]; [|constructor].
  destruct (lookup es (to16 a)) as [o| | |] eqn:L; cbn; try constructor.
  destruct o as [lb|]; [|constructor].
  destruct (lookup_some_in _ _ _ L) as [r [I <-]].
  rewrite Forall_forall in MB. exact (MB r I).
Qed.

(* clients of one group have one key; clients of different groups (or different questions) have different keys *)
Lemma pg_key_same_group mk q c1 c2 : pg_group mk c1 = pg_group mk c2 -> pg_key mk q c1 = pg_key mk q c2.
Proof. unfold pg_key. intros ->. reflexivity. Qed.

Lemma pg_key_inj mk q1 c1 q2 c2 :
  pg_marker_bytes mk -> (q1 < 4294967296)%N -> (q2 < 4294967296)%N ->
  pg_key mk q1 c1 = pg_key mk q2 c2 -> q1 = q2 /\ pg_group mk c1 = pg_group mk c2.
Proof.
  intros MB L1 L2 E. unfold pg_key in E. apply pg_ck_inj in E; auto; apply pg_group_bytes; exact MB.
Qed.

(* ------------------------------------------------------------------ the refresh thread and its key *)

Section GroupProofs.
  Variable hash : N -> N.
  Notation p_step := (Prefetch.p_step hash).

  (* the question/group key, the 64-bit key and the spawning hit of a refresh thread are fixed when the thread
     is created: NO step of any thread or of the environment changes them (the thread holds them as values;
     there is no action that re-reads them from anywhere) *)
  Theorem refresh_key_immutable s l s' j r :
    nth_error (p_refs s) j = Some r -> p_step s l = Some s' ->
    exists r', nth_error (p_refs s') j = Some r' /\ r_q r' = r_q r /\ r_key r' = r_key r /\ r_by r' = r_by r.
  Proof.
    intros N H.
    destruct l as [d|q|i|j'|j' o|q|q|q v ttl neg]; cbn [Prefetch.p_step] in H.
    - destruct (0 <=? d); [|discriminate]. inversion H; subst; cbn [p_refs]. eauto.
    - inversion H; subst; cbn [p_refs]. eauto.
    - destruct (nth_error (p_hits s) i) as [h|]; [|discriminate]. apply step_hit_inv in H.
      inversion H; subst; unfold p_set_hit; cbn [p_refs]; eauto.
      exists r. split; [apply nth_app_keep; exact N|auto].
    - destruct (nth_error (p_refs s) j') as [r0|] eqn:N0; [|discriminate]. apply step_ref_inv in H.
      destruct (Nat.eq_dec j' j) as [->|Nj].
      + assert (r0 = r) by congruence. subst r0.
        inversion H; subst; cbn [p_refs]; rewrite (nth_upd_same _ _ _ _ N); eexists; split; eauto.
      + inversion H; subst; cbn [p_refs]; rewrite nth_upd_other by exact Nj; eauto.
    - destruct (nth_error (p_refs s) j') as [r0|] eqn:N0; [|discriminate]. apply step_up_inv in H.
      destruct (Nat.eq_dec j' j) as [->|Nj].
      + assert (r0 = r) by congruence. subst r0.
        inversion H; subst; unfold p_set_ref; cbn [p_refs]; rewrite (nth_upd_same _ _ _ _ N); eexists; split; eauto.
      + inversion H; subst; unfold p_set_ref; cbn [p_refs]; rewrite nth_upd_other by exact Nj; eauto.
    - inversion H; subst; cbn [p_refs]. eauto.
    - destruct (p_lookup q (p_cache s)) as [e|]; [|discriminate].
      destruct (pe_expire e <=? p_now s); [|discriminate]. inversion H; subst; cbn [p_refs]. eauto.
    - inversion H; subst; cbn [p_refs]. eauto.
  Qed.

  (* a successful (positive) refresh stores under the key of the hit that started it, and nowhere else *)
  Theorem refresh_stores_under_hit_key s j r v ttl s' :
    reachable hash s -> nth_error (p_refs s) j = Some r -> r_pc r = RfStore v ttl false ->
    p_step s (PlRef j) = Some s' ->
    exists h, nth_error (p_hits s) (r_by r) = Some h /\ h_q h = r_q r /\ h_att h = Some true /\
      r_key r = hash (h_q h) /\
      p_lookup (h_q h) (p_cache s') = Some (mkPentry (p_now s) (p_now s + ttl) v false) /\
      (forall k, k <> h_q h -> p_lookup k (p_cache s') = p_lookup k (p_cache s)).
  Proof.
    intros R N P H.
    destruct (window_global hash s R) as [_ [W _]]. destruct (W _ _ N) as [K [h [e [Nh [Q [A _]]]]]].
    destruct (refresh_store_step hash s j r v ttl false s' N P H) as [_ [Pos [_ [_ [Oth _]]]]].
    exists h. rewrite Q. repeat split; auto.
  Qed.

  (* the same for any answer: a negative answer is set-if-absent under that key *)
  Theorem refresh_touches_only_hit_key s j r v ttl neg s' :
    reachable hash s -> nth_error (p_refs s) j = Some r -> r_pc r = RfStore v ttl neg ->
    p_step s (PlRef j) = Some s' ->
    exists h, nth_error (p_hits s) (r_by r) = Some h /\ h_q h = r_q r /\
      (forall k, k <> h_q h -> p_lookup k (p_cache s') = p_lookup k (p_cache s)).
  Proof.
    intros R N P H.
    destruct (window_global hash s R) as [_ [W _]]. destruct (W _ _ N) as [K [h [e [Nh [Q [A _]]]]]].
    destruct (refresh_store_step hash s j r v ttl neg s' N P H) as [_ [_ [_ [_ [Oth _]]]]].
    exists h. rewrite Q. repeat split; auto.
  Qed.

  Variable mk : option (list range).

  (* with clients and groups: the refresh was started by a hit of client c for question q.  After its store
     (1) every client of c's group sees the renewed entry, (2) no entry of any other (question, group) has
     appeared, disappeared or changed *)
  Theorem refresh_store_grouped s j r v ttl s' q c :
    reachable hash s -> nth_error (p_refs s) j = Some r -> r_pc r = RfStore v ttl false ->
    p_step s (PlRef j) = Some s' ->
    pg_marker_bytes mk -> (q < 4294967296)%N ->
    (forall h, nth_error (p_hits s) (r_by r) = Some h -> h_q h = pg_key mk q c) ->
    (forall c2, pg_group mk c2 = pg_group mk c ->
       pg_lookup mk (p_cache s') q c2 = Some (mkPentry (p_now s) (p_now s + ttl) v false)) /\
    (forall q2 c2, (q2 < 4294967296)%N -> (q2 <> q \/ pg_group mk c2 <> pg_group mk c) ->
       pg_lookup mk (p_cache s') q2 c2 = pg_lookup mk (p_cache s) q2 c2).
  Proof.
    intros R N P H MB Lq Hc.
    destruct (refresh_stores_under_hit_key s j r v ttl s' R N P H) as [h [Nh [Q [_ [_ [Pos Oth]]]]]].
    pose proof (Hc h Nh) as Kh. rewrite Kh in Pos, Oth.
    split.
    - intros c2 G. unfold pg_lookup. rewrite (pg_key_same_group mk q c2 c G). exact Pos.
    - intros q2 c2 L2 D. unfold pg_lookup. apply Oth. intros E.
      destruct (pg_key_inj mk q2 c2 q c MB L2 Lq E) as [E1 E2]. destruct D as [D|D]; contradiction.
  Qed.

  (* a negative answer or any answer at all: other (question, group) pairs are never touched *)
  Theorem refresh_store_other_groups s j r v ttl neg s' q c :
    reachable hash s -> nth_error (p_refs s) j = Some r -> r_pc r = RfStore v ttl neg ->
    p_step s (PlRef j) = Some s' ->
    pg_marker_bytes mk -> (q < 4294967296)%N ->
    (forall h, nth_error (p_hits s) (r_by r) = Some h -> h_q h = pg_key mk q c) ->
    forall q2 c2, (q2 < 4294967296)%N -> (q2 <> q \/ pg_group mk c2 <> pg_group mk c) ->
       pg_lookup mk (p_cache s') q2 c2 = pg_lookup mk (p_cache s) q2 c2.
  Proof.
    intros R N P H MB Lq Hc q2 c2 L2 D.
    destruct (refresh_touches_only_hit_key s j r v ttl neg s' R N P H) as [h [Nh [Q Oth]]].
    pose proof (Hc h Nh) as Kh. rewrite Kh in Oth.
    unfold pg_lookup. apply Oth. intros E.
    destruct (pg_key_inj mk q2 c2 q c MB L2 Lq E) as [E1 E2]. destruct D as [D|D]; contradiction.
  Qed.

  (* single flight per (question, group): two running refreshes started for clients of one group and one
     question are the same thread *)
  Theorem single_flight_grouped s j1 j2 r1 r2 q c1 c2 :
    reachable hash s -> nth_error (p_refs s) j1 = Some r1 -> nth_error (p_refs s) j2 = Some r2 ->
    r_pc r1 <> RfFin -> r_pc r2 <> RfFin ->
    r_q r1 = pg_key mk q c1 -> r_q r2 = pg_key mk q c2 -> pg_group mk c1 = pg_group mk c2 -> j1 = j2.
  Proof.
    intros R N1 N2 A1 A2 K1 K2 G. eapply single_flight_question; eauto.
    rewrite K1, K2. apply pg_key_same_group. exact G.
  Qed.
End GroupProofs.

(* ------------------------------------------------------------------ by value / re-read *)

(* design of the code: the address is a value copied at spawn time; the state of the pooled request context at
   completion time is irrelevant *)
Theorem refresh_by_value_ignores_slot mk q c sl e cache :
  pg_refresh_store false mk q c sl e cache = p_cache_store (pg_key mk q c) e cache.
Proof. reflexivity. Qed.

(* the re-reading design is harmless only while the request context is still owned by the hit *)
Theorem refresh_reread_live mk q c e cache :
  pg_refresh_store true mk q c (PgRcLive c) e cache = p_cache_store (pg_key mk q c) e cache.
Proof. reflexivity. Qed.
