(* Router/Router.v — model of the request path of app/router/router.go: handleServerReq / handleReqMsg /
   handleReq / forward (cache disabled or missing: the cache is C07/C08/C19), makeEmptyRespM, makeEmptyResp,
   mustHaveRespB, and the per-listener response packing (server_udp.go, server_tcp.go, server_http_*.go). *)
From Mos Require Import Base.Prelude Codec.Name Codec.Msg Router.Rules Router.Edns.

Definition RCodeServFail : N := 2.  Definition RCodeNotImp : N := 4.  Definition RCodeRefused : N := 5.

Inductive uout := UReply (m : msg) | UFail.         (* what the selected upstream's exchange returned *)
Inductive effect := EQuery (u : nat) (wire : res (list N)).

Definition lower_q (q : question) : question := mkQuestion (to_lower_name (q_name q)) (q_type q) (q_class q).

(* makeEmptyRespM *)
Definition empty_resp_m (m : msg) (rc : N) : msg :=
  mkMsg (mkHeader (h_id (m_hdr m)) true (h_opcode (m_hdr m)) false false (h_rd (m_hdr m)) true false false rc)
        (firstn 1 (m_qs m)) [] [] [].
(* makeEmptyResp *)
Definition empty_resp (q : question) (rc : N) : msg :=
  mkMsg (mkHeader 0 false 0 false false false false false false rc) [q] [] [] [].

(* the header fix-up at the end of handleReqMsg *)
Definition fix_header (m resp : msg) : msg :=
  let h := m_hdr resp in let hq := m_hdr m in
  mkMsg (mkHeader (h_id hq) true (h_opcode hq) (h_aa h) (h_tc h) (h_rd hq) true (h_ad h) (h_cd h) (h_rcode h))
        (m_qs resp) (m_an resp) (m_ns resp) (m_ar resp).

Definition unsupported (m : msg) : bool :=
  h_resp (m_hdr m) || negb (h_rd (m_hdr m)) || negb (h_opcode (m_hdr m) =? 0)%N || negb (length (m_qs m) =? 1).

(* respQuestionMatch / nameEqualFold (router.go forward): the reply carries no question, or exactly the question asked;
   wire-format names are compared octet-wise after ASCII folding (length octets are < 'A': folding them is a no-op) *)
Definition q_eq_ci (a b : question) : bool :=
  list_eqb (map lower (q_name a)) (map lower (q_name b)) && (q_type a =? q_type b)%N && (q_class a =? q_class b)%N.
Definition reply_question_ok (q : question) (r : msg) : bool :=
  match m_qs r with
  | [] => true
  | [qr] => q_eq_ci qr q
  | _ => false
  end.

Section Handle.
  Variable matches : nat -> list N -> bool.
  Variable rules : list rule.
  Variable ecs : bool.
  (* the upstream environment: what upstream #u returns for the wire query it is sent *)
  Variable up : nat -> res (list N) -> uout.

  (* forward: pack the upstream query, exchange it with upstream #u, check the reply's question, strip its OPT.
     [None] = the Go function returned an error (nothing to relay, nothing to cache). *)
  Definition forward_q (u : nat) (q : question) (client : addr) : option msg * list effect :=
    let wire := pack_req ecs q client in
    match wire with
    | Ok _ => match up u wire with
              | UReply r => if reply_question_ok q r then (Some (remove_opt r), [EQuery u wire])
                            else (None, [EQuery u wire])                      (* errRespQuestionMismatch *)
              | UFail => (None, [EQuery u wire])
              end
    | _ => (None, [])                                                        (* failed to pack req: no exchange *)
    end.

  (* handleReq (cache disabled) *)
  Definition handle_req (q : question) (client : addr) : msg * list effect :=
    match decide matches rules (q_name q) with
    | ARefused => (empty_resp q RCodeRefused, [])
    | AReject rc => (empty_resp q rc, [])
    | AForward u =>
      match forward_q u q client with
      | (Some r, eff) => (r, eff)
      | (None, eff) => (empty_resp q RCodeServFail, eff)
      end
    end.

  (* handleReqMsg (= handleServerReq without middlewares) *)
  Definition handle (m : msg) (client : addr) : msg * list effect :=
    if unsupported m then (fix_header m (empty_resp_m m RCodeNotImp), [])
    else match m_qs m with
         | q :: _ =>
           let '(resp, eff) := handle_req (lower_q q) client in
           let resp' := if has_opt m then add_or_replace_opt resp else remove_opt resp in
           (fix_header m resp', eff)
         | [] => (fix_header m (empty_resp_m m RCodeNotImp), [])   (* unreachable: unsupported *)
         end.
End Handle.

(* ---------- packing the response for a listener ---------- *)
Inductive listener := LUdp | LTcp | LHttp.     (* LTcp: tcp, gnet, tls, quic frames; LHttp: both DoH servers *)

(* udpServer.handleReq: the class of the LAST OPT of the query (0 when there is none), floor 512, and — since the fix
   of D20 — capped at the largest payload a UDP datagram can carry (65507 = 65535 - 20 - 8) *)
Definition advertised_size (m : msg) : N :=
  fold_left (fun acc r => if is_opt r then r_class r else acc) (m_ar m) 0%N.
Definition max_udp_payload : N := 65507.
Definition client_udp_size (m : msg) : N :=
  let c := advertised_size m in
  let c' := if (c <? 512)%N then 512%N else c in
  if (max_udp_payload <? c')%N then max_udp_payload else c'.

Definition max_size : nat := N.to_nat 65535.
Definition size_limit (l : listener) (m : msg) : nat :=
  match l with LUdp => N.to_nat (client_udp_size m) | LTcp => max_size | LHttp => max_size end.

Definition be16n (n : nat) : list N := be16 (N.of_nat n).

(* mustHaveRespB with its three-level fallback.  [size] = 0 means no limit (the refusal paths). *)
Definition must_have_resp (query : msg) (resp : option msg) (err_rcode : N) (tcp : bool) (size : nat) : list N :=
  let size' := if tcp then max_size else Nat.min size max_size in
  let frame b := if tcp then be16n (length b) ++ b else b in
  let try1 := match resp with Some r => match pack_msg (msg_len r) true size' r with Ok b => Some b | _ => None end
                              | None => None end in
  match try1 with
  | Some b => frame b
  | None =>
    let rc := match resp with Some _ => RCodeServFail | None => err_rcode end in
    let e := empty_resp_m query rc in
    match pack_msg (msg_len e) true size' e with
    | Ok b => frame b
    | _ => let hb := be16 (h_id (m_hdr e)) ++ be16 (hdr_bits (m_hdr e)) ++ [0;0;0;0;0;0;0;0]%N in
           if tcp then [0; 0]%N ++ hb else hb       (* bare header; the Go code leaves the length prefix zero *)
    end
  end.

Definition respond (l : listener) (query resp : msg) : list (list N) :=
  [must_have_resp query (Some resp) RCodeRefused (match l with LTcp => true | _ => false end) (size_limit l query)].

(* limiter refusal / over-concurrency on UDP and TCP: REFUSED without calling the handler *)
Definition refuse (l : listener) (query : msg) : list (list N) :=
  [must_have_resp query None RCodeRefused (match l with LTcp => true | _ => false end) 0].
