(* Router/StartupInitProofs.v — proofs about the init programs of Router/StartupInit.v (C18). *)
From Mos Require Import Base.Prelude Router.StartupInit.

(* ---- counting ---- *)
Lemma si_count_app id a b : si_count id (a ++ b) = si_count id a + si_count id b.
Proof. unfold si_count. now rewrite filter_app, app_length. Qed.

Lemma si_count_nil id : si_count id [] = 0.
Proof. reflexivity. Qed.

Lemma si_count_one id n s g : si_count id [{| sr_id := n; sr_sock := s; sr_gor := g |}] = if n =? id then 1 else 0.
Proof. unfold si_count. cbn. destruct (n =? id); reflexivity. Qed.

(* every resource acquired so far is in exactly one of held / registered / released / lost *)
Definition SiAcc (st : si_st) : Prop :=
  forall id, si_count id (si_held st) + si_count id (si_regd st) + si_count id (si_freed st)
             + si_count id (si_lost st) = if id <? si_next st then 1 else 0.

Lemma si_acc0 : SiAcc si_st0.
Proof. intros id. reflexivity. Qed.

Lemma si_apply_acc o st : SiAcc st -> SiAcc (si_apply o st).
Proof.
  intros H id. specialize (H id). destruct o as [|n g|]; cbn [si_apply si_next si_held si_regd si_freed si_lost].
  - exact H.
  - rewrite si_count_app, si_count_one. revert H.
    destruct (Nat.ltb_spec id (si_next st)); destruct (Nat.ltb_spec id (S (si_next st)));
      destruct (Nat.eqb_spec (si_next st) id); lia.
  - rewrite si_count_app, si_count_nil. lia.
Qed.

Lemma si_fail_acc rel st : SiAcc st -> SiAcc (si_fail rel st).
Proof.
  intros H id. specialize (H id). unfold si_fail.
  destruct rel; cbn [si_next si_held si_regd si_freed si_lost]; rewrite si_count_app, si_count_nil; lia.
Qed.

Lemma si_finish_acc st : SiAcc st -> SiAcc (si_finish st).
Proof.
  intros H id. specialize (H id). unfold si_finish. cbn [si_next si_held si_regd si_freed si_lost].
  rewrite si_count_app, si_count_nil. lia.
Qed.

Lemma si_close_acc st : SiAcc st -> SiAcc (si_close st).
Proof.
  intros H id. specialize (H id). unfold si_close. cbn [si_next si_held si_regd si_freed si_lost].
  rewrite si_count_app, si_count_nil. lia.
Qed.

(* ---- one init ---- *)
Lemma si_exec_acc p : forall j f st, SiAcc st -> SiAcc (fst (si_exec p j f st)).
Proof.
  induction p as [|s tl IH]; intros j f st H; cbn.
  - now apply si_finish_acc.
  - destruct (si_is f j && si_can_fail (si_do s)); cbn; [now apply si_fail_acc|].
    apply IH. now apply si_apply_acc.
Qed.

Lemma si_exec_held p : forall j f st, si_held (fst (si_exec p j f st)) = [].
Proof.
  induction p as [|s tl IH]; intros j f st; cbn; [reflexivity|].
  destruct (si_is f j && si_can_fail (si_do s)); cbn; [|apply IH]. unfold si_fail. destruct (si_rel s); reflexivity.
Qed.

(* registered and released only grow during an init; without a failure nothing is released *)
Lemma si_exec_ok_freed p : forall j f st st', si_exec p j f st = (st', false) -> si_freed st' = si_freed st.
Proof.
  induction p as [|s tl IH]; intros j f st st' H; cbn in H.
  - inversion H; subst. reflexivity.
  - destruct (si_is f j && si_can_fail (si_do s)); [discriminate|]. rewrite (IH _ _ _ _ H).
    destruct (si_do s); reflexivity.
Qed.

(* safe program: nothing is lost, wherever it fails *)
Lemma si_exec_safe p : forall holding j f st,
  si_safe_from p holding = true -> (holding = false -> si_held st = []) ->
  si_lost (fst (si_exec p j f st)) = si_lost st.
Proof.
  induction p as [|s tl IH]; intros holding j f st S Hh; cbn in *.
  - apply negb_true_iff in S. rewrite (Hh S). apply app_nil_r.
  - apply andb_true_iff in S. destruct S as [A B].
    destruct (si_is f j && si_can_fail (si_do s)) eqn:Ef; cbn.
    + apply andb_true_iff in Ef. destruct Ef as [_ Cf]. unfold si_fail.
      destruct (si_rel s) eqn:Er; cbn; [reflexivity|].
      destruct (si_do s); cbn in *; try discriminate; apply negb_true_iff in A; rewrite (Hh A); apply app_nil_r.
    + rewrite (IH _ _ _ _ B).
      * destruct (si_do s); reflexivity.
      * intros Hf. destruct (si_do s); cbn in *; auto; discriminate.
Qed.

(* unsafe program: some failure (or the plain return) loses what is held *)
Lemma si_exec_unsafe p : forall holding j st,
  si_safe_from p holding = false -> (holding = true <-> si_held st <> []) ->
  exists f, (forall k, f = Some k -> j <= k) /\ si_lost (fst (si_exec p j f st)) <> si_lost st.
Proof.
  assert (forall (a b : list si_res), b <> [] -> a ++ b <> a) as NE.
  { intros a b Hb E. apply (f_equal (@length _)) in E. rewrite app_length in E. destruct b; [congruence|cbn in E; lia]. }
  induction p as [|s tl IH]; intros holding j st S Hh; cbn in *.
  - exists None. split; [discriminate|]. apply negb_false_iff in S. apply NE. now apply Hh.
  - apply andb_false_iff in S. destruct S as [A|B].
    + exists (Some j). split; [intros k E; inversion E; lia|]. cbn. rewrite Nat.eqb_refl.
      destruct (si_do s) eqn:Ed; try discriminate; cbn;
        apply orb_false_iff in A; destruct A as [Ar Ah]; rewrite Ar; apply negb_false_iff in Ah; cbn;
        apply NE; now apply Hh.
    + destruct (IH (si_holding_after (si_do s) holding) (S j) (si_apply (si_do s) st) B) as (f & Hk & Hl).
      { destruct (si_do s); cbn; [exact Hh| |].
        - split; [intros _ E; destruct (si_held st); discriminate|reflexivity].
        - split; [discriminate|intros E; now elim E]. }
      exists f. split; [intros k E; specialize (Hk k E); lia|].
      assert (si_is f j = false) as ->.
      { destruct f as [k|]; [|reflexivity]. cbn. apply Nat.eqb_neq. specialize (Hk k eq_refl). lia. }
      cbn. assert (si_lost (si_apply (si_do s) st) = si_lost st) as <- by (destruct (si_do s); reflexivity).
      exact Hl.
Qed.

Theorem si_safe_iff p :
  si_safeb p = true <-> forall f, si_lost (fst (si_exec p 0 f si_st0)) = [].
Proof.
  split.
  - intros S f. rewrite (si_exec_safe p false 0 f si_st0 S); reflexivity.
  - intros H. destruct (si_safeb p) eqn:E; [reflexivity|]. exfalso.
    destruct (si_exec_unsafe p false 0 si_st0 E) as (f & _ & Hl).
    + split; [discriminate|intros X; now elim X].
    + apply Hl. rewrite H. reflexivity.
Qed.

(* ---- run() ---- *)
Definition si_all_safe (comps : list si_prog) : Prop := Forall (fun p => si_safeb p = true) comps.

Lemma si_run_from_acc comps : forall i f st, SiAcc st -> SiAcc (fst (si_run_from comps i f st)).
Proof.
  induction comps as [|p tl IH]; intros i f st H; cbn; [exact H|].
  destruct (si_exec p 0 _ st) as [st' failed] eqn:E.
  pose proof (si_exec_acc p 0 (match f with Some (ci, sj) => if ci =? i then Some sj else None | None => None end) st H) as A.
  rewrite E in A. cbn in A. destruct failed; cbn; [now apply si_close_acc|now apply IH].
Qed.

Lemma si_run_from_held comps : forall i f st, si_held st = [] -> si_held (fst (si_run_from comps i f st)) = [].
Proof.
  induction comps as [|p tl IH]; intros i f st H; cbn; [exact H|].
  destruct (si_exec p 0 _ st) as [st' failed] eqn:E.
  pose proof (si_exec_held p 0 (match f with Some (ci, sj) => if ci =? i then Some sj else None | None => None end) st) as A.
  rewrite E in A. cbn in A. destruct failed; cbn; [exact A|now apply IH].
Qed.

Lemma si_run_from_lost comps : forall i f st,
  si_all_safe comps -> si_held st = [] -> si_lost (fst (si_run_from comps i f st)) = si_lost st.
Proof.
  induction comps as [|p tl IH]; intros i f st S H; cbn; [reflexivity|].
  inversion S as [|? ? Sp Stl]; subst.
  destruct (si_exec p 0 _ st) as [st' failed] eqn:E.
  pose proof (si_exec_safe p false 0 (match f with Some (ci, sj) => if ci =? i then Some sj else None | None => None end) st Sp (fun _ => H)) as A.
  pose proof (si_exec_held p 0 (match f with Some (ci, sj) => if ci =? i then Some sj else None | None => None end) st) as B.
  rewrite E in A, B. cbn in A, B. destruct failed; cbn; [exact A|]. rewrite (IH _ _ _ Stl B). exact A.
Qed.

(* a failed run() has closed the router: nothing is registered any more *)
Lemma si_run_from_failed comps : forall i f st st' k,
  si_run_from comps i f st = (st', Some k) -> si_regd st' = [].
Proof.
  induction comps as [|p tl IH]; intros i f st st' k H; cbn in H; [discriminate|].
  destruct (si_exec p 0 _ st) as [st1 failed]. destruct failed; [inversion H; reflexivity|eauto].
Qed.

(* a run() that started has released nothing *)
Lemma si_run_from_started comps : forall i f st st',
  si_run_from comps i f st = (st', None) -> si_freed st' = si_freed st.
Proof.
  induction comps as [|p tl IH]; intros i f st st' H; cbn in H; [inversion H; reflexivity|].
  destruct (si_exec p 0 _ st) as [st1 failed] eqn:E. destruct failed; [discriminate|].
  rewrite (IH _ _ _ _ H). eapply si_exec_ok_freed; eauto.
Qed.

(* the headline: with safe init programs, whatever fails wherever -
   failed start-up: every resource that was acquired has been released, exactly once, nothing is registered,
                    held or lost;
   successful start-up: every resource is registered, exactly once, and close releases each exactly once *)
Theorem si_run_no_leak comps f st r :
  si_all_safe comps -> si_run comps f = (st, r) ->
  si_lost st = [] /\ si_held st = [] /\
  (r <> None -> si_regd st = [] /\ forall id, id < si_next st -> si_count id (si_freed st) = 1) /\
  (r = None -> si_freed st = [] /\
               (forall id, id < si_next st -> si_count id (si_regd st) = 1) /\
               si_regd (si_close st) = [] /\
               forall id, id < si_next st -> si_count id (si_freed (si_close st)) = 1).
Proof.
  intros S H. unfold si_run in H.
  pose proof (si_run_from_lost comps 0 f si_st0 S eq_refl) as L.
  pose proof (si_run_from_held comps 0 f si_st0 eq_refl) as Hd.
  pose proof (si_run_from_acc comps 0 f si_st0 si_acc0) as A.
  rewrite H in L, Hd, A. cbn in L, Hd, A. split; [exact L|]. split; [exact Hd|]. split.
  - intros Nr. destruct r as [k|]; [|congruence]. pose proof (si_run_from_failed _ _ _ _ _ _ H) as R.
    split; [exact R|]. intros id Lt. specialize (A id). rewrite L, Hd, R in A.
    apply Nat.ltb_lt in Lt. rewrite Lt in A. cbn in A. lia.
  - intros ->. pose proof (si_run_from_started _ _ _ _ _ H) as Fr. cbn in Fr. split; [exact Fr|].
    assert (forall id, id < si_next st -> si_count id (si_regd st) = 1) as Rg.
    { intros id Lt. specialize (A id). rewrite L, Hd, Fr in A. apply Nat.ltb_lt in Lt. rewrite Lt in A.
      cbn in A. lia. }
    split; [exact Rg|]. split; [reflexivity|]. intros id Lt. cbn. rewrite Fr. cbn. now apply Rg.
Qed.

(* accounting without any assumption on the programs: after a failed run() every acquired resource is either
   released exactly once or lost (never both, never twice) *)
Theorem si_run_accounting comps f st k :
  si_run comps f = (st, Some k) ->
  si_held st = [] /\ si_regd st = [] /\
  forall id, id < si_next st -> si_count id (si_freed st) + si_count id (si_lost st) = 1.
Proof.
  intros H. unfold si_run in H.
  pose proof (si_run_from_held comps 0 f si_st0 eq_refl) as Hd.
  pose proof (si_run_from_acc comps 0 f si_st0 si_acc0) as A.
  rewrite H in Hd, A. cbn in Hd, A. pose proof (si_run_from_failed _ _ _ _ _ _ H) as R.
  split; [exact Hd|]. split; [exact R|]. intros id Lt. specialize (A id). rewrite Hd, R in A.
  apply Nat.ltb_lt in Lt. rewrite Lt in A. cbn in A. lia.
Qed.

(* ---- the init programs of the code ---- *)
Lemma si_progs_safe k : si_safeb (si_prog_of false k) = true.
Proof. destruct k as [|u| | |m r mk|s]; try destruct u; try destruct s; try destruct m, r, mk; reflexivity. Qed.

Lemma si_progs_all_safe items : si_all_safe (map (fun it : si_item => si_prog_of false (fst it)) items).
Proof. apply Forall_forall. intros p Hin. apply in_map_iff in Hin. destruct Hin as (it & <- & _). apply si_progs_safe. Qed.

(* the tree before the round-4 fixes, and the C18-G shape *)
Lemma si_progs_pinned_unsafe :
  si_safeb (si_prog_of true (SiKUp SiUpSock)) = false /\
  si_safeb (si_prog_of true (SiKCache true true false)) = false /\
  si_safeb (si_prog_up_check_after_build SiUpSock) = false.
Proof. repeat split. Qed.

(* every fault that is an error names a statement of the program that can fail *)
Definition si_all_faults : list si_fault :=
  [SfInUse; SfProto; SfBadAddr; SfNoCert; SfCertOnly; SfKeyOnly; SfCertMissing; SfCertGarbage; SfMismatch;
   SfCaMissing; SfCaGarbage; SfVccNoCa; SfNoTag; SfDupTag; SfNoAddr; SfScheme; SfBadTag; SfNoFile; SfBadData;
   SfNoSet; SfNoUp; SfNoMarker; SfBadMarker; SfBadRedis; SfHeldByRouter false; SfHeldByRouter true].

Definition si_fault_ok (k : si_kind) (f : si_fault) : bool :=
  match si_fault_stmt k f with
  | Some j => match nth_error (si_prog_of false k) j with Some s => si_can_fail (si_do s) | None => false end
  | None => true
  end.

Lemma si_faults_ok : forallb (fun k => forallb (si_fault_ok k) si_all_faults) si_all_kinds = true.
Proof. vm_compute. reflexivity. Qed.

Lemma si_exec_fails p : forall j f st s,
  nth_error p f = Some s -> si_can_fail (si_do s) = true -> snd (si_exec p j (Some (j + f)) st) = true.
Proof.
  induction p as [|s0 tl IH]; intros j f st s Hn Hc; [destruct f; discriminate|].
  destruct f as [|f]; cbn in Hn.
  - inversion Hn; subst. cbn. rewrite Nat.add_0_r, Nat.eqb_refl, Hc. reflexivity.
  - cbn. assert (j + S f =? j = false) as -> by (apply Nat.eqb_neq; lia). cbn.
    replace (j + S f) with (S j + f) by lia. eapply IH; eauto.
Qed.

Lemma si_all_faults_complete f : In f si_all_faults.
Proof. destruct f as [| | | | | | | | | | | | | | | | | | | | | | | |[|]]; cbn; tauto. Qed.

(* a configuration fault that is an error makes run() report an error (for every component kind) *)
Lemma si_fault_reported k f j :
  In k si_all_kinds -> si_fault_stmt k f = Some j ->
  snd (si_run [si_prog_of false k] (Some (0, j))) = Some 0.
Proof.
  intros Hk Hf. pose proof si_faults_ok as A. rewrite forallb_forall in A. specialize (A k Hk).
  rewrite forallb_forall in A. specialize (A f (si_all_faults_complete f)). unfold si_fault_ok in A.
  rewrite Hf in A. destruct (nth_error (si_prog_of false k) j) as [s|] eqn:En; [|discriminate].
  pose proof (si_exec_fails (si_prog_of false k) 0 j si_st0 s En A) as B. cbn in B.
  unfold si_run. cbn. destruct (si_exec (si_prog_of false k) 0 (Some j) si_st0) as [st' b]. cbn in B. subst b.
  reflexivity.
Qed.

(* the certificate clause: a listener that needs a certificate and has none, half of one, an unreadable or a
   mismatching one, or a bad ca file, does not start *)
Lemma si_bad_cert_is_error :
  forallb (fun s => forallb (fun f => match si_fault_stmt (SiKSrv s) f with Some _ => true | None => false end)
                      [SfNoCert; SfCertOnly; SfKeyOnly; SfCertMissing; SfCertGarbage; SfMismatch; SfCaMissing;
                       SfCaGarbage; SfVccNoCa])
          [SiSrvTls; SiSrvHttps; SiSrvQuic] = true.
Proof. reflexivity. Qed.

(* ---- address held by another instance of the router ---- *)
(* the code refuses the second instance exactly when the listener's sockets do not carry SO_REUSEPORT *)
Lemma si_refuses_spec k rp :
  In k si_all_kinds ->
  si_refuses k rp = match k with
                    | SiKMetrics => true
                    | SiKSrv s => negb ((rp && si_applies_sockopts s) || si_threads_reuseport s)
                    | _ => false
                    end.
Proof.
  intros _. destruct k as [|u| | |m r mk|s]; try reflexivity.
  destruct s, rp; reflexivity.
Qed.

(* wherever the property demands a refusal the code refuses, and nowhere else *)
Lemma si_must_refuse_holds k rp :
  si_must_refuse k rp = true -> si_refuses k rp = true.
Proof.
  destruct k as [|u| | |m r mk|s]; cbn; try discriminate; auto.
  destruct s, rp; cbn; auto; try discriminate.
Qed.

Lemma si_refuses_iff_must k rp : si_refuses k rp = si_must_refuse k rp.
Proof.
  destruct k as [|u| | |m r mk|s]; try reflexivity;
    try (destruct u; reflexivity); try (destruct m, r, mk; reflexivity).
  destruct s, rp; reflexivity.
Qed.

(* udp.threads >= 2 implies SO_REUSEPORT: a further instance shares the address, with or without so_reuseport *)
Lemma si_udp_threads_shares rp :
  si_must_refuse (SiKSrv SiSrvUdpN) rp = false /\ si_refuses (SiKSrv SiSrvUdpN) rp = false.
Proof. destruct rp; split; reflexivity. Qed.

(* ---- closers and their peers ---- *)
Lemma si_close_walk_no_wait cl :
  si_no_peer_wait (map fst cl) = true -> si_close_walk cl = (length cl, true).
Proof.
  induction cl as [|[w st] tl IH]; cbn; [reflexivity|]. intros H. apply andb_true_iff in H. destruct H as [Hw Ht].
  rewrite (IH Ht). destruct w; try discriminate; reflexivity.
Qed.

(* conversely: with a closer that waits for its peers there is a peer behaviour that blocks close, and no closer
   behind it is called *)
Lemma si_close_walk_blocks pre post :
  si_no_peer_wait pre = true ->
  si_close_walk (map (fun w => (w, true)) (pre ++ SiWaitPeers :: post)) = (length pre, false).
Proof.
  induction pre as [|w tl IH]; cbn; [reflexivity|]. intros H. apply andb_true_iff in H. destruct H as [Hw Ht].
  rewrite (IH Ht). destruct w; try discriminate; reflexivity.
Qed.

Lemma si_closer_wait_not_peers k w : si_closer_wait k = Some w -> w <> SiWaitPeers.
Proof.
  destruct k as [|u| | |m r mk|s]; cbn; intros E; try discriminate; try (inversion E; subst; discriminate).
  destruct s; inversion E; subst; discriminate.
Qed.

Lemma si_closers_no_peer_wait items : si_no_peer_wait (map fst (si_closers items)) = true.
Proof.
  induction items as [|[k st] tl IH]; [reflexivity|]. cbn [si_closers].
  destruct (si_closer_wait k) as [w|] eqn:E; [|exact IH].
  cbn [map fst si_no_peer_wait forallb]. fold (si_no_peer_wait (map fst (si_closers tl))). rewrite IH.
  pose proof (si_closer_wait_not_peers k w E) as N. destruct w; [reflexivity|reflexivity|now elim N].
Qed.

Lemma si_close_always_returns items :
  si_close_walk (si_closers items) = (length (si_closers items), true).
Proof. apply si_close_walk_no_wait. apply si_closers_no_peer_wait. Qed.

(* ---- round 8 ---- *)
Lemma si_dial_tls_safe : si_safeb (si_prog_dial_tls true) = true /\ si_safeb (si_prog_dial_tls false) = false.
Proof. split; reflexivity. Qed.

Lemma si_cache_close_all mem redis :
  si_cache_close false (si_cache_tiers mem redis) = si_cache_tiers mem redis /\
  NoDup (si_cache_tiers mem redis) /\ si_cache_left false mem redis = [].
Proof. destruct mem, redis; cbn; repeat split; repeat constructor; cbn; intuition discriminate. Qed.

Lemma si_cache_close_early_leaves : si_cache_left true true true = [SiTierRedis].
Proof. reflexivity. Qed.
