(* Router/Startup.v — model of app/router/router.go  run / close / closeImpl  (C18).

   run(cfg) performs a fixed sequence of initialisation steps; some of them register something that
   closeImpl later releases:

     regMetrics                       nothing to release
     metrics listener (optional)      r.serverClosers = append(.., func(){ s.Close() })
     initUpstream  (per upstream)     r.upstreams[tag] = w            -> u.u.Close()
     loadDomainSet (per set)          nothing to release
     loadRule      (per rule)         nothing to release
     initCache                        r.cache = cache                 -> r.cache.Close()   (skipped when nil)
     startServer   (per server)       r.serverClosers = append(.., closer)

   and has   defer func(){ if err != nil { r.close(err) } }()   so that a failing step releases what the
   earlier steps registered.  close = closeOnce.Do(closeImpl);  closeImpl = cancel; limiter.Close();
   every upstream; the cache; every server closer, in registration order.

   Closers are modelled as [option nat] (Some i = the closer registered by step i, None = a nil func):
   calling a nil closer is the Go nil-pointer panic, reported as the [Panicked] su_outcome.

   [run]        = the code as FIXED (D13): a server closer is appended only when startServer succeeded.
   [run_pinned] = the pinned tree: `closer, err := r.startServer(..); r.serverClosers = append(.., closer)`
                  BEFORE the error test, i.e. a failing server appends nil and the deferred close calls it.

   Upstreams live in a Go map: the order in which closeImpl closes them is the (unspecified) map order; the
   model uses registration order and the harness compares them as a set. *)
From Mos Require Import Base.Prelude.

Inductive skind := SMetricsReg | SMetricsListen | SUpstream | SDomainSet | SRule | SCache | SServer.

Record istep := { s_kind : skind; s_ok : bool }.

(* what closeImpl does, in order *)
Inductive call := CCancel | CLimiter | CUp (i : nat) | CCache (i : nat) | CSrv (i : nat).

Record su_rt := {
  r_ups   : list nat;              (* r.upstreams (registration order) *)
  r_cache : option nat;            (* r.cache *)
  r_srv   : list (option nat);     (* r.serverClosers; None = nil func *)
  r_once  : bool                   (* closeOnce already fired *)
}.

Definition rt0 : su_rt := {| r_ups := []; r_cache := None; r_srv := []; r_once := false |}.

Inductive su_outcome :=
| Started  (r : su_rt)
| Failed   (k : nat) (calls : list call)    (* error of step k reported after running [calls] *)
| Panicked (k : nat) (calls : list call).   (* nil closer called while closing after step k failed *)

(* for _, f := range r.serverClosers { f() } *)
Fixpoint call_closers (l : list (option nat)) : list call * bool :=
  match l with
  | [] => ([], false)
  | Some i :: tl => let '(c, p) := call_closers tl in (CSrv i :: c, p)
  | None :: _ => ([], true)
  end.

Definition close_impl (r : su_rt) : list call * bool :=
  let '(sc, p) := call_closers (r_srv r) in
  ([CCancel; CLimiter] ++ map CUp (r_ups r)
     ++ (match r_cache r with Some i => [CCache i] | None => [] end) ++ sc, p).

(* r.close(err): sync.Once *)
Definition close (r : su_rt) : su_rt * (list call * bool) :=
  if r_once r then (r, ([], false))
  else ({| r_ups := r_ups r; r_cache := r_cache r; r_srv := r_srv r; r_once := true |}, close_impl r).

(* effect of step number i on the router's registrations *)
Definition reg (pinned : bool) (i : nat) (s : istep) (r : su_rt) : su_rt :=
  match s_kind s, s_ok s with
  | SMetricsListen, true =>
      {| r_ups := r_ups r; r_cache := r_cache r; r_srv := r_srv r ++ [Some i]; r_once := r_once r |}
  | SUpstream, true =>
      {| r_ups := r_ups r ++ [i]; r_cache := r_cache r; r_srv := r_srv r; r_once := r_once r |}
  | SCache, true =>
      {| r_ups := r_ups r; r_cache := Some i; r_srv := r_srv r; r_once := r_once r |}
  | SServer, true =>
      {| r_ups := r_ups r; r_cache := r_cache r; r_srv := r_srv r ++ [Some i]; r_once := r_once r |}
  | SServer, false =>
      if pinned
      then {| r_ups := r_ups r; r_cache := r_cache r; r_srv := r_srv r ++ [None]; r_once := r_once r |}
      else r
  | _, _ => r
  end.

Fixpoint run_from (pinned : bool) (i : nat) (steps : list istep) (r : su_rt) : su_outcome :=
  match steps with
  | [] => Started r
  | s :: tl =>
      let r' := reg pinned i s r in
      if s_ok s then run_from pinned (S i) tl r'
      else let '(calls, p) := snd (close r') in
           if p then Panicked i calls else Failed i calls
  end.

Definition run (steps : list istep) : su_outcome := run_from false 0 steps rt0.
Definition run_pinned (steps : list istep) : su_outcome := run_from true 0 steps rt0.

(* ---- the specification side: which calls a close after the successful prefix [pre] must make ---- *)
Definition is_up (k : skind) : bool := match k with SUpstream => true | _ => false end.
Definition is_cache (k : skind) : bool := match k with SCache => true | _ => false end.
Definition is_srv (k : skind) : bool := match k with SMetricsListen | SServer => true | _ => false end.

Fixpoint idx_where (p : skind -> bool) (off : nat) (l : list istep) : list nat :=
  match l with
  | [] => []
  | s :: tl => (if p (s_kind s) then [off] else []) ++ idx_where p (S off) tl
  end.

Definition expected (pre : list istep) : list call :=
  [CCancel; CLimiter] ++ map CUp (idx_where is_up 0 pre) ++ map CCache (idx_where is_cache 0 pre)
    ++ map CSrv (idx_where is_srv 0 pre).

(* the closer a successful step of kind k at position i registers *)
Definition closer_of (i : nat) (k : skind) : option call :=
  if is_up k then Some (CUp i) else if is_cache k then Some (CCache i) else if is_srv k then Some (CSrv i) else None.

Definition all_ok (l : list istep) : bool := forallb s_ok l.
Definition cache_once (l : list istep) : bool := length (idx_where is_cache 0 l) <=? 1.

(* ---- the canonical shape of a configuration (what the harness generates) ----
   metrics listener present?; number of upstreams, domain sets, rules, servers;
   [fail] = position (in the resulting step list) of the failing step, if any. *)
Definition cfg_kinds (metrics : bool) (nu nd nr ns : nat) : list skind :=
  [SMetricsReg] ++ (if metrics then [SMetricsListen] else []) ++ repeat SUpstream nu ++ repeat SDomainSet nd
    ++ repeat SRule nr ++ [SCache] ++ repeat SServer ns.

Fixpoint mark_fail (i : nat) (fail : option nat) (ks : list skind) : list istep :=
  match ks with
  | [] => []
  | k :: tl => {| s_kind := k; s_ok := match fail with Some f => negb (i =? f) | None => true end |}
                 :: mark_fail (S i) fail tl
  end.

Definition cfg_steps (metrics : bool) (nu nd nr ns : nat) (fail : option nat) : list istep :=
  mark_fail 0 fail (cfg_kinds metrics nu nd nr ns).

(* observable summary used by the correspondence check:
   (class 0 = started / 1 = reported error / 2 = panic, number of server closers invoked,
    number of upstream closers invoked, nothing invoked twice and only registered closers invoked) *)
Definition count_srv (l : list call) : nat :=
  length (filter (fun c => match c with CSrv _ => true | _ => false end) l).
Definition count_up (l : list call) : nat :=
  length (filter (fun c => match c with CUp _ => true | _ => false end) l).

Definition call_eqb (a b : call) : bool :=
  match a, b with
  | CCancel, CCancel | CLimiter, CLimiter => true
  | CUp i, CUp j | CCache i, CCache j | CSrv i, CSrv j => i =? j
  | _, _ => false
  end.

Fixpoint nodupb (l : list call) : bool :=
  match l with [] => true | x :: tl => negb (existsb (call_eqb x) tl) && nodupb tl end.

(* executable oracle of C18_startup_release for one run: the first failing position is k, the calls are
   exactly [expected (firstn k steps)] and contain no duplicate *)
Fixpoint call_list_eqb (a b : list call) : bool :=
  match a, b with
  | [], [] => true
  | x :: a', y :: b' => call_eqb x y && call_list_eqb a' b'
  | _, _ => false
  end.

Definition startup_oracle (steps : list istep) (o : su_outcome) : bool :=
  match o with
  | Started _ => all_ok steps
  | Failed k calls =>
      all_ok (firstn k steps) && negb (s_ok (nth k steps {| s_kind := SRule; s_ok := true |}))
      && (k <? length steps) && call_list_eqb calls (expected (firstn k steps)) && nodupb calls
  | Panicked _ _ => false
  end.

Definition summary (o : su_outcome) : nat * nat * nat :=
  match o with
  | Started r => (0, length (r_srv r), length (r_ups r))
  | Failed _ calls => (1, count_srv calls, count_up calls)
  | Panicked _ calls => (2, count_srv calls, count_up calls)
  end.

(* a started router closed twice: calls of the first and of the second close *)
Definition close_twice (o : su_outcome) : option ((list call * bool) * (list call * bool)) :=
  match o with
  | Started r => let '(r1, c1) := close r in let '(_, c2) := close r1 in Some (c1, c2)
  | _ => None
  end.
