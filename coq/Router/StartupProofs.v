(* Router/StartupProofs.v — proofs about Router/Startup.v (C18: failed start-up releases in order, no nil call). *)
From Mos Require Import Base.Prelude Router.Startup.

Fixpoint regs (b : bool) (off : nat) (pre : list istep) (r : su_rt) : su_rt :=
  match pre with [] => r | s :: tl => regs b (S off) tl (reg b off s r) end.

Lemma run_from_ok_prefix : forall pre b off r rest,
  all_ok pre = true ->
  run_from b off (pre ++ rest) r = run_from b (off + length pre) rest (regs b off pre r).
Proof.
  induction pre as [|s tl IH]; intros b off r rest H; cbn.
  - now rewrite Nat.add_0_r.
  - cbn in H. apply andb_true_iff in H. destruct H as [Hs Ht]. rewrite Hs.
    rewrite IH by exact Ht. f_equal. lia.
Qed.

Lemma last_nonempty_default {A} (l : list A) : forall x d d', last (x :: l) d = last (x :: l) d'.
Proof. induction l as [|y l IH]; intros x d d'; [reflexivity|]. cbn [last] in *. apply IH. Qed.

Lemma last_cons {A} (a : A) l d : last (a :: l) d = last l a.
Proof. destruct l as [|x l]; [reflexivity|]. cbn [last]. apply last_nonempty_default. Qed.

Lemma regs_fields : forall pre b off r,
  all_ok pre = true ->
  r_ups (regs b off pre r) = r_ups r ++ idx_where is_up off pre /\
  r_srv (regs b off pre r) = r_srv r ++ map Some (idx_where is_srv off pre) /\
  r_cache (regs b off pre r) = last (map Some (idx_where is_cache off pre)) (r_cache r) /\
  r_once (regs b off pre r) = r_once r.
Proof.
  induction pre as [|s tl IH]; intros b off r H; cbn.
  - now rewrite !app_nil_r.
  - cbn in H. apply andb_true_iff in H. destruct H as [Hs Ht].
    destruct (IH b (S off) (reg b off s r) Ht) as (A & B & C & D).
    rewrite A, B, C, D. clear A B C D IH.
    unfold reg. rewrite Hs. destruct s as [k ok]; cbn in *; subst ok.
    destruct k; cbn; rewrite <- ?app_assoc; cbn; repeat split; try reflexivity.
    destruct (map Some (idx_where is_cache (S off) tl)) as [|y l]; [reflexivity|apply last_nonempty_default].
Qed.

Lemma call_closers_some l : call_closers (map Some l) = (map CSrv l, false).
Proof. induction l as [|x l IH]; cbn; [reflexivity|]. now rewrite IH. Qed.

Lemma reg_failed s i r : s_ok s = false -> reg false i s r = r.
Proof. unfold reg. intros ->. destruct (s_kind s); reflexivity. Qed.

Lemma cache_once_last pre :
  cache_once pre = true ->
  (match last (map Some (idx_where is_cache 0 pre)) None with Some i => [CCache i] | None => [] end)
  = map CCache (idx_where is_cache 0 pre).
Proof.
  unfold cache_once. intros H. apply Nat.leb_le in H.
  destruct (idx_where is_cache 0 pre) as [|a [|b l]]; cbn in *; try reflexivity. lia.
Qed.

Lemma close_after_prefix pre :
  all_ok pre = true -> cache_once pre = true ->
  close_impl (regs false 0 pre rt0) = (expected pre, false).
Proof.
  intros Hok Hc. destruct (regs_fields pre false 0 rt0 Hok) as (A & B & C & D).
  unfold close_impl. rewrite A, B, C. cbn [rt0 r_ups r_srv r_cache app].
  rewrite call_closers_some. rewrite cache_once_last by exact Hc. reflexivity.
Qed.

(* ---------------- C18_startup_release ---------------- *)
Lemma startup_release pre s post :
  all_ok pre = true -> s_ok s = false -> cache_once pre = true ->
  run (pre ++ s :: post) = Failed (length pre) (expected pre).
Proof.
  intros Hok Hs Hc. unfold run. rewrite run_from_ok_prefix by exact Hok.
  cbn [run_from]. rewrite Hs. rewrite reg_failed by exact Hs.
  unfold close. destruct (regs_fields pre false 0 rt0 Hok) as (_ & _ & _ & D). rewrite D. cbn [rt0 r_once snd].
  rewrite close_after_prefix by assumption. reflexivity.
Qed.

Lemma run_never_panics_aux : forall steps off r,
  (exists l, r_srv r = map Some l) ->
  match run_from false off steps r with Panicked _ _ => False | _ => True end.
Proof.
  induction steps as [|s tl IH]; intros off r [l Hl]; cbn; [exact I|].
  destruct (s_ok s) eqn:Hs.
  - apply IH. unfold reg. rewrite Hs. destruct (s_kind s); cbn; eauto;
      exists (l ++ [off]); rewrite Hl, map_app; reflexivity.
  - rewrite reg_failed by exact Hs. unfold close, close_impl. destruct (r_once r); cbn; [exact I|].
    rewrite Hl, call_closers_some. exact I.
Qed.

(* the fixed code never calls a nil closer, whatever the step list *)
Lemma run_never_panics steps : forall k c, run steps <> Panicked k c.
Proof.
  intros k c H. pose proof (run_never_panics_aux steps 0 rt0 (ex_intro _ [] eq_refl)) as P.
  unfold run in H. rewrite H in P. exact P.
Qed.

Lemma started_close pre :
  all_ok pre = true -> cache_once pre = true ->
  exists r, run pre = Started r /\
            snd (close r) = (expected pre, false) /\
            snd (close (fst (close r))) = ([], false).
Proof.
  intros Hok Hc. exists (regs false 0 pre rt0). split.
  - unfold run. rewrite <- (app_nil_r pre) at 1. rewrite run_from_ok_prefix by exact Hok. reflexivity.
  - destruct (regs_fields pre false 0 rt0 Hok) as (_ & _ & _ & D).
    unfold close. rewrite D. cbn. split; [apply close_after_prefix; assumption|reflexivity].
Qed.

(* close is once-only for every router state *)
Lemma close_once r : snd (close (fst (close r))) = ([], false).
Proof. unfold close. destruct (r_once r) eqn:E; cbn; [rewrite E|]; reflexivity. Qed.

(* ---------------- what [expected] contains ---------------- *)
Lemma idx_where_in p : forall l off x,
  In x (idx_where p off l) <-> off <= x < off + length l /\
                               p (s_kind (nth (x - off) l {| s_kind := SRule; s_ok := true |})) = true.
Proof.
  induction l as [|s tl IH]; intros off x; cbn.
  - split; [tauto|]. intros [H _]. lia.
  - rewrite in_app_iff, IH. split.
    + intros [H|H].
      * destruct (p (s_kind s)) eqn:E; cbn in H; [|tauto]. destruct H as [<-|[]].
        rewrite Nat.sub_diag. split; [lia|exact E].
      * destruct H as [H1 H2]. split; [lia|]. destruct (x - off) as [|n] eqn:En; [lia|].
        replace (x - S off) with n in H2 by lia. exact H2.
    + intros [H1 H2]. destruct (Nat.eq_dec x off) as [->|Hne].
      * left. rewrite Nat.sub_diag in H2. rewrite H2. now left.
      * right. split; [lia|]. destruct (x - off) as [|n] eqn:En; [lia|].
        replace (x - S off) with n by lia. exact H2.
Qed.

Lemma idx_where_nodup p : forall l off, NoDup (idx_where p off l).
Proof.
  induction l as [|s tl IH]; intros off; cbn; [constructor|].
  destruct (p (s_kind s)); cbn; [|apply IH]. constructor; [|apply IH].
  intros H. apply idx_where_in in H. lia.
Qed.

Lemma nodup_app {A} (a b : list A) :
  NoDup a -> NoDup b -> (forall x, In x a -> ~ In x b) -> NoDup (a ++ b).
Proof.
  induction a as [|x a IH]; intros Ha Hb Hd; cbn; [exact Hb|].
  inversion Ha; subst. constructor.
  - rewrite in_app_iff. intros [H|H]; [tauto|]. apply (Hd x); [now left|exact H].
  - apply IH; auto. intros y Hy. apply Hd. now right.
Qed.

Lemma nodup_map_inj {A B} (f : A -> B) l : (forall x y, f x = f y -> x = y) -> NoDup l -> NoDup (map f l).
Proof.
  intros Hf. induction 1 as [|x l Hx Hl IH]; cbn; constructor; auto.
  rewrite in_map_iff. intros [y [E Hy]]. apply Hf in E. subst. tauto.
Qed.

Lemma expected_nodup pre : NoDup (expected pre).
Proof.
  unfold expected.
  assert (U : NoDup (map CUp (idx_where is_up 0 pre))) by (apply nodup_map_inj; [congruence|apply idx_where_nodup]).
  assert (C : NoDup (map CCache (idx_where is_cache 0 pre))) by (apply nodup_map_inj; [congruence|apply idx_where_nodup]).
  assert (S : NoDup (map CSrv (idx_where is_srv 0 pre))) by (apply nodup_map_inj; [congruence|apply idx_where_nodup]).
  apply nodup_app.
  - constructor; [cbn; intros [H|[]]; discriminate|]. constructor; [tauto|constructor].
  - apply nodup_app; [exact U| |].
    + apply nodup_app; [exact C|exact S|].
      intros x H1 H2. apply in_map_iff in H1. apply in_map_iff in H2.
      destruct H1 as [a [<- _]]. destruct H2 as [b [E _]]. discriminate.
    + intros x H1 H2. apply in_map_iff in H1. destruct H1 as [a [<- _]].
      apply in_app_iff in H2. destruct H2 as [H2|H2]; apply in_map_iff in H2; destruct H2 as [b [E _]]; discriminate.
  - intros x H1 H2. rewrite !in_app_iff in H2.
    destruct H1 as [<-|[<-|[]]]; destruct H2 as [H2|[H2|H2]]; apply in_map_iff in H2; destruct H2 as [b [E _]]; discriminate.
Qed.

Definition dstep := {| s_kind := SRule; s_ok := true |}.

(* every closer registered by a step of the prefix is invoked ... *)
Lemma expected_complete pre i c :
  i < length pre -> closer_of i (s_kind (nth i pre dstep)) = Some c -> In c (expected pre).
Proof.
  intros Hi Hc. unfold expected, closer_of in *. rewrite !in_app_iff.
  destruct (is_up (s_kind (nth i pre dstep))) eqn:U.
  { inversion Hc; subst. right; left. apply in_map. apply idx_where_in. rewrite Nat.sub_0_r. split; [lia|exact U]. }
  destruct (is_cache (s_kind (nth i pre dstep))) eqn:C.
  { inversion Hc; subst. right; right; left. apply in_map. apply idx_where_in. rewrite Nat.sub_0_r. split; [lia|exact C]. }
  destruct (is_srv (s_kind (nth i pre dstep))) eqn:S; [|discriminate].
  inversion Hc; subst. right; right; right. apply in_map. apply idx_where_in. rewrite Nat.sub_0_r. split; [lia|exact S].
Qed.

(* ... and nothing else is: every call is cancel, the limiter, or the closer of a step of the prefix *)
Lemma expected_sound pre c :
  In c (expected pre) ->
  c = CCancel \/ c = CLimiter \/ exists i, i < length pre /\ closer_of i (s_kind (nth i pre dstep)) = Some c.
Proof.
  unfold expected. rewrite !in_app_iff. intros [H|[H|[H|H]]].
  - destruct H as [<-|[<-|[]]]; auto.
  - apply in_map_iff in H. destruct H as [i [<- H]]. apply idx_where_in in H. rewrite Nat.sub_0_r in H.
    right; right. exists i. split; [lia|]. unfold closer_of, dstep. destruct H as [_ H]. rewrite H. reflexivity.
  - apply in_map_iff in H. destruct H as [i [<- H]]. apply idx_where_in in H. rewrite Nat.sub_0_r in H.
    right; right. exists i. split; [lia|]. unfold closer_of, dstep. destruct H as [_ H].
    destruct (s_kind (nth i pre _)); try discriminate. reflexivity.
  - apply in_map_iff in H. destruct H as [i [<- H]]. apply idx_where_in in H. rewrite Nat.sub_0_r in H.
    right; right. exists i. split; [lia|]. unfold closer_of, dstep. destruct H as [_ H].
    destruct (s_kind (nth i pre _)); try discriminate; reflexivity.
Qed.

(* the generated configuration shapes have exactly one cache step *)
Lemma idx_where_repeat_none p k n off : p k = false -> idx_where p off (mark_fail off None (repeat k n)) = [].
Proof. intros H. revert off. induction n as [|n IH]; intros off; cbn; [reflexivity|]. rewrite H. cbn. apply IH. Qed.

(* the pinned behaviour: a failing server is a nil closer that the deferred close calls *)
Lemma run_pinned_panics pre s post :
  all_ok pre = true -> s_ok s = false -> s_kind s = SServer ->
  exists c, run_pinned (pre ++ s :: post) = Panicked (length pre) c.
Proof.
  intros Hok Hs Hk. unfold run_pinned. rewrite run_from_ok_prefix by exact Hok.
  cbn [run_from]. rewrite Hs. unfold reg. rewrite Hk, Hs.
  destruct (regs_fields pre true 0 rt0 Hok) as (A & B & C & D).
  unfold close. cbn [r_once]. rewrite D. cbn [rt0 r_once snd]. unfold close_impl. cbn [r_srv r_ups r_cache].
  rewrite B. cbn [rt0 r_srv app].
  assert (forall l, call_closers (map Some l ++ [None]) = (map CSrv l, true)) as E.
  { induction l as [|x l IH]; cbn; [reflexivity|]. now rewrite IH. }
  rewrite E. eexists. reflexivity.
Qed.
