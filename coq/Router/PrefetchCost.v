(* Router/PrefetchCost.v — what a client is CHARGED (resource limiter, app/router/limiter.go) for its queries,
   and that a background refresh (asyncSingleFlightPrefetch / doPrefetch) is charged to nobody.  C19: "the hit is
   answered immediately from cache", "a failed refresh leaves the old entry usable": the prefetch must be invisible
   to the hit path — also to the budget that lets in the client's next hit.

     listener:   Accept / OnOpen     limiterAllowN(peer,   costTCPConn = 3)     refused -> the connection is closed
     server:     per query           limiterAllowN(client, costUDPQuery = 1 | costTCPQuery = 2 | costHTTPQuery = 2)
                                                                                refused -> REFUSED (udp), close, 503
     handleReq:  cache hit           limiterAllowN(client, costFromCache = 1)       result ignored
                 cache miss          limiterAllowN(client, costFromUpstream = 3)    result ignored, then forward()
     doPrefetch: forward()           no charge: forward() itself does not touch the limiter

   peer = the address of the transport connection, client = the address the router attributes the query to (DoH:
   the client-address header; otherwise the peer).  limiterAllowN does nothing for an invalid address (None).
   Quirks of the cost table that this file mirrors and C15 owns: the gnet server charges no per-query cost, the
   fasthttp server charges nothing at all (neither connection nor query).

   resourceLimiter.AllowN(addr, n): the global bucket first (refused -> nothing else happens), then the client's
   bucket (refused -> the global tokens are already gone).  Buckets are token buckets; this model has NO refill
   (the correspondence check installs a negligible rate), so tokens are integers.  Every query arrives on a new
   connection (what the harness does).  No proofs in this file. *)
From Mos Require Import Base.Prelude.

Local Open Scope Z_scope.

Inductive pco_listener := PcoUdp | PcoTcp | PcoGnet | PcoHttp | PcoFast.

Definition pco_conn_cost (l : pco_listener) : Z :=
  match l with PcoUdp => 0 | PcoTcp => 3 | PcoGnet => 3 | PcoHttp => 3 | PcoFast => 0 end.
Definition pco_query_cost (l : pco_listener) : Z :=
  match l with PcoUdp => 1 | PcoTcp => 2 | PcoGnet => 0 | PcoHttp => 2 | PcoFast => 0 end.

Inductive pco_kind := PcoHit | PcoMiss.
Definition pco_kind_cost (k : pco_kind) : Z := match k with PcoHit => 1 | PcoMiss => 3 end.

(* buckets are named by the masked address (a number); a bucket that was never used is full *)
Record pco_state := mkPco { pco_g : option Z; pco_b : list (N * Z) }.

Fixpoint pco_find (k : N) (l : list (N * Z)) : option Z :=
  match l with
  | [] => None
  | (k', t) :: r => if N.eqb k k' then Some t else pco_find k r
  end.
Definition pco_tok (burst : Z) (st : pco_state) (k : N) : Z :=
  match pco_find k (pco_b st) with Some t => t | None => burst end.
Definition pco_set (st : pco_state) (k : N) (t : Z) : pco_state := mkPco (pco_g st) ((k, t) :: pco_b st).

(* router.limiterAllowN -> resourceLimiter.AllowN *)
Definition pco_allow (burst : Z) (st : pco_state) (a : option N) (n : Z) : pco_state * bool :=
  match a with
  | None => (st, true)
  | Some k =>
      let client (s : pco_state) : pco_state * bool :=
        let t := pco_tok burst s k in
        if n <=? t then (pco_set s k (t - n), true) else (s, false) in
      match pco_g st with
      | None => client st
      | Some g => if n <=? g then client (mkPco (Some (g - n)) (pco_b st)) else (st, false)
      end
  end.

(* a cost of 0 = the code has no call at that point *)
Definition pco_charge (burst : Z) (st : pco_state) (a : option N) (n : Z) : pco_state * bool :=
  if 0 <? n then pco_allow burst st a n else (st, true).

Inductive pco_ev :=
| PcoReq (l : pco_listener) (peer client : option N) (k : pco_kind)  (* one query on a new connection; k = what the cache says *)
| PcoRefresh (by_client : option N).   (* forward() of a background refresh started by a hit of that client *)

Inductive pco_res :=
| PcoDropped                 (* the connection was refused *)
| PcoRefused                 (* the query was refused (REFUSED / closed / 503) *)
| PcoAnswered (k : pco_kind)  (* answered from the cache / by the upstream *)
| PcoBackground.

(* fwd = false: the code.  fwd = true: the variant that charges costFromUpstream inside forward() (for a miss that is
   the same charge at a slightly later point; for a refresh it is a charge the code does not make) *)
Definition pco_step (fwd : bool) (burst : Z) (st : pco_state) (e : pco_ev) : pco_state * pco_res :=
  match e with
  | PcoReq l peer client k =>
      let (st1, ok1) := pco_charge burst st peer (pco_conn_cost l) in
      if negb ok1 then (st1, PcoDropped) else
      let (st2, ok2) := pco_charge burst st1 client (pco_query_cost l) in
      if negb ok2 then (st2, PcoRefused) else
      (fst (pco_allow burst st2 client (pco_kind_cost k)), PcoAnswered k)
  | PcoRefresh c =>
      if fwd then (fst (pco_allow burst st c (pco_kind_cost PcoMiss)), PcoBackground) else (st, PcoBackground)
  end.

Fixpoint pco_run (fwd : bool) (burst : Z) (st : pco_state) (evs : list pco_ev) : pco_state * list pco_res :=
  match evs with
  | [] => (st, [])
  | e :: t => let (st1, r) := pco_step fwd burst st e in
              let (st2, rs) := pco_run fwd burst st1 t in (st2, r :: rs)
  end.

Definition pco_init (gburst : option Z) : pco_state := mkPco gburst [].

(* ------------------------------------------------------------------ the cost of a client's OWN requests *)
Definition pco_is (b : N) (a : option N) : bool := match a with Some k => N.eqb k b | None => false end.
Definition pco_valid (a : option N) : bool := match a with Some _ => true | None => false end.

(* what event e asks of bucket b / of the global bucket: requests only *)
Definition pco_own (b : N) (e : pco_ev) : Z :=
  match e with
  | PcoReq l peer client k =>
      (if pco_is b peer then pco_conn_cost l else 0) +
      (if pco_is b client then pco_query_cost l + pco_kind_cost k else 0)
  | PcoRefresh _ => 0
  end.
Definition pco_gown (e : pco_ev) : Z :=
  match e with
  | PcoReq l peer client k =>
      (if pco_valid peer then pco_conn_cost l else 0) +
      (if pco_valid client then pco_query_cost l + pco_kind_cost k else 0)
  | PcoRefresh _ => 0
  end.
Definition pco_total (b : N) (evs : list pco_ev) : Z := fold_right (fun e a => pco_own b e + a) 0 evs.
Definition pco_gtotal (evs : list pco_ev) : Z := fold_right (fun e a => pco_gown e + a) 0 evs.

Definition pco_is_req (e : pco_ev) : bool := match e with PcoReq _ _ _ _ => true | PcoRefresh _ => false end.
Definition pco_is_bg (r : pco_res) : bool := match r with PcoBackground => true | _ => false end.
Definition pco_answered (r : pco_res) : bool := match r with PcoAnswered _ | PcoBackground => true | _ => false end.
