(* Router/StartOrder.v : the ORDER of run()'s initialisation steps as seen by a listener goroutine.
   run() (app/router/router.go) initialises, in this order: metrics endpoint, upstreams, domain sets, rules, cache,
   and only then starts the servers.  The listener goroutines read r.rules / the domain-set matchers without any
   synchronisation with run(): what a query sees is whatever has been initialised when it arrives.  Model: the state
   visible to a handler = which domain sets are loaded, the rule list built so far, whether a listener is answering;
   a start-up program is a list of steps; a query may arrive after ANY prefix of the program. *)
From Mos Require Import Base.Prelude Router.Rules.

Inductive so_step :=
| SoSet (i : nat)        (* domain set #i loaded (before: its matcher matches nothing / does not exist) *)
| SoRule (r : rule)      (* initRule: the rule is appended to r.rules *)
| SoOther                (* metrics endpoint, an upstream, the cache: nothing the rule decision reads *)
| SoServe.               (* a listener starts answering *)

Record so_state := mkSo { so_loaded : list nat; so_rules : list rule; so_serving : bool }.

Definition so_init : so_state := mkSo [] [] false.

Definition so_exec1 (s : so_state) (st : so_step) : so_state :=
  match st with
  | SoSet i => mkSo (i :: so_loaded s) (so_rules s) (so_serving s)
  | SoRule r => mkSo (so_loaded s) (so_rules s ++ [r]) (so_serving s)
  | SoOther => s
  | SoServe => mkSo (so_loaded s) (so_rules s) true
  end.

Definition so_exec (p : list so_step) : so_state := fold_left so_exec1 p so_init.

Section Decide.
  Variable matches : nat -> list N -> bool.       (* the fully loaded domain sets *)

  Definition so_is_loaded (s : so_state) (i : nat) : bool := existsb (Nat.eqb i) (so_loaded s).
  (* what the handler sees of domain set #i in state s *)
  Definition so_matches (s : so_state) (i : nat) (name : list N) : bool := so_is_loaded s i && matches i name.

  (* the decision a query arriving in state s gets; None = nobody is listening yet (the query is lost) *)
  Definition so_decide (s : so_state) (name : list N) : option action :=
    if so_serving s then Some (decide (so_matches s) (so_rules s) name) else None.
End Decide.

(* run(): sets, then rules, then (cache etc.), then the servers *)
Definition so_run_prog (nsets : nat) (rules : list rule) (nservers : nat) : list so_step :=
  SoOther :: map SoSet (seq 0 nsets) ++ map SoRule rules ++ SoOther :: repeat SoServe nservers.

(* every domain set a rule refers to exists (initRule fails otherwise) *)
Definition so_rules_ok (nsets : nat) (rules : list rule) : bool :=
  forallb (fun r => match ru_cond r with Some (i, _) => Nat.ltb i nsets | None => true end) rules.

(* the seeded order: servers first *)
Definition so_servers_first_prog (nsets : nat) (rules : list rule) (nservers : nat) : list so_step :=
  SoOther :: repeat SoServe nservers ++ map SoSet (seq 0 nsets) ++ map SoRule rules ++ [SoOther].
