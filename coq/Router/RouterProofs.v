(* Router/RouterProofs.v — facts about the request path model (C03, C10, C12). *)
From Mos Require Import Base.Prelude Codec.Name Codec.Msg Codec.Spec Codec.NameProofs Codec.SafetyProofs Codec.WfProofs
  Codec.RoundtripProofs Codec.TruncProofs Codec.CompressProofs Router.Rules Router.Edns Router.Router Router.RouterSpec.
From Coq Require Import ZifyN ZifyNat ZifyBool.

(* ====================== rules (C10) ====================== *)
Section RulesFacts.
  Variable matches : nat -> list N -> bool.

  Lemma applies_no_cond r name : ru_cond r = None -> applies matches r name = true.
  Proof. unfold applies. now intros ->. Qed.

  Lemma applies_cond r name s rev : ru_cond r = Some (s, rev) ->
    applies matches r name = if rev then negb (matches s name) else matches s name.
  Proof. unfold applies. intros ->. destruct rev, (matches s name); reflexivity. Qed.

  Lemma select_from_spec rules name : forall i0,
    match select_from matches i0 rules name with
    | Some (i, r) => i0 <= i /\ nth_error rules (i - i0) = Some r /\ applies matches r name = true /\
                     forall j r', j < i - i0 -> nth_error rules j = Some r' -> applies matches r' name = false
    | None => forall r, In r rules -> applies matches r name = false
    end.
  Proof.
    induction rules as [|r rules IH]; intros i0; cbn [select_from].
    - intros r [].
    - destruct (applies matches r name) eqn:E.
      + rewrite Nat.sub_diag. cbn. repeat split; auto. intros j r' Hj. lia.
      + specialize (IH (S i0)). destruct (select_from matches (S i0) rules name) as [[i r1]|].
        * destruct IH as (H1 & H2 & H3 & H4). split; [lia|].
          replace (i - i0) with (S (i - S i0)) by lia. cbn [nth_error]. repeat split; auto.
          intros [|j] r' Hj Hn; cbn in Hn; [now inversion Hn; subst|]. apply (H4 j); [lia|exact Hn].
        * intros r' [<-|Hin]; auto.
  Qed.

  (* first-match semantics: the selected rule is the first one in configured order whose condition holds *)
  Theorem select_first_match rules name i r : select matches rules name = Some (i, r) ->
    nth_error rules i = Some r /\ applies matches r name = true /\
    forall j r', j < i -> nth_error rules j = Some r' -> applies matches r' name = false.
  Proof.
    unfold select. intros H. pose proof (select_from_spec rules name 0) as S. rewrite H in S.
    rewrite Nat.sub_0_r in S. tauto.
  Qed.

  Theorem select_none rules name : select matches rules name = None ->
    forall r, In r rules -> applies matches r name = false.
  Proof. unfold select. intros H. pose proof (select_from_spec rules name 0) as S. now rewrite H in S. Qed.

  Lemma select_from_complete rules name : forall i r i0, nth_error rules i = Some r -> applies matches r name = true ->
    (forall j r', j < i -> nth_error rules j = Some r' -> applies matches r' name = false) ->
    select_from matches i0 rules name = Some (i0 + i, r).
  Proof.
    induction rules as [|r0 rules IH]; intros i r i0 Hn Ha Hb.
    - destruct i; discriminate.
    - cbn [select_from]. destruct i as [|i]; cbn in Hn.
      + inversion Hn; subst. rewrite Ha. f_equal. f_equal. lia.
      + rewrite (Hb 0 r0) by (cbn; auto; lia).
        rewrite (IH i r (S i0)); auto.
        * f_equal. f_equal. lia.
        * intros j r' Hj Hn'. apply (Hb (S j)); [lia|exact Hn'].
  Qed.

  Theorem select_complete rules name i r : nth_error rules i = Some r -> applies matches r name = true ->
    (forall j r', j < i -> nth_error rules j = Some r' -> applies matches r' name = false) ->
    select matches rules name = Some (i, r).
  Proof. intros. unfold select. now rewrite (select_from_complete rules name i r 0). Qed.

  (* the decision table *)
  Theorem decide_table rules name :
    match decide matches rules name with
    | ARefused => select matches rules name = None \/
                  exists i r, select matches rules name = Some (i, r) /\ ru_reject r = 0%N /\ ru_forward r = None
    | AReject rc => exists i r, select matches rules name = Some (i, r) /\ ru_reject r = rc /\ (0 < rc)%N
    | AForward u => exists i r, select matches rules name = Some (i, r) /\ ru_reject r = 0%N /\ ru_forward r = Some u
    end.
  Proof.
    unfold decide. destruct (select matches rules name) as [[i r]|]; [|now left].
    unfold action_of. destruct (0 <? ru_reject r)%N eqn:E.
    - exists i, r. repeat split; auto. now apply N.ltb_lt.
    - apply N.ltb_ge in E. assert (ru_reject r = 0%N) by lia.
      destruct (ru_forward r) as [u|] eqn:Ef; [exists i, r; repeat split; auto|right; exists i, r; repeat split; auto].
  Qed.
End RulesFacts.

(* ---------- loader: strictness ---------- *)
Lemma index_of_lt t tags i : index_of t tags = Some i -> i < length tags /\ nth_error tags i = Some t.
Proof.
  revert i; induction tags as [|x tags IH]; intros i H; cbn in H; [discriminate|].
  destruct (list_eqb t x) eqn:E.
  - inversion H; subst. apply list_eqb_eq in E. subst. cbn. split; [lia|reflexivity].
  - destruct (index_of t tags) as [j|]; [|discriminate]. inversion H; subst.
    destruct (IH j eq_refl). cbn. split; [lia|assumption].
Qed.

Lemma index_of_none t tags : index_of t tags = None -> ~ In t tags.
Proof.
  induction tags as [|x tags IH]; cbn; [tauto|]. destruct (list_eqb t x) eqn:E; [discriminate|].
  destruct (index_of t tags); [discriminate|]. intros _ [H|H]; [|now apply IH].
  subst. rewrite list_eqb_refl in E. discriminate.
Qed.

Lemma check_tags_ok tags : forall seen, check_tags seen tags = None ->
  NoDup tags /\ (forall t, In t tags -> t <> [] /\ ~ In t seen).
Proof.
  induction tags as [|t tags IH]; intros seen H; cbn in H.
  - split; [constructor|intros ? []].
  - destruct t as [|c t']; [discriminate|].
    destruct (index_of (c :: t') seen) eqn:E; [discriminate|].
    apply index_of_none in E. destruct (IH _ H) as [Hn Hs]. split.
    + constructor; [|exact Hn]. intros Hin. destruct (Hs _ Hin) as [_ Hc]. apply Hc. now left.
    + intros x [<-|Hin]; [split; [discriminate|exact E]|].
      destruct (Hs _ Hin) as [H1 H2]. split; [exact H1|]. intros Hc. apply H2. now right.
Qed.

Lemma check_upstreams_ok us : forall seen, check_upstreams seen us = None ->
  NoDup (map fst us) /\ (forall t a, In (t, a) us -> t <> [] /\ a <> [] /\ ~ In t seen).
Proof.
  induction us as [|[t a] us IH]; intros seen H; cbn in H.
  - split; [constructor|intros ? ? []].
  - destruct t as [|c t']; [discriminate|].
    destruct (index_of (c :: t') seen) eqn:E; [discriminate|].
    destruct a as [|a0 a']; [discriminate|].
    apply index_of_none in E. destruct (IH _ H) as [Hn Hs]. cbn [map fst]. split.
    + constructor; [|exact Hn]. intros Hin. apply in_map_iff in Hin. destruct Hin as ([t2 a2] & Ht & Hin).
      cbn in Ht. subst t2. destruct (Hs _ _ Hin) as (_ & _ & Hc). apply Hc. now left.
    + intros x y [Heq|Hin].
      * inversion Heq; subst. repeat split; try discriminate. exact E.
      * destruct (Hs _ _ Hin) as (H1 & H2 & H3). repeat split; auto. intros Hc. apply H3. now right.
Qed.

Definition rule_resolved (nup nset : nat) (r : rule) : Prop :=
  (match ru_cond r with Some (s, _) => s < nset | None => True end) /\
  (match ru_forward r with Some u => u < nup | None => True end).

Lemma load_rules_ok utags stags rs rules : load_rules utags stags rs = inr rules ->
  length rules = length rs /\ Forall (rule_resolved (length utags) (length stags)) rules.
Proof.
  revert rules; induction rs as [|r rs IH]; intros rules H; cbn in H.
  - inversion H; subst. split; [reflexivity|constructor].
  - destruct (load_rule utags stags r) as [e|x] eqn:E; [discriminate|].
    destruct (load_rules utags stags rs) as [e|xs]; [discriminate|]. inversion H; subst.
    destruct (IH xs eq_refl) as [Hl Hf]. split; [cbn; lia|]. constructor; [|exact Hf].
    unfold load_rule in E. unfold rule_resolved.
    destruct (rr_domain r) as [|d0 d] eqn:Ed.
    + destruct (rr_forward r) as [|f0 f] eqn:Ef.
      * inversion E; subst. cbn. auto.
      * destruct (index_of (f0 :: f) utags) as [u|] eqn:Eu; [|discriminate]. inversion E; subst. cbn.
        split; [auto|]. now apply index_of_lt in Eu.
    + destruct (index_of (d0 :: d) stags) as [s|] eqn:Es; [|discriminate].
      destruct (rr_forward r) as [|f0 f] eqn:Ef.
      * inversion E; subst. cbn. split; [now apply index_of_lt in Es|auto].
      * destruct (index_of (f0 :: f) utags) as [u|] eqn:Eu; [|discriminate]. inversion E; subst. cbn.
        split; [now apply index_of_lt in Es|now apply index_of_lt in Eu].
Qed.

(* a configuration that loads has unique non-empty tags and every rule's references resolve *)
Theorem load_strict c rules : load c = inr rules ->
  NoDup (map fst (rc_upstreams c)) /\ NoDup (rc_sets c) /\
  (forall t a, In (t, a) (rc_upstreams c) -> t <> [] /\ a <> []) /\ (forall t, In t (rc_sets c) -> t <> []) /\
  length rules = length (rc_rules c) /\
  Forall (rule_resolved (length (rc_upstreams c)) (length (rc_sets c))) rules.
Proof.
  unfold load. destruct (check_upstreams [] (rc_upstreams c)) eqn:Eu; [discriminate|].
  destruct (check_tags [] (rc_sets c)) eqn:Es; [discriminate|]. intros H.
  destruct (check_upstreams_ok _ _ Eu) as [Hu1 Hu2]. destruct (check_tags_ok _ _ Es) as [Hs1 Hs2].
  apply load_rules_ok in H. rewrite map_length in H. destruct H as [Hl Hf].
  split; [exact Hu1|]. split; [exact Hs1|]. split; [|split; [|split; assumption]].
  - intros t a Hin. destruct (Hu2 _ _ Hin) as (? & ? & _). auto.
  - intros t Hin. now destruct (Hs2 _ Hin).
Qed.

(* ====================== the handler (C03, C10, C12) ====================== *)
Section HandleFacts.
  Variable matches : nat -> list N -> bool.
  Variable rules : list rule.
  Variable ecs : bool.
  Variable up : nat -> res (list N) -> uout.

  Notation handle' := (handle matches rules ecs up).

  Lemma handle_shape m client : exists r, fst (handle' m client) = fix_header m r.
  Proof.
    unfold handle. destruct (unsupported m); [eexists; reflexivity|].
    destruct (m_qs m) as [|q qs]; [eexists; reflexivity|].
    destruct (handle_req matches rules ecs up (lower_q q) client) as [resp eff]. eexists; reflexivity.
  Qed.

  (* C03: header fix-up *)
  Theorem handle_header m client : let r := fst (handle' m client) in
    h_id (m_hdr r) = h_id (m_hdr m) /\ h_opcode (m_hdr r) = h_opcode (m_hdr m) /\ h_resp (m_hdr r) = true /\
    h_ra (m_hdr r) = true /\ h_rd (m_hdr r) = h_rd (m_hdr m).
  Proof. cbv zeta. destruct (handle_shape m client) as [r ->]. cbn. auto. Qed.

  Lemma fix_header_rcode m r : h_rcode (m_hdr (fix_header m r)) = h_rcode (m_hdr r). Proof. reflexivity. Qed.
  Lemma fix_header_qs m r : m_qs (fix_header m r) = m_qs r. Proof. reflexivity. Qed.
  Lemma fix_header_ar m r : m_ar (fix_header m r) = m_ar r. Proof. reflexivity. Qed.
  Lemma opt_fix_rcode (b : bool) r :
    h_rcode (m_hdr (if b then add_or_replace_opt r else remove_opt r)) = h_rcode (m_hdr r).
  Proof. destruct b; reflexivity. Qed.
  Lemma opt_fix_qs (b : bool) r : m_qs (if b then add_or_replace_opt r else remove_opt r) = m_qs r.
  Proof. destruct b; reflexivity. Qed.

  (* C03: the rcode table *)
  Theorem handle_rcode_unsupported m client : unsupported m = true ->
    h_rcode (m_hdr (fst (handle' m client))) = RCodeNotImp /\ snd (handle' m client) = [].
  Proof. unfold handle. intros ->. cbn. auto. Qed.

  Theorem handle_supported m client : unsupported m = false -> exists q qs, m_qs m = q :: qs /\
    handle' m client =
      (fix_header m (let resp := fst (handle_req matches rules ecs up (lower_q q) client) in
                     if has_opt m then add_or_replace_opt resp else remove_opt resp),
       snd (handle_req matches rules ecs up (lower_q q) client)).
  Proof.
    intros Hu. unfold handle. rewrite Hu. destruct (m_qs m) as [|q qs] eqn:Eq.
    - unfold unsupported in Hu. rewrite Eq in Hu. cbn in Hu. rewrite !orb_true_r in Hu. discriminate.
    - exists q, qs. split; [reflexivity|].
      destruct (handle_req matches rules ecs up (lower_q q) client) as [resp eff]. reflexivity.
  Qed.

  Theorem handle_req_table q client :
    match decide matches rules (q_name q) with
    | ARefused => handle_req matches rules ecs up q client = (empty_resp q RCodeRefused, [])
    | AReject rc => handle_req matches rules ecs up q client = (empty_resp q rc, [])
    | AForward u =>
      match pack_req ecs q client with
      | Ok w => match up u (Ok w) with
                | UReply r => handle_req matches rules ecs up q client =
                              if reply_question_ok q r then (remove_opt r, [EQuery u (Ok w)])
                              else (empty_resp q RCodeServFail, [EQuery u (Ok w)])
                | UFail => handle_req matches rules ecs up q client = (empty_resp q RCodeServFail, [EQuery u (Ok w)])
                end
      | _ => handle_req matches rules ecs up q client = (empty_resp q RCodeServFail, [])
      end
    end.
  Proof.
    unfold handle_req, forward_q. destruct (decide matches rules (q_name q)); try reflexivity.
    destruct (pack_req ecs q client) as [w| | |]; try reflexivity.
    destruct (up u (Ok w)) as [r|]; [destruct (reply_question_ok q r)|]; reflexivity.
  Qed.
End HandleFacts.

(* ====================== EDNS0 (C12) ====================== *)
Definition optc (r : rr) : nat := if is_opt r then 1 else 0.

Lemma count_opt_cons r rs : count_opt (r :: rs) = optc r + count_opt rs.
Proof. unfold count_opt, optc. cbn [filter]. destruct (is_opt r); reflexivity. Qed.

Lemma count_opt_app a b : count_opt (a ++ b) = count_opt a + count_opt b.
Proof. unfold count_opt. rewrite filter_app, app_length. reflexivity. Qed.

Lemma count_opt_set_nth l : forall i v x, nth_error l i = Some x ->
  count_opt (set_nth l i v) + optc x = count_opt l + optc v.
Proof.
  induction l as [|y l IH]; intros [|i] v x H; cbn [nth_error set_nth] in *; try discriminate.
  - inversion H; subst. rewrite !count_opt_cons. lia.
  - rewrite !count_opt_cons. specialize (IH i v x H). lia.
Qed.

Lemma last_opt_idx_some ar : forall i0 best k, last_opt_idx ar i0 best = Some k ->
  best = Some k \/ exists x, i0 <= k /\ nth_error ar (k - i0) = Some x /\ is_opt x = true.
Proof.
  induction ar as [|r ar IH]; intros i0 best k H; cbn [last_opt_idx] in H; [now left|].
  apply IH in H. destruct H as [H|(x & H1 & H2 & H3)].
  - fold (is_opt r) in H. destruct (is_opt r) eqn:E; [|now left].
    inversion H; subst. right. exists r. rewrite Nat.sub_diag. cbn. auto.
  - right. exists x. split; [lia|]. replace (k - i0) with (S (k - S i0)) by lia. cbn. auto.
Qed.

Lemma last_opt_idx_none ar : forall i0 best, last_opt_idx ar i0 best = None -> count_opt ar = 0.
Proof.
  induction ar as [|r ar IH]; intros i0 best H; cbn [last_opt_idx] in H; [reflexivity|].
  rewrite count_opt_cons. fold (is_opt r) in H. unfold optc. destruct (is_opt r) eqn:E.
  - exfalso. clear IH. revert H. generalize (S i0). generalize i0 as b.
    induction ar as [|r2 ar IH2]; intros b n H; cbn in H; [discriminate|].
    destruct (r_type r2 =? TypeOPT)%N; eapply IH2; eauto.
  - rewrite (IH _ _ H). reflexivity.
Qed.

(* PopEDNS0 removes exactly one OPT record when there is one *)
Lemma pop_opt_count ar : count_opt (snd (pop_opt ar)) = pred (count_opt ar).
Proof.
  unfold pop_opt. destruct (last_opt_idx ar 0 None) as [i|] eqn:Ei.
  - destruct (last_opt_idx_some _ _ _ _ Ei) as [H|(x & _ & Hn & Hx)]; [discriminate|].
    rewrite Nat.sub_0_r in Hn. rewrite Hn.
    destruct (rev ar) as [|lastr tl] eqn:Er.
    { apply (f_equal (@rev rr)) in Er. rewrite rev_involutive in Er. subst ar. destruct i; discriminate. }
    cbn [snd].
    assert (ar = rev tl ++ [lastr]) as Har by (rewrite <- (rev_involutive ar), Er; reflexivity).
    set (pre := rev tl) in *. clearbody pre. subst ar.
    assert (i < length (pre ++ [lastr])) as Hi by (apply nth_error_Some; congruence).
    rewrite app_length in Hi. cbn in Hi.
    assert (optc x = 1) as Hox by (unfold optc; now rewrite Hx).
    destruct (Nat.eq_dec i (length pre)) as [->|Hne].
    + rewrite set_nth_last, removelast_last.
      rewrite nth_error_app2, Nat.sub_diag in Hn by lia. cbn in Hn. inversion Hn; subst.
      rewrite count_opt_app, (count_opt_cons x []). unfold optc. rewrite Hx. cbn. lia.
    + rewrite set_nth_app1 by lia. rewrite removelast_last.
      rewrite nth_error_app1 in Hn by lia.
      pose proof (count_opt_set_nth pre i lastr x Hn) as Hc.
      rewrite count_opt_app. rewrite (count_opt_cons lastr []).
      assert (count_opt [] = 0) as -> by reflexivity. lia.
  - cbn [snd]. rewrite (last_opt_idx_none _ _ _ Ei). reflexivity.
Qed.

Lemma count_opt_0_filter rs : count_opt rs = 0 -> filter is_opt rs = [].
Proof. unfold count_opt. intros H. now apply length_zero_iff_nil. Qed.

Lemma new_opt_is_opt s d : is_opt (new_opt s d) = true. Proof. reflexivity. Qed.

Lemma remove_opt_filter r : count_opt (m_ar r) <= 1 -> filter is_opt (m_ar (remove_opt r)) = [].
Proof.
  intros H. apply count_opt_0_filter. unfold remove_opt. cbn [m_ar set_ar]. rewrite pop_opt_count. lia.
Qed.

Lemma add_opt_filter r : count_opt (m_ar r) <= 1 ->
  filter is_opt (m_ar (add_or_replace_opt r)) = [new_opt udp_size []].
Proof.
  intros H. unfold add_or_replace_opt. cbn [m_ar set_ar]. rewrite filter_app.
  rewrite count_opt_0_filter by (rewrite pop_opt_count; lia). reflexivity.
Qed.

Lemma remove_opt_idem_count r : count_opt (m_ar r) <= 1 -> count_opt (m_ar (remove_opt r)) = 0.
Proof. intros H. unfold remove_opt. cbn [m_ar set_ar]. rewrite pop_opt_count. lia. Qed.

Section OptFacts.
  Variable matches : nat -> list N -> bool.
  Variable rules : list rule.
  Variable ecs : bool.
  Variable up : nat -> res (list N) -> uout.
  (* RFC 6891: at most one OPT record per message (the property's own restriction on upstream replies) *)
  Hypothesis up_one_opt : forall u w r, up u w = UReply r -> count_opt (m_ar r) <= 1.

  Lemma handle_req_ar_count q client :
    count_opt (m_ar (fst (handle_req matches rules ecs up q client))) = 0.
  Proof.
    unfold handle_req, forward_q. destruct (decide matches rules (q_name q)); try reflexivity.
    destruct (pack_req ecs q client) as [w| | |]; try reflexivity.
    destruct (up u (Ok w)) as [r|] eqn:E; [|reflexivity].
    destruct (reply_question_ok q r); [|reflexivity]. cbn [fst].
    apply remove_opt_idem_count. eapply up_one_opt; eauto.
  Qed.

  (* C12: the OPT records of the additional section of every response: none for an unsupported query; otherwise the
     proxy's own fresh OPT iff the query carried one — whatever the upstream reply or the query's options were *)
  Theorem handle_opt m client :
    filter is_opt (m_ar (fst (handle matches rules ecs up m client))) =
    if unsupported m then [] else if has_opt m then [new_opt udp_size []] else [].
  Proof.
    destruct (unsupported m) eqn:Hu.
    - unfold handle. rewrite Hu. reflexivity.
    - destruct (handle_supported matches rules ecs up m client Hu) as (q & qs & Hq & ->). cbn [fst].
      rewrite fix_header_ar. pose proof (handle_req_ar_count (lower_q q) client) as Hc.
      destruct (has_opt m).
      + apply add_opt_filter. lia.
      + apply remove_opt_filter. lia.
  Qed.
End OptFacts.

(* ---------- ECS ---------- *)
Definition wf_addr (a : addr) : Prop :=
  match a with A4 b => length b = 4 /\ bytes b | A6 b => length b = 16 /\ bytes b | ANone => True end.

Theorem ecs_form_v4 a b c d : ecs_option (A4 [a; b; c; d]) = [0; 8; 0; 7; 0; 1; 24; 0; a; b; c]%N.
Proof. reflexivity. Qed.

Theorem ecs_form_mapped a b c d :
  ecs_option (A6 (v4_mapped_prefix ++ [a; b; c; d])) = [0; 8; 0; 7; 0; 1; 24; 0; a; b; c]%N.
Proof. reflexivity. Qed.

Theorem ecs_form_v6 bs : list_eqb (firstn 12 bs) v4_mapped_prefix = false ->
  ecs_option (A6 bs) = [0; 8; 0; 11; 0; 2; 56; 0]%N ++ firstn 7 bs.
Proof. unfold ecs_option, unmap. now intros ->. Qed.

Theorem ecs_none : ecs_option ANone = []. Proof. reflexivity. Qed.

(* host bits are absent: the option carries 3 (IPv4) or 7 (IPv6) address octets only *)
Theorem ecs_length a : wf_addr a -> length (ecs_option a) = 0 \/ length (ecs_option a) = 11 \/ length (ecs_option a) = 15.
Proof.
  unfold ecs_option, unmap. destruct a as [b|b|]; cbn [wf_addr].
  - intros [Hl _]. right. left. rewrite app_length, firstn_length, Hl. reflexivity.
  - intros [Hl _]. destruct (list_eqb (firstn 12 b) v4_mapped_prefix).
    + right. left. rewrite app_length, firstn_length, skipn_length, Hl. reflexivity.
    + right. right. rewrite app_length, firstn_length, Hl. reflexivity.
  - intros _. now left.
Qed.

(* privacy: addresses that agree on the transmitted prefix yield the same option, hence the same upstream query *)
Theorem ecs_privacy a1 a2 :
  match unmap a1, unmap a2 with
  | A4 b1, A4 b2 => firstn 3 b1 = firstn 3 b2
  | A6 b1, A6 b2 => firstn 7 b1 = firstn 7 b2
  | ANone, ANone => True
  | _, _ => False
  end -> forall e q, pack_req e q a1 = pack_req e q a2.
Proof.
  intros H e q. unfold pack_req, req_msg. replace (ecs_option a1) with (ecs_option a2); [reflexivity|].
  unfold ecs_option. destruct (unmap a1), (unmap a2); try contradiction; try reflexivity; now rewrite H.
Qed.

(* ---------- the upstream query ---------- *)
Lemma lower_byte c : isbyte c -> isbyte (lower c).
Proof. unfold isbyte, lower. destruct ((65 <=? c)%N && (c <=? 90)%N) eqn:E; lia. Qed.

Lemma to_lower_go_raw ls : Forall wf_label ls -> forall fuel, length ls <= fuel ->
  to_lower_go fuel (raw ls) = raw (map (map lower) ls).
Proof.
  induction 1 as [|l ls [Hl Hb] _ IH]; intros fuel Hf; [destruct fuel; reflexivity|].
  cbn [raw map]. destruct fuel as [|fuel]; [cbn in Hf; lia|]. cbn [to_lower_go].
  assert ((N.of_nat (length l) =? 0)%N = false) as -> by (apply N.eqb_neq; lia).
  assert ((63 <? N.of_nat (length l))%N = false) as -> by (apply N.ltb_ge; lia).
  rewrite Nat2N.id.
  assert (length (l ++ raw ls) <? length l = false) as -> by (apply Nat.ltb_ge; rewrite app_length; lia).
  rewrite skipn_app, skipn_all, Nat.sub_diag. cbn [skipn app].
  rewrite firstn_app, firstn_all, Nat.sub_diag. cbn [firstn]. rewrite app_nil_r.
  rewrite IH by (cbn in Hf; lia). rewrite map_length. reflexivity.
Qed.

Lemma raw_map_len (f : N -> N) ls : length (raw (map (map f) ls)) = length (raw ls).
Proof.
  induction ls as [|l ls IH]; [reflexivity|]. cbn [raw map length]. rewrite !app_length, map_length, IH. reflexivity.
Qed.

Lemma to_lower_wf n : wf_name n -> wf_name (to_lower_name n).
Proof.
  intros (ls & -> & Hf & Hl). unfold to_lower_name.
  assert (254 <? length (raw ls) = false) as -> by (apply Nat.ltb_ge; lia).
  rewrite to_lower_go_raw by (auto; now apply raw_len_ge).
  exists (map (map lower) ls). split; [reflexivity|]. split.
  - apply Forall_map. eapply Forall_impl; [|exact Hf]. intros l [H1 H2]. split; [now rewrite map_length|].
    unfold bytes in *. apply Forall_map. eapply Forall_impl; [|exact H2]. intros c. apply lower_byte.
  - now rewrite raw_map_len.
Qed.

Lemma lower_q_wf q : wf_question q -> wf_question (lower_q q).
Proof. intros (H1 & H2 & H3). split; [now apply to_lower_wf|auto]. Qed.

Lemma ecs_bytes a : wf_addr a -> bytes (ecs_option a).
Proof.
  unfold ecs_option, unmap. destruct a as [b|b|]; cbn [wf_addr].
  - intros [_ Hb]. apply bytes_app. split; [apply bytes_forallb; reflexivity|now apply bytes_firstn].
  - intros [_ Hb]. destruct (list_eqb (firstn 12 b) v4_mapped_prefix); apply bytes_app;
      (split; [apply bytes_forallb; reflexivity|]); [apply bytes_firstn, bytes_skipn|apply bytes_firstn]; exact Hb.
  - intros _. constructor.
Qed.

Lemma req_msg_wf e q a : wf_question q -> wf_addr a -> wf_msg (req_msg e q a).
Proof.
  intros Hq Ha. unfold req_msg, wf_msg. cbn [m_hdr m_qs m_an m_ns m_ar].
  split; [unfold wf_header, u16; cbn; lia|]. split; [constructor; [exact Hq|constructor]|].
  split; [constructor|]. split; [constructor|]. split.
  - constructor; [|constructor]. unfold wf_rr. cbn [r_name r_type r_class r_ttl r_data new_opt].
    split; [exact wf_name_nil|]. split; [unfold u16, TypeOPT; lia|].
    split; [unfold u16, udp_size; cbn; lia|]. split; [unfold u32; lia|].
    unfold wf_rdata. cbn. destruct e.
    + split; [now apply ecs_bytes|]. destruct (ecs_length a Ha) as [H|[H|H]]; rewrite H; cbn; lia.
    + split; [constructor|cbn; lia].
  - unfold count_ok. cbn. repeat split; lia.
Qed.

(* C10/C12: the forwarded query is well-formed wire data that decodes to exactly: RD, one question (the lower-cased
   one), no answers/authorities, one OPT record carrying the ECS option iff enabled *)
Theorem pack_req_decodes e q a : wf_question q -> wf_addr a ->
  exists w, pack_req e q a = Ok w /\ unpack_msg w = Ok (relen (req_msg e q a)).
Proof.
  intros Hq Ha. pose proof (req_msg_wf e q a Hq Ha) as Hw.
  exists (plain_bytes (req_msg e q a)). split.
  - unfold pack_req. now apply pack_msg_plain.
  - rewrite <- (app_nil_r (plain_bytes _)). now apply unpack_plain.
Qed.

(* ---------- ASCII-case-insensitive question equality ---------- *)
Lemma leqb_eq a : forall b, list_eqb a b = true <-> a = b.
Proof.
  induction a as [|x a IH]; intros [|y b]; cbn; split; intros H; try reflexivity; try discriminate.
  - apply andb_true_iff in H. destruct H as [H1 H2]. apply N.eqb_eq in H1. apply IH in H2. congruence.
  - inversion H; subst. rewrite N.eqb_refl. cbn. now apply IH.
Qed.

Lemma lower_idem c : lower (lower c) = lower c.
Proof.
  unfold lower. destruct ((65 <=? c)%N && (c <=? 90)%N) eqn:E; [|now rewrite E].
  assert ((65 <=? c + 32)%N && (c + 32 <=? 90)%N = false) as ->; [|reflexivity].
  apply andb_true_iff in E. destruct E as [E1 E2]. apply N.leb_le in E1. apply andb_false_iff. right. apply N.leb_gt. lia.
Qed.

Lemma map_lower_idem l : map lower (map lower l) = map lower l.
Proof. rewrite map_map. apply map_ext, lower_idem. Qed.

(* ToLowerName never changes a name up to ASCII folding — for ANY octet string, well-formed or not *)
Lemma to_lower_go_fold fuel : forall n, map lower (to_lower_go fuel n) = map lower n.
Proof.
  induction fuel as [|f IH]; intros [|c tl]; try reflexivity. cbn [to_lower_go].
  destruct (c =? 0)%N; [reflexivity|]. destruct (63 <? c)%N; [reflexivity|].
  destruct (length tl <? N.to_nat c); [reflexivity|].
  cbn [map]. rewrite map_app, map_lower_idem, IH, <- map_app, firstn_skipn. reflexivity.
Qed.

Lemma to_lower_name_fold n : map lower (to_lower_name n) = map lower n.
Proof. unfold to_lower_name. destruct (254 <? length n); [reflexivity|apply to_lower_go_fold]. Qed.

Lemma q_eq_ci_refl q : q_eq_ci q q = true.
Proof. unfold q_eq_ci. rewrite !N.eqb_refl, andb_true_r, andb_true_r. now apply leqb_eq. Qed.

Lemma q_eq_ci_lower q : q_eq_ci (lower_q q) q = true.
Proof.
  unfold q_eq_ci, lower_q. cbn [q_name q_type q_class]. rewrite !N.eqb_refl, !andb_true_r.
  apply leqb_eq, to_lower_name_fold.
Qed.

Lemma q_eq_ci_lower_r a q : q_eq_ci a (lower_q q) = true -> q_eq_ci a q = true.
Proof.
  unfold q_eq_ci, lower_q. cbn [q_name q_type q_class]. intros H.
  apply andb_true_iff in H. destruct H as [H Hc]. apply andb_true_iff in H. destruct H as [Hn Ht].
  rewrite Ht, Hc, !andb_true_r. apply leqb_eq. apply leqb_eq in Hn. rewrite Hn. apply to_lower_name_fold.
Qed.

(* on well-formed names folding octet-wise is the same as folding label-wise (length octets are < 'A') *)
Lemma lower_small c : (c < 65)%N -> lower c = c.
Proof. intros H. unfold lower. assert ((65 <=? c)%N = false) as -> by (apply N.leb_gt; lia). reflexivity. Qed.

Lemma map_lower_raw ls : Forall wf_label ls -> map lower (raw ls) = raw (map (map lower) ls).
Proof.
  induction 1 as [|l ls [Hl _] _ IH]; [reflexivity|]. cbn [raw map].
  rewrite map_app, IH, map_length. rewrite lower_small by lia. reflexivity.
Qed.

Lemma to_lower_name_wf_fold n : wf_name n -> to_lower_name n = map lower n.
Proof.
  intros (ls & -> & Hf & Hl). unfold to_lower_name.
  assert (254 <? length (raw ls) = false) as -> by (apply Nat.ltb_ge; lia).
  rewrite to_lower_go_raw by (auto; apply raw_len_ge; exact Hf). symmetry. apply map_lower_raw, Hf.
Qed.

(* ====================== the complete response table (C03 / C10) ====================== *)
Section Table.
  Variable matches : nat -> list N -> bool.
  Variable rules : list rule.
  Variable ecs : bool.
  Variable up : nat -> res (list N) -> uout.
  Notation handle' := (handle matches rules ecs up).

  (* what [handle] returns for a supported query, by cases of the rule decision and the upstream outcome *)
  Theorem handle_table m client q qs : unsupported m = false -> m_qs m = q :: qs ->
    let r := fst (handle' m client) in let eff := snd (handle' m client) in
    match decide matches rules (q_name (lower_q q)) with
    | ARefused => h_rcode (m_hdr r) = RCodeRefused /\ m_qs r = [lower_q q] /\ m_an r = [] /\ m_ns r = [] /\ eff = []
    | AReject rc => h_rcode (m_hdr r) = rc /\ m_qs r = [lower_q q] /\ m_an r = [] /\ m_ns r = [] /\ eff = []
    | AForward u =>
      match pack_req ecs (lower_q q) client with
      | Ok w =>
        eff = [EQuery u (Ok w)] /\
        match up u (Ok w) with
        | UFail => h_rcode (m_hdr r) = RCodeServFail /\ m_qs r = [lower_q q] /\ m_an r = [] /\ m_ns r = []
        | UReply rep =>
          if reply_question_ok (lower_q q) rep then
            h_rcode (m_hdr r) = h_rcode (m_hdr rep) /\ m_qs r = m_qs rep /\
            m_an r = m_an rep /\ m_ns r = m_ns rep /\
            h_aa (m_hdr r) = h_aa (m_hdr rep) /\ h_tc (m_hdr r) = h_tc (m_hdr rep) /\
            h_ad (m_hdr r) = h_ad (m_hdr rep) /\ h_cd (m_hdr r) = h_cd (m_hdr rep)
          else  (* a reply to another question counts as an upstream failure *)
            h_rcode (m_hdr r) = RCodeServFail /\ m_qs r = [lower_q q] /\ m_an r = [] /\ m_ns r = []
        end
      | _ => h_rcode (m_hdr r) = RCodeServFail /\ eff = []
      end
    end.
  Proof.
    intros Hu Hq. cbv zeta.
    destruct (handle_supported matches rules ecs up m client Hu) as (q' & qs' & Hq' & ->).
    rewrite Hq in Hq'. inversion Hq'; subst q' qs'. cbn [fst snd].
    pose proof (handle_req_table matches rules ecs up (lower_q q) client) as T.
    destruct (decide matches rules (q_name (lower_q q))) as [rc|u|].
    - rewrite T. cbn [fst snd]. destruct (has_opt m); cbn; auto.
    - destruct (pack_req ecs (lower_q q) client) as [w| | |].
      + destruct (up u (Ok w)) as [rep|]; rewrite T; [destruct (reply_question_ok (lower_q q) rep)|];
          cbn [fst snd]; (split; [reflexivity|]); destruct (has_opt m); cbn; auto 10.
      + rewrite T. cbn [fst snd]. destruct (has_opt m); cbn; auto.
      + rewrite T. cbn [fst snd]. destruct (has_opt m); cbn; auto.
      + rewrite T. cbn [fst snd]. destruct (has_opt m); cbn; auto.
    - rewrite T. cbn [fst snd]. destruct (has_opt m); cbn; auto.
  Qed.

  (* C03, the question clause: EVERY response — local or relayed — carries no question, or exactly one that equals
     the query's first question ASCII-case-insensitively (a relayed reply is checked by respQuestionMatch) *)
  Theorem handle_question m client :
    match m_qs (fst (handle' m client)), m_qs m with
    | [], _ => True
    | [qr], q :: _ => q_eq_ci qr q = true
    | _, _ => False
    end.
  Proof.
    destruct (unsupported m) eqn:Hu.
    - unfold handle. rewrite Hu. cbn [fst fix_header m_qs empty_resp_m].
      destruct (m_qs m) as [|q qs]; cbn [firstn]; [exact I|apply q_eq_ci_refl].
    - destruct (handle_supported matches rules ecs up m client Hu) as (q & qs & Hq & ->). cbn [fst].
      rewrite fix_header_qs, opt_fix_qs, Hq.
      pose proof (handle_req_table matches rules ecs up (lower_q q) client) as T.
      destruct (decide matches rules (q_name (lower_q q))) as [rc|u|].
      + rewrite T. cbn. apply q_eq_ci_lower.
      + destruct (pack_req ecs (lower_q q) client) as [w| | |]; try (rewrite T; cbn; apply q_eq_ci_lower).
        destruct (up u (Ok w)) as [rep|]; rewrite T; [|cbn; apply q_eq_ci_lower].
        destruct (reply_question_ok (lower_q q) rep) eqn:Er; cbn [fst]; [|cbn; apply q_eq_ci_lower].
        unfold remove_opt. cbn [m_qs set_ar]. unfold reply_question_ok in Er.
        destruct (m_qs rep) as [|qr [|qr2 rest]]; [exact I| |discriminate].
        apply q_eq_ci_lower_r, Er.
      + rewrite T. cbn. apply q_eq_ci_lower.
  Qed.

  (* an unsupported query: NOTIMP, at most the first question copied, nothing forwarded *)
  Theorem handle_unsupported m client : unsupported m = true ->
    let r := fst (handle' m client) in
    h_rcode (m_hdr r) = RCodeNotImp /\ m_qs r = firstn 1 (m_qs m) /\ m_an r = [] /\ m_ns r = [] /\ m_ar r = [] /\
    snd (handle' m client) = [].
  Proof. intros Hu. unfold handle. rewrite Hu. cbn. auto 10. Qed.

  (* at most one upstream query per client query, and only to the selected upstream *)
  Theorem handle_effects m client : length (snd (handle' m client)) <= 1 /\
    forall u w, In (EQuery u w) (snd (handle' m client)) ->
      unsupported m = false /\ exists q qs, m_qs m = q :: qs /\
        decide matches rules (q_name (lower_q q)) = AForward u /\ w = pack_req ecs (lower_q q) client.
  Proof.
    destruct (unsupported m) eqn:Hu.
    - destruct (handle_unsupported m client Hu) as (_ & _ & _ & _ & _ & ->). split; [cbn; lia|intros ? ? []].
    - destruct (handle_supported matches rules ecs up m client Hu) as (q & qs & Hq & ->). cbn [snd].
      pose proof (handle_req_table matches rules ecs up (lower_q q) client) as T.
      destruct (decide matches rules (q_name (lower_q q))) as [rc|u|] eqn:Ed.
      + rewrite T. cbn. split; [lia|intros ? ? []].
      + destruct (pack_req ecs (lower_q q) client) as [w| | |] eqn:Ep.
        * assert (snd (handle_req matches rules ecs up (lower_q q) client) = [EQuery u (Ok w)]) as ->.
          { destruct (up u (Ok w)) as [rep|]; rewrite T; [destruct (reply_question_ok (lower_q q) rep)|]; reflexivity. }
          split; [cbn; lia|]. intros u' w' [H|[]]. inversion H; subst. split; [reflexivity|].
          exists q, qs. rewrite Ep. auto.
        * rewrite T. cbn. split; [lia|intros ? ? []].
        * rewrite T. cbn. split; [lia|intros ? ? []].
        * rewrite T. cbn. split; [lia|intros ? ? []].
      + rewrite T. cbn. split; [lia|intros ? ? []].
  Qed.
End Table.

(* exactly one write per query on every listener kind, for a handled query and for a refused one *)
Theorem respond_one l q r : length (respond l q r) = 1. Proof. reflexivity. Qed.
Theorem refuse_one l q : length (refuse l q) = 1. Proof. reflexivity. Qed.

(* ====================== listener size limits (C09) ====================== *)
Lemma client_udp_size_ge m : (512 <= client_udp_size m)%N.
Proof.
  unfold client_udp_size, max_udp_payload. cbv zeta.
  destruct (advertised_size m <? 512)%N eqn:E; [cbn; lia|]. apply N.ltb_ge in E.
  destruct (65507 <? advertised_size m)%N; lia.
Qed.

(* never more than the client advertised (floor 512), never more than a datagram can carry *)
Lemma client_udp_size_le m : (client_udp_size m <= N.max 512 (advertised_size m))%N /\ (client_udp_size m <= 65507)%N.
Proof.
  unfold client_udp_size, max_udp_payload. cbv zeta.
  destruct (advertised_size m <? 512)%N eqn:E.
  - apply N.ltb_lt in E. cbn. lia.
  - apply N.ltb_ge in E. destruct (65507 <? advertised_size m)%N eqn:E2; [apply N.ltb_lt in E2|apply N.ltb_ge in E2]; lia.
Qed.

Lemma client_udp_size_no_opt m : has_opt m = false -> client_udp_size m = 512%N.
Proof.
  unfold client_udp_size, advertised_size, has_opt. intros H.
  assert (forall acc, fold_left (fun a r => if is_opt r then r_class r else a) (m_ar m) acc = acc) as ->.
  { induction (m_ar m) as [|r rs IH]; intros acc; [reflexivity|]. cbn in H. apply orb_false_iff in H. destruct H as [H1 H2].
    cbn [fold_left]. rewrite H1. now apply IH. }
  reflexivity.
Qed.

Lemma eff_size_ge size : 512 <= size -> eff_size size = size.
Proof. unfold eff_size. intros H. destruct (Nat.ltb_spec size 512); lia. Qed.

(* the bytes written for a well-formed response respect the listener's limit: max(512, advertised size) on UDP,
   65535 octets of DNS message on the framed transports and DoH *)
Theorem respond_size l q r : wf_msg r -> opt_len r + 12 <= 512 ->
  exists b, respond l q r = [b] /\
            match l with
            | LUdp => length b <= N.to_nat (client_udp_size q)
            | LHttp => length b <= max_size
            | LTcp => exists body, b = be16n (length body) ++ body /\ length body <= max_size
            end.
Proof.
  intros Hw Hopt. unfold respond, must_have_resp.
  pose proof (client_udp_size_ge q) as Hge.
  assert (Hms : max_size = N.to_nat 65535) by reflexivity.
  set (tcp := match l with LTcp => true | _ => false end).
  set (size' := if tcp then max_size else Nat.min (size_limit l q) max_size).
  assert (512 <= size') as Hs.
  { unfold size', tcp, size_limit. destruct l; rewrite ?Hms; lia. }
  destruct (pack_msg_total (msg_len r) true size' r Hw (le_n _)) as [b Hb]. rewrite Hb.
  assert (length b <= size') as Hlen.
  { rewrite <- (eff_size_ge size' Hs). eapply pack_msg_size_bound; eauto; [lia|]. rewrite eff_size_ge by exact Hs. lia. }
  eexists. split; [reflexivity|].
  unfold size', tcp, size_limit in *. destruct l.
  - rewrite Hms in *. lia.
  - exists b. split; [reflexivity|exact Hlen].
  - rewrite Hms in *. lia.
Qed.

(* ====================== the handler's response is well-formed, hence always packs (C01) ====================== *)
Lemma pop_opt_wf ar : Forall wf_rr ar -> Forall wf_rr (snd (pop_opt ar)) /\ length (snd (pop_opt ar)) <= length ar.
Proof.
  intros H. destruct (pop_opt ar) as [o ar0] eqn:E. cbn [snd].
  destruct (pop_opt_facts wf_rr _ _ _ H E) as (H1 & H2 & H3). split; [exact H1|].
  destruct o as [x|]; [destruct (H2 x eq_refl); lia|rewrite (H3 eq_refl); lia].
Qed.

Lemma new_opt_wf : wf_rr (new_opt udp_size []).
Proof.
  unfold wf_rr, new_opt. cbn. split; [exact wf_name_nil|]. repeat split; try (unfold u16, u32, udp_size, TypeOPT; cbn; lia).
  constructor.
Qed.

Definition resp_room (r : msg) : Prop := (N.of_nat (length (m_ar r)) < 65535)%N.

Lemma remove_opt_wf r : wf_msg r -> wf_msg (remove_opt r).
Proof.
  intros (Hh & Fq & Fa & Fn & Fr & Cq & Ca & Cn & Cr). destruct (pop_opt_wf _ Fr) as [H1 H2].
  unfold remove_opt, wf_msg. cbn [m_hdr m_qs m_an m_ns m_ar set_ar].
  split; [exact Hh|]. split; [exact Fq|]. split; [exact Fa|]. split; [exact Fn|]. split; [exact H1|].
  split; [exact Cq|]. split; [exact Ca|]. split; [exact Cn|]. unfold count_ok in *. lia.
Qed.

Lemma add_opt_wf r : wf_msg r -> resp_room r -> wf_msg (add_or_replace_opt r).
Proof.
  intros (Hh & Fq & Fa & Fn & Fr & Cq & Ca & Cn & Cr) Hroom. destruct (pop_opt_wf _ Fr) as [H1 H2].
  unfold add_or_replace_opt, wf_msg. cbn [m_hdr m_qs m_an m_ns m_ar set_ar].
  split; [exact Hh|]. split; [exact Fq|]. split; [exact Fa|]. split; [exact Fn|]. split.
  - apply Forall_app. split; [exact H1|]. constructor; [exact new_opt_wf|constructor].
  - split; [exact Cq|]. split; [exact Ca|]. split; [exact Cn|].
    unfold count_ok, resp_room in *. rewrite app_length. cbn [length]. lia.
Qed.

Lemma fix_header_wf m r : wf_msg m -> wf_msg r -> wf_msg (fix_header m r).
Proof.
  intros ((Hid & Hop & _) & _) ((_ & _ & Hrc) & Fq & Fa & Fn & Fr & Cq & Ca & Cn & Cr).
  unfold fix_header, wf_msg, wf_header. cbn [m_hdr m_qs m_an m_ns m_ar h_id h_opcode h_rcode].
  split; [repeat split; assumption|]. repeat split; assumption.
Qed.

Lemma empty_resp_wf q rc : wf_question q -> (rc < 16)%N -> wf_msg (empty_resp q rc).
Proof.
  intros Hq Hrc. unfold empty_resp, wf_msg, wf_header, count_ok, u16. cbn. repeat split; auto; try lia.
Qed.

Lemma empty_resp_m_wf m rc : wf_msg m -> (rc < 16)%N -> wf_msg (empty_resp_m m rc).
Proof.
  intros ((Hid & Hop & _) & Fq & _) Hrc. unfold empty_resp_m, wf_msg, wf_header, count_ok. cbn [m_hdr m_qs m_an m_ns m_ar h_id h_opcode h_rcode].
  repeat split; auto.
  - destruct (m_qs m) as [|q qs]; cbn; [constructor|]. inversion Fq; subst. constructor; [assumption|constructor].
  - destruct (m_qs m); cbn; lia.
  - cbn; lia.
  - cbn; lia.
  - cbn; lia.
Qed.

(* ---------- the limiter / over-concurrency refusal path (C09 / C15): packed WITHOUT a size limit ---------- *)
(* makeEmptyRespM copies at most ONE question, so the response is small whatever the query looked like *)
Lemma empty_resp_m_len m rc : msg_len (empty_resp_m m rc) <= 271.
Proof.
  unfold msg_len, empty_resp_m. cbn [m_qs m_an m_ns m_ar sum_len fold_right].
  destruct (m_qs m) as [|q qs]; cbn [firstn sum_len fold_right]; [lia|].
  unfold q_len, name_pack_len. lia.
Qed.

(* the bytes written for a refused (decoded) query: one REFUSED response of at most 271 octets — below every
   transport's limit, although this path packs with size 0 (no limit) on UDP *)
Theorem refuse_size l q : wf_msg q ->
  exists b, refuse l q = [b] /\
            match l with
            | LTcp => exists body, b = be16n (length body) ++ body /\ length body <= max_size
            | _ => length b <= 271
            end.
Proof.
  intros Hw. unfold refuse, must_have_resp.
  set (e := empty_resp_m q RCodeRefused).
  assert (He : wf_msg e) by (apply empty_resp_m_wf; [exact Hw|unfold RCodeRefused; lia]).
  pose proof (empty_resp_m_len q RCodeRefused) as Hl. fold e in Hl.
  destruct l; cbn [Nat.min].
  - (* UDP: size 0 *)
    destruct (compressed_roundtrip_all e [] He) as (out & _ & Hp & _ & _ & Hlen).
    change (Nat.min 0 max_size) with 0. rewrite Hp. eexists. split; [reflexivity|lia].
  - (* stream: size 65535 *)
    assert (Hms : max_size = N.to_nat 65535) by reflexivity.
    destruct (pack_msg_total (msg_len e) true max_size e He (le_n _)) as [b Hb]. rewrite Hb.
    eexists. split; [reflexivity|]. exists b. split; [reflexivity|].
    assert (512 <= max_size) as Hs by (rewrite Hms; lia).
    rewrite <- (eff_size_ge max_size Hs). eapply pack_msg_size_bound; eauto; [lia|].
    rewrite eff_size_ge by exact Hs. unfold opt_len, e, empty_resp_m. cbn. lia.
  - (* DoH: size 0 *)
    destruct (compressed_roundtrip_all e [] He) as (out & _ & Hp & _ & _ & Hlen).
    change (Nat.min 0 max_size) with 0. rewrite Hp. eexists. split; [reflexivity|lia].
Qed.

Definition rules_ok (rules : list rule) : Prop := Forall (fun r => (ru_reject r < 16)%N) rules.

Section HandleWf.
  Variable matches : nat -> list N -> bool.
  Variable rules : list rule.
  Variable ecs : bool.
  Variable up : nat -> res (list N) -> uout.
  Hypothesis Hrules : rules_ok rules.
  (* upstream replies are decoded messages (C01_decode_wf) with room for one more additional record *)
  Hypothesis up_wf : forall u w r, up u w = UReply r -> wf_msg r /\ resp_room r.

  Lemma decide_reject_small name rc : decide matches rules name = AReject rc -> (rc < 16)%N.
  Proof.
    intros H. pose proof (decide_table matches rules name) as T. rewrite H in T.
    destruct T as (i & r & Hs & Hr & _). apply select_first_match in Hs. destruct Hs as (Hn & _).
    unfold rules_ok in Hrules. rewrite Forall_forall in Hrules. rewrite <- Hr. apply Hrules. eapply nth_error_In; eauto.
  Qed.

  Lemma handle_req_wf q client : wf_question q ->
    wf_msg (fst (handle_req matches rules ecs up q client)) /\ resp_room (fst (handle_req matches rules ecs up q client)).
  Proof.
    intros Hq. unfold handle_req, forward_q. destruct (decide matches rules (q_name q)) as [rc|u|] eqn:Ed.
    - cbn [fst]. split; [apply empty_resp_wf; [exact Hq|eapply decide_reject_small; eauto]|unfold resp_room; cbn; lia].
    - destruct (pack_req ecs q client) as [w| | |]; try (cbn [fst]; split; [apply empty_resp_wf; [exact Hq|unfold RCodeServFail; lia]|unfold resp_room; cbn; lia]).
      destruct (up u (Ok w)) as [r|] eqn:Eu; [destruct (reply_question_ok q r)|]; cbn [fst].
      + destruct (up_wf _ _ _ Eu) as [Hw Hr]. split; [now apply remove_opt_wf|].
        unfold resp_room, remove_opt in *. cbn [m_ar set_ar]. destruct Hw as (_ & _ & _ & _ & Fr & _).
        destruct (pop_opt_wf _ Fr). lia.
      + split; [apply empty_resp_wf; [exact Hq|unfold RCodeServFail; lia]|unfold resp_room; cbn; lia].
      + split; [apply empty_resp_wf; [exact Hq|unfold RCodeServFail; lia]|unfold resp_room; cbn; lia].
    - cbn [fst]. split; [apply empty_resp_wf; [exact Hq|unfold RCodeRefused; lia]|unfold resp_room; cbn; lia].
  Qed.

  (* the handler's response to a decoded query is well-formed ... *)
  Theorem handle_wf m client : wf_msg m -> wf_msg (fst (handle matches rules ecs up m client)).
  Proof.
    intros Hm. destruct (unsupported m) eqn:Hu.
    - unfold handle. rewrite Hu. cbn [fst]. apply fix_header_wf; [exact Hm|]. apply empty_resp_m_wf; [exact Hm|unfold RCodeNotImp; lia].
    - destruct (handle_supported matches rules ecs up m client Hu) as (q & qs & Hq & ->). cbn [fst].
      assert (wf_question q) as Wq.
      { destruct Hm as (_ & Fq & _). rewrite Hq in Fq. now inversion Fq. }
      destruct (handle_req_wf (lower_q q) client (lower_q_wf q Wq)) as [Hw Hr].
      apply fix_header_wf; [exact Hm|]. destruct (has_opt m); [now apply add_opt_wf|now apply remove_opt_wf].
  Qed.

  (* ... hence it always packs: mustHaveRespB never needs its fallbacks, on any listener *)
  Theorem handle_packs l m client : wf_msg m ->
    let r := fst (handle matches rules ecs up m client) in
    exists b, pack_msg (msg_len r) true (if match l with LTcp => true | _ => false end then max_size
                                         else Nat.min (size_limit l m) max_size) r = Ok b /\
              respond l m r = [if match l with LTcp => true | _ => false end then be16n (length b) ++ b else b].
  Proof.
    intros Hm r. pose proof (handle_wf m client Hm) as Hw. fold r in Hw.
    destruct (pack_msg_total (msg_len r) true (if match l with LTcp => true | _ => false end then max_size
                 else Nat.min (size_limit l m) max_size) r Hw (le_n _)) as [b Hb].
    exists b. split; [exact Hb|]. unfold respond, must_have_resp. rewrite Hb. reflexivity.
  Qed.
End HandleWf.
