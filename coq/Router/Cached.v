(* Router/Cached.v — the request path WITH the cache: the composition of Router/Router.v (rules, forward, EDNS fix-up,
   header fix-up) with Cache/CachePolicy.v (cacheCtl.Get / cacheCtl.Store on the memory backend, otter's coarse clock)
   and the prefetch window test of Router/Prefetch.v.  Mirrors app/router/router.go handleReqMsg / handleReq /
   doPrefetch with r.cache enabled:

     handleReq:  rule decision (reject / refuse return before the cache is consulted)
                 resp, storedTime, expireTime := r.cache.Get(q, rc)        -- key = cacheKey(q, ipMark(client))
                 hit  -> rc.Response.Msg = resp; Cached = true; needPrefetch(..) ? asyncSingleFlightPrefetch : -
                 miss -> forward; error -> SERVFAIL (nothing stored); reply -> rc.Response.Msg = resp; cache.Store(q, addr, resp)
     doPrefetch: forward; error -> nothing; reply -> cache.Store(q, addr, resp)
     handleReqMsg: EDNS fix-up (addOrReplaceOpt / PopEDNS0) and header fix-up on WHATEVER response was chosen.

   The cache key is a section variable [ckey] (its construction and injectivity are C07's model, Cache/CacheKey.v);
   [packok] of the store is true: packCacheMsg packs without size limit, which is total on well-formed messages
   (C09_pack_total).  No proofs in this file. *)
From Mos Require Import Base.Prelude Codec.Name Codec.Msg Router.Rules Router.Edns Router.Router Cache.CachePolicy
  Router.Prefetch.

Local Open Scope Z_scope.

Record creq_out := mkCout {
  co_resp : msg;              (* rc.Response.Msg when handleReq returns *)
  co_eff : list effect;       (* upstream queries made on the request path *)
  co_cached : bool;           (* rc.Response.Cached *)
  co_prefetch : bool          (* asyncSingleFlightPrefetch was called *)
}.

Section CachedRouter.
  Variable matches : nat -> list N -> bool.
  Variable rules : list rule.
  Variable ecs : bool.
  Variable up : nat -> res (list N) -> uout.
  Variable ckey : question -> addr -> N.
  Variable maxttl : Z.

  (* handleReq at wall time [t] (the Get and the window test), the Store at [ts], its backend call [eps] later *)
  Definition handle_req_c (st : cp_state) (t ts eps : Z) (q : question) (client : addr) : cp_state * creq_out :=
    match decide matches rules (q_name q) with
    | ARefused => (st, mkCout (empty_resp q RCodeRefused) [] false false)
    | AReject rc => (st, mkCout (empty_resp q rc) [] false false)
    | AForward u =>
      match cachectl_get st t (ckey q client) with
      | (st1, OHit m stored expire) => (st1, mkCout m [] true (need_prefetch stored expire t))
      | (st1, _) =>
        match forward_q ecs up u q client with
        | (Some r, eff) =>
          (fst (cachectl_store maxttl st1 ts eps (ckey q client) (Some r) true), mkCout r eff false false)
        | (None, eff) => (st1, mkCout (empty_resp q RCodeServFail) eff false false)
        end
      end
    end.

  (* handleReqMsg with the cache *)
  Definition handle_c (st : cp_state) (t ts eps : Z) (m : msg) (client : addr) : cp_state * creq_out :=
    if unsupported m then (st, mkCout (fix_header m (empty_resp_m m RCodeNotImp)) [] false false)
    else match m_qs m with
         | q :: _ =>
           let '(st', o) := handle_req_c st t ts eps (lower_q q) client in
           let resp' := if has_opt m then add_or_replace_opt (co_resp o) else remove_opt (co_resp o) in
           (st', mkCout (fix_header m resp') (co_eff o) (co_cached o) (co_prefetch o))
         | [] => (st, mkCout (fix_header m (empty_resp_m m RCodeNotImp)) [] false false)
         end.

  (* doPrefetch for (q, client) through upstream #u; the Store at [ts] (+ [eps]) *)
  Definition prefetch_c (st : cp_state) (ts eps : Z) (u : nat) (q : question) (client : addr) : cp_state * list effect :=
    match forward_q ecs up u q client with
    | (Some r, eff) => (fst (cachectl_store maxttl st ts eps (ckey q client) (Some r) true), eff)
    | (None, eff) => (st, eff)
    end.

  (* histories of the caching proxy: clock ticks, requests, prefetches (for ANY question / client / upstream: a
     superset of the ones a hit can start), otter's collector and size evictions *)
  Inductive cev :=
  | CTick (c : N)
  | CReq (t ts eps : Z) (m : msg) (client : addr)
  | CPrefetch (ts eps : Z) (u : nat) (q : question) (client : addr)
  | CCollect (k : N)
  | CEvict (k : N).

  Definition cstep (st : cp_state) (ev : cev) : cp_state * option creq_out :=
    match ev with
    | CTick c => (fst (cp_step maxttl st (EvTick c)), None)
    | CReq t ts eps m client => let '(st', o) := handle_c st t ts eps m client in (st', Some o)
    | CPrefetch ts eps u q client => (fst (prefetch_c st ts eps u q client), None)
    | CCollect k => (fst (cp_step maxttl st (EvCollect k)), None)
    | CEvict k => (fst (cp_step maxttl st (EvEvict k)), None)
    end.

  Fixpoint crun (st : cp_state) (evs : list cev) : cp_state * list (option creq_out) :=
    match evs with
    | [] => (st, [])
    | ev :: evs' =>
      let '(st1, o) := cstep st ev in
      let '(st2, os) := crun st1 evs' in
      (st2, o :: os)
    end.
End CachedRouter.
