(* Router/Edns.v — model of app/router/utils.go (newEDNS0, addOrReplaceOpt), dnsmsg.RemoveEDNS0,
   app/router/ecs.go (makeEdns0ClientSubnetReqOpt) and router.packReq. *)
From Mos Require Import Base.Prelude Codec.Name Codec.Msg.

Definition udp_size : N := 1200.   (* router.go const udpSize; pinned by the byte-exact correspondence *)

Definition is_opt (r : rr) : bool := (r_type r =? TypeOPT)%N.
Definition has_opt (m : msg) : bool := existsb is_opt (m_ar m).
Definition count_opt (rs : list rr) : nat := length (filter is_opt rs).

(* newEDNS0: root owner, class = max 512 size, type OPT, TTL 0, no options *)
Definition new_opt (size : N) (data : list N) : rr :=
  mkRR [] TypeOPT (if (size <? 512)%N then 512%N else size) 0 0 (RRaw data).

Definition set_ar (m : msg) (ar : list rr) : msg := mkMsg (m_hdr m) (m_qs m) (m_an m) (m_ns m) ar.

(* dnsmsg.RemoveEDNS0 / PopEDNS0 on the additional section *)
Definition remove_opt (m : msg) : msg := set_ar m (snd (pop_opt (m_ar m))).
(* addOrReplaceOpt(m, udpSize) *)
Definition add_or_replace_opt (m : msg) : msg := set_ar m (snd (pop_opt (m_ar m)) ++ [new_opt udp_size []]).

(* ---------- client addresses ---------- *)
Inductive addr := A4 (b : list N) (* 4 octets *) | A6 (b : list N) (* 16 octets *) | ANone.

Definition v4_mapped_prefix : list N := [0;0;0;0;0;0;0;0;0;0;255;255]%N.
Definition unmap (a : addr) : addr :=
  match a with
  | A6 b => if list_eqb (firstn 12 b) v4_mapped_prefix then A4 (skipn 12 b) else a
  | _ => a
  end.

(* the ECS option carried in the OPT RDATA: code 8, length, family, source prefix, scope 0, truncated address *)
Definition ecs_option (a : addr) : list N :=
  match unmap a with
  | A4 b => [0; 8; 0; 7; 0; 1; 24; 0]%N ++ firstn 3 b
  | A6 b => [0; 8; 0; 11; 0; 2; 56; 0]%N ++ firstn 7 b
  | ANone => []
  end.

(* router.packReq: fresh message, RD, the one question, a new OPT (with ECS when enabled and the address is valid) *)
Definition req_msg (ecs : bool) (q : question) (client : addr) : msg :=
  mkMsg (mkHeader 0 false 0 false false true false false false 0) [q] [] []
        [new_opt udp_size (if ecs then ecs_option client else [])].

Definition pack_req (ecs : bool) (q : question) (client : addr) : res (list N) :=
  let m := req_msg ecs q client in pack_msg (msg_len m) false 0 m.
