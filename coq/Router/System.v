(* Router/System.v — composition model for C04: many concurrent requests, a shared cache with arbitrary eviction,
   exchanges that complete in any order.  Components enter through their contracts, which are the theorems of the
   other properties:
     - the cache key is injective on (question, group)                               (C07_key_injective)
     - an exchange that returns, returns the upstream's reply to ITS OWN query        (C05_delivery, C06_own_reply)
     - a cache hit under key k returns a value stored under k                         (C07_hit_same_key)
     - recycled objects behave as values                                              (C20)
   The upstream is a function [ans] of the question (what the selected upstream produces for it). *)
From Mos Require Import Base.Prelude Codec.Name.

Section System.
  Variables Q A : Type.
  Variable key : Q -> list N.                 (* cache key of a (lower-cased question, group) *)
  Variable ans : Q -> A.                      (* the selected upstream's answer for a question *)

  Inductive sys_pc := SpArrived | SpMissed | SpWaiting | SpGot (a : A) | SpDone (a : A) (from_cache : bool).
  Record sys_req := mkSysReq { sr_q : Q; sr_pc : sys_pc }.
  Record sys_state := mkSys { sy_cache : list (list N * A); sy_reqs : list sys_req }.

  Fixpoint sys_find (k : list N) (c : list (list N * A)) : option A :=
    match c with
    | [] => None
    | (k', a) :: r => if list_eqb k k' then Some a else sys_find k r
    end.

  Fixpoint sys_remove (k : list N) (c : list (list N * A)) : list (list N * A) :=
    match c with
    | [] => []
    | (k', a) :: r => if list_eqb k k' then sys_remove k r else (k', a) :: sys_remove k r
    end.

  Fixpoint sys_set {X} (l : list X) (i : nat) (v : X) : list X :=
    match l, i with
    | [], _ => []
    | _ :: r, O => v :: r
    | x :: r, S j => x :: sys_set r j v
    end.

  Inductive sys_label :=
  | SlArrive (q : Q)           (* a query arrives on any listener *)
  | SlLookup (i : nat)         (* request i looks its key up in the cache: hit => done, miss => missed *)
  | SlStart (i : nat)          (* request i starts its upstream exchange *)
  | SlReply (i : nat)          (* the exchange of request i returns (any order among requests) *)
  | SlStore (i : nat)          (* request i stores its answer under its key, then responds *)
  | SlEvict (k : list N).      (* the cache drops any entry at any time *)

  Definition sys_step (s : sys_state) (l : sys_label) : option sys_state :=
    match l with
    | SlArrive q => Some (mkSys (sy_cache s) (sy_reqs s ++ [mkSysReq q SpArrived]))
    | SlLookup i =>
      match nth_error (sy_reqs s) i with
      | Some (mkSysReq q SpArrived) =>
        match sys_find (key q) (sy_cache s) with
        | Some a => Some (mkSys (sy_cache s) (sys_set (sy_reqs s) i (mkSysReq q (SpDone a true))))
        | None => Some (mkSys (sy_cache s) (sys_set (sy_reqs s) i (mkSysReq q SpMissed)))
        end
      | _ => None
      end
    | SlStart i =>
      match nth_error (sy_reqs s) i with
      | Some (mkSysReq q SpMissed) => Some (mkSys (sy_cache s) (sys_set (sy_reqs s) i (mkSysReq q SpWaiting)))
      | _ => None
      end
    | SlReply i =>
      match nth_error (sy_reqs s) i with
      (* contract of the transports: the exchange returns the reply to its own query *)
      | Some (mkSysReq q SpWaiting) => Some (mkSys (sy_cache s) (sys_set (sy_reqs s) i (mkSysReq q (SpGot (ans q)))))
      | _ => None
      end
    | SlStore i =>
      match nth_error (sy_reqs s) i with
      | Some (mkSysReq q (SpGot a)) =>
        Some (mkSys ((key q, a) :: sys_remove (key q) (sy_cache s)) (sys_set (sy_reqs s) i (mkSysReq q (SpDone a false))))
      | _ => None
      end
    | SlEvict k => Some (mkSys (sys_remove k (sy_cache s)) (sy_reqs s))
    end.

  Definition sys_init : sys_state := mkSys [] [].

  Fixpoint sys_run (s : sys_state) (ls : list sys_label) : option sys_state :=
    match ls with
    | [] => Some s
    | l :: r => match sys_step s l with Some s' => sys_run s' r | None => None end
    end.
End System.

Arguments SlArrive {Q} q. Arguments SlLookup {Q} i. Arguments SlStart {Q} i. Arguments SlReply {Q} i.
Arguments SlStore {Q} i. Arguments SlEvict {Q} k.
