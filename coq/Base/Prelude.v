(* Base/Prelude.v — common vocabulary of the mosproxy model.
   Octets / u16 / u32 are [N]; positions, lengths and fuel are [nat].
   Go panics are *values* ([Panic]); fuel exhaustion is a value ([OutOfFuel]). *)
From Coq Require Export List NArith ZArith Arith Lia Bool.
From Coq Require Import ZifyN ZifyNat ZifyBool.
Export ListNotations.

Notation byte := N (only parsing).

(* error identities of internal/dnsmsg (compared only as a class by the harness) *)
Inductive err :=
| ESmallBuffer | EBaseLen | ECalcLen | ENameTooLong | EInvalidPtr | ETooManyPtr
| EReserved | EBodyLen | EZeroSeg | ELabelLen | EResTooLong | ETooMany | EOther.

Inductive res (A : Type) := Ok (a : A) | Err (e : err) | Panic | OutOfFuel.
Arguments Ok {A}. Arguments Err {A}. Arguments Panic {A}. Arguments OutOfFuel {A}.

Definition bind {A B} (r : res A) (f : A -> res B) : res B :=
  match r with Ok a => f a | Err e => Err e | Panic => Panic | OutOfFuel => OutOfFuel end.
Notation "'do' x <- r ; k" := (bind r (fun x => k)) (at level 200, x pattern, r at level 100, k at level 200).

Definition is_ok {A} (r : res A) : bool := match r with Ok _ => true | _ => false end.
Definition safe {A} (r : res A) : Prop := r <> Panic /\ r <> OutOfFuel.

Lemma bind_safe {A B} (r : res A) (f : A -> res B) :
  safe r -> (forall a, r = Ok a -> safe (f a)) -> safe (bind r f).
Proof.
  unfold safe. destruct r; cbn; intros [H1 H2] Hf; try (split; congruence).
  apply Hf; reflexivity.
Qed.

(* ---- checked slice primitives (exactly where the Go code indexes) ---- *)

(* msg[i] *)
Definition get (msg : list N) (i : nat) : option N := nth_error msg i.

(* msg[a:b]  — Go panics unless a <= b <= len(msg) (cap = len for our buffers) *)
Definition slice (msg : list N) (a b : nat) : option (list N) :=
  if (a <=? b) && (b <=? length msg) then Some (firstn (b - a) (skipn a msg)) else None.

Lemma get_lt msg i c : get msg i = Some c -> i < length msg.
Proof. unfold get. intros H. apply nth_error_Some. congruence. Qed.

Lemma get_some msg i : i < length msg -> exists c, get msg i = Some c.
Proof.
  unfold get. intros H. destruct (nth_error msg i) eqn:E; eauto.
  apply nth_error_None in E. lia.
Qed.

Lemma slice_some msg a b : a <= b -> b <= length msg -> exists s, slice msg a b = Some s.
Proof.
  unfold slice. intros Ha Hb.
  assert ((a <=? b) && (b <=? length msg) = true) as ->; eauto.
  apply andb_true_iff; split; apply Nat.leb_le; lia.
Qed.

Lemma slice_len msg a b s : slice msg a b = Some s -> length s = b - a /\ a <= b /\ b <= length msg.
Proof.
  unfold slice. destruct ((a <=? b) && (b <=? length msg)) eqn:E; [|discriminate].
  apply andb_true_iff in E. destruct E as [Ea Eb]. apply Nat.leb_le in Ea, Eb.
  intros H. inversion H; subst; clear H.
  rewrite firstn_length, skipn_length. lia.
Qed.

Lemma get_app1 msg x i c : get msg i = Some c -> get (msg ++ x) i = Some c.
Proof. unfold get. intros H. rewrite nth_error_app1; auto. apply nth_error_Some. congruence. Qed.

Lemma get_app2 pre x i : get (pre ++ x) (length pre + i) = get x i.
Proof. unfold get. rewrite nth_error_app2 by lia. f_equal. lia. Qed.

Lemma slice_app1 msg x a b s : slice msg a b = Some s -> slice (msg ++ x) a b = Some s.
Proof.
  unfold slice. destruct ((a <=? b) && (b <=? length msg)) eqn:E; [|discriminate].
  apply andb_true_iff in E. destruct E as [Ea Eb]. apply Nat.leb_le in Ea, Eb.
  intros H. inversion H; subst; clear H.
  assert ((a <=? b) && (b <=? length (msg ++ x)) = true) as ->.
  { apply andb_true_iff; split; apply Nat.leb_le; [lia|rewrite app_length; lia]. }
  f_equal. rewrite skipn_app. rewrite firstn_app. rewrite skipn_length.
  replace (b - a - (length msg - a)) with 0 by lia. cbn [firstn]. now rewrite app_nil_r.
Qed.

Lemma slice_mid pre s post : slice (pre ++ s ++ post) (length pre) (length pre + length s) = Some s.
Proof.
  unfold slice.
  assert ((length pre <=? length pre + length s) && (length pre + length s <=? length (pre ++ s ++ post)) = true) as ->.
  { apply andb_true_iff; split; apply Nat.leb_le; [lia|rewrite !app_length; lia]. }
  f_equal. rewrite skipn_app, skipn_all, Nat.sub_diag. cbn [skipn app].
  replace (length pre + length s - length pre) with (length s) by lia.
  rewrite firstn_app, firstn_all, Nat.sub_diag. cbn. now rewrite app_nil_r.
Qed.

(* ---- big-endian integers ---- *)
Definition be16 (v : N) : list N := [(v / 256) mod 256; v mod 256]%N.
Definition be32 (v : N) : list N :=
  [(v / 16777216) mod 256; (v / 65536) mod 256; (v / 256) mod 256; v mod 256]%N.
Definition u16_of (a b : N) : N := (a * 256 + b)%N.
Definition u32_of (a b c d : N) : N := (((a * 256 + b) * 256 + c) * 256 + d)%N.

Definition isbyte (b : N) : Prop := (b < 256)%N.
Definition bytes (l : list N) : Prop := Forall isbyte l.

Lemma be16_len v : length (be16 v) = 2. Proof. reflexivity. Qed.
Lemma be32_len v : length (be32 v) = 4. Proof. reflexivity. Qed.

Lemma u16_be16 v : (v < 65536)%N -> u16_of ((v / 256) mod 256) (v mod 256) = v.
Proof. unfold u16_of. intros H. lia. Qed.

Lemma u32_be32 v : (v < 4294967296)%N ->
  u32_of ((v / 16777216) mod 256) ((v / 65536) mod 256) ((v / 256) mod 256) (v mod 256) = v.
Proof. unfold u32_of. intros H. lia. Qed.

Lemma be16_bytes v : bytes (be16 v).
Proof. unfold be16, bytes, isbyte. repeat constructor; apply N.mod_lt; lia. Qed.
Lemma be32_bytes v : bytes (be32 v).
Proof. unfold be32, bytes, isbyte. repeat constructor; apply N.mod_lt; lia. Qed.

Lemma u16_of_lt a b : isbyte a -> isbyte b -> (u16_of a b < 65536)%N.
Proof. unfold isbyte, u16_of. lia. Qed.
Lemma u32_of_lt a b c d : isbyte a -> isbyte b -> isbyte c -> isbyte d -> (u32_of a b c d < 4294967296)%N.
Proof. unfold isbyte, u32_of. lia. Qed.

Lemma be16_u16 a b : isbyte a -> isbyte b -> be16 (u16_of a b) = [a; b].
Proof. unfold isbyte, be16, u16_of. intros Ha Hb. f_equal; [|f_equal]; lia. Qed.

Lemma bytes_app a b : bytes (a ++ b) <-> bytes a /\ bytes b.
Proof. unfold bytes. apply Forall_app. Qed.

Lemma bytes_get msg i c : bytes msg -> get msg i = Some c -> isbyte c.
Proof.
  unfold bytes, get. intros H E. rewrite Forall_forall in H. apply H.
  eapply nth_error_In; eauto.
Qed.

Lemma bytes_firstn n l : bytes l -> bytes (firstn n l).
Proof.
  unfold bytes. revert l; induction n as [|n IH]; intros l H; cbn; [constructor|].
  destruct l as [|x l]; [constructor|]. inversion H; subst. constructor; auto.
Qed.
Lemma bytes_skipn n l : bytes l -> bytes (skipn n l).
Proof.
  unfold bytes. revert l; induction n as [|n IH]; intros l H; cbn; [exact H|].
  destruct l as [|x l]; [constructor|]. inversion H; subst. auto.
Qed.
Lemma bytes_slice msg a b s : bytes msg -> slice msg a b = Some s -> bytes s.
Proof.
  unfold slice. destruct (_ && _); [|discriminate]. intros H E. inversion E; subst.
  apply bytes_firstn, bytes_skipn, H.
Qed.

Lemma forallb_forall_N (l : list N) : forallb (fun b => (b <? 256)%N) l = true -> Forall (fun x => (x <? 256)%N = true) l.
Proof. intros H. rewrite Forall_forall. now apply forallb_forall. Qed.

Lemma bytes_forallb (l : list N) : forallb (fun b => (b <? 256)%N) l = true -> bytes l.
Proof.
  intros H. unfold bytes. rewrite Forall_forall. intros x Hx. unfold isbyte.
  apply N.ltb_lt. revert x Hx. apply forallb_forall. exact H.
Qed.
