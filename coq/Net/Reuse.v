(* Net/Reuse.v — model of internal/upstream/transport/reuse_transport.go (ReuseConnTransport):
   one-at-a-time TCP/DoT upstream connections (also the TCP leg of udpWithFallback).

   Small-ru_step labelled transition system whose steps are the atomic actions of the Go code:

     caller thread of one ExchangeContext call (record [exch]):
       CGet          top of the retry loop, about to call getIdleConn
       CDialWait w   in asyncDial's select { <-callCtx.Done ; <-dialChan }   (w = dial goroutine)
       CWait w new   in exchangeConnCtx's select { <-resChan ; <-ctx.Done }  (w = worker goroutine)
       CDone o       returned
     goroutine table (record [work]); the dial goroutine and the worker goroutine started by
     exchangeConnCtx for the connection it delivered share one slot (the former exits right after
     the rendezvous on dialChan):
       DDial         t.opts.DialContext in progress
       DSend oc      dial finished (conn registered under t.m, or failed); in the goroutine's select
                     { dialChan <- res ; <-callCtx.Done }
       WWrite c      exchangeConn: SetDeadline + c.c.Write(payload)
       WRead c       exchangeConn: ReadMsgFromTCP (io.ReadFull x2), 6 s I/O deadline
       WSend c r     resChan <- res            (buffered: never blocks)
       WRel1 c ok    releaseConn, first half : rc.close() (err) / rc.enterIdle() (ok)   [c.m]
       WRel2 c ok    releaseConn, second half: under t.m: delete(conns) / idleConns[rc] = {} / close if t.closed
     Only the worker returns the connection; the caller never touches it after the hand-over —
     the worker keeps running after the caller took its ctx.Done arm.

   Environment: the idle timer (LTimerFire = timer fires and closeIfIdle takes c.m), cancellation of
   a caller's ctx at any time, Close of the transport, I/O errors at any time (deadline, reset,
   local close: LWriteErr / LReadErr are always enabled), and the server.  The server owes one reply
   to every query it received ([s_unans]); it may deliver it whole, or in two parts with anything
   in between, or abort the connection.  Replies are tagged with the query they answer (the tag is
   the id of the exchange that wrote the query).

   Panics of the Go code (exitIdle / enterIdle) set [panicked].

   The model mirrors the tree AFTER "fix: a freshly dialled reusable connection is born serving":
   newReusableConn creates the connection with serving = true and a stopped timer, asyncDial does
   not call exitIdle.  (Before that fix the timer ran from creation and exitIdle's result_ru was
   ignored: the enterIdle panic was reachable, see docs/notes/C06.md.)

   Merged actions (each merges only thread-local work, or work on an object no other thread can
   reach): dial completion + newReusableConn + registration under t.m (LDialOk); closeIfIdle's
   critical section + its deferred c.c.Close() (LTimerFire; nobody holds a non-serving connection's
   socket); getIdleConn's loop is split into one ru_step per iteration (finer than the code, which
   holds t.m across the loop: more interleavings, so invariants carry over).

   No proofs in this file (Net/ReuseProofs.v). *)
From Mos Require Import Base.Prelude.

Inductive chunk := Whole (q : nat) | Half1 (q : nat) | Half2 (q : nat).
Inductive result_ru := RMsg (q : nat) | RuErr.
Inductive outcome_ru := OMsg (q : nat) | OErr | OCancel.

(* reusableConn flags + membership in the transport's two sets *)
Record cflags := mkFl {
  f_serving : bool; f_closed : bool; f_armed : bool;
  f_sock : bool;                       (* the local net.Conn has been closed *)
  f_inidle : bool; f_inconns : bool }.
(* what the client side did on the stream *)
Record cio := mkIo {
  i_written : nat;                     (* queries written *)
  i_consumed : nat;                    (* complete replies consumed *)
  i_partial : bool;                    (* first part of a reply consumed, rest not yet *)
  i_err : bool }.                      (* a write or read on it failed *)
(* server side + bytes in flight towards the client *)
Record csrv := mkSrv {
  s_unans : list nat;                  (* queries received, reply not yet started *)
  s_mid : option nat;                  (* reply half sent *)
  s_inbox : list chunk;                (* delivered to the client's socket, not yet read *)
  s_aborted : bool;
  s_maxout : nat;                      (* ghost: max number of queries owed at the server *)
  s_dirtyq : bool }.                   (* ghost: a query arrived while a reply was half sent *)
Record conn := mkConn { fl : cflags; io : cio; srv : csrv;
                        c_owner : option nat (* ghost: exchange it was last handed to *) }.

Inductive wpc :=
| WNone | DDial | DSend (oc : option nat)
| WWrite (c : nat) | WRead (c : nat) | WSend (c : nat) (r : result_ru)
| WRel1 (c : nat) (ok : bool) | WRel2 (c : nat) (ok : bool).
Record work := mkWork { w_exch : nat; w_pc : wpc; w_sent : option result_ru (* resChan *) }.

Inductive cpc := CNone | CGet | CDialWait (w : nat) | CWait (w : nat) (isnew : bool) | CDone (o : outcome_ru).
Record exch := mkExch { x_pc : cpc; x_retry : nat; x_cancel : bool }.

Record state_ru := mkState {
  t_closed : bool;
  nconn : nat; conns : nat -> conn;
  nexch : nat; exchs : nat -> exch;
  nwork : nat; works : nat -> work;
  panicked : bool }.

Definition ru_upd {A} (f : nat -> A) (k : nat) (v : A) : nat -> A :=
  fun i => if Nat.eqb i k then v else f i.

Definition blank_conn : conn :=
  mkConn (mkFl false false false false false false) (mkIo 0 0 false false)
         (mkSrv [] None [] false 0 false) None.
Definition ru_init : state_ru :=
  mkState false 0 (fun _ => blank_conn) 0 (fun _ => mkExch CNone 0 false)
          0 (fun _ => mkWork 0 WNone None) false.

Definition set_conn (s : state_ru) (c : nat) (v : conn) : state_ru :=
  mkState (t_closed s) (nconn s) (ru_upd (conns s) c v) (nexch s) (exchs s) (nwork s) (works s) (panicked s).
Definition set_work (s : state_ru) (w : nat) (v : work) : state_ru :=
  mkState (t_closed s) (nconn s) (conns s) (nexch s) (exchs s) (nwork s) (ru_upd (works s) w v) (panicked s).
Definition set_exch (s : state_ru) (e : nat) (v : exch) : state_ru :=
  mkState (t_closed s) (nconn s) (conns s) (nexch s) (ru_upd (exchs s) e v) (nwork s) (works s) (panicked s).
Definition set_panic (s : state_ru) : state_ru :=
  mkState (t_closed s) (nconn s) (conns s) (nexch s) (exchs s) (nwork s) (works s) true.

Definition set_fl (c : conn) (f : cflags) : conn := mkConn f (io c) (srv c) (c_owner c).
Definition set_io (c : conn) (i : cio) : conn := mkConn (fl c) i (srv c) (c_owner c).
Definition set_srv (c : conn) (v : csrv) : conn := mkConn (fl c) (io c) v (c_owner c).
Definition ru_set_pc (w : work) (p : wpc) : work := mkWork (w_exch w) p (w_sent w).
Definition set_xpc (x : exch) (p : cpc) : exch := mkExch p (x_retry x) (x_cancel x).

Fixpoint remove1 (q : nat) (l : list nat) : list nat :=
  match l with [] => [] | x :: r => if Nat.eqb x q then r else x :: remove1 q r end.
Definition ru_mem (q : nat) (l : list nat) : bool := existsb (Nat.eqb q) l.
Definition is_some {A} (o : option A) : bool := match o with Some _ => true | None => false end.
Definition owed (v : csrv) : nat := length (s_unans v) + (if is_some (s_mid v) then 1 else 0).

(* rc.close() *)
Definition fl_close (f : cflags) : cflags :=
  if f_closed f then f else mkFl (f_serving f) true false true (f_inidle f) (f_inconns f).

Definition no_idle (s : state_ru) : bool :=
  forallb (fun c => negb (f_inidle (fl (conns s c)))) (seq 0 (nconn s)).

Inductive label_ru :=
| LStart (cancelled : bool)     (* a new ExchangeContext call (id = nexch), ctx possibly done already *)
| LCancel (e : nat)             (* the caller's ctx ends *)
| LTClose                       (* ReuseConnTransport.Close *)
| LGetIdle (e c : nat)          (* one iteration of getIdleConn's loop, on idle connection c *)
| LGetNone (e : nat)            (* getIdleConn found nothing (or t.closed); asyncDial starts *)
| LDialOk (w : nat) | LDialFail (w : nat)
| LDialDeliver (w : nat)        (* rendezvous on dialChan; exchangeConnCtx starts the worker *)
| LDialAbandon (w : nat)        (* dial goroutine takes <-callCtx.Done: releaseConn(rc, nil) *)
| LCallerCtxDone (e : nat)      (* caller takes <-ctx.Done *)
| LCallerRecv (e : nat)         (* caller takes <-resChan *)
| LWrite (w : nat) | LWriteErr (w : nat)
| LRead (w : nat)               (* the worker's ReadFull consumes the next chunk *)
| LReadErr (w : nat)
| LSendRes (w : nat)
| LRel1 (w : nat) | LRel2 (w : nat)
| LTimerFire (c : nat)
| LSrvWhole (c q : nat) | LSrvHalf1 (c q : nat) | LSrvHalf2 (c : nat) | LSrvAbort (c : nat).

Definition st_start (s : state_ru) (b : bool) : option state_ru :=
  Some (mkState (t_closed s) (nconn s) (conns s) (S (nexch s))
                (ru_upd (exchs s) (nexch s) (mkExch CGet 0 b)) (nwork s) (works s) (panicked s)).

Definition st_cancel (s : state_ru) (e : nat) : option state_ru :=
  if e <? nexch s then
    let x := exchs s e in Some (set_exch s e (mkExch (x_pc x) (x_retry x) true))
  else None.

Definition st_tclose (s : state_ru) : option state_ru :=
  Some (mkState true (nconn s)
          (fun c => let k := conns s c in
                    if f_inconns (fl k)
                    then set_fl k (mkFl (f_serving (fl k)) (f_closed (fl k)) (f_armed (fl k)) true
                                        (f_inidle (fl k)) (f_inconns (fl k)))
                    else k)
          (nexch s) (exchs s) (nwork s) (works s) (panicked s)).

(* getIdleConn, one loop iteration: delete(idleConns, c); c.exitIdle() *)
Definition st_getidle (s : state_ru) (e c : nat) : option state_ru :=
  let x := exchs s e in
  match x_pc x with
  | CGet =>
    let k := conns s c in let f := fl k in
    if t_closed s then None
    else if negb (c <? nconn s) then None      (* not a connection *)
    else if negb (f_inidle f) then None
    else if f_closed f then          (* exitIdle: closed -> true; delete(conns, c); continue *)
      Some (set_conn s c (set_fl k (mkFl (f_serving f) (f_closed f) (f_armed f) (f_sock f) false false)))
    else if f_serving f then Some (set_panic s)     (* "call exitIdle on a busy connection" *)
    else if f_sock f then            (* SetReadDeadline failed: serving stays set, conn dropped *)
      Some (set_conn s c (set_fl k (mkFl true false false true false false)))
    else
      let w := nwork s in
      let s1 := set_conn s c (mkConn (mkFl true false false false false (f_inconns f)) (io k) (srv k) (Some e)) in
      let s2 := mkState (t_closed s1) (nconn s1) (conns s1) (nexch s1)
                        (ru_upd (exchs s1) e (set_xpc x (CWait w false)))
                        (S w) (ru_upd (works s1) w (mkWork e (WWrite c) None)) (panicked s1) in
      Some s2
  | _ => None
  end.

Definition st_getnone (s : state_ru) (e : nat) : option state_ru :=
  let x := exchs s e in
  match x_pc x with
  | CGet =>
    if t_closed s then Some (set_exch s e (set_xpc x (CDone OErr)))
    else if no_idle s then
      let w := nwork s in
      Some (mkState (t_closed s) (nconn s) (conns s) (nexch s)
                    (ru_upd (exchs s) e (set_xpc x (CDialWait w)))
                    (S w) (ru_upd (works s) w (mkWork e DDial None)) (panicked s))
    else None
  | _ => None
  end.

(* DialContext returned a conn; newReusableConn (born serving, timer stopped); under t.m: closed? / conns[rc] *)
Definition st_dialok (s : state_ru) (w : nat) : option state_ru :=
  let k := works s w in
  match w_pc k with
  | DDial =>
    let c := nconn s in
    if t_closed s then
      Some (mkState (t_closed s) (S c)
              (ru_upd (conns s) c (mkConn (mkFl true true false true false false) (mkIo 0 0 false false)
                                       (mkSrv [] None [] false 0 false) (Some (w_exch k))))
              (nexch s) (exchs s) (nwork s) (ru_upd (works s) w (ru_set_pc k (DSend None))) (panicked s))
    else
      Some (mkState (t_closed s) (S c)
              (ru_upd (conns s) c (mkConn (mkFl true false false false false true) (mkIo 0 0 false false)
                                       (mkSrv [] None [] false 0 false) (Some (w_exch k))))
              (nexch s) (exchs s) (nwork s) (ru_upd (works s) w (ru_set_pc k (DSend (Some c)))) (panicked s))
  | _ => None
  end.

Definition st_dialfail (s : state_ru) (w : nat) : option state_ru :=
  let k := works s w in
  match w_pc k with
  | DDial => Some (set_work s w (ru_set_pc k (DSend None)))
  | _ => None
  end.

Definition st_dialdeliver (s : state_ru) (w : nat) : option state_ru :=
  let k := works s w in let e := w_exch k in let x := exchs s e in
  match w_pc k, x_pc x with
  | DSend oc, CDialWait w' =>
    if Nat.eqb w' w then
      match oc with
      | Some c => Some (set_exch (set_work s w (ru_set_pc k (WWrite c))) e (set_xpc x (CWait w true)))
      | None => Some (set_exch (set_work s w (ru_set_pc k WNone)) e (set_xpc x (CDone OErr)))
      end
    else None
  | _, _ => None
  end.

Definition st_dialabandon (s : state_ru) (w : nat) : option state_ru :=
  let k := works s w in
  match w_pc k with
  | DSend oc =>
    if x_cancel (exchs s (w_exch k)) then
      match oc with
      | Some c => Some (set_work s w (ru_set_pc k (WRel1 c true)))
      | None => Some (set_work s w (ru_set_pc k WNone))
      end
    else None
  | _ => None
  end.

Definition st_ctxdone (s : state_ru) (e : nat) : option state_ru :=
  let x := exchs s e in
  if x_cancel x then
    match x_pc x with
    | CDialWait _ | CWait _ _ => Some (set_exch s e (set_xpc x (CDone OCancel)))
    | _ => None
    end
  else None.

Definition st_recv (s : state_ru) (e : nat) : option state_ru :=
  let x := exchs s e in
  match x_pc x with
  | CWait w isnew =>
    match w_sent (works s w) with
    | Some (RMsg q) => Some (set_exch s e (set_xpc x (CDone (OMsg q))))
    | Some RuErr =>
      if negb isnew && (x_retry x <=? 5) && negb (x_cancel x)
      then Some (set_exch s e (mkExch CGet (S (x_retry x)) (x_cancel x)))
      else Some (set_exch s e (set_xpc x (CDone OErr)))
    | None => None
    end
  | _ => None
  end.

Definition st_write (s : state_ru) (w : nat) : option state_ru :=
  let k := works s w in
  match w_pc k with
  | WWrite c =>
    let cn := conns s c in let i := io cn in let v := srv cn in
    let v' := mkSrv (s_unans v ++ [w_exch k]) (s_mid v) (s_inbox v) (s_aborted v)
                    (* ghost observations of the server: it sees nothing on a connection it aborted *)
                    (if s_aborted v then s_maxout v else Nat.max (s_maxout v) (S (owed v)))
                    (s_dirtyq v || (negb (s_aborted v) && is_some (s_mid v))) in
    Some (set_work (set_conn s c (mkConn (fl cn) (mkIo (S (i_written i)) (i_consumed i) (i_partial i) (i_err i))
                                         v' (c_owner cn)))
                   w (ru_set_pc k (WRead c)))
  | _ => None
  end.

Definition io_fail (i : cio) : cio := mkIo (i_written i) (i_consumed i) (i_partial i) true.

Definition st_writeerr (s : state_ru) (w : nat) : option state_ru :=
  let k := works s w in
  match w_pc k with
  | WWrite c =>
    let cn := conns s c in
    Some (set_work (set_conn s c (set_io cn (io_fail (io cn)))) w (ru_set_pc k (WSend c RuErr)))
  | _ => None
  end.

Definition st_read (s : state_ru) (w : nat) : option state_ru :=
  let k := works s w in
  match w_pc k with
  | WRead c =>
    let cn := conns s c in let i := io cn in let v := srv cn in
    match s_inbox v with
    | [] => None
    | ch :: rest =>
      let v' := mkSrv (s_unans v) (s_mid v) rest (s_aborted v) (s_maxout v) (s_dirtyq v) in
      let done q := Some (set_work (set_conn s c (mkConn (fl cn) (mkIo (i_written i) (S (i_consumed i)) false (i_err i))
                                                          v' (c_owner cn)))
                                   w (ru_set_pc k (WSend c (RMsg q)))) in
      let bad := Some (set_work (set_conn s c (mkConn (fl cn) (io_fail i) v' (c_owner cn)))
                                w (ru_set_pc k (WSend c RuErr))) in
      match ch with
      | Whole q => if i_partial i then bad else done q
      | Half1 q => if i_partial i then bad
                   else Some (set_conn s c (mkConn (fl cn) (mkIo (i_written i) (i_consumed i) true (i_err i))
                                                   v' (c_owner cn)))
      | Half2 q => if i_partial i then done q else bad
      end
    end
  | _ => None
  end.

Definition st_readerr (s : state_ru) (w : nat) : option state_ru :=
  let k := works s w in
  match w_pc k with
  | WRead c =>
    let cn := conns s c in
    Some (set_work (set_conn s c (set_io cn (io_fail (io cn)))) w (ru_set_pc k (WSend c RuErr)))
  | _ => None
  end.

Definition res_ok (r : result_ru) : bool := match r with RMsg _ => true | RuErr => false end.

Definition st_sendres (s : state_ru) (w : nat) : option state_ru :=
  let k := works s w in
  match w_pc k with
  | WSend c r => Some (set_work s w (mkWork (w_exch k) (WRel1 c (res_ok r)) (Some r)))
  | _ => None
  end.

(* releaseConn, first half *)
Definition st_rel1 (s : state_ru) (w : nat) : option state_ru :=
  let k := works s w in
  match w_pc k with
  | WRel1 c ok =>
    let cn := conns s c in let f := fl cn in
    if ok then
      if f_serving f then     (* enterIdle: serving = false; idleTimer.Reset *)
        Some (set_work (set_conn s c (set_fl cn (mkFl false (f_closed f) true (f_sock f) (f_inidle f) (f_inconns f))))
                       w (ru_set_pc k (WRel2 c true)))
      else Some (set_panic s) (* "call enterIdle on a idle connection" *)
    else Some (set_work (set_conn s c (set_fl cn (fl_close f))) w (ru_set_pc k (WRel2 c false)))
  | _ => None
  end.

(* releaseConn, second half (under t.m) *)
Definition st_rel2 (s : state_ru) (w : nat) : option state_ru :=
  let k := works s w in
  match w_pc k with
  | WRel2 c ok =>
    let cn := conns s c in let f := fl cn in
    let f' :=
      if t_closed s then (if ok then fl_close f else f)
      else if ok then mkFl (f_serving f) (f_closed f) (f_armed f) (f_sock f) true (f_inconns f)
      else mkFl (f_serving f) (f_closed f) (f_armed f) (f_sock f) (f_inidle f) false in
    Some (set_work (set_conn s c (set_fl cn f')) w (ru_set_pc k WNone))
  | _ => None
  end.

(* the idle timer fires and closeIfIdle runs *)
Definition st_timer (s : state_ru) (c : nat) : option state_ru :=
  let cn := conns s c in let f := fl cn in
  if f_armed f then
    if f_serving f
    then Some (set_conn s c (set_fl cn (mkFl (f_serving f) (f_closed f) false (f_sock f) (f_inidle f) (f_inconns f))))
    else Some (set_conn s c (set_fl cn (mkFl (f_serving f) true false true (f_inidle f) (f_inconns f))))
  else None.

Definition st_srvwhole (s : state_ru) (c q : nat) : option state_ru :=
  let cn := conns s c in let v := srv cn in
  if negb (s_aborted v) && ru_mem q (s_unans v) && negb (is_some (s_mid v)) then
    Some (set_conn s c (set_srv cn (mkSrv (remove1 q (s_unans v)) None (s_inbox v ++ [Whole q])
                                          (s_aborted v) (s_maxout v) (s_dirtyq v))))
  else None.

Definition st_srvhalf1 (s : state_ru) (c q : nat) : option state_ru :=
  let cn := conns s c in let v := srv cn in
  if negb (s_aborted v) && ru_mem q (s_unans v) && negb (is_some (s_mid v)) then
    Some (set_conn s c (set_srv cn (mkSrv (remove1 q (s_unans v)) (Some q) (s_inbox v ++ [Half1 q])
                                          (s_aborted v) (s_maxout v) (s_dirtyq v))))
  else None.

Definition st_srvhalf2 (s : state_ru) (c : nat) : option state_ru :=
  let cn := conns s c in let v := srv cn in
  match s_mid v with
  | Some q =>
    if s_aborted v then None
    else Some (set_conn s c (set_srv cn (mkSrv (s_unans v) None (s_inbox v ++ [Half2 q])
                                               (s_aborted v) (s_maxout v) (s_dirtyq v))))
  | None => None
  end.

Definition st_srvabort (s : state_ru) (c : nat) : option state_ru :=
  let cn := conns s c in let v := srv cn in
  Some (set_conn s c (set_srv cn (mkSrv (s_unans v) (s_mid v) (s_inbox v) true (s_maxout v) (s_dirtyq v)))).

Definition ru_step (s : state_ru) (l : label_ru) : option state_ru :=
  if panicked s then None else
  match l with
  | LStart b => st_start s b
  | LCancel e => st_cancel s e
  | LTClose => st_tclose s
  | LGetIdle e c => st_getidle s e c
  | LGetNone e => st_getnone s e
  | LDialOk w => st_dialok s w
  | LDialFail w => st_dialfail s w
  | LDialDeliver w => st_dialdeliver s w
  | LDialAbandon w => st_dialabandon s w
  | LCallerCtxDone e => st_ctxdone s e
  | LCallerRecv e => st_recv s e
  | LWrite w => st_write s w
  | LWriteErr w => st_writeerr s w
  | LRead w => st_read s w
  | LReadErr w => st_readerr s w
  | LSendRes w => st_sendres s w
  | LRel1 w => st_rel1 s w
  | LRel2 w => st_rel2 s w
  | LTimerFire c => st_timer s c
  | LSrvWhole c q => st_srvwhole s c q
  | LSrvHalf1 c q => st_srvhalf1 s c q
  | LSrvHalf2 c => st_srvhalf2 s c
  | LSrvAbort c => st_srvabort s c
  end.

Fixpoint steps (s : state_ru) (ls : list label_ru) : option state_ru :=
  match ls with
  | [] => Some s
  | l :: r => match ru_step s l with Some s' => steps s' r | None => None end
  end.

Definition reachable (s : state_ru) : Prop := exists ls, steps ru_init ls = Some s.

(* ------------------------------------------------------------------------------------------
   Deterministic big-ru_step semantics for quiescent histories (what the harness replays): after
   every external event_ru all enabled internal actions run, in a fixed order, until nothing is
   enabled.  Every action taken is a [ru_step] of the system above, so a history is one particular
   schedule ([run_trace] returns it).
   I/O errors happen only where a loopback TCP connection produces them: a write fails when the
   local socket is closed; a blocked read fails when the peer aborted or the local socket was
   closed, and on EDeadline. *)

Inductive event_ru :=
| EStart (cancelled : bool)   (* a new exchange; [true]: its ctx is already done (cancel before write) *)
| ECancel (e : nat)
| EReply (e : nat)            (* the server sends the whole reply to e's query *)
| EReplyHalf (e : nat)        (* ... the first half of the frame *)
| EReplyRest (e : nat)        (* ... the rest *)
| EAbort (e : nat)            (* the server closes the connection on which it owes e a reply *)
| EAbortIdle                  (* the server closes every connection on which it owes nothing *)
| EIdleTimeout                (* every running idle timer fires *)
| EDeadline                   (* the I/O deadline of every blocked read expires *)
| EClose.                     (* ReuseConnTransport.Close *)

Fixpoint find_first (p : nat -> bool) (n : nat) (from : nat) : option nat :=
  match n with
  | O => None
  | S m => if p from then Some from else find_first p m (S from)
  end.

Definition exch_label (s : state_ru) (e : nat) : option label_ru :=
  let x := exchs s e in
  match x_pc x with
  | CGet =>
    if t_closed s then Some (LGetNone e)
    else match find_first (fun c => f_inidle (fl (conns s c))) (nconn s) 0 with
         | Some c => Some (LGetIdle e c)
         | None => Some (LGetNone e)
         end
  | CDialWait w =>
    if x_cancel x then Some (LCallerCtxDone e)
    else match w_pc (works s w) with DSend _ => Some (LDialDeliver w) | _ => None end
  | CWait w _ =>
    if x_cancel x then Some (LCallerCtxDone e)
    else if is_some (w_sent (works s w)) then Some (LCallerRecv e) else None
  | _ => None
  end.

Definition work_label (s : state_ru) (w : nat) : option label_ru :=
  let k := works s w in
  match w_pc k with
  | DDial => Some (LDialOk w)
  | DSend _ =>
    let x := exchs s (w_exch k) in
    if x_cancel x && match x_pc x with CDialWait _ => false | _ => true end
    then Some (LDialAbandon w) else None
  | WWrite c => if f_sock (fl (conns s c)) then Some (LWriteErr w) else Some (LWrite w)
  | WRead c =>
    let cn := conns s c in
    match s_inbox (srv cn) with
    | _ :: _ => Some (LRead w)
    | [] => if s_aborted (srv cn) || f_sock (fl cn) then Some (LReadErr w) else None
    end
  | WSend _ _ => Some (LSendRes w)
  | WRel1 _ _ => Some (LRel1 w)
  | WRel2 _ _ => Some (LRel2 w)
  | WNone => None
  end.

Fixpoint first_some {A} (f : nat -> option A) (n : nat) (from : nat) : option A :=
  match n with
  | O => None
  | S m => match f from with Some a => Some a | None => first_some f m (S from) end
  end.

Definition next_label (s : state_ru) : option label_ru :=
  match first_some (exch_label s) (nexch s) 0 with
  | Some l => Some l
  | None => first_some (work_label s) (nwork s) 0
  end.

(* run internal actions to quiescence; the trace (reversed) is accumulated *)
Fixpoint settle (fuel : nat) (s : state_ru) (tr : list label_ru) : option (state_ru * list label_ru) :=
  match next_label s with
  | None => Some (s, tr)
  | Some l =>
    match fuel with
    | O => None
    | S f => match ru_step s l with Some s' => settle f s' (l :: tr) | None => None end
    end
  end.

Fixpoint do_labels (s : state_ru) (ls : list label_ru) (tr : list label_ru) : option (state_ru * list label_ru) :=
  match ls with
  | [] => Some (s, tr)
  | l :: r => match ru_step s l with Some s' => do_labels s' r (l :: tr) | None => None end
  end.

Definition live (cn : conn) : bool := negb (s_aborted (srv cn)) && negb (f_sock (fl cn)).

Definition env_labels (s : state_ru) (ev : event_ru) : list label_ru :=
  let cs := seq 0 (nconn s) in
  match ev with
  | EStart b => [LStart b]
  | ECancel e => if e <? nexch s then [LCancel e] else []
  | EReply e =>
    match find_first (fun c => let cn := conns s c in
                               live cn && ru_mem e (s_unans (srv cn)) && negb (is_some (s_mid (srv cn)))) (nconn s) 0 with
    | Some c => [LSrvWhole c e] | None => [] end
  | EReplyHalf e =>
    match find_first (fun c => let cn := conns s c in
                               live cn && ru_mem e (s_unans (srv cn)) && negb (is_some (s_mid (srv cn)))) (nconn s) 0 with
    | Some c => [LSrvHalf1 c e] | None => [] end
  | EReplyRest e =>
    match find_first (fun c => let cn := conns s c in
                               live cn && match s_mid (srv cn) with Some q => Nat.eqb q e | None => false end) (nconn s) 0 with
    | Some c => [LSrvHalf2 c] | None => [] end
  | EAbort e =>
    match find_first (fun c => let cn := conns s c in
                               live cn && (ru_mem e (s_unans (srv cn)) ||
                                           match s_mid (srv cn) with Some q => Nat.eqb q e | None => false end)) (nconn s) 0 with
    | Some c => [LSrvAbort c] | None => [] end
  | EAbortIdle =>
    map LSrvAbort (filter (fun c => let cn := conns s c in
                                    live cn && (owed (srv cn) =? 0)) cs)
  | EIdleTimeout => map LTimerFire (filter (fun c => f_armed (fl (conns s c))) cs)
  | EDeadline =>
    map LReadErr (filter (fun w => match w_pc (works s w) with WRead _ => true | _ => false end)
                         (seq 0 (nwork s)))
  | EClose => [LTClose]
  end.

Definition settle_fuel : nat := 400.

Definition run_event (st : state_ru * list label_ru) (ev : event_ru) : option (state_ru * list label_ru) :=
  let (s, tr) := st in
  match do_labels s (env_labels s ev) tr with
  | Some (s1, tr1) => settle settle_fuel s1 tr1
  | None => None
  end.

Fixpoint run_events (st : state_ru * list label_ru) (evs : list event_ru) : option (state_ru * list label_ru) :=
  match evs with
  | [] => Some st
  | ev :: r => match run_event st ev with Some st' => run_events st' r | None => None end
  end.

(* trace in execution order *)
Definition run_trace (evs : list event_ru) : option (state_ru * list label_ru) :=
  match run_events (ru_init, []) evs with
  | Some (s, tr) => Some (s, rev tr)
  | None => None
  end.

Definition run_history (evs : list event_ru) : option state_ru :=
  match run_trace evs with Some (s, _) => Some s | None => None end.

(* ---- observables printed by the model runner ---- *)
Definition outcomes (s : state_ru) : list cpc := map (fun e => x_pc (exchs s e)) (seq 0 (nexch s)).
Definition count (p : nat -> bool) (n : nat) : nat := length (filter p (seq 0 n)).
Definition obs_idle (s : state_ru) : nat := count (fun c => f_inidle (fl (conns s c))) (nconn s).
Definition obs_conns (s : state_ru) : nat := count (fun c => f_inconns (fl (conns s c))) (nconn s).
Definition obs_maxout (s : state_ru) : nat :=
  fold_right Nat.max 0 (map (fun c => s_maxout (srv (conns s c))) (seq 0 (nconn s))).
Definition obs_dirty (s : state_ru) : bool :=
  existsb (fun c => s_dirtyq (srv (conns s c))) (seq 0 (nconn s)).

(* executable form of the C06 oracle, evaluated by the model on its own run:
   every returned message is the caller's own; never more than one query owed; no query on a
   half-replied connection; no panic *)
Definition spec_ok (s : state_ru) : bool :=
  negb (panicked s) &&
  forallb (fun e => match x_pc (exchs s e) with CDone (OMsg q) => Nat.eqb q e | _ => true end) (seq 0 (nexch s)) &&
  (obs_maxout s <=? 1) && negb (obs_dirty s) &&
  forallb (fun c => let cn := conns s c in
                    (i_written (io cn) <=? S (i_consumed (io cn))) &&
                    (negb (f_inidle (fl cn)) ||
                     (Nat.eqb (i_written (io cn)) (i_consumed (io cn)) && negb (i_partial (io cn)) &&
                      negb (i_err (io cn)) && negb (f_serving (fl cn))))) (seq 0 (nconn s)).
