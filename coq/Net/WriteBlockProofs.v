(* Net/WriteBlockProofs.v — proofs about Net/WriteBlock.v (C14, round 4). *)
From Mos Require Import Base.Prelude Net.WriteBlock.

(* with the kernel time-out wired in, a blocked write lasts at most that long *)
Lemma wb_block_le u idle : wb_block (Some u) idle <= u.
Proof. cbn. apply Nat.le_min_l. Qed.

(* what the code guarantees in general: every attempt starts while the context is live and lasts at most the kernel
   time-out, so an exchange returns no later than its deadline + TCP_USER_TIMEOUT - whatever the connections do *)
Theorem wb_bounded_by_deadline_plus_ut u idle dl cs : forall retry t,
  t <= dl -> wb_return (Some u) idle dl retry t cs <= dl + u.
Proof.
  induction cs as [|c r IH]; intros retry t H; cbn [wb_return]; [lia|].
  destruct c as [reused|]; [|lia].
  pose proof (wb_block_le u idle) as B.
  destruct (reused && (retry <? 5) && (t + wb_block (Some u) idle <? dl)) eqn:E.
  - apply IH. apply andb_true_iff in E. destruct E as [_ E]. apply Nat.ltb_lt in E. lia.
  - lia.
Qed.

(* the server stops reading on ONE connection and refuses the others (the class of the kind "stall", srv=one): the
   exchange is back after the kernel time-out, i.e. within its deadline when that time-out is shorter *)
Theorem wb_one_stalled_connection u idle dl retry :
  u <= idle -> wb_return (Some u) idle dl retry 0 [WbStall true; WbRefuse] = u.
Proof.
  intros H. cbn [wb_return]. unfold wb_block. rewrite Nat.min_l by exact H. cbn [Nat.add].
  destruct (true && (retry <? 5) && (u <? dl)); reflexivity.
Qed.

(* REFUTED without the kernel time-out: only the idle read deadline ends the write *)
Lemma wb_return_ge ut idle dl cs : forall r t, t <= wb_return ut idle dl r t cs.
Proof.
  induction cs as [|c cs IH]; intros r t; cbn [wb_return]; [lia|]. destruct c; [|lia].
  destruct (reused && (r <? 5) && (t + wb_block ut idle <? dl)); [|lia].
  specialize (IH (S r) (t + wb_block ut idle)). lia.
Qed.

Theorem wb_without_user_timeout idle dl retry cs :
  wb_return None idle dl retry 0 (WbStall true :: cs) >= idle.
Proof.
  cbn [wb_return wb_block Nat.add]. destruct (true && (retry <? 5) && (idle <? dl)); [|lia].
  apply wb_return_ge.
Qed.

(* the constants of the code *)
Theorem wb_cases :
  wb_case true false = true /\                 (* TCP_USER_TIMEOUT wired in, one stalled connection: in time (5.0 s) *)
  wb_case false false = false /\               (* not wired in: 10 s, later than 6 s + 1.5 s *)
  wb_case true true = false /\                 (* every connection stalls: 2 x 5 s even with the time-out (K8) *)
  wb_return (Some wb_ut_ds) wb_idle_ds wb_dl_ds 0 0 [WbStall true; WbStall true; WbStall true] = 100.
Proof. vm_compute. repeat split. Qed.
