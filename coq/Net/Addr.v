(* Net/Addr.v — model of how an upstream address is turned into (network, dial target, SNI, HTTP Host).
   Mirrors  internal/upstream/upstream.go  NewUpstream (scheme defaulting, helper schemes, per-scheme default port,
   SNI := tryRemovePort(urlAddrHost))  and  internal/upstream/utils.go  (tryTrimIpv6Brackets, getDialAddr,
   trySplitHostPort, tryRemovePort, dialNetworkTcpOrUnix).  Go's net.SplitHostPort / net.JoinHostPort are
   re-implemented here for ALL byte strings (checked against the real ones by the `addr` correspondence kind).
   Strings are lists of octets.  Executable definitions only; proofs are in Net/AddrProofs.v. *)
From Mos Require Import Base.Prelude.

Local Open Scope N_scope.

(* ---- characters ---- *)
Definition ch_colon : N := 58.   (* ':' *)
Definition ch_lbr   : N := 91.   (* '[' *)
Definition ch_rbr   : N := 93.   (* ']' *)
Definition ch_at    : N := 64.   (* '@' *)
Definition ch_slash : N := 47.   (* '/' *)
Definition ch_qmark : N := 63.   (* '?' *)
Definition ch_hash  : N := 35.   (* '#' *)
Definition ch_dot   : N := 46.   (* '.' *)
Definition ch_dash  : N := 45.   (* '-' *)
Definition ch_under : N := 95.   (* '_' *)

Definition is_digit (c : N) : bool := (48 <=? c) && (c <=? 57).
Definition is_lower (c : N) : bool := (97 <=? c) && (c <=? 122).
Definition is_upper (c : N) : bool := (65 <=? c) && (c <=? 90).
Definition is_hex (c : N) : bool :=
  is_digit c || ((97 <=? c) && (c <=? 102)) || ((65 <=? c) && (c <=? 70)).

Definition has_byte (c : N) (s : list N) : bool := existsb (N.eqb c) s.

Fixpoint count_byte (c : N) (s : list N) : nat :=
  match s with
  | [] => O
  | x :: t => if x =? c then S (count_byte c t) else count_byte c t
  end.

Fixpoint addr_list_eqb (a b : list N) : bool :=
  match a, b with
  | [], [] => true
  | x :: a', y :: b' => (x =? y) && addr_list_eqb a' b'
  | _, _ => false
  end.

Fixpoint starts_with (p s : list N) : bool :=
  match p, s with
  | [], _ => true
  | x :: p', y :: s' => (x =? y) && starts_with p' s'
  | _ :: _, [] => false
  end.

(* s = a ++ c :: b with c not in b   (strings.LastIndexByte) *)
Fixpoint rsplit (c : N) (s : list N) : option (list N * list N) :=
  match s with
  | [] => None
  | x :: t =>
    match rsplit c t with
    | Some (a, b) => Some (x :: a, b)
    | None => if x =? c then Some ([], t) else None
    end
  end.

(* s = a ++ c :: b with c not in a   (strings.IndexByte) *)
Fixpoint lsplit (c : N) (s : list N) : option (list N * list N) :=
  match s with
  | [] => None
  | x :: t =>
    if x =? c then Some ([], t)
    else match lsplit c t with
         | Some (a, b) => Some (x :: a, b)
         | None => None
         end
  end.

(* ---- net.SplitHostPort (None = error) ---- *)
Definition split_host_port (hp : list N) : option (list N * list N) :=
  match rsplit ch_colon hp with                       (* i := LastIndexByte(hostport, ':') *)
  | None => None                                      (* missing port *)
  | Some (pre, port) =>                               (* pre = hostport[:i], port = hostport[i+1:] *)
    match hp with
    | [] => None
    | c0 :: tl0 =>
      if c0 =? ch_lbr then
        match lsplit ch_rbr hp with                   (* end := IndexByte(hostport, ']') *)
        | None => None                                (* missing ']' *)
        | Some (a, b) =>                              (* a = hostport[:end], b = hostport[end+1:] *)
          match b with
          | [] => None                                (* end+1 == len: missing port *)
          | _ :: _ =>
            if Nat.eqb (S (length a)) (length pre) then    (* end+1 == i *)
              let host := tl a in                     (* hostport[1:end] *)
              if has_byte ch_lbr tl0 then None        (* '[' in hostport[1:] *)
              else if has_byte ch_rbr b then None     (* ']' in hostport[end+1:] *)
              else Some (host, port)
            else None                                 (* too many colons / missing port *)
          end
        end
      else
        if has_byte ch_colon pre then None            (* too many colons *)
        else if has_byte ch_lbr hp then None
        else if has_byte ch_rbr hp then None
        else Some (pre, port)
    end
  end.

(* ---- net.JoinHostPort ---- *)
Definition join_host_port (host port : list N) : list N :=
  if has_byte ch_colon host then ch_lbr :: host ++ ch_rbr :: ch_colon :: port
  else host ++ ch_colon :: port.

(* ---- utils.go ---- *)
Definition try_split_host_port (s : list N) : list N * list N :=
  match split_host_port s with Some hp => hp | None => (s, []) end.

Definition try_remove_port (s : list N) : list N :=
  match split_host_port s with Some (h, _) => h | None => s end.

(* tryTrimIpv6Brackets (after the D10 fix: s[1:len(s)-1]) *)
Definition try_trim_brackets (s : list N) : list N :=
  match s with
  | c :: t =>
    if Nat.ltb (length s) 2 then s
    else if (c =? ch_lbr) && (last t 0 =? ch_rbr) then removelast t
    else s
  | [] => s
  end.

Definition is_unix_addr (s : list N) : bool :=
  match s with c :: _ => c =? ch_at | [] => false end.

Definition get_dial_addr (url_addr dial_addr default_port : list N) : list N :=
  match dial_addr with
  | _ :: _ =>
    if is_unix_addr dial_addr then dial_addr
    else let '(h, p) := try_split_host_port dial_addr in
         match p with [] => join_host_port (try_trim_brackets h) default_port | _ :: _ => dial_addr end
  | [] =>
    let '(h, p) := try_split_host_port url_addr in
    match p with [] => join_host_port h default_port | _ :: _ => url_addr end
  end.

Inductive netw := NUdp | NTcp | NUnix.

(* dialNetworkTcpOrUnix *)
Definition network_of (dial_addr : list N) : netw := if is_unix_addr dial_addr then NUnix else NTcp.

(* ---- schemes ---- *)
Inductive scheme := SUdp | STcp | STls | SHttps | SHttp | SQuic.

Definition s_udp   : list N := [117;100;112].
Definition s_tcp   : list N := [116;99;112].
Definition s_tls   : list N := [116;108;115].
Definition s_https : list N := [104;116;116;112;115].
Definition s_http  : list N := [104;116;116;112].
Definition s_h3    : list N := [104;51].
Definition s_quic  : list N := [113;117;105;99].
Definition s_doq   : list N := [100;111;113].
Definition s_pipeline : list N := [43;112;105;112;101;108;105;110;101].  (* "+pipeline" *)

(* (scheme text, (transport, EnablePipeline, EnableHTTP3)) — exactly what NewUpstream accepts *)
Definition scheme_table : list (list N * (scheme * bool * bool)) :=
  [ (s_udp, (SUdp, false, false));
    (s_tcp, (STcp, false, false));
    (s_tls, (STls, false, false));
    (s_https, (SHttps, false, false));
    (s_http, (SHttp, false, false));
    (s_h3, (SHttps, false, true));
    (s_quic, (SQuic, false, false));
    (s_doq, (SQuic, false, false));
    (s_tcp ++ s_pipeline, (STcp, true, false));
    (s_tls ++ s_pipeline, (STls, true, false)) ].

Fixpoint assoc_str {A} (k : list N) (t : list (list N * A)) : option A :=
  match t with
  | [] => None
  | (k', v) :: t' => if addr_list_eqb k k' then Some v else assoc_str k t'
  end.

Definition to_lower (c : N) : N := if is_upper c then c + 32 else c.

(* url.Parse lower-cases the scheme *)
Definition parse_scheme (st : list N) : option (scheme * bool * bool) :=
  assoc_str (map to_lower st) scheme_table.

Definition p53  : list N := [53;51].
Definition p853 : list N := [56;53;51].
Definition p443 : list N := [52;52;51].
Definition p80  : list N := [56;48].

Definition default_port (s : scheme) : list N :=
  match s with
  | SUdp | STcp => p53
  | STls | SQuic => p853
  | SHttps => p443
  | SHttp => p80
  end.

Definition uses_tls (s : scheme) : bool :=
  match s with STls | SHttps | SQuic => true | _ => false end.
Definition uses_http (s : scheme) : bool :=
  match s with SHttps | SHttp => true | _ => false end.
(* stream based: the dial network is dialNetworkTcpOrUnix(dialAddr); udp and quic/h3 sockets are udp *)
Definition is_stream (s : scheme) (h3 : bool) : bool :=
  match s with
  | STcp | STls | SHttp => true
  | SHttps => negb h3
  | SUdp | SQuic => false
  end.

(* ---- the part of url.Parse that matters here ---- *)
Definition sep : list N := [58;47;47].  (* "://" *)

(* strings.Cut(s, "://") *)
Fixpoint cut_sep (s : list N) : option (list N * list N) :=
  match s with
  | [] => None
  | c :: t =>
    if starts_with sep s then Some ([], skipn 3 s)
    else match cut_sep t with
         | Some (a, b) => Some (c :: a, b)
         | None => None
         end
  end.

Definition is_delim (c : N) : bool := (c =? ch_slash) || (c =? ch_qmark) || (c =? ch_hash).

(* authority = text up to the first '/', '?' or '#' *)
Fixpoint url_host (s : list N) : list N :=
  match s with
  | [] => []
  | c :: t => if is_delim c then [] else c :: url_host t
  end.

(* validOptionalPort *)
Definition valid_opt_port (p : list N) : bool :=
  match p with
  | [] => true
  | c :: d => (c =? ch_colon) && forallb is_digit d
  end.

(* parseHost: the port checks (everything else that url.Parse rejects is outside the address grammar) *)
Definition url_host_ok (h : list N) : bool :=
  match h with
  | [] => true
  | c :: _ =>
    if c =? ch_lbr then
      match rsplit ch_rbr h with
      | None => false
      | Some (_, after) => valid_opt_port after
      end
    else
      match rsplit ch_colon h with
      | None => true
      | Some (_, p) => forallb is_digit p
      end
  end.

Definition scheme_chars_ok (st : list N) : bool :=
  match st with
  | [] => false
  | c :: t => (is_lower c || is_upper c) &&
              forallb (fun x => is_lower x || is_upper x || is_digit x || (x =? 43) || (x =? ch_dash) || (x =? ch_dot)) t
  end.

Record endpoint := {
  ep_scheme : scheme;
  ep_pipeline : bool;
  ep_h3 : bool;
  ep_net : netw;                    (* network given to the dialer *)
  ep_dial : list N;                 (* address given to the dialer *)
  ep_sni : option (list N);         (* TLS server name (tls, https, h3, quic) *)
  ep_host : option (list N);        (* HTTP Host / :authority (http, https, h3) *)
  ep_fallback : option (netw * list N)
    (* the second kind of socket the upstream may open: a udp upstream retries a truncated (TC=1) reply over a
       TCP connection (udpWithFallback.t); every other transport only ever re-dials its primary socket *)
}.

(* what NewUpstream computes once the scheme and the URL host are known *)
Definition endpoint_core (sc : scheme) (pl h3 : bool) (host dial_addr : list N) : endpoint :=
  let uh := try_trim_brackets host in
  let da := get_dial_addr uh dial_addr (default_port sc) in
  {| ep_scheme := sc; ep_pipeline := pl; ep_h3 := h3;
     ep_net := if is_stream sc h3 then network_of da else NUdp;
     ep_dial := da;
     ep_sni := if uses_tls sc then Some (try_remove_port uh) else None;
     ep_host := if uses_http sc then Some host else None;
     (* upstream.go case "", "udp": dialTcp = dialer.DialContext(ctx, "tcp", dialAddr) — the SAME dialAddr *)
     ep_fallback := match sc with SUdp => Some (NTcp, da) | _ => None end |}.

(* every (network, address) an upstream may ever hand to a dialer: the primary socket (re-dialled for every new
   connection of a pipeline / reuse / http / quic transport) and the fallback socket *)
Definition ep_sockets (ep : endpoint) : list (netw * list N) :=
  (ep_net ep, ep_dial ep) :: match ep_fallback ep with Some s => [s] | None => [] end.

(* NewUpstream(addr, Opt{DialAddr: dial_addr}) *)
Definition endpoint_of (addr dial_addr : list N) : res endpoint :=
  let '(st, rest) := match cut_sep addr with
                     | Some (a, r) => (a, r)
                     | None => (s_udp, addr)          (* "udp://" + addr *)
                     end in
  if negb (scheme_chars_ok st) then Err EOther else
  match parse_scheme st with
  | None => Err EOther                                (* unsupported protocol *)
  | Some (sc, pl, h3) =>
    let host := url_host rest in
    if url_host_ok host then Ok (endpoint_core sc pl h3 host dial_addr)
    else Err EOther                                   (* url.Parse: invalid port *)
  end.

(* ---- the address grammar of the property (boolean well-formedness) ---- *)
Inductive hostform :=
| HV4 (s : list N)      (* IPv4 literal: digits and dots *)
| HDom (s : list N)     (* domain name: letters, digits, '-', '_', '.' *)
| HV6 (s : list N).     (* IPv6 literal of any textual shape (bracketed in URLs): hex digits, ':' and '.', >= 2 colons *)

Definition is_dom_char (c : N) : bool :=
  is_lower c || is_upper c || is_digit c || (c =? ch_dash) || (c =? ch_under) || (c =? ch_dot).
Definition is_v4_char (c : N) : bool := is_digit c || (c =? ch_dot).
Definition is_v6_char (c : N) : bool := is_hex c || (c =? ch_colon) || (c =? ch_dot).

Definition nonempty (s : list N) : bool := match s with [] => false | _ => true end.

Definition wf_host (h : hostform) : bool :=
  match h with
  | HV4 s => nonempty s && forallb is_v4_char s
  | HDom s => nonempty s && forallb is_dom_char s
  | HV6 s => forallb is_v6_char s && Nat.leb 2 (count_byte ch_colon s)
  end.

Definition wf_port (p : list N) : bool :=
  nonempty p && Nat.leb (length p) 5 && forallb is_digit p.

Definition wf_port_opt (p : option (list N)) : bool :=
  match p with None => true | Some p => wf_port p end.

(* the name a host form denotes (no brackets) *)
Definition host_name (h : hostform) : list N :=
  match h with HV4 s | HDom s | HV6 s => s end.

(* how it is written in a URL *)
Definition host_text (h : hostform) : list N :=
  match h with
  | HV4 s | HDom s => s
  | HV6 s => ch_lbr :: s ++ [ch_rbr]
  end.

Definition authority (h : hostform) (p : option (list N)) : list N :=
  host_text h ++ match p with Some p => ch_colon :: p | None => [] end.

(* "/path", "?query" or nothing *)
Definition wf_path (path : list N) : bool :=
  match path with [] => true | c :: _ => is_delim c end.

(* [protocol://]host[:port][/path] ; the path is only meaningful with an explicit scheme *)
Definition url_of (st : option (list N)) (h : hostform) (p : option (list N)) (path : list N) : list N :=
  match st with
  | Some st => st ++ sep ++ authority h p ++ path
  | None => authority h p
  end.

Definition port_or_default (sc : scheme) (p : option (list N)) : list N :=
  match p with Some p => p | None => default_port sc end.

(* dial_addr forms: IP or domain, port optional; an IPv6 literal is bare without a port and bracketed with one *)
Definition dial_text (h : hostform) (p : option (list N)) : list N :=
  match p with
  | None => host_name h
  | Some p => host_text h ++ ch_colon :: p
  end.

(* '@name' *)
Definition wf_unix (d : list N) : bool := is_unix_addr d.

Definition expected_net (sc : scheme) (h3 : bool) : netw :=
  if is_stream sc h3 then NTcp else NUdp.
