(* Net/UpHistory.v — what an upstream keeps BETWEEN connections, and what it may not keep.

   (1) TLS session state.  The client tls.Config that initUpstream builds has no ClientSessionCache: every
       connection of every upstream performs a full handshake, verified against the entry's own trust.  The model is
       parameterised by a resumption policy so that the designs can be compared:
         SessNone         no resumption (the code)
         SessPerUpstream  one session cache per upstream (per tls.Config)
         SessShared       ONE cache for all upstreams of the process — crypto/tls keys a session by the server name
                          only and on resumption re-checks expiry and name, NOT the chain against the current
                          RootCAs.  The excluded design.
   (2) Name resolution.  The dial target of an upstream is the TEXT host:port (ep_dial, Net/Addr.v); when the host is
       a name, net.Dialer / net.ResolveUDPAddr resolve it for EVERY new connection.  Resolution is an environment
       function of the connection number; the excluded design resolves once, at construction.
   Executable definitions only; proofs in Net/UpHistoryProofs.v. *)
From Mos Require Import Base.Prelude Net.Addr Net.TlsCfg Net.UpCfg Net.UpRouter.

Local Open Scope N_scope.

(* ------------------------------------------------------------------ (1) histories of exchanges *)
Inductive upr_sess_policy := SessNone | SessPerUpstream | SessShared.

(* key under which a completed handshake leaves a resumable session: crypto/tls keys by server name; a cache that
   belongs to ONE upstream is modelled by adding the upstream's index to the key *)
Definition upr_sess_key := (option nat * list N)%type.

Definition upr_sess_key_eqb (a b : upr_sess_key) : bool :=
  match fst a, fst b with
  | None, None => true
  | Some i, Some j => Nat.eqb i j
  | _, _ => false
  end && addr_list_eqb (snd a) (snd b).

Definition upr_sess_has (k : upr_sess_key) (cache : list upr_sess_key) : bool := existsb (upr_sess_key_eqb k) cache.

Definition upr_sess_key_of (p : upr_sess_policy) (i : nat) (sni : list N) : option upr_sess_key :=
  match p with
  | SessNone => None
  | SessPerUpstream => Some (Some i, sni)
  | SessShared => Some (None, sni)
  end.

Section UprHistory.
  Variable cert : Type.
  Variable chains_to : ca_pool -> cert -> bool.
  Variable name_matches : cert -> list N -> bool.
  Variable time_valid : cert -> bool.

  (* what crypto/tls re-checks when it resumes a session: not the chain *)
  Definition upr_resume_ok (t : tls_config) (sni : list N) (peer : option cert) : bool :=
    match peer with
    | None => false
    | Some k => c_insecure t || (time_valid k && name_matches k sni)
    end.

  (* one NEW connection of upstream [u] (the i-th of the process) to a server presenting [peer] *)
  Definition upr_connect (p : upr_sess_policy) (cache : list upr_sess_key) (i : nat) (u : upc_upstream)
      (peer : option cert) : bool * list upr_sess_key :=
    match uu_tls u, ep_sni (uu_ep u) with
    | Some t, Some sni =>
      let full := client_accepts cert chains_to name_matches time_valid t sni peer in
      match upr_sess_key_of p i sni with
      | None => (full, cache)
      | Some k =>
        if upr_sess_has k cache && upr_resume_ok t sni peer then (true, cache)
        else (full, if full then k :: cache else cache)
      end
    | Some _, None => (false, cache)
    | None, _ => (true, cache)
    end.

  (* a history: the upstreams [us] of the process exchange in the order [steps], each step on a new connection,
     all with the same server *)
  Fixpoint upr_history (p : upr_sess_policy) (us : list (list N * upc_upstream)) (cache : list upr_sess_key)
      (steps : list nat) (peer : option cert) : list bool :=
    match steps with
    | [] => []
    | i :: rest =>
      match nth_error us i with
      | Some (_, u) =>
        let '(ok, cache') := upr_connect p cache i u peer in
        ok :: upr_history p us cache' rest peer
      | None => false :: upr_history p us cache rest peer
      end
    end.
End UprHistory.

(* the instance the uphistory kind runs: None = a router does not start.  [groups]: the entries of each router of the
   process, in order; the upstreams of the process are numbered through *)
Fixpoint upr_init_groups (groups : list (list upc_config)) : option (list (list N * upc_upstream)) :=
  match groups with
  | [] => Some []
  | g :: rest =>
    match upr_init_router g, upr_init_groups rest with
    | Ok us, Some more => Some (us ++ more)
    | _, _ => None
    end
  end.

Definition upr_history_case (p : upr_sess_policy) (groups : list (list upc_config)) (steps : list nat)
    (peer : option cert_kind) : option (list bool) :=
  match upr_init_groups groups with
  | Some us => Some (upr_history cert_kind ck_chains ck_name ck_time p us [] steps peer)
  | None => None
  end.

(* ------------------------------------------------------------------ (2) resolution per connection *)
(* the environment: at connection number [k], the addresses (texts) a host text denotes; an IP literal denotes
   itself *)
Definition rs_env := nat -> list N -> list (list N).

(* where the k-th connection of an upstream goes: the dial target's host resolved NOW, its port kept *)
Definition rs_conn_targets (env : rs_env) (ep : endpoint) (k : nat) : list (list N) :=
  match split_host_port (ep_dial ep) with
  | Some (h, p) => map (fun a => join_host_port a p) (env k h)
  | None => []
  end.

(* the excluded design: resolved once, when the upstream is constructed (connection number 0) *)
Definition rs_once_targets (env : rs_env) (ep : endpoint) (k : nat) : list (list N) := rs_conn_targets env ep 0.

(* construction does not resolve: NewUpstream succeeds whatever the environment says *)
Definition rs_new_upstream (env : rs_env) (addr da : list N) : res endpoint := endpoint_of addr da.
Definition rs_once_new_upstream (env : rs_env) (addr da : list N) : res endpoint :=
  match endpoint_of addr da with
  | Ok ep => match rs_conn_targets env ep 0 with [] => Err EOther | _ :: _ => Ok ep end
  | e => e
  end.

(* the instance the resolve kind runs: table per connection number for ONE name; other hosts denote themselves *)
Definition rs_table_env (name : list N) (table : nat -> list (list N)) : rs_env :=
  fun k h => if addr_list_eqb h name then table k else [h].

Definition rs_case (addr da name : list N) (table : nat -> list (list N)) (k : nat) : option (list (list N)) :=
  match rs_new_upstream (rs_table_env name table) addr da with
  | Ok ep => Some (rs_conn_targets (rs_table_env name table) ep k)
  | _ => None
  end.
