(* Net/Cmsg.v — internal/udpcmsg/cmsg_linux.go (linux/amd64 layout): the socket control messages of a multi_routes UDP
   listener.  ParseLocalAddr reads the address a query was sent TO from the ancillary data of recvmsg (IP_PKTINFO /
   IPV6_PKTINFO); CmsgSize / CmsgPktInfo build the ancillary data of sendmsg that makes the response LEAVE from that
   address.  Model only (executable Gallina); proofs are in CmsgProofs.v.

   Layout (little endian, 64-bit): Cmsghdr = Len uint64 | Level int32 | Type int32 (16 octets); data follows; messages are
   padded to a multiple of 8.  Inet4Pktinfo = Ifindex int32 | Spec_dst [4] | Addr [4] (12); Inet6Pktinfo = Addr [16] |
   Ifindex uint32 (20).  IPPROTO_IP = 0, IP_PKTINFO = 8, IPPROTO_IPV6 = 41, IPV6_PKTINFO = 50. *)
From Mos Require Import Base.Prelude.

Fixpoint cm_le (l : list N) : N := match l with [] => 0%N | b :: t => (b + 256 * cm_le t)%N end.
Fixpoint cm_le_bytes (n : nat) (v : N) : list N :=
  match n with O => [] | S k => (v mod 256)%N :: cm_le_bytes k (v / 256)%N end.
Definition cm_align (n : nat) : nat := ((n + 7) / 8) * 8.

Inductive cm_addr := CmNone | Cm4 (a : list N) | Cm6 (a : list N).
(* CmUnsafe: socketControlMessageHeaderAndData casts &b[0] to *Cmsghdr with fewer than 16 octets left: a read past the
   slice (ParseLocalAddr tests len(oob), not len(remain)).  CmFuel: the loop bound of the model ran out. *)
Inductive cm_res := CmOk (a : cm_addr) | CmErr | CmUnsafe | CmFuel.

Definition cm_hlen (remain : list N) : N := cm_le (firstn 8 remain).
Definition cm_level (remain : list N) : N := cm_le (firstn 4 (skipn 8 remain)).
Definition cm_type (remain : list N) : N := cm_le (firstn 4 (skipn 12 remain)).
Definition cm_rest (hl : nat) (remain : list N) : list N :=
  if cm_align hl <? length remain then skipn (cm_align hl) remain else [].

Fixpoint cm_parse_loop (fuel : nat) (ooblen : nat) (remain : list N) : cm_res :=
  match fuel with
  | O => CmFuel
  | S f =>
    match remain with
    | [] => CmOk CmNone
    | _ :: _ =>
      if ooblen <? 16 then CmErr else
      if length remain <? 16 then CmUnsafe else
      let hlen := cm_hlen remain in
      if ((hlen <? 16) || (N.of_nat (length remain) <? hlen))%N then CmErr else
      let hl := N.to_nat hlen in
      let data := firstn (hl - 16) (skipn 16 remain) in
      if ((cm_level remain =? 0) && (cm_type remain =? 8))%N then
        if length data <? 12 then CmErr else CmOk (Cm4 (firstn 4 (skipn 8 data)))
      else if ((cm_level remain =? 41) && (cm_type remain =? 50))%N then
        if length data <? 20 then CmErr else CmOk (Cm6 (firstn 16 data))
      else cm_parse_loop f ooblen (cm_rest hl remain)
    end
  end.

(* ParseLocalAddr *)
Definition cm_parse (oob : list N) : cm_res := cm_parse_loop (S (length oob)) (length oob) oob.

(* netip.Addr.Unmap: ::ffff:a.b.c.d -> a.b.c.d *)
Definition cm_is_mapped (a : list N) : bool :=
  (length a =? 16) && forallb (N.eqb 0) (firstn 10 a) && forallb (N.eqb 255) (firstn 2 (skipn 10 a)).
Definition cm_unmap (a : cm_addr) : cm_addr :=
  match a with Cm6 x => if cm_is_mapped x then Cm4 (skipn 12 x) else a | _ => a end.

(* CmsgSize *)
Definition cm_size (a : cm_addr) : nat :=
  match cm_unmap a with CmNone => 0 | Cm4 _ => 16 + cm_align 12 | Cm6 _ => 16 + cm_align 20 end.

(* the buffer the message is written into: b[:s] when b is long enough (its old content stays where nothing is written:
   the padding), else a fresh zeroed one *)
Definition cm_base (b : list N) (s : nat) : list N := if length b <? s then repeat 0%N s else firstn s b.

Definition cm_pack4 (b a : list N) : list N :=
  cm_le_bytes 8 28 ++ cm_le_bytes 4 0 ++ cm_le_bytes 4 8 ++ cm_le_bytes 4 0 ++ a ++ repeat 0%N 4 ++ skipn 28 (cm_base b 32).
Definition cm_pack6 (b a : list N) : list N :=
  cm_le_bytes 8 36 ++ cm_le_bytes 4 41 ++ cm_le_bytes 4 50 ++ a ++ cm_le_bytes 4 0 ++ skipn 36 (cm_base b 40).

(* CmsgPktInfo; None = nil *)
Definition cm_pktinfo (b : list N) (a : cm_addr) : option (list N) :=
  match cm_unmap a with CmNone => None | Cm4 x => Some (cm_pack4 b x) | Cm6 x => Some (cm_pack6 b x) end.

(* ---- specification side -------------------------------------------------------------------------------------- *)

(* one control message as the kernel writes it (put_cmsg): header, data, zero padding to the alignment *)
Record cm_msg := { cm_mlevel : N; cm_mtype : N; cm_mdata : list N }.
Definition cm_enc1 (m : cm_msg) : list N :=
  cm_le_bytes 8 (N.of_nat (16 + length (cm_mdata m))) ++ cm_le_bytes 4 (cm_mlevel m) ++ cm_le_bytes 4 (cm_mtype m)
  ++ cm_mdata m ++ repeat 0%N (cm_align (length (cm_mdata m)) - length (cm_mdata m)).
Definition cm_enc (ms : list cm_msg) : list N := flat_map cm_enc1 ms.

(* what ParseLocalAddr must return for a kernel-built list of messages: the destination address of the first PKTINFO *)
Fixpoint cm_first_pktinfo (ms : list cm_msg) : cm_res :=
  match ms with
  | [] => CmOk CmNone
  | m :: t =>
    if ((cm_mlevel m =? 0) && (cm_mtype m =? 8))%N then
      if length (cm_mdata m) <? 12 then CmErr else CmOk (Cm4 (firstn 4 (skipn 8 (cm_mdata m))))
    else if ((cm_mlevel m =? 41) && (cm_mtype m =? 50))%N then
      if length (cm_mdata m) <? 20 then CmErr else CmOk (Cm6 (firstn 16 (cm_mdata m)))
    else cm_first_pktinfo t
  end.

(* what the kernel takes from the ancillary data of sendmsg (ip_cmsg_send / ip6_datagram_send_ctl), for a buffer holding
   exactly one message: (source address, interface index).  IP_PKTINFO: the source is ipi_spec_dst. *)
Definition cm_kernel_src (c : list N) : option (cm_addr * N) :=
  if length c <? 16 then None else
  let hlen := cm_hlen c in
  if ((hlen <? 16) || (N.of_nat (length c) <? hlen))%N then None else
  if negb (cm_align (N.to_nat hlen) =? length c) then None else
  let data := firstn (N.to_nat hlen - 16) (skipn 16 c) in
  if ((cm_level c =? 0) && (cm_type c =? 8))%N then
    if length data =? 12 then Some (Cm4 (firstn 4 (skipn 4 data)), cm_le (firstn 4 data)) else None
  else if ((cm_level c =? 41) && (cm_type c =? 50))%N then
    if length data =? 20 then Some (Cm6 (firstn 16 data), cm_le (skipn 16 data)) else None
  else None.

(* the reply path of the UDP server (server_udp.go handleMsg -> writeResp): the address parsed from the query's
   ancillary data is packed into the response's *)
Definition cm_reply_oob (b oob : list N) : option (list N) :=
  match cm_parse oob with CmOk a => cm_pktinfo b a | _ => None end.
