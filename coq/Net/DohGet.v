(* Net/DohGet.v : the `dns` parameter of a DoH GET request -> the octets handed to the DNS decoder.
   server_http_gohttp.go readReqMsg (GET): the RAW value of the first `dns=` pair of the query string (no percent
     decoding), base64.RawURLEncoding.Decode, the message = the decoded octets;
   server_http_fasthttp.go readReqMsg (GET): QueryArgs().Peek("dns") = the PERCENT-DECODED value ('+' = space),
     then the same decoding; the message = the first n octets of the pooled buffer, n = what Decode returned
     (before the fix of D24: the whole buffer of DecodedLen(len(text)) octets).
   Go's base64 decoder (non-strict): CR and LF are skipped wherever they stand; the alphabet is A-Z a-z 0-9 - _ ;
   RawURLEncoding has no padding ('=' is an illegal character); a final group of 2 / 3 characters gives 1 / 2 octets
   (left-over bits are ignored), a final group of 1 character is an error.
   Octets and characters are N; every function is total. *)
From Mos Require Import Base.Prelude.

(* ---------- sextets <-> characters ---------- *)
Definition b64_char (s : N) : N :=
  if (s <? 26)%N then (65 + s)%N            (* A-Z *)
  else if (s <? 52)%N then (97 + (s - 26))%N (* a-z *)
  else if (s <? 62)%N then (48 + (s - 52))%N (* 0-9 *)
  else if (s =? 62)%N then 45%N              (* - *)
  else 95%N.                                 (* _ *)

Definition b64_sextet (c : N) : option N :=
  if ((65 <=? c) && (c <=? 90))%N then Some (c - 65)%N
  else if ((97 <=? c) && (c <=? 122))%N then Some (c - 97 + 26)%N
  else if ((48 <=? c) && (c <=? 57))%N then Some (c - 48 + 52)%N
  else if (c =? 45)%N then Some 62%N
  else if (c =? 95)%N then Some 63%N
  else None.

Definition is_break (c : N) : bool := ((c =? 10) || (c =? 13))%N.

Fixpoint sextets_of (text : list N) : option (list N) :=
  match text with
  | [] => Some []
  | c :: rest =>
    match b64_sextet c, sextets_of rest with
    | Some s, Some l => Some (s :: l)
    | _, _ => None
    end
  end.

(* ---------- groups ---------- *)
Fixpoint b64_enc (m : list N) : list N :=
  match m with
  | a :: b :: c :: rest =>
    let n := (a * 65536 + b * 256 + c)%N in
    (n / 262144)%N :: ((n / 4096) mod 64)%N :: ((n / 64) mod 64)%N :: (n mod 64)%N :: b64_enc rest
  | [a; b] =>
    let n := (a * 65536 + b * 256)%N in
    [(n / 262144)%N; ((n / 4096) mod 64)%N; ((n / 64) mod 64)%N]
  | [a] =>
    let n := (a * 65536)%N in
    [(n / 262144)%N; ((n / 4096) mod 64)%N]
  | [] => []
  end.

Fixpoint b64_dec (s : list N) : option (list N) :=
  match s with
  | s0 :: s1 :: s2 :: s3 :: rest =>
    let n := (((s0 * 64 + s1) * 64 + s2) * 64 + s3)%N in
    match b64_dec rest with
    | Some t => Some ((n / 65536)%N :: ((n / 256) mod 256)%N :: (n mod 256)%N :: t)
    | None => None
    end
  | [s0; s1; s2] =>
    let n := (((s0 * 64 + s1) * 64 + s2) * 64)%N in
    Some [(n / 65536)%N; ((n / 256) mod 256)%N]
  | [s0; s1] =>
    let n := ((s0 * 64 + s1) * 4096)%N in
    Some [(n / 65536)%N]
  | [_] => None
  | [] => Some []
  end.

Definition b64_text (m : list N) : list N := map b64_char (b64_enc m).

(* base64.RawURLEncoding.Decode: the octets, or an error *)
Definition b64_decode (text : list N) : option (list N) :=
  match sextets_of (filter (fun c => negb (is_break c)) text) with
  | Some s => b64_dec s
  | None => None
  end.

(* DecodedLen of RawURLEncoding: what the handlers allocate (and compare with 65535) *)
Definition b64_decoded_len (n : nat) : nat := n * 6 / 8.

(* ---------- percent decoding of a query-string value (fasthttp: decodeArgAppend) ---------- *)
Definition hex_val (c : N) : option N :=
  if ((48 <=? c) && (c <=? 57))%N then Some (c - 48)%N
  else if ((97 <=? c) && (c <=? 102))%N then Some (c - 97 + 10)%N
  else if ((65 <=? c) && (c <=? 70))%N then Some (c - 65 + 10)%N
  else None.

Fixpoint pct_decode_fuel (fuel : nat) (s : list N) : list N :=
  match fuel with
  | O => s
  | S fuel' =>
    match s with
    | [] => []
    | c :: rest =>
      if (c =? 37)%N then                                        (* '%' *)
        match rest with
        | h :: l :: rest' =>
          match hex_val h, hex_val l with
          | Some a, Some b => (a * 16 + b)%N :: pct_decode_fuel fuel' rest'
          | _, _ => 37%N :: pct_decode_fuel fuel' rest
          end
        | _ => 37%N :: rest                       (* fewer than two characters behind '%': the rest is copied as it is *)
        end
      else if (c =? 43)%N then 32%N :: pct_decode_fuel fuel' rest    (* '+' *)
      else c :: pct_decode_fuel fuel' rest
    end
  end.
Definition pct_decode (s : list N) : list N := pct_decode_fuel (length s) s.

(* ---------- the message of a DoH GET request ---------- *)
Inductive doh_srv := DohNetHttp | DohFastHttp.

Definition doh_value (k : doh_srv) (raw : list N) : list N :=
  match k with DohNetHttp => raw | DohFastHttp => pct_decode raw end.

Inductive doh_get_res := DohReject | DohMsg (m : list N).     (* DohReject: 400 Bad Request *)

(* from the VALUE of the dns parameter (as the handler sees it) to the message *)
Definition doh_get_value (v : list N) : doh_get_res :=
  match v with
  | [] => DohReject                                             (* missing / empty dns parameter *)
  | _ =>
    if (65535 <? N.of_nat (b64_decoded_len (length v)))%N then DohReject
    else match b64_decode v with
         | Some m => DohMsg m
         | None => DohReject
         end
  end.

Definition doh_get (k : doh_srv) (raw : list N) : doh_get_res := doh_get_value (doh_value k raw).

(* ---------- the query string ----------
   net/http listener: getDnsKey scans the RAW query string: pairs separated by '&', empty pairs skipped, the pair is cut
   at its first '='; the first pair whose key is "dns" gives the (raw) value; no such pair: the empty value.
   fasthttp listener: QueryArgs().Peek("dns"): the same scan, but key AND value are percent-decoded, pairs whose decoded
   key and value are both empty are dropped, and the first pair whose DECODED key is "dns" gives the decoded value. *)
Fixpoint split_on (sep : N) (s cur : list N) : list (list N) :=
  match s with
  | [] => [rev cur]
  | c :: r => if (c =? sep)%N then rev cur :: split_on sep r [] else split_on sep r (c :: cur)
  end.

Fixpoint cut_first (sep : N) (s : list N) : list N * list N :=       (* strings.Cut: before, after ([] when absent) *)
  match s with
  | [] => ([], [])
  | c :: r => if (c =? sep)%N then ([], r) else let '(a, b) := cut_first sep r in (c :: a, b)
  end.

Definition dns_key : list N := [100; 110; 115]%N.                   (* "dns" *)
Definition list_N_eqb (a b : list N) : bool := if list_eq_dec N.eq_dec a b then true else false.

Fixpoint value_of_pairs (k : doh_srv) (pairs : list (list N)) : list N :=
  match pairs with
  | [] => []
  | p :: rest =>
    let '(key, value) := cut_first 61 p in
    match k with
    | DohNetHttp =>
      if match p with [] => true | _ => false end then value_of_pairs k rest
      else if list_N_eqb key dns_key then value else value_of_pairs k rest
    | DohFastHttp =>
      let key' := pct_decode key in
      let value' := pct_decode value in
      if match key', value' with [], [] => true | _, _ => false end then value_of_pairs k rest
      else if list_N_eqb key' dns_key then value' else value_of_pairs k rest
    end
  end.

Definition doh_query_value (k : doh_srv) (query : list N) : list N := value_of_pairs k (split_on 38 query []).

(* the message of a GET request with this query string *)
Definition doh_get_query (k : doh_srv) (query : list N) : doh_get_res := doh_get_value (doh_query_value k query).

(* the fasthttp handler before the fix of D24: the whole pooled buffer is the message; [stale] = what the buffer held *)
Definition doh_get_pinned (stale : list N) (raw : list N) : doh_get_res :=
  let v := pct_decode raw in
  match v with
  | [] => DohReject
  | _ =>
    if (65535 <? N.of_nat (b64_decoded_len (length v)))%N then DohReject
    else match b64_decode v with
         | Some m => DohMsg (m ++ firstn (b64_decoded_len (length v) - length m) stale)
         | None => DohReject
         end
  end.
