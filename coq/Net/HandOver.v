(* Net/HandOver.v — the hand-over of a reply from the pipelined read loop to the waiting exchange (C14, round 3).

   pipeline_conn.go readLoop:      resChan := c.getQueueC(r.Header.ID)
                                   if resChan != nil { select { case resChan <- r: default: ReleaseMsg(r) } }
   The LTS of the connection is Net/Pipeline.v (label PlLSend = this select: it puts the message into the one-slot
   channel when it is empty and DROPS it when it is full; either way the read loop is back at its read).
   This file only adds the variant used by the refuted statement: the hand-over as a plain, BLOCKING `resChan <- r`.
   No proofs in this file. *)
From Mos Require Import Base.Prelude Net.Pipeline.
Local Open Scope N_scope.

Definition ho_block_step (s : pl_state) (l : pl_label) : option pl_state :=
  match l with
  | PlLSend =>
      match pl_rl s with
      | PlRSend m t =>
          match pl_tget s t with
          | Some th => match pl_tchan th with
                       | None => pl_step s l
                       | Some _ => None          (* buffer full: the read loop waits for a receiver *)
                       end
          | None => None
          end
      | _ => None
      end
  | _ => pl_step s l
  end.

Fixpoint ho_block_run (ls : list pl_label) (s : pl_state) : option pl_state :=
  match ls with
  | [] => Some s
  | l :: r => match ho_block_step s l with Some s' => ho_block_run r s' | None => None end
  end.

(* the read loop's own next action *)
Definition ho_reader_next (s : pl_state) : option pl_label :=
  match pl_rl s with PlRIdle => None | PlRHold _ => Some PlLLookup | PlRSend _ _ => Some PlLSend end.

(* the exchange whose one-slot channel the read loop is about to fill has already chosen its outcome: it will never
   receive from the channel again *)
Definition ho_past_wait (p : pl_pc) : bool :=
  match p with PlPLeaving _ | PlPEol _ | PlPReturned _ => true | _ => false end.

Definition ho_wedged (s : pl_state) : bool :=
  match pl_rl s with
  | PlRSend _ t => match pl_tget s t with
                   | Some th => match pl_tchan th with Some _ => ho_past_wait (pl_tpc th) | None => false end
                   | None => false
                   end
  | _ => false
  end.

(* one exchange (caller id 7, wire id 0); the server sends its reply k times back to back; the exchange takes the
   first copy when it arrives, the other copies are processed by the read loop before the exchange goroutine gets to
   its deferred deleteQueueC *)
Definition ho_copy (i : nat) : list pl_label := [PlLRecv 0 (N.of_nat (S i)); PlLLookup; PlLSend].
Definition ho_copies (k : nat) : list pl_label :=
  [PlLSpawn 7; PlLAdd 0; PlLWrite 0 true] ++ ho_copy 0 ++ [PlLTakeReply 0] ++ flat_map ho_copy (seq 1 (k - 1)).

(* afterwards: the first exchange returns; a second exchange (caller id 9) is put on the connection, the server
   answers it *)
Definition ho_follow_up : list pl_label :=
  [PlLDelete 0; PlLSpawn 9; PlLAdd 1; PlLWrite 1 true; PlLRecv 1 50; PlLLookup; PlLSend; PlLTakeReply 1].
