(* Net/WriteBlock.v — what bounds a Write that blocks on a pipelined stream connection (C14, round 4).

   pipeline_conn.go write (TCP branch): c.c.Write(b) - synchronous, no write deadline, outside any select: the
   caller's context cannot end it.  In the exchange LTS (Net/Exchange.v) a write is ONE step ("the kernel accepts a
   query-sized write promptly"); here that assumption is dropped.  A write either completes at once (buffer space) or
   BLOCKS (the peer has stopped reading and the socket buffers are full), and a blocked write ends only by an
   ENVIRONMENT step:
     - the peer reads again (any time, or never),
     - the kernel gives up: TCP_USER_TIMEOUT, which app/router/upstream.go initUpstream sets to 5 s on every upstream
       socket (Opt.Control) - present only if it was wired in,
     - the socket is closed under the writer: the read loop's idle read deadline (idle time-out after the last frame
       that was READ).
   After a failed write on a REUSED connection PipelineTransport.ExchangeContext retries while the context is live
   (retry < 5), on whatever connection the pool hands out next.

   Time in tenths of a second.  [ut] = the kernel time-out if configured.  No proofs in this file. *)
From Mos Require Import Base.Prelude.

Inductive wb_conn :=
| WbStall (reused : bool)    (* accepted, never read: the write blocks; [reused] = newConn is false for this exchange *)
| WbRefuse.                  (* the dial fails at once *)

(* how long a blocked write lasts when the peer never reads again *)
Definition wb_block (ut : option nat) (idle : nat) : nat :=
  match ut with Some u => Nat.min u idle | None => idle end.

(* return time of an exchange that starts at [t] and meets the connections [cs] in turn *)
Fixpoint wb_return (ut : option nat) (idle dl : nat) (retry t : nat) (cs : list wb_conn) : nat :=
  match cs with
  | [] => t
  | WbRefuse :: _ => t
  | WbStall reused :: r =>
      let t' := t + wb_block ut idle in
      if reused && (retry <? 5) && (t' <? dl) then wb_return ut idle dl (S retry) t' r else t'
  end.

(* constants of the code, tenths of a second: TCP_USER_TIMEOUT, idle time-out, the router's request time-out, slack *)
Definition wb_ut_ds : nat := 50.
Definition wb_idle_ds : nat := 100.
Definition wb_dl_ds : nat := 60.
Definition wb_slack_ds : nat := 15.

(* the harness scenarios (kind "stall"): the server accepts ONE connection and refuses the others / accepts them all *)
Definition wb_case (wired : bool) (all : bool) : bool :=
  let ut := if wired then Some wb_ut_ds else None in
  let cs := if all then [WbStall true; WbStall true; WbStall true] else [WbStall true; WbRefuse] in
  wb_return ut wb_idle_ds wb_dl_ds 0 0 cs <=? wb_dl_ds + wb_slack_ds.
