From Mos Require Import Base.Prelude Net.Addr Net.DohStatus.
Local Open Scope N_scope.

(* exactly ONE request per exchange, to the configured URL; the answer is used iff its status is 200 *)
Lemma doh_one_request w url :
  fst (doh_exchange w url) = [url] /\
  snd (doh_exchange w url) = (if da_status (w url) =? 200 then Ok (da_body (w url)) else Err EOther).
Proof. unfold doh_exchange. split; reflexivity. Qed.

Lemma doh_redirect_fails w url :
  doh_is_redirect (da_status (w url)) = true -> is_ok (snd (doh_exchange w url)) = false.
Proof.
  unfold doh_exchange, doh_is_redirect. cbn [snd]. intros H.
  destruct (da_status (w url) =? 200) eqn:E; [|reflexivity].
  apply N.eqb_eq in E. rewrite E in H. discriminate.
Qed.

(* following redirects: a 302 to a cleartext URL makes a second request THERE and the exchange succeeds *)
Definition doh_w_url : list N := [104;116;116;112;115;58;47;47;97;47;113].          (* "https://a/q" *)
Definition doh_w_loc : list N := [104;116;116;112;58;47;47;98;47;113].              (* "http://b/q" *)
Definition doh_w_world : doh_world := fun u =>
  if addr_list_eqb u doh_w_url then {| da_status := 302; da_location := Some doh_w_loc; da_body := [] |}
  else {| da_status := 200; da_location := None; da_body := [42] |}.

Lemma doh_follow_refuted :
  doh_exchange_follow 10 doh_w_world doh_w_url = ([doh_w_url; doh_w_loc], Ok [42]) /\
  doh_exchange doh_w_world doh_w_url = ([doh_w_url], Err EOther).
Proof. vm_compute. split; reflexivity. Qed.
