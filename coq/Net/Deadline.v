(* Net/Deadline.v — the I/O deadlines of an upstream connection as state (C14, round 3).

   Every place of internal/upstream that touches a deadline of a net.Conn:
     upstream.go  dialTCP / dialTLS        : net.Dialer.DialContext(ctx), tls.Conn.HandshakeContext(ctx) - bounded by
                                             ctx (the transport's dial time-out), NO deadline is set on the socket
     pipeline_conn.go readLoop             : c.c.SetReadDeadline(now + idle) before every read;  write: none
     reuse_transport.go exitIdle           : c.c.SetReadDeadline(zero)
                        exchangeConn       : c.c.SetDeadline(now + 6 s) before the write
   A deadline is ABSOLUTE and stays armed until somebody overwrites or clears it; tls.Conn forwards Set*Deadline to
   the socket.  An expired write deadline fails every Write at once, an expired read deadline every Read.

   [hsarm] = "dialTLS arms SetDeadline(now + handshake time-out) on the socket before the handshake and does not clear
   it".  The code is [hsarm = false]; [true] exists for the refuted variant only.
   Time is a natural number of tenths of a second.  No proofs in this file. *)
From Mos Require Import Base.Prelude.

Record dk_conn := mkDk { dk_now : nat; dk_rd : option nat; dk_wd : option nat }.

Inductive dk_act :=
| DkSetBoth (d : nat)        (* SetDeadline(now + d) *)
| DkSetRead (d : nat)        (* SetReadDeadline(now + d) *)
| DkClearRead                (* SetReadDeadline(time.Time{}) *)
| DkClearBoth                (* SetDeadline(time.Time{}) *)
| DkTick (n : nat).          (* time passes *)

Definition dk_apply (c : dk_conn) (a : dk_act) : dk_conn :=
  match a with
  | DkSetBoth d => mkDk (dk_now c) (Some (dk_now c + d)) (Some (dk_now c + d))
  | DkSetRead d => mkDk (dk_now c) (Some (dk_now c + d)) (dk_wd c)
  | DkClearRead => mkDk (dk_now c) None (dk_wd c)
  | DkClearBoth => mkDk (dk_now c) None None
  | DkTick n => mkDk (dk_now c + n) (dk_rd c) (dk_wd c)
  end.

Definition dk_run (c : dk_conn) (p : list dk_act) : dk_conn := fold_left dk_apply p c.

Definition dk_expired (dl : option nat) (now : nat) : bool :=
  match dl with Some d => d <=? now | None => false end.
Definition dk_can_write (c : dk_conn) : bool := negb (dk_expired (dk_wd c) (dk_now c)).
Definition dk_can_read (c : dk_conn) : bool := negb (dk_expired (dk_rd c) (dk_now c)).

(* the four stream upstream kinds *)
Inductive dk_kind := DkTcp | DkTcpP | DkTls | DkTlsP.
Definition dk_is_tls (k : dk_kind) : bool := match k with DkTls | DkTlsP => true | _ => false end.
Definition dk_is_pipe (k : dk_kind) : bool := match k with DkTcpP | DkTlsP => true | _ => false end.

(* a socket is born at time [now] without deadlines; the deadline actions of the dial function *)
Definition dk_born (now : nat) : dk_conn := mkDk now None None.
Definition dk_dial_prog (hsarm : bool) (hs : nat) (k : dk_kind) : list dk_act :=
  if dk_is_tls k && hsarm then [DkSetBoth hs] else [].
Definition dk_dialled (hsarm : bool) (hs : nat) (k : dk_kind) (now : nat) : dk_conn :=
  dk_run (dk_born now) (dk_dial_prog hsarm hs k).

(* ---- what the users of a pooled connection do to its deadlines ---- *)
(* the pipelined read loop and the exchanges writing on the connection, in any order *)
Inductive dk_pipe_ev :=
| DpRearm (idle : nat)     (* top of the read loop: SetReadDeadline(now + idle) *)
| DpWrite                  (* pipelineConn.write: touches no deadline *)
| DpTick (n : nat).

Definition dk_pipe_apply (c : dk_conn) (e : dk_pipe_ev) : dk_conn :=
  match e with
  | DpRearm idle => dk_apply c (DkSetRead idle)
  | DpWrite => c
  | DpTick n => dk_apply c (DkTick n)
  end.
Definition dk_pipe_run (c : dk_conn) (es : list dk_pipe_ev) : dk_conn := fold_left dk_pipe_apply es c.

(* one exchange of the one-at-a-time transport: exitIdle, then exchangeConn *)
Definition dk_reuse_prepare (io : nat) (c : dk_conn) : dk_conn := dk_run c [DkClearRead; DkSetBoth io].

(* ---- one pooled connection across a sequence of exchanges on a healthy server ----
   [ages]: time between the end of one exchange and the start of the next.  Per exchange: (reply?, was a new connection
   dialled?).  Pipelined: the read loop closes the connection when its read deadline expires (idle time-out) and the
   next exchange dials; a Write that fails leaves a TCP pipelined connection open and pooled (only the read loop closes
   it), so every retry of the exchange meets the same connection and the exchange fails.  One-at-a-time: the idle
   timer closes the connection after [idle]; otherwise the exchange re-arms both deadlines before it writes. *)
Definition dk_after_reply (k : dk_kind) (idle : nat) (c : dk_conn) : dk_conn :=
  if dk_is_pipe k then dk_apply c (DkSetRead idle) else c.

Definition dk_first (hsarm : bool) (hs idle io : nat) (k : dk_kind) (now : nat) : bool * dk_conn :=
  let c0 := dk_dialled hsarm hs k now in
  let c1 := if dk_is_pipe k then dk_apply c0 (DkSetRead idle) else dk_run c0 [DkSetBoth io] in
  (dk_can_write c1 && dk_can_read c1, dk_after_reply k idle c1).

Definition dk_exchange (hsarm : bool) (hs idle io : nat) (k : dk_kind) (age : nat) (c : dk_conn)
  : (bool * bool) * dk_conn :=
  let c1 := dk_apply c (DkTick age) in
  if dk_is_pipe k then
    if dk_can_read c1 then
      if dk_can_write c1 then ((true, false), dk_after_reply k idle c1)
      else ((false, false), c1)                       (* every attempt lands on the same, open connection *)
    else let r := dk_first hsarm hs idle io k (dk_now c1) in ((fst r, true), snd r)
  else
    if idle <=? age then let r := dk_first hsarm hs idle io k (dk_now c1) in ((fst r, true), snd r)
    else let c2 := dk_reuse_prepare io c1 in ((dk_can_write c2 && dk_can_read c2, false), c2).

Fixpoint dk_exchanges (hsarm : bool) (hs idle io : nat) (k : dk_kind) (ages : list nat) (c : dk_conn)
  : list (bool * bool) :=
  match ages with
  | [] => []
  | a :: r => let x := dk_exchange hsarm hs idle io k a c in fst x :: dk_exchanges hsarm hs idle io k r (snd x)
  end.

Definition dk_session (hsarm : bool) (hs idle io : nat) (k : dk_kind) (ages : list nat) : list (bool * bool) :=
  let f := dk_first hsarm hs idle io k 0 in
  (fst f, true) :: dk_exchanges hsarm hs idle io k ages (snd f).

(* the constants of the code in tenths of a second: tlsHandshakeTimeout, defaultIdleTimeout, reuseConnQueryTimeout *)
Definition dk_hs_ds : nat := 30.
Definition dk_idle_ds : nat := 100.
Definition dk_io_ds : nat := 60.

(* the harness scenario with the constants of the code *)
Definition dk_case (k : dk_kind) (ages : list nat) : list (bool * bool) :=
  dk_session false dk_hs_ds dk_idle_ds dk_io_ds k ages.

(* =====================================================================================================================
   Round 9 — the idle time-out an upstream built by NewUpstream runs with, per scheme (tenths of a second).
   upstream.go NewUpstream: udp pins one minute for the shared socket (the option is not consulted); tcp / tls (with or
   without pipelining): the option, 10 s when unset; https (net/http): the option, 30 s when unset.  [opt = 0] = the
   option is unset (what app/router always passes).  0 as a RESULT would mean "no limit". *)
Inductive ut_scheme := UtUdp | UtTcp | UtTcpP | UtTls | UtTlsP | UtHttps.

Definition ut_default (s : ut_scheme) : nat :=
  match s with UtUdp => 600 | UtHttps => 300 | _ => 100 end.

Definition ut_idle (s : ut_scheme) (opt : nat) : nat :=
  match s with
  | UtUdp => ut_default UtUdp
  | _ => match opt with 0 => ut_default s | _ => opt end
  end.
