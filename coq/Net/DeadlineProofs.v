(* Net/DeadlineProofs.v — proofs about Net/Deadline.v (C14, round 3). *)
From Mos Require Import Base.Prelude Net.Deadline.

(* the dial functions of the code leave no deadline on the socket they hand to the pool *)
Theorem dk_dial_leaves_no_deadline hs k now :
  dk_rd (dk_dialled false hs k now) = None /\ dk_wd (dk_dialled false hs k now) = None.
Proof. unfold dk_dialled, dk_dial_prog. rewrite andb_false_r. cbn. split; reflexivity. Qed.

(* nothing a pipelined connection's users do touches the WRITE deadline, and time only moves forward *)
Lemma dk_pipe_apply_wd c e : dk_wd (dk_pipe_apply c e) = dk_wd c.
Proof. destruct e; reflexivity. Qed.

Lemma dk_pipe_apply_now c e : dk_now c <= dk_now (dk_pipe_apply c e).
Proof. destruct e; cbn; lia. Qed.

Theorem dk_pipe_keeps_write_deadline es : forall c,
  dk_wd (dk_pipe_run c es) = dk_wd c /\ dk_now c <= dk_now (dk_pipe_run c es).
Proof.
  unfold dk_pipe_run. induction es as [|e es IH]; intros c; cbn [fold_left]; [split; [reflexivity|lia]|].
  destruct (IH (dk_pipe_apply c e)) as [A B]. rewrite A, dk_pipe_apply_wd. split; [reflexivity|].
  pose proof (dk_pipe_apply_now c e). lia.
Qed.

(* pooled without a write deadline => a query can be written at every age, whatever happened meanwhile *)
Theorem dk_pipe_write_never_times_out c es :
  dk_wd c = None -> dk_can_write (dk_pipe_run c es) = true.
Proof.
  intros H. destruct (dk_pipe_keeps_write_deadline es c) as [A _]. unfold dk_can_write. rewrite A, H. reflexivity.
Qed.

(* pooled WITH a write deadline d: no write succeeds once the clock has reached d, for ever *)
Theorem dk_pipe_leaked_write_deadline_is_permanent c es d :
  dk_wd c = Some d -> d <= dk_now (dk_pipe_run c es) -> dk_can_write (dk_pipe_run c es) = false.
Proof.
  intros H L. destruct (dk_pipe_keeps_write_deadline es c) as [A _]. unfold dk_can_write, dk_expired. rewrite A, H.
  apply Nat.leb_le in L. rewrite L. reflexivity.
Qed.

(* the one-at-a-time transport overwrites whatever it finds before it writes *)
Theorem dk_reuse_overwrites io c :
  0 < io -> dk_can_write (dk_reuse_prepare io c) = true /\ dk_can_read (dk_reuse_prepare io c) = true.
Proof.
  intros H. unfold dk_reuse_prepare, dk_can_write, dk_can_read, dk_expired. cbn.
  assert (E : (dk_now c + io <=? dk_now c) = false) by (apply Nat.leb_gt; lia). rewrite E. split; reflexivity.
Qed.

(* ---- a healthy server, every age below the idle time-out: every exchange gets its reply on the pooled connection ---- *)
Definition dk_good (k : dk_kind) (idle : nat) (c : dk_conn) : Prop :=
  dk_is_pipe k = true -> dk_wd c = None /\ dk_rd c = Some (dk_now c + idle).

Lemma dk_exchange_good hs idle io k a c :
  0 < io -> a < idle -> dk_good k idle c ->
  fst (dk_exchange false hs idle io k a c) = (true, false) /\ dk_good k idle (snd (dk_exchange false hs idle io k a c)).
Proof.
  intros Hio Ha G. unfold dk_exchange. destruct (dk_is_pipe k) eqn:P.
  - destruct (G P) as [W R].
    assert (CR : dk_can_read (dk_apply c (DkTick a)) = true).
    { unfold dk_can_read, dk_expired. cbn. rewrite R. assert (E : (dk_now c + idle <=? dk_now c + a) = false) by (apply Nat.leb_gt; lia).
      rewrite E. reflexivity. }
    assert (CW : dk_can_write (dk_apply c (DkTick a)) = true) by (unfold dk_can_write; cbn; rewrite W; reflexivity).
    rewrite CR, CW. cbn. split; [reflexivity|]. intros _. unfold dk_after_reply. rewrite P. cbn. split; [exact W|reflexivity].
  - assert (E : (idle <=? a) = false) by (apply Nat.leb_gt; lia). rewrite E.
    destruct (dk_reuse_overwrites io (dk_apply c (DkTick a)) Hio) as [A B]. rewrite A, B. cbn. split; [reflexivity|].
    intros Q. congruence.
Qed.

Lemma dk_exchanges_good hs idle io k ages : forall c,
  0 < io -> Forall (fun a => a < idle) ages -> dk_good k idle c ->
  dk_exchanges false hs idle io k ages c = map (fun _ => (true, false)) ages.
Proof.
  induction ages as [|a r IH]; intros c Hio F G; cbn [dk_exchanges map]; [reflexivity|].
  inversion F; subst. destruct (dk_exchange_good hs idle io k a c Hio H1 G) as [A B]. rewrite A. f_equal. apply IH; assumption.
Qed.

Lemma dk_first_good hs idle io k now :
  0 < io -> 0 < idle ->
  fst (dk_first false hs idle io k now) = true /\ dk_good k idle (snd (dk_first false hs idle io k now)).
Proof.
  intros Hio Hid. unfold dk_first, dk_dialled, dk_dial_prog. rewrite andb_false_r. cbn [dk_run fold_left].
  destruct (dk_is_pipe k) eqn:P.
  - unfold dk_can_write, dk_can_read, dk_expired, dk_after_reply. rewrite P. cbn.
    assert (E : (now + idle <=? now) = false) by (apply Nat.leb_gt; lia). rewrite E. cbn. split; [reflexivity|].
    intros _. cbn. split; reflexivity.
  - unfold dk_can_write, dk_can_read, dk_expired, dk_after_reply. rewrite P. cbn.
    assert (E : (now + io <=? now) = false) by (apply Nat.leb_gt; lia). rewrite E. cbn. split; [reflexivity|].
    intros Q. congruence.
Qed.

Theorem dk_healthy_at_every_age hs idle io k ages :
  0 < io -> 0 < idle -> Forall (fun a => a < idle) ages ->
  dk_session false hs idle io k ages = (true, true) :: map (fun _ => (true, false)) ages.
Proof.
  intros Hio Hid F. unfold dk_session. destruct (dk_first_good hs idle io k 0 Hio Hid) as [A G]. rewrite A.
  f_equal. apply dk_exchanges_good; assumption.
Qed.

(* ---- the variant that leaves the handshake deadline armed ---- *)
Theorem dk_leaked_handshake_deadline hs idle io a :
  0 < hs -> 0 < io -> hs <= a -> a < idle ->
  (* tls+pipeline: the exchange fails against the healthy server, on the pooled connection, without a dial *)
  dk_session true hs idle io DkTlsP [a] = [(true, true); (false, false)] /\
  (* plain tls (one at a time): immune, its own SetDeadline overwrites the leak *)
  dk_session true hs idle io DkTls [a] = [(true, true); (true, false)] /\
  (* below the handshake time-out nothing shows *)
  (forall b, b < hs -> b < idle -> dk_session true hs idle io DkTlsP [b] = [(true, true); (true, false)]).
Proof.
  intros Hhs Hio Ha Hi.
  assert (E1 : (hs <=? 0) = false) by (apply Nat.leb_gt; lia).
  assert (E2 : (idle <=? 0) = false) by (apply Nat.leb_gt; lia).
  assert (E3 : (idle <=? a) = false) by (apply Nat.leb_gt; lia).
  assert (E4 : (hs <=? a) = true) by (apply Nat.leb_le; lia).
  assert (E5 : (io <=? 0) = false) by (apply Nat.leb_gt; lia).
  split; [|split].
  - unfold dk_session, dk_first, dk_dialled, dk_exchange, dk_reuse_prepare, dk_can_write, dk_can_read, dk_expired, dk_after_reply. cbn.
    rewrite E1, E2. cbn. unfold dk_exchange, dk_first, dk_dialled, dk_reuse_prepare, dk_can_write, dk_can_read, dk_expired, dk_after_reply. cbn. rewrite E3, E4. reflexivity.
  - unfold dk_session, dk_first, dk_dialled, dk_exchange, dk_reuse_prepare, dk_can_write, dk_can_read, dk_expired, dk_after_reply. cbn.
    rewrite E5. cbn. unfold dk_exchange, dk_first, dk_dialled, dk_reuse_prepare, dk_can_write, dk_can_read, dk_expired, dk_after_reply. cbn. rewrite E3. cbn.
    assert (E6 : (a + io <=? a) = false) by (apply Nat.leb_gt; lia). rewrite E6. reflexivity.
  - intros b Hb Hbi.
    assert (F3 : (idle <=? b) = false) by (apply Nat.leb_gt; lia).
    assert (F4 : (hs <=? b) = false) by (apply Nat.leb_gt; lia).
    unfold dk_session, dk_first, dk_dialled, dk_exchange, dk_reuse_prepare, dk_can_write, dk_can_read, dk_expired, dk_after_reply. cbn.
    rewrite E1, E2. cbn. unfold dk_exchange, dk_first, dk_dialled, dk_reuse_prepare, dk_can_write, dk_can_read, dk_expired, dk_after_reply. cbn. rewrite F3, F4. reflexivity.
Qed.

(* with the constants of the code: a pooled tls+pipeline connection 3.4 s old *)
Theorem dk_leak_witness :
  dk_session true dk_hs_ds dk_idle_ds dk_io_ds DkTlsP [34] = [(true, true); (false, false)] /\
  dk_case DkTlsP [34] = [(true, true); (true, false)].
Proof. vm_compute. split; reflexivity. Qed.

(* ---- round 9: an unset idle time-out option never means "no limit" ---- *)
Theorem ut_idle_defaulted s opt :
  0 < ut_idle s opt /\ ut_idle s 0 = ut_default s /\ (s <> UtUdp -> 0 < opt -> ut_idle s opt = opt).
Proof.
  split; [|split].
  - destruct s, opt; cbn; lia.
  - destruct s; reflexivity.
  - intros H O. destruct s; try congruence; destruct opt; cbn; try lia; reflexivity.
Qed.
