(* Net/Shutdown.v — small-step models of closing an upstream transport while dials, exchanges, releases
   and idle timers are in progress (C18).  One transition = one atomic action of the Go code (one critical
   section of the transport mutex, one net.Conn call, one channel hand-over).  Everything is executable:
   [r_step], [sdp_step] : state -> label -> option state  ([None] = the label is not enabled).

   Part 1  ReuseConnTransport   (internal/upstream/transport/reuse_transport.go)
   Part 2  PipelineTransport    (pipeline_transport.go, pipeline_conn.go, dependency connpool/pool.go)
   Part 3  the Close call graph of every upstream kind (upstream.go, doh_transport.go, quic_transport.go)

   Not modelled here: the panics of reusableConn.enterIdle/exitIdle on a wrong serving state and the
   one-outstanding-query discipline (C06), wire ids (C05), deadlines (C14), buffer ownership (C20). *)
From Mos Require Import Base.Prelude.

(* ---------- list update ---------- *)
Fixpoint upd {A} (l : list A) (i : nat) (x : A) : list A :=
  match l, i with
  | [], _ => []
  | _ :: tl, O => x :: tl
  | y :: tl, S j => y :: upd tl j x
  end.

(* =====================================================================================================
   Part 1 — ReuseConnTransport
   ===================================================================================================== *)

(* one *reusableConn that was registered in t.conns (or was dialled too late and closed on the spot) *)
Record rconn := {
  rc_open    : bool;   (* the net.Conn has not been closed *)
  rc_tracked : bool;   (* member of t.conns *)
  rc_idle    : bool;   (* member of t.idleConns *)
  rc_serving : bool;   (* reusableConn.serving *)
  rc_dead    : bool    (* reusableConn.closed *)
}.

Definition rconn_none : rconn :=
  {| rc_open := false; rc_tracked := false; rc_idle := false; rc_serving := false; rc_dead := true |}.

(* program counter of one ExchangeContext call together with the helper goroutines it starts one after the
   other (dial goroutine of asyncDial, worker goroutine of exchangeConnCtx).  The caller only waits while a
   helper runs, so caller + current helper are one sequential task; [rt_res] records what the caller got. *)
Inductive rstage :=
| RsStart                              (* about to call getIdleConn *)
| RsDialing                            (* asyncDial: DialContext in progress *)
| RsReturned                           (* DialContext returned an open net.Conn; t.m not yet taken *)
| RsDeliver (c : option nat)           (* dial goroutine about to hand over (conn id or error) *)
| RsHas (c : nat) (fresh : bool)       (* exchangeConn: write + read on conn c *)
| RsRel1 (c : nat) (err : bool)        (* releaseConn: rc.close() / rc.enterIdle() *)
| RsRel2 (c : nat) (err : bool)        (* releaseConn: the t.m critical section *)
| RsDone.

Record rtask := {
  rt_stage : rstage;
  rt_res   : option bool;   (* None: caller still waiting; Some true: got a reply; Some false: got an error *)
  rt_retry : nat
}.

Record rstate := {
  rs_closed : bool;          (* t.closed *)
  rs_conns  : list rconn;
  rs_tasks  : list rtask
}.

Definition r_init : rstate := {| rs_closed := false; rs_conns := []; rs_tasks := [] |}.

Inductive rlabel :=
| RSpawn                                   (* a new ExchangeContext call *)
| RGetIdle (t : nat) (pick : option nat)   (* getIdleConn: one loop iteration / the final answer *)
| RDialOk (t : nat)                        (* DialContext returns a connection *)
| RDialFail (t : nat)                      (* DialContext returns an error (e.g. t.ctx cancelled by Close) *)
| RRegister (t : nat)                      (* asyncDial: lock; if closed { rc.close() } else { conns[rc] } *)
| RDeliver (t : nat)                       (* dialChan <- res  /  caller gone: releaseConn(rc, nil) *)
| RIoOk (t : nat)                          (* the reply arrives on an open connection *)
| RIoClosed (t : nat)                      (* write/read fails because the connection is closed locally *)
| RIoPeerErr (t : nat)                     (* write/read fails for an external reason (peer, 6 s timeout) *)
| RRel1 (t : nat)
| RRel2 (t : nat)
| RIdleFire (c : nat)                      (* idle timer: closeIfIdle *)
| RCancel (t : nat)                        (* the caller's context ends *)
| RClose.                                  (* t.Close() *)

Definition fail_res (r : option bool) : option bool := match r with None => Some false | _ => r end.
Definition ok_res (r : option bool) : option bool := match r with None => Some true | _ => r end.

Definition rset_task (s : rstate) (t : nat) (x : rtask) : rstate :=
  {| rs_closed := rs_closed s; rs_conns := rs_conns s; rs_tasks := upd (rs_tasks s) t x |}.
Definition rset_conn (s : rstate) (c : nat) (k : rconn) : rstate :=
  {| rs_closed := rs_closed s; rs_conns := upd (rs_conns s) c k; rs_tasks := rs_tasks s |}.
Definition radd_conn (s : rstate) (k : rconn) : rstate :=
  {| rs_closed := rs_closed s; rs_conns := rs_conns s ++ [k]; rs_tasks := rs_tasks s |}.
Definition radd_task (s : rstate) (x : rtask) : rstate :=
  {| rs_closed := rs_closed s; rs_conns := rs_conns s; rs_tasks := rs_tasks s ++ [x] |}.

Definition with_stage (k : rtask) (st : rstage) : rtask :=
  {| rt_stage := st; rt_res := rt_res k; rt_retry := rt_retry k |}.

(* rc.close(): no-op when already closed, else closed := true and c.c.Close() *)
Definition rc_kill (k : rconn) : rconn :=
  if rc_dead k then k
  else {| rc_open := false; rc_tracked := rc_tracked k; rc_idle := rc_idle k; rc_serving := rc_serving k; rc_dead := true |}.

(* Close: `for c := range t.conns { c.c.Close() }` — the raw net.Conn, not rc.close() *)
Definition rc_netclose_if_tracked (k : rconn) : rconn :=
  if rc_tracked k
  then {| rc_open := false; rc_tracked := true; rc_idle := rc_idle k; rc_serving := rc_serving k; rc_dead := rc_dead k |}
  else k.

(* closeIfIdle *)
Definition rc_idle_fire (k : rconn) : rconn :=
  if rc_serving k then k
  else {| rc_open := false; rc_tracked := rc_tracked k; rc_idle := rc_idle k; rc_serving := false; rc_dead := true |}.

Definition rc_set (k : rconn) (tracked idle serving : bool) : rconn :=
  {| rc_open := rc_open k; rc_tracked := tracked; rc_idle := idle; rc_serving := serving; rc_dead := rc_dead k |}.

Definition rconn_new : rconn :=
  {| rc_open := true; rc_tracked := true; rc_idle := false; rc_serving := true; rc_dead := false |}.
(* dialled after Close: rc.close() on the spot, never registered *)
Definition rconn_late : rconn :=
  {| rc_open := false; rc_tracked := false; rc_idle := false; rc_serving := true; rc_dead := true |}.

(* what the caller does with a failed exchange on conn c: retry on a reused connection (retry <= 5, ctx
   alive), otherwise give up.  The worker goroutine releases the connection concurrently in both cases. *)
Definition r_io_fail (s : rstate) (t : nat) (k : rtask) (c : nat) (fresh : bool) : rstate :=
  match rt_res k with
  | None =>
      if negb fresh && (rt_retry k <=? 5)
      then radd_task (rset_task s t {| rt_stage := RsStart; rt_res := None; rt_retry := S (rt_retry k) |})
                     {| rt_stage := RsRel1 c true; rt_res := Some false; rt_retry := 0 |}
      else rset_task s t {| rt_stage := RsRel1 c true; rt_res := Some false; rt_retry := rt_retry k |}
  | Some _ => rset_task s t (with_stage k (RsRel1 c true))
  end.

Definition r_step (s : rstate) (l : rlabel) : option rstate :=
  match l with
  | RSpawn => Some (radd_task s {| rt_stage := RsStart; rt_res := None; rt_retry := 0 |})
  | RClose =>
      if rs_closed s then Some s
      else Some {| rs_closed := true; rs_conns := map rc_netclose_if_tracked (rs_conns s); rs_tasks := rs_tasks s |}
  | RIdleFire c =>
      match nth_error (rs_conns s) c with
      | Some k => Some (rset_conn s c (rc_idle_fire k))
      | None => None
      end
  | RCancel t =>
      match nth_error (rs_tasks s) t with
      | Some k => Some (rset_task s t {| rt_stage := rt_stage k; rt_res := fail_res (rt_res k); rt_retry := rt_retry k |})
      | None => None
      end
  | RGetIdle t pick =>
      match nth_error (rs_tasks s) t with
      | Some k =>
          match rt_stage k with
          | RsStart =>
              if rs_closed s
              then Some (rset_task s t {| rt_stage := RsDone; rt_res := fail_res (rt_res k); rt_retry := rt_retry k |})
              else match pick with
                   | Some c =>
                       match nth_error (rs_conns s) c with
                       | Some kc =>
                           if rc_idle kc then
                             if rc_dead kc then Some (rset_conn s c (rc_set kc false false (rc_serving kc)))
                             else if rc_open kc
                                  then Some (rset_task (rset_conn s c (rc_set kc true false true)) t (with_stage k (RsHas c false)))
                                  else Some (rset_conn s c (rc_set kc false false true))
                           else None
                       | None => None
                       end
                   | None =>
                       if existsb rc_idle (rs_conns s) then None
                       else Some (rset_task s t (with_stage k RsDialing))
                   end
          | _ => None
          end
      | None => None
      end
  | RDialOk t =>
      match nth_error (rs_tasks s) t with
      | Some k => match rt_stage k with RsDialing => Some (rset_task s t (with_stage k RsReturned)) | _ => None end
      | None => None
      end
  | RDialFail t =>
      match nth_error (rs_tasks s) t with
      | Some k => match rt_stage k with RsDialing => Some (rset_task s t (with_stage k (RsDeliver None))) | _ => None end
      | None => None
      end
  | RRegister t =>
      match nth_error (rs_tasks s) t with
      | Some k =>
          match rt_stage k with
          | RsReturned =>
              if rs_closed s
              then Some (rset_task (radd_conn s rconn_late) t (with_stage k (RsDeliver None)))
              else Some (rset_task (radd_conn s rconn_new) t (with_stage k (RsDeliver (Some (length (rs_conns s))))))
          | _ => None
          end
      | None => None
      end
  | RDeliver t =>
      match nth_error (rs_tasks s) t with
      | Some k =>
          match rt_stage k with
          | RsDeliver oc =>
              match rt_res k, oc with
              | None, Some c => Some (rset_task s t (with_stage k (RsHas c true)))
              | None, None => Some (rset_task s t {| rt_stage := RsDone; rt_res := Some false; rt_retry := rt_retry k |})
              | Some _, Some c => Some (rset_task s t (with_stage k (RsRel1 c false)))
              | Some _, None => Some (rset_task s t (with_stage k RsDone))
              end
          | _ => None
          end
      | None => None
      end
  | RIoOk t =>
      match nth_error (rs_tasks s) t with
      | Some k =>
          match rt_stage k with
          | RsHas c _ =>
              match nth_error (rs_conns s) c with
              | Some kc => if rc_open kc
                           then Some (rset_task s t {| rt_stage := RsRel1 c false; rt_res := ok_res (rt_res k); rt_retry := rt_retry k |})
                           else None
              | None => None
              end
          | _ => None
          end
      | None => None
      end
  | RIoClosed t =>
      match nth_error (rs_tasks s) t with
      | Some k =>
          match rt_stage k with
          | RsHas c fresh =>
              match nth_error (rs_conns s) c with
              | Some kc => if rc_open kc then None else Some (r_io_fail s t k c fresh)
              | None => None
              end
          | _ => None
          end
      | None => None
      end
  | RIoPeerErr t =>
      match nth_error (rs_tasks s) t with
      | Some k =>
          match rt_stage k with
          | RsHas c fresh =>
              match nth_error (rs_conns s) c with
              | Some _ => Some (r_io_fail s t k c fresh)
              | None => None
              end
          | _ => None
          end
      | None => None
      end
  | RRel1 t =>
      match nth_error (rs_tasks s) t with
      | Some k =>
          match rt_stage k with
          | RsRel1 c err =>
              match nth_error (rs_conns s) c with
              | Some kc =>
                  Some (rset_task (rset_conn s c (if err then rc_kill kc else rc_set kc (rc_tracked kc) (rc_idle kc) false))
                                  t (with_stage k (RsRel2 c err)))
              | None => None
              end
          | _ => None
          end
      | None => None
      end
  | RRel2 t =>
      match nth_error (rs_tasks s) t with
      | Some k =>
          match rt_stage k with
          | RsRel2 c err =>
              match nth_error (rs_conns s) c with
              | Some kc =>
                  let kc' := if rs_closed s then (if err then kc else rc_kill kc)
                             else if err then rc_set kc false (rc_idle kc) (rc_serving kc)
                                  else rc_set kc (rc_tracked kc) true (rc_serving kc) in
                  Some (rset_task (rset_conn s c kc') t (with_stage k RsDone))
              | None => None
              end
          | _ => None
          end
      | None => None
      end
  end.

Fixpoint r_run (s : rstate) (ls : list rlabel) : option rstate :=
  match ls with
  | [] => Some s
  | l :: tl => match r_step s l with Some s' => r_run s' tl | None => None end
  end.

Definition is_returned (k : rtask) : bool := match rt_stage k with RsReturned => true | _ => false end.

(* connections a counting dialer would still see open: registered ones plus raw results of dials that
   have returned but not yet reached the critical section *)
Definition r_open_count (s : rstate) : nat :=
  length (filter rc_open (rs_conns s)) + length (filter is_returned (rs_tasks s)).

Definition r_result (s : rstate) (t : nat) : option bool :=
  match nth_error (rs_tasks s) t with Some k => rt_res k | None => None end.

(* a task that is an exchange whose caller is still waiting *)
Definition r_blocked (k : rtask) : bool :=
  match rt_res k with None => true | Some _ => false end.

(* the labels that make a blocked caller fail once the transport is closed (see ShutdownProofs) *)
Definition r_fail_path (s : rstate) (t : nat) : list rlabel :=
  match nth_error (rs_tasks s) t with
  | Some k =>
      match rt_stage k with
      | RsStart => [RGetIdle t None]
      | RsDialing => [RDialFail t; RDeliver t]
      | RsReturned => [RRegister t; RDeliver t]
      | RsDeliver None => [RDeliver t]
      | RsDeliver (Some _) => [RDeliver t; RIoClosed t]
      | RsHas _ fresh => if negb fresh && (rt_retry k <=? 5) then [RIoClosed t; RGetIdle t None] else [RIoClosed t]
      | _ => []
      end
  | None => []
  end.

(* =====================================================================================================
   Part 2 — PipelineTransport on connpool.Pool
   ===================================================================================================== *)

Inductive pwhere := PBusy (n : nat) | PIdle | PNone.     (* p.busyConns (curStream) / p.idleConns / neither *)

Record pconn := {
  pc_open   : bool;     (* net.Conn not closed (and pc.ctx not cancelled: closeWithErr does both) *)
  pc_closed : bool;     (* pipelineConn.closed *)
  pc_where  : pwhere
}.

Inductive pdstage := PdDialing | PdGot (ok : bool) | PdEnd.

(* one connpool dialingCall *)
Record pdial := {
  pd_stage  : pdstage;
  pd_result : option (option nat);   (* None: no result yet; Some None: dc.err; Some (Some c): dc.conn *)
  pd_queue  : nat;                   (* streamQueue *)
  pd_listed : bool                   (* member of p.dialingCalls *)
}.

Inductive pstage :=
| PsStart
| PsWait (d : nat)                       (* dc.waitConn *)
| PsHas (c : nat) (fresh : bool)         (* pipelineConn.exchange *)
| PsRel1 (c : nat) (again : bool)        (* Pool.Release: conn.Status().Closed *)
| PsRel2 (c : nat) (again : bool) (wasclosed : bool)   (* Pool.Release: the p.m critical section *)
| PsCloseA (c : nat)                     (* closeWithErr: c.m critical section (mark closed) *)
| PsCloseB (c : nat)                     (* closeWithErr: cancelCause + c.c.Close() *)
| PsDone.

Record ptask := { pt_stage : pstage; pt_res : option bool; pt_retry : nat }.

Record sd_pstate := {
  ps_closed : bool;            (* Pool.closed *)
  ps_last   : option nat;      (* p.lastDialCall *)
  ps_conns  : list pconn;
  ps_dials  : list pdial;
  ps_tasks  : list ptask
}.

Definition sdp_init : sd_pstate := {| ps_closed := false; ps_last := None; ps_conns := []; ps_dials := []; ps_tasks := [] |}.

Inductive pget := GBusy (c : nat) | GIdle (c : nat) | GJoin | GNew.

Inductive sd_plabel :=
| PSpawn
| SdGet (t : nat) (g : pget)
| PDialOk (d : nat)
| PDialFail (d : nat)
| PDialFinish (d : nat)                   (* dialingCall.dial after opts.Dial returned: lock p.m, dc.m *)
| PWake (t : nat)                         (* waitConn sees deliverNotify closed *)
| PIoOk (t : nat)
| PIoClosed (t : nat)                     (* select arm <-c.ctx.Done() / write on a closed conn *)
| PIoPeerErr (t : nat) (kill : bool)      (* caller ctx (kill=false) or write error -> closeWithErr (kill=true) *)
| PReadErr (c : nat)                      (* readLoop: read error / idle time-out -> closeWithErr *)
| PRel1 (t : nat)
| PRel2 (t : nat) (trim : list nat)       (* trim: idle connections the ratio rule removes, closed after unlock *)
| PCloseA (t : nat)
| PCloseB (t : nat)
| PGc (c : nat)                           (* pool drops a conn whose Status().Closed is true (pickBusy / idle loop) *)
| PCancel (t : nat)
| PClose.

Definition pset_task (s : sd_pstate) (t : nat) (x : ptask) : sd_pstate :=
  {| ps_closed := ps_closed s; ps_last := ps_last s; ps_conns := ps_conns s; ps_dials := ps_dials s;
     ps_tasks := upd (ps_tasks s) t x |}.
Definition padd_task (s : sd_pstate) (x : ptask) : sd_pstate :=
  {| ps_closed := ps_closed s; ps_last := ps_last s; ps_conns := ps_conns s; ps_dials := ps_dials s;
     ps_tasks := ps_tasks s ++ [x] |}.
Definition pset_conn (s : sd_pstate) (c : nat) (k : pconn) : sd_pstate :=
  {| ps_closed := ps_closed s; ps_last := ps_last s; ps_conns := upd (ps_conns s) c k; ps_dials := ps_dials s;
     ps_tasks := ps_tasks s |}.
Definition padd_conn (s : sd_pstate) (k : pconn) : sd_pstate :=
  {| ps_closed := ps_closed s; ps_last := ps_last s; ps_conns := ps_conns s ++ [k]; ps_dials := ps_dials s;
     ps_tasks := ps_tasks s |}.
Definition pset_dial (s : sd_pstate) (d : nat) (x : pdial) : sd_pstate :=
  {| ps_closed := ps_closed s; ps_last := ps_last s; ps_conns := ps_conns s; ps_dials := upd (ps_dials s) d x;
     ps_tasks := ps_tasks s |}.
Definition pset_last (s : sd_pstate) (l : option nat) : sd_pstate :=
  {| ps_closed := ps_closed s; ps_last := l; ps_conns := ps_conns s; ps_dials := ps_dials s; ps_tasks := ps_tasks s |}.

Definition pwith_stage (k : ptask) (st : pstage) : ptask :=
  {| pt_stage := st; pt_res := pt_res k; pt_retry := pt_retry k |}.
Definition pc_at (k : pconn) (w : pwhere) : pconn :=
  {| pc_open := pc_open k; pc_closed := pc_closed k; pc_where := w |}.
Definition closer_task (c : nat) : ptask := {| pt_stage := PsCloseA c; pt_res := Some false; pt_retry := 0 |}.

(* Pool.Close: conn.Close() for every busy and idle conn = closeWithErr: no-op when pc.closed *)
Definition pc_pool_close (k : pconn) : pconn :=
  match pc_where k with
  | PNone => k
  | _ => if pc_closed k then k else {| pc_open := false; pc_closed := true; pc_where := pc_where k |}
  end.
(* Pool.Close: dc.cancelDial(ErrPoolClosed) for every listed call without a result *)
Definition pd_cancel (d : pdial) : pdial :=
  if pd_listed d then
    match pd_result d with
    | None => {| pd_stage := pd_stage d; pd_result := Some None; pd_queue := pd_queue d; pd_listed := true |}
    | Some _ => d
    end
  else d.

(* remove the trimmed idle conns from the pool (under p.m) and start one closer per conn (after unlock) *)
Fixpoint sdp_trim (s : sd_pstate) (trim : list nat) : option sd_pstate :=
  match trim with
  | [] => Some s
  | c :: tl =>
      match nth_error (ps_conns s) c with
      | Some k => match pc_where k with
                  | PIdle => sdp_trim (padd_task (pset_conn s c (pc_at k PNone)) (closer_task c)) tl
                  | _ => None
                  end
      | None => None
      end
  end.

Definition sdp_io_fail (s : sd_pstate) (t : nat) (k : ptask) (c : nat) (fresh : bool) : sd_pstate :=
  match pt_res k with
  | None =>
      if negb fresh && (pt_retry k <? 5)
      then pset_task s t {| pt_stage := PsRel1 c true; pt_res := None; pt_retry := S (pt_retry k) |}
      else pset_task s t {| pt_stage := PsRel1 c false; pt_res := Some false; pt_retry := pt_retry k |}
  | Some _ => pset_task s t (pwith_stage k (PsRel1 c false))
  end.

Definition sdp_step (s : sd_pstate) (l : sd_plabel) : option sd_pstate :=
  match l with
  | PSpawn => Some (padd_task s {| pt_stage := PsStart; pt_res := None; pt_retry := 0 |})
  | PClose =>
      if ps_closed s then Some s
      else Some {| ps_closed := true; ps_last := ps_last s; ps_conns := map pc_pool_close (ps_conns s);
                   ps_dials := map pd_cancel (ps_dials s); ps_tasks := ps_tasks s |}
  | PCancel t =>
      match nth_error (ps_tasks s) t with
      | Some k =>
          match pt_stage k, pt_res k with
          | PsWait d, None =>
              match nth_error (ps_dials s) d with
              | Some dd =>
                  match pd_result dd with
                  | None => Some (pset_task (pset_dial s d {| pd_stage := pd_stage dd; pd_result := None;
                                                              pd_queue := pred (pd_queue dd); pd_listed := pd_listed dd |})
                                            t {| pt_stage := PsDone; pt_res := Some false; pt_retry := pt_retry k |})
                  | Some _ => Some (pset_task s t {| pt_stage := pt_stage k; pt_res := Some false; pt_retry := pt_retry k |})
                  end
              | None => None
              end
          | PsHas c _, _ =>
              (* exchange's select takes <-ctx.Done(): the caller leaves and releases the connection itself *)
              Some (pset_task s t {| pt_stage := PsRel1 c false; pt_res := fail_res (pt_res k); pt_retry := pt_retry k |})
          | _, _ => Some (pset_task s t {| pt_stage := pt_stage k; pt_res := fail_res (pt_res k); pt_retry := pt_retry k |})
          end
      | None => None
      end
  | SdGet t g =>
      match nth_error (ps_tasks s) t with
      | Some k =>
          match pt_stage k with
          | PsStart =>
              if ps_closed s
              then Some (pset_task s t {| pt_stage := PsDone; pt_res := fail_res (pt_res k); pt_retry := pt_retry k |})
              else match g with
                   | GBusy c =>
                       match nth_error (ps_conns s) c with
                       | Some kc => match pc_where kc with
                                    | PBusy n => if pc_closed kc then None
                                                 else Some (pset_task (pset_conn s c (pc_at kc (PBusy (S n)))) t (pwith_stage k (PsHas c false)))
                                    | _ => None
                                    end
                       | None => None
                       end
                   | GIdle c =>
                       match nth_error (ps_conns s) c with
                       | Some kc => match pc_where kc with
                                    | PIdle => if pc_closed kc then None
                                               else Some (pset_task (pset_conn s c (pc_at kc (PBusy 1))) t (pwith_stage k (PsHas c false)))
                                    | _ => None
                                    end
                       | None => None
                       end
                   | GJoin =>
                       match ps_last s with
                       | Some d =>
                           match nth_error (ps_dials s) d with
                           | Some dd => Some (pset_task (pset_dial s d {| pd_stage := pd_stage dd; pd_result := pd_result dd;
                                                                          pd_queue := S (pd_queue dd); pd_listed := pd_listed dd |})
                                                        t (pwith_stage k (PsWait d)))
                           | None => None
                           end
                       | None => None
                       end
                   | GNew =>
                       let d := length (ps_dials s) in
                       Some (pset_task {| ps_closed := false; ps_last := Some d; ps_conns := ps_conns s;
                                          ps_dials := ps_dials s ++ [{| pd_stage := PdDialing; pd_result := None; pd_queue := 1; pd_listed := true |}];
                                          ps_tasks := ps_tasks s |} t (pwith_stage k (PsWait d)))
                   end
          | _ => None
          end
      | None => None
      end
  | PDialOk d =>
      match nth_error (ps_dials s) d with
      | Some dd => match pd_stage dd with
                   | PdDialing => Some (pset_dial s d {| pd_stage := PdGot true; pd_result := pd_result dd; pd_queue := pd_queue dd; pd_listed := pd_listed dd |})
                   | _ => None
                   end
      | None => None
      end
  | PDialFail d =>
      match nth_error (ps_dials s) d with
      | Some dd => match pd_stage dd with
                   | PdDialing => Some (pset_dial s d {| pd_stage := PdGot false; pd_result := pd_result dd; pd_queue := pd_queue dd; pd_listed := pd_listed dd |})
                   | _ => None
                   end
      | None => None
      end
  | PDialFinish d =>
      match nth_error (ps_dials s) d with
      | Some dd =>
          match pd_stage dd with
          | PdGot ok =>
              let cancelled := ps_closed s || match pd_result dd with Some _ => true | None => false end in
              if cancelled then
                (* `if c != nil { c.Close() }`: the fresh pipelineConn is closed on the spot *)
                let s1 := if ok then padd_conn s {| pc_open := false; pc_closed := true; pc_where := PNone |} else s in
                Some (pset_dial s1 d {| pd_stage := PdEnd; pd_result := pd_result dd; pd_queue := pd_queue dd; pd_listed := pd_listed dd |})
              else
                let c := length (ps_conns s) in
                let s1 := if ok then padd_conn s {| pc_open := true; pc_closed := false;
                                                    pc_where := match pd_queue dd with O => PIdle | S _ => PBusy (pd_queue dd) end |}
                          else s in
                let s2 := pset_dial s1 d {| pd_stage := PdEnd; pd_result := Some (if ok then Some c else None);
                                            pd_queue := pd_queue dd; pd_listed := false |} in
                Some (pset_last s2 (match ps_last s with Some d' => if d' =? d then None else Some d' | None => None end))
          | _ => None
          end
      | None => None
      end
  | PWake t =>
      match nth_error (ps_tasks s) t with
      | Some k =>
          match pt_stage k with
          | PsWait d =>
              match nth_error (ps_dials s) d with
              | Some dd =>
                  match pd_result dd with
                  | Some (Some c) => Some (pset_task s t (pwith_stage k (PsHas c true)))
                  | Some None => Some (pset_task s t {| pt_stage := PsDone; pt_res := fail_res (pt_res k); pt_retry := pt_retry k |})
                  | None => None
                  end
              | None => None
              end
          | _ => None
          end
      | None => None
      end
  | PIoOk t =>
      match nth_error (ps_tasks s) t with
      | Some k =>
          match pt_stage k with
          | PsHas c _ =>
              match nth_error (ps_conns s) c with
              | Some kc => if pc_open kc
                           then Some (pset_task s t {| pt_stage := PsRel1 c false; pt_res := ok_res (pt_res k); pt_retry := pt_retry k |})
                           else None
              | None => None
              end
          | _ => None
          end
      | None => None
      end
  | PIoClosed t =>
      match nth_error (ps_tasks s) t with
      | Some k =>
          match pt_stage k with
          | PsHas c fresh =>
              match nth_error (ps_conns s) c with
              | Some kc => if pc_open kc then None else Some (sdp_io_fail s t k c fresh)
              | None => None
              end
          | _ => None
          end
      | None => None
      end
  | PIoPeerErr t kill =>
      match nth_error (ps_tasks s) t with
      | Some k =>
          match pt_stage k with
          | PsHas c fresh =>
              match nth_error (ps_conns s) c with
              | Some _ => let s1 := sdp_io_fail s t k c fresh in
                          Some (if kill then padd_task s1 (closer_task c) else s1)
              | None => None
              end
          | _ => None
          end
      | None => None
      end
  | PReadErr c =>
      match nth_error (ps_conns s) c with
      | Some _ => Some (padd_task s (closer_task c))
      | None => None
      end
  | PRel1 t =>
      match nth_error (ps_tasks s) t with
      | Some k =>
          match pt_stage k with
          | PsRel1 c again =>
              match nth_error (ps_conns s) c with
              | Some kc => Some (pset_task s t (pwith_stage k (PsRel2 c again (pc_closed kc))))
              | None => None
              end
          | _ => None
          end
      | None => None
      end
  | PRel2 t trim =>
      match nth_error (ps_tasks s) t with
      | Some k =>
          match pt_stage k with
          | PsRel2 c again wasclosed =>
              match nth_error (ps_conns s) c with
              | Some kc =>
                  let next := pwith_stage k (if again then PsStart else PsDone) in
                  match pc_where kc with
                  | PBusy n =>
                      if wasclosed
                      then match trim with [] => Some (pset_task (pset_conn s c (pc_at kc PNone)) t next) | _ => None end
                      else match n with
                           | S (S m) => match trim with [] => Some (pset_task (pset_conn s c (pc_at kc (PBusy (S m)))) t next) | _ => None end
                           | _ => match sdp_trim (pset_conn s c (pc_at kc PIdle)) trim with
                                  | Some s1 => Some (pset_task s1 t next)
                                  | None => None
                                  end
                           end
                  | _ => match trim with [] => Some (pset_task s t next) | _ => None end
                  end
              | None => None
              end
          | _ => None
          end
      | None => None
      end
  | PCloseA t =>
      match nth_error (ps_tasks s) t with
      | Some k =>
          match pt_stage k with
          | PsCloseA c =>
              match nth_error (ps_conns s) c with
              | Some kc =>
                  if pc_closed kc then Some (pset_task s t (pwith_stage k PsDone))
                  else Some (pset_task (pset_conn s c {| pc_open := pc_open kc; pc_closed := true; pc_where := pc_where kc |})
                                       t (pwith_stage k (PsCloseB c)))
              | None => None
              end
          | _ => None
          end
      | None => None
      end
  | PCloseB t =>
      match nth_error (ps_tasks s) t with
      | Some k =>
          match pt_stage k with
          | PsCloseB c =>
              match nth_error (ps_conns s) c with
              | Some kc => Some (pset_task (pset_conn s c {| pc_open := false; pc_closed := pc_closed kc; pc_where := pc_where kc |})
                                           t (pwith_stage k PsDone))
              | None => None
              end
          | _ => None
          end
      | None => None
      end
  | PGc c =>
      match nth_error (ps_conns s) c with
      | Some kc => if pc_closed kc then Some (pset_conn s c (pc_at kc PNone)) else None
      | None => None
      end
  end.

Fixpoint sdp_run (s : sd_pstate) (ls : list sd_plabel) : option sd_pstate :=
  match ls with
  | [] => Some s
  | l :: tl => match sdp_step s l with Some s' => sdp_run s' tl | None => None end
  end.

Definition pd_is_got (d : pdial) : bool := match pd_stage d with PdGot true => true | _ => false end.
Definition sdp_open_count (s : sd_pstate) : nat :=
  length (filter pc_open (ps_conns s)) + length (filter pd_is_got (ps_dials s)).
Definition sdp_result (s : sd_pstate) (t : nat) : option bool :=
  match nth_error (ps_tasks s) t with Some k => pt_res k | None => None end.

Definition pt_is_closer (k : ptask) : bool :=
  match pt_stage k with PsCloseA _ | PsCloseB _ => true | _ => false end.

(* =====================================================================================================
   Part 3 — who calls whom when an upstream is closed (termination of Close for every kind)
   ===================================================================================================== *)

Inductive ukind := KUdp | KTcp | KTcpPipeline | KTls | KTlsPipeline | KHttps | KH3 | KQuic.

Inductive closee :=
| CeReuse | CePipeline | CeQuic
| CeDoH (extra : bool)     (* DoHTransport with / without an extra closer (h3: the quic.Transport) *)
| CeFallback               (* udpWithFallback: u.u.Close(); u.t.Close() *)
| CeExtra.                 (* the extra closer itself *)

Definition upstream_closee (k : ukind) : closee :=
  match k with
  | KUdp => CeFallback
  | KTcp | KTls => CeReuse
  | KTcpPipeline | KTlsPipeline => CePipeline
  | KHttps => CeDoH false
  | KH3 => CeDoH true
  | KQuic => CeQuic
  end.

(* the Close methods as a call graph, evaluated with fuel (= stack depth).
   pinned = true is the pinned tree's DoHTransport.Close:  if u.closer != nil { return u.Close() } *)
Fixpoint close_calls (pinned : bool) (fuel : nat) (t : closee) : res (list closee) :=
  match fuel with
  | O => OutOfFuel
  | S f =>
      match t with
      | CeDoH true =>
          if pinned then close_calls pinned f (CeDoH true)
          else do l <- close_calls pinned f CeExtra; Ok (t :: l)
      | CeFallback =>
          do a <- close_calls pinned f CePipeline;
          do b <- close_calls pinned f CeReuse;
          Ok (t :: a ++ b)
      | _ => Ok [t]
      end
  end.

Definition all_ukinds : list ukind := [KUdp; KTcp; KTcpPipeline; KTls; KTlsPipeline; KHttps; KH3; KQuic].

(* =====================================================================================================
   Part 4 — deterministic big-step semantics for quiescent histories (what the harness replays)
   An external event (new exchange, dial result, server reply, peer error, caller cancel, idle time-out,
   Close) is applied, then every enabled internal step runs to completion.  By construction every
   big step is a sequence of small steps ([r_big_refines], [sdp_big_refines] in ShutdownProofs).
   [honour] = the injected dialer returns as soon as its context is cancelled (a dial pending at Close fails
   at once); otherwise the dial stays pending until the script completes it (a "late" dial).
   ===================================================================================================== *)

Inductive xev :=
| XSpawn | XDialOk (i : nat) | XDialFail (i : nat) | XReply (t : nat) | XPeerErr (t : nat)
| XCancel (t : nat) | XIdle | XClose.

Fixpoint find_idx {A} (p : A -> bool) (l : list A) (off : nat) : option nat :=
  match l with
  | [] => None
  | x :: tl => if p x then Some off else find_idx p tl (S off)
  end.

(* ---- reuse ---- *)
Definition r_internal (honour : bool) (s : rstate) (t : nat) (k : rtask) : option rlabel :=
  match rt_stage k with
  | RsStart => Some (RGetIdle t (if rs_closed s then None else find_idx rc_idle (rs_conns s) 0))
  | RsDialing => if honour && rs_closed s then Some (RDialFail t) else None
  | RsReturned => Some (RRegister t)
  | RsDeliver _ => Some (RDeliver t)
  | RsHas c _ => match nth_error (rs_conns s) c with
                 | Some kc => if rc_open kc then None else Some (RIoClosed t)
                 | None => None
                 end
  | RsRel1 _ _ => Some (RRel1 t)
  | RsRel2 _ _ => Some (RRel2 t)
  | RsDone => None
  end.

Fixpoint r_first_internal (honour : bool) (s : rstate) (ts : list rtask) (off : nat) : option rlabel :=
  match ts with
  | [] => None
  | k :: tl => match r_internal honour s off k with
               | Some l => Some l
               | None => r_first_internal honour s tl (S off)
               end
  end.

Fixpoint r_quiesce (honour : bool) (fuel : nat) (s : rstate) : rstate :=
  match fuel with
  | O => s
  | S f => match r_first_internal honour s (rs_tasks s) 0 with
           | Some l => match r_step s l with Some s' => r_quiesce honour f s' | None => s end
           | None => s
           end
  end.

Definition r_ext_labels (s : rstate) (e : xev) : list rlabel :=
  match e with
  | XSpawn => [RSpawn]
  | XDialOk t => [RDialOk t]
  | XDialFail t => [RDialFail t]
  | XReply t => [RIoOk t]
  | XPeerErr t => [RIoPeerErr t]
  | XCancel t => [RCancel t]
  | XIdle => map RIdleFire (seq 0 (length (rs_conns s)))
  | XClose => [RClose]
  end.

Definition big_fuel : nat := 200.

Definition r_big (honour : bool) (s : rstate) (e : xev) : option rstate :=
  match r_run s (r_ext_labels s e) with
  | Some s1 => Some (r_quiesce honour big_fuel s1)
  | None => None
  end.

Definition r_quiet (honour : bool) (s : rstate) : bool :=
  match r_first_internal honour s (rs_tasks s) 0 with None => true | Some _ => false end.

Definition r_is_dialing (s : rstate) (t : nat) : bool :=
  match nth_error (rs_tasks s) t with
  | Some k => match rt_stage k with RsDialing => true | _ => false end
  | None => false
  end.

(* ---- pipeline ---- *)
Definition pc_is_busy (maxs : nat) (k : pconn) : bool :=
  match pc_where k with PBusy n => negb (pc_closed k) && (n <? maxs) | _ => false end.
Definition pc_is_idle (k : pconn) : bool :=
  match pc_where k with PIdle => negb (pc_closed k) | _ => false end.
Definition pc_in_idle (k : pconn) : bool := match pc_where k with PIdle => true | _ => false end.
Definition pc_in_busy (k : pconn) : bool := match pc_where k with PBusy _ => true | _ => false end.

Fixpoint idle_indices (l : list pconn) (off : nat) : list nat :=
  match l with
  | [] => []
  | k :: tl => (if pc_in_idle k then [off] else []) ++ idle_indices tl (S off)
  end.

(* Pool.Get's choice: a busy conn with room, else an idle conn, else join the last dial call, else dial *)
Definition sdp_choose (maxs : nat) (s : sd_pstate) : pget :=
  match find_idx (pc_is_busy maxs) (ps_conns s) 0 with
  | Some c => GBusy c
  | None =>
      match find_idx pc_is_idle (ps_conns s) 0 with
      | Some c => GIdle c
      | None =>
          match ps_last s with
          | Some d => match nth_error (ps_dials s) d with
                      | Some dd => if pd_queue dd <? maxs then GJoin else GNew
                      | None => GNew
                      end
          | None => GNew
          end
      end
  end.

(* Pool.Release's trimming rule after conn c went idle: keep max(#busy, 1) idle connections *)
Definition sdp_trim_choice (s : sd_pstate) (c : nat) : list nat :=
  match nth_error (ps_conns s) c with
  | Some kc =>
      match pc_where kc with
      | PBusy 1 =>
          let conns' := upd (ps_conns s) c (pc_at kc PIdle) in
          let idle := idle_indices conns' 0 in
          let busy := length (filter pc_in_busy conns') in
          firstn (length idle - Nat.max busy 1) idle
      | _ => []
      end
  | None => []
  end.

Definition sdp_internal_task (maxs : nat) (s : sd_pstate) (t : nat) (k : ptask) : option sd_plabel :=
  match pt_stage k with
  | PsStart => Some (SdGet t (sdp_choose maxs s))
  | PsWait d => match nth_error (ps_dials s) d with
                | Some dd => match pd_result dd with Some _ => Some (PWake t) | None => None end
                | None => None
                end
  | PsHas c _ => match nth_error (ps_conns s) c with
                 | Some kc => if pc_open kc then None else Some (PIoClosed t)
                 | None => None
                 end
  | PsRel1 _ _ => Some (PRel1 t)
  | PsRel2 c _ wc => Some (PRel2 t (if wc then [] else sdp_trim_choice s c))
  | PsCloseA _ => Some (PCloseA t)
  | PsCloseB _ => Some (PCloseB t)
  | PsDone => None
  end.

Definition sdp_internal_dial (honour : bool) (s : sd_pstate) (d : nat) (dd : pdial) : option sd_plabel :=
  match pd_stage dd with
  | PdDialing => if honour && (ps_closed s || match pd_result dd with Some _ => true | None => false end)
                 then Some (PDialFail d) else None
  | PdGot _ => Some (PDialFinish d)
  | PdEnd => None
  end.

Fixpoint sdp_first_task (maxs : nat) (s : sd_pstate) (ts : list ptask) (off : nat) : option sd_plabel :=
  match ts with
  | [] => None
  | k :: tl => match sdp_internal_task maxs s off k with Some l => Some l | None => sdp_first_task maxs s tl (S off) end
  end.
Fixpoint sdp_first_dial (honour : bool) (s : sd_pstate) (ds : list pdial) (off : nat) : option sd_plabel :=
  match ds with
  | [] => None
  | d :: tl => match sdp_internal_dial honour s off d with Some l => Some l | None => sdp_first_dial honour s tl (S off) end
  end.

Definition sdp_first_internal (honour : bool) (maxs : nat) (s : sd_pstate) : option sd_plabel :=
  match sdp_first_dial honour s (ps_dials s) 0 with
  | Some l => Some l
  | None => sdp_first_task maxs s (ps_tasks s) 0
  end.

Fixpoint sdp_quiesce (honour : bool) (maxs : nat) (fuel : nat) (s : sd_pstate) : sd_pstate :=
  match fuel with
  | O => s
  | S f => match sdp_first_internal honour maxs s with
           | Some l => match sdp_step s l with Some s' => sdp_quiesce honour maxs f s' | None => s end
           | None => s
           end
  end.

Fixpoint open_conn_indices (l : list pconn) (off : nat) : list nat :=
  match l with
  | [] => []
  | k :: tl => (if pc_open k then [off] else []) ++ open_conn_indices tl (S off)
  end.

Definition sdp_conn_of (s : sd_pstate) (t : nat) : option nat :=
  match nth_error (ps_tasks s) t with
  | Some k => match pt_stage k with PsHas c _ => Some c | _ => None end
  | None => None
  end.

Definition sdp_ext_labels (s : sd_pstate) (e : xev) : option (list sd_plabel) :=
  match e with
  | XSpawn => Some [PSpawn]
  | XDialOk d => Some [PDialOk d]
  | XDialFail d => Some [PDialFail d]
  | XReply t => Some [PIoOk t]
  | XPeerErr t => match sdp_conn_of s t with Some c => Some [PReadErr c] | None => None end
  | XCancel t => Some [PCancel t]
  | XIdle => Some (map PReadErr (open_conn_indices (ps_conns s) 0))
  | XClose => Some [PClose]
  end.

Definition sdp_big (honour : bool) (maxs : nat) (s : sd_pstate) (e : xev) : option sd_pstate :=
  match sdp_ext_labels s e with
  | Some ls => match sdp_run s ls with
               | Some s1 => Some (sdp_quiesce honour maxs big_fuel s1)
               | None => None
               end
  | None => None
  end.

Definition sdp_quiet (honour : bool) (maxs : nat) (s : sd_pstate) : bool :=
  match sdp_first_internal honour maxs s with None => true | Some _ => false end.

Definition sdp_is_dialing (s : sd_pstate) (d : nat) : bool :=
  match nth_error (ps_dials s) d with
  | Some dd => match pd_stage dd with PdDialing => true | _ => false end
  | None => false
  end.

Definition sdp_is_waiting_reply (s : sd_pstate) (t : nat) : bool :=
  match sdp_conn_of s t with Some _ => true | None => false end.
Definition r_is_waiting_reply (s : rstate) (t : nat) : bool :=
  match nth_error (rs_tasks s) t with
  | Some k => match rt_stage k with RsHas _ _ => true | _ => false end
  | None => false
  end.

(* ---- what closing an upstream of each kind leaves behind (the libraries net/http, quic-go are modelled,
   not verified: this table mirrors the code as it is and is compared with the real upstreams on every run).
     up_after_fails k used : an exchange started after Close fails
     up_leak k             : sockets created by the upstream that are still open after Close
     up_inflight_prompt k  : an exchange whose dial / reply is pending at Close fails at Close, not at its own deadline
   Before the fixes (k6 = false): https: DoHTransport.Close without an extra closer did nothing (K6a).  h3: the
   extra closer (quic.Transport) did not close the UDP socket it was given, and a never-used transport still
   dialled after Close (K6c, K6d).  quic: QuicTransport.Close did not close the UDP socket (K6c).
   [quic_waiters_fixed] = runDialingCall wakes its waiters when the transport was closed meanwhile (the K6b fix).
   The composite model of Net/ShutdownOwn.v says which parts each upstream owns and closes.
   [k6] = the tree has the K6a / K6c / K6d fixes: an https upstream dials through a connTracker that is the
   DoHTransport's closer; quic and h3 upstreams close the quic.Transport AND the UDP socket they made.
   k6 = false is the tree before those fixes (kept so that the old behaviour can be replayed: corpus fixed.case). *)
Definition up_after_fails (k6 : bool) (k : ukind) (used : bool) : bool :=
  if k6 then true else match k with KHttps => false | KH3 => used | _ => true end.
Definition up_leak (k6 : bool) (k : ukind) : nat :=
  if k6 then 0 else match k with KHttps | KH3 | KQuic => 1 | _ => 0 end.
Definition up_inflight_prompt (k6 : bool) (quic_waiters_fixed : bool) (k : ukind) : bool :=
  match k with KHttps => k6 | KQuic => quic_waiters_fixed | _ => true end.
Definition up_orderly (k6 : bool) (k : ukind) : bool :=
  up_after_fails k6 k false && up_after_fails k6 k true && (up_leak k6 k =? 0) && up_inflight_prompt k6 true k.

(* =====================================================================================================
   Part 5 — QuicTransport  (internal/upstream/transport/quic_transport.go)
   One cached connection t.c, at most one dialing call t.dialingCall whose waiters block on call.done.
     getConn        : one critical section of t.m (closed? / cached conn alive? / join the call / start a call)
     runDialingCall : DialContext; then one critical section (dialingCall = nil; closed ? : t.c = c); then, after
                      unlocking, either CloseWithError on the late connection + call.err = closed, or
                      call.c, call.err = c, err; finally close(call.done)        (the code as FIXED for K6b)
     Close          : one critical section (closed = true; cancel t.ctx; t.c.CloseWithError)
   All names of this part are prefixed sdq_/Sq/Qs/Qd/qc_/qd_/qt_/sq_.
   ===================================================================================================== *)

Record qconn := { qc_open : bool }.     (* the quic.Connection's context is alive (nobody closed it) *)

Inductive qdstage :=
| QdDialing                      (* DialContext running *)
| QdGot (ok : bool)              (* DialContext returned (a connection / an error); t.m not yet taken *)
| QdLate (ok : bool)             (* critical section found t.closed: about to close the late connection and fail the call *)
| QdReady (r : option nat)       (* critical section stored t.c = c: about to publish call.c/call.err *)
| QdEnd.                         (* close(call.done) happened *)

Record qcall := {
  qd_stage  : qdstage;
  qd_result : option (option nat)    (* what the waiters read after call.done: None = not yet *)
}.

Inductive qstage :=
| QsStart
| QsWait (d : nat)                 (* dialingQuicCall.wait *)
| QsHas (c : nat) (fresh : bool)   (* exchangeConn: OpenStream + write + read *)
| QsDone.

Record qtask := { qt_stage : qstage; qt_res : option bool; qt_retry : nat }.

Record sdq_state := {
  sq_closed : bool;
  sq_cache  : option nat;      (* t.c *)
  sq_call   : option nat;      (* t.dialingCall *)
  sq_conns  : list qconn;
  sq_calls  : list qcall;
  sq_tasks  : list qtask
}.

Definition sdq_init : sdq_state :=
  {| sq_closed := false; sq_cache := None; sq_call := None; sq_conns := []; sq_calls := []; sq_tasks := [] |}.

Inductive sdq_label :=
| SqSpawn
| SqGet (t : nat)
| SqDialOk (d : nat)
| SqDialFail (d : nat)
| SqFinish (d : nat)        (* the t.m critical section of runDialingCall *)
| SqNotify (d : nat)        (* after unlocking: close the late connection / publish, then close(call.done) *)
| SqWake (t : nat)
| SqIoOk (t : nat)
| SqIoClosed (t : nat)      (* OpenStream / stream I/O fails because the connection is closed *)
| SqIoPeerErr (t : nat)     (* a stream error while the connection lives *)
| SqPeerDead (c : nat)      (* the connection dies (peer, idle time-out) *)
| SqCancel (t : nat)
| SqClose.

Definition sdq_set_task (s : sdq_state) (t : nat) (x : qtask) : sdq_state :=
  {| sq_closed := sq_closed s; sq_cache := sq_cache s; sq_call := sq_call s; sq_conns := sq_conns s;
     sq_calls := sq_calls s; sq_tasks := upd (sq_tasks s) t x |}.
Definition sdq_set_call (s : sdq_state) (d : nat) (x : qcall) : sdq_state :=
  {| sq_closed := sq_closed s; sq_cache := sq_cache s; sq_call := sq_call s; sq_conns := sq_conns s;
     sq_calls := upd (sq_calls s) d x; sq_tasks := sq_tasks s |}.
Definition sdq_set_conn (s : sdq_state) (c : nat) (x : qconn) : sdq_state :=
  {| sq_closed := sq_closed s; sq_cache := sq_cache s; sq_call := sq_call s; sq_conns := upd (sq_conns s) c x;
     sq_calls := sq_calls s; sq_tasks := sq_tasks s |}.

Definition qwith_stage (k : qtask) (st : qstage) : qtask :=
  {| qt_stage := st; qt_res := qt_res k; qt_retry := qt_retry k |}.

Definition sdq_conn_open (s : sdq_state) (c : nat) : bool :=
  match nth_error (sq_conns s) c with Some k => qc_open k | None => false end.

(* exchangePayload after a failed exchangeConn: retry on a reused connection (retry < 5, ctx alive) *)
Definition sdq_io_fail (s : sdq_state) (t : nat) (k : qtask) (fresh : bool) : sdq_state :=
  match qt_res k with
  | None =>
      if negb fresh && (qt_retry k <? 5)
      then sdq_set_task s t {| qt_stage := QsStart; qt_res := None; qt_retry := S (qt_retry k) |}
      else sdq_set_task s t {| qt_stage := QsDone; qt_res := Some false; qt_retry := qt_retry k |}
  | Some _ => sdq_set_task s t (qwith_stage k QsDone)
  end.

Definition sdq_step (s : sdq_state) (l : sdq_label) : option sdq_state :=
  match l with
  | SqSpawn =>
      Some {| sq_closed := sq_closed s; sq_cache := sq_cache s; sq_call := sq_call s; sq_conns := sq_conns s;
              sq_calls := sq_calls s; sq_tasks := sq_tasks s ++ [{| qt_stage := QsStart; qt_res := None; qt_retry := 0 |}] |}
  | SqClose =>
      if sq_closed s then Some s
      else Some {| sq_closed := true; sq_cache := sq_cache s; sq_call := sq_call s;
                   sq_conns := match sq_cache s with
                               | Some c => upd (sq_conns s) c {| qc_open := false |}
                               | None => sq_conns s
                               end;
                   sq_calls := sq_calls s; sq_tasks := sq_tasks s |}
  | SqGet t =>
      match nth_error (sq_tasks s) t with
      | Some k =>
          match qt_stage k with
          | QsStart =>
              if sq_closed s
              then Some (sdq_set_task s t {| qt_stage := QsDone; qt_res := fail_res (qt_res k); qt_retry := qt_retry k |})
              else
                let alive := match sq_cache s with Some c => sdq_conn_open s c | None => false end in
                match sq_cache s, alive with
                | Some c, true => Some (sdq_set_task s t (qwith_stage k (QsHas c false)))
                | _, _ =>
                    (* t.c = nil (dead conn dropped); join the call in flight or start one *)
                    match sq_call s with
                    | Some d =>
                        Some {| sq_closed := false; sq_cache := None; sq_call := Some d; sq_conns := sq_conns s;
                                sq_calls := sq_calls s; sq_tasks := upd (sq_tasks s) t (qwith_stage k (QsWait d)) |}
                    | None =>
                        let d := length (sq_calls s) in
                        Some {| sq_closed := false; sq_cache := None; sq_call := Some d; sq_conns := sq_conns s;
                                sq_calls := sq_calls s ++ [{| qd_stage := QdDialing; qd_result := None |}];
                                sq_tasks := upd (sq_tasks s) t (qwith_stage k (QsWait d)) |}
                    end
                end
          | _ => None
          end
      | None => None
      end
  | SqDialOk d =>
      match nth_error (sq_calls s) d with
      | Some dd => match qd_stage dd with
                   | QdDialing => Some (sdq_set_call s d {| qd_stage := QdGot true; qd_result := qd_result dd |})
                   | _ => None
                   end
      | None => None
      end
  | SqDialFail d =>
      match nth_error (sq_calls s) d with
      | Some dd => match qd_stage dd with
                   | QdDialing => Some (sdq_set_call s d {| qd_stage := QdGot false; qd_result := qd_result dd |})
                   | _ => None
                   end
      | None => None
      end
  | SqFinish d =>
      match nth_error (sq_calls s) d with
      | Some dd =>
          match qd_stage dd with
          | QdGot ok =>
              if sq_closed s
              then Some {| sq_closed := true; sq_cache := sq_cache s; sq_call := None; sq_conns := sq_conns s;
                           sq_calls := upd (sq_calls s) d {| qd_stage := QdLate ok; qd_result := qd_result dd |};
                           sq_tasks := sq_tasks s |}
              else
                let c := length (sq_conns s) in
                Some {| sq_closed := false;
                        sq_cache := if ok then Some c else None;
                        sq_call := None;
                        sq_conns := if ok then sq_conns s ++ [{| qc_open := true |}] else sq_conns s;
                        sq_calls := upd (sq_calls s) d {| qd_stage := QdReady (if ok then Some c else None); qd_result := qd_result dd |};
                        sq_tasks := sq_tasks s |}
          | _ => None
          end
      | None => None
      end
  | SqNotify d =>
      match nth_error (sq_calls s) d with
      | Some dd =>
          match qd_stage dd with
          | QdLate ok =>
              (* c.CloseWithError(..) on the late connection, call.err = ErrClosedTransport, close(call.done) *)
              Some {| sq_closed := sq_closed s; sq_cache := sq_cache s; sq_call := sq_call s;
                      sq_conns := if ok then sq_conns s ++ [{| qc_open := false |}] else sq_conns s;
                      sq_calls := upd (sq_calls s) d {| qd_stage := QdEnd; qd_result := Some None |};
                      sq_tasks := sq_tasks s |}
          | QdReady r => Some (sdq_set_call s d {| qd_stage := QdEnd; qd_result := Some r |})
          | _ => None
          end
      | None => None
      end
  | SqWake t =>
      match nth_error (sq_tasks s) t with
      | Some k =>
          match qt_stage k with
          | QsWait d =>
              match nth_error (sq_calls s) d with
              | Some dd =>
                  match qd_result dd with
                  | Some (Some c) => Some (sdq_set_task s t (qwith_stage k (QsHas c true)))
                  | Some None => Some (sdq_set_task s t {| qt_stage := QsDone; qt_res := fail_res (qt_res k); qt_retry := qt_retry k |})
                  | None => None
                  end
              | None => None
              end
          | _ => None
          end
      | None => None
      end
  | SqIoOk t =>
      match nth_error (sq_tasks s) t with
      | Some k =>
          match qt_stage k with
          | QsHas c _ => if sdq_conn_open s c
                         then Some (sdq_set_task s t {| qt_stage := QsDone; qt_res := ok_res (qt_res k); qt_retry := qt_retry k |})
                         else None
          | _ => None
          end
      | None => None
      end
  | SqIoClosed t =>
      match nth_error (sq_tasks s) t with
      | Some k =>
          match qt_stage k with
          | QsHas c fresh => if sdq_conn_open s c then None else Some (sdq_io_fail s t k fresh)
          | _ => None
          end
      | None => None
      end
  | SqIoPeerErr t =>
      match nth_error (sq_tasks s) t with
      | Some k =>
          match qt_stage k with
          | QsHas c fresh => Some (sdq_io_fail s t k fresh)
          | _ => None
          end
      | None => None
      end
  | SqPeerDead c =>
      match nth_error (sq_conns s) c with
      | Some _ => Some (sdq_set_conn s c {| qc_open := false |})
      | None => None
      end
  | SqCancel t =>
      match nth_error (sq_tasks s) t with
      | Some k =>
          match qt_stage k with
          | QsStart => Some (sdq_set_task s t {| qt_stage := QsStart; qt_res := fail_res (qt_res k); qt_retry := qt_retry k |})
          | _ => Some (sdq_set_task s t {| qt_stage := QsDone; qt_res := fail_res (qt_res k); qt_retry := qt_retry k |})
          end
      | None => None
      end
  end.

Fixpoint sdq_run (s : sdq_state) (ls : list sdq_label) : option sdq_state :=
  match ls with
  | [] => Some s
  | l :: tl => match sdq_step s l with Some s' => sdq_run s' tl | None => None end
  end.

(* a call that holds a dialled connection which is in nobody's table yet *)
Definition qd_holds_raw (d : qcall) : bool :=
  match qd_stage d with QdGot true | QdLate true => true | _ => false end.

Definition sdq_open_count (s : sdq_state) : nat :=
  length (filter qc_open (sq_conns s)) + length (filter qd_holds_raw (sq_calls s)).

Definition sdq_result (s : sdq_state) (t : nat) : option bool :=
  match nth_error (sq_tasks s) t with Some k => qt_res k | None => None end.

(* the steps that complete call d, whatever its stage (dial failure = t.ctx cancelled by Close) *)
Definition sdq_complete_path (s : sdq_state) (d : nat) : list sdq_label :=
  match nth_error (sq_calls s) d with
  | Some dd =>
      match qd_stage dd with
      | QdDialing => [SqDialFail d; SqFinish d; SqNotify d]
      | QdGot _ => [SqFinish d; SqNotify d]
      | QdLate _ | QdReady _ => [SqNotify d]
      | QdEnd => []
      end
  | None => []
  end.

(* ---- big step ---- *)
Definition sdq_internal_task (s : sdq_state) (t : nat) (k : qtask) : option sdq_label :=
  match qt_stage k with
  | QsStart => Some (SqGet t)
  | QsWait d => match nth_error (sq_calls s) d with
                | Some dd => match qd_result dd with Some _ => Some (SqWake t) | None => None end
                | None => None
                end
  | QsHas c _ => if sdq_conn_open s c then None else Some (SqIoClosed t)
  | QsDone => None
  end.

Definition sdq_internal_call (honour : bool) (s : sdq_state) (d : nat) (dd : qcall) : option sdq_label :=
  match qd_stage dd with
  | QdDialing => if honour && sq_closed s then Some (SqDialFail d) else None
  | QdGot _ => Some (SqFinish d)
  | QdLate _ | QdReady _ => Some (SqNotify d)
  | QdEnd => None
  end.

Fixpoint sdq_first_task (s : sdq_state) (ts : list qtask) (off : nat) : option sdq_label :=
  match ts with
  | [] => None
  | k :: tl => match sdq_internal_task s off k with Some l => Some l | None => sdq_first_task s tl (S off) end
  end.
Fixpoint sdq_first_call (honour : bool) (s : sdq_state) (ds : list qcall) (off : nat) : option sdq_label :=
  match ds with
  | [] => None
  | d :: tl => match sdq_internal_call honour s off d with Some l => Some l | None => sdq_first_call honour s tl (S off) end
  end.
Definition sdq_first_internal (honour : bool) (s : sdq_state) : option sdq_label :=
  match sdq_first_call honour s (sq_calls s) 0 with
  | Some l => Some l
  | None => sdq_first_task s (sq_tasks s) 0
  end.

Fixpoint sdq_quiesce (honour : bool) (fuel : nat) (s : sdq_state) : sdq_state :=
  match fuel with
  | O => s
  | S f => match sdq_first_internal honour s with
           | Some l => match sdq_step s l with Some s' => sdq_quiesce honour f s' | None => s end
           | None => s
           end
  end.

Fixpoint sdq_open_indices (l : list qconn) (off : nat) : list nat :=
  match l with
  | [] => []
  | k :: tl => (if qc_open k then [off] else []) ++ sdq_open_indices tl (S off)
  end.

Definition sdq_conn_of (s : sdq_state) (t : nat) : option nat :=
  match nth_error (sq_tasks s) t with
  | Some k => match qt_stage k with QsHas c _ => Some c | _ => None end
  | None => None
  end.

Definition sdq_ext_labels (s : sdq_state) (e : xev) : option (list sdq_label) :=
  match e with
  | XSpawn => Some [SqSpawn]
  | XDialOk d => Some [SqDialOk d]
  | XDialFail d => Some [SqDialFail d]
  | XReply t => Some [SqIoOk t]
  | XPeerErr t => match sdq_conn_of s t with Some c => Some [SqPeerDead c] | None => None end
  | XCancel t => Some [SqCancel t]
  | XIdle => Some (map SqPeerDead (sdq_open_indices (sq_conns s) 0))
  | XClose => Some [SqClose]
  end.

Definition sdq_big (honour : bool) (s : sdq_state) (e : xev) : option sdq_state :=
  match sdq_ext_labels s e with
  | Some ls => match sdq_run s ls with
               | Some s1 => Some (sdq_quiesce honour big_fuel s1)
               | None => None
               end
  | None => None
  end.

Definition sdq_quiet (honour : bool) (s : sdq_state) : bool :=
  match sdq_first_internal honour s with None => true | Some _ => false end.
