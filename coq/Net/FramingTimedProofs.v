(* Net/FramingTimedProofs.v — proofs about Net/FramingTimed.v (C13: the idle deadline never cuts a paced stream). Qed only. *)
From Mos Require Import Base.Prelude Codec.Msg Net.Framing Net.FramingProofs Net.FramingTimed.

(* ------------------------------------------------------------------ sums of gaps *)
Lemma sum_cons x l : list_sum (x :: l) = x + list_sum l.
Proof. reflexivity. Qed.

Lemma sum_rep0 n : list_sum (repeat 0 n) = 0.
Proof. induction n; cbn; auto. Qed.

Lemma firstn_rep0 k m (l : list nat) : m <= k -> firstn k (repeat 0 m ++ l) = repeat 0 m ++ firstn (k - m) l.
Proof.
  intros H. rewrite firstn_app, repeat_length. rewrite firstn_all2 by (rewrite repeat_length; lia). reflexivity.
Qed.

Lemma sum_firstn_rep0 k m l : m <= k -> list_sum (firstn k (repeat 0 m ++ l)) = list_sum (firstn (k - m) l).
Proof. intros H. rewrite firstn_rep0 by exact H. now rewrite list_sum_app, sum_rep0. Qed.

Lemma skipn_rep0 k m (l : list nat) : m <= k -> skipn k (repeat 0 m ++ l) = skipn (k - m) l.
Proof.
  intros H. rewrite skipn_app, repeat_length. rewrite skipn_all2 by (rewrite repeat_length; lia). reflexivity.
Qed.

Lemma firstn_add {A} a b (l : list A) : firstn (a + b) l = firstn a l ++ firstn b (skipn a l).
Proof.
  revert l. induction a as [|a IH]; intros l; [reflexivity|].
  destruct l as [|x l]; cbn [Nat.add firstn skipn]; [now rewrite firstn_nil|]. now rewrite IH.
Qed.

Lemma sum_firstn_add a b l : list_sum (firstn (a + b) l) = list_sum (firstn a l) + list_sum (firstn b (skipn a l)).
Proof. now rewrite firstn_add, list_sum_app. Qed.

Lemma skipn_add {A} a b (l : list A) : skipn (a + b) l = skipn b (skipn a l).
Proof.
  revert l. induction a as [|a IH]; intros l; [reflexivity|].
  destruct l as [|x l]; cbn [Nat.add skipn]; [now rewrite skipn_nil|]. apply IH.
Qed.

Lemma elem_le_sum l : Forall (fun g => g <= list_sum l) l.
Proof.
  induction l as [|x l IH]; [constructor|].
  change (list_sum (x :: l)) with (x + list_sum l). constructor; [lia|].
  eapply Forall_impl; [|exact IH]. intros a Ha. cbn beta in *. lia.
Qed.

(* ------------------------------------------------------------------ the views of a reader state *)
Definition ft_nonempty (segs : list ft_seg) : Prop := Forall (fun ts : ft_seg => snd ts <> []) segs.
Definition ft_og (br : list N) (segs : list ft_seg) : list nat := repeat 0 (length br) ++ ft_ogaps segs.
Definition ft_oc (br : list N) (segs : list ft_seg) : list N := br ++ ft_octets segs.

Lemma ft_octets_cons g s r : ft_octets ((g, s) :: r) = s ++ ft_octets r.
Proof. reflexivity. Qed.

Lemma ft_ogaps_len segs : length (ft_ogaps segs) = length (ft_octets segs).
Proof.
  induction segs as [|[g s] r IH]; [reflexivity|]. rewrite ft_octets_cons, app_length. cbn [ft_ogaps].
  destruct s as [|x s']; [exact IH|]. cbn [length]. rewrite app_length, repeat_length, IH. reflexivity.
Qed.

Lemma ft_og_len br segs : length (ft_og br segs) = length (ft_oc br segs).
Proof. unfold ft_og, ft_oc. now rewrite !app_length, repeat_length, ft_ogaps_len. Qed.

Lemma ft_nonempty_nil segs : ft_nonempty segs -> ft_octets segs = [] -> segs = [].
Proof.
  destruct segs as [|[g s] r]; [reflexivity|]. intros H E. inversion H as [|? ? Hs _]; subst. cbn [snd] in Hs.
  rewrite ft_octets_cons in E. destruct s; [congruence|discriminate].
Qed.

Section TimedTcp.
  Variable ok : list N -> bool.
  Variable cap : nat.
  Variable idle : nat.
  Hypothesis cap_pos : 1 <= cap.

  Lemma ft_conn_read_ok n now dl g s r : 1 <= n -> s <> [] -> ft_nonempty r -> now + g < dl ->
    exists d segs', ft_conn_read n now dl ((g, s) :: r) = FtcData d (now + g) segs' /\
      d ++ ft_octets segs' = ft_octets ((g, s) :: r) /\ 1 <= length d /\ length d <= n /\
      ft_ogaps ((g, s) :: r) = g :: repeat 0 (length d - 1) ++ ft_ogaps segs' /\ ft_nonempty segs'.
  Proof.
    intros Hn Hs Hr Hd. cbn [ft_conn_read].
    assert ((dl <=? now + g) = false) as -> by (apply Nat.leb_gt; lia).
    destruct s as [|x s']; [congruence|].
    destruct (length (x :: s') <=? n) eqn:E.
    - apply Nat.leb_le in E. exists (x :: s'), r. repeat split; auto.
      + cbn [length]; lia.
      + cbn [ft_ogaps length]. now replace (S (length s') - 1) with (length s') by lia.
    - apply Nat.leb_gt in E. exists (firstn n (x :: s')), ((0, skipn n (x :: s')) :: r).
      assert (length (firstn n (x :: s')) = n) as Hl by (rewrite firstn_length; lia).
      assert (length (skipn n (x :: s')) = length (x :: s') - n) as Hk by apply skipn_length.
      repeat split.
      + rewrite !ft_octets_cons. now rewrite app_assoc, firstn_skipn.
      + lia.
      + lia.
      + rewrite Hl. cbn [ft_ogaps]. destruct (skipn n (x :: s')) as [|y t] eqn:Ek; [cbn [length] in Hk, E; lia|].
        cbn [length] in *. f_equal.
        replace (length s') with ((n - 1) + S (length t)) by lia. rewrite repeat_app. cbn [repeat].
        now rewrite <- app_assoc.
      + constructor; [|exact Hr]. cbn [snd]. intros C. rewrite C in Hk. cbn [length] in Hk, E. lia.
  Qed.

  Lemma ft_br_read_ok n br now dl segs g0 ogt : 1 <= n -> ft_nonempty segs ->
    ft_og br segs = g0 :: ogt -> now + g0 < dl ->
    exists d br' segs', ft_br_read cap n br now dl segs = FtbData d br' (now + g0) segs' /\
      d ++ ft_oc br' segs' = ft_oc br segs /\ 1 <= length d /\ length d <= n /\
      ogt = repeat 0 (length d - 1) ++ ft_og br' segs' /\ ft_nonempty segs'.
  Proof.
    intros Hn Hne Eo Hd. unfold ft_br_read, ft_og, ft_oc in *. destruct br as [|x b].
    - cbn [length repeat app] in Eo. destruct segs as [|[g s] r]; [discriminate|].
      inversion Hne as [|? ? Hs Hr]; subst. cbn [snd] in Hs.
      assert (g = g0) as ->.
      { cbn [ft_ogaps] in Eo. destruct s; [congruence|]. now inversion Eo. }
      destruct (cap <=? n).
      + destruct (ft_conn_read_ok n now dl g0 s r Hn Hs Hr Hd) as [d [segs' [E1 [E2 [E3 [E4 [E5 E6]]]]]]].
        exists d, [], segs'. rewrite E1. cbn [app length repeat]. repeat split; auto.
        rewrite E5 in Eo. now inversion Eo.
      + destruct (ft_conn_read_ok cap now dl g0 s r cap_pos Hs Hr Hd) as [d [segs' [E1 [E2 [E3 [E4 [E5 E6]]]]]]].
        exists (firstn n d), (skipn n d), segs'. rewrite E1.
        assert (length (skipn n d) = length d - n) as Hk by apply skipn_length.
        repeat split; auto.
        * cbn [app]. rewrite <- E2. now rewrite app_assoc, firstn_skipn.
        * rewrite firstn_length. lia.
        * rewrite firstn_length. lia.
        * rewrite E5 in Eo. inversion Eo; subst. rewrite firstn_length, Hk.
          rewrite app_assoc, <- repeat_app. do 2 f_equal. lia.
    - cbn [length repeat app] in Eo. inversion Eo; subst. rewrite Nat.add_0_r.
      exists (firstn n (x :: b)), (skipn n (x :: b)), segs.
      assert (length (skipn n (x :: b)) = length (x :: b) - n) as Hk by apply skipn_length.
      cbn [length] in Hk. repeat split; auto.
      + now rewrite app_assoc, firstn_skipn.
      + rewrite firstn_length. cbn [length]. lia.
      + rewrite firstn_length. lia.
      + rewrite firstn_length, Hk. cbn [length]. rewrite app_assoc, <- repeat_app. do 2 f_equal. lia.
  Qed.

  Lemma ft_read_full_ok fuel : forall want br now dl segs acc, want <= fuel -> ft_nonempty segs ->
    want <= length (ft_oc br segs) -> now + list_sum (firstn want (ft_og br segs)) < dl ->
    exists br' segs',
      ft_read_full cap fuel want br now dl segs acc =
        FtfOk (acc ++ firstn want (ft_oc br segs)) br' (now + list_sum (firstn want (ft_og br segs))) segs' /\
      ft_oc br' segs' = skipn want (ft_oc br segs) /\ ft_og br' segs' = skipn want (ft_og br segs) /\
      ft_nonempty segs'.
  Proof.
    induction fuel as [|f IH]; intros want br now dl segs acc Hw Hne Hl Hd.
    - assert (want = 0) as -> by lia. cbn. exists br, segs. now rewrite app_nil_r, Nat.add_0_r.
    - destruct want as [|w].
      + cbn. exists br, segs. now rewrite app_nil_r, Nat.add_0_r.
      + cbn [ft_read_full].
        destruct (ft_og br segs) as [|g0 ogt] eqn:Eo.
        { pose proof (ft_og_len br segs) as Hx. rewrite Eo in Hx. cbn [length] in Hx. lia. }
        cbn [firstn] in Hd. rewrite sum_cons in Hd.
        destruct (ft_br_read_ok (S w) br now dl segs g0 ogt ltac:(lia) Hne Eo ltac:(lia))
          as [d [br' [segs' [E1 [E2 [E3 [E4 [E5 E6]]]]]]]].
        rewrite E1. subst ogt.
        rewrite sum_firstn_rep0 in Hd by lia.
        replace (w - (length d - 1)) with (S w - length d) in Hd by lia.
        assert (length (ft_oc br segs) = length d + length (ft_oc br' segs')) as Hlen by (rewrite <- E2; apply app_length).
        destruct (IH (S w - length d) br' (now + g0) dl segs' (acc ++ d) ltac:(lia) E6 ltac:(lia) ltac:(lia))
          as [br2 [segs2 [R1 [R2 [R3 R4]]]]].
        exists br2, segs2. rewrite R1, R2, R3, <- E2. repeat split; auto.
        * f_equal.
          -- rewrite <- app_assoc. f_equal.
             rewrite (firstn_app (S w) d (ft_oc br' segs')). rewrite (firstn_all2 (n:=S w) d) by lia. reflexivity.
          -- cbn [firstn]. rewrite sum_cons, sum_firstn_rep0 by lia.
             replace (w - (length d - 1)) with (S w - length d) by lia. lia.
        * rewrite (skipn_app (S w) d (ft_oc br' segs')). rewrite (skipn_all2 (n:=S w) d) by lia. reflexivity.
        * cbn [skipn]. rewrite skipn_rep0 by lia. f_equal. lia.
  Qed.

  Lemma ft_read_full_short fuel want now dl acc : 1 <= want -> want <= fuel ->
    ft_read_full cap fuel want [] now dl [] acc = FtfShort.
  Proof.
    intros H1 H2. destruct want as [|w]; [lia|]. destruct fuel as [|f]; [lia|].
    cbn [ft_read_full]. unfold ft_br_read. destruct (cap <=? S w); reflexivity.
  Qed.

  (* decode-once under the per-message deadline: invariant
       br ++ octets segs = stream of the frames not yet delivered   and   the pacing hypothesis on what is still to come,
     the octets of br counting as already arrived (gap 0) *)
  Lemma ft_tcp_conn_frames : forall frames fuel br now dl0 segs,
    Forall fits frames -> ft_nonempty segs -> ft_oc br segs = stream_of frames ->
    length (stream_of frames) < fuel -> ft_paced idle (ft_sizes frames) (ft_og br segs) = true ->
    ft_tcp_conn ok cap idle FtEveryMsg fuel br now dl0 segs = Ok (ft_lift (rd_expect ok frames)).
  Proof.
    induction frames as [|f r IH]; intros fuel br now dl0 segs Hf Hne E Hl Hp.
    - destruct fuel as [|fu]; [lia|]. cbn [ft_tcp_conn].
      cbn in E. unfold ft_oc in E. apply app_eq_nil in E. destruct E as [-> E2].
      rewrite (ft_nonempty_nil segs Hne E2). rewrite ft_read_full_short by lia. reflexivity.
    - destruct fuel as [|fu]; [lia|]. cbn [ft_tcp_conn]. unfold ft_arm.
      inversion Hf as [|? ? Hff Hfr]; subst.
      destruct (unit_hd f Hff) as [a [b [Eu El]]].
      rewrite stream_cons, Eu in E. rewrite stream_cons, app_length, unit_len in Hl.
      cbn [ft_sizes map ft_paced] in Hp. apply andb_true_iff in Hp. destruct Hp as [Hp1 Hp2].
      apply Nat.ltb_lt in Hp1. rewrite sum_firstn_add in Hp1.
      remember (list_sum (firstn 2 (ft_og br segs))) as s2 eqn:Es2.
      destruct (ft_read_full_ok 2 2 br now (now + idle) segs [] (le_n _) Hne) as [br1 [segs1 [R1 [R2 [R3 R4]]]]].
      { rewrite E. cbn [length app]. lia. }
      { lia. }
      rewrite <- Es2 in R1. rewrite R1, E. cbn [firstn app]. unfold u16_hd. cbn [nth]. rewrite E in R2. cbn [skipn app] in R2.
      rewrite El.
      destruct (ft_read_full_ok (length f) (length f) br1 (now + s2) (now + idle) segs1 []
                  (le_n _) R4) as [br2 [segs2 [S1 [S2 [S3 S4]]]]].
      { rewrite R2, app_length. lia. }
      { rewrite R3. lia. }
      rewrite S1, R2. cbn [app]. rewrite firstn_exact. rewrite R2, skipn_exact in S2.
      cbn [rd_expect]. destruct (ok f) eqn:Eok.
      + rewrite (IH fu br2 _ (now + idle) segs2 Hfr S4 S2 ltac:(lia)).
        * cbn. destruct (rd_expect ok r) as [fs st]. reflexivity.
        * rewrite S3, R3, <- skipn_add. exact Hp2.
      + reflexivity.
  Qed.

  Theorem ft_tcp_paced frames segs :
    Forall fits frames -> ft_nonempty segs -> ft_octets segs = stream_of frames ->
    ft_paced idle (ft_sizes frames) (ft_ogaps segs) = true ->
    ft_tcp_run ok cap idle FtEveryMsg segs = Ok (ft_lift (rd_expect ok frames)).
  Proof.
    unfold ft_tcp_run. intros Hf Hne E Hp. apply ft_tcp_conn_frames; auto.
    rewrite E. lia.
  Qed.
End TimedTcp.

(* ------------------------------------------------------------------ gnet: the per-event timer *)
Section TimedGnet.
  Variable ok : list N -> bool.
  Variable idle : nat.

  Lemma ft_gnet_feed_eq : forall segs st inb, ft_nonempty segs -> ft_gaps_below idle segs = true ->
    ft_gnet_feed ok idle st inb 0 segs =
    match gnet_feed ok st inb (map snd segs) with
    | Ok (fs, s, _) => Ok (ft_lift (fs, s)) | Err e => Err e | Panic => Panic | OutOfFuel => OutOfFuel
    end.
  Proof.
    induction segs as [|[g s] r IH]; intros st inb Hne Hg; [reflexivity|].
    inversion Hne as [|? ? Hs Hr]; subst. cbn [snd] in Hs.
    cbn [ft_gaps_below forallb fst] in Hg. apply andb_true_iff in Hg. destruct Hg as [Hg1 Hg2]. apply Nat.ltb_lt in Hg1.
    cbn [ft_gnet_feed map snd gnet_feed]. cbn [Nat.add].
    assert ((idle <=? g) = false) as -> by (apply Nat.leb_gt; lia).
    destruct s as [|x s']; [congruence|].
    destruct (on_traffic ok (S (length (inb ++ x :: s'))) st (inb ++ x :: s')) as [[[[fs st'] inb'] a]|e| |]; cbn [bind]; auto.
    destruct a; [|reflexivity].
    rewrite (IH st' inb' Hr Hg2).
    destruct (gnet_feed ok st' inb' (map snd r)) as [[[fs2 s2] tr]|e| |]; cbn [bind]; auto.
  Qed.

  Theorem ft_gnet_untimed segs : ft_nonempty segs -> ft_gaps_below idle segs = true ->
    ft_gnet_run ok idle segs = ft_lift_res (gnet_run ok (map snd segs)).
  Proof.
    intros Hne Hg. unfold ft_gnet_run, gnet_run. rewrite (ft_gnet_feed_eq segs g_init [] Hne Hg).
    destruct (gnet_feed ok g_init [] (map snd segs)) as [[[fs s] tr]|e| |]; reflexivity.
  Qed.

  Theorem ft_gnet_paced frames segs :
    Forall good frames -> ft_nonempty segs -> ft_octets segs = stream_of frames -> ft_gaps_below idle segs = true ->
    ft_gnet_run ok idle segs = Ok (ft_lift (rd_expect ok frames)).
  Proof.
    intros Hf Hne E Hg. rewrite (ft_gnet_untimed segs Hne Hg).
    rewrite (gnet_decode_once ok frames (map snd segs) Hf E). reflexivity.
  Qed.
End TimedGnet.

(* ------------------------------------------------------------------ the per-message pacing implies the per-event one *)
Lemma ft_paced_all idle : forall sizes og, ft_paced idle sizes og = true -> length og <= list_sum sizes ->
  Forall (fun g => g < idle) og.
Proof.
  induction sizes as [|sz r IH]; intros og Hp Hl.
  - cbn in Hl. destruct og; [constructor|cbn in Hl; lia].
  - cbn [ft_paced] in Hp. apply andb_true_iff in Hp. destruct Hp as [H1 H2]. apply Nat.ltb_lt in H1.
    rewrite <- (firstn_skipn sz og). apply Forall_app. split.
    + eapply Forall_impl; [|apply elem_le_sum]. intros a Ha. cbn beta in Ha. lia.
    + apply IH; [exact H2|]. rewrite skipn_length. rewrite sum_cons in Hl. lia.
Qed.

Lemma ft_gaps_of_og idle : forall segs, ft_nonempty segs -> Forall (fun g => g < idle) (ft_ogaps segs) ->
  ft_gaps_below idle segs = true.
Proof.
  induction segs as [|[g s] r IH]; intros Hne Ho; [reflexivity|].
  inversion Hne as [|? ? Hs Hr]; subst. cbn [snd] in Hs. destruct s as [|x s']; [congruence|].
  cbn [ft_ogaps] in Ho. inversion Ho as [|? ? Hg Ho2]; subst. apply Forall_app in Ho2. destruct Ho2 as [_ Ho3].
  cbn [ft_gaps_below forallb fst]. apply andb_true_iff. split; [now apply Nat.ltb_lt|]. now apply IH.
Qed.

Lemma ft_sizes_sum frames : list_sum (ft_sizes frames) = length (stream_of frames).
Proof.
  induction frames as [|f r IH]; [reflexivity|]. rewrite stream_cons, app_length, unit_len. cbn [ft_sizes map]. rewrite sum_cons.
  unfold ft_sizes in IH. rewrite IH. reflexivity.
Qed.

Theorem ft_paced_gaps idle frames segs :
  ft_nonempty segs -> ft_octets segs = stream_of frames ->
  ft_paced idle (ft_sizes frames) (ft_ogaps segs) = true -> ft_gaps_below idle segs = true.
Proof.
  intros Hne E Hp. apply ft_gaps_of_og; [exact Hne|]. eapply ft_paced_all; [exact Hp|].
  rewrite ft_ogaps_len, E, ft_sizes_sum. lia.
Qed.
