(* Net/ShutdownOwnProofs.v — proofs about the composite upstream of Net/ShutdownOwn.v (C18). *)
From Mos Require Import Base.Prelude Net.Shutdown Net.ShutdownProofs Net.ShutdownOwn.

(* =====================================================================================================
   closing one part
   ===================================================================================================== *)
Lemma uo_comp_close_closed c : uo_comp_closed (uo_comp_close c) = true.
Proof.
  destruct c as [s|s|s|l]; unfold uo_comp_close.
  - destruct (r_close_total s) as (s' & H1 & H2). rewrite H1. exact H2.
  - destruct (sdp_close_total s) as (s' & H1 & H2). rewrite H1. exact H2.
  - destruct (sdq_close_total s) as (s' & H1 & H2). rewrite H1. exact H2.
  - unfold uo_lib_close. cbn. destruct (ul_closed l) eqn:E; cbn; auto.
Qed.

(* Close of a closed part changes nothing *)
Lemma uo_comp_close_fix c : uo_comp_closed c = true -> uo_comp_close c = c.
Proof.
  destruct c as [s|s|s|l]; cbn; intros H; try rewrite H; try reflexivity.
  unfold uo_lib_close. now rewrite H.
Qed.

Lemma uo_comp_close_idem c : uo_comp_close (uo_comp_close c) = uo_comp_close c.
Proof. apply uo_comp_close_fix. apply uo_comp_close_closed. Qed.

Definition uo_slot_closed (x : uo_slot) : Prop := uo_comp_closed (us_comp x) = true.

Lemma uo_slot_close_closed x : uo_slot_closed (uo_slot_close x).
Proof. unfold uo_slot_closed, uo_slot_close. cbn. apply uo_comp_close_closed. Qed.

Lemma uo_slot_close_eff x :
  us_eff (uo_slot_close x) = if uo_comp_closed (us_comp x) then us_eff x else S (us_eff x).
Proof. reflexivity. Qed.

Lemma uo_slot_close_fix x :
  uo_slot_closed x -> us_comp (uo_slot_close x) = us_comp x /\ us_eff (uo_slot_close x) = us_eff x.
Proof.
  unfold uo_slot_closed. intros H. split; cbn; [now apply uo_comp_close_fix|now rewrite H].
Qed.

(* =====================================================================================================
   close programs
   ===================================================================================================== *)
Lemma uo_close_at_length s i : length (uo_close_at s i) = length s.
Proof. unfold uo_close_at. destruct (nth_error s i); [apply upd_length|reflexivity]. Qed.

Lemma uo_close_with_length prog : forall s, length (uo_close_with prog s) = length s.
Proof.
  induction prog as [|i tl IH]; intros s; cbn; [reflexivity|].
  unfold uo_close_with in IH. rewrite IH. apply uo_close_at_length.
Qed.

Lemma uo_close_at_same s i x : nth_error s i = Some x -> nth_error (uo_close_at s i) i = Some (uo_slot_close x).
Proof.
  intros H. unfold uo_close_at. rewrite H. apply nth_error_upd_eq. eapply nth_error_some_lt; eauto.
Qed.

Lemma uo_close_at_other s i j : i <> j -> nth_error (uo_close_at s i) j = nth_error s j.
Proof.
  intros H. unfold uo_close_at. destruct (nth_error s i); [now apply nth_error_upd_neq|reflexivity].
Qed.

(* what a close program does to the part at index j: named -> closed (one more effective close iff it was
   open), not named -> untouched *)
Lemma uo_close_with_spec prog : forall s j x,
  nth_error s j = Some x ->
  exists x', nth_error (uo_close_with prog s) j = Some x' /\
    (In j prog -> uo_slot_closed x' /\
                  us_eff x' = if uo_comp_closed (us_comp x) then us_eff x else S (us_eff x)) /\
    (~ In j prog -> x' = x).
Proof.
  induction prog as [|i tl IH]; intros s j x Hx.
  - exists x. cbn. split; [exact Hx|]. split; [intros []|auto].
  - cbn [uo_close_with fold_left]. fold (uo_close_with tl (uo_close_at s i)).
    destruct (Nat.eq_dec i j) as [->|Ne].
    + pose proof (uo_close_at_same _ _ _ Hx) as H1.
      destruct (IH _ _ _ H1) as (x' & E' & Hin & Hout). exists x'. split; [exact E'|]. split.
      * intros _. destruct (in_dec Nat.eq_dec j tl) as [I|NI].
        -- destruct (Hin I) as [C Ef]. split; [exact C|]. rewrite Ef.
           pose proof (uo_slot_close_closed x) as Cx. unfold uo_slot_closed in Cx. rewrite Cx.
           apply uo_slot_close_eff.
        -- rewrite (Hout NI). split; [apply uo_slot_close_closed|apply uo_slot_close_eff].
      * intros NI. exfalso. apply NI. now left.
    + assert (nth_error (uo_close_at s i) j = Some x) as H1 by (rewrite uo_close_at_other; auto).
      destruct (IH _ _ _ H1) as (x' & E' & Hin & Hout). exists x'. split; [exact E'|]. split.
      * intros [->|I]; [congruence|auto].
      * intros NI. apply Hout. intros I. apply NI. now right.
Qed.

(* a part is closed after a close program iff the program names it or it was closed before: a Close that
   does not name an owned part leaves it open *)
Lemma uo_close_with_exact prog s j x x' :
  nth_error s j = Some x -> nth_error (uo_close_with prog s) j = Some x' ->
  (uo_slot_closed x' <-> In j prog \/ uo_slot_closed x).
Proof.
  intros Hx Hx'. destruct (uo_close_with_spec prog s j x Hx) as (y & Ey & Hin & Hout).
  rewrite Hx' in Ey. inversion Ey; subst y. split.
  - intros C. destruct (in_dec Nat.eq_dec j prog) as [I|NI]; [now left|]. right. now rewrite <- (Hout NI).
  - intros [I|C]; [now apply Hin|].
    destruct (in_dec Nat.eq_dec j prog) as [I|NI]; [now apply Hin|]. now rewrite (Hout NI).
Qed.

(* the close program of every kind names every owned part *)
Definition uo_prog_covers (k : ukind) : bool :=
  forallb (fun j => existsb (Nat.eqb j) (uo_close_prog k)) (seq 0 (length (uo_owned k))).

Lemma uo_prog_covers_all k : uo_prog_covers k = true.
Proof. destruct k; reflexivity. Qed.

Lemma uo_prog_covers_in k j : j < length (uo_owned k) -> In j (uo_close_prog k).
Proof.
  intros H. pose proof (uo_prog_covers_all k) as C. unfold uo_prog_covers in C.
  rewrite forallb_forall in C. specialize (C j). rewrite existsb_exists in C.
  destruct C as (i & Hi & E); [apply in_seq; lia|]. apply Nat.eqb_eq in E. now subst.
Qed.

Lemma uo_prog_nodup k : NoDup (uo_close_prog k).
Proof. destruct k; cbn; repeat constructor; cbn; intuition congruence. Qed.

(* ---- Close closes every owned part ---- *)
Lemma uo_close_all_closed k s :
  length s = length (uo_owned k) -> Forall uo_slot_closed (uo_close k s).
Proof.
  intros L. apply Forall_forall. intros x' Hin. apply In_nth_error in Hin. destruct Hin as [j Ej].
  assert (j < length s) as Lt.
  { apply nth_error_some_lt in Ej. unfold uo_close in Ej. now rewrite uo_close_with_length in Ej. }
  destruct (nth_error s j) as [x|] eqn:Ex; [|apply nth_error_None in Ex; lia].
  unfold uo_close in Ej. apply (uo_close_with_exact _ _ _ _ _ Ex Ej). left. apply uo_prog_covers_in. lia.
Qed.

(* ---- Close is idempotent: closing closed parts changes neither a part nor its effective-close count ---- *)
Lemma uo_close_with_closed_fix prog : forall s,
  Forall uo_slot_closed s ->
  map us_comp (uo_close_with prog s) = map us_comp s /\ map us_eff (uo_close_with prog s) = map us_eff s /\
  Forall uo_slot_closed (uo_close_with prog s).
Proof.
  induction prog as [|i tl IH]; intros s F; [cbn; auto|].
  cbn [uo_close_with fold_left]. fold (uo_close_with tl (uo_close_at s i)).
  assert (map us_comp (uo_close_at s i) = map us_comp s /\ map us_eff (uo_close_at s i) = map us_eff s /\
          Forall uo_slot_closed (uo_close_at s i)) as (A & B & C).
  { unfold uo_close_at. destruct (nth_error s i) as [x|] eqn:Ex; [|auto].
    pose proof (Forall_nth_error _ _ _ _ F Ex) as Cx. destruct (uo_slot_close_fix x Cx) as [E1 E2].
    assert (forall {B} (f : uo_slot -> B), f (uo_slot_close x) = f x -> map f (upd s i (uo_slot_close x)) = map f s) as M.
    { intros B0 f Ef. clear - Ex Ef. revert i Ex. induction s as [|y s IHs]; intros [|i] Ex; cbn in *; try discriminate.
      - inversion Ex; subst. now rewrite Ef.
      - f_equal. now apply IHs. }
    split; [now apply M|]. split; [now apply M|]. apply Forall_upd; [exact F|apply uo_slot_close_closed]. }
  destruct (IH _ C) as (A' & B' & C'). split; [congruence|]. split; [congruence|exact C'].
Qed.

Lemma uo_close_idempotent k s :
  length s = length (uo_owned k) ->
  map us_comp (uo_close k (uo_close k s)) = map us_comp (uo_close k s) /\
  map us_eff (uo_close k (uo_close k s)) = map us_eff (uo_close k s).
Proof.
  intros L. pose proof (uo_close_all_closed k s L) as F.
  destruct (uo_close_with_closed_fix (uo_close_prog k) _ F) as (A & B & _). split; [exact A|exact B].
Qed.

(* =====================================================================================================
   the composite transition system: non-Close steps of a part never change its closed flag
   ===================================================================================================== *)
Lemma r_step_noclose_closed s l s' :
  r_is_close l = false -> r_step s l = Some s' -> rs_closed s' = rs_closed s.
Proof.
  intros Nc Hs. destruct l; cbn in Nc; try discriminate; cbn in Hs; destr Hs; inversion Hs; subst; cbn;
    rewrite ?r_io_fail_closed; auto.
Qed.

Lemma sdp_trim_closed trim s s' : sdp_trim s trim = Some s' -> ps_closed s' = ps_closed s.
Proof. intros H. now destruct (sdp_trim_dials _ _ _ H). Qed.

Lemma sdp_io_fail_closed s t k c f : ps_closed (sdp_io_fail s t k c f) = ps_closed s.
Proof. now destruct (sdp_io_fail_dials s t k c f). Qed.

Lemma sdp_step_noclose_closed s l s' :
  sdp_is_close l = false -> sdp_step s l = Some s' -> ps_closed s' = ps_closed s.
Proof.
  intros Nc Hs. destruct l; cbn in Nc; try discriminate; cbn in Hs; destr Hs; inversion Hs; subst; cbn;
    rewrite ?sdp_io_fail_closed; auto;
    try (match goal with H : sdp_trim _ _ = Some _ |- _ => apply sdp_trim_closed in H; cbn in H; auto end).
  all: try (destruct ok; reflexivity).
  destruct kill; cbn; now rewrite sdp_io_fail_closed.
Qed.

Lemma sdq_io_fail_closed s t k f : sq_closed (sdq_io_fail s t k f) = sq_closed s.
Proof. unfold sdq_io_fail. destruct (qt_res k); [|destruct (_ && _)]; reflexivity. Qed.

Lemma sdq_step_noclose_closed s l s' :
  sdq_is_close l = false -> sdq_step s l = Some s' -> sq_closed s' = sq_closed s.
Proof.
  intros Nc Hs. destruct l; cbn in Nc; try discriminate; cbn in Hs; destr Hs; inversion Hs; subst; cbn;
    rewrite ?sdq_io_fail_closed; auto.
Qed.

Lemma uo_lib_step_closed l lab l' : uo_lib_step l lab = Some l' -> ul_closed l' = ul_closed l.
Proof.
  destruct lab; cbn; try discriminate.
  - destruct (ul_closed l) eqn:E; intros H; inversion H; subst; cbn; auto.
  - destruct (ul_idle l); intros H; inversion H; reflexivity.
  - destruct (ul_busy l); intros H; inversion H; reflexivity.
  - destruct busy; [destruct (ul_busy l)|destruct (ul_idle l)]; intros H; inversion H; reflexivity.
Qed.

Lemma uo_part_step_closed c lab c' : uo_part_step c lab = Some c' -> uo_comp_closed c' = uo_comp_closed c.
Proof.
  destruct lab, c; cbn [uo_part_step]; try discriminate; intros H; destr H; inversion H; subst; cbn [uo_comp_closed].
  - eapply r_step_noclose_closed; eauto.
  - eapply sdp_step_noclose_closed; eauto.
  - eapply sdq_step_noclose_closed; eauto.
  - eapply uo_lib_step_closed; eauto.
  - eapply uo_lib_step_closed; eauto.
  - eapply uo_lib_step_closed; eauto.
  - eapply uo_lib_step_closed; eauto.
Qed.

(* ---- every owned part is closed exactly once ---- *)
Definition uo_slot_inv (b : bool) (x : uo_slot) : Prop :=
  uo_comp_closed (us_comp x) = b /\ us_eff x = if b then 1 else 0.

Definition UoInv (k : ukind) (b : bool) (s : uo_state) : Prop :=
  length s = length (uo_owned k) /\ Forall (uo_slot_inv b) s.

Lemma uo_new_inv k : UoInv k false (uo_new k).
Proof.
  unfold UoInv, uo_new. split; [apply map_length|]. apply Forall_forall. intros x Hin.
  apply in_map_iff in Hin. destruct Hin as (p & <- & _). destruct p; split; reflexivity.
Qed.

Lemma uo_close_inv k b s : UoInv k b s -> UoInv k true (uo_close k s).
Proof.
  intros [L F]. split; [unfold uo_close; now rewrite uo_close_with_length|].
  apply Forall_forall. intros x' Hin. apply In_nth_error in Hin. destruct Hin as [j Ej].
  assert (j < length s) as Lt.
  { apply nth_error_some_lt in Ej. unfold uo_close in Ej. now rewrite uo_close_with_length in Ej. }
  destruct (nth_error s j) as [x|] eqn:Ex; [|apply nth_error_None in Ex; lia].
  destruct (uo_close_with_spec (uo_close_prog k) s j x Ex) as (y & Ey & Hin & _).
  unfold uo_close in Ej. rewrite Ej in Ey. inversion Ey; subst y.
  destruct Hin as [C Ef]; [apply uo_prog_covers_in; lia|].
  destruct (Forall_nth_error _ _ _ _ F Ex) as [Cx Ex1]. split; [exact C|]. rewrite Ef, Cx, Ex1.
  destruct b; reflexivity.
Qed.

Lemma uo_step_inv k b s lab s' :
  UoInv k b s -> uo_step k s lab = Some s' -> UoInv k (b || uo_is_close lab) s'.
Proof.
  intros I Hs. unfold uo_step in Hs. destruct (uo_label_idx lab) as [i|] eqn:Ei.
  - assert (uo_is_close lab = false) as -> by (destruct lab; cbn in *; congruence).
    rewrite orb_false_r. destruct (nth_error s i) as [x|] eqn:Ex; [|discriminate].
    destruct (uo_part_step (us_comp x) lab) as [c'|] eqn:Ec; [|discriminate]. inversion Hs; subst s'.
    destruct I as [L F]. split; [now rewrite upd_length|]. apply Forall_upd; [exact F|].
    destruct (Forall_nth_error _ _ _ _ F Ex) as [Cx Ef]. split; cbn; [|exact Ef].
    rewrite (uo_part_step_closed _ _ _ Ec). exact Cx.
  - assert (uo_is_close lab = true) as -> by (destruct lab; cbn in *; congruence).
    rewrite orb_true_r. inversion Hs; subst s'. eapply uo_close_inv; eauto.
Qed.

Lemma uo_run_inv k ls : forall b s s',
  UoInv k b s -> uo_run k s ls = Some s' -> UoInv k (b || existsb uo_is_close ls) s'.
Proof.
  induction ls as [|l tl IH]; intros b s s' I H; cbn in H.
  - inversion H; subst. cbn. now rewrite orb_false_r.
  - destruct (uo_step k s l) as [s1|] eqn:E; [|discriminate]. cbn [existsb].
    rewrite orb_assoc. eapply IH; [|exact H]. eapply uo_step_inv; eauto.
Qed.

Theorem uo_reachable_inv k ls s :
  uo_run k (uo_new k) ls = Some s -> UoInv k (existsb uo_is_close ls) s.
Proof. intros H. apply (uo_run_inv k ls false _ _ (uo_new_inv k) H). Qed.

(* =====================================================================================================
   projection: every part of a reachable composite state is a reachable state of its own transition system
   ===================================================================================================== *)
Definition uo_comp_reach (c : uo_comp) : Prop :=
  match c with
  | UcReuse s => exists ls, r_run r_init ls = Some s
  | UcPipe s => exists ls, sdp_run sdp_init ls = Some s
  | UcQuic s => exists ls, sdq_run sdq_init ls = Some s
  | UcLib l => ul_closed l = true -> ul_idle l + ul_busy l = 0
  end.

Lemma uo_comp_init_reach p : uo_comp_reach (uo_comp_init p).
Proof. destruct p; cbn; try (exists []; reflexivity); discriminate. Qed.

Lemma r_run_snoc s ls s1 l : r_run s ls = Some s1 -> r_run s (ls ++ [l]) = r_step s1 l.
Proof. intros H. rewrite (r_run_app _ _ _ [l] H). cbn. destruct (r_step s1 l); reflexivity. Qed.
Lemma sdp_run_snoc s ls s1 l : sdp_run s ls = Some s1 -> sdp_run s (ls ++ [l]) = sdp_step s1 l.
Proof. intros H. rewrite (sdp_run_app _ _ _ [l] H). cbn. destruct (sdp_step s1 l); reflexivity. Qed.
Lemma sdq_run_snoc s ls s1 l : sdq_run s ls = Some s1 -> sdq_run s (ls ++ [l]) = sdq_step s1 l.
Proof. intros H. rewrite (sdq_run_app _ _ _ [l] H). cbn. destruct (sdq_step s1 l); reflexivity. Qed.

Lemma uo_comp_close_reach c : uo_comp_reach c -> uo_comp_reach (uo_comp_close c).
Proof.
  destruct c as [s|s|s|l]; unfold uo_comp_close; cbn [uo_comp_reach].
  - intros [ls H]. destruct (r_close_total s) as (s' & H1 & _). rewrite H1. exists (ls ++ [RClose]).
    now rewrite (r_run_snoc _ _ _ _ H).
  - intros [ls H]. destruct (sdp_close_total s) as (s' & H1 & _). rewrite H1. exists (ls ++ [PClose]).
    now rewrite (sdp_run_snoc _ _ _ _ H).
  - intros [ls H]. destruct (sdq_close_total s) as (s' & H1 & _). rewrite H1. exists (ls ++ [SqClose]).
    now rewrite (sdq_run_snoc _ _ _ _ H).
  - intros H. unfold uo_lib_close. destruct (ul_closed l) eqn:E; cbn; auto.
Qed.

Lemma uo_lib_step_reach l lab l' :
  uo_lib_step l lab = Some l' -> (ul_closed l = true -> ul_idle l + ul_busy l = 0) ->
  ul_closed l' = true -> ul_idle l' + ul_busy l' = 0.
Proof.
  intros Hs H C'. pose proof (uo_lib_step_closed _ _ _ Hs) as Ec. rewrite C' in Ec. symmetry in Ec.
  specialize (H Ec). destruct lab; cbn in Hs; try discriminate.
  - rewrite Ec in Hs. inversion Hs; subst. exact H.
  - destruct (ul_idle l); [discriminate|lia].
  - destruct (ul_busy l); [discriminate|lia].
  - destruct busy; [destruct (ul_busy l)|destruct (ul_idle l)]; try discriminate; lia.
Qed.

Lemma uo_part_step_reach c lab c' : uo_part_step c lab = Some c' -> uo_comp_reach c -> uo_comp_reach c'.
Proof.
  destruct lab, c; cbn [uo_part_step]; try discriminate; intros H; destr H; inversion H; subst; cbn [uo_comp_reach].
  - intros [ls R]. exists (ls ++ [l]). now rewrite (r_run_snoc _ _ _ _ R).
  - intros [ls R]. exists (ls ++ [l]). now rewrite (sdp_run_snoc _ _ _ _ R).
  - intros [ls R]. exists (ls ++ [l]). now rewrite (sdq_run_snoc _ _ _ _ R).
  - eapply uo_lib_step_reach; eauto.
  - eapply uo_lib_step_reach; eauto.
  - eapply uo_lib_step_reach; eauto.
  - eapply uo_lib_step_reach; eauto.
Qed.

Definition uo_slot_reach (x : uo_slot) : Prop := uo_comp_reach (us_comp x).

Lemma uo_close_at_reach s i : Forall uo_slot_reach s -> Forall uo_slot_reach (uo_close_at s i).
Proof.
  intros F. unfold uo_close_at. destruct (nth_error s i) as [x|] eqn:Ex; [|exact F].
  apply Forall_upd; [exact F|]. unfold uo_slot_reach. cbn. apply uo_comp_close_reach.
  exact (Forall_nth_error _ _ _ _ F Ex).
Qed.

Lemma uo_close_with_reach prog : forall s, Forall uo_slot_reach s -> Forall uo_slot_reach (uo_close_with prog s).
Proof.
  induction prog as [|i tl IH]; intros s F; [exact F|]. cbn [uo_close_with fold_left].
  apply IH. now apply uo_close_at_reach.
Qed.

Lemma uo_step_reach k s lab s' : Forall uo_slot_reach s -> uo_step k s lab = Some s' -> Forall uo_slot_reach s'.
Proof.
  intros F Hs. unfold uo_step in Hs. destruct (uo_label_idx lab) as [i|].
  - destruct (nth_error s i) as [x|] eqn:Ex; [|discriminate].
    destruct (uo_part_step (us_comp x) lab) as [c'|] eqn:Ec; [|discriminate]. inversion Hs; subst s'.
    apply Forall_upd; [exact F|]. unfold uo_slot_reach. cbn. eapply uo_part_step_reach; eauto.
    exact (Forall_nth_error _ _ _ _ F Ex).
  - inversion Hs; subst. now apply uo_close_with_reach.
Qed.

Lemma uo_run_reach k ls : forall s s', Forall uo_slot_reach s -> uo_run k s ls = Some s' -> Forall uo_slot_reach s'.
Proof.
  induction ls as [|l tl IH]; intros s s' F H; cbn in H; [inversion H; subst; exact F|].
  destruct (uo_step k s l) as [s1|] eqn:E; [|discriminate]. eapply IH; [|exact H]. eapply uo_step_reach; eauto.
Qed.

Theorem uo_reachable_parts k ls s :
  uo_run k (uo_new k) ls = Some s -> Forall uo_slot_reach s.
Proof.
  apply uo_run_reach. unfold uo_new. apply Forall_forall. intros x Hin. apply in_map_iff in Hin.
  destruct Hin as (p & <- & _). apply uo_comp_init_reach.
Qed.

(* ---- no leak: after the upstream's Close every part has let go of everything it held ---- *)
Definition uo_comp_released (c : uo_comp) : Prop :=
  match c with
  | UcReuse rs =>
      (forall kc, In kc (rs_conns rs) -> rc_open kc = false) /\
      r_open_count rs = length (filter is_returned (rs_tasks rs))
  | UcPipe ps =>
      forall c k0, nth_error (ps_conns ps) c = Some k0 -> pc_open k0 = true ->
        (pc_closed k0 = true /\ has_stage (ps_tasks ps) (PsCloseB c)) \/
        (pc_closed k0 = false /\ has_stage (ps_tasks ps) (PsCloseA c))
  | UcQuic qs =>
      (forall kc, In kc (sq_conns qs) -> qc_open kc = false) /\
      sdq_open_count qs = length (filter qd_holds_raw (sq_calls qs))
  | UcLib l => ul_idle l + ul_busy l = 0
  end.

Theorem uo_no_leak k ls s :
  uo_run k (uo_new k) ls = Some s -> existsb uo_is_close ls = true ->
  length s = length (uo_owned k) /\
  forall x, In x s -> uo_comp_closed (us_comp x) = true /\ us_eff x = 1 /\ uo_comp_released (us_comp x).
Proof.
  intros H Cl. pose proof (uo_reachable_inv _ _ _ H) as [L F]. rewrite Cl in F.
  pose proof (uo_reachable_parts _ _ _ H) as R. split; [exact L|]. intros x Hin.
  rewrite Forall_forall in F, R. destruct (F x Hin) as [C E]. specialize (R x Hin).
  split; [exact C|]. split; [exact E|]. unfold uo_slot_reach in R.
  destruct (us_comp x) as [rs|ps|qs|l]; cbn in *.
  - destruct R as [ls' R]. split; [eapply r_no_leak; eauto|eapply r_open_after_close; eauto].
  - destruct R as [ls' R]. eapply sdp_no_leak; eauto.
  - destruct R as [ls' R]. destruct (sdq_no_leak _ _ R C) as [A B]. split; [exact A|exact B].
  - auto.
Qed.

(* =====================================================================================================
   the plans the harness replays are schedules of the composite system without any Close
   ===================================================================================================== *)
Definition xev_plain (e : xev) : bool := match e with XSpawn | XDialOk _ | XReply _ => true | _ => false end.

Definition r_nc (ls : list rlabel) : Prop := Forall (fun l => r_is_close l = false) ls.
Definition sdp_nc (ls : list sd_plabel) : Prop := Forall (fun l => sdp_is_close l = false) ls.
Definition sdq_nc (ls : list sdq_label) : Prop := Forall (fun l => sdq_is_close l = false) ls.

Lemma r_first_internal_nc h s ts : forall off l, r_first_internal h s ts off = Some l -> r_is_close l = false.
Proof.
  induction ts as [|k tl IH]; intros off l; cbn; [discriminate|].
  destruct (r_internal h s off k) as [l0|] eqn:E; [|apply IH].
  intros H; inversion H; subst. unfold r_internal in E. destr E; inversion E; reflexivity.
Qed.

Lemma r_quiesce_refines_nc h fuel : forall s, exists ls, r_run s ls = Some (r_quiesce h fuel s) /\ r_nc ls.
Proof.
  induction fuel as [|f IH]; intros s; cbn; [exists []; split; [reflexivity|constructor]|].
  destruct (r_first_internal h s (rs_tasks s) 0) as [l|] eqn:E; [|exists []; split; [reflexivity|constructor]].
  destruct (r_step s l) as [s'|] eqn:Es; [|exists []; split; [reflexivity|constructor]].
  destruct (IH s') as (ls & R & N). exists (l :: ls). split; [cbn; now rewrite Es|].
  constructor; [eapply r_first_internal_nc; eauto|exact N].
Qed.

Lemma r_big_refines_nc h s e s' :
  xev_plain e = true -> r_big h s e = Some s' -> exists ls, r_run s ls = Some s' /\ r_nc ls.
Proof.
  intros P H. unfold r_big in H. destruct (r_run s (r_ext_labels s e)) as [s1|] eqn:E; [|discriminate].
  inversion H; subst. destruct (r_quiesce_refines_nc h big_fuel s1) as (ls & R & N).
  exists (r_ext_labels s e ++ ls). split; [now rewrite (r_run_app _ _ _ _ E)|].
  apply Forall_app. split; [|exact N]. destruct e; cbn in P; try discriminate; cbn; repeat constructor.
Qed.

Lemma sdp_first_task_nc m s ts : forall off l, sdp_first_task m s ts off = Some l -> sdp_is_close l = false.
Proof.
  induction ts as [|k tl IH]; intros off l; cbn; [discriminate|].
  destruct (sdp_internal_task m s off k) as [l0|] eqn:E; [|apply IH].
  intros H; inversion H; subst. unfold sdp_internal_task in E. destr E; inversion E; reflexivity.
Qed.

Lemma sdp_first_dial_nc h s ds : forall off l, sdp_first_dial h s ds off = Some l -> sdp_is_close l = false.
Proof.
  induction ds as [|k tl IH]; intros off l; cbn; [discriminate|].
  destruct (sdp_internal_dial h s off k) as [l0|] eqn:E; [|apply IH].
  intros H; inversion H; subst. unfold sdp_internal_dial in E. destr E; inversion E; reflexivity.
Qed.

Lemma sdp_first_internal_nc h m s l : sdp_first_internal h m s = Some l -> sdp_is_close l = false.
Proof.
  unfold sdp_first_internal. destruct (sdp_first_dial h s (ps_dials s) 0) as [l0|] eqn:E.
  - intros H; inversion H; subst. eapply sdp_first_dial_nc; eauto.
  - apply sdp_first_task_nc.
Qed.

Lemma sdp_quiesce_refines_nc h m fuel : forall s, exists ls, sdp_run s ls = Some (sdp_quiesce h m fuel s) /\ sdp_nc ls.
Proof.
  induction fuel as [|f IH]; intros s; cbn; [exists []; split; [reflexivity|constructor]|].
  destruct (sdp_first_internal h m s) as [l|] eqn:E; [|exists []; split; [reflexivity|constructor]].
  destruct (sdp_step s l) as [s'|] eqn:Es; [|exists []; split; [reflexivity|constructor]].
  destruct (IH s') as (ls & R & N). exists (l :: ls). split; [cbn; now rewrite Es|].
  constructor; [eapply sdp_first_internal_nc; eauto|exact N].
Qed.

Lemma sdp_big_refines_nc h m s e s' :
  xev_plain e = true -> sdp_big h m s e = Some s' -> exists ls, sdp_run s ls = Some s' /\ sdp_nc ls.
Proof.
  intros P H. unfold sdp_big in H. destruct (sdp_ext_labels s e) as [ext|] eqn:Ee; [|discriminate].
  destruct (sdp_run s ext) as [s1|] eqn:E; [|discriminate].
  inversion H; subst. destruct (sdp_quiesce_refines_nc h m big_fuel s1) as (ls & R & N).
  exists (ext ++ ls). split; [now rewrite (sdp_run_app _ _ _ _ E)|].
  apply Forall_app. split; [|exact N].
  destruct e; cbn in P; try discriminate; cbn in Ee; inversion Ee; subst; repeat constructor.
Qed.

Lemma sdq_first_task_nc s ts : forall off l, sdq_first_task s ts off = Some l -> sdq_is_close l = false.
Proof.
  induction ts as [|k tl IH]; intros off l; cbn; [discriminate|].
  destruct (sdq_internal_task s off k) as [l0|] eqn:E; [|apply IH].
  intros H; inversion H; subst. unfold sdq_internal_task in E. destr E; inversion E; reflexivity.
Qed.

Lemma sdq_first_call_nc h s ds : forall off l, sdq_first_call h s ds off = Some l -> sdq_is_close l = false.
Proof.
  induction ds as [|k tl IH]; intros off l; cbn; [discriminate|].
  destruct (sdq_internal_call h s off k) as [l0|] eqn:E; [|apply IH].
  intros H; inversion H; subst. unfold sdq_internal_call in E. destr E; inversion E; reflexivity.
Qed.

Lemma sdq_first_internal_nc h s l : sdq_first_internal h s = Some l -> sdq_is_close l = false.
Proof.
  unfold sdq_first_internal. destruct (sdq_first_call h s (sq_calls s) 0) as [l0|] eqn:E.
  - intros H; inversion H; subst. eapply sdq_first_call_nc; eauto.
  - apply sdq_first_task_nc.
Qed.

Lemma sdq_quiesce_refines_nc h fuel : forall s, exists ls, sdq_run s ls = Some (sdq_quiesce h fuel s) /\ sdq_nc ls.
Proof.
  induction fuel as [|f IH]; intros s; cbn; [exists []; split; [reflexivity|constructor]|].
  destruct (sdq_first_internal h s) as [l|] eqn:E; [|exists []; split; [reflexivity|constructor]].
  destruct (sdq_step s l) as [s'|] eqn:Es; [|exists []; split; [reflexivity|constructor]].
  destruct (IH s') as (ls & R & N). exists (l :: ls). split; [cbn; now rewrite Es|].
  constructor; [eapply sdq_first_internal_nc; eauto|exact N].
Qed.

Lemma sdq_big_refines_nc h s e s' :
  xev_plain e = true -> sdq_big h s e = Some s' -> exists ls, sdq_run s ls = Some s' /\ sdq_nc ls.
Proof.
  intros P H. unfold sdq_big in H. destruct (sdq_ext_labels s e) as [ext|] eqn:Ee; [|discriminate].
  destruct (sdq_run s ext) as [s1|] eqn:E; [|discriminate].
  inversion H; subst. destruct (sdq_quiesce_refines_nc h big_fuel s1) as (ls & R & N).
  exists (ext ++ ls). split; [now rewrite (sdq_run_app _ _ _ _ E)|].
  apply Forall_app. split; [|exact N].
  destruct e; cbn in P; try discriminate; cbn in Ee; inversion Ee; subst; repeat constructor.
Qed.

Lemma r_run_app_nc s a s1 b s2 :
  r_run s a = Some s1 -> r_run s1 b = Some s2 -> r_run s (a ++ b) = Some s2.
Proof. intros A B. now rewrite (r_run_app _ _ _ _ A). Qed.
Lemma sdp_run_app_nc s a s1 b s2 :
  sdp_run s a = Some s1 -> sdp_run s1 b = Some s2 -> sdp_run s (a ++ b) = Some s2.
Proof. intros A B. now rewrite (sdp_run_app _ _ _ _ A). Qed.
Lemma sdq_run_app_nc s a s1 b s2 :
  sdq_run s a = Some s1 -> sdq_run s1 b = Some s2 -> sdq_run s (a ++ b) = Some s2.
Proof. intros A B. now rewrite (sdq_run_app _ _ _ _ A). Qed.

Lemma uo_r_exch_refines s reply s' t :
  uo_r_exch s reply = Some (s', t) -> exists ls, r_run s ls = Some s' /\ r_nc ls.
Proof.
  unfold uo_r_exch. intros H.
  destruct (r_big true s XSpawn) as [s1|] eqn:E1; [|discriminate].
  destruct (r_big_refines_nc _ _ XSpawn _ eq_refl E1) as (l1 & R1 & N1).
  assert (exists s2 l2, (if r_is_dialing s1 (length (rs_tasks s)) then r_big true s1 (XDialOk (length (rs_tasks s))) else Some s1) = Some s2
          /\ r_run s1 l2 = Some s2 /\ r_nc l2) as (s2 & l2 & E2 & R2 & N2).
  { destruct (r_is_dialing s1 (length (rs_tasks s))).
    - destruct (r_big true s1 (XDialOk (length (rs_tasks s)))) as [s2|] eqn:E2; [|discriminate].
      destruct (r_big_refines_nc _ _ (XDialOk _) _ eq_refl E2) as (l2 & R2 & N2). exists s2, l2. auto.
    - exists s1, []. repeat split; constructor. }
  rewrite E2 in H. destruct reply.
  - destruct (r_big true s2 (XReply (length (rs_tasks s)))) as [s3|] eqn:E3; [|discriminate]. inversion H; subst.
    destruct (r_big_refines_nc _ _ (XReply _) _ eq_refl E3) as (l3 & R3 & N3).
    exists (l1 ++ l2 ++ l3). split; [eapply r_run_app_nc; eauto; eapply r_run_app_nc; eauto|].
    apply Forall_app; split; auto. apply Forall_app; split; auto.
  - inversion H; subst. exists (l1 ++ l2). split; [eapply r_run_app_nc; eauto|apply Forall_app; split; auto].
Qed.

Lemma uo_p_exch_refines m s reply s' t :
  uo_p_exch m s reply = Some (s', t) -> exists ls, sdp_run s ls = Some s' /\ sdp_nc ls.
Proof.
  unfold uo_p_exch. intros H.
  destruct (sdp_big true m s XSpawn) as [s1|] eqn:E1; [|discriminate].
  destruct (sdp_big_refines_nc _ _ _ XSpawn _ eq_refl E1) as (l1 & R1 & N1).
  assert (exists s2 l2, (if sdp_is_dialing s1 (length (ps_dials s)) then sdp_big true m s1 (XDialOk (length (ps_dials s))) else Some s1) = Some s2
          /\ sdp_run s1 l2 = Some s2 /\ sdp_nc l2) as (s2 & l2 & E2 & R2 & N2).
  { destruct (sdp_is_dialing s1 (length (ps_dials s))).
    - destruct (sdp_big true m s1 (XDialOk (length (ps_dials s)))) as [s2|] eqn:E2; [|discriminate].
      destruct (sdp_big_refines_nc _ _ _ (XDialOk _) _ eq_refl E2) as (l2 & R2 & N2). exists s2, l2. auto.
    - exists s1, []. repeat split; constructor. }
  rewrite E2 in H. destruct reply.
  - destruct (sdp_big true m s2 (XReply (length (ps_tasks s)))) as [s3|] eqn:E3; [|discriminate]. inversion H; subst.
    destruct (sdp_big_refines_nc _ _ _ (XReply _) _ eq_refl E3) as (l3 & R3 & N3).
    exists (l1 ++ l2 ++ l3). split; [eapply sdp_run_app_nc; eauto; eapply sdp_run_app_nc; eauto|].
    apply Forall_app; split; auto. apply Forall_app; split; auto.
  - inversion H; subst. exists (l1 ++ l2). split; [eapply sdp_run_app_nc; eauto|apply Forall_app; split; auto].
Qed.

Lemma uo_q_exch_refines s reply s' t :
  uo_q_exch s reply = Some (s', t) -> exists ls, sdq_run s ls = Some s' /\ sdq_nc ls.
Proof.
  unfold uo_q_exch. intros H.
  destruct (sdq_big true s XSpawn) as [s1|] eqn:E1; [|discriminate].
  destruct (sdq_big_refines_nc _ _ XSpawn _ eq_refl E1) as (l1 & R1 & N1).
  assert (exists s2 l2, (if sdq_is_dialing s1 (length (sq_calls s)) then sdq_big true s1 (XDialOk (length (sq_calls s))) else Some s1) = Some s2
          /\ sdq_run s1 l2 = Some s2 /\ sdq_nc l2) as (s2 & l2 & E2 & R2 & N2).
  { destruct (sdq_is_dialing s1 (length (sq_calls s))).
    - destruct (sdq_big true s1 (XDialOk (length (sq_calls s)))) as [s2|] eqn:E2; [|discriminate].
      destruct (sdq_big_refines_nc _ _ (XDialOk _) _ eq_refl E2) as (l2 & R2 & N2). exists s2, l2. auto.
    - exists s1, []. repeat split; constructor. }
  rewrite E2 in H. destruct reply.
  - destruct (sdq_big true s2 (XReply (length (sq_tasks s)))) as [s3|] eqn:E3; [|discriminate]. inversion H; subst.
    destruct (sdq_big_refines_nc _ _ (XReply _) _ eq_refl E3) as (l3 & R3 & N3).
    exists (l1 ++ l2 ++ l3). split; [eapply sdq_run_app_nc; eauto; eapply sdq_run_app_nc; eauto|].
    apply Forall_app; split; auto. apply Forall_app; split; auto.
  - inversion H; subst. exists (l1 ++ l2). split; [eapply sdq_run_app_nc; eauto|apply Forall_app; split; auto].
Qed.

(* ---- lifting the steps of one part into the composite ---- *)
Definition uo_nc (ls : list uo_label) : Prop := existsb uo_is_close ls = false.

Lemma uo_nc_app a b : uo_nc a -> uo_nc b -> uo_nc (a ++ b).
Proof. unfold uo_nc. intros A B. rewrite existsb_app, A, B. reflexivity. Qed.

Lemma uo_run_app k a : forall s s1 b, uo_run k s a = Some s1 -> uo_run k s (a ++ b) = uo_run k s1 b.
Proof.
  induction a as [|l a IH]; intros s s1 b H; cbn in *; [now inversion H|].
  destruct (uo_step k s l); [eauto|discriminate].
Qed.

Lemma upd_upd {A} (l : list A) i x y : upd (upd l i x) i y = upd l i y.
Proof. revert i. induction l as [|a l IH]; intros [|i]; cbn; auto. now rewrite IH. Qed.

Lemma upd_same {A} (l : list A) i x : nth_error l i = Some x -> upd l i x = l.
Proof. revert i. induction l as [|a l IH]; intros [|i] H; cbn in *; try discriminate; [now inversion H|now rewrite IH]. Qed.

Lemma uo_with_comp_twice x c1 c2 : uo_with_comp (uo_with_comp x c1) c2 = uo_with_comp x c2.
Proof. reflexivity. Qed.

Lemma uo_with_comp_same x : uo_with_comp x (us_comp x) = x.
Proof. destruct x; reflexivity. Qed.

(* a run of part i's own system (no Close label) is a run of the composite *)
Lemma uo_lift_r k i ls : forall s x rs rs',
  nth_error s i = Some x -> us_comp x = UcReuse rs -> r_run rs ls = Some rs' -> r_nc ls ->
  uo_run k s (map (UoR i) ls) = Some (upd s i (uo_with_comp x (UcReuse rs'))) /\ uo_nc (map (UoR i) ls).
Proof.
  induction ls as [|l tl IH]; intros s x rs rs' Ex Ec R N; cbn in R.
  - inversion R; subst. cbn. rewrite <- Ec, uo_with_comp_same, (upd_same _ _ _ Ex). split; reflexivity.
  - destruct (r_step rs l) as [rs1|] eqn:Es; [|discriminate]. inversion N as [|? ? Nl Ntl]; subst.
    cbn [map uo_run]. unfold uo_step. cbn [uo_label_idx]. rewrite Ex, Ec. cbn [uo_part_step]. rewrite Nl, Es.
    destruct (IH (upd s i (uo_with_comp x (UcReuse rs1))) (uo_with_comp x (UcReuse rs1)) rs1 rs') as [A B]; auto.
    { apply nth_error_upd_eq. eapply nth_error_some_lt; eauto. }
    rewrite A, upd_upd. split; [reflexivity|]. unfold uo_nc in *. cbn. exact B.
Qed.

Lemma uo_lift_p k i ls : forall s x rs rs',
  nth_error s i = Some x -> us_comp x = UcPipe rs -> sdp_run rs ls = Some rs' -> sdp_nc ls ->
  uo_run k s (map (UoP i) ls) = Some (upd s i (uo_with_comp x (UcPipe rs'))) /\ uo_nc (map (UoP i) ls).
Proof.
  induction ls as [|l tl IH]; intros s x rs rs' Ex Ec R N; cbn in R.
  - inversion R; subst. cbn. rewrite <- Ec, uo_with_comp_same, (upd_same _ _ _ Ex). split; reflexivity.
  - destruct (sdp_step rs l) as [rs1|] eqn:Es; [|discriminate]. inversion N as [|? ? Nl Ntl]; subst.
    cbn [map uo_run]. unfold uo_step. cbn [uo_label_idx]. rewrite Ex, Ec. cbn [uo_part_step]. rewrite Nl, Es.
    destruct (IH (upd s i (uo_with_comp x (UcPipe rs1))) (uo_with_comp x (UcPipe rs1)) rs1 rs') as [A B]; auto.
    { apply nth_error_upd_eq. eapply nth_error_some_lt; eauto. }
    rewrite A, upd_upd. split; [reflexivity|]. unfold uo_nc in *. cbn. exact B.
Qed.

Lemma uo_lift_q k i ls : forall s x rs rs',
  nth_error s i = Some x -> us_comp x = UcQuic rs -> sdq_run rs ls = Some rs' -> sdq_nc ls ->
  uo_run k s (map (UoQ i) ls) = Some (upd s i (uo_with_comp x (UcQuic rs'))) /\ uo_nc (map (UoQ i) ls).
Proof.
  induction ls as [|l tl IH]; intros s x rs rs' Ex Ec R N; cbn in R.
  - inversion R; subst. cbn. rewrite <- Ec, uo_with_comp_same, (upd_same _ _ _ Ex). split; reflexivity.
  - destruct (sdq_step rs l) as [rs1|] eqn:Es; [|discriminate]. inversion N as [|? ? Nl Ntl]; subst.
    cbn [map uo_run]. unfold uo_step. cbn [uo_label_idx]. rewrite Ex, Ec. cbn [uo_part_step]. rewrite Nl, Es.
    destruct (IH (upd s i (uo_with_comp x (UcQuic rs1))) (uo_with_comp x (UcQuic rs1)) rs1 rs') as [A B]; auto.
    { apply nth_error_upd_eq. eapply nth_error_some_lt; eauto. }
    rewrite A, upd_upd. split; [reflexivity|]. unfold uo_nc in *. cbn. exact B.
Qed.

(* a request on a library part is a sequence of its Dial / Busy / Idle labels *)
Fixpoint uo_lib_run (l : uo_lib) (labs : list uo_label) : option uo_lib :=
  match labs with
  | [] => Some l
  | a :: tl => match uo_lib_step l a with Some l' => uo_lib_run l' tl | None => None end
  end.

Definition uo_lib_labels (i : nat) (labs : list uo_label) : Prop :=
  Forall (fun a => a = UoLibDial i \/ a = UoLibBusy i \/ a = UoLibIdle i) labs.

Ltac uo_lib_labs := unfold uo_lib_labels; repeat (apply Forall_cons; [auto|]); apply Forall_nil.

Lemma uo_lib_exch_labels i mux l reply :
  exists labs, uo_lib_run l labs = Some (uo_lib_exch mux l reply) /\ uo_lib_labels i labs.
Proof.
  unfold uo_lib_exch. destruct l as [c idle busy]. cbn [ul_closed ul_idle ul_busy].
  destruct c; [exists []; split; [reflexivity|uo_lib_labs]|].
  destruct mux.
  - destruct idle as [|n], busy as [|b], reply;
      try (exists []; split; [reflexivity|uo_lib_labs]).
    + exists [UoLibDial i]. split; [reflexivity|uo_lib_labs].
    + exists [UoLibDial i; UoLibBusy i]. split; [reflexivity|uo_lib_labs].
    + exists [UoLibBusy i]. split; [reflexivity|uo_lib_labs].
  - destruct idle as [|n], reply.
    + exists [UoLibDial i]. split; [reflexivity|uo_lib_labs].
    + exists [UoLibDial i; UoLibBusy i]. split; [reflexivity|uo_lib_labs].
    + exists []. split; [reflexivity|uo_lib_labs].
    + exists [UoLibBusy i]. split; [reflexivity|uo_lib_labs].
Qed.

Lemma uo_lift_lib k i labs : forall s x l l',
  nth_error s i = Some x -> us_comp x = UcLib l -> uo_lib_run l labs = Some l' -> uo_lib_labels i labs ->
  uo_run k s labs = Some (upd s i (uo_with_comp x (UcLib l'))) /\ uo_nc labs.
Proof.
  induction labs as [|a tl IH]; intros s x l l' Ex Ec R N; cbn in R.
  - inversion R; subst. cbn. rewrite <- Ec, uo_with_comp_same, (upd_same _ _ _ Ex). split; reflexivity.
  - destruct (uo_lib_step l a) as [l1|] eqn:Es; [|discriminate]. inversion N as [|? ? Na Ntl]; subst.
    destruct (IH (upd s i (uo_with_comp x (UcLib l1))) (uo_with_comp x (UcLib l1)) l1 l') as [A B]; auto.
    { apply nth_error_upd_eq. eapply nth_error_some_lt; eauto. }
    cbn [uo_run]. unfold uo_step.
    destruct Na as [->|[->| ->]]; cbn [uo_label_idx]; rewrite Ex, Ec; cbn [uo_part_step]; rewrite Es, A, upd_upd;
      (split; [reflexivity|unfold uo_nc in *; cbn; exact B]).
Qed.

Lemma uo_exch_on_refines k mux s i reply s' h :
  uo_exch_on k mux s i reply = Some (s', h) -> exists ls, uo_run k s ls = Some s' /\ uo_nc ls.
Proof.
  unfold uo_exch_on. destruct (nth_error s i) as [x|] eqn:Ex; [|discriminate].
  destruct (us_comp x) as [rs|ps|qs|l] eqn:Ec.
  - destruct (uo_r_exch rs reply) as [[rs' t]|] eqn:E; [|discriminate]. intros H; inversion H; subst.
    destruct (uo_r_exch_refines _ _ _ _ E) as (ls & R & N).
    destruct (uo_lift_r k i ls s x rs rs' Ex Ec R N) as [A B]. exists (map (UoR i) ls). split; [|exact B].
    rewrite A. unfold uo_set_comp. now rewrite Ex.
  - destruct (uo_p_exch (uo_maxs k) ps reply) as [[ps' t]|] eqn:E; [|discriminate]. intros H; inversion H; subst.
    destruct (uo_p_exch_refines _ _ _ _ _ E) as (ls & R & N).
    destruct (uo_lift_p k i ls s x ps ps' Ex Ec R N) as [A B]. exists (map (UoP i) ls). split; [|exact B].
    rewrite A. unfold uo_set_comp. now rewrite Ex.
  - destruct (uo_q_exch qs reply) as [[qs' t]|] eqn:E; [|discriminate]. intros H; inversion H; subst.
    destruct (uo_q_exch_refines _ _ _ _ E) as (ls & R & N).
    destruct (uo_lift_q k i ls s x qs qs' Ex Ec R N) as [A B]. exists (map (UoQ i) ls). split; [|exact B].
    rewrite A. unfold uo_set_comp. now rewrite Ex.
  - intros H; inversion H; subst. destruct (uo_lib_exch_labels i mux l reply) as (labs & R & N).
    destruct (uo_lift_lib k i labs s x l _ Ex Ec R N) as [A B]. exists labs. split; [|exact B].
    rewrite A. unfold uo_set_comp. now rewrite Ex.
Qed.

Lemma uo_run_two k s l1 s1 l2 s2 :
  uo_run k s l1 = Some s1 -> uo_nc l1 -> uo_run k s1 l2 = Some s2 -> uo_nc l2 ->
  uo_run k s (l1 ++ l2) = Some s2 /\ uo_nc (l1 ++ l2).
Proof. intros A Na B Nb. split; [now rewrite (uo_run_app _ _ _ _ _ A)|now apply uo_nc_app]. Qed.

Ltac uo_one H :=
  match type of H with
  | context [uo_exch_on ?k ?m ?s ?i ?r] =>
      let E := fresh "E" in let s1 := fresh "s" in let h1 := fresh "h" in
      destruct (uo_exch_on k m s i r) as [[s1 h1]|] eqn:E; [|discriminate];
      apply uo_exch_on_refines in E; destruct E as (? & ? & ?)
  end.

Lemma uo_plan_step_refines k mux s p s' oh :
  uo_plan_step k mux s p = Some (s', oh) -> exists ls, uo_run k s ls = Some s' /\ uo_nc ls.
Proof.
  unfold uo_plan_step. intros H. destruct k.
  1: destruct p.
  all: uo_one H; try uo_one H; inversion H; subst; eauto using uo_run_two.
Qed.

Theorem uo_plan_refines k mux ps : forall s hs s' hs',
  uo_plan_run k mux s ps hs = Some (s', hs') -> exists ls, uo_run k s ls = Some s' /\ uo_nc ls.
Proof.
  induction ps as [|p tl IH]; intros s hs s' hs' H; cbn in H.
  - inversion H; subst. exists []. split; reflexivity.
  - destruct (uo_plan_step k mux s p) as [[s1 oh]|] eqn:E; [|discriminate].
    destruct (uo_plan_step_refines _ _ _ _ _ _ E) as (l1 & R1 & N1).
    destruct (IH _ _ _ _ H) as (l2 & R2 & N2). exists (l1 ++ l2). eapply uo_run_two; eauto.
Qed.

(* quiescence of the legs is a Close-free schedule of the composite *)
Lemma uo_settle_at_refines k s i : exists ls, uo_run k s ls = Some (uo_settle_at k s i) /\ uo_nc ls.
Proof.
  unfold uo_settle_at. destruct (nth_error s i) as [x|] eqn:Ex; [|exists []; split; reflexivity].
  destruct (us_comp x) as [rs|ps|qs|l] eqn:Ec; cbn [uo_comp_settle].
  - destruct (r_quiesce_refines_nc true big_fuel rs) as (ls & R & N).
    destruct (uo_lift_r k i ls s x rs _ Ex Ec R N) as [A B]. exists (map (UoR i) ls). auto.
  - destruct (sdp_quiesce_refines_nc true (uo_maxs k) big_fuel ps) as (ls & R & N).
    destruct (uo_lift_p k i ls s x ps _ Ex Ec R N) as [A B]. exists (map (UoP i) ls). auto.
  - destruct (sdq_quiesce_refines_nc true big_fuel qs) as (ls & R & N).
    destruct (uo_lift_q k i ls s x qs _ Ex Ec R N) as [A B]. exists (map (UoQ i) ls). auto.
  - exists []. split; [|reflexivity]. cbn. rewrite <- Ec, uo_with_comp_same, (upd_same _ _ _ Ex). reflexivity.
Qed.

Lemma uo_settle_fold_refines k idx : forall s,
  exists ls, uo_run k s ls = Some (fold_left (uo_settle_at k) idx s) /\ uo_nc ls.
Proof.
  induction idx as [|i tl IH]; intros s; cbn; [exists []; split; reflexivity|].
  destruct (uo_settle_at_refines k s i) as (l1 & R1 & N1).
  destruct (IH (uo_settle_at k s i)) as (l2 & R2 & N2). exists (l1 ++ l2). eapply uo_run_two; eauto.
Qed.

Lemma uo_settle_refines k s : exists ls, uo_run k s ls = Some (uo_settle k s) /\ uo_nc ls.
Proof. apply uo_settle_fold_refines. Qed.

(* the states the harness visits: a plan, then Close (+ quiescence) once or twice *)
Theorem uo_plan_then_close k mux ps s hs :
  uo_plan_run k mux (uo_new k) ps [] = Some (s, hs) ->
  (exists ls, uo_run k (uo_new k) ls = Some (uo_close_settled k s) /\ existsb uo_is_close ls = true) /\
  (exists ls, uo_run k (uo_new k) ls = Some (uo_close_settled k (uo_close_settled k s)) /\
              existsb uo_is_close ls = true).
Proof.
  intros H. destruct (uo_plan_refines _ _ _ _ _ _ _ H) as (l0 & R0 & N0).
  assert (forall s0 l, uo_run k (uo_new k) l = Some s0 ->
            exists l', uo_run k (uo_new k) l' = Some (uo_close_settled k s0) /\ existsb uo_is_close l' = true) as Step.
  { intros s0 l R. unfold uo_close_settled. destruct (uo_settle_refines k (uo_close k s0)) as (l2 & R2 & N2).
    exists (l ++ UoClose :: l2). split.
    - rewrite (uo_run_app _ _ _ _ _ R). cbn. exact R2.
    - rewrite existsb_app. cbn. apply orb_true_r. }
  destruct (Step s l0 R0) as (l1 & R1 & C1). split; [exists l1; auto|].
  destruct (Step _ l1 R1) as (l2 & R2 & C2). exists l2; auto.
Qed.
