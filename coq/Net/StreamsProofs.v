(* Net/StreamsProofs.v — proofs about Net/Streams.v (C14, round 4). *)
From Mos Require Import Base.Prelude Net.Streams.

(* with the read side cancelled at the deadline an exchange never changes what the peer counts *)
Lemma sc_exchange_keeps c e : snd (sc_exchange true c e) = c.
Proof. unfold sc_exchange. destruct (sc_open c <? sc_cap c); destruct e; reflexivity. Qed.

Theorem sc_no_capacity_leaks es : forall c, snd (sc_run true c es) = c.
Proof.
  induction es as [|e r IH]; intros c; cbn [sc_run]; [reflexivity|]. cbn [snd]. rewrite sc_exchange_keeps. apply IH.
Qed.

(* hence, whatever was abandoned before, every exchange the server answers gets its reply *)
Theorem sc_good_always_served cap es :
  0 < cap -> forall i, nth_error es i = Some ScGood -> nth_error (fst (sc_run true (mkSc cap 0) es)) i = Some true.
Proof.
  intros Hc. set (c := mkSc cap 0).
  assert (G : forall es i, nth_error es i = Some ScGood -> nth_error (fst (sc_run true c es)) i = Some true).
  { induction es0 as [|e r IH]; intros i H; [destruct i; discriminate|]. cbn [sc_run fst].
    rewrite sc_exchange_keeps. destruct i as [|i]; cbn in *.
    - inversion H; subst. unfold sc_exchange, c. cbn. destruct cap; [lia|reflexivity].
    - apply IH. exact H. }
  intros i H. apply G. exact H.
Qed.

Lemma sc_run_app a : forall b c, fst (sc_run true c (a ++ b)) = fst (sc_run true c a) ++ fst (sc_run true c b).
Proof.
  induction a as [|e r IH]; intros b c; cbn [app sc_run fst]; [reflexivity|].
  rewrite sc_exchange_keeps, IH. reflexivity.
Qed.

Lemma sc_run_length x es : forall c, length (fst (sc_run x c es)) = length es.
Proof. induction es as [|e r IH]; intros c; cbn [sc_run fst length]; [reflexivity|]. rewrite IH. reflexivity. Qed.

Lemma sc_run_good n c : sc_open c < sc_cap c -> fst (sc_run true c (repeat ScGood n)) = repeat true n.
Proof.
  intros H. induction n as [|n IH]; cbn [repeat sc_run fst]; [reflexivity|].
  rewrite sc_exchange_keeps, IH. unfold sc_exchange. apply Nat.ltb_lt in H. rewrite H. reflexivity.
Qed.

Theorem sc_case_recovers cap k n : 0 < cap -> snd (sc_case true cap k n) = repeat true n.
Proof.
  intros Hc. unfold sc_case. cbn [snd]. rewrite app_assoc, sc_run_app.
  assert (L : length (fst (sc_run true (mkSc cap 0) (repeat ScGood 2 ++ repeat ScAbandon k))) = 2 + k)
    by (rewrite sc_run_length, app_length, !repeat_length; reflexivity).
  rewrite skipn_app, L. rewrite skipn_all2 by lia. replace (2 + k - (2 + k)) with 0 by lia. cbn [app skipn].
  apply sc_run_good. cbn. exact Hc.
Qed.

(* ---- the variant that leaves the read side alone ---- *)
Lemma sc_full_stays_full c es :
  sc_cap c <= sc_open c -> fst (sc_run false c es) = repeat false (length es) /\ snd (sc_run false c es) = c.
Proof.
  revert c. induction es as [|e r IH]; intros c H; cbn [sc_run fst snd length repeat]; [split; reflexivity|].
  assert (E : sc_exchange false c e = (false, c)).
  { unfold sc_exchange. assert (L : (sc_open c <? sc_cap c) = false) by (apply Nat.ltb_ge; exact H). rewrite L. reflexivity. }
  rewrite E. cbn [fst snd]. destruct (IH c H) as [A B]. rewrite A, B. split; reflexivity.
Qed.

Lemma sc_abandon_fills cap : forall k o, o + k = cap ->
  snd (sc_run false (mkSc cap o) (repeat ScAbandon k)) = mkSc cap cap.
Proof.
  induction k as [|k IH]; intros o H; cbn [repeat sc_run snd].
  - replace o with cap by lia. reflexivity.
  - unfold sc_exchange at 1. cbn [sc_open sc_cap]. assert (L : (o <? cap) = true) by (apply Nat.ltb_lt; lia). rewrite L.
    cbn [snd]. apply IH. lia.
Qed.

(* as many abandoned exchanges as the peer allows streams: every later exchange on that connection fails, for ever,
   although the server answers *)
Theorem sc_leaky_variant_wedges cap es :
  fst (sc_run false (snd (sc_run false (mkSc cap 0) (repeat ScAbandon cap))) es) = repeat false (length es).
Proof. rewrite (sc_abandon_fills cap cap 0) by lia. apply sc_full_stays_full. cbn. lia. Qed.

Theorem sc_witness :
  sc_case false 4 4 3 = (repeat false 4, repeat false 3) /\ sc_case true 4 4 3 = (repeat false 4, repeat true 3) /\
  sc_case false 4 3 3 = (repeat false 3, repeat true 3).
Proof. vm_compute. repeat split. Qed.

(* =====================================================================================================================
   Round 6 — the release step on every exit
   ===================================================================================================================== *)

(* the code aborts the receive side on every exit of exchangeStream *)
Theorem sc_code_cancels_on_every_exit x : sc_cancels sc_code x = true.
Proof. destruct x; reflexivity. Qed.

(* ... so whatever the server does with its side of the stream, the exit of an exchange leaves the peer's account as
   it was: the credit returns on every path *)
Theorem sc_credit_returns_on_every_path v a : sc_release sc_code v a = a.
Proof. unfold sc_release. rewrite sc_code_cancels_on_every_exit. reflexivity. Qed.

(* which exits need it: a policy that aborts the receive side after a reply and at the deadline keeps the account for
   every server behaviour (after a read error the server has finished its side itself) *)
Theorem sc_sufficient_policy p v a : pol_reply p = true -> pol_ctx p = true -> sc_release p v a = a.
Proof.
  intros R C. unfold sc_release, sc_cancels. destruct v; cbn; rewrite ?R, ?C; try reflexivity; destruct (pol_err p); reflexivity.
Qed.

Lemma sc_do_code_acct a s : sa_stuck a = 0 -> sa_pending a = 0 ->
  sa_cap (snd (sc_do sc_code a s)) = sa_cap a /\ sa_stuck (snd (sc_do sc_code a s)) = 0 /\ sa_pending (snd (sc_do sc_code a s)) = 0.
Proof.
  intros S P. destruct s as [v|]; cbn [sc_do].
  - destruct (sc_used a <? sa_cap a); cbn [snd]; rewrite ?sc_credit_returns_on_every_path; auto.
  - cbn. auto.
Qed.

(* every exchange a server answers gets its reply, whatever happened on the connection before *)
Theorem sc_code_every_answer_delivered ss : forall a i v,
  0 < sa_cap a -> sa_stuck a = 0 -> sa_pending a = 0 ->
  nth_error ss i = Some (Sx v) ->
  nth_error (fst (sc_run2 sc_code a ss)) i = Some (Some (match sc_exit_of v with ScxReply => true | _ => false end)) /\
  sc_used (snd (sc_run2 sc_code a ss)) = 0.
Proof.
  induction ss as [|s r IH]; intros a i v C S P H; [destruct i; discriminate|].
  cbn [sc_run2 fst snd]. destruct (sc_do_code_acct a s S P) as (C' & S' & P').
  destruct i as [|i]; cbn [nth_error] in *.
  - inversion H; subst s. split.
    + cbn [sc_do]. unfold sc_used. rewrite S, P. cbn [Nat.add]. apply Nat.ltb_lt in C. rewrite C. reflexivity.
    + clear H. assert (G : forall r a, sa_stuck a = 0 -> sa_pending a = 0 -> sc_used (snd (sc_run2 sc_code a r)) = 0).
      { induction r0 as [|s0 r0 IH0]; intros a0 S0 P0; cbn [sc_run2 snd]; [unfold sc_used; lia|].
        destruct (sc_do_code_acct a0 s0 S0 P0) as (_ & S1 & P1). apply IH0; assumption. }
      apply G; assumption.
  - apply (IH _ i v); [rewrite C'; exact C|exact S'|exact P'|exact H].
Qed.

(* ---- REFUTED: aborting the receive side only when the read failed ---- *)
Lemma sc_stuck_full_forever p ss : forall a,
  sa_cap a <= sa_stuck a ->
  Forall (fun o => o = None \/ o = Some false) (fst (sc_run2 p a ss)) /\ sa_stuck (snd (sc_run2 p a ss)) = sa_stuck a.
Proof.
  induction ss as [|s r IH]; intros a H; cbn [sc_run2 fst snd]; [split; [constructor|reflexivity]|].
  destruct s as [v|]; cbn [sc_do].
  - assert (L : (sc_used a <? sa_cap a) = false) by (apply Nat.ltb_ge; unfold sc_used; lia). rewrite L. cbn [fst snd].
    destruct (IH a H) as [F E]. split; [constructor; [right; reflexivity|exact F]|exact E].
  - cbn [fst snd]. destruct (IH (mkAcct (sa_cap a) (sa_stuck a) 0) H) as [F E]. split; [constructor; [left; reflexivity|exact F]|exact E].
Qed.

Lemma sc_nofin_fills cap : forall k o, o + k = cap ->
  snd (sc_run2 sc_only_on_error (mkAcct cap o 0) (repeat (Sx SvNoFin) k)) = mkAcct cap cap 0.
Proof.
  induction k as [|k IH]; intros o H; cbn [repeat sc_run2 snd].
  - replace o with cap by lia. reflexivity.
  - cbn [sc_do]. unfold sc_used. cbn [sa_stuck sa_pending sa_cap]. rewrite Nat.add_0_r.
    assert (L : (o <? cap) = true) by (apply Nat.ltb_lt; lia). rewrite L. cbn. apply (IH (S o)). lia.
Qed.

(* as many correctly ANSWERED exchanges as the peer allows streams, against a server that does not FIN: every later
   exchange on that (live, kept-alive) connection fails, and no pause heals it *)
Theorem sc_only_on_error_wedges cap ss :
  Forall (fun o => o = None \/ o = Some false)
         (fst (sc_run2 sc_only_on_error (snd (sc_run2 sc_only_on_error (mkAcct cap 0 0) (repeat (Sx SvNoFin) cap))) ss)).
Proof. rewrite (sc_nofin_fills cap cap 0) by lia. apply sc_stuck_full_forever. cbn. lia. Qed.

(* the scenarios of the kind "streams", exhaustively over the generated ranges *)
Definition sc_all_srv : list sc_srv := [SvFin; SvNoFin; SvLateFin; SvResetAfter; SvResetNow; SvShort; SvLie; SvSilent].
Definition sc_is_reply (v : sc_srv) : bool := match sc_exit_of v with ScxReply => true | _ => false end.

Definition sc_grid_code : bool :=
  forallb (fun cap => forallb (fun ans => forallb (fun ab => forallb (fun k => forallb (fun n =>
    match sc_case2 sc_code cap ans ab k n with
    | (bad, aft, lft) => forallb negb bad && (length bad =? k) && forallb (fun b => b) aft && (length aft =? n) && (lft =? 0)
    end) (seq 0 15)) (seq 0 9)) (filter (fun v => negb (sc_is_reply v)) sc_all_srv)) (filter sc_is_reply sc_all_srv)) (seq 1 6).

Theorem sc_grid : sc_grid_code = true.
Proof. vm_compute. reflexivity. Qed.

Theorem sc_witness2 :
  sc_case2 sc_only_on_error 4 SvNoFin SvLie 0 8 = ([], [true; true; false; false; false; false; false; false], 4) /\
  sc_case2 sc_only_on_error 3 SvLateFin SvLie 0 7 = ([], [true; false; false; false; false; false; false], 0) /\
  sc_case2 sc_code 4 SvNoFin SvLie 0 8 = ([], repeat true 8, 0) /\
  sc_case2 sc_not_on_ctx 4 SvFin SvLie 4 3 = (repeat false 4, repeat false 3, 4).
Proof. vm_compute. repeat split. Qed.

(* ---- round 9: opening a stream never blocks beyond the caller's context ---- *)
Theorem so_open_bounded md dl free_at :
  md <> SoWaitTransport -> exists t, so_returns md dl free_at = Some t /\ t <= dl.
Proof.
  destruct md; intros H; [| |congruence]; cbn.
  - exists 0. split; [reflexivity|lia].
  - eexists. split; [reflexivity|]. destruct free_at; [apply Nat.le_min_r|lia].
Qed.

Theorem so_wait_on_transport_unbounded dl slack :
  so_within SoWaitTransport dl slack None = false /\
  (forall f, dl + slack < f -> so_within SoWaitTransport dl slack (Some f) = false) /\
  so_within SoNoWait dl slack None = true.
Proof.
  split; [reflexivity|]. split; [|cbn; reflexivity].
  intros f H. cbn. apply Nat.leb_gt. exact H.
Qed.
