(* Net/StreamsProofs.v — proofs about Net/Streams.v (C14, round 4). *)
From Mos Require Import Base.Prelude Net.Streams.

(* with the read side cancelled at the deadline an exchange never changes what the peer counts *)
Lemma sc_exchange_keeps c e : snd (sc_exchange true c e) = c.
Proof. unfold sc_exchange. destruct (sc_open c <? sc_cap c); destruct e; reflexivity. Qed.

Theorem sc_no_capacity_leaks es : forall c, snd (sc_run true c es) = c.
Proof.
  induction es as [|e r IH]; intros c; cbn [sc_run]; [reflexivity|]. cbn [snd]. rewrite sc_exchange_keeps. apply IH.
Qed.

(* hence, whatever was abandoned before, every exchange the server answers gets its reply *)
Theorem sc_good_always_served cap es :
  0 < cap -> forall i, nth_error es i = Some ScGood -> nth_error (fst (sc_run true (mkSc cap 0) es)) i = Some true.
Proof.
  intros Hc. set (c := mkSc cap 0).
  assert (G : forall es i, nth_error es i = Some ScGood -> nth_error (fst (sc_run true c es)) i = Some true).
  { induction es0 as [|e r IH]; intros i H; [destruct i; discriminate|]. cbn [sc_run fst].
    rewrite sc_exchange_keeps. destruct i as [|i]; cbn in *.
    - inversion H; subst. unfold sc_exchange, c. cbn. destruct cap; [lia|reflexivity].
    - apply IH. exact H. }
  intros i H. apply G. exact H.
Qed.

Lemma sc_run_app a : forall b c, fst (sc_run true c (a ++ b)) = fst (sc_run true c a) ++ fst (sc_run true c b).
Proof.
  induction a as [|e r IH]; intros b c; cbn [app sc_run fst]; [reflexivity|].
  rewrite sc_exchange_keeps, IH. reflexivity.
Qed.

Lemma sc_run_length x es : forall c, length (fst (sc_run x c es)) = length es.
Proof. induction es as [|e r IH]; intros c; cbn [sc_run fst length]; [reflexivity|]. rewrite IH. reflexivity. Qed.

Lemma sc_run_good n c : sc_open c < sc_cap c -> fst (sc_run true c (repeat ScGood n)) = repeat true n.
Proof.
  intros H. induction n as [|n IH]; cbn [repeat sc_run fst]; [reflexivity|].
  rewrite sc_exchange_keeps, IH. unfold sc_exchange. apply Nat.ltb_lt in H. rewrite H. reflexivity.
Qed.

Theorem sc_case_recovers cap k n : 0 < cap -> snd (sc_case true cap k n) = repeat true n.
Proof.
  intros Hc. unfold sc_case. cbn [snd]. rewrite app_assoc, sc_run_app.
  assert (L : length (fst (sc_run true (mkSc cap 0) (repeat ScGood 2 ++ repeat ScAbandon k))) = 2 + k)
    by (rewrite sc_run_length, app_length, !repeat_length; reflexivity).
  rewrite skipn_app, L. rewrite skipn_all2 by lia. replace (2 + k - (2 + k)) with 0 by lia. cbn [app skipn].
  apply sc_run_good. cbn. exact Hc.
Qed.

(* ---- the variant that leaves the read side alone ---- *)
Lemma sc_full_stays_full c es :
  sc_cap c <= sc_open c -> fst (sc_run false c es) = repeat false (length es) /\ snd (sc_run false c es) = c.
Proof.
  revert c. induction es as [|e r IH]; intros c H; cbn [sc_run fst snd length repeat]; [split; reflexivity|].
  assert (E : sc_exchange false c e = (false, c)).
  { unfold sc_exchange. assert (L : (sc_open c <? sc_cap c) = false) by (apply Nat.ltb_ge; exact H). rewrite L. reflexivity. }
  rewrite E. cbn [fst snd]. destruct (IH c H) as [A B]. rewrite A, B. split; reflexivity.
Qed.

Lemma sc_abandon_fills cap : forall k o, o + k = cap ->
  snd (sc_run false (mkSc cap o) (repeat ScAbandon k)) = mkSc cap cap.
Proof.
  induction k as [|k IH]; intros o H; cbn [repeat sc_run snd].
  - replace o with cap by lia. reflexivity.
  - unfold sc_exchange at 1. cbn [sc_open sc_cap]. assert (L : (o <? cap) = true) by (apply Nat.ltb_lt; lia). rewrite L.
    cbn [snd]. apply IH. lia.
Qed.

(* as many abandoned exchanges as the peer allows streams: every later exchange on that connection fails, for ever,
   although the server answers *)
Theorem sc_leaky_variant_wedges cap es :
  fst (sc_run false (snd (sc_run false (mkSc cap 0) (repeat ScAbandon cap))) es) = repeat false (length es).
Proof. rewrite (sc_abandon_fills cap cap 0) by lia. apply sc_full_stays_full. cbn. lia. Qed.

Theorem sc_witness :
  sc_case false 4 4 3 = (repeat false 4, repeat false 3) /\ sc_case true 4 4 3 = (repeat false 4, repeat true 3) /\
  sc_case false 4 3 3 = (repeat false 3, repeat true 3).
Proof. vm_compute. repeat split. Qed.
