(* Net/CmsgProofs.v — proofs about Net/Cmsg.v *)
From Mos Require Import Base.Prelude Net.Cmsg.
From Coq Require Import ZifyN ZifyNat ZifyBool.
Ltac Zify.zify_post_hook ::= Z.div_mod_to_equations.

(* ---- the loop bound is never reached --------------------------------------------------------------------------- *)

Lemma cm_align_ge n : n <= cm_align n.
Proof. unfold cm_align. pose proof (Nat.div_mod (n + 7) 8). pose proof (Nat.mod_upper_bound (n + 7) 8). lia. Qed.

Lemma cm_rest_shorter hl remain : 16 <= hl -> remain <> [] -> length (cm_rest hl remain) < length remain.
Proof.
  intros Hh Hr. unfold cm_rest. destruct (cm_align hl <? length remain) eqn:E.
  - rewrite skipn_length. pose proof (cm_align_ge hl). lia.
  - destruct remain; [congruence|]. cbn [length]. lia.
Qed.

Lemma cm_parse_loop_fuel fuel ooblen remain : length remain < fuel -> cm_parse_loop fuel ooblen remain <> CmFuel.
Proof.
  revert remain. induction fuel as [|f IH]; intros remain Hl; [lia|].
  cbn [cm_parse_loop]. destruct remain as [|x t] eqn:Er; [discriminate|]. rewrite <- Er in *.
  destruct (ooblen <? 16); [discriminate|].
  destruct (length remain <? 16); [discriminate|].
  destruct ((cm_hlen remain <? 16) || (N.of_nat (length remain) <? cm_hlen remain))%N eqn:Eh; [discriminate|].
  destruct ((cm_level remain =? 0) && (cm_type remain =? 8))%N.
  { destruct (_ <? 12); discriminate. }
  destruct ((cm_level remain =? 41) && (cm_type remain =? 50))%N.
  { destruct (_ <? 20); discriminate. }
  apply IH.
  assert (length (cm_rest (N.to_nat (cm_hlen remain)) remain) < length remain).
  { apply cm_rest_shorter; [lia | subst; discriminate]. }
  lia.
Qed.

Theorem cm_parse_total oob : cm_parse oob <> CmFuel.
Proof. unfold cm_parse. apply cm_parse_loop_fuel. lia. Qed.

(* ---- little-endian fields ---------------------------------------------------------------------------------------- *)

Lemma cm_le_bytes_length n v : length (cm_le_bytes n v) = n.
Proof. revert v. induction n as [|n IH]; intros v; cbn [cm_le_bytes length]; [reflexivity|]. now rewrite IH. Qed.

Lemma cm_le_le_bytes n v : (v < 256 ^ N.of_nat n)%N -> cm_le (cm_le_bytes n v) = v.
Proof.
  revert v. induction n as [|n IH]; intros v Hv.
  - cbn in *. lia.
  - cbn [cm_le_bytes cm_le]. rewrite IH.
    + pose proof (N.div_mod v 256). lia.
    + rewrite Nat2N.inj_succ, N.pow_succ_r' in Hv. apply N.div_lt_upper_bound; lia.
Qed.

(* ---- kernel-built ancillary data ---------------------------------------------------------------------------------- *)

Lemma cm_firstn_app_exact {A} n (a b : list A) : length a = n -> firstn n (a ++ b) = a.
Proof. intros <-. rewrite firstn_app, Nat.sub_diag, firstn_all. cbn. apply app_nil_r. Qed.
Lemma cm_skipn_app_exact {A} n (a b : list A) : length a = n -> skipn n (a ++ b) = b.
Proof. intros <-. rewrite skipn_app, Nat.sub_diag, skipn_all. reflexivity. Qed.

Definition cm_wf1 (m : cm_msg) : Prop :=
  (cm_mlevel m < 256 ^ 4)%N /\ (cm_mtype m < 256 ^ 4)%N /\ (N.of_nat (16 + length (cm_mdata m)) < 256 ^ 8)%N.

Lemma cm_align_add16 n : cm_align (16 + n) = 16 + cm_align n.
Proof.
  unfold cm_align. replace (16 + n + 7) with (n + 7 + 2 * 8) by lia.
  rewrite Nat.div_add by lia. lia.
Qed.

Lemma cm_enc1_length m : length (cm_enc1 m) = 16 + cm_align (length (cm_mdata m)).
Proof.
  unfold cm_enc1. rewrite !app_length, !cm_le_bytes_length, repeat_length.
  pose proof (cm_align_ge (length (cm_mdata m))). lia.
Qed.

Section OneMsg.
  Variables (m : cm_msg) (rest : list N).
  Hypothesis Hwf : cm_wf1 m.
  Let r := cm_enc1 m ++ rest.

  Lemma cm_enc1_shape :
    r = cm_le_bytes 8 (N.of_nat (16 + length (cm_mdata m))) ++ cm_le_bytes 4 (cm_mlevel m) ++ cm_le_bytes 4 (cm_mtype m)
        ++ cm_mdata m ++ repeat 0%N (cm_align (length (cm_mdata m)) - length (cm_mdata m)) ++ rest.
  Proof. unfold r, cm_enc1. rewrite <- !app_assoc. reflexivity. Qed.

  Lemma cm_enc1_hlen : cm_hlen r = N.of_nat (16 + length (cm_mdata m)).
  Proof.
    unfold cm_hlen. rewrite cm_enc1_shape, cm_firstn_app_exact by apply cm_le_bytes_length.
    apply cm_le_le_bytes. apply Hwf.
  Qed.

  Lemma cm_enc1_level : cm_level r = cm_mlevel m.
  Proof.
    unfold cm_level. rewrite cm_enc1_shape, cm_skipn_app_exact by apply cm_le_bytes_length.
    rewrite cm_firstn_app_exact by apply cm_le_bytes_length. apply cm_le_le_bytes. apply Hwf.
  Qed.

  Lemma cm_enc1_type : cm_type r = cm_mtype m.
  Proof.
    unfold cm_type. rewrite cm_enc1_shape.
    rewrite (app_assoc (cm_le_bytes 8 _)), cm_skipn_app_exact
      by (rewrite app_length, !cm_le_bytes_length; reflexivity).
    rewrite cm_firstn_app_exact by apply cm_le_bytes_length. apply cm_le_le_bytes. apply Hwf.
  Qed.

  Lemma cm_enc1_data : firstn (16 + length (cm_mdata m) - 16) (skipn 16 r) = cm_mdata m.
  Proof.
    rewrite cm_enc1_shape.
    rewrite (app_assoc (cm_le_bytes 8 _)), (app_assoc (_ ++ _) (cm_le_bytes 4 (cm_mtype m))), cm_skipn_app_exact
      by (rewrite !app_length, !cm_le_bytes_length; reflexivity).
    apply cm_firstn_app_exact. lia.
  Qed.

  Lemma cm_enc1_rest : cm_rest (16 + length (cm_mdata m)) r = rest.
  Proof.
    unfold cm_rest. rewrite cm_align_add16.
    assert (Hl : length r = 16 + cm_align (length (cm_mdata m)) + length rest)
      by (unfold r; rewrite app_length, cm_enc1_length; reflexivity).
    destruct (16 + cm_align (length (cm_mdata m)) <? length r) eqn:E.
    - unfold r. apply cm_skipn_app_exact, cm_enc1_length.
    - destruct rest; [reflexivity|]. cbn [length] in Hl. lia.
  Qed.

  Lemma cm_enc1_long : 16 <= length r.
  Proof. unfold r. rewrite app_length, cm_enc1_length. lia. Qed.
End OneMsg.

Lemma cm_parse_loop_enc ms : Forall cm_wf1 ms ->
  forall fuel ooblen, length (cm_enc ms) < fuel -> length (cm_enc ms) <= ooblen ->
  cm_parse_loop fuel ooblen (cm_enc ms) = cm_first_pktinfo ms.
Proof.
  induction 1 as [|m t Hm Ht IH]; intros fuel ooblen Hf Ho.
  - destruct fuel; [cbn in Hf; lia|]. reflexivity.
  - destruct fuel as [|f]; [lia|].
    cbn [cm_enc flat_map] in *. fold (cm_enc t) in *.
    pose proof (cm_enc1_long m (cm_enc t)) as Hlong.
    cbn [cm_parse_loop cm_first_pktinfo].
    destruct (cm_enc1 m ++ cm_enc t) as [|x0 l0] eqn:Er; [cbn in Hlong; lia|]. rewrite <- Er in *.
    assert (ooblen <? 16 = false) as -> by lia.
    assert (length (cm_enc1 m ++ cm_enc t) <? 16 = false) as -> by lia.
    rewrite cm_enc1_hlen, cm_enc1_level, cm_enc1_type by assumption.
    assert (Hlen : length (cm_enc1 m ++ cm_enc t) = 16 + cm_align (length (cm_mdata m)) + length (cm_enc t))
      by (rewrite app_length, cm_enc1_length; reflexivity).
    pose proof (cm_align_ge (length (cm_mdata m))) as Hal.
    assert (((N.of_nat (16 + length (cm_mdata m)) <? 16)
             || (N.of_nat (length (cm_enc1 m ++ cm_enc t)) <? N.of_nat (16 + length (cm_mdata m))))%N = false) as -> by lia.
    rewrite Nat2N.id, cm_enc1_data, cm_enc1_rest by assumption.
    destruct ((cm_mlevel m =? 0) && (cm_mtype m =? 8))%N; [reflexivity|].
    destruct ((cm_mlevel m =? 41) && (cm_mtype m =? 50))%N; [reflexivity|].
    apply IH; lia.
Qed.

(* ParseLocalAddr on ancillary data built by the kernel: the destination address of the first PKTINFO message, whatever
   other messages precede or follow it; never a read past the slice *)
Theorem cm_parse_kernel ms : Forall cm_wf1 ms -> cm_parse (cm_enc ms) = cm_first_pktinfo ms.
Proof. intros H. unfold cm_parse. apply cm_parse_loop_enc; [assumption| |]; lia. Qed.

Lemma cm_first_pktinfo_safe ms : cm_first_pktinfo ms <> CmUnsafe /\ cm_first_pktinfo ms <> CmFuel.
Proof.
  induction ms as [|m t IH]; cbn [cm_first_pktinfo]; [split; discriminate|].
  destruct ((cm_mlevel m =? 0) && (cm_mtype m =? 8))%N; [destruct (_ <? 12); split; discriminate|].
  destruct ((cm_mlevel m =? 41) && (cm_mtype m =? 50))%N; [destruct (_ <? 20); split; discriminate|].
  exact IH.
Qed.

(* the latent flaw: a tail of 1..15 octets after a message makes the header cast read past the slice *)
Lemma cm_parse_unsafe_witness :
  cm_parse (cm_le_bytes 8 16 ++ cm_le_bytes 4 1 ++ cm_le_bytes 4 1 ++ [7%N]) = CmUnsafe.
Proof. vm_compute. reflexivity. Qed.

(* ---- the ancillary data of the response ----------------------------------------------------------------------------- *)

Lemma cm_base_length b s : length (cm_base b s) = s.
Proof.
  unfold cm_base. destruct (length b <? s) eqn:E; [apply repeat_length|]. rewrite firstn_length. lia.
Qed.

Lemma cm_list4 {A} (l : list A) : length l = 4 -> exists a b c d, l = [a; b; c; d].
Proof. destruct l as [|a [|b [|c [|d [|]]]]]; cbn; try discriminate. eauto 6. Qed.

Lemma cm_pack4_kernel b x : length x = 4 ->
  cm_kernel_src (cm_pack4 b x) = Some (Cm4 x, 0%N) /\ length (cm_pack4 b x) = 32.
Proof.
  intros Hx. unfold cm_pack4.
  assert (Ht : length (skipn 28 (cm_base b 32)) = 4) by (rewrite skipn_length, cm_base_length; reflexivity).
  destruct (cm_list4 _ Hx) as (x0 & x1 & x2 & x3 & ->).
  destruct (cm_list4 _ Ht) as (t0 & t1 & t2 & t3 & ->).
  split; vm_compute; reflexivity.
Qed.

Lemma cm_list16 {A} (l : list A) : length l = 16 ->
  exists a b c d e f g h i j k m n o p q, l = [a; b; c; d; e; f; g; h; i; j; k; m; n; o; p; q].
Proof.
  intros H. do 16 (destruct l as [|? l]; [discriminate H|]). destruct l; [|discriminate H].
  do 16 eexists. reflexivity.
Qed.

Lemma cm_pack6_kernel b x : length x = 16 ->
  cm_kernel_src (cm_pack6 b x) = Some (Cm6 x, 0%N) /\ length (cm_pack6 b x) = 40.
Proof.
  intros Hx. unfold cm_pack6.
  assert (Ht : length (skipn 36 (cm_base b 40)) = 4) by (rewrite skipn_length, cm_base_length; reflexivity).
  destruct (cm_list16 _ Hx) as (x0 & x1 & x2 & x3 & x4 & x5 & x6 & x7 & x8 & x9 & x10 & x11 & x12 & x13 & x14 & x15 & ->).
  destruct (cm_list4 _ Ht) as (t0 & t1 & t2 & t3 & ->).
  split; vm_compute; reflexivity.
Qed.

(* a valid netip.Addr *)
Definition cm_valid (a : cm_addr) : Prop :=
  match a with CmNone => False | Cm4 x => length x = 4 | Cm6 x => length x = 16 end.

Lemma cm_unmap_valid a : cm_valid a -> cm_valid (cm_unmap a).
Proof.
  destruct a as [|x|x]; cbn [cm_unmap]; auto. intros Hx. destruct (cm_is_mapped x); [|exact Hx].
  unfold cm_valid in *. rewrite skipn_length. lia.
Qed.

(* CmsgPktInfo, for every valid address and WHATEVER the recycled buffer b held: exactly one control message of
   CmsgSize octets, from which the kernel takes the (unmapped) address as the source and interface index 0 *)
Theorem cm_pktinfo_kernel b a : cm_valid a ->
  exists c, cm_pktinfo b a = Some c /\ cm_kernel_src c = Some (cm_unmap a, 0%N) /\ length c = cm_size a.
Proof.
  intros Hv. apply cm_unmap_valid in Hv. unfold cm_pktinfo, cm_size.
  destruct (cm_unmap a) as [|x|x]; cbn in Hv; [contradiction| |].
  - exists (cm_pack4 b x). destruct (cm_pack4_kernel b x Hv) as [H1 H2]. auto.
  - exists (cm_pack6 b x). destruct (cm_pack6_kernel b x Hv) as [H1 H2]. auto.
Qed.

Theorem cm_pktinfo_invalid b : cm_pktinfo b CmNone = None /\ cm_size CmNone = 0.
Proof. split; reflexivity. Qed.

(* the response leaves from the address the query was sent to: for ancillary data built by the kernel whose first
   PKTINFO names the valid address d, the response's ancillary data makes the kernel use d (unmapped), ifindex 0 *)
Theorem cm_reply_from_query_dst b ms d : Forall cm_wf1 ms -> cm_first_pktinfo ms = CmOk d -> cm_valid d ->
  exists c, cm_reply_oob b (cm_enc ms) = Some c /\ cm_kernel_src c = Some (cm_unmap d, 0%N).
Proof.
  intros Hwf Hd Hv. unfold cm_reply_oob. rewrite cm_parse_kernel, Hd by assumption.
  destruct (cm_pktinfo_kernel b d Hv) as (c & H1 & H2 & _). eauto.
Qed.

(* no PKTINFO in the ancillary data: no ancillary data on the response (the kernel routes it) *)
Theorem cm_reply_none b ms : Forall cm_wf1 ms -> cm_first_pktinfo ms = CmOk CmNone -> cm_reply_oob b (cm_enc ms) = None.
Proof. intros Hwf Hd. unfold cm_reply_oob. rewrite cm_parse_kernel, Hd by assumption. reflexivity. Qed.

(* non-vacuity: a v4 query at 10.1.2.3 behind a TTL message; a v4-mapped destination on a dual-stack socket *)
Definition cm_ex_ms : list cm_msg :=
  [ {| cm_mlevel := 0; cm_mtype := 2; cm_mdata := [64; 0; 0; 0]%N |};
    {| cm_mlevel := 0; cm_mtype := 8; cm_mdata := [2; 0; 0; 0; 10; 1; 2; 3; 10; 1; 2; 3]%N |} ].
Lemma cm_ex_ms_ok : Forall cm_wf1 cm_ex_ms /\ cm_first_pktinfo cm_ex_ms = CmOk (Cm4 [10; 1; 2; 3]%N) /\ cm_valid (Cm4 [10; 1; 2; 3]%N).
Proof.
  split; [|split; [reflexivity|reflexivity]].
  repeat constructor; cbn; lia.
Qed.
Lemma cm_ex_mapped : cm_unmap (Cm6 [0;0;0;0;0;0;0;0;0;0;255;255;192;0;2;1]%N) = Cm4 [192;0;2;1]%N.
Proof. reflexivity. Qed.
