(* Net/Framing.v — executable model of the stream framing of the TCP / gnet-TCP / DoT listeners.
   NO PROOFS HERE (the model must extract when a proof breaks); proofs are in Net/FramingProofs.v.

   Mirrors (pinned tree):
     internal/dnsutils/net_io.go      ReadMsgFromTCP   (io.ReadFull of 2 octets, then of <len> octets, then UnpackMsg)
     app/router/server_tcp.go         handleConn       (bufio.Reader of 1024 octets over the conn; loop; invalid msg => return;
                                                        per-connection atomic counter; REFUSED beyond the limit; handleReq = ONE c.Write)
     app/router/server_tcp_gnet_linux.go  OnTraffic    (connCtx{buffer, readN, readingHdr}; gnet.Conn.Next; goto read while
                                                        InboundBuffered() > 0; counter; c.Write / c.AsyncWrite of ONE buffer)
     app/router/server_utils.go       packRespTCP      (prefix and body in ONE buffer: be16 |body| ++ body)

   Library semantics that are modelled, not verified (DESIGN §6), each exercised by the correspondence check:
     bufio.Reader.Read   empty buffer: a read of >= cap octets goes straight to the conn, otherwise ONE conn read of up to
                         cap octets fills the buffer; then copy min(len p, buffered)
     io.ReadFull         repeats Read until the wanted count is there (0 wanted = no Read at all)
     net.Conn.Read       returns min(len p, what the kernel has of the current segment); never 0 octets (empty segments
                         are no event)
     gnet.Conn.Next(n)   fewer than n octets buffered: returns nil and consumes NOTHING;  n <= 0: returns EVERYTHING buffered;
                         otherwise exactly n octets.  Octets not consumed by OnTraffic stay buffered and are presented again,
                         followed by the new ones, at the next read event.
     bytespool.Get(n)    a slice of length n (n <= 0: empty) with arbitrary content (modelled as zeros)
*)
From Mos Require Import Base.Prelude Codec.Msg.

(* ------------------------------------------------------------------ the wire format *)
(* one frame: 2-octet big-endian length, then the body (what packRespTCP builds and ONE Write emits) *)
Definition unit_of (body : list N) : list N := be16 (N.of_nat (length body)) ++ body.
Definition stream_of (frames : list (list N)) : list N := concat (map unit_of frames).

(* a segmentation of s: chunks whose concatenation is s.  Empty chunks are not events: both readers skip them. *)
Definition segmentation (segs : list (list N)) (s : list N) : Prop := concat segs = s.

(* executable: cut s into chunks of the given sizes (a size 0 is read as 1), the remainder is the last chunk *)
Fixpoint cut_at (sizes : list nat) (s : list N) : list (list N) :=
  match s with
  | [] => []
  | _ => match sizes with
         | [] => [s]
         | k :: r => let k' := Nat.max 1 k in firstn k' s :: cut_at r (skipn k' s)
         end
  end.

Inductive rd_status := RdNeedMore | RdClosed.

(* what the property expects of a reader that is given the stream of [frames] and whose decoder accepts exactly [ok]:
   the frames in order, each once, up to the first one the decoder rejects (which closes the connection) *)
Fixpoint rd_expect (ok : list N -> bool) (frames : list (list N)) : list (list N) * rd_status :=
  match frames with
  | [] => ([], RdNeedMore)
  | f :: r => if ok f then let (fs, st) := rd_expect ok r in (f :: fs, st) else ([], RdClosed)
  end.

Definition u16_hd (b : list N) : N := u16_of (nth 0 b 0%N) (nth 1 b 0%N).

Section Readers.
  Variable ok : list N -> bool.        (* dnsmsg.UnpackMsg returns no error *)

  (* ---------------------------------------------------------------- (a) the TCP reader *)
  Variable cap : nat.                  (* bufio buffer size: 1024 (pool.NewBR1K) *)

  (* net.Conn.Read(p) with len p = n >= 1 *)
  Fixpoint conn_read (n : nat) (segs : list (list N)) : option (list N * list (list N)) :=
    match segs with
    | [] => None                                       (* nothing more will arrive: the reader stays blocked *)
    | s :: r =>
      match s with
      | [] => conn_read n r
      | _ => if length s <=? n then Some (s, r) else Some (firstn n s, skipn n s :: r)
      end
    end.

  (* bufio.Reader.Read(p), len p = n >= 1; br = the unread part of its buffer.  Some (data, br', segs') *)
  Definition br_read (n : nat) (br : list N) (segs : list (list N)) : option (list N * list N * list (list N)) :=
    match br with
    | [] =>
      if cap <=? n
      then match conn_read n segs with Some (d, segs') => Some (d, [], segs') | None => None end
      else match conn_read cap segs with Some (d, segs') => Some (firstn n d, skipn n d, segs') | None => None end
    | _ => Some (firstn n br, skipn n br, segs)
    end.

  Inductive rf := RFOk (data br : list N) (segs : list (list N)) | RFShort | RFFuel.

  (* io.ReadFull(br, buf) with len buf = want *)
  Fixpoint read_full (fuel want : nat) (br : list N) (segs : list (list N)) (acc : list N) : rf :=
    match want with
    | 0 => RFOk acc br segs
    | _ =>
      match fuel with
      | 0 => RFFuel
      | S f =>
        match br_read want br segs with
        | None => RFShort
        | Some (d, br', segs') => read_full f (want - length d) br' segs' (acc ++ d)
        end
      end
    end.

  (* handleConn's loop around ReadMsgFromTCP: the list of messages handed to the handler, then why it stopped *)
  Fixpoint tcp_conn (fuel : nat) (br : list N) (segs : list (list N)) : res (list (list N) * rd_status) :=
    match fuel with
    | 0 => OutOfFuel
    | S f =>
      match read_full 2 2 br segs [] with
      | RFFuel => OutOfFuel
      | RFShort => Ok ([], RdNeedMore)
      | RFOk hdr br1 segs1 =>
        let len := N.to_nat (u16_hd hdr) in
        match read_full len len br1 segs1 [] with
        | RFFuel => OutOfFuel
        | RFShort => Ok ([], RdNeedMore)
        | RFOk body br2 segs2 =>
          if ok body
          then do (fs, st) <- tcp_conn f br2 segs2; Ok (body :: fs, st)
          else Ok ([], RdClosed)                         (* invalid msg: handleConn returns, the conn is closed *)
        end
      end
    end.

  Definition tcp_run (segs : list (list N)) : res (list (list N) * rd_status) :=
    tcp_conn (S (length (concat segs))) [] segs.

  (* ---------------------------------------------------------------- (b) the gnet machine *)
  Record gstate := mkG { g_buf : option (list N); g_readN : nat; g_hdr : bool }.
  Definition g_init : gstate := mkG None 0 false.

  (* gnet.Conn.Next(n): (returned octets, what stays buffered) *)
  Definition gnet_next (n : Z) (inb : list N) : list N * list N :=
    if (Z.of_nat (length inb) <? n)%Z then ([], inb)
    else if (n <=? 0)%Z then (inb, [])
    else (firstn (Z.to_nat n) inb, skipn (Z.to_nat n) inb).

  Definition get_buf (n : nat) : list N := repeat 0%N n.

  (* n := copy(buf[at:], src)  — the slice expression panics when at > len buf *)
  Definition copy_into (buf : list N) (at_ : nat) (src : list N) : res (list N * nat) :=
    if length buf <? at_ then Panic else
    let n := Nat.min (length buf - at_) (length src) in
    Ok (firstn at_ buf ++ firstn n src ++ skipn (at_ + n) buf, n).

  (* one pass from the label "read:" to either `return gnet.None` (GWait) or a complete message (GGot) *)
  Inductive giter := GWait (st : gstate) (inb : list N) | GGot (m : list N) (st : gstate) (inb : list N).

  Definition body_phase (buf : list N) (readN : nat) (inb : list N) : res giter :=
    let bodyRemains := (Z.of_nat (length buf) - Z.of_nat readN)%Z in
    let (b, inb1) := gnet_next bodyRemains inb in
    do (buf1, n) <- copy_into buf readN b;
    let rn := readN + n in
    if rn <? length buf1 then Ok (GWait (mkG (Some buf1) rn false) inb1)
    else Ok (GGot buf1 (mkG None rn false) inb1).     (* cc.buffer = nil; readN and readingHdr keep their values *)

  Definition g_iter (st : gstate) (inb : list N) : res giter :=
    match g_buf st with
    | Some buf =>
      if g_hdr st then
        let hdrRemains := (Z.of_nat (length buf) - Z.of_nat (g_readN st))%Z in
        let (b, inb1) := gnet_next hdrRemains inb in
        do (buf1, n) <- copy_into buf (g_readN st) b;
        let rn := g_readN st + n in
        if rn <? 2 then Ok (GWait (mkG (Some buf1) rn true) inb1)
        else match buf1 with                           (* binary.BigEndian.Uint16(cc.buffer) *)
             | a :: b' :: _ => body_phase (get_buf (N.to_nat (u16_of a b'))) 0 inb1
             | _ => Panic
             end
      else body_phase buf (g_readN st) inb
    | None =>
      let (hdr, inb1) := gnet_next 2 inb in
      if length hdr <? 2 then
        do (buf1, n) <- copy_into (get_buf 2) 0 hdr;
        Ok (GWait (mkG (Some buf1) n true) inb1)        (* partial hdr *)
      else
        let l := N.to_nat (u16_hd hdr) in
        let (body, inb2) := gnet_next (Z.of_nat l) inb1 in
        if length body <? l then
          do (buf1, n) <- copy_into (get_buf l) 0 body;
          Ok (GWait (mkG (Some buf1) n false) inb2)     (* partial body *)
        else Ok (GGot body st inb2)
    end.

  Inductive gaction := GaNone | GaClose.

  (* OnTraffic: frames handed to the handler, connCtx after, octets left buffered, returned gaction *)
  Fixpoint on_traffic (fuel : nat) (st : gstate) (inb : list N)
    : res (list (list N) * gstate * list N * gaction) :=
    match fuel with
    | 0 => OutOfFuel
    | S f =>
      do r <- g_iter st inb;
      match r with
      | GWait st' inb' => Ok ([], st', inb', GaNone)
      | GGot m st' inb' =>
        if ok m then
          if 0 <? length inb'                          (* if c.InboundBuffered() > 0 { goto read } *)
          then do (fs, st2, inb2, a) <- on_traffic f st' inb'; Ok (m :: fs, st2, inb2, a)
          else Ok ([m], st', inb', GaNone)
        else Ok ([], st', inb', GaClose)                (* invalid msg: return gnet.Close *)
      end
    end.

  (* one read event per non-empty segment.  Result: frames, final status, and the trace
     (connCtx, octets left buffered, frames handed over by this event) after every event — the trace is what the
     deterministic correspondence kind compares with the real connCtx *)
  Definition gtrace := list (gstate * nat * nat * gaction).

  Fixpoint gnet_feed (st : gstate) (inb : list N) (segs : list (list N))
    : res (list (list N) * rd_status * gtrace) :=
    match segs with
    | [] => Ok ([], RdNeedMore, [])
    | s :: r =>
      match s with
      | [] => gnet_feed st inb r
      | _ =>
        let inb1 := inb ++ s in
        do (fs, st', inb', a) <- on_traffic (S (length inb1)) st inb1;
        match a with
        | GaClose => Ok (fs, RdClosed, [(st', length inb', length fs, a)])
        | GaNone => do (fs2, stt, tr) <- gnet_feed st' inb' r;
                   Ok (fs ++ fs2, stt, (st', length inb', length fs, a) :: tr)
        end
      end
    end.

  Definition gnet_run (segs : list (list N)) : res (list (list N) * rd_status) :=
    do (fs, stt, _) <- gnet_feed g_init [] segs; Ok (fs, stt).
End Readers.

(* ------------------------------------------------------------------ (c) writers *)
(* The client-side parse of the byte stream read back (also the oracle evaluated on the implementation's output):
   Some units iff the stream is a concatenation of whole frames. *)
Fixpoint parse_units (fuel : nat) (s : list N) : option (list (list N)) :=
  match s with
  | [] => Some []
  | a :: t1 =>
    match fuel with
    | 0 => None
    | S f =>
      match t1 with
      | b :: t =>
        let l := N.to_nat (u16_of a b) in
        if length t <? l then None
        else match parse_units f (skipn l t) with Some us => Some (firstn l t :: us) | None => None end
      | [] => None
      end
    end
  end.
Definition parse_stream (s : list N) : option (list (list N)) := parse_units (length s) s.

(* Small-step system of the writers of one connection.  State: responses whose handler is running (pending),
   the octets written so far, and (ghost) the bodies written, in write order.
   ws_start: a handler is spawned (or the reader is about to write REFUSED itself);
   ws_write: ONE Write/AsyncWrite call emits prefix+body — any pending response may be gnet_next (every completion order). *)
Definition wstate := (list (list N) * list N * list (list N))%type.
Inductive wreach : list (list N) -> wstate -> Prop :=
| wr_init : wreach [] ([], [], [])
| wr_start : forall started p o w b, wreach started (p, o, w) -> wreach (b :: started) (b :: p, o, w)
| wr_write : forall started p1 b p2 o w,
    wreach started (p1 ++ b :: p2, o, w) -> wreach started (p1 ++ p2, o ++ unit_of b, w ++ [b]).

(* executable schedule: at every step the index (into pending) of the response written gnet_next *)
Fixpoint write_sched (pending : list (list N)) (sched : list nat) (out : list N) : list N :=
  match sched with
  | [] => out
  | i :: r =>
    match nth_error pending i with
    | Some b => write_sched (firstn i pending ++ skipn (S i) pending) r (out ++ unit_of b)
    | None => write_sched pending r out
    end
  end.

(* the mutated writer (two Writes per response) for contrast: a schedule of (index, part) *)
Definition two_writes_interleaved (b1 b2 : list N) : list N :=
  be16 (N.of_nat (length b1)) ++ be16 (N.of_nat (length b2)) ++ b1 ++ b2.

(* ------------------------------------------------------------------ (d) the per-connection in-flight counter *)
(* cc := concurrent.Add(1); if cc > max { write REFUSED; concurrent.Add(-1) } else go { handle; write; concurrent.Add(-1) }
   Queries are named by their position on the connection.  infl_fl is ghost: accepted, not yet finished. *)
Inductive infl_ev := InflArrive (q : nat) | InflFinish (q : nat).
Inductive infl_out := InflRefused (q : nat) | InflAccepted (q : nat) | InflAnswer (q : nat).
Record infl_state := mkInfl { infl_n : nat; infl_fl : list nat }.
Definition infl_init : infl_state := mkInfl 0 [].

Fixpoint remove_one (q : nat) (l : list nat) : list nat :=
  match l with
  | [] => []
  | x :: r => if Nat.eqb x q then r else x :: remove_one q r
  end.
Fixpoint count_nat (q : nat) (l : list nat) : nat :=
  match l with [] => 0 | x :: r => (if Nat.eqb x q then 1 else 0) + count_nat q r end.

Definition infl_step (L : nat) (st : infl_state) (e : infl_ev) : option (infl_state * list infl_out) :=
  match e with
  | InflArrive q =>
    let cc := S (infl_n st) in
    if L <? cc then Some (mkInfl (cc - 1) (infl_fl st), [InflRefused q])
    else Some (mkInfl cc (q :: infl_fl st), [InflAccepted q])
  | InflFinish q =>
    if 0 <? count_nat q (infl_fl st) then Some (mkInfl (infl_n st - 1) (remove_one q (infl_fl st)), [InflAnswer q])
    else None                                          (* not a behaviour: only a running handler finishes *)
  end.

Fixpoint infl_run (L : nat) (st : infl_state) (evs : list infl_ev) : option (infl_state * list infl_out) :=
  match evs with
  | [] => Some (st, [])
  | e :: r =>
    match infl_step L st e with
    | None => None
    | Some (st1, o1) => match infl_run L st1 r with Some (st2, o2) => Some (st2, o1 ++ o2) | None => None end
    end
  end.

(* k queries arriving while no handler finishes (slow upstream): which are refused *)
Definition burst_refused (L k : nat) : list bool :=
  match infl_run L infl_init (map InflArrive (seq 0 k)) with
  | Some (_, outs) => map (fun o => match o with InflRefused _ => true | _ => false end) outs
  | None => []
  end.

(* ------------------------------------------------------------------ instances used by the runner *)
Definition dns_ok (b : list N) : bool := is_ok (unpack_msg b).
Definition cap1k : nat := N.to_nat 1024%N.
Definition tcp_run_dns (segs : list (list N)) := tcp_run dns_ok cap1k segs.
Definition gnet_feed_dns (segs : list (list N)) := gnet_feed dns_ok g_init [] segs.
Definition gnet_run_dns (segs : list (list N)) := gnet_run dns_ok segs.
