(* Net/ReuseProofs.v — invariants of the ReuseConnTransport LTS (Net/Reuse.v) over ALL reachable
   states: induction over arbitrary label_ru sequences, any number of connections / exchanges. *)
From Mos Require Import Base.Prelude Net.Reuse.

(* the connection a goroutine owns at program counter p *)
Definition held (p : wpc) : option nat :=
  match p with
  | DSend (Some c) | WWrite c | WRead c | WSend c _ | WRel1 c _ | WRel2 c true => Some c
  | _ => None
  end.
(* hard: between hand-over and enterIdle/close; soft: after enterIdle, before idleConns[rc] = {} *)
Definition hard (p : wpc) : bool := match p with WRel2 _ _ => false | _ => true end.

Definition cleanc (k : conn) : Prop :=
  i_written (io k) = i_consumed (io k) /\ i_partial (io k) = false /\ i_err (io k) = false /\
  s_unans (srv k) = [] /\ s_mid (srv k) = None /\ s_inbox (srv k) = [].

(* exactly one query (tag q) is in flight on k, somewhere between the server and the reader *)
Definition flight (q : nat) (k : conn) : Prop :=
  i_written (io k) = S (i_consumed (io k)) /\
  ( (s_unans (srv k) = [q] /\ s_mid (srv k) = None /\ s_inbox (srv k) = [] /\ i_partial (io k) = false)
 \/ (s_unans (srv k) = [] /\ s_mid (srv k) = None /\ s_inbox (srv k) = [Whole q] /\ i_partial (io k) = false)
 \/ (s_unans (srv k) = [] /\ s_mid (srv k) = Some q /\ s_inbox (srv k) = [Half1 q] /\ i_partial (io k) = false)
 \/ (s_unans (srv k) = [] /\ s_mid (srv k) = Some q /\ s_inbox (srv k) = [] /\ i_partial (io k) = true)
 \/ (s_unans (srv k) = [] /\ s_mid (srv k) = None /\ s_inbox (srv k) = [Half1 q; Half2 q] /\ i_partial (io k) = false)
 \/ (s_unans (srv k) = [] /\ s_mid (srv k) = None /\ s_inbox (srv k) = [Half2 q] /\ i_partial (io k) = true)).

Definition conn_ok (s : state_ru) (c : nat) : Prop :=
  let k := conns s c in
  i_written (io k) <= S (i_consumed (io k)) /\
  s_maxout (srv k) <= 1 /\ s_dirtyq (srv k) = false /\
  (i_err (io k) = false ->
     cleanc k \/ exists q w, flight q k /\ w_pc (works s w) = WRead c /\ w_exch (works s w) = q) /\
  (f_inidle (fl k) = true -> f_serving (fl k) = false /\ cleanc k).

Definition work_ok (s : state_ru) (w : nat) : Prop :=
  let k := works s w in let p := w_pc k in
  (forall c, held p = Some c ->
     c < nconn s /\ f_inidle (fl (conns s c)) = false /\
     (hard p = true -> f_serving (fl (conns s c)) = true /\ f_closed (fl (conns s c)) = false) /\
     (hard p = false -> f_serving (fl (conns s c)) = false)) /\
  (forall c, p = DSend (Some c) \/ p = WWrite c \/ p = WRel1 c true \/ p = WRel2 c true -> cleanc (conns s c)) /\
  (forall c, p = WRead c -> i_err (io (conns s c)) = false) /\
  (forall c q, p = WSend c (RMsg q) -> q = w_exch k /\ cleanc (conns s c)) /\
  (forall q, w_sent k = Some (RMsg q) -> q = w_exch k) /\
  (nwork s <= w -> p = WNone).

Definition uniq (s : state_ru) : Prop :=
  forall w1 w2 c, held (w_pc (works s w1)) = Some c -> held (w_pc (works s w2)) = Some c -> w1 = w2.

Definition exch_ok (s : state_ru) (e : nat) : Prop :=
  let x := exchs s e in
  (forall w, x_pc x = CDialWait w -> w < nwork s /\ w_exch (works s w) = e) /\
  (forall w b, x_pc x = CWait w b -> w < nwork s /\ w_exch (works s w) = e) /\
  (forall q, x_pc x = CDone (OMsg q) -> q = e).

Record Inv (s : state_ru) : Prop := mkInv {
  inv_nopanic : panicked s = false;
  inv_conn : forall c, conn_ok s c;
  inv_work : forall w, work_ok s w;
  inv_uniq : uniq s;
  inv_exch : forall e, exch_ok s e }.

Lemma inv_init : Inv ru_init.
Proof.
  split; cbn; auto.
  - intros c. unfold conn_ok, cleanc; cbn. repeat split; auto; try lia; try discriminate. intros _. left. repeat split; auto.
  - intros w. unfold work_ok; cbn. repeat split; intros; try discriminate; try congruence; try (intuition discriminate).
  - intros w1 w2 c; cbn. discriminate.
  - intros e. unfold exch_ok; cbn. repeat split; intros; discriminate.
Qed.

(* ---- frame lemmas ---- *)

(* what an owner relies on about its connection *)
Definition view (k k' : conn) : Prop :=
  f_inidle (fl k') = f_inidle (fl k) /\ f_serving (fl k') = f_serving (fl k) /\
  (f_serving (fl k) = true -> f_closed (fl k') = f_closed (fl k)) /\
  (cleanc k -> cleanc k') /\ (i_err (io k) = false -> i_err (io k') = false).

Lemma view_refl k : view k k.
Proof. unfold view; intuition. Qed.

Lemma conn_ok_frame s s' c :
  conns s' c = conns s c ->
  (forall w, w_pc (works s w) = WRead c -> works s' w = works s w) ->
  conn_ok s c -> conn_ok s' c.
Proof.
  unfold conn_ok. intros Hc Hw. rewrite Hc. intros (A & B & C & D & E).
  refine (conj A (conj B (conj C (conj _ E)))).
  intros He. destruct (D He) as [Hcl | (q & w & F & P & X)]; [left; auto|].
  right. exists q, w. rewrite (Hw w P). auto.
Qed.

Lemma work_ok_frame s s' w :
  works s' w = works s w -> nconn s <= nconn s' -> nwork s <= nwork s' ->
  (forall c, held (w_pc (works s w)) = Some c -> view (conns s c) (conns s' c)) ->
  work_ok s w -> work_ok s' w.
Proof.
  unfold work_ok. intros Hw Hn Hm Hv. rewrite Hw.
  intros (W1 & W2 & W3 & W4 & W5 & W6).
  refine (conj _ (conj _ (conj _ (conj _ (conj W5 _))))).
  - intros c H. destruct (W1 c H) as (A & B & C & D). destruct (Hv c H) as (V1 & V2 & V3 & _).
    split; [lia|]. split; [congruence|]. split.
    + intros Hh. destruct (C Hh) as [C1 C2]. split; [congruence|]. rewrite (V3 C1). auto.
    + intros Hh. rewrite V2. auto.
  - intros c Hp. assert (held (w_pc (works s w)) = Some c) as Hh by (destruct Hp as [->|[->|[->| ->]]]; reflexivity).
    destruct (Hv c Hh) as (_ & _ & _ & V4 & _). apply V4, W2, Hp.
  - intros c Hp. assert (held (w_pc (works s w)) = Some c) as Hh by (rewrite Hp; reflexivity).
    destruct (Hv c Hh) as (_ & _ & _ & _ & V5). apply V5, W3, Hp.
  - intros c q H. assert (held (w_pc (works s w)) = Some c) as Hh by (rewrite H; reflexivity).
    destruct (Hv c Hh) as (_ & _ & _ & V4 & _). destruct (W4 c q H). split; auto.
  - intros Hle. apply W6. lia.
Qed.

Lemma exch_ok_frame s s' e :
  exchs s' e = exchs s e -> nwork s <= nwork s' ->
  (forall w, w < nwork s -> w_exch (works s' w) = w_exch (works s w)) ->
  exch_ok s e -> exch_ok s' e.
Proof.
  unfold exch_ok. intros He Hn Hx. rewrite He. intros (A & B & C).
  refine (conj _ (conj _ C)).
  - intros w H. destruct (A w H). split; [lia|]. rewrite Hx; auto.
  - intros w b H. destruct (B w b H). split; [lia|]. rewrite Hx; auto.
Qed.

(* ---- ru_step patterns ---- *)

(* A: goroutine w acts on the connection it owns (and possibly lets go of it) *)
Lemma inv_worker_step s s' w c :
  Inv s -> held (w_pc (works s w)) = Some c ->
  panicked s' = false -> nconn s' = nconn s -> nwork s' = nwork s ->
  (forall c0, c0 <> c -> conns s' c0 = conns s c0) ->
  (forall w0, w0 <> w -> works s' w0 = works s w0) ->
  (forall e, exchs s' e = exchs s e) ->
  w_exch (works s' w) = w_exch (works s w) ->
  (held (w_pc (works s' w)) = Some c \/ held (w_pc (works s' w)) = None) ->
  conn_ok s' c -> work_ok s' w -> Inv s'.
Proof.
  intros I Hh Hp Hnc Hnw Hc Hw He Hx Hh' Cok Wok.
  split; auto.
  - intros c0. destruct (Nat.eq_dec c0 c) as [->|Ne]; auto.
    apply conn_ok_frame with s; [auto| |apply (inv_conn _ I)].
    intros w0 P. destruct (Nat.eq_dec w0 w) as [->|Nw]; auto.
    rewrite P in Hh. cbn in Hh. congruence.
  - intros w0. destruct (Nat.eq_dec w0 w) as [->|Nw]; auto.
    apply work_ok_frame with s; [auto|lia|lia| |apply (inv_work _ I)].
    intros c1 H1. destruct (Nat.eq_dec c1 c) as [->|Ne].
    + exfalso. apply Nw. apply (inv_uniq _ I w0 w c); auto.
    + rewrite Hc; auto. apply view_refl.
  - intros w1 w2 c1 H1 H2.
    destruct (Nat.eq_dec w1 w) as [->|N1]; destruct (Nat.eq_dec w2 w) as [->|N2]; auto.
    + rewrite Hw in H2 by auto. destruct Hh' as [Hh'|Hh']; rewrite Hh' in H1; [|discriminate].
      inversion H1; subst c1. symmetry. apply (inv_uniq _ I w2 w c); auto.
    + rewrite Hw in H1 by auto. destruct Hh' as [Hh'|Hh']; rewrite Hh' in H2; [|discriminate].
      inversion H2; subst c1. apply (inv_uniq _ I w1 w c); auto.
    + rewrite Hw in H1, H2 by auto. apply (inv_uniq _ I w1 w2 c1); auto.
  - intros e. apply exch_ok_frame with s; [auto|lia| |apply (inv_exch _ I)].
    intros w0 _. destruct (Nat.eq_dec w0 w) as [->|Nw]; auto. rewrite Hw; auto.
Qed.

(* B: the environment (timer, server, Close, a non-owner) changes connections only *)
Lemma inv_env_step s s' :
  Inv s -> panicked s' = false -> nconn s' = nconn s -> nwork s' = nwork s ->
  (forall w, works s' w = works s w) -> (forall e, exchs s' e = exchs s e) ->
  (forall c, view (conns s c) (conns s' c)) ->
  (forall c, conn_ok s' c) -> Inv s'.
Proof.
  intros I Hp Hnc Hnw Hw He Hv Cok. split; auto.
  - intros w. apply work_ok_frame with s; [auto|lia|lia|auto|apply (inv_work _ I)].
  - intros w1 w2 c. rewrite !Hw. apply (inv_uniq _ I).
  - intros e. apply exch_ok_frame with s; [auto|lia| |apply (inv_exch _ I)].
    intros w _. rewrite Hw; auto.
Qed.

(* C: a caller thread moves; connections and goroutines untouched *)
Lemma inv_caller_step s s' :
  Inv s -> panicked s' = false -> nconn s' = nconn s -> nwork s' = nwork s ->
  (forall w, works s' w = works s w) -> (forall c, conns s' c = conns s c) ->
  (forall e, exch_ok s' e) -> Inv s'.
Proof.
  intros I Hp Hnc Hnw Hw Hc Eok. split; auto.
  - intros c. apply conn_ok_frame with s; auto. apply (inv_conn _ I).
  - intros w. apply work_ok_frame with s; [auto|lia|lia| |apply (inv_work _ I)].
    intros c _. rewrite Hc. apply view_refl.
  - intros w1 w2 c. rewrite !Hw. apply (inv_uniq _ I).
Qed.

Lemma upd_same {A} (f : nat -> A) k v : ru_upd f k v k = v.
Proof. unfold ru_upd. rewrite Nat.eqb_refl. reflexivity. Qed.
Lemma upd_other {A} (f : nat -> A) k v i : i <> k -> ru_upd f k v i = f i.
Proof. unfold ru_upd. intros H. apply Nat.eqb_neq in H. rewrite H. reflexivity. Qed.

Ltac wfacts I w Ep :=
  let Ww := fresh "Ww" in
  pose proof (inv_work _ I w) as Ww; unfold work_ok in Ww; rewrite Ep in Ww; cbn in Ww.
Ltac dconn s c :=
  let k := fresh "k" in let Ek := fresh "Ek" in
  destruct (conns s c) as [[sv cl ar sk idl inc] [wr cs pt er] [un md ib ab mo dq] ow] eqn:Ek; cbn in *.

Ltac pcinv :=
  repeat match goal with
  | H : _ \/ _ |- _ => destruct H
  end; try discriminate;
  repeat match goal with
  | H : WNone = _ |- _ => inversion H; clear H; subst
  | H : DDial = _ |- _ => inversion H; clear H; subst
  | H : DSend _ = _ |- _ => inversion H; clear H; subst
  | H : WWrite _ = _ |- _ => inversion H; clear H; subst
  | H : WRead _ = _ |- _ => inversion H; clear H; subst
  | H : WSend _ _ = _ |- _ => inversion H; clear H; subst
  | H : WRel1 _ _ = _ |- _ => inversion H; clear H; subst
  | H : WRel2 _ _ = _ |- _ => inversion H; clear H; subst
  | H : Some _ = Some _ |- _ => inversion H; clear H; subst
  | H : None = Some _ |- _ => discriminate H
  | H : Some _ = None |- _ => discriminate H
  end.
Ltac usepc := repeat match goal with E : w_pc (works ?s ?w) = _ |- context [w_pc (works ?s ?w)] => rewrite E end.
Ltac wok := unfold work_ok; cbn; rewrite ?upd_same; cbn; rewrite ?upd_same; cbn; usepc; cbn;
  repeat split; intros; pcinv; rewrite ?upd_same; cbn; auto; try lia; try discriminate;
  try match goal with W : nwork _ <= _ -> _ = WNone, H : nwork _ <= _ |- _ => discriminate (W H) end.

(* B': goroutine w moves between program counters that own nothing; connections may change in a
   view-preserving way *)
Lemma inv_free_step s s' w :
  Inv s -> held (w_pc (works s w)) = None -> held (w_pc (works s' w)) = None ->
  panicked s' = false -> nconn s' = nconn s -> nwork s' = nwork s ->
  (forall w0, w0 <> w -> works s' w0 = works s w0) ->
  (forall e, exchs s' e = exchs s e) ->
  w_exch (works s' w) = w_exch (works s w) ->
  (forall c, view (conns s c) (conns s' c)) ->
  (forall c, conn_ok s' c) -> work_ok s' w -> Inv s'.
Proof.
  intros I Hh Hh' Hp Hnc Hnw Hw He Hx Hv Cok Wok. split; auto.
  - intros w0. destruct (Nat.eq_dec w0 w) as [->|Nw]; auto.
    apply work_ok_frame with s; [auto|lia|lia|auto|apply (inv_work _ I)].
  - intros w1 w2 c1 H1 H2.
    destruct (Nat.eq_dec w1 w) as [->|N1]; [congruence|].
    destruct (Nat.eq_dec w2 w) as [->|N2]; [congruence|].
    rewrite Hw in H1, H2 by auto. apply (inv_uniq _ I w1 w2 c1); auto.
  - intros e. apply exch_ok_frame with s; [auto|lia| |apply (inv_exch _ I)].
    intros w0 _. destruct (Nat.eq_dec w0 w) as [->|Nw]; auto. rewrite Hw; auto.
Qed.

Ltac frame_tac := cbn; intros; rewrite ?upd_other by auto; auto.

Lemma pres_write s w s' : Inv s -> st_write s w = Some s' -> Inv s'.
Proof.
  intros I. unfold st_write. destruct (w_pc (works s w)) eqn:Ep; try discriminate. intros H; inversion H; subst s'; clear H.
  wfacts I w Ep. destruct Ww as (W1 & W2 & W3 & W4 & W5 & W6).
  destruct (W1 c eq_refl) as (Hc & Hidle & Hhard & _). destruct (Hhard eq_refl) as [Hserv Hncl].
  assert (cleanc (conns s c)) as Hcl by (apply W2; auto).
  destruct (inv_conn _ I c) as (K1 & K2 & K3 & K4 & K5).
  unfold cleanc in *. dconn s c. destruct Hcl as (C1 & C2 & C3 & C4 & C5 & C6). subst.
  apply inv_worker_step with (s := s) (w := w) (c := c); cbn; rewrite ?upd_same; cbn; auto.
  - rewrite Ep; reflexivity.
  - apply (inv_nopanic _ I).
  - intros; apply upd_other; auto.
  - intros; apply upd_other; auto.
  - unfold conn_ok, cleanc, flight; cbn. rewrite !upd_same. cbn.
    split; [lia|]. split; [destruct ab; unfold owed; cbn; lia|]. split; [destruct ab; reflexivity|]. split.
    + intros _. right. exists (w_exch (works s w)), w. rewrite upd_same. cbn. intuition.
    + discriminate.
  - wok.
Qed.

Lemma pres_writeerr s w s' : Inv s -> st_writeerr s w = Some s' -> Inv s'.
Proof.
  intros I. unfold st_writeerr. destruct (w_pc (works s w)) eqn:Ep; try discriminate. intros H; inversion H; subst s'; clear H.
  wfacts I w Ep. destruct Ww as (W1 & W2 & W3 & W4 & W5 & W6).
  destruct (W1 c eq_refl) as (Hc & Hidle & Hhard & _). destruct (Hhard eq_refl) as [Hserv Hncl].
  assert (cleanc (conns s c)) as Hcl by (apply W2; auto).
  destruct (inv_conn _ I c) as (K1 & K2 & K3 & K4 & K5).
  unfold cleanc in *. dconn s c. destruct Hcl as (C1 & C2 & C3 & C4 & C5 & C6). subst.
  apply inv_worker_step with (s := s) (w := w) (c := c); cbn; rewrite ?upd_same; cbn; auto.
  - rewrite Ep; reflexivity.
  - apply (inv_nopanic _ I).
  - frame_tac.
  - frame_tac.
  - unfold conn_ok, cleanc, flight; cbn. rewrite !upd_same. cbn.
    repeat split; auto; try lia; discriminate.
  - wok.
Qed.

Ltac pick := first [ solve [repeat split; reflexivity] | left; pick | right; pick ].
Ltac cok := unfold conn_ok, cleanc, flight; cbn; rewrite ?upd_same; cbn.

Lemma pres_read s w s' : Inv s -> st_read s w = Some s' -> Inv s'.
Proof.
  intros I. unfold st_read. destruct (w_pc (works s w)) eqn:Ep; try discriminate.
  wfacts I w Ep. destruct Ww as (W1 & W2 & W3 & W4 & W5 & W6).
  destruct (W1 c eq_refl) as (Hc & Hidle & Hhard & _). destruct (Hhard eq_refl) as [Hserv Hncl].
  pose proof (W3 c eq_refl) as Herr.
  destruct (inv_conn _ I c) as (K1 & K2 & K3 & K4 & K5).
  destruct (K4 Herr) as [Hcl | (q & w0 & F & P & X)].
  - destruct Hcl as (_&_&_&_&_&C6). rewrite C6. discriminate.
  - assert (w0 = w) as -> by (apply (inv_uniq _ I w0 w c); [rewrite P|rewrite Ep]; reflexivity).
    unfold flight in F. dconn s c. destruct F as (F0 & F).
    destruct F as [F|[F|[F|[F|[F|F]]]]]; destruct F as (F1 & F2 & F3 & F4); subst; cbn; try discriminate;
    intros H; inversion H; subst s'; clear H;
    (apply inv_worker_step with (s := s) (w := w) (c := c); cbn; rewrite ?upd_same; cbn; auto;
     [rewrite Ep; reflexivity | apply (inv_nopanic _ I) | frame_tac | frame_tac | .. ]).
    all: try (rewrite Ep; auto).
    all: try solve [wok].
    all: cok.
    all: repeat split; try lia; auto; try discriminate; intros _.
    all: first [ left; solve [repeat split; reflexivity]
               | right; exists (w_exch (works s w)), w; rewrite ?upd_same; cbn; rewrite ?Ep; repeat split; auto; pick ].
Qed.

Ltac wstart I w :=
  let Ww := fresh "Ww" in
  pose proof (inv_work _ I w) as Ww; unfold work_ok in Ww;
  match goal with Ep : w_pc (works _ w) = _ |- _ => rewrite Ep in Ww end; cbn in Ww;
  destruct Ww as (W1 & W2 & W3 & W4 & W5 & W6).
Ltac astep I s w c Ep :=
  apply inv_worker_step with (s := s) (w := w) (c := c); cbn; rewrite ?upd_same; cbn; auto;
     [rewrite Ep; reflexivity | apply (inv_nopanic _ I) | frame_tac | frame_tac | .. ].

Ltac wok ::= unfold work_ok; cbn; rewrite ?upd_same; cbn; rewrite ?upd_same; cbn; usepc; cbn;
  repeat split; intros; pcinv; rewrite ?upd_same; cbn; auto; try lia; try discriminate;
  try match goal with W : nwork _ <= _ -> _ = WNone, H : nwork _ <= _ |- _ => discriminate (W H) end;
  try solve [unfold cleanc in *; cbn in *; intuition].

Lemma pres_readerr s w s' : Inv s -> st_readerr s w = Some s' -> Inv s'.
Proof.
  intros I. unfold st_readerr. destruct (w_pc (works s w)) eqn:Ep; try discriminate. intros H; inversion H; subst s'; clear H.
  wstart I w.
  destruct (W1 c eq_refl) as (Hc & Hidle & Hhard & _). destruct (Hhard eq_refl) as [Hserv Hncl].
  destruct (inv_conn _ I c) as (K1 & K2 & K3 & K4 & K5).
  dconn s c. subst.
  astep I s w c Ep.
  - cok. repeat split; auto; try lia; discriminate.
  - wok.
Qed.

(* the connection itself is untouched; only w's program counter moves away from / never was WRead *)
Lemma conn_ok_pc s s' w c :
  conns s' c = conns s c ->
  (forall w0, w0 <> w -> works s' w0 = works s w0) ->
  w_pc (works s w) <> WRead c ->
  conn_ok s c -> conn_ok s' c.
Proof.
  intros Hc Hw Hp. apply conn_ok_frame; auto.
  intros w0 P. destruct (Nat.eq_dec w0 w) as [->|N]; auto; contradiction.
Qed.

Lemma pres_sendres s w s' : Inv s -> st_sendres s w = Some s' -> Inv s'.
Proof.
  intros I. unfold st_sendres. destruct (w_pc (works s w)) eqn:Ep; try discriminate. intros H; inversion H; subst s'; clear H.
  wstart I w.
  destruct (W1 c eq_refl) as (Hc & Hidle & Hhard & _). destruct (Hhard eq_refl) as [Hserv Hncl].
  apply inv_worker_step with (s := s) (w := w) (c := c); cbn; rewrite ?upd_same; cbn; auto.
  - rewrite Ep; reflexivity.
  - apply (inv_nopanic _ I).
  - frame_tac.
  - apply conn_ok_pc with (s := s) (w := w); cbn; auto. frame_tac. rewrite Ep; discriminate. apply (inv_conn _ I).
  - destruct r; cbn.
    + destruct (W4 c q eq_refl) as [-> Hcl]. wok.
    + wok.
Qed.

Lemma pres_rel1 s w s' : Inv s -> st_rel1 s w = Some s' -> Inv s'.
Proof.
  intros I. unfold st_rel1. destruct (w_pc (works s w)) eqn:Ep; try discriminate.
  wstart I w.
  destruct (W1 c eq_refl) as (Hc & Hidle & Hhard & _). destruct (Hhard eq_refl) as [Hserv Hncl].
  destruct (inv_conn _ I c) as (K1 & K2 & K3 & K4 & K5).
  destruct ok.
  - rewrite Hserv. intros H; inversion H; subst s'; clear H.
    assert (cleanc (conns s c)) as Hcl by (apply W2; auto).
    unfold cleanc in Hcl. dconn s c. destruct Hcl as (C1 & C2 & C3 & C4 & C5 & C6). subst.
    astep I s w c Ep.
    + cok. repeat split; auto; try lia; try discriminate. intros _. left. repeat split; reflexivity.
    + wok.
  - intros H; inversion H; subst s'; clear H. unfold fl_close.
    dconn s c. subst. cbn.
    astep I s w c Ep.
    + cok. repeat split; auto; try lia; try discriminate.
      intros He. destruct (K4 He) as [Hcl | (q & w0 & F & P & X)]; [left; exact Hcl|].
      right. exists q, w0. rewrite upd_other; auto. intros ->. rewrite Ep in P. discriminate.
    + wok.
Qed.

Lemma pres_rel2 s w s' : Inv s -> st_rel2 s w = Some s' -> Inv s'.
Proof.
  intros I. unfold st_rel2. destruct (w_pc (works s w)) eqn:Ep; try discriminate.
  intros H; inversion H; subst s'; clear H.
  wstart I w.
  destruct (inv_conn _ I c) as (K1 & K2 & K3 & K4 & K5).
  destruct ok.
  - destruct (W1 c eq_refl) as (Hc & Hidle & _ & Hsoft). pose proof (Hsoft eq_refl) as Hserv.
    assert (cleanc (conns s c)) as Hcl by (apply W2; auto).
    unfold cleanc in Hcl. unfold fl_close. dconn s c. destruct Hcl as (C1 & C2 & C3 & C4 & C5 & C6). subst.
    astep I s w c Ep.
    + cok. destruct (t_closed s); [destruct cl|]; cbn; repeat split; auto; try lia; try discriminate;
        intros _; left; repeat split; reflexivity.
    + wok.
  - apply inv_free_step with (s := s) (w := w); cbn; rewrite ?upd_same; cbn; auto.
    + rewrite Ep; reflexivity.
    + apply (inv_nopanic _ I).
    + frame_tac.
    + intros c0. destruct (Nat.eq_dec c0 c) as [->|N]; [|rewrite upd_other by auto; apply view_refl].
      rewrite upd_same. unfold view, cleanc; cbn. destruct (t_closed s); cbn; intuition.
    + intros c0. destruct (Nat.eq_dec c0 c) as [->|N].
      * dconn s c. cok. destruct (t_closed s); cbn; (repeat split; auto; try lia; try discriminate;
        [intros He; destruct (K4 He) as [Hcl | (q & w0 & F & P & X)]; [left; exact Hcl|];
         right; exists q, w0; rewrite upd_other; auto; intros ->; rewrite Ep in P; discriminate | apply K5; auto .. ]).
      * apply conn_ok_pc with (s := s) (w := w); cbn; auto; [frame_tac | frame_tac | rewrite Ep; discriminate | apply (inv_conn _ I)].
    + wok.
Qed.

Lemma pres_dialabandon s w s' : Inv s -> st_dialabandon s w = Some s' -> Inv s'.
Proof.
  intros I. unfold st_dialabandon. destruct (w_pc (works s w)) eqn:Ep; try discriminate.
  destruct (x_cancel _); try discriminate.
  wstart I w.
  destruct oc as [c|]; intros H; inversion H; subst s'; clear H.
  - destruct (W1 c eq_refl) as (Hc & Hidle & Hhard & _). destruct (Hhard eq_refl) as [Hserv Hncl].
    assert (cleanc (conns s c)) as Hcl by (apply W2; auto).
    apply inv_worker_step with (s := s) (w := w) (c := c); cbn; rewrite ?upd_same; cbn; auto.
    + rewrite Ep; reflexivity.
    + apply (inv_nopanic _ I).
    + frame_tac.
    + apply conn_ok_pc with (s := s) (w := w); cbn; auto. frame_tac. rewrite Ep; discriminate. apply (inv_conn _ I).
    + wok.
  - apply inv_free_step with (s := s) (w := w); cbn; rewrite ?upd_same; cbn; auto.
    + rewrite Ep; reflexivity.
    + apply (inv_nopanic _ I).
    + frame_tac.
    + intros; apply view_refl.
    + intros c0. apply conn_ok_pc with (s := s) (w := w); cbn; auto. frame_tac. rewrite Ep; discriminate. apply (inv_conn _ I).
    + wok.
Qed.

Lemma pres_dialfail s w s' : Inv s -> st_dialfail s w = Some s' -> Inv s'.
Proof.
  intros I. unfold st_dialfail. destruct (w_pc (works s w)) eqn:Ep; try discriminate.
  wstart I w. intros H; inversion H; subst s'; clear H.
  apply inv_free_step with (s := s) (w := w); cbn; rewrite ?upd_same; cbn; auto.
  + rewrite Ep; reflexivity.
  + apply (inv_nopanic _ I).
  + frame_tac.
  + intros; apply view_refl.
  + intros c0. apply conn_ok_pc with (s := s) (w := w); cbn; auto. frame_tac. rewrite Ep; discriminate. apply (inv_conn _ I).
  + wok.
Qed.

(* ---- environment ---- *)
Ltac envstep I s :=
  apply inv_env_step with (s := s); cbn; auto; [apply (inv_nopanic _ I) | .. ].

Lemma pres_timer s c s' : Inv s -> st_timer s c = Some s' -> Inv s'.
Proof.
  intros I. unfold st_timer. destruct (inv_conn _ I c) as (K1 & K2 & K3 & K4 & K5).
  destruct (f_armed (fl (conns s c))) eqn:Ea; try discriminate.
  destruct (f_serving (fl (conns s c))) eqn:Es; intros H; inversion H; subst s'; clear H; envstep I s.
  all: try (intros c0; destruct (Nat.eq_dec c0 c) as [->|N]; [rewrite upd_same|rewrite upd_other by auto; apply view_refl];
            unfold view, cleanc; cbn; rewrite ?Es; intuition congruence).
  all: intros c0; destruct (Nat.eq_dec c0 c) as [->|N];
       [| apply conn_ok_frame with s; cbn; auto; [frame_tac | apply (inv_conn _ I)]].
  all: unfold conn_ok in *; cbn; rewrite upd_same; cbn; unfold cleanc, flight in *; cbn; rewrite ?Es; intuition.
Qed.

Lemma pres_srvabort s c s' : Inv s -> st_srvabort s c = Some s' -> Inv s'.
Proof.
  intros I. unfold st_srvabort. intros H; inversion H; subst s'; clear H.
  destruct (inv_conn _ I c) as (K1 & K2 & K3 & K4 & K5). envstep I s.
  - intros c0; destruct (Nat.eq_dec c0 c) as [->|N]; [rewrite upd_same|rewrite upd_other by auto; apply view_refl].
    unfold view, cleanc; cbn. intuition.
  - intros c0; destruct (Nat.eq_dec c0 c) as [->|N];
       [| apply conn_ok_frame with s; cbn; auto; [frame_tac | apply (inv_conn _ I)]].
    unfold conn_ok in *; cbn; rewrite upd_same; cbn; unfold cleanc, flight in *; cbn; intuition.
Qed.

Lemma mem_single q x : ru_mem q [x] = true -> x = q.
Proof. unfold ru_mem; cbn. rewrite orb_false_r. intros H. apply Nat.eqb_eq in H. auto. Qed.

Lemma pres_srvhalf2 s c s' : Inv s -> st_srvhalf2 s c = Some s' -> Inv s'.
Proof.
  intros I. unfold st_srvhalf2. destruct (inv_conn _ I c) as (K1 & K2 & K3 & K4 & K5).
  destruct (s_mid (srv (conns s c))) as [q|] eqn:Em; try discriminate.
  destruct (s_aborted _) eqn:Ea; try discriminate.
  intros H; inversion H; subst s'; clear H. envstep I s.
  - intros c0; destruct (Nat.eq_dec c0 c) as [->|N]; [rewrite upd_same|rewrite upd_other by auto; apply view_refl].
    unfold view, cleanc; cbn. rewrite Em. intuition discriminate.
  - intros c0; destruct (Nat.eq_dec c0 c) as [->|N];
       [| apply conn_ok_frame with s; cbn; auto; [frame_tac | apply (inv_conn _ I)]].
    unfold conn_ok; cbn; rewrite upd_same; cbn.
    split; auto. split; auto. split; auto. split.
    + intros He. destruct (K4 He) as [Hcl | (q0 & w0 & F & P & X)].
      * destruct Hcl as (_&_&_&_&C5&_). congruence.
      * right. exists q0, w0. split; auto. unfold flight in *. cbn.
        destruct F as (F0 & F). split; auto.
        destruct F as [F|[F|[F|[F|[F|F]]]]]; destruct F as (F1 & F2 & F3 & F4); try congruence;
          rewrite F2 in Em; inversion Em; subst; rewrite F1, F3, F4; cbn; pick.
    + intros Hi. destruct (K5 Hi) as (_ & (_&_&_&_&C5&_)). congruence.
Qed.

Lemma mem_nil q : ru_mem q [] = false.
Proof. reflexivity. Qed.

Lemma pres_srvreply s c q s' (first : bool) :
  Inv s ->
  (let cn := conns s c in let v := srv cn in
   if negb (s_aborted v) && ru_mem q (s_unans v) && negb (is_some (s_mid v)) then
     Some (set_conn s c (set_srv cn (mkSrv (remove1 q (s_unans v)) (if first then Some q else None)
                                           (s_inbox v ++ [if first then Half1 q else Whole q])
                                           (s_aborted v) (s_maxout v) (s_dirtyq v))))
   else None) = Some s' -> Inv s'.
Proof.
  intros I. cbn. destruct (inv_conn _ I c) as (K1 & K2 & K3 & K4 & K5).
  destruct (negb (s_aborted (srv (conns s c))) && ru_mem q (s_unans (srv (conns s c))) &&
            negb (is_some (s_mid (srv (conns s c))))) eqn:G; try discriminate.
  apply andb_true_iff in G. destruct G as [G Gm]. apply andb_true_iff in G. destruct G as [Ga Gu].
  intros H; inversion H; subst s'; clear H. envstep I s.
  - intros c0; destruct (Nat.eq_dec c0 c) as [->|N]; [rewrite upd_same|rewrite upd_other by auto; apply view_refl].
    unfold view, cleanc; cbn. repeat split; auto; exfalso; destruct H as (_&_&_&C4&_); rewrite C4 in Gu; discriminate.
  - intros c0; destruct (Nat.eq_dec c0 c) as [->|N];
       [| apply conn_ok_frame with s; cbn; auto; [frame_tac | apply (inv_conn _ I)]].
    unfold conn_ok; cbn; rewrite upd_same; cbn.
    split; auto. split; auto. split; auto. split.
    + intros He. destruct (K4 He) as [Hcl | (q0 & w0 & F & P & X)].
      * destruct Hcl as (_&_&_&C4&_). rewrite C4 in Gu; discriminate.
      * right. exists q0, w0. split; auto. unfold flight in *. cbn.
        destruct F as (F0 & F). split; auto.
        destruct F as [F|[F|[F|[F|[F|F]]]]]; destruct F as (F1 & F2 & F3 & F4);
          rewrite F1 in Gu; try discriminate.
        apply mem_single in Gu. subst q0. rewrite F1, F3, F4. cbn. rewrite Nat.eqb_refl.
        destruct first; pick.
    + intros Hi. destruct (K5 Hi) as (_ & (_&_&_&C4&_)). rewrite C4 in Gu; discriminate.
Qed.

Lemma pres_srvwhole s c q s' : Inv s -> st_srvwhole s c q = Some s' -> Inv s'.
Proof. intros I H. apply (pres_srvreply s c q s' false I H). Qed.
Lemma pres_srvhalf1 s c q s' : Inv s -> st_srvhalf1 s c q = Some s' -> Inv s'.
Proof. intros I H. apply (pres_srvreply s c q s' true I H). Qed.

Lemma pres_tclose s s' : Inv s -> st_tclose s = Some s' -> Inv s'.
Proof.
  intros I. unfold st_tclose. intros H; inversion H; subst s'; clear H. envstep I s.
  - intros c. destruct (f_inconns (fl (conns s c))); [|apply view_refl]. unfold view, cleanc; cbn. intuition.
  - intros c. destruct (inv_conn _ I c) as (K1 & K2 & K3 & K4 & K5).
    unfold conn_ok; cbn. destruct (f_inconns (fl (conns s c))); cbn; repeat split; auto; apply K5; auto.
Qed.

Ltac cstep I st := apply (inv_caller_step st); cbn; auto; [apply (inv_nopanic _ I) | ].
Ltac eother I st e0 := apply (exch_ok_frame st); cbn; auto; [frame_tac | apply (inv_exch _ I)].

Lemma pres_start s b s' : Inv s -> st_start s b = Some s' -> Inv s'.
Proof.
  intros I. unfold st_start. intros H; inversion H; subst s'; clear H. cstep I s.
  intros e. destruct (Nat.eq_dec e (nexch s)) as [->|N]; [|eother I s e].
  unfold exch_ok; cbn. rewrite upd_same; cbn. repeat split; intros; discriminate.
Qed.

Lemma pres_cancel s e s' : Inv s -> st_cancel s e = Some s' -> Inv s'.
Proof.
  intros I. unfold st_cancel. destruct (e <? nexch s); try discriminate.
  intros H; inversion H; subst s'; clear H. cstep I s.
  intros e0. destruct (Nat.eq_dec e0 e) as [->|N]; [|eother I s e0].
  pose proof (inv_exch _ I e) as X. unfold exch_ok in *; cbn. rewrite upd_same; cbn. exact X.
Qed.

Lemma pres_ctxdone s e s' : Inv s -> st_ctxdone s e = Some s' -> Inv s'.
Proof.
  intros I. unfold st_ctxdone. destruct (x_cancel (exchs s e)); try discriminate.
  destruct (x_pc (exchs s e)) eqn:Ep; try discriminate;
  intros H; inversion H; subst s'; clear H; cstep I s;
  intros e0; (destruct (Nat.eq_dec e0 e) as [->|N]; [|eother I s e0]);
  unfold exch_ok; cbn; rewrite upd_same; cbn; repeat split; intros; discriminate.
Qed.

Lemma pres_recv s e s' : Inv s -> st_recv s e = Some s' -> Inv s'.
Proof.
  intros I. unfold st_recv. destruct (x_pc (exchs s e)) eqn:Ep; try discriminate.
  destruct (inv_exch _ I e) as (X1 & X2 & X3). destruct (X2 w isnew Ep) as [Hw Hx].
  destruct (inv_work _ I w) as (_ & _ & _ & _ & W5 & _).
  destruct (w_sent (works s w)) as [[q|]|] eqn:Es; try discriminate.
  - intros H; inversion H; subst s'; clear H; cstep I s.
    intros e0; (destruct (Nat.eq_dec e0 e) as [->|N]; [|eother I s e0]).
    unfold exch_ok; cbn; rewrite upd_same; cbn; repeat split; intros; try discriminate.
    inversion H; subst. rewrite (W5 q0 eq_refl). auto.
  - destruct (negb isnew && (x_retry (exchs s e) <=? 5) && negb (x_cancel (exchs s e)));
    intros H; inversion H; subst s'; clear H; cstep I s;
    intros e0; (destruct (Nat.eq_dec e0 e) as [->|N]; [|eother I s e0]);
    unfold exch_ok; cbn; rewrite upd_same; cbn; repeat split; intros; discriminate.
Qed.

(* D: goroutine w (owning nothing, possibly a fresh slot) takes connection c that nobody owns *)
Lemma inv_acquire s s' w c :
  Inv s -> held (w_pc (works s w)) = None -> (forall w0, held (w_pc (works s w0)) <> Some c) ->
  panicked s' = false -> nconn s <= nconn s' -> nwork s <= nwork s' ->
  (forall c0, c0 <> c -> conns s' c0 = conns s c0) ->
  (forall w0, w0 <> w -> works s' w0 = works s w0) ->
  (forall e, exchs s' e = exchs s e) ->
  (w < nwork s -> w_exch (works s' w) = w_exch (works s w)) ->
  (held (w_pc (works s' w)) = Some c \/ held (w_pc (works s' w)) = None) ->
  conn_ok s' c -> work_ok s' w -> Inv s'.
Proof.
  intros I Hh Hno Hp Hnc Hnw Hc Hw He Hx Hh' Cok Wok. split; auto.
  - intros c0. destruct (Nat.eq_dec c0 c) as [->|Ne]; auto.
    apply conn_ok_frame with s; [auto| |apply (inv_conn _ I)].
    intros w0 P. destruct (Nat.eq_dec w0 w) as [->|Nw]; auto.
    rewrite P in Hh. discriminate.
  - intros w0. destruct (Nat.eq_dec w0 w) as [->|Nw]; auto.
    apply work_ok_frame with s; [auto|lia|lia| |apply (inv_work _ I)].
    intros c1 H1. destruct (Nat.eq_dec c1 c) as [->|Ne].
    + exfalso. apply (Hno w0); auto.
    + rewrite Hc; auto. apply view_refl.
  - intros w1 w2 c1 H1 H2.
    destruct (Nat.eq_dec w1 w) as [->|N1]; destruct (Nat.eq_dec w2 w) as [->|N2]; auto.
    + rewrite Hw in H2 by auto. destruct Hh' as [Hh'|Hh']; rewrite Hh' in H1; [|discriminate].
      inversion H1; subst c1. exfalso. apply (Hno w2); auto.
    + rewrite Hw in H1 by auto. destruct Hh' as [Hh'|Hh']; rewrite Hh' in H2; [|discriminate].
      inversion H2; subst c1. exfalso. apply (Hno w1); auto.
    + rewrite Hw in H1, H2 by auto. apply (inv_uniq _ I w1 w2 c1); auto.
  - intros e. apply exch_ok_frame with s; [auto|lia| |apply (inv_exch _ I)].
    intros w0 Hlt. destruct (Nat.eq_dec w0 w) as [->|Nw]; auto. rewrite Hw; auto.
Qed.

Lemma fresh_pc s w : Inv s -> nwork s <= w -> w_pc (works s w) = WNone.
Proof. intros I H. destruct (inv_work _ I w) as (_&_&_&_&_&W6). auto. Qed.

Lemma idle_unowned s c : Inv s -> f_inidle (fl (conns s c)) = true -> forall w0, held (w_pc (works s w0)) <> Some c.
Proof.
  intros I Hi w0 Hh. destruct (inv_work _ I w0) as (W1&_). destruct (W1 c Hh) as (_ & B & _). congruence.
Qed.

Lemma new_unowned s c : Inv s -> nconn s <= c -> forall w0, held (w_pc (works s w0)) <> Some c.
Proof.
  intros I Hi w0 Hh. destruct (inv_work _ I w0) as (W1&_). destruct (W1 c Hh) as (A & _). lia.
Qed.

Lemma pres_getnone s e s' : Inv s -> st_getnone s e = Some s' -> Inv s'.
Proof.
  intros I. unfold st_getnone. destruct (x_pc (exchs s e)) eqn:Ep; try discriminate.
  destruct (t_closed s).
  - intros H; inversion H; subst s'; clear H; cstep I s.
    intros e0; (destruct (Nat.eq_dec e0 e) as [->|N]; [|eother I s e0]).
    unfold exch_ok; cbn; rewrite upd_same; cbn; repeat split; intros; discriminate.
  - destruct (no_idle s); try discriminate. intros H; inversion H; subst s'; clear H.
    set (w := nwork s).
    set (s1 := mkState false (nconn s) (conns s) (nexch s) (exchs s) (S w)
                       (ru_upd (works s) w (mkWork e DDial None)) (panicked s)).
    assert (Inv s1) as I1.
    { apply inv_acquire with (s := s) (w := w) (c := nconn s); cbn; auto.
      - rewrite fresh_pc; auto.
      - apply new_unowned; auto.
      - apply (inv_nopanic _ I).
      - frame_tac.
      - unfold w; lia.
      - rewrite upd_same; auto.
      - apply conn_ok_frame with s; cbn; auto; [|apply (inv_conn _ I)].
        intros w0 P. apply upd_other. intros ->. rewrite fresh_pc in P; auto. discriminate.
      - unfold work_ok; cbn. rewrite upd_same; cbn. repeat split; intros; pcinv. unfold w in *; lia. }
    change (Inv (set_exch s1 e (set_xpc (exchs s e) (CDialWait w)))).  
    cstep I1 s1.
    intros e0; (destruct (Nat.eq_dec e0 e) as [->|N]; [|eother I1 s1 e0]).
    unfold exch_ok; cbn; rewrite !upd_same; cbn; repeat split; intros; try discriminate;
      inversion H; subst; auto; rewrite upd_same; auto.
Qed.

Lemma pres_dialdeliver s w s' : Inv s -> st_dialdeliver s w = Some s' -> Inv s'.
Proof.
  intros I. unfold st_dialdeliver. destruct (w_pc (works s w)) eqn:Ep; try discriminate.
  set (e := w_exch (works s w)).
  destruct (x_pc (exchs s e)) eqn:Ex; try discriminate.
  destruct (Nat.eqb w0 w) eqn:Ew; try discriminate. apply Nat.eqb_eq in Ew. subst w0.
  destruct (inv_exch _ I e) as (X1 & X2 & X3). destruct (X1 w Ex) as [Hw Hx].
  wstart I w.
  destruct oc as [c|]; intros H; inversion H; subst s'; clear H.
  - set (s1 := set_work s w (ru_set_pc (works s w) (WWrite c))).
    assert (Inv s1) as I1.
    { destruct (W1 c eq_refl) as (Hc & Hidle & Hhard & _). destruct (Hhard eq_refl) as [Hserv Hncl].
      assert (cleanc (conns s c)) as Hcl by (apply W2; auto).
      apply inv_worker_step with (s := s) (w := w) (c := c); cbn; rewrite ?upd_same; cbn; auto.
      + rewrite Ep; reflexivity.
      + apply (inv_nopanic _ I).
      + frame_tac.
      + apply conn_ok_pc with (s := s) (w := w); cbn; auto. frame_tac. rewrite Ep; discriminate. apply (inv_conn _ I).
      + wok. }
    cstep I1 s1.
    intros e0; (destruct (Nat.eq_dec e0 e) as [->|N]; [|eother I1 s1 e0]).
    unfold exch_ok; cbn; rewrite !upd_same; cbn; repeat split; intros; try discriminate;
      inversion H; subst; auto; rewrite upd_same; auto.
  - set (s1 := set_work s w (ru_set_pc (works s w) WNone)).
    assert (Inv s1) as I1.
    { apply inv_free_step with (s := s) (w := w); cbn; rewrite ?upd_same; cbn; auto.
      + rewrite Ep; reflexivity.
      + apply (inv_nopanic _ I).
      + frame_tac.
      + intros; apply view_refl.
      + intros c0. apply conn_ok_pc with (s := s) (w := w); cbn; auto. frame_tac. rewrite Ep; discriminate. apply (inv_conn _ I).
      + wok. }
    cstep I1 s1.
    intros e0; (destruct (Nat.eq_dec e0 e) as [->|N]; [|eother I1 s1 e0]).
    unfold exch_ok; cbn; rewrite !upd_same; cbn; repeat split; intros; discriminate.
Qed.

Lemma pres_dialok s w s' : Inv s -> st_dialok s w = Some s' -> Inv s'.
Proof.
  intros I. unfold st_dialok. destruct (w_pc (works s w)) eqn:Ep; try discriminate.
  wstart I w.
  destruct (t_closed s); intros H; inversion H; subst s'; clear H;
  (apply inv_acquire with (s := s) (w := w) (c := nconn s); cbn; rewrite ?upd_same; cbn; auto).
  all: try (rewrite Ep; reflexivity).
  all: try (apply new_unowned; auto).
  all: try (apply (inv_nopanic _ I)).
  all: try solve [frame_tac].
  all: try solve [wok].
  all: cok; repeat split; auto; try lia; try discriminate; left; repeat split; reflexivity.
Qed.

Lemma pres_getidle s e c s' : Inv s -> st_getidle s e c = Some s' -> Inv s'.
Proof.
  intros I. unfold st_getidle. destruct (x_pc (exchs s e)) eqn:Ex; try discriminate.
  destruct (t_closed s) eqn:Et; try discriminate.
  destruct (c <? nconn s) eqn:Hlt; try discriminate. apply Nat.ltb_lt in Hlt.
  destruct (f_inidle (fl (conns s c))) eqn:Ei; try discriminate. cbn.
  destruct (inv_conn _ I c) as (K1 & K2 & K3 & K4 & K5). destruct (K5 Ei) as [Hserv Hcl].
  pose proof (idle_unowned s c I Ei) as Hno.
  pose proof (fresh_pc s (nwork s) I (le_n _)) as Hfresh.
  unfold cleanc in Hcl. rewrite Hserv.
  destruct (f_closed (fl (conns s c))) eqn:Ec; [|destruct (f_sock (fl (conns s c))) eqn:Ek];
  intros H; inversion H; subst s'; clear H.
  - dconn s c. destruct Hcl as (C1 & C2 & C3 & C4 & C5 & C6). subst.
    apply inv_acquire with (s := s) (w := nwork s) (c := c); cbn; auto.
    all: try (rewrite Hfresh; reflexivity).
    all: try (apply (inv_nopanic _ I)).
    all: try solve [frame_tac].
    all: try solve [apply work_ok_frame with s; cbn; auto; [rewrite Hfresh; discriminate | apply (inv_work _ I)]].
    all: try solve [right; rewrite Hfresh; reflexivity].
    all: cok; repeat split; auto; try lia; try discriminate; left; repeat split; reflexivity.
  - dconn s c. destruct Hcl as (C1 & C2 & C3 & C4 & C5 & C6). subst.
    apply inv_acquire with (s := s) (w := nwork s) (c := c); cbn; auto.
    all: try (rewrite Hfresh; reflexivity).
    all: try (apply (inv_nopanic _ I)).
    all: try solve [frame_tac].
    all: try solve [apply work_ok_frame with s; cbn; auto; [rewrite Hfresh; discriminate | apply (inv_work _ I)]].
    all: try solve [right; rewrite Hfresh; reflexivity].
    all: cok; repeat split; auto; try lia; try discriminate; left; repeat split; reflexivity.
  - set (w := nwork s).
    set (s1 := mkState (t_closed s) (nconn s)
                 (ru_upd (conns s) c (mkConn (mkFl true false false false false (f_inconns (fl (conns s c))))
                                          (io (conns s c)) (srv (conns s c)) (Some e)))
                 (nexch s) (exchs s) (S w) (ru_upd (works s) w (mkWork e (WWrite c) None)) (panicked s)).
    assert (Inv s1) as I1.
    { dconn s c. destruct Hcl as (C1 & C2 & C3 & C4 & C5 & C6). subst.
      apply inv_acquire with (s := s) (w := w) (c := c); cbn; rewrite ?upd_same; cbn; auto.
      all: try (rewrite Hfresh; reflexivity).
      all: try (apply (inv_nopanic _ I)).
      all: try solve [frame_tac].
      all: try solve [unfold w; lia].
      all: try solve [wok; unfold w in *; lia].
      all: try solve [unfold w; rewrite Hfresh; reflexivity].
      all: unfold s1; cok; repeat split; auto; try lia; try discriminate; left; repeat split; reflexivity. }
    change (Inv (set_exch s1 e (set_xpc (exchs s e) (CWait w false)))).
    cstep I1 s1.
    intros e0; (destruct (Nat.eq_dec e0 e) as [->|N]; [|eother I1 s1 e0]).
    unfold exch_ok; cbn; rewrite !upd_same; cbn; repeat split; intros; try discriminate;
      inversion H; subst; auto; rewrite upd_same; auto.
Qed.

Theorem step_inv s l s' : Inv s -> ru_step s l = Some s' -> Inv s'.
Proof.
  intros I. unfold ru_step. rewrite (inv_nopanic _ I).
  destruct l.
  - apply pres_start; auto.
  - apply pres_cancel; auto.
  - apply pres_tclose; auto.
  - apply pres_getidle; auto.
  - apply pres_getnone; auto.
  - apply pres_dialok; auto.
  - apply pres_dialfail; auto.
  - apply pres_dialdeliver; auto.
  - apply pres_dialabandon; auto.
  - apply pres_ctxdone; auto.
  - apply pres_recv; auto.
  - apply pres_write; auto.
  - apply pres_writeerr; auto.
  - apply pres_read; auto.
  - apply pres_readerr; auto.
  - apply pres_sendres; auto.
  - apply pres_rel1; auto.
  - apply pres_rel2; auto.
  - apply pres_timer; auto.
  - apply pres_srvwhole; auto.
  - apply pres_srvhalf1; auto.
  - apply pres_srvhalf2; auto.
  - apply pres_srvabort; auto.
Qed.

Lemma steps_inv ls : forall s s', Inv s -> steps s ls = Some s' -> Inv s'.
Proof.
  induction ls as [|l r IH]; cbn; intros s s' I H.
  - inversion H; subst; auto.
  - destruct (ru_step s l) as [s1|] eqn:E; try discriminate. apply (IH s1); auto. apply (step_inv s l); auto.
Qed.

Theorem reachable_inv s : reachable s -> Inv s.
Proof. intros [ls H]. apply (steps_inv ls ru_init); auto. apply inv_init. Qed.

Lemma steps_app a : forall s b, steps s (a ++ b) = match steps s a with Some s1 => steps s1 b | None => None end.
Proof.
  induction a as [|l r IH]; cbn; intros; auto. destruct (ru_step s l); auto.
Qed.

Lemma reachable_step s l s' : reachable s -> ru_step s l = Some s' -> reachable s'.
Proof.
  intros [ls H] E. exists (ls ++ [l]). rewrite steps_app, H. cbn. rewrite E. reflexivity.
Qed.

(* ---- the big-ru_step runs are schedules of the small-ru_step system ---- *)
Lemma do_labels_steps ls : forall s tr s' tr',
  do_labels s ls tr = Some (s', tr') -> exists m, tr' = rev m ++ tr /\ steps s m = Some s'.
Proof.
  induction ls as [|l r IH]; cbn; intros s tr s' tr' H.
  - inversion H; subst. exists []. auto.
  - destruct (ru_step s l) as [s1|] eqn:E; try discriminate.
    destruct (IH _ _ _ _ H) as (m & -> & Hm). exists (l :: m). cbn. rewrite E. split; auto.
    rewrite <- app_assoc. reflexivity.
Qed.

Lemma settle_steps fuel : forall s tr s' tr',
  settle fuel s tr = Some (s', tr') -> exists m, tr' = rev m ++ tr /\ steps s m = Some s'.
Proof.
  induction fuel as [|f IH]; cbn; intros s tr s' tr' H.
  - destruct (next_label s); try discriminate. inversion H; subst. exists []. auto.
  - destruct (next_label s) as [l|]; [|inversion H; subst; exists []; auto].
    destruct (ru_step s l) as [s1|] eqn:E; try discriminate.
    destruct (IH _ _ _ _ H) as (m & -> & Hm). exists (l :: m). cbn. rewrite E. split; auto.
    rewrite <- app_assoc. reflexivity.
Qed.

Lemma run_events_steps evs : forall s tr s' tr',
  run_events (s, tr) evs = Some (s', tr') -> exists m, tr' = rev m ++ tr /\ steps s m = Some s'.
Proof.
  induction evs as [|ev r IH]; intros s tr s' tr' H.
  - inversion H; subst. exists []. auto.
  - assert (exists st1, run_event (s, tr) ev = Some st1 /\ run_events st1 r = Some (s', tr')) as ([s2 tr2] & R1 & R2).
    { change (match run_event (s, tr) ev with Some st' => run_events st' r | None => None end = Some (s', tr')) in H.
      destruct (run_event (s, tr) ev) as [st1|]; [exists st1; auto|discriminate]. }
    unfold run_event in R1.
    destruct (do_labels s (env_labels s ev) tr) as [[s1 tr1]|] eqn:E1; try discriminate.
    destruct (do_labels_steps _ _ _ _ _ E1) as (m1 & -> & H1).
    destruct (settle_steps _ _ _ _ _ R1) as (m2 & -> & H2).
    destruct (IH _ _ _ _ R2) as (m3 & -> & H3).
    exists (m1 ++ m2 ++ m3). rewrite steps_app, H1, steps_app, H2, H3. split; auto.
    rewrite !rev_app_distr, <- !app_assoc. reflexivity.
Qed.

Theorem big_refines_small evs s tr : run_trace evs = Some (s, tr) -> steps ru_init tr = Some s.
Proof.
  unfold run_trace. destruct (run_events (ru_init, []) evs) as [[s1 tr1]|] eqn:E; try discriminate.
  intros H; inversion H; subst. destruct (run_events_steps _ _ _ _ _ E) as (m & -> & Hm).
  rewrite app_nil_r, rev_involutive. auto.
Qed.

Theorem run_history_reachable evs s : run_history evs = Some s -> reachable s.
Proof.
  unfold run_history. destruct (run_trace evs) as [[s1 tr]|] eqn:E; try discriminate.
  intros H; inversion H; subst. exists tr. apply (big_refines_small evs); auto.
Qed.

Ltac dmatch H :=
  repeat match type of H with
  | context [match ?x with _ => _ end] => destruct x eqn:?; try discriminate H
  | context [if ?x then _ else _] => destruct x eqn:?; try discriminate H
  end.

Lemma idle_only_by_rel2 s l s' c :
  ru_step s l = Some s' ->
  f_inidle (fl (conns s c)) = false -> f_inidle (fl (conns s' c)) = true ->
  exists w, l = LRel2 w /\ w_pc (works s w) = WRel2 c true.
Proof.
  unfold ru_step. destruct (panicked s); try discriminate.
  destruct l; intros H Hb Ha.
  18: { unfold st_rel2 in H. destruct (w_pc (works s w)) eqn:Ep; try discriminate.
        inversion H; subst s'; clear H. cbn in Ha. unfold ru_upd in Ha.
        destruct (Nat.eqb c c0) eqn:Ec.
        - apply Nat.eqb_eq in Ec. subst c0. exists w. split; auto.
          cbn in Ha. unfold fl_close in Ha. destruct ok; auto.
          destruct (t_closed s); cbn in Ha; congruence.
        - congruence. }
  all: exfalso.
  all: unfold st_start, st_cancel, st_tclose, st_getidle, st_getnone, st_dialok, st_dialfail, st_dialdeliver,
         st_dialabandon, st_ctxdone, st_recv, st_write, st_writeerr, st_read, st_readerr, st_sendres, st_rel1,
         st_timer, st_srvwhole, st_srvhalf1, st_srvhalf2, st_srvabort, fl_close in H.
  all: dmatch H; inversion H; subst s'; clear H; cbn in Ha; unfold ru_upd in Ha.
  all: try congruence.
  all: repeat match type of Ha with context [if ?x then _ else _] => destruct x eqn:? end; cbn in Ha; try congruence.
  all: try (match goal with E : Nat.eqb _ _ = true |- _ => apply Nat.eqb_eq in E; subst end; cbn in *; congruence).
Qed.

(* ---- the C06 statements ---- *)

Lemma single_outstanding s c : reachable s ->
  i_written (io (conns s c)) <= S (i_consumed (io (conns s c))).
Proof. intros R. destruct (inv_conn _ (reachable_inv s R) c) as (K1 & _). exact K1. Qed.

Lemma server_view s c : reachable s ->
  s_maxout (srv (conns s c)) <= 1 /\ s_dirtyq (srv (conns s c)) = false.
Proof. intros R. destruct (inv_conn _ (reachable_inv s R) c) as (_ & K2 & K3 & _). auto. Qed.

Lemma idle_clean s c : reachable s -> f_inidle (fl (conns s c)) = true ->
  f_serving (fl (conns s c)) = false /\
  i_written (io (conns s c)) = i_consumed (io (conns s c)) /\
  i_partial (io (conns s c)) = false /\ i_err (io (conns s c)) = false /\
  s_unans (srv (conns s c)) = [] /\ s_mid (srv (conns s c)) = None /\ s_inbox (srv (conns s c)) = [].
Proof.
  intros R Hi. destruct (inv_conn _ (reachable_inv s R) c) as (_ & _ & _ & _ & K5).
  destruct (K5 Hi) as [A B]. split; auto.
Qed.

Lemma never_panics s : reachable s -> panicked s = false.
Proof. intros R. apply (inv_nopanic _ (reachable_inv s R)). Qed.

Lemma exclusive s w1 w2 c : reachable s ->
  held (w_pc (works s w1)) = Some c -> held (w_pc (works s w2)) = Some c -> w1 = w2.
Proof. intros R. apply (inv_uniq _ (reachable_inv s R)). Qed.

Lemma owner_facts s w c : reachable s -> held (w_pc (works s w)) = Some c ->
  c < nconn s /\ f_inidle (fl (conns s c)) = false /\
  (hard (w_pc (works s w)) = true -> f_serving (fl (conns s c)) = true /\ f_closed (fl (conns s c)) = false).
Proof.
  intros R H. destruct (inv_work _ (reachable_inv s R) w) as (W1 & _).
  destruct (W1 c H) as (A & B & C & _). auto.
Qed.

Lemma own_reply s e q : reachable s -> x_pc (exchs s e) = CDone (OMsg q) -> q = e.
Proof. intros R H. destruct (inv_exch _ (reachable_inv s R) e) as (_ & _ & X3). auto. Qed.

Lemma own_result s w q : reachable s -> w_sent (works s w) = Some (RMsg q) -> q = w_exch (works s w).
Proof. intros R H. destruct (inv_work _ (reachable_inv s R) w) as (_ & _ & _ & _ & W5 & _). auto. Qed.

(* a connection enters the idle set only through the second half of releaseConn of the goroutine
   that owns it, and then it is clean *)
Lemma becomes_idle s l s' c : reachable s -> ru_step s l = Some s' ->
  f_inidle (fl (conns s c)) = false -> f_inidle (fl (conns s' c)) = true ->
  exists w, l = LRel2 w /\ w_pc (works s w) = WRel2 c true /\
            f_serving (fl (conns s c)) = false /\ cleanc (conns s c).
Proof.
  intros R H Hb Ha. destruct (idle_only_by_rel2 s l s' c H Hb Ha) as (w & -> & Hp).
  exists w. split; auto. split; auto.
  destruct (inv_work _ (reachable_inv s R) w) as (W1 & W2 & _). rewrite Hp in W1, W2.
  destruct (W1 c eq_refl) as (_ & _ & _ & D). split; [apply D; reflexivity|]. apply W2; auto.
Qed.

(* the caller giving up touches neither connections nor goroutines *)
Lemma ctxdone_local s e s' : ru_step s (LCallerCtxDone e) = Some s' ->
  conns s' = conns s /\ works s' = works s /\ nconn s' = nconn s /\ x_pc (exchs s' e) = CDone OCancel.
Proof.
  unfold ru_step, st_ctxdone. destruct (panicked s); try discriminate.
  destruct (x_cancel (exchs s e)); try discriminate.
  destruct (x_pc (exchs s e)); try discriminate; intros H; inversion H; cbn; rewrite upd_same; auto.
Qed.

(* ---- the statements of Props/C06.v ---- *)

Lemma c06_single_outstanding : forall s c, reachable s ->
  i_written (io (conns s c)) <= S (i_consumed (io (conns s c))) /\
  s_maxout (srv (conns s c)) <= 1 /\ s_dirtyq (srv (conns s c)) = false.
Proof. intros s c R. split; [apply single_outstanding; auto | apply server_view; auto]. Qed.

Lemma c06_exclusive : forall s, reachable s ->
  panicked s = false /\
  (forall l s', ru_step s l = Some s' -> panicked s' = false) /\
  (forall w1 w2 c, held (w_pc (works s w1)) = Some c -> held (w_pc (works s w2)) = Some c -> w1 = w2) /\
  (forall w c, held (w_pc (works s w)) = Some c -> f_inidle (fl (conns s c)) = false).
Proof.
  intros s R. split; [apply never_panics; auto|]. split.
  - intros l s' H. apply never_panics. apply (reachable_step s l); auto.
  - split; [intros w1 w2 c; apply exclusive; auto|].
    intros w c H. destruct (owner_facts s w c R H) as (_ & B & _). exact B.
Qed.

Lemma c06_own_reply : forall s, reachable s ->
  (forall e q, x_pc (exchs s e) = CDone (OMsg q) -> q = e) /\
  (forall w q, w_sent (works s w) = Some (RMsg q) -> q = w_exch (works s w)).
Proof. intros s R. split; [intros e q; apply own_reply; auto | intros w q; apply own_result; auto]. Qed.

Lemma c06_abandoned : forall s, reachable s ->
  (forall e s', ru_step s (LCallerCtxDone e) = Some s' ->
     conns s' = conns s /\ works s' = works s /\ nconn s' = nconn s /\ x_pc (exchs s' e) = CDone OCancel) /\
  (forall w c, held (w_pc (works s w)) = Some c ->
     f_inidle (fl (conns s c)) = false /\
     (hard (w_pc (works s w)) = true -> f_serving (fl (conns s c)) = true /\ f_closed (fl (conns s c)) = false) /\
     (forall w', held (w_pc (works s w')) = Some c -> w' = w)) /\
  (forall l s' c, ru_step s l = Some s' ->
     f_inidle (fl (conns s c)) = false -> f_inidle (fl (conns s' c)) = true ->
     exists w, l = LRel2 w /\ w_pc (works s w) = WRel2 c true /\
               f_serving (fl (conns s c)) = false /\ cleanc (conns s c)) /\
  (forall c, i_err (io (conns s c)) = true -> f_inidle (fl (conns s c)) = false).
Proof.
  intros s R. split; [intros e s'; apply ctxdone_local|]. split.
  - intros w c H. destruct (owner_facts s w c R H) as (_ & B & C). split; auto. split; auto.
    intros w' H'. apply (exclusive s w' w c); auto.
  - split; [intros l s' c; apply becomes_idle; auto|].
    intros c He. destruct (f_inidle (fl (conns s c))) eqn:Ei; auto.
    destruct (idle_clean s c R Ei) as (_ & _ & _ & E & _). congruence.
Qed.

Lemma c06_big_refines_small : forall evs s tr,
  run_trace evs = Some (s, tr) -> steps ru_init tr = Some s /\ reachable s.
Proof. intros evs s tr H. split; [apply (big_refines_small evs); auto|]. exists tr. apply (big_refines_small evs); auto. Qed.
