(* Net/UpHistoryProofs.v — histories of exchanges do not change verdicts (no resumption state / one cache per
   upstream); a shared resumption cache does.  Names are resolved per connection; resolving once is different. *)
From Mos Require Import Base.Prelude Net.Addr Net.TlsCfg Net.AddrProofs Net.UpCfg Net.UpCfgProofs
  Net.UpRouter Net.UpRouterProofs Net.UpHistory.

Local Open Scope N_scope.

Section HistProofs.
  Variable cert : Type.
  Variable chains_to : ca_pool -> cert -> bool.
  Variable name_matches : cert -> list N -> bool.
  Variable time_valid : cert -> bool.

  Notation accepts := (upr_accepts cert chains_to name_matches time_valid).
  Notation connect := (upr_connect cert chains_to name_matches time_valid).
  Notation history := (upr_history cert chains_to name_matches time_valid).

  (* the verdict the upstream at index i gives ALONE, on a fresh process *)
  Definition alone (us : list (list N * upc_upstream)) (peer : option cert) (i : nat) : bool :=
    match nth_error us i with Some (_, u) => accepts u peer | None => false end.

  (* no resumption state: every connection is a full handshake *)
  Lemma connect_none cache i u peer : connect SessNone cache i u peer = (accepts u peer, cache).
  Proof.
    unfold upr_connect, upr_accepts. destruct (uu_tls u) as [t|]; [|reflexivity].
    destruct (ep_sni (uu_ep u)) as [sni|]; reflexivity.
  Qed.

  Lemma history_none us steps peer : forall cache,
    history SessNone us cache steps peer = map (alone us peer) steps.
  Proof.
    induction steps as [|i rest IH]; intros cache; [reflexivity|].
    cbn [upr_history map]. unfold alone at 1. destruct (nth_error us i) as [[tag u]|].
    - rewrite connect_none. rewrite IH. reflexivity.
    - rewrite IH. reflexivity.
  Qed.

  (* one cache per upstream: a cached session of upstream i exists only if upstream i itself accepted this server *)
  Definition own_inv (us : list (list N * upc_upstream)) (peer : option cert) (cache : list upr_sess_key) : Prop :=
    forall i sni, upr_sess_has (Some i, sni) cache = true ->
      exists tag u, nth_error us i = Some (tag, u) /\ ep_sni (uu_ep u) = Some sni /\ accepts u peer = true.

  Lemma sess_key_eqb_own i sni j sni' :
    upr_sess_key_eqb (Some i, sni) (Some j, sni') = true -> i = j /\ sni = sni'.
  Proof.
    unfold upr_sess_key_eqb. cbn [fst snd]. intros H. apply andb_true_iff in H. destruct H as [A B].
    apply Nat.eqb_eq in A. apply addr_list_eqb_eq in B. auto.
  Qed.

  Lemma connect_own us peer cache i tag u :
    nth_error us i = Some (tag, u) -> own_inv us peer cache ->
    fst (connect SessPerUpstream cache i u peer) = accepts u peer /\
    own_inv us peer (snd (connect SessPerUpstream cache i u peer)).
  Proof.
    intros Hn Inv. unfold upr_connect, upr_accepts.
    destruct (uu_tls u) as [t|] eqn:Ht; [|split; [reflexivity|exact Inv]].
    destruct (ep_sni (uu_ep u)) as [sni|] eqn:Hs; [|split; [reflexivity|exact Inv]].
    cbn [upr_sess_key_of].
    destruct (upr_sess_has (Some i, sni) cache && upr_resume_ok cert name_matches time_valid t sni peer) eqn:Hr.
    - cbn [fst snd]. split; [|exact Inv].
      apply andb_true_iff in Hr. destruct Hr as [Hh _].
      destruct (Inv i sni Hh) as (tag' & u' & Hn' & _ & Hacc). rewrite Hn in Hn'. inversion Hn'; subst u'.
      unfold upr_accepts in Hacc. rewrite Ht, Hs in Hacc. symmetry. exact Hacc.
    - cbn [fst snd]. split; [reflexivity|].
      destruct (client_accepts cert chains_to name_matches time_valid t sni peer) eqn:Hf; [|exact Inv].
      intros j sni' Hh. unfold upr_sess_has in Hh. cbn [existsb] in Hh. apply orb_true_iff in Hh.
      destruct Hh as [Hh|Hh]; [|exact (Inv j sni' Hh)].
      apply sess_key_eqb_own in Hh. destruct Hh as [-> ->].
      exists tag, u. split; [exact Hn|]. split; [exact Hs|]. unfold upr_accepts. rewrite Ht, Hs. exact Hf.
  Qed.

  Lemma history_own us steps peer : forall cache,
    own_inv us peer cache ->
    history SessPerUpstream us cache steps peer = map (alone us peer) steps.
  Proof.
    induction steps as [|i rest IH]; intros cache Inv; [reflexivity|].
    cbn [upr_history map]. unfold alone at 1. destruct (nth_error us i) as [[tag u]|] eqn:Hn.
    - destruct (connect_own us peer cache i tag u Hn Inv) as [Hv Inv'].
      destruct (connect SessPerUpstream cache i u peer) as [ok cache']. cbn [fst snd] in Hv, Inv'.
      rewrite Hv, (IH cache' Inv'). reflexivity.
    - rewrite (IH cache Inv). reflexivity.
  Qed.

  Lemma own_inv_nil us peer : own_inv us peer [].
  Proof. intros i sni H. discriminate. Qed.

  (* HISTORY INDEPENDENCE: whatever sequence of exchanges the upstreams of the process performed before, every
     step's verdict is the verdict of that upstream alone — without resumption state (the code) and also with one
     session cache per upstream *)
  Lemma history_independent p us steps peer :
    p = SessNone \/ p = SessPerUpstream ->
    history p us [] steps peer = map (alone us peer) steps.
  Proof.
    intros [->| ->]; [apply history_none|apply history_own, own_inv_nil].
  Qed.
End HistProofs.

(* through the routers: a step of entry c (the i-th upstream of a started router) is upc_exchange_ok c *)
Lemma history_independent_router (cert : Type) (chains_to : ca_pool -> cert -> bool)
    (name_matches : cert -> list N -> bool) (time_valid : cert -> bool) p cs us steps peer :
  p = SessNone \/ p = SessPerUpstream ->
  upr_init_router cs = Ok us ->
  (forall i, In i steps -> (i < List.length cs)%nat) ->
  upr_history cert chains_to name_matches time_valid p us [] steps peer =
  map (fun i => match nth_error cs i with
                | Some c => upc_exchange_ok cert chains_to name_matches time_valid c peer
                | None => false end) steps.
Proof.
  intros Hp Hr Hlt. rewrite (history_independent cert chains_to name_matches time_valid p us steps peer Hp).
  apply map_ext_in. intros i Hin. unfold alone.
  destruct (upstreams_independent cs us Hr) as [_ Hn].
  destruct (nth_error cs i) as [c|] eqn:Hc.
  - destruct (Hn i c Hc) as (u & Hu & Hi). rewrite Hu, upc_exchange_ok_accepts, Hi. reflexivity.
  - apply nth_error_None in Hc. specialize (Hlt i Hin). exfalso. apply (Nat.lt_irrefl i).
    eapply Nat.lt_le_trans; [exact Hlt|exact Hc].
Qed.

(* ---- the excluded design: ONE resumption cache for all upstreams ---- *)
Definition uph_w_opts (ca : bool) : tls_opts :=
  {| o_ca := ca; o_cert_key := false; o_insecure := false; o_verify_client := false |}.
(* "tls://d" with the configured ca ("good") and "tls://d" with the system roots ("pinned" elsewhere) *)
Definition uph_w_good : upc_config :=
  {| upc_tag := [103]; upc_addr := [116;108;115;58;47;47;100]; upc_dial_addr := []; upc_tls := uph_w_opts true |}.
Definition uph_w_pinned : upc_config :=
  {| upc_tag := [112]; upc_addr := [116;108;115;58;47;47;100]; upc_dial_addr := []; upc_tls := uph_w_opts false |}.

Lemma shared_resumption_refuted :
  (* pinned, good, pinned against a server whose certificate chains to the configured ca only *)
  upr_history_case SessShared [[uph_w_good; uph_w_pinned]] [1%nat; 0%nat; 1%nat] (Some CValid) = Some [false; true; true] /\
  upr_history_case SessShared [[uph_w_good]; [uph_w_pinned]] [1%nat; 0%nat; 1%nat] (Some CValid) = Some [false; true; true] /\
  upr_history_case SessNone [[uph_w_good; uph_w_pinned]] [1%nat; 0%nat; 1%nat] (Some CValid) = Some [false; true; false] /\
  upr_history_case SessPerUpstream [[uph_w_good; uph_w_pinned]] [1%nat; 0%nat; 1%nat; 0%nat; 1%nat] (Some CValid) =
    Some [false; true; false; true; false].
Proof. vm_compute. repeat split. Qed.

(* ------------------------------------------------------------------ resolution per connection *)

Lemma conn_targets_eq env ep k h p :
  split_host_port (ep_dial ep) = Some (h, p) ->
  rs_conn_targets env ep k = map (fun a => join_host_port a p) (env k h).
Proof. intros H. unfold rs_conn_targets. rewrite H. reflexivity. Qed.

(* the host of the grammar (a NAME in particular), no dial_addr: the k-th connection goes to what the host denotes
   at connection k, on the URL's port or the scheme's default; construction never resolves *)
Lemma resolved_per_connection st k h p path env n :
  scheme_entry st k -> path_ok st path -> wf_host h = true -> wf_port_opt p = true ->
  let sc := fst (fst k) in
  exists ep, rs_new_upstream env (url_of st h p path) [] = Ok ep /\
    rs_conn_targets env ep n = map (fun a => join_host_port a (port_or_default sc p)) (env n (host_name h)).
Proof.
  intros Hs Hp W Wp sc. destruct (dial_target st k h p path Hs Hp W Wp) as (ep & He & _ & _ & _ & Hd & _).
  exists ep. split; [exact He|]. apply conn_targets_eq. rewrite Hd.
  apply split_join; [exact W|]. unfold port_or_default. destruct p as [p|].
  - apply (wf_port_facts _ Wp).
  - destruct (fst (fst k)); reflexivity.
Qed.

(* ... and with a dial_addr of the grammar (a name, optional port) *)
Lemma resolved_per_connection_override st k h p path dh dpo env n :
  scheme_entry st k -> path_ok st path -> wf_host h = true -> wf_port_opt p = true ->
  wf_host dh = true -> wf_port_opt dpo = true ->
  let sc := fst (fst k) in
  exists ep, rs_new_upstream env (url_of st h p path) (dial_text dh dpo) = Ok ep /\
    rs_conn_targets env ep n = map (fun a => join_host_port a (port_or_default sc dpo)) (env n (host_name dh)).
Proof.
  intros Hs Hp W Wp Wd Wdp sc.
  destruct (dial_target_override st k h p path dh dpo Hs Hp W Wp Wd Wdp) as (ep & He & Hd & _).
  exists ep. split; [exact He|]. apply conn_targets_eq. rewrite Hd.
  apply split_join; [exact Wd|]. unfold port_or_default. destruct dpo as [q|].
  - apply (wf_port_facts _ Wdp).
  - destruct (fst (fst k)); reflexivity.
Qed.

(* resolving once, at construction, is a different mapping *)
Definition rs_w_name : list N := [100;46;116].                                  (* "d.t" *)
Definition rs_w_url : list N := [113;117;105;99;58;47;47;100;46;116].            (* "quic://d.t" *)
Definition rs_w_a1 : list N := [49;50;55;46;48;46;48;46;49].                     (* "127.0.0.1" *)
Definition rs_w_a2 : list N := [49;50;55;46;48;46;48;46;50].                     (* "127.0.0.2" *)
Definition rs_w_move : rs_env := rs_table_env rs_w_name (fun k => if Nat.leb k 1 then [rs_w_a1] else [rs_w_a2]).
Definition rs_w_late : rs_env := rs_table_env rs_w_name (fun k => match k with O => [] | _ => [rs_w_a1] end).

Lemma resolve_once_refuted :
  (exists ep, rs_new_upstream rs_w_move rs_w_url [] = Ok ep /\
     rs_conn_targets rs_w_move ep 2 = [rs_w_a2 ++ [58;56;53;51]] /\
     rs_once_targets rs_w_move ep 2 = [rs_w_a1 ++ [58;56;53;51]] /\
     rs_once_targets rs_w_move ep 2 <> rs_conn_targets rs_w_move ep 2) /\
  (is_ok (rs_new_upstream rs_w_late rs_w_url []) = true /\ is_ok (rs_once_new_upstream rs_w_late rs_w_url []) = false /\
   rs_case rs_w_url [] rs_w_name (fun k => match k with O => [] | _ => [rs_w_a1] end) 1 = Some [rs_w_a1 ++ [58;56;53;51]]).
Proof.
  split.
  - eexists. split; [vm_compute; reflexivity|]. split; [vm_compute; reflexivity|]. split; [vm_compute; reflexivity|].
    vm_compute. intros H. inversion H.
  - vm_compute. repeat split.
Qed.
