(* Net/DohGetProofs.v : base64url round trip, line breaks are invisible to the decoder, the decoded length. *)
From Mos Require Import Base.Prelude Net.DohGet.
From Coq Require Import ZifyN ZifyNat ZifyBool.
Ltac Zify.zify_post_hook ::= Z.div_mod_to_equations.

Definition byte_list (m : list N) : Prop := Forall (fun b => (b < 256)%N) m.
Definition sextet_list (s : list N) : Prop := Forall (fun b => (b < 64)%N) s.

(* ---------- the alphabet ---------- *)
Lemma b64_sextet_char_all : forallb (fun s => match b64_sextet (b64_char s) with Some s' => N.eqb s' s | None => false end)
                                    (map N.of_nat (seq 0 64)) = true.
Proof. vm_compute. reflexivity. Qed.

Lemma b64_sextet_char s : (s < 64)%N -> b64_sextet (b64_char s) = Some s.
Proof.
  intros H. pose proof b64_sextet_char_all as A. rewrite forallb_forall in A.
  specialize (A s). assert (In s (map N.of_nat (seq 0 64))) as I.
  { apply in_map_iff. exists (N.to_nat s). split; [lia|]. apply in_seq. lia. }
  specialize (A I). destruct (b64_sextet (b64_char s)) as [s'|]; [|discriminate].
  apply N.eqb_eq in A. now subst.
Qed.

Lemma b64_char_not_break s : (s < 64)%N -> is_break (b64_char s) = false.
Proof.
  intros H. unfold is_break, b64_char.
  destruct (s <? 26)%N eqn:A; [lia|]. destruct (s <? 52)%N eqn:B; [lia|]. destruct (s <? 62)%N eqn:C; [lia|].
  destruct (s =? 62)%N; reflexivity.
Qed.

Lemma sextets_of_chars s : sextet_list s -> sextets_of (map b64_char s) = Some s.
Proof.
  induction 1 as [|x l Hx Hl IH]; cbn; [reflexivity|]. rewrite (b64_sextet_char x Hx), IH. reflexivity.
Qed.

Lemma filter_chars_id s : sextet_list s -> filter (fun c => negb (is_break c)) (map b64_char s) = map b64_char s.
Proof.
  induction 1 as [|x l Hx Hl IH]; cbn; [reflexivity|]. rewrite (b64_char_not_break x Hx). cbn. now rewrite IH.
Qed.

(* ---------- groups ---------- *)
Lemma b64_enc_sextets : forall n m, length m <= n -> byte_list m -> sextet_list (b64_enc m).
Proof.
  induction n as [|n IH]; intros m L B.
  - destruct m; [constructor|cbn in L; lia].
  - destruct m as [|a [|b [|c rest]]]; cbn [b64_enc].
    + constructor.
    + inversion B as [|? ? Ha _]; subst. repeat constructor; lia.
    + inversion B as [|? ? Ha B1]; subst. inversion B1 as [|? ? Hb _]; subst. repeat constructor; lia.
    + inversion B as [|? ? Ha B1]; subst. inversion B1 as [|? ? Hb B2]; subst. inversion B2 as [|? ? Hc B3]; subst.
      repeat (constructor; [lia|]). apply IH; [cbn in L; lia|exact B3].
Qed.

Lemma b64_dec_enc : forall n m, length m <= n -> byte_list m -> b64_dec (b64_enc m) = Some m.
Proof.
  induction n as [|n IH]; intros m L B.
  - destruct m; [reflexivity|cbn in L; lia].
  - destruct m as [|a [|b [|c rest]]].
    + reflexivity.
    + inversion B as [|? ? Ha _]; subst. cbn [b64_enc b64_dec]. f_equal. f_equal. lia.
    + inversion B as [|? ? Ha B1]; subst. inversion B1 as [|? ? Hb _]; subst. cbn [b64_enc b64_dec].
      f_equal. f_equal; [lia|]. f_equal. lia.
    + inversion B as [|? ? Ha B1]; subst. inversion B1 as [|? ? Hb B2]; subst. inversion B2 as [|? ? Hc B3]; subst.
      cbn [b64_enc b64_dec]. rewrite (IH rest); [|cbn in L; lia|exact B3].
      f_equal. f_equal; [lia|]. f_equal; [lia|]. f_equal. lia.
Qed.

(* ---------- the decoder ---------- *)
Lemma b64_roundtrip m : byte_list m -> b64_decode (b64_text m) = Some m.
Proof.
  intros B. unfold b64_decode, b64_text.
  pose proof (b64_enc_sextets (length m) m (le_n _) B) as S.
  rewrite (filter_chars_id _ S), (sextets_of_chars _ S). apply (b64_dec_enc (length m)); [lia|exact B].
Qed.

(* CR / LF anywhere in the text are invisible *)
Lemma b64_decode_breaks t1 t2 brk :
  forallb is_break brk = true -> b64_decode (t1 ++ brk ++ t2) = b64_decode (t1 ++ t2).
Proof.
  intros H. unfold b64_decode. rewrite !filter_app.
  assert (filter (fun c => negb (is_break c)) brk = []) as E.
  { induction brk as [|c brk IH]; [reflexivity|]. cbn in *. apply andb_true_iff in H. destruct H as [H1 H2].
    rewrite H1. cbn. now apply IH. }
  rewrite E. reflexivity.
Qed.

(* the number of octets a successful decode yields: 6 bits per character that is not a line break *)
Lemma b64_dec_length : forall n s m, length s <= n -> b64_dec s = Some m -> length m = length s * 6 / 8.
Proof.
  induction n as [|n IH]; intros s m L H.
  - destruct s; [|cbn in L; lia]. cbn in H. inversion H. reflexivity.
  - destruct s as [|s0 [|s1 [|s2 [|s3 rest]]]]; cbn [b64_dec] in H.
    + inversion H. reflexivity.
    + discriminate.
    + inversion H. reflexivity.
    + inversion H. reflexivity.
    + destruct (b64_dec rest) as [t|] eqn:E; [|discriminate]. inversion H; subst. cbn [length].
      rewrite (IH rest t); [|cbn in L; lia|exact E]. lia.
Qed.

Lemma sextets_of_length t s : sextets_of t = Some s -> length s = length t.
Proof.
  revert s. induction t as [|c t IH]; intros s H; cbn in H; [inversion H; reflexivity|].
  destruct (b64_sextet c); [|discriminate]. destruct (sextets_of t) as [l|]; [|discriminate].
  inversion H; subst. cbn. now rewrite (IH l).
Qed.

Lemma b64_decode_length text m :
  b64_decode text = Some m ->
  length m = b64_decoded_len (length (filter (fun c => negb (is_break c)) text)).
Proof.
  unfold b64_decode, b64_decoded_len. intros H.
  destruct (sextets_of (filter (fun c => negb (is_break c)) text)) as [s|] eqn:E; [|discriminate].
  rewrite <- (sextets_of_length _ _ E). apply (b64_dec_length (length s)); [lia|exact H].
Qed.

Lemma filter_length_le {A} (f : A -> bool) l : length (filter f l) <= length l.
Proof. induction l as [|x l IH]; cbn; [lia|]. destruct (f x); cbn; lia. Qed.

(* never more than the buffer the handlers allocate; strictly fewer as soon as 4 line breaks are skipped *)
Lemma b64_decode_fits text m : b64_decode text = Some m -> length m <= b64_decoded_len (length text).
Proof.
  intros H. rewrite (b64_decode_length _ _ H). unfold b64_decoded_len.
  pose proof (filter_length_le (fun c => negb (is_break c)) text). lia.
Qed.

(* ---------- percent decoding ---------- *)
Definition pct_plain (c : N) : bool := negb ((c =? 37) || (c =? 43))%N.

Lemma b64_char_plain s : (s < 64)%N -> pct_plain (b64_char s) = true.
Proof.
  intros H. unfold pct_plain, b64_char.
  destruct (s <? 26)%N eqn:A; [lia|]. destruct (s <? 52)%N eqn:B; [lia|]. destruct (s <? 62)%N eqn:C; [lia|].
  destruct (s =? 62)%N; reflexivity.
Qed.

Lemma pct_decode_fuel_plain_app s : forall fuel rest, forallb pct_plain s = true -> length s + length rest <= fuel ->
  pct_decode_fuel fuel (s ++ rest) = s ++ pct_decode_fuel (fuel - length s) rest.
Proof.
  induction s as [|c s IH]; intros fuel rest P L; cbn [app length].
  - rewrite Nat.sub_0_r. reflexivity.
  - cbn in P. apply andb_true_iff in P. destruct P as [Pc Ps]. cbn [length] in L.
    destruct fuel as [|fuel]; [lia|]. cbn [pct_decode_fuel].
    unfold pct_plain in Pc. destruct (c =? 37)%N eqn:E1; [discriminate|]. destruct (c =? 43)%N eqn:E2; [discriminate|].
    replace (S fuel - S (length s)) with (fuel - length s) by lia. f_equal. apply IH; [exact Ps|lia].
Qed.

Definition pct_lf : list N := [37; 48; 65]%N.      (* "%0A" *)

Lemma pct_decode_fuel_lfs k : forall fuel, 3 * k <= fuel ->
  pct_decode_fuel fuel (concat (repeat pct_lf k)) = repeat 10%N k.
Proof.
  induction k as [|k IH]; intros fuel L; cbn [repeat concat].
  - destruct fuel; reflexivity.
  - destruct fuel as [|fuel]; [lia|]. unfold pct_lf at 1. cbn [app pct_decode_fuel].
    change ((37 =? 37)%N) with true. cbn iota. change (hex_val 48%N) with (Some 0%N). change (hex_val 65%N) with (Some 10%N).
    cbn iota. change ((0 * 16 + 10)%N) with 10%N. f_equal. apply IH. lia.
Qed.

Lemma pct_decode_text_lfs s k : sextet_list s ->
  pct_decode (map b64_char s ++ concat (repeat pct_lf k)) = map b64_char s ++ repeat 10%N k.
Proof.
  intros S. unfold pct_decode.
  assert (length (concat (repeat pct_lf k)) = 3 * k) as Lk.
  { induction k as [|k IH]; [reflexivity|]. cbn [repeat concat]. rewrite app_length, IH. cbn. lia. }
  rewrite pct_decode_fuel_plain_app.
  - f_equal. apply pct_decode_fuel_lfs. rewrite app_length, Lk. lia.
  - clear Lk. induction S as [|x l Hx Hl IH]; cbn; [reflexivity|]. rewrite (b64_char_plain x Hx). exact IH.
  - rewrite app_length. lia.
Qed.

Lemma b64_text_length m : byte_list m -> b64_decoded_len (length (b64_text m)) = length m.
Proof.
  intros B. pose proof (b64_dec_enc (length m) m (le_n _) B) as D.
  pose proof (b64_dec_length (length (b64_enc m)) _ _ (le_n _) D) as L.
  unfold b64_decoded_len, b64_text. rewrite map_length. lia.
Qed.

Lemma b64_decode_text_lfs m k : byte_list m -> b64_decode (b64_text m ++ repeat 10%N k) = Some m.
Proof.
  intros B. rewrite <- (app_nil_r (repeat 10%N k)). rewrite b64_decode_breaks.
  - rewrite app_nil_r. now apply b64_roundtrip.
  - induction k; cbn; auto.
Qed.

(* ---------- the query string ---------- *)
Lemma list_N_eqb_refl a : list_N_eqb a a = true.
Proof. unfold list_N_eqb. destruct (list_eq_dec N.eq_dec a a); [reflexivity|contradiction]. Qed.

Lemma list_N_eqb_neq a b : a <> b -> list_N_eqb a b = false.
Proof. intros H. unfold list_N_eqb. destruct (list_eq_dec N.eq_dec a b); [contradiction|reflexivity]. Qed.

Lemma cut_first_dns v : cut_first 61 (dns_key ++ 61%N :: v) = (dns_key, v).
Proof. reflexivity. Qed.

Definition key_of (p : list N) : list N := fst (cut_first 61 p).

(* whatever pairs stand in front (none of them with the key "dns") and behind: the value of the dns pair *)
Lemma nethttp_value_decorated ps v qs :
  (forall p, In p ps -> key_of p <> dns_key) ->
  value_of_pairs DohNetHttp (ps ++ (dns_key ++ 61%N :: v) :: qs) = v.
Proof.
  induction ps as [|p ps IH]; intros H; cbn [app value_of_pairs].
  - rewrite cut_first_dns. destruct (dns_key ++ 61%N :: v) eqn:X; [discriminate X|].
    rewrite list_N_eqb_refl. reflexivity.
  - pose proof (H p (or_introl eq_refl)) as Hp. unfold key_of in Hp.
    destruct (cut_first 61 p) as [key value] eqn:E. cbn [fst] in Hp.
    rewrite (list_N_eqb_neq _ _ Hp). destruct p; apply IH; intros q Hq; apply H; now right.
Qed.

Lemma fasthttp_value_decorated ps v qs :
  (forall p, In p ps -> pct_decode (key_of p) <> dns_key) ->
  value_of_pairs DohFastHttp (ps ++ (dns_key ++ 61%N :: v) :: qs) = pct_decode v.
Proof.
  induction ps as [|p ps IH]; intros H; cbn [app value_of_pairs].
  - rewrite cut_first_dns. change (pct_decode dns_key) with dns_key. cbn iota. rewrite list_N_eqb_refl. reflexivity.
  - pose proof (H p (or_introl eq_refl)) as Hp. unfold key_of in Hp.
    destruct (cut_first 61 p) as [key value] eqn:E. cbn [fst] in Hp.
    rewrite (list_N_eqb_neq _ _ Hp).
    assert (value_of_pairs DohFastHttp (ps ++ (dns_key ++ 61%N :: v) :: qs) = pct_decode v) as R
      by (apply IH; intros q Hq; apply H; now right).
    destruct (pct_decode key); destruct (pct_decode value); exact R.
Qed.

(* splitting a joined list of '&'-free pairs gives the pairs back *)
Fixpoint join_amp (ps : list (list N)) : list N :=
  match ps with
  | [] => []
  | [p] => p
  | p :: rest => p ++ 38%N :: join_amp rest
  end.

Definition amp_free (p : list N) : Prop := Forall (fun c => c <> 38%N) p.

Lemma split_on_pair p : forall cur rest, amp_free p ->
  split_on 38 (p ++ 38%N :: rest) cur = (rev cur ++ p) :: split_on 38 rest [].
Proof.
  induction p as [|c p IH]; intros cur rest F; cbn [app split_on].
  - change ((38 =? 38)%N) with true. cbn iota. rewrite app_nil_r. reflexivity.
  - inversion F as [|? ? Hc Fp]; subst. destruct (c =? 38)%N eqn:E; [apply N.eqb_eq in E; contradiction|].
    rewrite IH by exact Fp. cbn [rev]. rewrite <- app_assoc. reflexivity.
Qed.

Lemma split_on_last p : forall cur, amp_free p -> split_on 38 p cur = [rev cur ++ p].
Proof.
  induction p as [|c p IH]; intros cur F; cbn [split_on].
  - rewrite app_nil_r. reflexivity.
  - inversion F as [|? ? Hc Fp]; subst. destruct (c =? 38)%N eqn:E; [apply N.eqb_eq in E; contradiction|].
    rewrite IH by exact Fp. cbn [rev]. rewrite <- app_assoc. reflexivity.
Qed.

Lemma split_join ps : ps <> [] -> Forall amp_free ps -> split_on 38 (join_amp ps) [] = ps.
Proof.
  induction ps as [|p ps IH]; intros Hne F; [contradiction|].
  inversion F as [|? ? Fp Fps]; subst. destruct ps as [|q ps].
  - cbn [join_amp]. rewrite split_on_last by exact Fp. reflexivity.
  - change (join_amp (p :: q :: ps)) with (p ++ 38%N :: join_amp (q :: ps)).
    rewrite split_on_pair by exact Fp. cbn [rev app]. f_equal. apply IH; [discriminate|exact Fps].
Qed.
