(* Net/PipelineBuf.v — the caller's payload buffers and the octets put on the wire, on top of Net/Pipeline.v.

   Net/Pipeline.v abstracts a query to the caller's id [pl_cid].  In Go an exchange is handed a SLICE m:

     exchange(ctx, m):                                     write(m, qid):                    (UDP)
       qid := addQueueC(respChan)         -- LAdd             b := pool.GetBuf(len(m)); copy(b, m)   -- LCopy
       write(m, qid)                                          setQid(b, 0, qid)                      \
       select { ...                                           c.c.Write(b)                           /  LWrite
       case r := <-respChan:                                  pool.ReleaseBuf(b)
         r.Header.ID = be16(m)   -- reads m NOW -- LTake    (TCP: copyMsgWithLenHdr(m) = 2-octet length + copy,
         return r }                                                 setQid(b, 2, qid), Write)

   The Transport contract (transport.go) says ExchangeContext "MUST NOT keep or modify m", so a caller may hand
   the SAME slice to any number of concurrent exchanges (a query fanned out to several upstreams, racing
   duplicates, Test_ReuseConnTransport).  This file therefore adds shared memory to the LTS:

     plb_heap  buffer id |-> octets    the callers' payload slices (shared, owned by the callers)
     plb_tbuf  exchange  |-> buffer    the slice each exchange was called with (not injective)
     plb_priv  exchange  |-> octets    the private copy made by write, between copy and net.Conn.Write
     plb_wire  (ghost, newest first)   (exchange, octets handed to net.Conn.Write)

   and splits the actions that touch m:  LSpawn b (caller id = be16 of the slice at call time),  LCopy t
   (read the shared slice into a private copy), LWrite t ok (wire id into the PRIVATE copy, Write), LTake t
   (reply arm: the id put into the reply is read from the shared slice at that moment).  Every other action
   is the one of Net/Pipeline.v (LCore).  No action writes to plb_heap: that is the modelled contract, and
   C05_payload_untouched / C05_wire_bytes / C05_restored_id (Props/C05.v) are its consequences.

   [plb_ip_step] is the REJECTED design "write the wire id into the caller's slice, send the slice, put the
   old id back" (no copy on the datagram path); it is here only so that Props/C05.v can exhibit the schedule
   on which it breaks the property (C05_inplace_write_refuted) — nothing else uses it.

   Payloads have at least 2 octets (ExchangeContext rejects len(m) < 12 before any exchange exists).
   No proofs in this file (Net/PipelineBufProofs.v). *)
From Mos Require Import Base.Prelude Net.Pipeline.
Local Open Scope N_scope.

(* ---------- octets ---------- *)
(* binary.BigEndian.Uint16(b) *)
Definition plb_be16 (b : list N) : N :=
  match b with hi :: lo :: _ => (hi mod 256) * 256 + lo mod 256 | _ => 0 end.

Definition plb_id_octets (q : N) : list N := [(q / 256) mod 256; q mod 256].

(* setQid(b, 0, q) *)
Definition plb_setqid (b : list N) (q : N) : list N :=
  match b with _ :: _ :: r => plb_id_octets q ++ r | _ => b end.

(* TCP / DoT: 2-octet length header (copyMsgWithLenHdr); UDP: the datagram itself *)
Definition plb_frame (tcp : bool) (b : list N) : list N :=
  if tcp then plb_id_octets (N.of_nat (length b)) ++ b else b.

(* pipelineConn.write(m, qid) as a function: (octets handed to net.Conn.Write, the caller's slice afterwards) *)
Definition plb_write (tcp : bool) (m : list N) (qid : N) : list N * list N :=
  (plb_frame tcp (plb_setqid m qid), m).

(* the transaction id a server reads from what arrived *)
Definition plb_wire_id (tcp : bool) (w : list N) : N := plb_be16 (if tcp then skipn 2 w else w).

(* ---------- state ---------- *)
Record plb_state := PlbMkState {
  plb_core : pl_state;
  plb_heap : list (N * list N);
  plb_tbuf : list (N * N);
  plb_priv : list (N * list N);
  plb_wire : list (N * list N)
}.

Definition plb_init (tcp : bool) (q0 : N) (heap : list (N * list N)) : plb_state :=
  PlbMkState (pl_init tcp q0) heap [] [] [].

Definition plb_set_core (c : pl_state) (s : plb_state) : plb_state :=
  PlbMkState c (plb_heap s) (plb_tbuf s) (plb_priv s) (plb_wire s).

Inductive plb_label :=
| PlbLSpawn (b : N)             (* a caller enters exchange with payload slice b *)
| PlbLCopy (t : N)              (* write: private copy of the payload *)
| PlbLWrite (t : N) (ok : bool) (* write: wire id into the private copy; net.Conn.Write succeeded / failed *)
| PlbLTake (t : N)              (* select arm r := <-respChan; r.Header.ID = be16(m) *)
| PlbLCore (l : pl_label).      (* any action of Net/Pipeline.v except LSpawn / LWrite / LTakeReply *)

Definition plb_core_label_ok (l : pl_label) : bool :=
  match l with PlLSpawn _ | PlLWrite _ _ | PlLTakeReply _ => false | _ => true end.

Definition plb_step (s : plb_state) (l : plb_label) : option plb_state :=
  let c := plb_core s in
  match l with
  | PlbLSpawn b =>
      match pl_alookup b (plb_heap s) with
      | Some m =>
          if (2 <=? length m)%nat then
            match pl_step c (PlLSpawn (plb_be16 m)) with
            | Some c' => Some (PlbMkState c' (plb_heap s) ((pl_nthreads c, b) :: plb_tbuf s) (plb_priv s) (plb_wire s))
            | None => None
            end
          else None
      | None => None
      end
  | PlbLCopy t =>
      match pl_tget c t, pl_alookup t (plb_tbuf s), pl_alookup t (plb_priv s) with
      | Some th, Some b, None =>
          match pl_tpc th, pl_alookup b (plb_heap s) with
          | PlPAdded, Some m => Some (PlbMkState c (plb_heap s) (plb_tbuf s) ((t, m) :: plb_priv s) (plb_wire s))
          | _, _ => None
          end
      | _, _, _ => None
      end
  | PlbLWrite t ok =>
      match pl_tget c t, pl_alookup t (plb_priv s) with
      | Some th, Some p =>
          match pl_twid th, pl_step c (PlLWrite t ok) with
          | Some w, Some c' =>
              Some (PlbMkState c' (plb_heap s) (plb_tbuf s) (pl_aremove t (plb_priv s))
                      (if ok then (t, fst (plb_write (pl_istcp c) p w)) :: plb_wire s else plb_wire s))
          | _, _ => None
          end
      | _, _ => None
      end
  | PlbLTake t =>
      match pl_tget c t, pl_alookup t (plb_tbuf s) with
      | Some th, Some b =>
          match pl_alookup b (plb_heap s), pl_tpc th, pl_tchan th with
          | Some m, PlPWaiting, Some r =>
              Some (plb_set_core
                      (pl_tput t (pl_th_pc (PlPLeaving (PlRMsg (pl_with_id r (plb_be16 m)))) (pl_th_chan None th)) c) s)
          | _, _, _ => None
          end
      | _, _ => None
      end
  | PlbLCore l' =>
      if plb_core_label_ok l' then
        match pl_step c l' with Some c' => Some (plb_set_core c' s) | None => None end
      else None
  end.

Fixpoint plb_run (ls : list plb_label) (s : plb_state) : option plb_state :=
  match ls with
  | [] => Some s
  | l :: r => match plb_step s l with Some s' => plb_run r s' | None => None end
  end.

(* ---------- deterministic runs replayed by the correspondence check (kind pipeline_shared) ---------- *)
Definition plb_exec (s : plb_state) (l : plb_label) : plb_state :=
  match plb_step s l with Some s' => s' | None => s end.

Definition plb_lift (l : pl_label) : plb_label :=
  match l with PlLTakeReply t => PlbLTake t | _ => PlbLCore l end.

Definition plb_settle (t : N) (s : plb_state) : plb_state :=
  fold_left plb_exec (map plb_lift [PlLTakeReply t; PlLCtxArm t; PlLConnArm t; PlLDelete t; PlLEolClose t]) s.

(* the server emits a message with header id i; routed, delivered, the receiver runs to its return *)
Definition plb_do_emit (i tag : N) (s : plb_state) : plb_state :=
  let s1 := plb_exec (plb_exec s (PlbLCore (PlLRecv i tag))) (PlbLCore PlLLookup) in
  let tgt := match pl_rl (plb_core s1) with PlRSend _ t => Some t | _ => None end in
  let s2 := plb_exec s1 (PlbLCore PlLSend) in
  match tgt with Some t => plb_settle t s2 | None => s2 end.

Fixpoint plb_nseq (a : N) (n : nat) : list N :=
  match n with O => [] | S k => a :: plb_nseq (a + 1) k end.

Fixpoint plb_enum {A} (a : N) (l : list A) : list (N * A) :=
  match l with [] => [] | x :: r => (a, x) :: plb_enum (a + 1) r end.

(* the server answers every datagram in [dgs] (oldest first) with the id it reads from those octets; reply k
   carries the tag tag + k *)
Definition plb_answer (tcp : bool) (dgs : list (N * list N)) (tag : N) (s : plb_state) : plb_state :=
  fold_left (fun st kw => plb_do_emit (plb_wire_id tcp (snd (snd kw))) (fst kw) st) (plb_enum tag dgs) s.

(* the datagrams written since the wire had n entries, oldest first *)
Definition plb_new_wire (n : nat) (s : plb_state) : list (N * list N) :=
  rev (firstn (length (plb_wire s) - n) (plb_wire s)).

(* one exchange with slice b, run alone and answered at once *)
Definition plb_seq_exchange (tcp : bool) (b tag : N) (s : plb_state) : plb_state :=
  let t := pl_nthreads (plb_core s) in
  let n := length (plb_wire s) in
  let s1 := plb_settle t (fold_left plb_exec
              [PlbLSpawn b; PlbLCore (PlLAdd t); PlbLCopy t; PlbLWrite t true; PlbLWrite t false] s) in
  plb_answer tcp (plb_new_wire n s1) tag s1.

(* a burst: the exchanges with slices bs are ALL inside write at the same time (every one has been assigned its
   id and has made its copy before the first net.Conn.Write happens), then the server answers everything *)
Definition plb_burst (tcp : bool) (bs : list N) (tag : N) (s : plb_state) : plb_state :=
  let ts := plb_nseq (pl_nthreads (plb_core s)) (length bs) in
  let n := length (plb_wire s) in
  let s1 := fold_left plb_exec (map PlbLSpawn bs) s in
  let s2 := fold_left plb_exec (map (fun t => PlbLCore (PlLAdd t)) ts) s1 in
  let s3 := fold_left plb_exec (map PlbLCopy ts) s2 in
  let s4 := fold_left plb_exec (map (fun t => PlbLWrite t true) ts) s3 in
  let s5 := fold_left plb_exec (map (fun t => PlbLWrite t false) ts) s4 in
  let s6 := fold_left (fun st t => plb_settle t st) ts s5 in
  plb_answer tcp (plb_new_wire n s6) tag s6.

(* kind pipeline_shared: [warm] sequential exchanges (slices: the first [warm] entries of bs, so a slice is also
   reused sequentially), then the burst over bs *)
Definition plb_warm (tcp : bool) (bs : list N) (tag : N) (s : plb_state) : plb_state :=
  fold_left (fun st kb => plb_seq_exchange tcp (snd kb) (fst kb) st) (plb_enum tag bs) s.

Definition plb_shared_run (tcp : bool) (q0 : N) (heap : list (N * list N)) (warm : nat) (bs : list N) : plb_state :=
  let s1 := plb_warm tcp (firstn warm bs) 1 (plb_init tcp q0 heap) in
  plb_burst tcp bs (1 + N.of_nat warm) s1.

(* observables: per exchange (outcome, wire id) oldest first; closed; datagrams oldest first; the callers' slices *)
Definition plb_observe (s : plb_state)
  : list (pl_outcome * option N) * bool * list (N * list N) * list (N * list N) :=
  (pl_outcomes (plb_core s), pl_closed (plb_core s), rev (plb_wire s), plb_heap s).

(* ---------- the rejected design (see the header) ---------- *)
Inductive plb_ip_label :=
| PlbIpSet (t : N)        (* id := be16(m); setQid(m, 0, qid)   -- in the CALLER's slice *)
| PlbIpWrite (t : N)      (* c.c.Write(m) *)
| PlbIpRestore (t : N)    (* setQid(m, 0, id) *)
| PlbIpOther (l : plb_label).

Definition plb_heap_set (b : N) (m : list N) (h : list (N * list N)) : list (N * list N) := pl_aupd b m h.

Definition plb_ip_step (s : plb_state) (l : plb_ip_label) : option plb_state :=
  let c := plb_core s in
  match l with
  | PlbIpSet t =>
      match pl_tget c t, pl_alookup t (plb_tbuf s), pl_alookup t (plb_priv s) with
      | Some th, Some b, None =>
          match pl_tpc th, pl_twid th, pl_alookup b (plb_heap s) with
          | PlPAdded, Some w, Some m =>
              Some (PlbMkState c (plb_heap_set b (plb_setqid m w) (plb_heap s)) (plb_tbuf s)
                      ((t, plb_id_octets (plb_be16 m)) :: plb_priv s) (plb_wire s))
          | _, _, _ => None
          end
      | _, _, _ => None
      end
  | PlbIpWrite t =>
      match pl_alookup t (plb_tbuf s), pl_alookup t (plb_priv s), pl_step c (PlLWrite t true) with
      | Some b, Some _, Some c' =>
          match pl_alookup b (plb_heap s) with
          | Some m => Some (PlbMkState c' (plb_heap s) (plb_tbuf s) (plb_priv s)
                              ((t, plb_frame (pl_istcp c) m) :: plb_wire s))
          | None => None
          end
      | _, _, _ => None
      end
  | PlbIpRestore t =>
      match pl_alookup t (plb_tbuf s), pl_alookup t (plb_priv s) with
      | Some b, Some saved =>
          match pl_alookup b (plb_heap s) with
          | Some m => Some (PlbMkState c (plb_heap_set b (plb_setqid m (plb_be16 saved)) (plb_heap s)) (plb_tbuf s)
                              (pl_aremove t (plb_priv s)) (plb_wire s))
          | None => None
          end
      | _, _ => None
      end
  | PlbIpOther l' =>
      match l' with
      | PlbLCopy _ | PlbLWrite _ _ => None
      | _ => plb_step s l'
      end
  end.

Fixpoint plb_ip_run (ls : list plb_ip_label) (s : plb_state) : option plb_state :=
  match ls with
  | [] => Some s
  | l :: r => match plb_ip_step s l with Some s' => plb_ip_run r s' | None => None end
  end.
