(* Net/ExchangeProofs.v — invariants and progress of the exchange LTS (C14). *)
From Mos Require Import Base.Prelude Net.Exchange.

Local Opaque Nat.ltb Nat.leb Nat.sub Nat.mul.

(* ---------- case analysis of one step ---------- *)
Ltac bool_cases :=
  repeat match goal with
  | H : context [if ?b then _ else _] |- _ =>
      let E := fresh "E" in destruct b eqn:E; cbn in H
  | H : context [match ?x with Some _ => _ | None => _ end] |- _ =>
      let E := fresh "E" in destruct x eqn:E; cbn in H
  end.

Ltac step_inv H :=
  match type of H with
  | xstep ?tk ?s ?l = Some ?s' =>
      destruct s as [r c d p di att f gf gd gg];
      unfold xstep in H; cbn in H;
      destruct l; destruct p; try discriminate H;
      destruct tk; cbn in H; try discriminate H;
      bool_cases; try discriminate H;
      try (unfold dial_result, fail_attempt, set_pc in H; cbn in H; bool_cases);
      try discriminate H;
      injection H as <-
  end.

(* ---------- 1. ctx exit ---------- *)

(* every blocking point has a ctx arm, enabled as soon as ctx is done *)
Lemma wait_has_ctx_arm tk s :
  ctxd s = true ->
  (exists d, pcv s = PDialWait d) \/ (exists f r, pcv s = PWait f r) ->
  exists s', xstep tk s AArmCtx = Some s'.
Proof.
  intros Hc [[d Hp]|[f [r Hp]]]; destruct s as [r0 c d0 p di att f0 gf gd gg]; cbn in *; subst.
  - unfold xstep; cbn. destruct d as [ok|]; destruct (ctx_arm_takes_dial tk); eauto.
  - unfold xstep; cbn. eauto.
Qed.

(* once ctx is done no non-returned state is blocked: some own step is enabled *)
Lemma ctx_no_block tk s :
  ctxd s = true -> returned s = false ->
  exists a s', is_own a = true /\ xstep tk s a = Some s'.
Proof.
  intros Hc Hr. destruct s as [r c d p di att f gf gd gg]; cbn in *; subst c.
  destruct p; cbn in Hr; try discriminate.
  - exists (AGet false). unfold xstep; cbn. destruct tk; eauto.
  - exists AArmCtx. unfold xstep; cbn. destruct dres; destruct (ctx_arm_takes_dial tk); eauto.
  - exists (AWrite true). unfold xstep; cbn. eauto.
  - exists AArmCtx. unfold xstep; cbn. eauto.
  - exists ACheck. unfold xstep; cbn. rewrite andb_false_r. eauto.
Qed.

(* more generally: a non-returned state that is not at a blocking point always has an enabled own step *)
Lemma nonblocking_pc_progress tk s :
  returned s = false ->
  (forall d, pcv s <> PDialWait d) -> (forall f r, pcv s <> PWait f r) ->
  exists a s', is_own a = true /\ xstep tk s a = Some s'.
Proof.
  intros Hr Hd Hw. destruct s as [r c d p di att f gf gd gg]; cbn in *.
  destruct p; cbn in Hr; try discriminate.
  - exists (AGet false). unfold xstep; cbn. destruct tk; eauto.
  - exfalso. apply (Hd dres). reflexivity.
  - exists (AWrite true). unfold xstep; cbn. eauto.
  - exfalso. apply (Hw fresh ready). reflexivity.
  - exists ACheck. unfold xstep; cbn.
    destruct (negb fresh && (r <? retry_limit tk) && negb c); eauto.
Qed.

Lemma own_step_decreases tk s l s' :
  xstep tk s l = Some s' -> is_own l = true -> mu tk s' < mu tk s.
Proof.
  intros H Ho. step_inv H; cbn in Ho; try discriminate Ho; unfold mu; cbn;
    repeat match goal with
    | E : (_ && _) = true |- _ => apply andb_true_iff in E; destruct E
    | E : (_ <? _) = true |- _ => apply Nat.ltb_lt in E
    | E : negb _ = true |- _ => apply negb_true_iff in E; subst
    end; subst; cbn; try lia;
    repeat match goal with |- context [if ?b then _ else _] => destruct b end; cbn; lia.
Qed.

Lemma env_step_noninc tk s l s' :
  xstep tk s l = Some s' -> is_own l = false -> mu tk s' <= mu tk s.
Proof.
  intros H Ho. step_inv H; cbn in Ho; try discriminate Ho; unfold mu; cbn; try lia;
    repeat match goal with |- context [if ?b then _ else _] => destruct b end; cbn; lia.
Qed.

Lemma own_steps_bounded tk ls : forall s s',
  xexec tk ls s = Some s' -> count_own ls + mu tk s' <= mu tk s.
Proof.
  induction ls as [|l ls IH]; cbn; intros s s' H.
  - injection H as <-. lia.
  - destruct (xstep tk s l) as [s1|] eqn:E; [|discriminate].
    specialize (IH _ _ H).
    destruct (is_own l) eqn:O.
    + pose proof (own_step_decreases _ _ _ _ E O). lia.
    + pose proof (env_step_noninc _ _ _ _ E O). lia.
Qed.

Lemma mu_init tk : mu tk xinit = own_bound tk.
Proof. destruct tk; reflexivity. Qed.

Lemma mu_ctx_done tk s : ctxd s = true -> mu tk s <= ctx_bound.
Proof.
  intros H. unfold mu, ctx_bound. rewrite H. destruct (pcv s); cbn; lia.
Qed.

Lemma mu_zero_returned tk s : mu tk s = 0 -> returned s = true.
Proof.
  unfold mu, returned. destruct (pcv s); cbn; try reflexivity; intros; lia.
Qed.

Lemma ctx_monotone tk s l s' : xstep tk s l = Some s' -> ctxd s = true -> ctxd s' = true.
Proof. intros H Hc. step_inv H; cbn in *; auto; try discriminate. Qed.

Lemma ctx_monotone_exec tk ls : forall s s', xexec tk ls s = Some s' -> ctxd s = true -> ctxd s' = true.
Proof.
  induction ls as [|l ls IH]; cbn; intros s s' H Hc.
  - injection H as <-. auto.
  - destruct (xstep tk s l) eqn:E; [|discriminate]. eapply IH; eauto. eapply ctx_monotone; eauto.
Qed.

(* the whole of C14_ctx_exit *)
Lemma ctx_exit tk ls s :
  xexec tk ls xinit = Some s ->
  (* (a) no state is blocked once ctx is done; at the two blocking points the enabled step is the ctx arm itself *)
  (ctxd s = true -> returned s = false ->
     (exists a s', is_own a = true /\ xstep tk s a = Some s') /\
     ((exists d, pcv s = PDialWait d) \/ (exists f r, pcv s = PWait f r) -> exists s', xstep tk s AArmCtx = Some s')) /\
  (* (b) a measure strictly decreases on every own step and never increases otherwise *)
  (forall l s', xstep tk s l = Some s' -> if is_own l then mu tk s' < mu tk s else mu tk s' <= mu tk s) /\
  (* (c) hence the exchange performs at most own_bound own steps in total, at most ctx_bound after ctx is done *)
  count_own ls + mu tk s <= own_bound tk /\
  (ctxd s = true -> forall ls' s', xexec tk ls' s = Some s' -> count_own ls' <= ctx_bound) /\
  (mu tk s = 0 -> returned s = true).
Proof.
  intros Hex. repeat split.
  - apply ctx_no_block; auto.
  - intros Hw. apply wait_has_ctx_arm; auto.
  - intros l s' Hs. destruct (is_own l) eqn:O.
    + eapply own_step_decreases; eauto.
    + eapply env_step_noninc; eauto.
  - rewrite <- mu_init. eapply own_steps_bounded; eauto.
  - intros Hc ls' s' H'. pose proof (own_steps_bounded _ _ _ _ H'). pose proof (mu_ctx_done tk s Hc). lia.
  - apply mu_zero_returned.
Qed.

(* ---------- 2. the invariant behind retry_bound and stale_success ---------- *)

Definition causes (tk : tkind) (s : xstate) : Prop :=
  ctxd s = true \/ g_dial_fail s = true \/ g_get_err s = true \/ g_fresh_fail s = true \/
  (last_attempt_dials tk = false /\ retry_limit tk < fails s).

Definition inv (tk : tkind) (s : xstate) : Prop :=
  retry s <= retry_limit tk /\
  attempts s = retry s + (match pcv s with PGet => 0 | _ => 1 end) /\
  (match pcv s with
   | PCheck _ => fails s = S (retry s)
   | PRet _ => True
   | _ => fails s = retry s
   end) /\
  (pcv s = PRet RErr -> causes tk s) /\
  (* at most one dial per exchange, and after a dial the loop never iterates again *)
  dials s <= 1 /\
  (match pcv s with
   | PGet | PWrite false | PWait false _ | PCheck false => dials s = 0
   | PDialWait _ | PWrite true | PWait true _ | PCheck true => tk = TDoH \/ dials s = 1
   | PRet _ => True
   end) /\
  (g_fresh_fail s = false /\ g_dial_fail s = false /\ g_get_err s = false \/ returned s = true) /\
  (* where the last attempt dials, an attempt on a reused connection always has retry budget left *)
  (last_attempt_dials tk = true ->
   match pcv s with
   | PWrite false | PWait false _ | PCheck false => retry s < retry_limit tk
   | _ => True
   end).

Lemma inv_init tk : inv tk xinit.
Proof. unfold inv, xinit; cbn. repeat split; auto; try lia. discriminate. Qed.


Lemma inv_step tk s l s' : inv tk s -> xstep tk s l = Some s' -> inv tk s'.
Proof.
  intros (I1 & I2 & I3 & I4 & I5 & I6 & I7 & I8) H.
  step_inv H; cbn in *;
    repeat match goal with
    | E : (_ && _) = true |- _ => apply andb_true_iff in E; destruct E
    | E : (_ && _) = false |- _ => apply andb_false_iff in E
    | E : (_ <? _) = true |- _ => apply Nat.ltb_lt in E
    | E : (_ <? _) = false |- _ => apply Nat.ltb_ge in E
    | E : (_ <=? _) = true |- _ => apply Nat.leb_le in E
    | E : (_ <=? _) = false |- _ => apply Nat.leb_gt in E
    | E : negb _ = true |- _ => apply negb_true_iff in E
    | E : negb _ = false |- _ => apply negb_false_iff in E
    end; subst; cbn in *;
    unfold inv, causes; cbn;
    repeat split; auto; try lia; try discriminate;
    try (intros _; unfold causes in *; cbn in *; intuition (auto; lia));
    try (destruct I6 as [?|?]; [discriminate|lia]);
    try (destruct I7 as [(? & ? & ?)|?]; [auto|discriminate]);
    intuition (auto; try lia; try discriminate);
    repeat match goal with
    | H : context [negb ?b] |- _ => is_var b; destruct b; cbn in *
    end;
    repeat match goal with
    | E : (_ <? _) = false |- _ => apply Nat.ltb_ge in E
    | E : (_ <? _) = true |- _ => apply Nat.ltb_lt in E
    end;
    intuition (auto; try lia; try discriminate).
Qed.

Lemma inv_exec tk ls : forall s s', inv tk s -> xexec tk ls s = Some s' -> inv tk s'.
Proof.
  induction ls as [|l ls IH]; cbn; intros s s' Hi H.
  - injection H as <-. auto.
  - destruct (xstep tk s l) eqn:E; [|discriminate]. eapply IH; [|eauto]. eapply inv_step; eauto.
Qed.

Lemma inv_reachable tk s : reachable tk s -> inv tk s.
Proof. intros [ls H]. eapply inv_exec; eauto. apply inv_init. Qed.

(* the retry counter changes only at the check, by one, on a reused connection, with ctx live, below the limit *)
Lemma retry_only_by_check tk s l s' :
  xstep tk s l = Some s' -> retry s' <> retry s ->
  l = ACheck /\ pcv s = PCheck false /\ ctxd s = false /\ retry s < retry_limit tk /\
  retry s' = S (retry s) /\ pcv s' = PGet.
Proof.
  intros H Hn. step_inv H; cbn in *; try congruence;
    repeat match goal with
    | E : (_ && _) = true |- _ => apply andb_true_iff in E; destruct E
    | E : (_ <? _) = true |- _ => apply Nat.ltb_lt in E
    | E : negb _ = true |- _ => apply negb_true_iff in E
    end; subst; cbn in *; repeat split; auto.
Qed.

(* the loop re-enters its top only through that retry *)
Lemma back_to_get_only_by_retry tk s l s' :
  xstep tk s l = Some s' -> pcv s' = PGet -> pcv s <> PGet ->
  l = ACheck /\ pcv s = PCheck false /\ ctxd s = false /\ retry s < retry_limit tk /\ retry s' = S (retry s).
Proof.
  intros H Hp Hn. step_inv H; cbn in *; try congruence;
    repeat match goal with
    | E : (_ && _) = true |- _ => apply andb_true_iff in E; destruct E
    | E : (_ <? _) = true |- _ => apply Nat.ltb_lt in E
    | E : negb _ = true |- _ => apply negb_true_iff in E
    end; subst; cbn in *; repeat split; auto.
Qed.

(* a failure on a freshly dialled connection is returned, never retried *)
Lemma fresh_failure_returns tk s :
  pcv s = PCheck true ->
  exists s', xstep tk s ACheck = Some s' /\ pcv s' = PRet RErr /\ retry s' = retry s /\ dials s' = dials s.
Proof.
  intros Hp. destruct s as [r c d p di att f gf gd gg]; cbn in *; subst.
  unfold xstep; cbn. eexists; repeat split.
Qed.

(* with ctx done a failure is returned, never retried *)
Lemma ctx_done_failure_returns tk s f :
  pcv s = PCheck f -> ctxd s = true ->
  exists s', xstep tk s ACheck = Some s' /\ pcv s' = PRet RErr /\ retry s' = retry s.
Proof.
  intros Hp Hc. destruct s as [r c d p di att f0 gf gd gg]; cbn in *; subst.
  unfold xstep; cbn. rewrite andb_false_r. eexists; repeat split.
Qed.

(* at the limit a failure is returned *)
Lemma limit_failure_returns tk s f :
  pcv s = PCheck f -> retry_limit tk <= retry s ->
  exists s', xstep tk s ACheck = Some s' /\ pcv s' = PRet RErr.
Proof.
  intros Hp Hc. destruct s as [r c d p di att f0 gf gd gg]; cbn in *; subst.
  unfold xstep; cbn. assert ((r <? retry_limit tk) = false) as -> by (apply Nat.ltb_ge; lia).
  rewrite andb_false_r. cbn. eexists; repeat split.
Qed.

(* below the limit, on a reused connection, with ctx live: retried *)
Lemma reused_failure_retries tk s :
  pcv s = PCheck false -> ctxd s = false -> retry s < retry_limit tk ->
  exists s', xstep tk s ACheck = Some s' /\ pcv s' = PGet /\ retry s' = S (retry s).
Proof.
  intros Hp Hc Hl. destruct s as [r c d p di att f0 gf gd gg]; cbn in *; subst.
  unfold xstep; cbn. assert ((r <? retry_limit tk) = true) as -> by (apply Nat.ltb_lt; lia).
  cbn. eexists; repeat split.
Qed.

Lemma retry_bound tk s :
  reachable tk s ->
  retry s <= retry_limit tk /\ attempts s <= retry_limit tk + 1 /\ dials s <= 1 /\
  (pcv s = PGet -> dials s = 0).
Proof.
  intros Hr. destruct (inv_reachable _ _ Hr) as (I1 & I2 & I3 & I4 & I5 & I6 & I7 & I8).
  repeat split; auto.
  - destruct (pcv s); lia.
  - intros Hp. rewrite Hp in I6. auto.
Qed.

(* ---------- 3. connection death ---------- *)

(* pipelined connection: after closeWithErr the waiter's connection arm is enabled whatever the reply state *)
Lemma pipe_kill_wakes s f r :
  pcv s = PWait f r ->
  exists s1 s2, xstep TPipe s EKill = Some s1 /\ pcv s1 = PWait f r /\ cdead s1 = true /\
                xstep TPipe s1 AArmConn = Some s2 /\ pcv s2 = PCheck f.
Proof.
  intros Hp. destruct s as [r0 c d p di att f0 gf gd gg]; cbn in *; subst.
  unfold xstep; cbn. eexists; eexists; repeat split.
Qed.

(* broadcast: one cancellation of the connection context enables the arm of EVERY waiter of that connection *)
Definition waiting (s : xstate) : Prop := exists f r, pcv s = PWait f r.

Lemma pipe_kill_wakes_all (ws : list xstate) :
  Forall waiting ws ->
  Forall (fun w => exists w1 w2 f, xstep TPipe w EKill = Some w1 /\ cdead w1 = true /\
                                   xstep TPipe w1 AArmConn = Some w2 /\ pcv w2 = PCheck f) ws.
Proof.
  intros H. eapply Forall_impl; [|exact H].
  intros w (f & r & Hp). destruct (pipe_kill_wakes w f r Hp) as (w1 & w2 & A & B & C & D & E).
  exists w1, w2, f. auto.
Qed.

(* the cancelled context stays cancelled while the waiter waits: environment steps cannot disable the arm *)
Lemma dead_wait_arm s :
  waiting s -> cdead s = true -> exists s2 f, xstep TPipe s AArmConn = Some s2 /\ pcv s2 = PCheck f.
Proof.
  intros (f & r & Hp) Hd. destruct s as [r0 c d p di att f0 gf gd gg]; cbn in *; subst.
  unfold xstep; cbn. eexists; exists f; split; reflexivity.
Qed.

Lemma env_step_keeps_dead_wait s l s1 :
  waiting s -> cdead s = true -> is_own l = false -> xstep TPipe s l = Some s1 ->
  waiting s1 /\ cdead s1 = true.
Proof.
  intros (f & r & Hp) Hd O E. destruct s as [r0 c d p di att f0 gf gd gg]; cbn in *; subst.
  destruct l; cbn in O; try discriminate; unfold xstep in E; cbn in E.
  - destruct c; [discriminate E|]. injection E as <-. split; [exists f, r|]; reflexivity.
  - injection E as <-. split; [exists f, r|]; reflexivity.
  - destruct r; [discriminate E|]. destruct ok; cbn in E; [|discriminate E].
    injection E as <-. split; [exists f, (Some true)|]; reflexivity.
Qed.

Lemma pipe_dead_arm_stable ls : forall s,
  waiting s -> cdead s = true -> count_own ls = 0 ->
  forall s', xexec TPipe ls s = Some s' ->
  waiting s' /\ cdead s' = true /\ exists s2 f, xstep TPipe s' AArmConn = Some s2 /\ pcv s2 = PCheck f.
Proof.
  induction ls as [|l ls IH]; cbn; intros s Hw Hd Hc s' H.
  - injection H as <-. repeat split; auto. apply dead_wait_arm; auto.
  - destruct (xstep TPipe s l) as [s1|] eqn:E; [|discriminate].
    destruct (is_own l) eqn:O; [lia|].
    destruct (env_step_keeps_dead_wait _ _ _ Hw Hd O E) as [Hw1 Hd1].
    eapply IH; eauto.
Qed.

(* worker-based transports (reuse, QUIC, DoH): the waiter is woken through the worker goroutine, whose I/O on the
   dead connection fails: the step that posts the error does not depend on any reply, and then the result arm is
   enabled and leaves the wait *)
Lemma worker_kill_wakes tk s f r :
  conn_arm tk = false -> pcv s = PWait f r ->
  exists s1, xstep tk s EKill = Some s1 /\ pcv s1 = PWait f r /\
    match r with
    | Some _ => exists s2, xstep tk s1 AArmRes = Some s2 /\ returned s2 || match pcv s2 with PCheck _ => true | _ => false end = true
    | None => exists s2 s3, xstep tk s1 (EDeliver false) = Some s2 /\ xstep tk s2 AArmRes = Some s3 /\
                            match pcv s3 with PCheck _ | PRet RErr => True | _ => False end
    end.
Proof.
  intros Ha Hp. destruct s as [r0 c d p di att f0 gf gd gg]; cbn in *; subst.
  eexists. split; [reflexivity|]. split; [reflexivity|].
  destruct r as [ok|].
  - destruct ok; unfold xstep; cbn.
    + eexists; split; eauto.
    + destruct tk; cbn in Ha; try discriminate Ha; cbn; eexists; split; eauto.
  - destruct tk; cbn in Ha; try discriminate Ha; unfold xstep; cbn;
      (eexists; eexists; split; [reflexivity|]; cbn; split; [reflexivity|exact I]).
Qed.

(* ---------- 4. stale connections ---------- *)

(* every terminating run in which ctx stays live, no dial fails, the pool does not refuse, every freshly dialled
   connection works and at most retry_limit reused connections fail, returns the reply *)
Lemma stale_success tk s r :
  reachable tk s -> pcv s = PRet r ->
  ctxd s = false -> g_dial_fail s = false -> g_get_err s = false -> g_fresh_fail s = false ->
  fails s <= retry_limit tk ->
  r = RReply.
Proof.
  intros Hr Hp Hc Hd Hg Hf Hn.
  destruct (inv_reachable _ _ Hr) as (_ & _ & _ & I4 & _).
  destruct r; auto. exfalso.
  destruct (I4 Hp) as [H|[H|[H|[H|[_ H]]]]]; try congruence. lia.
Qed.

(* where the last attempt dials (ReuseConnTransport after the fix of K7) no bound on the number of stale pooled
   connections is needed *)
Lemma stale_success_unbounded tk s r :
  last_attempt_dials tk = true ->
  reachable tk s -> pcv s = PRet r ->
  ctxd s = false -> g_dial_fail s = false -> g_get_err s = false -> g_fresh_fail s = false ->
  r = RReply.
Proof.
  intros Hl Hr Hp Hc Hd Hg Hf.
  destruct (inv_reachable _ _ Hr) as (_ & _ & _ & I4 & _).
  destruct r; auto. exfalso.
  destruct (I4 Hp) as [H|[H|[H|[H|[H _]]]]]; congruence.
Qed.

(* a healthy connection is not blocked: the reply can be delivered and taken *)
Lemma healthy_wait_delivers tk s f :
  pcv s = PWait f None ->
  exists s1 s2, xstep tk s (EDeliver true) = Some s1 /\ xstep tk s1 AArmRes = Some s2 /\ pcv s2 = PRet RReply.
Proof.
  intros Hp. destruct s as [r0 c d p di att f0 gf gd gg]; cbn in *; subst.
  unfold xstep; cbn. rewrite andb_false_r. cbn. eexists; eexists; repeat split.
Qed.

(* scripted form: k <= limit stale pooled connections, then a healthy fresh dial: reply after exactly one dial *)
Lemma script_stale_success tk k :
  tk <> TDoH -> k <= retry_limit tk ->
  run_script tk (repeat FDie k) [] = Some (mkOut RReply 1 (S k) false).
Proof.
  intros Ht Hk. destruct tk; try congruence; cbn in Hk;
    do 7 (destruct k as [|k]; [first [lia | vm_compute; reflexivity]|]); lia.
Qed.

(* write errors count like dead connections *)
Lemma script_stale_success_w tk k :
  tk <> TDoH -> k <= retry_limit tk ->
  run_script tk (repeat FWriteErr k) [] = Some (mkOut RReply 1 (S k) false).
Proof.
  intros Ht Hk. destruct tk; try congruence; cbn in Hk;
    do 7 (destruct k as [|k]; [first [lia | vm_compute; reflexivity]|]); lia.
Qed.

(* K7 (fixed): however many idle connections of the one-at-a-time transport are stale, the exchange walks at most
   retry_limit of them and makes its last attempt on a freshly dialled connection *)
Lemma script_reuse_prefix rest :
  run_script TReuse (repeat FDie 6 ++ rest) [] = Some (mkOut RReply 1 7 false).
Proof. vm_compute. reflexivity. Qed.

Lemma script_many_stale_survived n :
  run_script TReuse (repeat FDie n) [] = Some (mkOut RReply 1 (S (Nat.min n 6)) false).
Proof.
  destruct (Nat.le_gt_cases n 6) as [H|H].
  - rewrite Nat.min_l by lia. apply script_stale_success; [discriminate|exact H].
  - rewrite Nat.min_r by lia.
    replace n with (6 + (n - 6)) by lia. rewrite repeat_app. apply script_reuse_prefix.
Qed.

(* the pipelined transport and QUIC keep the side condition: their pools never hand out a connection known to be
   closed, but 6 connections that each die only when used still exhaust the budget without a dial *)
Lemma script_budget_exhausted :
  run_script TPipe (repeat FDie 6) [] = Some (mkOut RErr 0 6 false) /\
  run_script TQuic (repeat FDie 6) [] = Some (mkOut RErr 0 6 false).
Proof. split; vm_compute; reflexivity. Qed.

(* the scripted runner only ever produces executions of [step] *)
Lemma run_script_sound tk pool dialf o :
  run_script tk pool dialf = Some o ->
  exists ls s, xexec tk ls xinit = Some s /\ pcv s = PRet (o_class o) /\
               dials s = o_dials o /\ attempts s = o_attempts o /\ ctxd s = o_ctx o.
Proof.
  unfold run_script. intros H.
  destruct (xexec tk (run_labels script_fuel tk xinit pool dialf FNone) xinit) as [s|] eqn:E; [|discriminate].
  destruct (pcv s) eqn:P; try discriminate. injection H as <-. cbn.
  eexists; eexists; split; [exact E|]. auto.
Qed.

(* every scripted outcome obeys the bounds *)
Lemma run_script_bounds tk pool dialf o :
  run_script tk pool dialf = Some o ->
  o_attempts o <= retry_limit tk + 1 /\ o_dials o <= 1.
Proof.
  intros H. destruct (run_script_sound _ _ _ _ H) as (ls & s & E & _ & D & A & _).
  destruct (retry_bound tk s (ex_intro _ ls E)) as (_ & B1 & B2 & _). lia.
Qed.

(* ---------- packaged forms used by Props/C14.v ---------- *)
Lemma retry_boundary tk s :
  pcv s = PCheck false -> ctxd s = false ->
  (retry s < retry_limit tk -> exists s', xstep tk s ACheck = Some s' /\ pcv s' = PGet /\ retry s' = S (retry s)) /\
  (retry_limit tk <= retry s -> exists s', xstep tk s ACheck = Some s' /\ pcv s' = PRet RErr).
Proof.
  intros Hp Hc. split; intros H.
  - apply reused_failure_retries; auto.
  - eapply limit_failure_returns; eauto.
Qed.

Lemma script_stale_success_both tk k :
  tk <> TDoH -> k <= retry_limit tk ->
  run_script tk (repeat FDie k) [] = Some (mkOut RReply 1 (S k) false) /\
  run_script tk (repeat FWriteErr k) [] = Some (mkOut RReply 1 (S k) false).
Proof. intros H1 H2. split; [apply script_stale_success|apply script_stale_success_w]; auto. Qed.

Lemma run_script_sound_bounds tk pool dialf o :
  run_script tk pool dialf = Some o ->
  (exists ls s, xexec tk ls xinit = Some s /\ pcv s = PRet (o_class o) /\
                dials s = o_dials o /\ attempts s = o_attempts o /\ ctxd s = o_ctx o) /\
  o_attempts o <= retry_limit tk + 1 /\ o_dials o <= 1.
Proof.
  intros H. split.
  - eapply run_script_sound; eauto.
  - eapply run_script_bounds; eauto.
Qed.

(* ================================================================================================================
   The idle read deadline of a pipelined connection ([ix_step]); the code is [wr = false]. *)

Lemma ix_dead_monotone wr idle s l s' :
  ix_step wr idle s l = Some s' -> ix_dead (ix_conn s) = true -> ix_dead (ix_conn s') = true.
Proof.
  destruct s as [[dd sn] ws]. unfold ix_step; cbn. intros H Hd; subst dd.
  destruct l; cbn in H.
  - injection H as <-. reflexivity.
  - discriminate H.
  - unfold ix_fire_enabled in H; cbn in H. discriminate H.
  - discriminate H.
  - injection H as <-. reflexivity.
  - destruct (nth_error ws i) as [w|]; [|discriminate H].
    match type of H with (if ?a then _ else _) = _ => destruct a; [|discriminate H] end.
    destruct (xstep TPipe w l) as [w'|]; [|discriminate H]. injection H as <-. cbn.
    destruct l; cbn; try reflexivity.
    + destruct (ix_on_conn w); reflexivity.
    + destruct (wr && ix_on_conn w); reflexivity.
Qed.

(* no step other than a read from the connection ever lowers the time since the deadline was armed:
   in particular no write, no join, no retry, no step of any exchange *)
Lemma ix_since_monotone idle s l s' :
  ix_step false idle s l = Some s' -> ix_is_read s l = false ->
  ix_since (ix_conn s) + (match l with IxTick => 1 | _ => 0 end) <= ix_since (ix_conn s').
Proof.
  destruct s as [[dd sn] ws]. unfold ix_step, ix_is_read; cbn. intros H Hr.
  destruct l; cbn in H; try discriminate Hr.
  - injection H as <-. cbn. lia.
  - destruct (ix_fire_enabled idle _); [|discriminate H]. injection H as <-. cbn. lia.
  - destruct dd; [discriminate H|]. injection H as <-. cbn. lia.
  - injection H as <-. cbn. lia.
  - destruct (nth_error ws i) as [w|]; [|discriminate H].
    match type of H with (if ?a then _ else _) = _ => destruct a; [|discriminate H] end.
    destruct (xstep TPipe w l) as [w'|]; [|discriminate H]. injection H as <-. cbn.
    destruct l; cbn; try lia.
    rewrite Hr. cbn. lia.
Qed.

Lemma ix_silence_accumulates idle ls : forall s s',
  ix_exec false idle ls s = Some s' -> ix_silent false idle ls s = true ->
  ix_since (ix_conn s) + ix_ticks ls <= ix_since (ix_conn s').
Proof.
  induction ls as [|l ls IH]; cbn; intros s s' H Hs.
  - injection H as <-. lia.
  - destruct (ix_step false idle s l) as [s1|] eqn:E; [|discriminate H].
    apply andb_true_iff in Hs. destruct Hs as [Hr Hs]. apply negb_true_iff in Hr.
    pose proof (ix_since_monotone _ _ _ _ E Hr) as M.
    specialize (IH _ _ H Hs). destruct l; cbn in *; lia.
Qed.

(* after an idle time-out of silence the deadline step is enabled, whatever the exchanges did meanwhile *)
Lemma ix_fire_enabled_after_silence idle ls s s' :
  ix_exec false idle ls s = Some s' -> ix_silent false idle ls s = true ->
  idle <= ix_since (ix_conn s) + ix_ticks ls ->
  ix_dead (ix_conn s') = false ->
  exists s'', ix_step false idle s' IxIdleFire = Some s''.
Proof.
  intros H Hs Hi Hd. pose proof (ix_silence_accumulates _ _ _ _ H Hs) as M.
  unfold ix_step, ix_fire_enabled. rewrite Hd. cbn.
  assert ((idle <=? ix_since (ix_conn s')) = true) as -> by (apply Nat.leb_le; lia).
  eauto.
Qed.

(* firing cancels the connection context in every exchange that is on the connection, and touches nothing else *)
Lemma ix_fire_wakes_all wr idle s s' :
  ix_step wr idle s IxIdleFire = Some s' ->
  ix_dead (ix_conn s') = true /\
  forall i w, nth_error (ix_ws s) i = Some w ->
    nth_error (ix_ws s') i = Some (ix_kill_w w) /\
    (ix_on_conn w = true -> cdead (ix_kill_w w) = true) /\
    pcv (ix_kill_w w) = pcv w /\ retry (ix_kill_w w) = retry w /\ ctxd (ix_kill_w w) = ctxd w /\
    dials (ix_kill_w w) = dials w.
Proof.
  unfold ix_step. destruct (ix_fire_enabled idle s); [|discriminate]. intros H. injection H as <-. cbn.
  split; [reflexivity|]. intros i w Hn. split; [apply map_nth_error; exact Hn|].
  unfold ix_kill_w. destruct (ix_on_conn w); cbn; repeat split; auto. discriminate.
Qed.

(* one woken waiter, healthy server for new connections: connection arm, retry, ONE dial, reply *)
Lemma ix_waiter_recovers w r :
  pcv w = PWait false r -> cdead w = true -> ctxd w = false -> retry w < retry_limit TPipe ->
  exists w', xexec TPipe ix_recovery w = Some w' /\ pcv w' = PRet RReply /\
             dials w' = S (dials w) /\ retry w' = S (retry w) /\ ctxd w' = false.
Proof.
  intros Hp Hd Hc Hr. destruct w as [r0 c d p di att f gf gd gg]; cbn in *; subst.
  unfold ix_recovery, xexec, xstep; cbn.
  assert ((r0 <? 5) = true) as -> by (apply Nat.ltb_lt; exact Hr). cbn.
  eexists; repeat split.
Qed.

(* labels an exchange can take whatever the state of the shared connection *)
Definition ix_free (l : xlabel) (w : xstate) : bool :=
  match l with
  | EKill | EDeliver _ => negb (ix_on_conn w)
  | AGet true => false
  | _ => true
  end.

Fixpoint ix_fexec (ls : list xlabel) (w : xstate) : option xstate :=
  match ls with
  | [] => Some w
  | l :: r => if ix_free l w then match xstep TPipe w l with Some w' => ix_fexec r w' | None => None end else None
  end.

Lemma ix_set_nth_same i w : forall l x, nth_error l i = Some x -> nth_error (ix_set_nth i w l) i = Some w.
Proof.
  induction i as [|i IH]; intros [|y l] x H; cbn in *; try discriminate; auto. eapply IH; eauto.
Qed.

Lemma ix_set_nth_other i w : forall l j, j <> i -> nth_error (ix_set_nth i w l) j = nth_error l j.
Proof.
  induction i as [|i IH]; intros [|y l] j H; cbn; auto.
  - destruct j; [congruence|reflexivity].
  - destruct j; [reflexivity|]. cbn. apply IH. congruence.
Qed.

Lemma ix_lift idle i ls : forall s w w',
  nth_error (ix_ws s) i = Some w -> ix_fexec ls w = Some w' ->
  exists s', ix_exec false idle (map (IxW i) ls) s = Some s' /\
             nth_error (ix_ws s') i = Some w' /\ ix_conn s' = ix_conn s /\
             (forall j, j <> i -> nth_error (ix_ws s') j = nth_error (ix_ws s) j).
Proof.
  induction ls as [|l ls IH]; intros s w w' Hn H; cbn [ix_fexec] in H; cbn [map ix_exec].
  - injection H as <-. exists s. auto.
  - destruct (ix_free l w) eqn:F; [|discriminate H].
    destruct (xstep TPipe w l) as [w1|] eqn:E; [|discriminate H].
    assert (exists s1, ix_step false idle s (IxW i l) = Some s1 /\ nth_error (ix_ws s1) i = Some w1 /\
                       ix_conn s1 = ix_conn s /\
                       (forall j, j <> i -> nth_error (ix_ws s1) j = nth_error (ix_ws s) j)) as (s1 & S1 & N1 & C1 & O1).
    { unfold ix_step. rewrite Hn.
      assert ((match l with
               | EKill => negb (ix_on_conn w)
               | AGet true => negb (ix_dead (ix_conn s))
               | EDeliver _ => negb (ix_on_conn w && ix_dead (ix_conn s))
               | _ => true end) = true) as ->.
      { destruct l; cbn in F; auto.
        - apply negb_true_iff in F. rewrite F. reflexivity.
        - destruct pooled; [discriminate F|reflexivity]. }
      rewrite E. eexists. split; [reflexivity|]. cbn. repeat split.
      - eapply ix_set_nth_same; eauto.
      - destruct l; cbn in *; auto. apply negb_true_iff in F. rewrite F. reflexivity.
      - intros j Hj. apply ix_set_nth_other; auto. }
    rewrite S1. destruct (IH _ _ _ N1 H) as (s' & X & N & C & O).
    exists s'. repeat split; auto; try congruence.
    intros j Hj. rewrite O by auto. apply O1; auto.
Qed.

Lemma ix_recovery_free w r :
  pcv w = PWait false r -> cdead w = true -> ctxd w = false -> retry w < retry_limit TPipe ->
  ix_fexec ix_recovery w = xexec TPipe ix_recovery w.
Proof.
  intros Hp Hd Hc Hr. destruct w as [r0 c d p di att f gf gd gg]; cbn in *; subst.
  unfold ix_recovery, ix_fexec, xexec, xstep, ix_free, ix_on_conn; cbn.
  assert ((r0 <? 5) = true) as -> by (apply Nat.ltb_lt; exact Hr). cbn. reflexivity.
Qed.

(* the whole statement: a pooled pipelined connection that has been silent for an idle time-out — whatever was
   written on it meanwhile, however many exchanges joined — is declared dead by a step that is enabled, and then
   every exchange waiting on it with a live context and retry budget reaches the reply over ONE fresh dial, by steps
   of its own plus a healthy server's, without disturbing the other exchanges *)
Lemma ix_silent_pooled_conn_recovered idle ls s0 s :
  ix_exec false idle ls s0 = Some s -> ix_silent false idle ls s0 = true ->
  idle <= ix_since (ix_conn s0) + ix_ticks ls ->
  ix_dead (ix_conn s) = false ->
  exists sf, ix_step false idle s IxIdleFire = Some sf /\ ix_dead (ix_conn sf) = true /\
    forall i w r, nth_error (ix_ws s) i = Some w ->
      pcv w = PWait false r -> ctxd w = false -> retry w < retry_limit TPipe ->
      exists s2 w2, ix_exec false idle (map (IxW i) ix_recovery) sf = Some s2 /\
                    nth_error (ix_ws s2) i = Some w2 /\ pcv w2 = PRet RReply /\
                    dials w2 = S (dials w) /\ retry w2 = S (retry w) /\
                    (forall j, j <> i -> nth_error (ix_ws s2) j = nth_error (ix_ws sf) j).
Proof.
  intros H Hs Hi Hd.
  destruct (ix_fire_enabled_after_silence _ _ _ _ H Hs Hi Hd) as (sf & F).
  exists sf. split; [exact F|]. destruct (ix_fire_wakes_all _ _ _ _ F) as (D & W). split; [exact D|].
  intros i w r Hn Hp Hc Hr.
  destruct (W i w Hn) as (N & K & P & R & C & DI).
  assert (ix_on_conn w = true) as On by (unfold ix_on_conn; rewrite Hp; reflexivity).
  specialize (K On).
  assert (pcv (ix_kill_w w) = PWait false r) as Hp' by congruence.
  assert (ctxd (ix_kill_w w) = false) as Hc' by congruence.
  assert (retry (ix_kill_w w) < retry_limit TPipe) as Hr' by (rewrite R; exact Hr).
  destruct (ix_waiter_recovers _ _ Hp' K Hc' Hr') as (w2 & X & P2 & D2 & R2 & _).
  rewrite <- (ix_recovery_free _ _ Hp' K Hc' Hr') in X.
  destruct (ix_lift idle i _ _ _ _ N X) as (s2 & E2 & N2 & _ & O2).
  exists s2, w2. repeat split; auto; congruence.
Qed.

(* sensitivity: if a write re-armed the read deadline ([wr = true], a SetDeadline in write), exchanges arriving more
   often than the idle time-out would keep a silent connection alive for ever: 10 rounds of (a new exchange gets the
   pooled connection, writes, one time unit passes) with idle = 3 — silent throughout, 10 units of time, and the
   deadline step is still disabled; with the code ([wr = false]) it is enabled after the same execution *)
Fixpoint ix_busy_rounds (n k : nat) : list ixlabel :=
  match n with
  | 0 => []
  | S m => [IxJoin; IxW k (AGet true); IxW k (AWrite true); IxTick] ++ ix_busy_rounds m (S k)
  end.

Lemma ix_write_rearm_starves :
  let ls := ix_busy_rounds 10 0 in
  ix_ticks ls = 10 /\
  ix_silent true 3 ls ix_init = true /\ ix_silent false 3 ls ix_init = true /\
  (exists s, ix_exec true 3 ls ix_init = Some s /\ ix_dead (ix_conn s) = false /\ ix_fire_enabled 3 s = false /\
             length (ix_ws s) = 10 /\ forallb ix_on_conn (ix_ws s) = true) /\
  (exists s, ix_exec false 3 ls ix_init = Some s /\ ix_dead (ix_conn s) = false /\ ix_fire_enabled 3 s = true).
Proof.
  cbv zeta. split; [vm_compute; reflexivity|]. split; [vm_compute; reflexivity|]. split; [vm_compute; reflexivity|].
  split; eexists; (split; [vm_compute; reflexivity|]); vm_compute; repeat split.
Qed.

(* the scripted form the harness is compared with *)
Lemma script_silent_pooled_recovered udp :
  run_case_idle TPipe udp true [SSilent] [SOk] = Some (mkOut RReply 1 2 false) /\
  run_case_idle TPipe udp true [SHalf] [SOk] = Some (mkOut RReply 1 2 false) /\
  run_case_idle TPipe udp false [SSilent] [SOk] = Some (mkOut RErr 0 1 true) /\
  run_case_idle TPipe udp true [] [SSilent] = Some (mkOut RErr 1 1 false).
Proof. destruct udp; vm_compute; repeat split. Qed.
