(* Net/UpRouter.v — model of how a ROUTER builds ALL its upstreams: app/router/router.go run()

     for i, upstreamCfg := range cfg.Upstreams { err := r.initUpstream(&upstreamCfg); if err != nil { return err } }

   initUpstream (Net/UpCfg.v: upc_init_upstream) is applied to the entries in order; the only state it reads from the
   router is the set of tags already registered ("dup tag").  Nothing else flows from one entry to the next: each
   upstream gets its own makeTlsConfig(&cfg.Tls, false), its own dial_addr.
   A second, DELIBERATELY WRONG mapping (the upr_shared definitions) keeps a tls.Config cache keyed by the ca / cert / key files only —
   the design the independence theorem excludes; it is refuted in Props/C17.v.
   Executable definitions only; proofs in Net/UpRouterProofs.v. *)
From Mos Require Import Base.Prelude Net.Addr Net.TlsCfg Net.UpCfg.

Local Open Scope N_scope.

Definition upr_tag_seen (t : list N) (seen : list (list N)) : bool := existsb (addr_list_eqb t) seen.

(* the loop of run(): [seen] = tags registered so far.  Result: (tag, upstream) in configuration order. *)
Fixpoint upr_init_all (seen : list (list N)) (cs : list upc_config) : res (list (list N * upc_upstream)) :=
  match cs with
  | [] => Ok []
  | c :: rest =>
    if upr_tag_seen (upc_tag c) seen then Err EOther                 (* dup tag *)
    else
      match upc_init_upstream c with
      | Ok u =>
        match upr_init_all (upc_tag c :: seen) rest with
        | Ok us => Ok ((upc_tag c, u) :: us)
        | Err e => Err e
        | Panic => Panic
        | OutOfFuel => OutOfFuel
        end
      | Err e => Err e
      | Panic => Panic
      | OutOfFuel => OutOfFuel
      end
  end.

Definition upr_init_router (cs : list upc_config) : res (list (list N * upc_upstream)) := upr_init_all [] cs.

Section UprHandshake.
  Variable cert : Type.
  Variable chains_to : ca_pool -> cert -> bool.
  Variable name_matches : cert -> list N -> bool.
  Variable time_valid : cert -> bool.

  (* the handshake decision of ONE built upstream (upc_exchange_ok = this, after upc_init_upstream) *)
  Definition upr_accepts (u : upc_upstream) (peer : option cert) : bool :=
    match uu_tls u with
    | None => true
    | Some t =>
      match ep_sni (uu_ep u) with
      | Some sni => client_accepts cert chains_to name_matches time_valid t sni peer
      | None => false
      end
    end.

  (* an exchange through the i-th upstream of the router built from [cs] can proceed *)
  Definition upr_exchange_ok (cs : list upc_config) (i : nat) (peer : option cert) : bool :=
    match upr_init_router cs with
    | Ok us => match nth_error us i with Some (_, u) => upr_accepts u peer | None => false end
    | _ => false
    end.
End UprHandshake.

(* ---- the instance run by the correspondence check (kind uprouter) ---- *)
(* verdict of one built upstream against a server presenting [peer] (demanding a client certificate iff [srvreq]) *)
Definition upr_verdict (u : upc_upstream) (peer : option cert_kind) (srvreq : bool) : bool :=
  match uu_tls u with
  | None => true
  | Some t => client_accepts cert_kind ck_chains ck_name ck_time t [] peer && (negb srvreq || c_has_cert t)
  end.

(* one entry of a case: the config entry, the certificate kind of ITS fake server, does that server demand a cert *)
Definition upr_entry := (upc_config * (option cert_kind * bool))%type.

(* None = the router does not start; otherwise, per entry in order: (exchange ok, dial target) *)
Definition upr_case (es : list upr_entry) : option (list (bool * list N)) :=
  match upr_init_router (map fst es) with
  | Ok us =>
    Some (map (fun p : (list N * upc_upstream) * upr_entry =>
                 let '((_, u), (_, (peer, srvreq))) := p in
                 (upr_verdict u peer srvreq, ep_dial (uu_ep u)))
              (combine us es))
  | _ => None
  end.

(* the same entry ALONE in a router *)
Definition upr_case_alone (e : upr_entry) : option (bool * list N) :=
  match upr_case [e] with
  | Some [v] => Some v
  | _ => None
  end.

(* ---- the excluded design: state shared between the entries ---- *)
(* a cache of client tls.Configs keyed by the FILES (ca configured, cert+key configured); insecure_skip_verify is
   not part of the key although the cached Config carries it *)
Definition upr_tls_cache := list ((bool * bool) * tls_config).

Fixpoint upr_cache_find (k : bool * bool) (m : upr_tls_cache) : option tls_config :=
  match m with
  | [] => None
  | ((a, b), t) :: r => if Bool.eqb a (fst k) && Bool.eqb b (snd k) then Some t else upr_cache_find k r
  end.

Definition upr_shared_tls (m : upr_tls_cache) (o : tls_opts) : res (tls_config * upr_tls_cache) :=
  let k := (o_ca o, o_cert_key o) in
  match upr_cache_find k m with
  | Some t => Ok (t, m)
  | None =>
    match make_tls_config o false with
    | Ok t => Ok (t, (k, t) :: m)
    | _ => Err EOther
    end
  end.

Definition upr_shared_upstream (m : upr_tls_cache) (c : upc_config) : res (upc_upstream * upr_tls_cache) :=
  match upc_tag c, upc_addr c with
  | _ :: _, _ :: _ =>
    match upr_shared_tls m (upc_tls c) with
    | Ok (t, m') =>
      match upc_new_upstream (upc_addr c) {| uo_dial_addr := upc_dial_addr c; uo_tls := Some t |} with
      | Ok u => Ok (u, m')
      | _ => Err EOther
      end
    | _ => Err EOther
    end
  | _, _ => Err EOther
  end.

Fixpoint upr_shared_all (m : upr_tls_cache) (seen : list (list N)) (cs : list upc_config)
  : res (list (list N * upc_upstream)) :=
  match cs with
  | [] => Ok []
  | c :: rest =>
    if upr_tag_seen (upc_tag c) seen then Err EOther
    else
      match upr_shared_upstream m c with
      | Ok (u, m') =>
        match upr_shared_all m' (upc_tag c :: seen) rest with
        | Ok us => Ok ((upc_tag c, u) :: us)
        | _ => Err EOther
        end
      | _ => Err EOther
      end
  end.

Definition upr_shared_router (cs : list upc_config) : res (list (list N * upc_upstream)) := upr_shared_all [] [] cs.

(* ---- SEVERAL TLS listeners in one router: run() starts the servers in order, each with its own
   makeTlsConfig(&serverCfg.Tls, true); the first failure aborts the start ---- *)
Fixpoint lsr_init_all (os : list tls_opts) : res (list tls_config) :=
  match os with
  | [] => Ok []
  | o :: rest =>
    match make_tls_config o true with
    | Ok t =>
      match lsr_init_all rest with
      | Ok ts => Ok (t :: ts)
      | Err e => Err e
      | Panic => Panic
      | OutOfFuel => OutOfFuel
      end
    | Err e => Err e
    | Panic => Panic
    | OutOfFuel => OutOfFuel
    end
  end.

(* None = the router does not start; otherwise, per listener in order: is a client presenting [peer] served *)
Definition lsr_case (es : list (tls_opts * option cert_kind)) : option (list bool) :=
  match lsr_init_all (map fst es) with
  | Ok ts =>
    Some (map (fun p : tls_config * (tls_opts * option cert_kind) =>
                 server_accepts cert_kind ck_chains ck_time (fst p) (snd (snd p)))
              (combine ts es))
  | _ => None
  end.
