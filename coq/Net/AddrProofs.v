(* Net/AddrProofs.v — proofs about Net/Addr.v and Net/TlsCfg.v (C17). *)
From Mos Require Import Base.Prelude Net.Addr Net.TlsCfg.
From Coq Require Import ZifyN ZifyNat ZifyBool.

Local Open Scope N_scope.

(* ------------------------------------------------------------------ bytes in strings *)

Lemma has_byte_cons c x t : has_byte c (x :: t) = (c =? x) || has_byte c t.
Proof. reflexivity. Qed.

Lemma has_byte_app c a b : has_byte c (a ++ b) = has_byte c a || has_byte c b.
Proof. unfold has_byte. apply existsb_app. Qed.

Lemma has_byte_cons_false c x t :
  has_byte c (x :: t) = false -> (x =? c) = false /\ has_byte c t = false.
Proof.
  rewrite has_byte_cons. intros H. apply orb_false_iff in H. destruct H as [H1 H2].
  split; [rewrite N.eqb_sym|]; assumption.
Qed.

Lemma forallb_not_has (P : N -> bool) c s :
  forallb P s = true -> P c = false -> has_byte c s = false.
Proof.
  intros H Hc. induction s as [|x t IH]; [reflexivity|].
  cbn in H. apply andb_true_iff in H. destruct H as [Hx Ht].
  rewrite has_byte_cons, (IH Ht), orb_false_r.
  destruct (N.eqb_spec c x) as [->|]; [congruence|reflexivity].
Qed.

Lemma forallb_last (P : N -> bool) s d :
  forallb P s = true -> s <> [] -> P (last s d) = true.
Proof.
  induction s as [|x t IH]; [congruence|]. intros H _.
  cbn in H. apply andb_true_iff in H. destruct H as [Hx Ht].
  destruct t as [|y t']; [exact Hx|]. apply IH; [exact Ht|discriminate].
Qed.

Lemma last_app_ne (x p : list N) d : p <> [] -> last (x ++ p) d = last p d.
Proof.
  intros Hp. induction x as [|a x IH]; [reflexivity|].
  cbn [app]. destruct (x ++ p) eqn:E.
  - destruct x; cbn in E; [congruence|discriminate].
  - rewrite <- IH. reflexivity.
Qed.

Lemma count_app c a b : count_byte c (a ++ b) = (count_byte c a + count_byte c b)%nat.
Proof.
  induction a as [|x a IH]; [reflexivity|]. cbn. destruct (x =? c); cbn; rewrite IH; reflexivity.
Qed.

Lemma count_zero c s : has_byte c s = false -> count_byte c s = O.
Proof.
  induction s as [|x t IH]; [reflexivity|]. intros H.
  apply has_byte_cons_false in H. destruct H as [H1 H2]. cbn. rewrite H1. auto.
Qed.

Lemma count_pos_has c s : (1 <= count_byte c s)%nat -> has_byte c s = true.
Proof.
  destruct (has_byte c s) eqn:E; [reflexivity|]. rewrite (count_zero _ _ E). lia.
Qed.

(* ------------------------------------------------------------------ rsplit / lsplit *)

Lemma rsplit_none c s : has_byte c s = false -> rsplit c s = None.
Proof.
  induction s as [|x t IH]; [reflexivity|]. intros H.
  apply has_byte_cons_false in H. destruct H as [H1 H2].
  cbn. rewrite (IH H2), H1. reflexivity.
Qed.

Lemma rsplit_app c a b : has_byte c b = false -> rsplit c (a ++ c :: b) = Some (a, b).
Proof.
  intros H. induction a as [|x a IH].
  - cbn. rewrite (rsplit_none _ _ H), N.eqb_refl. reflexivity.
  - cbn [app rsplit]. rewrite IH. reflexivity.
Qed.

Lemma rsplit_spec c s a b :
  rsplit c s = Some (a, b) -> s = a ++ c :: b /\ has_byte c b = false.
Proof.
  revert a b. induction s as [|x t IH]; [discriminate|]. intros a b. cbn.
  destruct (rsplit c t) as [[a' b']|] eqn:E.
  - intros H. inversion H; subst. destruct (IH _ _ eq_refl) as [-> Hb]. auto.
  - destruct (N.eqb_spec x c) as [->|]; [|discriminate].
    intros H. inversion H; subst. split; [reflexivity|].
    destruct (has_byte c b) eqn:Hb; [|reflexivity]. exfalso.
    clear -E Hb. induction b as [|y b IH]; [discriminate|].
    cbn in E. destruct (rsplit c b) as [[? ?]|]; [discriminate|].
    rewrite has_byte_cons in Hb. destruct (N.eqb_spec y c) as [->|Hn]; [discriminate|].
    apply orb_true_iff in Hb. destruct Hb as [Hb|Hb]; [apply N.eqb_eq in Hb; congruence|auto].
Qed.

Lemma lsplit_app c a b : has_byte c a = false -> lsplit c (a ++ c :: b) = Some (a, b).
Proof.
  induction a as [|x a IH]; intros H.
  - cbn. rewrite N.eqb_refl. reflexivity.
  - apply has_byte_cons_false in H. destruct H as [H1 H2].
    cbn [app lsplit]. rewrite H1, (IH H2). reflexivity.
Qed.

(* ------------------------------------------------------------------ net.SplitHostPort on the grammar *)

Definition plain (s : list N) : Prop :=
  has_byte ch_colon s = false /\ has_byte ch_lbr s = false /\ has_byte ch_rbr s = false.

(* no colon: "missing port" *)
Lemma split_no_colon s : has_byte ch_colon s = false -> split_host_port s = None.
Proof. intros H. unfold split_host_port. rewrite (rsplit_none _ _ H). reflexivity. Qed.

(* host:port *)
Lemma split_plain_port s p :
  s <> [] -> plain s -> plain p -> split_host_port (s ++ ch_colon :: p) = Some (s, p).
Proof.
  intros Hne (Hc & Hl & Hr) (Pc & Pl & Pr). unfold split_host_port.
  rewrite (rsplit_app _ _ _ Pc).
  destruct s as [|c0 t]; [congruence|]. cbn [app].
  destruct (has_byte_cons_false _ _ _ Hl) as [H0 _]. rewrite H0, Hc.
  change (c0 :: t ++ ch_colon :: p) with ((c0 :: t) ++ ch_colon :: p).
  rewrite !has_byte_app, Hl, Hr, !has_byte_cons, Pl, Pr. reflexivity.
Qed.

(* bare IPv6 literal: "too many colons" *)
Lemma split_v6_bare v :
  has_byte ch_lbr v = false -> (2 <= count_byte ch_colon v)%nat -> split_host_port v = None.
Proof.
  intros Hl Hc. unfold split_host_port.
  destruct (rsplit ch_colon v) as [[pre port]|] eqn:E; [|reflexivity].
  destruct (rsplit_spec _ _ _ _ E) as [Hv Hp].
  assert (has_byte ch_colon pre = true) as Hpre.
  { apply count_pos_has. rewrite Hv, count_app in Hc. cbn in Hc. rewrite (count_zero _ _ Hp) in Hc. lia. }
  destruct v as [|c0 t]; [reflexivity|].
  destruct (has_byte_cons_false _ _ _ Hl) as [H0 _]. rewrite H0, Hpre. reflexivity.
Qed.

(* [v6]:port *)
Lemma split_v6_port v p :
  has_byte ch_lbr v = false -> has_byte ch_rbr v = false -> plain p ->
  split_host_port (ch_lbr :: v ++ ch_rbr :: ch_colon :: p) = Some (v, p).
Proof.
  intros Hl Hr (Pc & Pl & Pr). unfold split_host_port.
  assert (ch_lbr :: v ++ ch_rbr :: ch_colon :: p = (ch_lbr :: v ++ [ch_rbr]) ++ ch_colon :: p) as E1.
  { cbn. rewrite <- app_assoc. reflexivity. }
  rewrite E1 at 1. rewrite (rsplit_app _ _ _ Pc).
  rewrite N.eqb_refl.
  change (ch_lbr :: v ++ ch_rbr :: ch_colon :: p) with ((ch_lbr :: v) ++ ch_rbr :: ch_colon :: p).
  rewrite lsplit_app by (rewrite has_byte_cons, Hr; reflexivity).
  assert (Nat.eqb (S (length (ch_lbr :: v))) (length (ch_lbr :: v ++ [ch_rbr])) = true) as ->.
  { apply Nat.eqb_eq. cbn. rewrite app_length. cbn. lia. }
  cbn [tl]. rewrite has_byte_app, Hl, !has_byte_cons, Pl, Pr. reflexivity.
Qed.

(* ------------------------------------------------------------------ tryTrimIpv6Brackets *)

Lemma trim_not_bracket c t : (c =? ch_lbr) = false -> try_trim_brackets (c :: t) = c :: t.
Proof. intros H. unfold try_trim_brackets. rewrite H. destruct (Nat.ltb _ _); reflexivity. Qed.

(* the inner text of a bracketed literal is preserved exactly, whatever it is *)
Lemma trim_bracketed v : try_trim_brackets (ch_lbr :: v ++ [ch_rbr]) = v.
Proof.
  unfold try_trim_brackets.
  assert (Nat.ltb (length (ch_lbr :: v ++ [ch_rbr])) 2 = false) as ->.
  { apply Nat.ltb_ge. cbn. rewrite app_length. cbn. lia. }
  rewrite last_last, removelast_last, !N.eqb_refl. reflexivity.
Qed.

Lemma trim_bracketed_port v p :
  p <> [] -> forallb is_digit p = true ->
  try_trim_brackets (ch_lbr :: v ++ ch_rbr :: ch_colon :: p) = ch_lbr :: v ++ ch_rbr :: ch_colon :: p.
Proof.
  intros Hne Hd. unfold try_trim_brackets.
  destruct (Nat.ltb _ _); [reflexivity|].
  assert (v ++ ch_rbr :: ch_colon :: p = (v ++ [ch_rbr; ch_colon]) ++ p) as E by (rewrite <- app_assoc; reflexivity).
  rewrite E, (last_app_ne _ _ _ Hne).
  pose proof (forallb_last _ _ 0 Hd Hne) as Hl.
  assert ((last p 0 =? ch_rbr) = false) as ->.
  { apply N.eqb_neq. intros Heq. rewrite Heq in Hl. discriminate. }
  rewrite andb_false_r. reflexivity.
Qed.

(* ------------------------------------------------------------------ character classes of the grammar *)

Lemma digits_plain p : forallb is_digit p = true -> plain p.
Proof. intros H. repeat split; apply (forallb_not_has _ _ _ H); reflexivity. Qed.

Lemma v4_plain s : forallb is_v4_char s = true -> plain s.
Proof. intros H. repeat split; apply (forallb_not_has _ _ _ H); reflexivity. Qed.

Lemma dom_plain s : forallb is_dom_char s = true -> plain s.
Proof. intros H. repeat split; apply (forallb_not_has _ _ _ H); reflexivity. Qed.

Lemma wf_port_facts p : wf_port p = true -> p <> [] /\ forallb is_digit p = true.
Proof.
  unfold wf_port. intros H. apply andb_true_iff in H. destruct H as [H Hd].
  apply andb_true_iff in H. destruct H as [Hn _]. split; [|exact Hd].
  destruct p; [discriminate|discriminate].
Qed.

(* a host form that is not IPv6: the name is non-empty, plain, and contains none of '@' '/' '?' '#' *)
Definition other_free (s : list N) : Prop :=
  has_byte ch_at s = false /\ has_byte ch_slash s = false /\ has_byte ch_qmark s = false /\ has_byte ch_hash s = false.

Lemma wf_v4_facts s : wf_host (HV4 s) = true -> s <> [] /\ plain s /\ other_free s.
Proof.
  cbn. intros H. apply andb_true_iff in H. destruct H as [Hn H].
  split; [destruct s; [discriminate|discriminate]|]. split; [apply v4_plain, H|].
  repeat split; apply (forallb_not_has _ _ _ H); reflexivity.
Qed.

Lemma wf_dom_facts s : wf_host (HDom s) = true -> s <> [] /\ plain s /\ other_free s.
Proof.
  cbn. intros H. apply andb_true_iff in H. destruct H as [Hn H].
  split; [destruct s; [discriminate|discriminate]|]. split; [apply dom_plain, H|].
  repeat split; apply (forallb_not_has _ _ _ H); reflexivity.
Qed.

Lemma wf_v6_facts v : wf_host (HV6 v) = true ->
  has_byte ch_lbr v = false /\ has_byte ch_rbr v = false /\ (2 <= count_byte ch_colon v)%nat /\
  has_byte ch_colon v = true /\ other_free v.
Proof.
  unfold wf_host. intros H. apply andb_true_iff in H. destruct H as [H Hc]. apply Nat.leb_le in Hc.
  split; [apply (forallb_not_has _ _ _ H); reflexivity|].
  split; [apply (forallb_not_has _ _ _ H); reflexivity|].
  split; [exact Hc|]. split; [apply count_pos_has; lia|].
  repeat split; apply (forallb_not_has _ _ _ H); reflexivity.
Qed.

Lemma digits_other_free p : forallb is_digit p = true -> other_free p.
Proof. intros H. repeat split; apply (forallb_not_has _ _ _ H); reflexivity. Qed.

(* ------------------------------------------------------------------ join / unix *)

Lemma join_plain s port : has_byte ch_colon s = false -> join_host_port s port = s ++ ch_colon :: port.
Proof. intros H. unfold join_host_port. rewrite H. reflexivity. Qed.

Lemma join_v6 v port : has_byte ch_colon v = true ->
  join_host_port v port = ch_lbr :: v ++ ch_rbr :: ch_colon :: port.
Proof. intros H. unfold join_host_port. rewrite H. reflexivity. Qed.

Lemma join_not_unix h port : wf_host h = true -> is_unix_addr (join_host_port (host_name h) port) = false.
Proof.
  intros W. destruct h as [s|s|v]; cbn [host_name].
  - destruct (wf_v4_facts _ W) as (Hne & (Hc & _) & (Ha & _)). rewrite (join_plain _ _ Hc).
    destruct s as [|c t]; [congruence|]. cbn. apply has_byte_cons_false in Ha. tauto.
  - destruct (wf_dom_facts _ W) as (Hne & (Hc & _) & (Ha & _)). rewrite (join_plain _ _ Hc).
    destruct s as [|c t]; [congruence|]. cbn. apply has_byte_cons_false in Ha. tauto.
  - destruct (wf_v6_facts _ W) as (_ & _ & _ & Hc & _). rewrite (join_v6 _ _ Hc). reflexivity.
Qed.

(* ------------------------------------------------------------------ the URL host of the grammar through the helpers *)

(* getDialAddr without override, and the server name, for every host of the grammar x optional port *)
Lemma url_host_facts h p dp :
  wf_host h = true -> wf_port_opt p = true ->
  let uh := try_trim_brackets (authority h p) in
  get_dial_addr uh [] dp = join_host_port (host_name h) (match p with Some p => p | None => dp end) /\
  try_remove_port uh = host_name h.
Proof.
  intros W Wp uh. subst uh. unfold authority. destruct h as [s|s|v]; cbn [host_text host_name].
  1,2: (
    (pose proof (wf_v4_facts _ W) as F || pose proof (wf_dom_facts _ W) as F);
    destruct F as (Hne & Pl & _); pose proof Pl as (Hc & Hl & Hr);
    destruct s as [|c0 t]; [congruence|];
    destruct (has_byte_cons_false _ _ _ Hl) as [H0 _];
    destruct p as [p|]; cbn [app];
    [ destruct (wf_port_facts _ Wp) as [Pne Pd];
      rewrite (trim_not_bracket _ _ H0);
      change (c0 :: t ++ ch_colon :: p) with ((c0 :: t) ++ ch_colon :: p);
      unfold get_dial_addr, try_split_host_port, try_remove_port;
      rewrite (split_plain_port _ _ Hne Pl (digits_plain _ Pd));
      destruct p as [|d p']; [congruence|];
      rewrite (join_plain _ _ Hc); split; reflexivity
    | rewrite app_nil_r, (trim_not_bracket _ _ H0);
      unfold get_dial_addr, try_split_host_port, try_remove_port;
      rewrite (split_no_colon _ Hc); split; reflexivity ]).
  destruct (wf_v6_facts _ W) as (Hl & Hr & Hcnt & Hc & _).
  destruct p as [p|].
  - destruct (wf_port_facts _ Wp) as [Pne Pd].
    assert ((ch_lbr :: v ++ [ch_rbr]) ++ ch_colon :: p = ch_lbr :: v ++ ch_rbr :: ch_colon :: p) as E.
    { cbn. rewrite <- app_assoc. reflexivity. }
    rewrite E, (trim_bracketed_port _ _ Pne Pd).
    unfold get_dial_addr, try_split_host_port, try_remove_port.
    rewrite (split_v6_port _ _ Hl Hr (digits_plain _ Pd)).
    destruct p as [|d p']; [congruence|].
    rewrite (join_v6 _ _ Hc). split; reflexivity.
  - rewrite app_nil_r, trim_bracketed.
    unfold get_dial_addr, try_split_host_port, try_remove_port.
    rewrite (split_v6_bare _ Hl Hcnt). split; reflexivity.
Qed.

Lemma dial_text_nonempty h p : wf_host h = true -> dial_text h p <> [].
Proof.
  intros W. destruct h as [s|s|v]; destruct p as [p|]; cbn; try discriminate.
  - destruct (wf_v4_facts _ W) as (Hne & _). destruct s; [congruence|discriminate].
  - destruct (wf_v4_facts _ W) as (Hne & _). exact Hne.
  - destruct (wf_dom_facts _ W) as (Hne & _). destruct s; [congruence|discriminate].
  - destruct (wf_dom_facts _ W) as (Hne & _). exact Hne.
  - destruct (wf_v6_facts _ W) as (_ & _ & Hcnt & _). destruct v; [cbn in Hcnt; lia|discriminate].
Qed.

Lemma dial_text_not_unix h p : wf_host h = true -> is_unix_addr (dial_text h p) = false.
Proof.
  intros W. destruct h as [s|s|v]; destruct p as [p|]; cbn [dial_text host_text host_name]; try reflexivity.
  1,2: destruct (wf_v4_facts _ W) as (Hne & _ & (Ha & _)); destruct s as [|c t]; [congruence|];
       cbn; apply has_byte_cons_false in Ha; tauto.
  1,2: destruct (wf_dom_facts _ W) as (Hne & _ & (Ha & _)); destruct s as [|c t]; [congruence|];
       cbn; apply has_byte_cons_false in Ha; tauto.
  destruct (wf_v6_facts _ W) as (_ & _ & Hcnt & _ & (Ha & _)).
  destruct v as [|c t]; [reflexivity|]. cbn. apply has_byte_cons_false in Ha. tauto.
Qed.

Lemma get_dial_addr_override uh d dp :
  d <> [] -> is_unix_addr d = false ->
  get_dial_addr uh d dp =
  match snd (try_split_host_port d) with
  | [] => join_host_port (try_trim_brackets (fst (try_split_host_port d))) dp | _ :: _ => d end.
Proof.
  intros Hne Hu. unfold get_dial_addr. destruct d as [|x xs]; [congruence|]. rewrite Hu.
  destruct (try_split_host_port (x :: xs)) as [hh pp]. reflexivity.
Qed.

Lemma trim_no_lbr s : has_byte ch_lbr s = false -> try_trim_brackets s = s.
Proof.
  destruct s as [|c t]; [reflexivity|]. intros H. apply has_byte_cons_false in H.
  apply trim_not_bracket, H.
Qed.

(* "[v]" without a port does not split: missing port *)
Lemma split_bracketed_bare v :
  has_byte ch_rbr v = false -> split_host_port (ch_lbr :: v ++ [ch_rbr]) = None.
Proof.
  intros Hr. unfold split_host_port.
  destruct (rsplit ch_colon (ch_lbr :: v ++ [ch_rbr])) as [[pre port]|]; [|reflexivity].
  rewrite N.eqb_refl.
  change (ch_lbr :: v ++ [ch_rbr]) with ((ch_lbr :: v) ++ ch_rbr :: []).
  rewrite lsplit_app by (rewrite has_byte_cons, Hr; reflexivity). reflexivity.
Qed.

(* getDialAddr with an override of the grammar *)
Lemma dial_override_facts uh dh dpo dp :
  wf_host dh = true -> wf_port_opt dpo = true ->
  get_dial_addr uh (dial_text dh dpo) dp =
  join_host_port (host_name dh) (match dpo with Some p => p | None => dp end).
Proof.
  intros W Wp.
  rewrite (get_dial_addr_override _ _ _ (dial_text_nonempty dh dpo W) (dial_text_not_unix dh dpo W)).
  destruct dh as [s|s|v]; cbn [dial_text host_text host_name].
  1,2: (
    (pose proof (wf_v4_facts _ W) as F || pose proof (wf_dom_facts _ W) as F);
    destruct F as (Hne & Pl & _); pose proof Pl as (Hc & Hl & Hr);
    destruct dpo as [p|]; cbn [dial_text host_text host_name];
    [ destruct (wf_port_facts _ Wp) as [Pne Pd];
      unfold try_split_host_port;
      rewrite (split_plain_port _ _ Hne Pl (digits_plain _ Pd)); cbn [fst snd];
      destruct p as [|d p']; [congruence|];
      rewrite (join_plain _ _ Hc); reflexivity
    | unfold try_split_host_port; rewrite (split_no_colon _ Hc); cbn [fst snd]; rewrite (trim_no_lbr _ Hl); reflexivity ]).
  destruct (wf_v6_facts _ W) as (Hl & Hr & Hcnt & Hc & _).
  destruct dpo as [p|]; cbn [dial_text host_text host_name].
  - destruct (wf_port_facts _ Wp) as [Pne Pd].
    assert ((ch_lbr :: v ++ [ch_rbr]) ++ ch_colon :: p = ch_lbr :: v ++ ch_rbr :: ch_colon :: p) as E.
    { cbn. rewrite <- app_assoc. reflexivity. }
    rewrite E. unfold try_split_host_port.
    rewrite (split_v6_port _ _ Hl Hr (digits_plain _ Pd)). cbn [fst snd].
    destruct p as [|d p']; [congruence|].
    rewrite (join_v6 _ _ Hc). reflexivity.
  - unfold try_split_host_port. rewrite (split_v6_bare _ Hl Hcnt). cbn [fst snd]. rewrite (trim_no_lbr _ Hl). reflexivity.
Qed.

(* a bracketed IPv6 override WITHOUT a port ("[::1]"): the brackets are removed before the default port is joined
   (this is what finding K5 was about: the brackets used to be kept and doubled) *)
Lemma dial_bracketed_facts uh v dp :
  wf_host (HV6 v) = true ->
  get_dial_addr uh (ch_lbr :: v ++ [ch_rbr]) dp = join_host_port v dp.
Proof.
  intros W. destruct (wf_v6_facts _ W) as (Hl & Hr & Hcnt & Hc & _).
  unfold get_dial_addr. cbn [is_unix_addr]. change (ch_lbr =? ch_at) with false. cbv iota.
  unfold try_split_host_port. rewrite (split_bracketed_bare _ Hr), trim_bracketed. reflexivity.
Qed.

Lemma dial_unix uh d dp : is_unix_addr d = true -> get_dial_addr uh d dp = d /\ network_of d = NUnix.
Proof.
  intros H. unfold get_dial_addr, network_of. rewrite H. destruct d; [discriminate|]. auto.
Qed.

(* ------------------------------------------------------------------ endpoint_core on the grammar *)

Lemma core_no_override sc pl h3 h p :
  wf_host h = true -> wf_port_opt p = true ->
  let ep := endpoint_core sc pl h3 (authority h p) [] in
  ep_dial ep = join_host_port (host_name h) (port_or_default sc p) /\
  ep_net ep = expected_net sc h3 /\
  ep_sni ep = (if uses_tls sc then Some (host_name h) else None) /\
  ep_host ep = (if uses_http sc then Some (authority h p) else None).
Proof.
  intros W Wp. destruct (url_host_facts h p (default_port sc) W Wp) as [Hd Hs].
  unfold endpoint_core. cbn [ep_dial ep_net ep_sni ep_host].
  rewrite Hd, Hs. unfold port_or_default, expected_net, network_of.
  rewrite (join_not_unix _ _ W). repeat split.
Qed.

Lemma core_override sc pl h3 h p dh dpo :
  wf_host h = true -> wf_port_opt p = true -> wf_host dh = true -> wf_port_opt dpo = true ->
  let ep := endpoint_core sc pl h3 (authority h p) (dial_text dh dpo) in
  ep_dial ep = join_host_port (host_name dh) (port_or_default sc dpo) /\
  ep_net ep = expected_net sc h3 /\
  ep_sni ep = (if uses_tls sc then Some (host_name h) else None) /\
  ep_host ep = (if uses_http sc then Some (authority h p) else None).
Proof.
  intros W Wp Wd Wdp. destruct (url_host_facts h p (default_port sc) W Wp) as [_ Hs].
  unfold endpoint_core. cbn [ep_dial ep_net ep_sni ep_host].
  rewrite (dial_override_facts _ dh dpo (default_port sc) Wd Wdp), Hs.
  unfold port_or_default, expected_net, network_of.
  rewrite (join_not_unix _ _ Wd). repeat split.
Qed.

Lemma core_override_bracketed sc pl h3 h p v :
  wf_host h = true -> wf_port_opt p = true -> wf_host (HV6 v) = true ->
  let ep := endpoint_core sc pl h3 (authority h p) (ch_lbr :: v ++ [ch_rbr]) in
  ep_dial ep = join_host_port v (default_port sc) /\
  ep_net ep = expected_net sc h3 /\
  ep_sni ep = (if uses_tls sc then Some (host_name h) else None) /\
  ep_host ep = (if uses_http sc then Some (authority h p) else None).
Proof.
  intros W Wp Wd. destruct (url_host_facts h p (default_port sc) W Wp) as [_ Hs].
  unfold endpoint_core. cbn [ep_dial ep_net ep_sni ep_host].
  rewrite (dial_bracketed_facts _ v (default_port sc) Wd), Hs.
  unfold expected_net, network_of.
  rewrite (join_not_unix (HV6 v) _ Wd). repeat split.
Qed.

Lemma core_unix sc pl h3 h p d :
  wf_host h = true -> wf_port_opt p = true -> wf_unix d = true ->
  let ep := endpoint_core sc pl h3 (authority h p) d in
  ep_dial ep = d /\
  ep_net ep = (if is_stream sc h3 then NUnix else NUdp) /\
  ep_sni ep = (if uses_tls sc then Some (host_name h) else None) /\
  ep_host ep = (if uses_http sc then Some (authority h p) else None).
Proof.
  intros W Wp Wu. destruct (url_host_facts h p (default_port sc) W Wp) as [_ Hs].
  destruct (dial_unix (try_trim_brackets (authority h p)) d (default_port sc) Wu) as [Hd Hn].
  unfold endpoint_core. cbn [ep_dial ep_net ep_sni ep_host].
  rewrite Hd, Hs, Hn. repeat split.
Qed.

(* ------------------------------------------------------------------ the URL layer *)

Lemma cut_sep_app a r : has_byte ch_colon a = false -> cut_sep (a ++ sep ++ r) = Some (a, r).
Proof.
  induction a as [|x a IH]; intros H.
  - cbn. reflexivity.
  - apply has_byte_cons_false in H. destruct H as [H1 H2].
    cbn [app cut_sep]. unfold sep at 1. cbn [starts_with].
    change (58 =? x) with (ch_colon =? x). rewrite N.eqb_sym, H1. cbn [andb].
    rewrite (IH H2). reflexivity.
Qed.

Lemma cut_sep_none s : has_byte ch_slash s = false -> cut_sep s = None.
Proof.
  induction s as [|x t IH]; [reflexivity|]. intros H.
  apply has_byte_cons_false in H. destruct H as [H1 H2].
  cbn [cut_sep]. rewrite (IH H2).
  assert (starts_with sep (x :: t) = false) as ->; [|reflexivity].
  unfold sep. cbn [starts_with]. destruct t as [|y t']; [apply andb_false_r|].
  apply has_byte_cons_false in H2. destruct H2 as [Hy _].
  change (47 =? y) with (ch_slash =? y). rewrite (N.eqb_sym ch_slash y), Hy.
  cbn. apply andb_false_r.
Qed.

Lemma url_host_app a path :
  has_byte ch_slash a = false -> has_byte ch_qmark a = false -> has_byte ch_hash a = false ->
  wf_path path = true -> url_host (a ++ path) = a.
Proof.
  intros Hs Hq Hh Hp. induction a as [|x a IH].
  - cbn. destruct path as [|c t]; [reflexivity|]. cbn in *. rewrite Hp. reflexivity.
  - apply has_byte_cons_false in Hs, Hq, Hh.
    destruct Hs as [Hs1 Hs2], Hq as [Hq1 Hq2], Hh as [Hh1 Hh2].
    cbn [app url_host]. unfold is_delim. rewrite Hs1, Hq1, Hh1. cbn [orb].
    rewrite (IH Hs2 Hq2 Hh2). reflexivity.
Qed.

Lemma other_free_app a b : other_free a -> other_free b -> other_free (a ++ b).
Proof.
  intros (A1 & A2 & A3 & A4) (B1 & B2 & B3 & B4).
  repeat split; rewrite has_byte_app; try rewrite A1; try rewrite A2; try rewrite A3; try rewrite A4; assumption.
Qed.

Lemma other_free_cons c a : other_free [c] -> other_free a -> other_free (c :: a).
Proof. intros H1 H2. exact (other_free_app [c] a H1 H2). Qed.

Lemma authority_other_free h p : wf_host h = true -> wf_port_opt p = true -> other_free (authority h p).
Proof.
  intros W Wp. unfold authority. apply other_free_app.
  - destruct h as [s|s|v]; cbn [host_text].
    + apply (wf_v4_facts _ W).
    + apply (wf_dom_facts _ W).
    + apply other_free_cons; [repeat split|]. apply other_free_app; [apply (wf_v6_facts _ W)|repeat split].
  - destruct p as [p|]; [|repeat split].
    apply other_free_cons; [repeat split|]. apply digits_other_free, (wf_port_facts _ Wp).
Qed.

Lemma authority_host_ok h p : wf_host h = true -> wf_port_opt p = true -> url_host_ok (authority h p) = true.
Proof.
  intros W Wp. unfold authority. destruct h as [s|s|v]; cbn [host_text].
  1,2: (
    (pose proof (wf_v4_facts _ W) as F || pose proof (wf_dom_facts _ W) as F);
    destruct F as (Hne & Pl & _); pose proof Pl as (Hc & Hl & Hr);
    destruct s as [|c0 t]; [congruence|];
    destruct (has_byte_cons_false _ _ _ Hl) as [H0 _];
    destruct p as [p|]; unfold url_host_ok; cbn [app]; rewrite H0;
    [ destruct (wf_port_facts _ Wp) as [Pne Pd];
      change (c0 :: t ++ ch_colon :: p) with ((c0 :: t) ++ ch_colon :: p);
      rewrite (rsplit_app _ _ _ (proj1 (digits_plain _ Pd))); exact Pd
    | rewrite app_nil_r, (rsplit_none _ _ Hc); reflexivity ]).
  destruct (wf_v6_facts _ W) as (Hl & Hr & _).
  unfold url_host_ok. cbn [app]. rewrite N.eqb_refl.
  destruct p as [p|].
  - destruct (wf_port_facts _ Wp) as [Pne Pd].
    assert (ch_lbr :: (v ++ [ch_rbr]) ++ ch_colon :: p = (ch_lbr :: v) ++ ch_rbr :: (ch_colon :: p)) as E.
    { cbn. rewrite <- app_assoc. reflexivity. }
    rewrite E, rsplit_app.
    + cbn. exact Pd.
    + rewrite has_byte_cons. rewrite (proj2 (proj2 (digits_plain _ Pd))). reflexivity.
  - rewrite app_nil_r.
    change (ch_lbr :: v ++ [ch_rbr]) with ((ch_lbr :: v) ++ ch_rbr :: []).
    rewrite rsplit_app by reflexivity. reflexivity.
Qed.

(* every scheme text NewUpstream accepts, written explicitly: the URL is parsed into the table's entry *)
Lemma endpoint_of_scheme st k h p path d :
  In (st, k) scheme_table ->
  wf_host h = true -> wf_port_opt p = true -> wf_path path = true ->
  endpoint_of (url_of (Some st) h p path) d =
  Ok (endpoint_core (fst (fst k)) (snd (fst k)) (snd k) (authority h p) d).
Proof.
  intros Hin W Wp Wpath.
  destruct (authority_other_free h p W Wp) as (_ & Fs & Fq & Fh).
  pose proof (authority_host_ok h p W Wp) as Hok.
  unfold url_of, endpoint_of.
  assert (has_byte ch_colon st = false /\ scheme_chars_ok st = true /\ parse_scheme st = Some k) as (Hc & Hsc & Hps).
  { cbn in Hin.
    repeat (destruct Hin as [Hin|Hin]; [inversion Hin; subst; repeat split; reflexivity|]).
    contradiction. }
  rewrite (cut_sep_app _ _ Hc), Hsc, Hps. cbn [negb].
  destruct k as [[sc pl] h3]. cbn [fst snd].
  rewrite (url_host_app _ _ Fs Fq Fh Wpath), Hok. reflexivity.
Qed.

(* scheme omitted: udp *)
Lemma endpoint_of_default h p d :
  wf_host h = true -> wf_port_opt p = true ->
  endpoint_of (url_of None h p []) d = Ok (endpoint_core SUdp false false (authority h p) d).
Proof.
  intros W Wp.
  destruct (authority_other_free h p W Wp) as (_ & Fs & Fq & Fh).
  pose proof (authority_host_ok h p W Wp) as Hok.
  unfold url_of, endpoint_of. rewrite (cut_sep_none _ Fs).
  change (scheme_chars_ok s_udp) with true. change (parse_scheme s_udp) with (Some (SUdp, false, false)).
  cbn [negb].
  pose proof (url_host_app _ [] Fs Fq Fh eq_refl) as E. rewrite app_nil_r in E.
  rewrite E, Hok. reflexivity.
Qed.

(* scheme of a URL form: the table entry, or udp when omitted *)
Definition scheme_entry (st : option (list N)) (k : scheme * bool * bool) : Prop :=
  match st with
  | Some st => In (st, k) scheme_table
  | None => k = (SUdp, false, false)
  end.

Definition path_ok (st : option (list N)) (path : list N) : Prop :=
  match st with Some _ => wf_path path = true | None => path = [] end.

Lemma endpoint_of_any st k h p path d :
  scheme_entry st k -> path_ok st path ->
  wf_host h = true -> wf_port_opt p = true ->
  endpoint_of (url_of st h p path) d =
  Ok (endpoint_core (fst (fst k)) (snd (fst k)) (snd k) (authority h p) d).
Proof.
  intros Hs Hp W Wp. destruct st as [st|]; cbn in Hs, Hp.
  - apply endpoint_of_scheme; assumption.
  - subst. cbn [fst snd]. cbn [url_of]. apply (endpoint_of_default h p d W Wp).
Qed.

(* ---- the three headline lemmas ---- *)

Lemma dial_target st k h p path :
  scheme_entry st k -> path_ok st path -> wf_host h = true -> wf_port_opt p = true ->
  let sc := fst (fst k) in let h3 := snd k in
  exists ep, endpoint_of (url_of st h p path) [] = Ok ep /\
    ep_scheme ep = sc /\ ep_pipeline ep = snd (fst k) /\ ep_h3 ep = h3 /\
    ep_dial ep = join_host_port (host_name h) (port_or_default sc p) /\
    ep_net ep = expected_net sc h3 /\
    ep_sni ep = (if uses_tls sc then Some (host_name h) else None) /\
    ep_host ep = (if uses_http sc then Some (authority h p) else None).
Proof.
  intros Hs Hp W Wp sc h3. eexists. split; [apply (endpoint_of_any st k h p path [] Hs Hp W Wp)|].
  destruct (core_no_override (fst (fst k)) (snd (fst k)) (snd k) h p W Wp) as (A & B & C & D).
  repeat split; assumption.
Qed.

Lemma dial_target_override st k h p path dh dpo :
  scheme_entry st k -> path_ok st path -> wf_host h = true -> wf_port_opt p = true ->
  wf_host dh = true -> wf_port_opt dpo = true ->
  let sc := fst (fst k) in let h3 := snd k in
  exists ep, endpoint_of (url_of st h p path) (dial_text dh dpo) = Ok ep /\
    ep_dial ep = join_host_port (host_name dh) (port_or_default sc dpo) /\
    ep_net ep = expected_net sc h3 /\
    ep_sni ep = (if uses_tls sc then Some (host_name h) else None) /\
    ep_host ep = (if uses_http sc then Some (authority h p) else None).
Proof.
  intros Hs Hp W Wp Wd Wdp sc h3. eexists. split; [apply (endpoint_of_any st k h p path _ Hs Hp W Wp)|].
  apply core_override; assumption.
Qed.

Lemma dial_target_override_bracketed st k h p path v :
  scheme_entry st k -> path_ok st path -> wf_host h = true -> wf_port_opt p = true ->
  wf_host (HV6 v) = true ->
  let sc := fst (fst k) in let h3 := snd k in
  exists ep, endpoint_of (url_of st h p path) (ch_lbr :: v ++ [ch_rbr]) = Ok ep /\
    ep_dial ep = join_host_port v (default_port sc) /\
    ep_net ep = expected_net sc h3 /\
    ep_sni ep = (if uses_tls sc then Some (host_name h) else None) /\
    ep_host ep = (if uses_http sc then Some (authority h p) else None).
Proof.
  intros Hs Hp W Wp Wd sc h3. eexists. split; [apply (endpoint_of_any st k h p path _ Hs Hp W Wp)|].
  apply core_override_bracketed; assumption.
Qed.

Lemma dial_target_unix st k h p path d :
  scheme_entry st k -> path_ok st path -> wf_host h = true -> wf_port_opt p = true ->
  wf_unix d = true ->
  let sc := fst (fst k) in let h3 := snd k in
  exists ep, endpoint_of (url_of st h p path) d = Ok ep /\
    ep_dial ep = d /\
    ep_net ep = (if is_stream sc h3 then NUnix else NUdp) /\
    ep_sni ep = (if uses_tls sc then Some (host_name h) else None) /\
    ep_host ep = (if uses_http sc then Some (authority h p) else None).
Proof.
  intros Hs Hp W Wp Wu sc h3. eexists. split; [apply (endpoint_of_any st k h p path _ Hs Hp W Wp)|].
  apply core_unix; assumption.
Qed.

(* ------------------------------------------------------------------ every socket of an upstream *)

(* for ANY address / dial_addr NewUpstream accepts: the sockets are the primary one and, for a udp upstream only,
   the TCP retry socket — and that one is handed the very same address *)
Lemma sockets_shape addr da ep :
  endpoint_of addr da = Ok ep ->
  ep_sockets ep =
    (ep_net ep, ep_dial ep) :: match ep_scheme ep with SUdp => [(NTcp, ep_dial ep)] | _ => [] end.
Proof.
  unfold endpoint_of.
  destruct (match cut_sep addr with Some (a, r) => (a, r) | None => (s_udp, addr) end) as [st rest].
  destruct (negb (scheme_chars_ok st)); [discriminate|].
  destruct (parse_scheme st) as [[[sc pl] h3]|]; [|discriminate].
  destruct (url_host_ok (url_host rest)); [|discriminate].
  intros H. inversion H; subst; clear H.
  unfold ep_sockets, endpoint_core. cbn [ep_net ep_dial ep_fallback ep_scheme].
  destruct sc; reflexivity.
Qed.

Lemma sockets_same_target addr da ep :
  endpoint_of addr da = Ok ep ->
  forall s, In s (ep_sockets ep) ->
    snd s = ep_dial ep /\ (fst s = ep_net ep \/ (ep_scheme ep = SUdp /\ fst s = NTcp)).
Proof.
  intros H s Hin. rewrite (sockets_shape _ _ _ H) in Hin.
  destruct Hin as [E|Hin]; [subst s; cbn; auto|].
  destruct (ep_scheme ep) eqn:Es; cbn in Hin; try contradiction.
  destruct Hin as [E|[]]. subst s. cbn. auto.
Qed.

Lemma endpoint_core_scheme sc pl h3 host d : ep_scheme (endpoint_core sc pl h3 host d) = sc.
Proof. reflexivity. Qed.

(* on the grammar: every socket goes to  join host (port or default)  *)
Lemma all_sockets st k h p path :
  scheme_entry st k -> path_ok st path -> wf_host h = true -> wf_port_opt p = true ->
  let sc := fst (fst k) in let h3 := snd k in
  let target := join_host_port (host_name h) (port_or_default sc p) in
  exists ep, endpoint_of (url_of st h p path) [] = Ok ep /\
    In (expected_net sc h3, target) (ep_sockets ep) /\
    (sc = SUdp -> In (NTcp, target) (ep_sockets ep)) /\
    forall s, In s (ep_sockets ep) ->
      snd s = target /\ (fst s = expected_net sc h3 \/ (sc = SUdp /\ fst s = NTcp)).
Proof.
  intros Hs Hp W Wp. cbv zeta.
  pose proof (endpoint_of_any st k h p path [] Hs Hp W Wp) as E.
  destruct (core_no_override (fst (fst k)) (snd (fst k)) (snd k) h p W Wp) as (A & B & _ & _).
  eexists. split; [exact E|].
  pose proof (sockets_shape _ _ _ E) as Sh. rewrite endpoint_core_scheme, A, B in Sh.
  split; [rewrite Sh; left; reflexivity|].
  split; [intros Eu; rewrite Sh, Eu; right; left; reflexivity|].
  intros s Hin. destruct (sockets_same_target _ _ _ E s Hin) as [T N].
  rewrite endpoint_core_scheme, A in *. rewrite B in N. split; [exact T|exact N].
Qed.

(* ... and to the dial_addr override when one is configured: NO socket goes to the URL host *)
Lemma all_sockets_override st k h p path dh dpo :
  scheme_entry st k -> path_ok st path -> wf_host h = true -> wf_port_opt p = true ->
  wf_host dh = true -> wf_port_opt dpo = true ->
  let sc := fst (fst k) in let h3 := snd k in
  let target := join_host_port (host_name dh) (port_or_default sc dpo) in
  exists ep, endpoint_of (url_of st h p path) (dial_text dh dpo) = Ok ep /\
    In (expected_net sc h3, target) (ep_sockets ep) /\
    (sc = SUdp -> In (NTcp, target) (ep_sockets ep)) /\
    forall s, In s (ep_sockets ep) ->
      snd s = target /\ (fst s = expected_net sc h3 \/ (sc = SUdp /\ fst s = NTcp)).
Proof.
  intros Hs Hp W Wp Wd Wdp. cbv zeta.
  pose proof (endpoint_of_any st k h p path (dial_text dh dpo) Hs Hp W Wp) as E.
  destruct (core_override (fst (fst k)) (snd (fst k)) (snd k) h p dh dpo W Wp Wd Wdp) as (A & B & _ & _).
  eexists. split; [exact E|].
  pose proof (sockets_shape _ _ _ E) as Sh. rewrite endpoint_core_scheme, A, B in Sh.
  split; [rewrite Sh; left; reflexivity|].
  split; [intros Eu; rewrite Sh, Eu; right; left; reflexivity|].
  intros s Hin. destruct (sockets_same_target _ _ _ E s Hin) as [T N].
  rewrite endpoint_core_scheme, A in *. rewrite B in N. split; [exact T|exact N].
Qed.

(* a join of the grammar splits back into exactly its parts: the dial target denotes that host and that port *)
Lemma split_join h port :
  wf_host h = true -> forallb is_digit port = true ->
  split_host_port (join_host_port (host_name h) port) = Some (host_name h, port).
Proof.
  intros W Pd. destruct h as [s|s|v]; cbn [host_name].
  - destruct (wf_v4_facts _ W) as (Hne & Pl & _). rewrite (join_plain _ _ (proj1 Pl)).
    apply split_plain_port; auto using digits_plain.
  - destruct (wf_dom_facts _ W) as (Hne & Pl & _). rewrite (join_plain _ _ (proj1 Pl)).
    apply split_plain_port; auto using digits_plain.
  - destruct (wf_v6_facts _ W) as (Hl & Hr & _ & Hc & _). rewrite (join_v6 _ _ Hc).
    apply split_v6_port; auto using digits_plain.
Qed.

(* ------------------------------------------------------------------ TLS decision rule *)

Section TlsProofs.
  Variable cert : Type.
  Variable chains_to : ca_pool -> cert -> bool.
  Variable name_matches : cert -> list N -> bool.
  Variable time_valid : cert -> bool.

  Lemma verify_client_side o sni peer :
    upstream_exchange_ok cert chains_to name_matches time_valid o sni peer = true ->
    o_insecure o = true \/
    exists k, peer = Some k /\
      chains_to (if o_ca o then ConfiguredCA else SystemRoots) k = true /\
      name_matches k sni = true /\ time_valid k = true.
  Proof.
    unfold upstream_exchange_ok, make_tls_config. cbn [andb].
    destruct (o_verify_client o && negb (o_ca o)); [discriminate|].
    unfold client_accepts. cbn. destruct peer as [k|]; [|discriminate].
    intros H. apply orb_true_iff in H. destruct H as [H|H]; [left; exact H|right].
    apply andb_true_iff in H. destruct H as [H Hn]. apply andb_true_iff in H. destruct H as [Hc Ht].
    exists k. auto.
  Qed.

  Lemma verify_listener_side o peer :
    o_verify_client o = true ->
    listener_serves cert chains_to time_valid o peer = true ->
    exists k, peer = Some k /\ chains_to ConfiguredCA k = true /\ time_valid k = true.
  Proof.
    intros Hv. unfold listener_serves, make_tls_config. rewrite Hv.
    destruct (true && negb (o_cert_key o)); [discriminate|].
    destruct (true && negb (o_ca o)); [discriminate|].
    unfold server_accepts. cbn. destruct peer as [k|]; [|discriminate].
    intros H. apply andb_true_iff in H. destruct H. exists k. auto.
  Qed.

  (* without the option nothing is demanded of the client *)
  Lemma listener_no_verify o peer :
    o_verify_client o = false -> o_cert_key o = true ->
    listener_serves cert chains_to time_valid o peer = true.
  Proof.
    intros Hv Hk. unfold listener_serves, make_tls_config. rewrite Hv, Hk. reflexivity.
  Qed.
End TlsProofs.

(* a configured ca REPLACES the system roots: whatever the system store trusts, a certificate that does not chain
   to the configured ca is refused (upstream side, unless verification is switched off) ... *)
Lemma ca_exclusive_upstream (cert : Type) (chains_to : ca_pool -> cert -> bool)
    (name_matches : cert -> list N -> bool) (time_valid : cert -> bool) o sni k :
  o_ca o = true -> o_insecure o = false -> chains_to ConfiguredCA k = false ->
  upstream_exchange_ok cert chains_to name_matches time_valid o sni (Some k) = false.
Proof.
  intros Hca Hi Hc. unfold upstream_exchange_ok, make_tls_config. cbn [andb].
  destruct (o_verify_client o && negb (o_ca o)); [reflexivity|].
  unfold client_accepts. cbn. rewrite Hi, Hca, Hc. reflexivity.
Qed.

(* ... and on a listener with verify_client_cert *)
Lemma ca_exclusive_listener (cert : Type) (chains_to : ca_pool -> cert -> bool) (time_valid : cert -> bool) o k :
  o_verify_client o = true -> chains_to ConfiguredCA k = false ->
  listener_serves cert chains_to time_valid o (Some k) = false.
Proof.
  intros Hv Hc. unfold listener_serves, make_tls_config. rewrite Hv.
  destruct (true && negb (o_cert_key o)); [reflexivity|].
  destruct (true && negb (o_ca o)); [reflexivity|].
  unfold server_accepts. cbn. rewrite Hc. reflexivity.
Qed.

(* system roots by default: with no ca configured the decision is exactly x509 verification against them *)
Lemma system_roots_default (cert : Type) (chains_to : ca_pool -> cert -> bool)
    (name_matches : cert -> list N -> bool) (time_valid : cert -> bool) o sni k :
  o_ca o = false -> o_verify_client o = false -> o_insecure o = false ->
  upstream_exchange_ok cert chains_to name_matches time_valid o sni (Some k) =
    chains_to SystemRoots k && time_valid k && name_matches k sni.
Proof.
  intros Hca Hv Hi. unfold upstream_exchange_ok, make_tls_config. rewrite Hca, Hv, Hi. reflexivity.
Qed.

(* makeTlsConfig: RootCAs is the configured ca alone, or nil (= system roots) when none is configured; ClientCAs
   is never the system store *)
Lemma tls_config_pools o rc :
  tls_config_view o rc =
    if rc && negb (o_cert_key o) then None
    else if o_verify_client o && negb (o_ca o) then None
    else Some (o_insecure o, (if o_ca o then ConfiguredCA else SystemRoots), o_cert_key o,
               (if o_verify_client o then RequireAndVerifyClientCert else NoClientCert),
               (if o_verify_client o then Some ConfiguredCA else None)).
Proof.
  unfold tls_config_view, make_tls_config.
  destruct (rc && negb (o_cert_key o)); [reflexivity|].
  destruct (o_verify_client o && negb (o_ca o)); reflexivity.
Qed.

Lemma client_auth_iff o rc c :
  make_tls_config o rc = Ok c ->
  (c_client_auth c = RequireAndVerifyClientCert /\ c_client_cas c = Some ConfiguredCA) <-> o_verify_client o = true.
Proof.
  unfold make_tls_config.
  destruct (rc && negb (o_cert_key o)); [discriminate|].
  destruct (o_verify_client o) eqn:Hv; cbn [andb].
  - destruct (negb (o_ca o)); [discriminate|]. intros H. inversion H; subst; cbn. tauto.
  - intros H. inversion H; subst; cbn. split; [intros [? _]; discriminate|discriminate].
Qed.

Lemma tls_config_fields o rc c :
  make_tls_config o rc = Ok c ->
  c_insecure c = o_insecure o /\ c_roots c = (if o_ca o then ConfiguredCA else SystemRoots) /\
  c_has_cert c = o_cert_key o /\ (rc = true -> o_cert_key o = true) /\
  (o_verify_client o = true -> o_ca o = true).
Proof.
  unfold make_tls_config.
  destruct rc, (o_cert_key o), (o_verify_client o), (o_ca o); cbn; try discriminate;
    intros H; inversion H; subst; cbn; repeat split; auto; discriminate.
Qed.
