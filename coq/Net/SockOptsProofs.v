From Mos Require Import Base.Prelude Net.SockOpts.
Local Open Scope N_scope.

Lemma sko_pos_some v : v <> 0 -> sko_pos v = Some v.
Proof. intros H. unfold sko_pos. destruct (v =? 0) eqn:E; [apply N.eqb_eq in E; contradiction|reflexivity]. Qed.

(* EVERY configured option is applied to EVERY socket of EVERY network it is meaningful for *)
Lemma sockopts_all_networks o n :
  ska_reuseport (sko_control o n) = sko_reuseport o /\
  (sko_rcvbuf o <> 0 -> ska_rcvbuf (sko_control o n) = Some (sko_rcvbuf o)) /\
  (sko_sndbuf o <> 0 -> ska_sndbuf (sko_control o n) = Some (sko_sndbuf o)) /\
  (sko_mark o <> 0 -> ska_mark (sko_control o n) = Some (sko_mark o)) /\
  (sko_dev o <> [] -> ska_dev (sko_control o n) = Some (sko_dev o)) /\
  (sko_utimeout o <> 0 -> sko_is_tcp n = true -> ska_utimeout (sko_control o n) = Some (sko_utimeout o)) /\
  (sko_is_tcp n = false -> ska_utimeout (sko_control o n) = None).
Proof.
  unfold sko_control. cbn. split; [reflexivity|].
  split; [apply sko_pos_some|]. split; [apply sko_pos_some|]. split; [apply sko_pos_some|].
  split; [destruct (sko_dev o); [congruence|reflexivity]|].
  split; [intros H Ht; rewrite Ht; apply sko_pos_some, H|intros Ht; rewrite Ht; reflexivity].
Qed.

(* nothing is set that was not configured *)
Lemma sockopts_nothing_else o n :
  (sko_rcvbuf o = 0 -> ska_rcvbuf (sko_control o n) = None) /\
  (sko_sndbuf o = 0 -> ska_sndbuf (sko_control o n) = None) /\
  (sko_mark o = 0 -> ska_mark (sko_control o n) = None) /\
  (sko_dev o = [] -> ska_dev (sko_control o n) = None) /\
  (sko_utimeout o = 0 -> ska_utimeout (sko_control o n) = None).
Proof.
  unfold sko_control, sko_pos. cbn. repeat split; intros ->; try reflexivity. destruct (sko_is_tcp n); reflexivity.
Qed.

Definition sko_w : sko_opts :=
  {| sko_reuseport := false; sko_rcvbuf := 0; sko_sndbuf := 0; sko_mark := 7; sko_dev := [108;111]; sko_utimeout := 5000 |}.

Lemma sockopts_whitelist_refuted :
  ska_mark (sko_control_whitelist sko_w SkoTcp4) = None /\ ska_dev (sko_control_whitelist sko_w SkoTcp4) = None /\
  ska_mark (sko_control sko_w SkoTcp4) = Some 7 /\ ska_dev (sko_control sko_w SkoTcp4) = Some [108;111] /\
  sko_control_whitelist sko_w SkoTcp6 = sko_control sko_w SkoTcp6 /\
  sko_control_whitelist sko_w SkoUdp4 = sko_control sko_w SkoUdp4.
Proof. vm_compute. repeat split. Qed.

(* the stream sockets of a router (listeners, upstream connections) carry TCP_USER_TIMEOUT = 5000 ms and every
   configured option *)
Lemma router_sockets o n :
  sko_is_tcp n = true ->
  ska_utimeout (sko_router_control o n) = Some 5000 /\
  ska_mark (sko_router_control o n) = ska_mark (sko_control o n) /\
  ska_dev (sko_router_control o n) = ska_dev (sko_control o n) /\
  ska_reuseport (sko_router_control o n) = sko_reuseport o.
Proof. intros H. unfold sko_router_control, sko_control. cbn. rewrite H. repeat split. Qed.
