(* Net/PipelineBufProofs.v — invariants of the buffer-level LTS (Net/PipelineBuf.v) for ALL reachable states:
   any number of exchanges, any number of them sharing one payload slice, any schedule, any server. *)
From Mos Require Import Base.Prelude Net.Pipeline Net.PipelineProofs Net.PipelineBuf.
From Coq Require Import ZifyN ZifyNat ZifyBool.
Local Open Scope N_scope.

(* ---------- octets ---------- *)
Lemma id_octets_be16 q r : q < 65536 -> plb_be16 (plb_id_octets q ++ r) = q.
Proof.
  intros H. unfold plb_id_octets, plb_be16. cbn [app].
  rewrite N.mod_mod by lia. rewrite (N.mod_mod q 256) by lia.
  assert (q / 256 < 256) by (apply N.div_lt_upper_bound; lia).
  rewrite (N.mod_small (q / 256)) by lia.
  pose proof (N.div_mod' q 256). lia.
Qed.

Lemma setqid_tail m q : (2 <= length m)%nat -> plb_setqid m q = plb_id_octets q ++ skipn 2 m.
Proof. destruct m as [|a [|b r]]; cbn; try lia. reflexivity. Qed.

Lemma setqid_length m q : length (plb_setqid m q) = length m.
Proof. destruct m as [|a [|b r]]; cbn; reflexivity. Qed.

Lemma wire_id_write tcp m q :
  (2 <= length m)%nat -> q < 65536 -> plb_wire_id tcp (fst (plb_write tcp m q)) = q.
Proof.
  intros L Q. unfold plb_write, plb_wire_id, plb_frame. cbn [fst].
  destruct tcp; cbn [skipn plb_id_octets app]; rewrite setqid_tail by auto; apply id_octets_be16; auto.
Qed.

(* write, as a function: the caller's slice is returned as it was, and the wire carries id ++ tail(payload) *)
Lemma write_fun tcp m q :
  (2 <= length m)%nat ->
  snd (plb_write tcp m q) = m /\
  fst (plb_write tcp m q) = plb_frame tcp (plb_id_octets q ++ skipn 2 m).
Proof. intros L. unfold plb_write. cbn. rewrite setqid_tail by auto. auto. Qed.

(* ---------- how one core step moves the program counter of an existing exchange ---------- *)
Definition pc_next (l : pl_label) (p p' : pl_pc) : Prop :=
  p' = p \/
  match l with
  | PlLAdd _ => p = PlPStart /\ (p' = PlPAdded \/ p' = PlPReturned PlRErrEoL)
  | PlLWrite _ ok => p = PlPAdded /\ p' = (if ok then PlPWaiting else PlPLeaving PlRErrWrite)
  | PlLTakeReply _ => p = PlPWaiting /\ exists m, p' = PlPLeaving (PlRMsg m)
  | PlLCtxArm _ => p = PlPWaiting /\ p' = PlPLeaving PlRErrCtx
  | PlLConnArm _ => p = PlPWaiting /\ p' = PlPLeaving PlRErrClosed
  | PlLDelete _ => exists r, p = PlPLeaving r /\ (p' = PlPEol r \/ p' = PlPReturned r)
  | PlLEolClose _ => exists r, p = PlPEol r /\ p' = PlPReturned r
  | _ => False
  end.

Lemma tput_get s t0 thX t th :
  pl_tget s t = Some th ->
  exists th', pl_tget (pl_tput t0 thX s) t = Some th' /\ ((t = t0 /\ th' = thX) \/ (t <> t0 /\ th' = th)).
Proof.
  intros G. destruct (N.eq_dec t t0) as [->|Hn].
  - exists thX. rewrite tget_tput_same, G. auto.
  - exists th. rewrite tget_tput_other by auto. auto.
Qed.

Ltac pcfin G0 G :=
  match goal with
  | |- exists th', pl_tget (pl_tput ?t0 ?thX ?sX) ?t = Some th' /\ _ =>
      let x := fresh "x" in let Hx := fresh "Hx" in let Hc := fresh "Hc" in
      destruct (tput_get sX t0 thX t _ G) as (x & Hx & Hc); exists x; split; [exact Hx|];
      destruct Hc as [(-> & ->)|(_ & ->)];
      [rewrite G0 in G; inversion G; subst; cbn|left; reflexivity]
  end.

Lemma step_pc q0 s l s' t th :
  Inv q0 s -> pl_step s l = Some s' -> pl_tget s t = Some th ->
  exists th', pl_tget s' t = Some th' /\ pc_next l (pl_tpc th) (pl_tpc th').
Proof.
  intros I H G. destruct l; cbn [pl_step] in H.
  - inversion H; subst; clear H. exists th. split; [|left; reflexivity].
    destruct (inv_threads _ _ I _ _ G) as (K1 & _).
    unfold pl_tget. cbn. destruct (t =? pl_nthreads s) eqn:E; auto. apply N.eqb_eq in E. lia.
  - destruct (pl_tget s t0) as [th0|] eqn:G0; [|discriminate]. inversion H; subst; clear H.
    pcfin G0 G. left. reflexivity.
  - inversion H; subst; clear H. exists th. split; [|left; reflexivity]. destruct (_ <? _); exact G.
  - destruct (pl_tget s t0) as [th0|] eqn:G0; [|discriminate].
    destruct (pl_tpc th0) eqn:P; try discriminate.
    set (s1 := if 0 <? pl_reserved s then pl_set_reserved (pl_reserved s - 1) s else s) in *.
    assert (G1 : pl_tget s1 t = Some th) by (unfold s1; destruct (_ <? _); exact G).
    assert (G01 : pl_tget s1 t0 = Some th0) by (unfold s1; destruct (_ <? _); exact G0).
    destruct (65535 <? pl_nextQid s); inversion H; subst; clear H.
    + pcfin G01 G1. right. rewrite P. auto.
    + match goal with |- exists th', pl_tget (pl_tput ?a ?b ?c) _ = _ /\ _ =>
        assert (G2 : pl_tget c t = Some th) by exact G1;
        assert (G02 : pl_tget c t0 = Some th0) by exact G01 end.
      pcfin G02 G2. right. rewrite P. auto.
  - destruct (pl_tget s t0) as [th0|] eqn:G0; [|discriminate].
    destruct (pl_tpc th0) eqn:P; try discriminate.
    destruct ok.
    + destruct (pl_closed s); [discriminate|]. inversion H; subst; clear H.
      pcfin G0 G. right. rewrite P. auto.
    + inversion H; subst; clear H. pcfin G0 G. right. rewrite P. auto.
  - destruct (pl_closed s); [discriminate|]. destruct (i <? 65536); [|discriminate].
    destruct (pl_rl s); try discriminate. inversion H; subst; clear H.
    exists th. split; [exact G|left; reflexivity].
  - destruct (pl_closed s); [discriminate|]. destruct (pl_rl s); try discriminate.
    inversion H; subst; clear H. exists th. split; [|left; reflexivity]. destruct (pl_istcp s); exact G.
  - destruct (pl_rl s); try discriminate. inversion H; subst; clear H.
    exists th. split; [exact G|left; reflexivity].
  - destruct (pl_rl s) as [|m|m t0]; try discriminate.
    destruct (pl_tget s t0) as [th0|] eqn:G0; [|discriminate]. inversion H; subst; clear H.
    destruct (pl_tchan th0).
    + exists th. split; [exact G|left; reflexivity].
    + match goal with |- exists th', pl_tget (pl_set_rl _ ?c) _ = _ /\ _ =>
        change (exists th', pl_tget c t = Some th' /\ pc_next PlLSend (pl_tpc th) (pl_tpc th')) end.
      pcfin G0 G. left. reflexivity.
  - destruct (pl_tget s t0) as [th0|] eqn:G0; [|discriminate].
    destruct (pl_tpc th0) eqn:P; try discriminate.
    destruct (pl_tchan th0); [|discriminate]. inversion H; subst; clear H.
    pcfin G0 G. right. rewrite P. eauto.
  - destruct (pl_tget s t0) as [th0|] eqn:G0; [|discriminate].
    destruct (pl_tpc th0) eqn:P; try discriminate.
    destruct (pl_tcancel th0); [|discriminate]. inversion H; subst; clear H.
    pcfin G0 G. right. rewrite P. auto.
  - destruct (pl_tget s t0) as [th0|] eqn:G0; [|discriminate].
    destruct (pl_tpc th0) eqn:P; try discriminate.
    destruct (pl_closed s); [|discriminate]. inversion H; subst; clear H.
    pcfin G0 G. right. rewrite P. auto.
  - destruct (pl_tget s t0) as [th0|] eqn:G0; [|discriminate].
    destruct (pl_tpc th0) eqn:P; try discriminate.
    destruct (pl_twid th0) as [w|] eqn:W; [|discriminate]. inversion H; subst; clear H.
    match goal with |- exists th', pl_tget (pl_tput ?a ?b ?c) _ = _ /\ _ =>
      assert (G2 : pl_tget c t = Some th) by exact G;
      assert (G02 : pl_tget c t0 = Some th0) by exact G0 end.
    pcfin G02 G2. right. rewrite P. exists r. split; auto. destruct (_ && _); auto.
  - destruct (pl_tget s t0) as [th0|] eqn:G0; [|discriminate].
    destruct (pl_tpc th0) eqn:P; try discriminate. inversion H; subst; clear H.
    match goal with |- exists th', pl_tget (pl_tput ?a ?b ?c) _ = _ /\ _ =>
      assert (G2 : pl_tget c t = Some th) by exact G;
      assert (G02 : pl_tget c t0 = Some th0) by exact G0 end.
    pcfin G02 G2. right. rewrite P. eauto.
  - inversion H; subst; clear H. exists th. split; [exact G|left; reflexivity].
Qed.

Lemma step_istcp s l s' : pl_step s l = Some s' -> pl_istcp s' = pl_istcp s.
Proof.
  destruct l; cbn [pl_step]; intros H;
    repeat match type of H with
           | match ?x with _ => _ end = Some _ => destruct x eqn:?; try discriminate
           | (if ?x then _ else _) = Some _ => destruct x eqn:?; try discriminate
           end;
    inversion H; subst; clear H; try reflexivity;
    repeat match goal with |- context [if ?x then _ else _] => destruct x eqn:? end; cbn in *; congruence.
Qed.

(* an existing exchange after one core step: caller id and wire id kept, pc moved by pc_next *)
Lemma step_thread q0 c l c' t th :
  Inv q0 c -> pl_step c l = Some c' -> pl_tget c t = Some th ->
  exists th', pl_tget c' t = Some th' /\ pl_cid th' = pl_cid th /\
    (forall w, pl_twid th = Some w -> pl_twid th' = Some w) /\ pc_next l (pl_tpc th) (pl_tpc th').
Proof.
  intros I H G.
  destruct (step_pc _ _ _ _ _ _ I H G) as (th' & G' & P).
  destruct (step_ext _ _ _ _ I H) as (_ & _ & E).
  destruct (E _ _ G) as (x & Gx & C & W & _).
  rewrite G' in Gx. inversion Gx; subst x. exists th'. auto.
Qed.

Lemma aupd_back {A} t k (v : A) l x : pl_alookup t (pl_aupd k v l) = Some x -> exists y, pl_alookup t l = Some y.
Proof.
  induction l as [|[k' v'] l IH]; cbn; [discriminate|].
  destruct (k =? k') eqn:E; cbn.
  - apply N.eqb_eq in E. subst. destruct (t =? k'); eauto.
  - destruct (t =? k'); eauto.
Qed.

(* a thread that exists after a step existed before it, or was just spawned *)
Lemma step_back s l s' t th' :
  pl_step s l = Some s' -> pl_tget s' t = Some th' -> (exists th, pl_tget s t = Some th) \/ pl_tpc th' = PlPStart.
Proof.
  destruct l; cbn [pl_step]; intros H G;
    repeat match type of H with
           | match ?x with _ => _ end = Some _ => destruct x eqn:?; try discriminate
           | (if ?x then _ else _) = Some _ => destruct x eqn:?; try discriminate
           end;
    inversion H; subst; clear H; unfold pl_tget, pl_tput in *; cbn in G;
    repeat match type of G with context [if ?x then _ else _] => destruct x eqn:?; cbn in G end;
    try (apply aupd_back in G); try (left; exact G); try (left; eauto; fail).
  inversion G; subst. right. reflexivity.
Qed.

(* ---------- what write has done for an exchange, as a function of its pc ---------- *)
Definition pc_written (p : pl_pc) : Prop := match p with PlPStart | PlPAdded => False | _ => True end.
Definition pc_sent (p : pl_pc) : Prop :=
  match p with
  | PlPWaiting => True
  | PlPLeaving r | PlPEol r | PlPReturned r => r <> PlRErrWrite /\ r <> PlRErrEoL
  | _ => False
  end.
Definition not_write (l : pl_label) : Prop := match l with PlLWrite _ _ => False | _ => True end.

Lemma written_next l p p' : pc_next l p p' -> pc_written p -> pc_written p'.
Proof.
  intros [->|H] W; auto. destruct l; try tauto.
  - destruct H as (-> & _). destruct W.
  - destruct H as (-> & _). destruct W.
  - destruct H as (_ & m & ->). exact I.
  - destruct H as (_ & ->). exact I.
  - destruct H as (_ & ->). exact I.
  - destruct H as (r & _ & [->| ->]); exact I.
  - destruct H as (r & _ & ->). exact I.
Qed.

Lemma added_next l p' : pc_next l PlPAdded p' -> not_write l -> p' = PlPAdded.
Proof.
  intros [->|H] N; auto. destruct l; try tauto; cbn in N; try tauto.
  - destruct H as (H & _). discriminate.
  - destruct H as (H & _). discriminate.
  - destruct H as (H & _). discriminate.
  - destruct H as (H & _). discriminate.
  - destruct H as (r & H & _). discriminate.
  - destruct H as (r & H & _). discriminate.
Qed.

Lemma sent_back l p p' : pc_next l p p' -> not_write l -> pc_sent p' -> pc_sent p.
Proof.
  intros [->|H] N S; auto. destruct l; try tauto; cbn in N; try tauto.
  - destruct H as (_ & [->| ->]); cbn in S; [tauto|]. destruct S as (_ & S). congruence.
  - destruct H as (-> & _). exact I.
  - destruct H as (-> & _). exact I.
  - destruct H as (-> & _). exact I.
  - destruct H as (r & -> & [->| ->]); exact S.
  - destruct H as (r & -> & ->). exact S.
Qed.

Definition plb_written (th : pl_thread) : Prop := pc_written (pl_tpc th).
Definition plb_sent (th : pl_thread) : Prop := pc_sent (pl_tpc th).

(* ---------- the invariant ---------- *)
Record Binv (q0 : N) (heap : list (N * list N)) (s : plb_state) : Prop := {
  bi_core : Inv q0 (plb_core s);
  (* no action writes to a caller's slice *)
  bi_heap : plb_heap s = heap;
  (* the id abstracted by Net/Pipeline.v is the one in the slice *)
  bi_tbuf : forall t b, pl_alookup t (plb_tbuf s) = Some b ->
      exists th m, pl_tget (plb_core s) t = Some th /\ pl_alookup b heap = Some m /\
                   pl_cid th = plb_be16 m /\ (2 <= length m)%nat;
  (* a private copy is a copy of the exchange's own payload, and exists only inside write *)
  bi_priv : forall t p, pl_alookup t (plb_priv s) = Some p ->
      exists th b, pl_tget (plb_core s) t = Some th /\ pl_tpc th = PlPAdded /\
                   pl_alookup t (plb_tbuf s) = Some b /\ pl_alookup b heap = Some p;
  (* what went out for exchange t: ITS wire id in front of the tail of ITS payload *)
  bi_wire : forall t w, In (t, w) (plb_wire s) ->
      exists th wid b m, pl_tget (plb_core s) t = Some th /\ pl_twid th = Some wid /\ plb_written th /\
        pl_alookup t (plb_tbuf s) = Some b /\ pl_alookup b heap = Some m /\ (2 <= length m)%nat /\
        w = fst (plb_write (pl_istcp (plb_core s)) m wid);
  (* at most once per exchange *)
  bi_nodup : NoDup (map fst (plb_wire s));
  (* and nothing is missing: an exchange past a successful write has its datagram on the wire *)
  bi_sent : forall t th, pl_tget (plb_core s) t = Some th -> plb_sent th -> exists w, In (t, w) (plb_wire s)
}.

Lemma binv_init tcp q0 heap : q0 <= 65536 -> Binv q0 heap (plb_init tcp q0 heap).
Proof.
  intros H. constructor; cbn; try discriminate; try tauto.
  - apply inv_init. exact H.
  - constructor.
Qed.

(* A: only the core moves, by a step that is not a write *)
Lemma binv_set_core q0 heap s l c' :
  Binv q0 heap s -> pl_step (plb_core s) l = Some c' -> not_write l -> Binv q0 heap (plb_set_core c' s).
Proof.
  intros [I Hh Tb Pr Wi Nd Se] H N. constructor; cbn.
  - eapply step_inv; eauto.
  - exact Hh.
  - intros t b Hb. destruct (Tb _ _ Hb) as (th & m & G & Hm & C & L).
    destruct (step_thread _ _ _ _ _ _ I H G) as (th' & G' & C' & _).
    exists th', m. repeat split; auto. congruence.
  - intros t p Hp. destruct (Pr _ _ Hp) as (th & b & G & P & Hb & Hm).
    destruct (step_thread _ _ _ _ _ _ I H G) as (th' & G' & _ & _ & Pn).
    exists th', b. repeat split; auto. rewrite P in Pn. eapply added_next; eauto.
  - intros t w Hin. destruct (Wi _ _ Hin) as (th & wid & b & m & G & W & Wr & Hb & Hm & L & ->).
    destruct (step_thread _ _ _ _ _ _ I H G) as (th' & G' & _ & W' & Pn).
    exists th', wid, b, m. repeat split; auto.
    + eapply written_next; eauto.
    + rewrite (step_istcp _ _ _ H). reflexivity.
  - exact Nd.
  - intros t th' G' S. destruct (step_back _ _ _ _ _ H G') as [(th & G)|P].
    + destruct (step_thread _ _ _ _ _ _ I H G) as (x & Gx & _ & _ & Pn).
      rewrite G' in Gx. inversion Gx; subst x.
      apply (Se _ _ G). eapply sent_back; eauto.
    + unfold plb_sent in S. rewrite P in S. destruct S.
Qed.

(* B: a new exchange is given its slice *)
Lemma binv_tbuf_cons q0 heap s n b th m :
  Binv q0 heap s -> pl_tget (plb_core s) n = Some th -> pl_alookup b heap = Some m ->
  pl_cid th = plb_be16 m -> (2 <= length m)%nat -> pl_alookup n (plb_tbuf s) = None ->
  Binv q0 heap (PlbMkState (plb_core s) (plb_heap s) ((n, b) :: plb_tbuf s) (plb_priv s) (plb_wire s)).
Proof.
  intros [I Hh Tb Pr Wi Nd Se] G Hm C L Nn.
  assert (Keep : forall t b', pl_alookup t (plb_tbuf s) = Some b' -> pl_alookup t ((n, b) :: plb_tbuf s) = Some b').
  { intros t b' Hb. cbn. destruct (t =? n) eqn:E; auto. apply N.eqb_eq in E. subst. congruence. }
  constructor; cbn [plb_core plb_heap plb_tbuf plb_priv plb_wire]; auto.
  - intros t b' Hb. cbn in Hb. destruct (t =? n) eqn:E.
    + apply N.eqb_eq in E. subst. inversion Hb; subst. exists th, m. auto.
    + apply Tb. exact Hb.
  - intros t p Hp. destruct (Pr _ _ Hp) as (x & b' & A1 & A2 & A3 & A4). exists x, b'. repeat split; auto.
  - intros t w Hin. destruct (Wi _ _ Hin) as (x & wid & b' & m' & A1 & A2 & A3 & A4 & A5).
    exists x, wid, b', m'. repeat split; auto; tauto.
Qed.

Lemma write_added c t ok c' :
  pl_step c (PlLWrite t ok) = Some c' ->
  exists th, pl_tget c t = Some th /\ pl_tpc th = PlPAdded /\
    pl_tget c' t = Some (pl_th_pc (if ok then PlPWaiting else PlPLeaving PlRErrWrite) th) /\
    forall t', t' <> t -> pl_tget c' t' = pl_tget c t'.
Proof.
  cbn [pl_step]. destruct (pl_tget c t) as [th|] eqn:G; [|discriminate].
  destruct (pl_tpc th) eqn:P; try discriminate.
  destruct ok.
  - destruct (pl_closed c); [discriminate|]. intros H; inversion H; subst; clear H.
    exists th. repeat split; auto.
    + rewrite tget_tput_same, G. reflexivity.
    + intros. apply tget_tput_other. auto.
  - intros H; inversion H; subst; clear H.
    exists th. repeat split; auto.
    + rewrite tget_tput_same, G. reflexivity.
    + intros. apply tget_tput_other. auto.
Qed.

(* D: write hands the private copy, with the wire id set, to the connection *)
Lemma binv_write q0 heap s t ok c' th p wid :
  Binv q0 heap s -> pl_tget (plb_core s) t = Some th -> pl_alookup t (plb_priv s) = Some p ->
  pl_twid th = Some wid -> pl_step (plb_core s) (PlLWrite t ok) = Some c' ->
  Binv q0 heap (PlbMkState c' (plb_heap s) (plb_tbuf s) (pl_aremove t (plb_priv s))
                  (if ok then (t, fst (plb_write (pl_istcp (plb_core s)) p wid)) :: plb_wire s else plb_wire s)).
Proof.
  intros [I Hh Tb Pr Wi Nd Se] G Hp W H.
  destruct (write_added _ _ _ _ H) as (th0 & G0 & P0 & G0' & Oth).
  rewrite G in G0. inversion G0; subst th0. clear G0.
  destruct (Pr _ _ Hp) as (x & b & Gx & _ & Hb & Hm). rewrite G in Gx. inversion Gx; subst x. clear Gx.
  destruct (Tb _ _ Hb) as (x & m & Gx & Hm' & _ & L). rewrite Hm in Hm'. inversion Hm'; subst m. clear Hm' Gx x.
  constructor; cbn [plb_core plb_heap plb_tbuf plb_priv plb_wire].
  - eapply step_inv; eauto.
  - exact Hh.
  - intros t1 b1 Hb1. destruct (Tb _ _ Hb1) as (th1 & m1 & G1 & Hm1 & C1 & L1).
    destruct (step_thread _ _ _ _ _ _ I H G1) as (th1' & G1' & C1' & _).
    exists th1', m1. repeat split; auto. congruence.
  - intros t1 p1 Hp1. destruct (N.eq_dec t1 t) as [->|Hn].
    + rewrite alookup_aremove_same in Hp1. discriminate.
    + rewrite alookup_aremove_other in Hp1 by auto.
      destruct (Pr _ _ Hp1) as (th1 & b1 & A1 & A2 & A3 & A4).
      exists th1, b1. rewrite Oth by auto. auto.
  - assert (Old : forall t1 w1, In (t1, w1) (plb_wire s) ->
              exists th1 wid1 b1 m1, pl_tget c' t1 = Some th1 /\ pl_twid th1 = Some wid1 /\ plb_written th1 /\
                pl_alookup t1 (plb_tbuf s) = Some b1 /\ pl_alookup b1 heap = Some m1 /\ (2 <= length m1)%nat /\
                w1 = fst (plb_write (pl_istcp c') m1 wid1)).
    { intros t1 w1 Hin. destruct (Wi _ _ Hin) as (th1 & wid1 & b1 & m1 & A1 & A2 & A3 & A4 & A5 & A6 & ->).
      destruct (step_thread _ _ _ _ _ _ I H A1) as (th1' & B1 & _ & B2 & B3).
      exists th1', wid1, b1, m1. repeat split; auto.
      - eapply written_next; eauto.
      - rewrite (step_istcp _ _ _ H). reflexivity. }
    destruct ok; [|exact Old].
    intros t1 w1 [E|Hin]; [|apply Old; exact Hin].
    inversion E; subst t1 w1. clear E.
    exists (pl_th_pc PlPWaiting th), wid, b, p. repeat split; auto.
    rewrite (step_istcp _ _ _ H). reflexivity.
  - destruct ok; [|exact Nd]. cbn. constructor; [|exact Nd].
    intros Hin. apply in_map_iff in Hin. destruct Hin as ((t1 & w1) & E & Hin). cbn in E. subst t1.
    destruct (Wi _ _ Hin) as (th1 & _ & _ & _ & A1 & _ & A3 & _).
    rewrite G in A1. inversion A1; subst th1. unfold plb_written in A3. rewrite P0 in A3. exact A3.
  - intros t1 th1 G1 S1. destruct (N.eq_dec t1 t) as [->|Hn].
    + rewrite G0' in G1. inversion G1; subst th1. clear G1.
      destruct ok.
      * eexists. left. reflexivity.
      * unfold plb_sent in S1. cbn in S1. destruct S1 as (S1 & _). congruence.
    + rewrite Oth in G1 by auto. destruct (Se _ _ G1 S1) as (w1 & Hin).
      exists w1. destruct ok; [right|]; exact Hin.
Qed.

(* E: the reply arm reads the id from the shared slice — the caller's id, because nobody wrote to the slice *)
Lemma take_is_core q0 heap s t s' :
  Binv q0 heap s -> plb_step s (PlbLTake t) = Some s' ->
  exists c', pl_step (plb_core s) (PlLTakeReply t) = Some c' /\ s' = plb_set_core c' s.
Proof.
  intros B. cbn [plb_step pl_step].
  destruct (pl_tget (plb_core s) t) as [th|] eqn:G; [|discriminate].
  destruct (pl_alookup t (plb_tbuf s)) as [b|] eqn:Hb; [|discriminate].
  destruct (pl_alookup b (plb_heap s)) as [m|] eqn:Hm; [|discriminate].
  destruct (pl_tpc th) eqn:P; try discriminate.
  destruct (pl_tchan th) as [r|] eqn:Ch; [|discriminate].
  intros H; inversion H; subst; clear H.
  destruct (bi_tbuf _ _ _ B _ _ Hb) as (x & m' & Gx & Hm' & C & _).
  rewrite G in Gx. inversion Gx; subst x. rewrite (bi_heap _ _ _ B) in Hm. rewrite Hm in Hm'. inversion Hm'; subst m'.
  eexists. split; [reflexivity|]. rewrite C. reflexivity.
Qed.

Lemma plb_step_binv q0 heap s l s' : Binv q0 heap s -> plb_step s l = Some s' -> Binv q0 heap s'.
Proof.
  intros B H. destruct l.
  - (* spawn *)
    cbn [plb_step] in H.
    destruct (pl_alookup b (plb_heap s)) as [m|] eqn:Hm; [|discriminate].
    destruct (2 <=? length m)%nat eqn:L; [|discriminate]. apply Nat.leb_le in L.
    destruct (pl_step (plb_core s) (PlLSpawn (plb_be16 m))) as [c'|] eqn:St; [|discriminate].
    inversion H; subst; clear H.
    pose proof (binv_set_core _ _ _ _ _ B St I) as B1.
    rewrite (bi_heap _ _ _ B) in Hm.
    cbn [pl_step] in St. inversion St; subst c'. clear St.
    eapply (binv_tbuf_cons _ _ _ (pl_nthreads (plb_core s)) b _ m B1); auto.
    + cbn. unfold pl_tget. cbn. rewrite N.eqb_refl. reflexivity.
    + reflexivity.
    + cbn. destruct (pl_alookup (pl_nthreads (plb_core s)) (plb_tbuf s)) as [b'|] eqn:E; auto.
      destruct (bi_tbuf _ _ _ B _ _ E) as (th & _ & G & _).
      destruct (inv_threads _ _ (bi_core _ _ _ B) _ _ G) as (K1 & _). lia.
  - (* copy *)
    cbn [plb_step] in H.
    destruct (pl_tget (plb_core s) t) as [th|] eqn:G; [|discriminate].
    destruct (pl_alookup t (plb_tbuf s)) as [b|] eqn:Hb; [|discriminate].
    destruct (pl_alookup t (plb_priv s)) eqn:Hp; [discriminate|].
    destruct (pl_tpc th) eqn:P; try discriminate.
    destruct (pl_alookup b (plb_heap s)) as [m|] eqn:Hm; [|discriminate].
    inversion H; subst; clear H.
    destruct B as [I Hh Tb Pr Wi Nd Se]. rewrite Hh in Hm.
    constructor; cbn [plb_core plb_heap plb_tbuf plb_priv plb_wire]; auto.
    intros t1 p1 Hp1. cbn in Hp1. destruct (t1 =? t) eqn:E.
    + apply N.eqb_eq in E. subst t1. inversion Hp1; subst p1. exists th, b. auto.
    + apply Pr. exact Hp1.
  - (* write *)
    cbn [plb_step] in H.
    destruct (pl_tget (plb_core s) t) as [th|] eqn:G; [|discriminate].
    destruct (pl_alookup t (plb_priv s)) as [p|] eqn:Hp; [|discriminate].
    destruct (pl_twid th) as [w|] eqn:W; [|discriminate].
    destruct (pl_step (plb_core s) (PlLWrite t ok)) as [c'|] eqn:St; [|discriminate].
    inversion H; subst; clear H.
    eapply binv_write; eauto.
  - (* reply arm *)
    destruct (take_is_core _ _ _ _ _ B H) as (c' & St & ->).
    eapply binv_set_core; eauto. exact I.
  - (* the rest of Net/Pipeline.v *)
    cbn [plb_step] in H. destruct (plb_core_label_ok l) eqn:Ok; [|discriminate].
    destruct (pl_step (plb_core s) l) as [c'|] eqn:St; [|discriminate].
    inversion H; subst; clear H.
    eapply binv_set_core; eauto. destruct l; cbn in Ok; try discriminate; exact I.
Qed.

(* every buffer-level step is a step of Net/Pipeline.v (or leaves its state alone) *)
Lemma plb_step_core q0 heap s l s' :
  Binv q0 heap s -> plb_step s l = Some s' -> sched (plb_core s) (plb_core s').
Proof.
  intros B H. destruct l.
  - cbn [plb_step] in H.
    destruct (pl_alookup b (plb_heap s)) as [m|]; [|discriminate].
    destruct (2 <=? length m)%nat; [|discriminate].
    destruct (pl_step (plb_core s) (PlLSpawn (plb_be16 m))) as [c'|] eqn:St; [|discriminate].
    inversion H; subst; clear H. exists [PlLSpawn (plb_be16 m)]. cbn [pl_run]. rewrite St. reflexivity.
  - cbn [plb_step] in H.
    destruct (pl_tget (plb_core s) t) as [th|]; [|discriminate].
    destruct (pl_alookup t (plb_tbuf s)) as [b|]; [|discriminate].
    destruct (pl_alookup t (plb_priv s)); [discriminate|].
    destruct (pl_tpc th); try discriminate.
    destruct (pl_alookup b (plb_heap s)); [|discriminate].
    inversion H; subst; clear H. apply sched_refl.
  - cbn [plb_step] in H.
    destruct (pl_tget (plb_core s) t) as [th|]; [|discriminate].
    destruct (pl_alookup t (plb_priv s)); [|discriminate].
    destruct (pl_twid th); [|discriminate].
    destruct (pl_step (plb_core s) (PlLWrite t ok)) as [c'|] eqn:St; [|discriminate].
    inversion H; subst; clear H. exists [PlLWrite t ok]. cbn [pl_run]. rewrite St. reflexivity.
  - destruct (take_is_core _ _ _ _ _ B H) as (c' & St & ->).
    exists [PlLTakeReply t]. cbn [pl_run]. rewrite St. reflexivity.
  - cbn [plb_step] in H. destruct (plb_core_label_ok l); [|discriminate].
    destruct (pl_step (plb_core s) l) as [c'|] eqn:St; [|discriminate].
    inversion H; subst; clear H. exists [l]. cbn [pl_run]. rewrite St. reflexivity.
Qed.

Lemma plb_run_binv q0 heap ls s s' : Binv q0 heap s -> plb_run ls s = Some s' -> Binv q0 heap s'.
Proof.
  revert s. induction ls as [|l ls IH]; cbn; intros s B H.
  - inversion H; subst; auto.
  - destruct (plb_step s l) eqn:E; [|discriminate]. eapply IH; [|exact H]. eapply plb_step_binv; eauto.
Qed.

Lemma plb_run_core q0 heap ls s s' : Binv q0 heap s -> plb_run ls s = Some s' -> sched (plb_core s) (plb_core s').
Proof.
  revert s. induction ls as [|l ls IH]; cbn; intros s B H.
  - inversion H; subst. apply sched_refl.
  - destruct (plb_step s l) eqn:E; [|discriminate].
    eapply sched_trans; [eapply plb_step_core; eauto|]. eapply IH; [|exact H]. eapply plb_step_binv; eauto.
Qed.

Definition plb_reachable (tcp : bool) (q0 : N) (heap : list (N * list N)) (s : plb_state) : Prop :=
  exists ls, plb_run ls (plb_init tcp q0 heap) = Some s.

Lemma plb_reachable_binv tcp q0 heap s : q0 <= 65536 -> plb_reachable tcp q0 heap s -> Binv q0 heap s.
Proof. intros H [ls R]. eapply plb_run_binv; [apply binv_init; exact H|exact R]. Qed.

(* ====================================================================================== *)
(* the theorems of Props/C05.v about the callers' slices and the octets on the wire       *)
(* ====================================================================================== *)
Lemma run_istcp ls s s' : pl_run ls s = Some s' -> pl_istcp s' = pl_istcp s.
Proof.
  revert s. induction ls as [|l ls IH]; cbn; intros s H.
  - inversion H; subst; auto.
  - destruct (pl_step s l) eqn:E; [|discriminate]. rewrite (IH _ H). eapply step_istcp; eauto.
Qed.

(* the buffer-level system refines Net/Pipeline.v: every theorem about [reachable] states applies, in
   particular with any number of exchanges sharing one slice *)
Theorem buf_refines tcp q0 heap s :
  q0 <= 65536 -> plb_reachable tcp q0 heap s -> reachable tcp q0 (plb_core s).
Proof.
  intros Hq [ls R]. unfold reachable.
  exact (plb_run_core _ _ _ _ _ (binv_init tcp q0 heap Hq) R).
Qed.

Lemma reachable_istcp tcp q0 heap s : q0 <= 65536 -> plb_reachable tcp q0 heap s -> pl_istcp (plb_core s) = tcp.
Proof. intros Hq R. destruct (buf_refines _ _ _ _ Hq R) as [ls H]. apply run_istcp in H. exact H. Qed.

Theorem payload_untouched tcp q0 heap s :
  q0 <= 65536 -> plb_reachable tcp q0 heap s -> plb_heap s = heap.
Proof. intros Hq R. exact (bi_heap _ _ _ (plb_reachable_binv _ _ _ _ Hq R)). Qed.

Theorem wire_bytes tcp q0 heap s t w :
  q0 <= 65536 -> plb_reachable tcp q0 heap s -> In (t, w) (plb_wire s) ->
  exists th wid b m,
    pl_tget (plb_core s) t = Some th /\ pl_twid th = Some wid /\
    In wid (assigned_ids (plb_core s)) /\ wid <= 65535 /\
    pl_alookup t (plb_tbuf s) = Some b /\ pl_alookup b heap = Some m /\
    w = plb_frame tcp (plb_id_octets wid ++ skipn 2 m) /\ plb_wire_id tcp w = wid.
Proof.
  intros Hq R Hin. pose proof (plb_reachable_binv _ _ _ _ Hq R) as B.
  destruct (bi_wire _ _ _ B _ _ Hin) as (th & wid & b & m & G & W & _ & Hb & Hm & L & ->).
  rewrite (reachable_istcp _ _ _ _ Hq R).
  pose proof (buf_refines _ _ _ _ Hq R) as Rc.
  destruct (ids_exchange _ _ _ Hq Rc) as (A & _). pose proof (A _ _ _ G W) as Ain.
  destruct (ids_fresh _ _ _ Hq Rc) as (_ & _ & _ & Bd & _). pose proof (Bd _ Ain) as Bw.
  exists th, wid, b, m. repeat split; auto; try lia.
  - apply (write_fun tcp m wid L).
  - apply wire_id_write; auto. lia.
Qed.

Theorem wire_once tcp q0 heap s :
  q0 <= 65536 -> plb_reachable tcp q0 heap s ->
  NoDup (map fst (plb_wire s)) /\
  forall t1 w1 t2 w2, In (t1, w1) (plb_wire s) -> In (t2, w2) (plb_wire s) ->
    plb_wire_id tcp w1 = plb_wire_id tcp w2 -> t1 = t2 /\ w1 = w2.
Proof.
  intros Hq R. pose proof (plb_reachable_binv _ _ _ _ Hq R) as B. split; [exact (bi_nodup _ _ _ B)|].
  intros t1 w1 t2 w2 H1 H2 E.
  destruct (wire_bytes _ _ _ _ _ _ Hq R H1) as (th1 & wid1 & b1 & m1 & G1 & W1 & _ & _ & Hb1 & Hm1 & E1 & I1).
  destruct (wire_bytes _ _ _ _ _ _ Hq R H2) as (th2 & wid2 & b2 & m2 & G2 & W2 & _ & _ & Hb2 & Hm2 & E2 & I2).
  rewrite I1, I2 in E. subst wid2.
  assert (t1 = t2) by (eapply wid_inj; [exact (bi_core _ _ _ B)| | | |]; eauto).
  subst t2. split; auto.
  rewrite Hb1 in Hb2. inversion Hb2; subst b2. rewrite Hm1 in Hm2. inversion Hm2; subst m2. congruence.
Qed.

Theorem wire_complete tcp q0 heap s t th :
  q0 <= 65536 -> plb_reachable tcp q0 heap s ->
  pl_tget (plb_core s) t = Some th -> plb_sent th -> exists w, In (t, w) (plb_wire s).
Proof. intros Hq R. exact (bi_sent _ _ _ (plb_reachable_binv _ _ _ _ Hq R) t th). Qed.

Theorem restored_id tcp q0 heap s t th r b m :
  q0 <= 65536 -> plb_reachable tcp q0 heap s ->
  pl_tget (plb_core s) t = Some th -> pc_result (pl_tpc th) = Some (PlRMsg r) ->
  pl_alookup t (plb_tbuf s) = Some b -> pl_alookup b heap = Some m ->
  pl_mhid r = plb_be16 m.
Proof.
  intros Hq R G P Hb Hm. pose proof (plb_reachable_binv _ _ _ _ Hq R) as B.
  destruct (bi_tbuf _ _ _ B _ _ Hb) as (x & m' & Gx & Hm' & C & _).
  rewrite G in Gx. inversion Gx; subst x. rewrite Hm in Hm'. inversion Hm'; subst m'.
  destruct (inv_threads _ _ (bi_core _ _ _ B) _ _ G) as (_ & _ & _ & _ & K5).
  destruct (K5 _ P) as (_ & _ & _ & E). congruence.
Qed.

(* ---------- the runs replayed by the correspondence check are schedules of the buffer-level LTS ---------- *)
Definition plb_sched (s s' : plb_state) : Prop := exists ls, plb_run ls s = Some s'.

Lemma plb_run_app ls1 ls2 s s1 s2 :
  plb_run ls1 s = Some s1 -> plb_run ls2 s1 = Some s2 -> plb_run (ls1 ++ ls2) s = Some s2.
Proof.
  revert s. induction ls1 as [|l ls1 IH]; cbn; intros s H1 H2.
  - inversion H1; subst; auto.
  - destruct (plb_step s l); [|discriminate]. eauto.
Qed.

Lemma plb_sched_refl s : plb_sched s s. Proof. exists []. reflexivity. Qed.
Lemma plb_sched_trans a b c : plb_sched a b -> plb_sched b c -> plb_sched a c.
Proof. intros [l1 H1] [l2 H2]. exists (l1 ++ l2). eapply plb_run_app; eauto. Qed.

Lemma plb_sched_exec s l : plb_sched s (plb_exec s l).
Proof.
  unfold plb_exec. destruct (plb_step s l) as [s'|] eqn:E; [|apply plb_sched_refl].
  exists [l]. cbn. rewrite E. reflexivity.
Qed.

Lemma plb_sched_fold {A} (f : plb_state -> A -> plb_state) (l : list A) :
  (forall s a, plb_sched s (f s a)) -> forall s, plb_sched s (fold_left f l s).
Proof.
  intros Hf. induction l as [|a l IH]; cbn; intros s; [apply plb_sched_refl|].
  eapply plb_sched_trans; [apply Hf|apply IH].
Qed.

Lemma plb_sched_execs ls s : plb_sched s (fold_left plb_exec ls s).
Proof. apply plb_sched_fold. apply plb_sched_exec. Qed.

Lemma plb_sched_settle t s : plb_sched s (plb_settle t s).
Proof. unfold plb_settle. apply plb_sched_execs. Qed.

Lemma plb_sched_do_emit i tag s : plb_sched s (plb_do_emit i tag s).
Proof.
  unfold plb_do_emit.
  set (s1 := plb_exec (plb_exec s (PlbLCore (PlLRecv i tag))) (PlbLCore PlLLookup)).
  assert (H1 : plb_sched s s1) by (eapply plb_sched_trans; apply plb_sched_exec).
  assert (H2 : plb_sched s (plb_exec s1 (PlbLCore PlLSend))) by (eapply plb_sched_trans; [exact H1|apply plb_sched_exec]).
  destruct (pl_rl (plb_core s1)); auto. eapply plb_sched_trans; [exact H2|apply plb_sched_settle].
Qed.

Lemma plb_sched_answer tcp dgs tag s : plb_sched s (plb_answer tcp dgs tag s).
Proof. unfold plb_answer. apply plb_sched_fold. intros. apply plb_sched_do_emit. Qed.

Lemma plb_sched_seq tcp b tag s : plb_sched s (plb_seq_exchange tcp b tag s).
Proof.
  unfold plb_seq_exchange.
  eapply plb_sched_trans; [|apply plb_sched_answer].
  eapply plb_sched_trans; [apply plb_sched_execs|apply plb_sched_settle].
Qed.

Lemma plb_sched_warm tcp bs tag s : plb_sched s (plb_warm tcp bs tag s).
Proof. unfold plb_warm. apply plb_sched_fold. intros. apply plb_sched_seq. Qed.

Lemma plb_sched_burst tcp bs tag s : plb_sched s (plb_burst tcp bs tag s).
Proof.
  unfold plb_burst. cbv zeta.
  eapply plb_sched_trans; [|apply plb_sched_answer].
  eapply plb_sched_trans; [|apply plb_sched_fold; intros; apply plb_sched_settle].
  eapply plb_sched_trans; [|apply plb_sched_execs].
  eapply plb_sched_trans; [|apply plb_sched_execs].
  eapply plb_sched_trans; [|apply plb_sched_execs].
  eapply plb_sched_trans; [|apply plb_sched_execs].
  apply plb_sched_execs.
Qed.

Theorem shared_run_reachable tcp q0 heap warm bs :
  plb_reachable tcp q0 heap (plb_shared_run tcp q0 heap warm bs).
Proof.
  unfold plb_reachable, plb_shared_run.
  apply (plb_sched_trans _ _ _ (plb_sched_warm tcp _ _ _) (plb_sched_burst tcp _ _ _)).
Qed.
