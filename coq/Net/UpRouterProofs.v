(* Net/UpRouterProofs.v — the upstreams of one router are built INDEPENDENTLY of one another (Net/UpRouter.v):
   the mapping of a list of entries is the map of the single-entry mapping; a mapping with a tls.Config cache keyed
   by the files only is not. *)
From Mos Require Import Base.Prelude Net.Addr Net.TlsCfg Net.AddrProofs Net.UpCfg Net.UpCfgProofs Net.UpRouter.

Local Open Scope N_scope.

Lemma addr_list_eqb_eq a b : addr_list_eqb a b = true <-> a = b.
Proof.
  revert b. induction a as [|x a IH]; intros [|y b]; cbn; try (split; [discriminate|discriminate]); [tauto|].
  rewrite andb_true_iff, N.eqb_eq, IH. split; [intros [-> ->]; reflexivity|intros H; inversion H; auto].
Qed.

Lemma upr_tag_seen_in t seen : upr_tag_seen t seen = true <-> In t seen.
Proof.
  unfold upr_tag_seen. rewrite existsb_exists. split.
  - intros (x & Hin & He). apply addr_list_eqb_eq in He. subst. exact Hin.
  - intros Hin. exists t. split; [exact Hin|]. apply addr_list_eqb_eq. reflexivity.
Qed.

(* ---- the shape of a successful run of the loop ---- *)
Lemma upr_init_all_spec cs : forall seen us,
  upr_init_all seen cs = Ok us ->
  Forall2 (fun c tu => fst tu = upc_tag c /\ upc_init_upstream c = Ok (snd tu)) cs us /\
  NoDup (map upc_tag cs) /\ (forall c, In c cs -> ~ In (upc_tag c) seen).
Proof.
  induction cs as [|c rest IH]; intros seen us H; cbn in H.
  - inversion H; subst. split; [constructor|]. split; [constructor|]. intros c [].
  - destruct (upr_tag_seen (upc_tag c) seen) eqn:Hs; [discriminate|].
    destruct (upc_init_upstream c) as [u| | |] eqn:Hu; try discriminate.
    destruct (upr_init_all (upc_tag c :: seen) rest) as [us'| | |] eqn:Hr; try discriminate.
    inversion H; subst us; clear H.
    destruct (IH _ _ Hr) as (F & ND & Hseen).
    split; [constructor; [split; [reflexivity|exact Hu]|exact F]|].
    split.
    + cbn. constructor; [|exact ND]. intros Hin. apply in_map_iff in Hin. destruct Hin as (c' & Ht & Hin).
      apply (Hseen c' Hin). left. symmetry. exact Ht.
    + intros c' [->|Hin].
      * intros Hin. apply upr_tag_seen_in in Hin. congruence.
      * intros Hin'. apply (Hseen c' Hin). right. exact Hin'.
Qed.

(* ... and the converse: distinct fresh tags + every entry fine ALONE => the router starts *)
Lemma upr_init_all_complete cs : forall seen,
  NoDup (map upc_tag cs) -> (forall c, In c cs -> ~ In (upc_tag c) seen) ->
  (forall c, In c cs -> is_ok (upc_init_upstream c) = true) ->
  exists us, upr_init_all seen cs = Ok us.
Proof.
  induction cs as [|c rest IH]; intros seen ND Hseen Hok; cbn.
  - eexists. reflexivity.
  - assert (upr_tag_seen (upc_tag c) seen = false) as ->.
    { destruct (upr_tag_seen (upc_tag c) seen) eqn:E; [|reflexivity].
      apply upr_tag_seen_in in E. exfalso. apply (Hseen c); [left; reflexivity|exact E]. }
    pose proof (Hok c (or_introl eq_refl)) as Hc.
    destruct (upc_init_upstream c) as [u| | |]; try discriminate.
    cbn in ND. inversion ND as [|? ? Hnotin ND']; subst.
    destruct (IH (upc_tag c :: seen) ND') as (us & Hus).
    + intros c' Hin [He|Hin'].
      * apply Hnotin. rewrite He. apply in_map. exact Hin.
      * apply (Hseen c'); [right; exact Hin|exact Hin'].
    + intros c' Hin. apply Hok. right. exact Hin.
    + rewrite Hus. eexists. reflexivity.
Qed.

Lemma forall2_nth {A B} (P : A -> B -> Prop) l1 l2 :
  Forall2 P l1 l2 -> length l2 = length l1 /\
  forall i a, nth_error l1 i = Some a -> exists b, nth_error l2 i = Some b /\ P a b.
Proof.
  induction 1 as [|a b l1 l2 Hab F IH]; [split; [reflexivity|intros [|i] a H; discriminate]|].
  destruct IH as [Hl IH]. split; [cbn; congruence|].
  intros [|i] a' Hn; cbn in Hn.
  - inversion Hn; subst. exists b. split; [reflexivity|exact Hab].
  - apply IH. exact Hn.
Qed.

(* INDEPENDENCE: the i-th upstream of a router is the single-entry mapping of the i-th entry — whatever the other
   entries (before or after it) are *)
Lemma upstreams_independent cs us :
  upr_init_router cs = Ok us ->
  length us = length cs /\
  forall i c, nth_error cs i = Some c ->
    exists u, nth_error us i = Some (upc_tag c, u) /\ upc_init_upstream c = Ok u.
Proof.
  intros H. destruct (upr_init_all_spec cs [] us H) as (F & _ & _).
  destruct (forall2_nth _ _ _ F) as [Hl Hn]. split; [exact Hl|].
  intros i c Hc. destruct (Hn i c Hc) as ([t u] & Hu & Ht & Hi). cbn in Ht, Hi. subst t.
  exists u. split; assumption.
Qed.

(* the mapping of a list of entries IS the map of the single-entry mapping *)
Lemma forall2_are_map cs us :
  Forall2 (fun c (tu : list N * upc_upstream) => fst tu = upc_tag c /\ upc_init_upstream c = Ok (snd tu)) cs us ->
  map (fun tu : list N * upc_upstream => Ok (snd tu)) us = map upc_init_upstream cs /\ map fst us = map upc_tag cs.
Proof.
  induction 1 as [|c tu cs' us' [Ht Hu] F IH]; [split; reflexivity|].
  destruct IH as [A B]. cbn [map]. rewrite <- Hu, Ht, A, B. split; reflexivity.
Qed.

Lemma upstreams_are_map cs us :
  upr_init_router cs = Ok us ->
  map (fun tu : list N * upc_upstream => Ok (snd tu)) us = map upc_init_upstream cs /\ map fst us = map upc_tag cs.
Proof.
  intros H. destruct (upr_init_all_spec cs [] us H) as (F & _ & _). exact (forall2_are_map cs us F).
Qed.

(* the router starts iff the tags are distinct and every entry is accepted ALONE *)
Lemma router_starts_iff cs :
  is_ok (upr_init_router cs) = true <->
  NoDup (map upc_tag cs) /\ forall c, In c cs -> is_ok (upc_init_upstream c) = true.
Proof.
  split.
  - destruct (upr_init_router cs) as [us| | |] eqn:H; try discriminate. intros _.
    destruct (upr_init_all_spec cs [] us H) as (F & ND & _). split; [exact ND|].
    intros c Hin. apply In_nth_error in Hin. destruct Hin as [i Hi].
    destruct (forall2_nth _ _ _ F) as [_ Hn]. destruct (Hn i c Hi) as (tu & _ & _ & Hu). rewrite Hu. reflexivity.
  - intros [ND Hok]. destruct (upr_init_all_complete cs [] ND) as (us & Hus); [intros c _ []|exact Hok|].
    unfold upr_init_router. rewrite Hus. reflexivity.
Qed.

Section UprTls.
  Variable cert : Type.
  Variable chains_to : ca_pool -> cert -> bool.
  Variable name_matches : cert -> list N -> bool.
  Variable time_valid : cert -> bool.

  Lemma upc_exchange_ok_accepts c peer :
    upc_exchange_ok cert chains_to name_matches time_valid c peer =
    match upc_init_upstream c with
    | Ok u => upr_accepts cert chains_to name_matches time_valid u peer
    | _ => false
    end.
  Proof. unfold upc_exchange_ok, upr_accepts. destruct (upc_init_upstream c); reflexivity. Qed.

  (* the verdict of EVERY upstream of a started router equals the verdict of its own entry alone *)
  Lemma upstreams_independent_verdict cs i c peer :
    is_ok (upr_init_router cs) = true -> nth_error cs i = Some c ->
    upr_exchange_ok cert chains_to name_matches time_valid cs i peer =
    upc_exchange_ok cert chains_to name_matches time_valid c peer.
  Proof.
    intros Hok Hc. unfold upr_exchange_ok.
    destruct (upr_init_router cs) as [us| | |] eqn:H; try discriminate.
    destruct (upstreams_independent cs us H) as [_ Hn]. destruct (Hn i c Hc) as (u & Hu & Hi).
    rewrite Hu, upc_exchange_ok_accepts, Hi. reflexivity.
  Qed.
End UprTls.

(* the instance the uprouter kind runs: every entry's result is the result of that entry alone in a router *)
Lemma upr_case_alone_eq c peer srvreq :
  upr_case_alone (c, (peer, srvreq)) =
  match upc_init_upstream c with
  | Ok u => Some (upr_verdict u peer srvreq, ep_dial (uu_ep u))
  | _ => None
  end.
Proof.
  unfold upr_case_alone, upr_case, upr_init_router. cbn [map fst upr_init_all upr_tag_seen existsb].
  destruct (upc_init_upstream c); reflexivity.
Qed.

Lemma upr_case_independent es vs :
  upr_case es = Some vs -> map Some vs = map upr_case_alone es.
Proof.
  unfold upr_case. destruct (upr_init_router (map fst es)) as [us| | |] eqn:H; try discriminate.
  intros E. inversion E; subst vs; clear E.
  destruct (upr_init_all_spec _ [] us H) as (F & _ & _). clear H.
  revert us F. induction es as [|[c [peer srvreq]] es IH]; intros us F; cbn [map fst] in F.
  - inversion F; subst. reflexivity.
  - inversion F as [|? [t u] ? us' [Ht Hu] F']; subst. cbn [combine map]. cbn [snd] in Hu.
    rewrite (IH us' F'), upr_case_alone_eq, Hu. reflexivity.
Qed.

(* ---- the excluded design is NOT independent ---- *)
Definition upr_w_opts (ins : bool) : tls_opts :=
  {| o_ca := false; o_cert_key := false; o_insecure := ins; o_verify_client := false |}.
(* "tls://a" with insecure_skip_verify, then "tls://b" strict — same (absent) ca / cert / key files *)
Definition upr_w_lan : upc_config :=
  {| upc_tag := [97]; upc_addr := [116;108;115;58;47;47;97]; upc_dial_addr := []; upc_tls := upr_w_opts true |}.
Definition upr_w_public : upc_config :=
  {| upc_tag := [98]; upc_addr := [116;108;115;58;47;47;98]; upc_dial_addr := []; upc_tls := upr_w_opts false |}.

Lemma shared_tls_state_refuted :
  (exists us u, upr_shared_router [upr_w_lan; upr_w_public] = Ok us /\
     nth_error us 1 = Some (upc_tag upr_w_public, u) /\
     upc_init_upstream upr_w_public <> Ok u /\
     upr_verdict u (Some CSelfSigned) false = true /\
     upr_case_alone (upr_w_public, (Some CSelfSigned, false)) = Some (false, [98;58;56;53;51])) /\
  (exists us u, upr_shared_router [upr_w_public; upr_w_lan] = Ok us /\
     nth_error us 1 = Some (upc_tag upr_w_lan, u) /\
     upr_verdict u (Some CSelfSigned) false = false /\
     upr_case_alone (upr_w_lan, (Some CSelfSigned, false)) = Some (true, [97;58;56;53;51])).
Proof.
  split.
  - eexists. eexists. split; [vm_compute; reflexivity|]. split; [reflexivity|].
    split; [vm_compute; intros H; inversion H|]. split; vm_compute; reflexivity.
  - eexists. eexists. split; [vm_compute; reflexivity|]. split; [reflexivity|]. split; vm_compute; reflexivity.
Qed.

(* with a single entry (or entries that agree on insecure_skip_verify) the shared design is indistinguishable:
   a check that builds one upstream per router cannot see the difference *)
Lemma shared_single_entry_same c :
  match upr_shared_router [c], upr_init_router [c] with
  | Ok a, Ok b => a = b
  | Ok _, _ | _, Ok _ => False
  | _, _ => True
  end.
Proof.
  unfold upr_shared_router, upr_init_router. cbn [upr_shared_all upr_init_all upr_tag_seen existsb].
  unfold upr_shared_upstream, upc_init_upstream, upc_init_opt, upr_shared_tls. cbn [upr_cache_find].
  destruct (upc_tag c) as [|t0 tg]; [exact I|].
  destruct (upc_addr c) as [|a0 ad]; [exact I|].
  destruct (make_tls_config (upc_tls c) false) as [t| | |]; try exact I.
  destruct (upc_new_upstream (a0 :: ad) _) as [u| | |]; try exact I. reflexivity.
Qed.

(* ---- listeners: the same independence ---- *)
Lemma lsr_init_all_spec os : forall ts,
  lsr_init_all os = Ok ts -> Forall2 (fun o t => make_tls_config o true = Ok t) os ts.
Proof.
  induction os as [|o rest IH]; intros ts H; cbn in H.
  - inversion H. constructor.
  - destruct (make_tls_config o true) as [t| | |] eqn:Hm; try discriminate.
    destruct (lsr_init_all rest) as [ts'| | |] eqn:Hr; try discriminate.
    inversion H; subst. constructor; [exact Hm|apply IH; reflexivity].
Qed.

Lemma lsr_case_independent es vs :
  lsr_case es = Some vs -> vs = map (fun e => tls_listener_case (fst e) (snd e)) es.
Proof.
  unfold lsr_case. destruct (lsr_init_all (map fst es)) as [ts| | |] eqn:H; try discriminate.
  intros E. inversion E; subst vs; clear E.
  pose proof (lsr_init_all_spec _ _ H) as F. clear H.
  revert ts F. induction es as [|[o peer] es IH]; intros ts F; cbn [map fst] in F.
  - inversion F; subst. reflexivity.
  - inversion F as [|? t ? ts' Hm F']; subst. cbn [combine map fst snd].
    rewrite (IH ts' F'). f_equal. unfold tls_listener_case, listener_serves. rewrite Hm. reflexivity.
Qed.

Lemma lsr_starts_iff es :
  (exists vs, lsr_case es = Some vs) <-> forall e, In e es -> tls_listener_starts (fst e) = true.
Proof.
  unfold lsr_case. induction es as [|[o peer] es IH]; cbn [map fst lsr_init_all].
  - split; [intros _ e []|intros _; eexists; reflexivity].
  - unfold tls_listener_starts in *. destruct (make_tls_config o true) as [t| | |] eqn:Hm.
    2-4: (split; [intros [vs Hv]; discriminate|intros Hall; specialize (Hall (o, peer) (or_introl eq_refl));
          cbn in Hall; rewrite Hm in Hall; discriminate]).
    destruct (lsr_init_all (map fst es)) as [ts| | |] eqn:Hr.
    + split; [|intros _; eexists; reflexivity].
      intros _ e [<-|Hin]; [cbn; rewrite Hm; reflexivity|].
      apply (proj1 IH); [eexists; reflexivity|exact Hin].
    + split; [intros [vs Hv]; discriminate|]. intros Hall.
      destruct (proj2 IH (fun e Hin => Hall e (or_intror Hin))) as [vs Hv]. discriminate.
    + split; [intros [vs Hv]; discriminate|]. intros Hall.
      destruct (proj2 IH (fun e Hin => Hall e (or_intror Hin))) as [vs Hv]. discriminate.
    + split; [intros [vs Hv]; discriminate|]. intros Hall.
      destruct (proj2 IH (fun e Hin => Hall e (or_intror Hin))) as [vs Hv]. discriminate.
Qed.
