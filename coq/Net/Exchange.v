(* Net/Exchange.v — the retry loops of the upstream transports as one labelled transition system (C14).

   Mirrors (internal/upstream/transport):
     pipeline_transport.go  PipelineTransport.ExchangeContext   (retry < 5, newConn from connpool.Pool.Get)
     pipeline_conn.go       pipelineConn.exchange               (select: ctx.Done | c.ctx.Done | respChan)
                            closeWithErr                        (cancels the connection context)
     connpool/pool.go       Pool.Get / dialingCall.waitConn     (select: ctx.Done | deliverNotify)
     reuse_transport.go     ReuseConnTransport.ExchangeContext  (retry <= 5, isNewConn; `if retry <= 5 { getIdleConn }`:
                                                                the last attempt dials — fix of finding K7)
                            asyncDial                           (select: callCtx.Done | dialChan)
                            exchangeConnCtx                     (select: resChan | ctx.Done; worker has a 6 s I/O deadline)
     quic_transport.go      exchangePayload                     (retry < 5, newConn), dialingQuicCall.wait, exchangeStream
     doh_transport.go       DoHTransport.ExchangeContext        (select: ctx.Done | resChan; no retry at this level)

   One exchange goroutine against an adversarial environment.  The state is the goroutine's program counter
   plus the retry counter, the "context is done" flag and the "connection context is cancelled" flag.  Every
   BLOCKING point of the Go code is a pc value ([PDialWait], [PWait]) whose outgoing own transitions are exactly
   the arms of the Go [select]; an arm is enabled iff its channel is ready.  The environment (labels [E…]) may at
   any time: let the context expire, kill the attempt's connection, complete the dial (ok / error) or never do so,
   deliver the reply / the worker's result or never do so.  What the pool hands out ([AGet pooled]) and whether a
   write succeeds ([AWrite ok]) are environment choices carried by the label of the own step.
   Other exchanges of the same transport are part of the environment (they can only change what the pool hands
   out and kill shared connections), so a theorem over all environment behaviours covers all schedules.

   Not in the model: real time (the deadline is the event [ECtx]), a Write that blocks in the kernel (a write is
   one step: "the kernel accepts a query-sized write promptly"), goroutine scheduling latency. *)
From Mos Require Import Base.Prelude.

Inductive tkind := TPipe | TReuse | TQuic | TDoH.

(* Go: pipeline `retry < 5`, reuse `retry <= 5`, quic `retry < 5`; DoH has no loop. A retry is allowed iff retry < limit. *)
Definition retry_limit (tk : tkind) : nat :=
  match tk with TPipe => 5 | TReuse => 6 | TQuic => 5 | TDoH => 0 end.

(* ReuseConnTransport.ExchangeContext: `if retry <= 5 { c, err = t.getIdleConn() }` — once the retry budget is spent
   the idle set is not consulted any more and the last attempt is made on a freshly dialled connection.
   (Before the fix of K7 this was [false] for every transport.) The pool of the pipelined transport and the single
   cached QUIC connection never hand out a connection they know to be closed, which is what bounds them. *)
Definition last_attempt_dials (tk : tkind) : bool := match tk with TReuse => true | _ => false end.

(* pipelineConn.exchange selects on the connection context; the others learn of a dead connection through the
   worker goroutine's I/O error posted on resChan *)
Definition conn_arm (tk : tkind) : bool := match tk with TPipe => true | _ => false end.

(* connpool's waitConn re-checks the dial result when ctx fires first; asyncDial / dialingQuicCall.wait do not *)
Definition ctx_arm_takes_dial (tk : tkind) : bool := match tk with TPipe => true | _ => false end.

Inductive rclass := RReply | RErr.

Inductive xpc :=
| PGet                                   (* top of the loop: pool.Get / getIdleConn / getConn *)
| PDialWait (dres : option bool)         (* blocked: select { ctx.Done | dial result }; dres = dial finished (ok?) but not yet received *)
| PWrite (fresh : bool)                  (* holds a connection; next: addQueueC+write / spawn worker / OpenStream *)
| PWait (fresh : bool) (ready : option bool)
                                         (* blocked: select { ctx.Done | [c.ctx.Done] | respChan/resChan };
                                            ready = Some true: reply queued; Some false: worker posted an error *)
| PCheck (fresh : bool)                  (* the attempt failed: evaluating  !newConn && retry < N && !ctxIsDone(ctx) *)
| PRet (r : rclass).

Record xstate := mkSt {
  retry : nat;          (* the Go variable *)
  ctxd : bool;          (* ctx.Done() is closed *)
  cdead : bool;         (* the attempt's connection context is cancelled (closeWithErr ran / I/O fails) *)
  pcv : xpc;
  dials : nat;          (* observable: dials started by this exchange *)
  attempts : nat;       (* observable: loop iterations begun *)
  (* ghost history, used only by the theorems *)
  fails : nat;          (* failed attempts on a connection *)
  g_fresh_fail : bool;  (* an attempt on a freshly dialled connection failed *)
  g_dial_fail : bool;   (* a dial failed *)
  g_get_err : bool      (* the pool refused (closed / no connection available) *)
}.

Definition xinit : xstate := mkSt 0 false false PGet 0 0 0 false false false.

Inductive xlabel :=
(* environment *)
| ECtx                     (* the context's deadline fires / it is cancelled *)
| EKill                    (* the attempt's connection dies: read/write error, peer FIN/RST, closeWithErr *)
| EDial (ok : bool)        (* the pending dial completes *)
| EDeliver (ok : bool)     (* readLoop queues the reply (ok) / the worker goroutine posts its result *)
(* own steps of the exchange goroutine *)
| AGet (pooled : bool)     (* a pooled connection is handed out (newConn = false) / a dial is started or joined *)
| AGetErr                  (* ErrPoolClosed, ErrNoConnAvailable, ErrClosedTransport *)
| AArmCtx | AArmConn | AArmRes | AArmDial     (* select arms *)
| AWrite (ok : bool)
| ACheck.

Definition is_own (l : xlabel) : bool :=
  match l with ECtx | EKill | EDial _ | EDeliver _ => false | _ => true end.

Definition set_pc (s : xstate) (p : xpc) : xstate :=
  mkSt (retry s) (ctxd s) (cdead s) p (dials s) (attempts s) (fails s) (g_fresh_fail s) (g_dial_fail s) (g_get_err s).

(* the attempt ends with an error *)
Definition fail_attempt (tk : tkind) (s : xstate) (fresh : bool) : xstate :=
  match tk with
  | TDoH => (* no loop: the error is returned directly *)
    mkSt (retry s) (ctxd s) (cdead s) (PRet RErr) (dials s) (attempts s) (S (fails s)) true (g_dial_fail s) (g_get_err s)
  | _ => mkSt (retry s) (ctxd s) (cdead s) (PCheck fresh) (dials s) (attempts s) (S (fails s)) (g_fresh_fail s) (g_dial_fail s) (g_get_err s)
  end.

Definition dial_result (s : xstate) (ok : bool) : xstate :=
  if ok then set_pc s (PWrite true)
  else mkSt (retry s) (ctxd s) (cdead s) (PRet RErr) (dials s) (attempts s) (fails s) (g_fresh_fail s) true (g_get_err s).

Definition xstep (tk : tkind) (s : xstate) (l : xlabel) : option xstate :=
  match l, pcv s with
  (* ---- environment ---- *)
  | ECtx, PRet _ => None
  | ECtx, _ => if ctxd s then None
               else Some (mkSt (retry s) true (cdead s) (pcv s) (dials s) (attempts s) (fails s) (g_fresh_fail s) (g_dial_fail s) (g_get_err s))
  | EKill, (PWrite _ | PWait _ _) =>
      Some (mkSt (retry s) (ctxd s) true (pcv s) (dials s) (attempts s) (fails s) (g_fresh_fail s) (g_dial_fail s) (g_get_err s))
  | EDial ok, PDialWait None => Some (set_pc s (PDialWait (Some ok)))
  | EDeliver ok, PWait fresh None =>
      if conn_arm tk && negb ok then None      (* readLoop only ever queues a reply *)
      else Some (set_pc s (PWait fresh (Some ok)))
  (* ---- own steps ---- *)
  | AGet pooled, PGet =>
      match tk, pooled with
      | TDoH, true => None
      | TDoH, false => (* the request goroutine is spawned; connections are net/http's business *)
          Some (mkSt (retry s) (ctxd s) false (PWait true None) (dials s) (S (attempts s)) (fails s) (g_fresh_fail s) (g_dial_fail s) (g_get_err s))
      | _, true =>
          if last_attempt_dials tk && (retry_limit tk <=? retry s) then None
          else Some (mkSt (retry s) (ctxd s) false (PWrite false) (dials s) (S (attempts s)) (fails s) (g_fresh_fail s) (g_dial_fail s) (g_get_err s))
      | _, false =>
          Some (mkSt (retry s) (ctxd s) false (PDialWait None) (S (dials s)) (S (attempts s)) (fails s) (g_fresh_fail s) (g_dial_fail s) (g_get_err s))
      end
  | AGetErr, PGet =>
      match tk with
      | TDoH => None
      | _ => Some (mkSt (retry s) (ctxd s) (cdead s) (PRet RErr) (dials s) (S (attempts s)) (fails s) (g_fresh_fail s) (g_dial_fail s) true)
      end
  | AArmDial, PDialWait (Some ok) => Some (dial_result s ok)
  | AArmCtx, PDialWait dres =>
      if ctxd s then
        match dres with
        | Some ok => if ctx_arm_takes_dial tk then Some (dial_result s ok) else Some (set_pc s (PRet RErr))
        | None => Some (set_pc s (PRet RErr))
        end
      else None
  | AWrite ok, PWrite fresh =>
      if ok then Some (set_pc s (PWait fresh None)) else Some (fail_attempt tk s fresh)
  | AArmCtx, PWait fresh _ => if ctxd s then Some (fail_attempt tk s fresh) else None
  | AArmConn, PWait fresh _ => if conn_arm tk && cdead s then Some (fail_attempt tk s fresh) else None
  | AArmRes, PWait fresh (Some ok) =>
      if ok then Some (set_pc s (PRet RReply)) else Some (fail_attempt tk s fresh)
  | ACheck, PCheck fresh =>
      if negb fresh && (retry s <? retry_limit tk) && negb (ctxd s)
      then Some (mkSt (S (retry s)) (ctxd s) false PGet (dials s) (attempts s) (fails s) (g_fresh_fail s) (g_dial_fail s) (g_get_err s))
      else Some (mkSt (retry s) (ctxd s) (cdead s) (PRet RErr) (dials s) (attempts s) (fails s)
                      (g_fresh_fail s || fresh) (g_dial_fail s) (g_get_err s))
  | _, _ => None
  end.

Fixpoint xexec (tk : tkind) (ls : list xlabel) (s : xstate) : option xstate :=
  match ls with
  | [] => Some s
  | l :: r => match xstep tk s l with Some s' => xexec tk r s' | None => None end
  end.

Definition reachable (tk : tkind) (s : xstate) : Prop := exists ls, xexec tk ls xinit = Some s.

Definition returned (s : xstate) : bool := match pcv s with PRet _ => true | _ => false end.

(* ---- progress measure: strictly decreases on every own step, never increases on an environment step ---- *)
Definition rank (p : xpc) : nat :=
  match p with PGet => 5 | PDialWait _ => 4 | PWrite _ => 3 | PWait _ _ => 2 | PCheck _ => 1 | PRet _ => 0 end.

Definition mu (tk : tkind) (s : xstate) : nat :=
  match pcv s with
  | PRet _ => 0
  | p => (if ctxd s then 0 else (retry_limit tk - retry s) * 5) + rank p
  end.

Definition own_bound (tk : tkind) : nat := 5 * (retry_limit tk + 1).   (* = mu tk init *)
Definition ctx_bound : nat := 5.                                       (* after ctx is done *)

Fixpoint count_own (ls : list xlabel) : nat :=
  match ls with [] => 0 | l :: r => (if is_own l then 1 else 0) + count_own r end.

(* ---- scripted fault placements (what the correspondence harness replays) ---- *)

(* abstract behaviour of one connection *)
Inductive xfault :=
| FNone          (* healthy: the write succeeds and the reply arrives *)
| FDialRefuse    (* the dial fails *)
| FDialHang      (* the dial never completes *)
| FWriteErr      (* the write fails *)
| FSilent        (* the write succeeds, nothing ever comes back, the connection stays up *)
| FDie.          (* the write succeeds, then the connection dies before a reply (EOF, RST, undecodable frame) *)

(* the deterministic environment of a script: what happens next, given the fault of the current connection.
   The context expires only when the goroutine would otherwise wait forever. *)
Definition xsched (tk : tkind) (s : xstate) (cur : xfault) : option xlabel :=
  match pcv s with
  | PGet => None    (* handled by [run_labels]: consumes the script *)
  | PDialWait None =>
      match cur with
      | FDialRefuse => Some (EDial false)
      | FDialHang => Some (if ctxd s then AArmCtx else ECtx)
      | _ => Some (EDial true)
      end
  | PDialWait (Some _) => Some AArmDial
  | PWrite _ => Some (AWrite (match cur with FWriteErr => false | _ => true end))
  | PWait _ (Some _) => Some AArmRes
  | PWait _ None =>
      match cur with
      | FSilent => Some (if ctxd s then AArmCtx else ECtx)
      | FDie => Some (if cdead s then (if conn_arm tk then AArmConn else EDeliver false) else EKill)
      | _ => Some (EDeliver true)
      end
  | PCheck _ => Some ACheck
  | PRet _ => None
  end.

(* pooled connections are handed out in list order; when none is left a dial is started; missing entries are healthy *)
Fixpoint run_labels (fuel : nat) (tk : tkind) (s : xstate) (pool dialf : list xfault) (cur : xfault) : list xlabel :=
  match fuel with
  | 0 => []
  | S n =>
    match pcv s with
    | PRet _ => []
    | PGet =>
      let dial := match xstep tk s (AGet false) with
                  | Some s' => AGet false :: run_labels n tk s' pool (tl dialf) (hd FNone dialf)
                  | None => []
                  end in
      (* is the pool consulted at all? (decided before looking at the script) *)
      match xstep tk s (AGet true) with
      | None => dial
      | Some s' => match pool with
                   | f :: pool' => AGet true :: run_labels n tk s' pool' dialf f
                   | [] => dial
                   end
      end
    | _ =>
      match xsched tk s cur with
      | Some l => match xstep tk s l with
                  | Some s' => l :: run_labels n tk s' pool dialf cur
                  | None => []
                  end
      | None => []
      end
    end
  end.

Definition script_fuel : nat := 200.

Record xoutcome := mkOut { o_class : rclass; o_dials : nat; o_attempts : nat; o_ctx : bool (* returned because of the deadline *) }.

(* the outcome is, by construction, the final state of a valid execution of [step] *)
Definition run_script (tk : tkind) (pool dialf : list xfault) : option xoutcome :=
  match xexec tk (run_labels script_fuel tk xinit pool dialf FNone) xinit with
  | Some s => match pcv s with
              | PRet r => Some (mkOut r (dials s) (attempts s) (ctxd s))
              | _ => None
              end
  | None => None
  end.

(* ---- concrete server behaviours of the harness, and their abstraction per transport ---- *)
Inductive sfault :=
| SOk
| SRefuse        (* nothing listens: TCP RST on SYN / ICMP port unreachable for UDP *)
| SBlackhole     (* the connection (or the TLS/QUIC handshake) never completes *)
| SEarlyFin | SEarlyRst     (* accepted, then closed before the query is read *)
| SSilent        (* query read, no answer *)
| SHalf          (* query read, half a frame, then nothing *)
| SGarbage       (* query read, a well-framed undecodable message *)
| SFin | SRst    (* query read, then FIN / RST *)
| SIdleFin | SIdleRst | SIdleGarbage   (* done to a pooled connection while it is idle *)
| SIdleDown      (* UDP: the server socket is closed while the client socket is pooled *)
| SWriteErr.     (* injected connection whose next Write fails (the connection itself stays usable) *)

(* a freshly dialled connection *)
Definition abs_dial (tk : tkind) (udp : bool) (f : sfault) : xfault :=
  match f with
  | SOk => FNone
  | SRefuse => if udp then FDie else match tk with TDoH => FDie | _ => FDialRefuse end
  | SBlackhole => match tk with TDoH => FSilent | _ => FDialHang end
  | SSilent | SHalf => FSilent
  | SGarbage => if udp then FSilent (* readLoop skips an undecodable datagram *) else FDie
  | SIdleDown => FDie
  | SWriteErr => FWriteErr
  | _ => FDie
  end.

(* a pooled connection; [None]: the transport notices before use and never hands it out *)
Definition abs_pooled (tk : tkind) (udp : bool) (f : sfault) : option xfault :=
  match f with
  | SOk => Some FNone
  | SSilent | SHalf => Some FSilent
  | SGarbage => Some (if udp then FSilent else FDie)
  | SIdleFin | SIdleRst | SIdleGarbage =>
      (* the pipelined read loop sees the EOF / error at once and marks the connection closed, QuicTransport.getConn
         checks the connection's context; the one-at-a-time transport only checks that the socket was not closed
         locally *)
      match tk with TPipe | TQuic => None | _ => Some FDie end
  | SWriteErr => Some FWriteErr
  | _ => Some FDie
  end.

(* QUIC caches ONE connection and a failing stream does not kill it: getConn hands the same connection out again,
   so its behaviour is met by every attempt *)
Definition pool_copies (tk : tkind) : nat := match tk with TQuic => S (retry_limit TQuic) | _ => 1 end.

Fixpoint abs_pool (tk : tkind) (udp : bool) (l : list sfault) : list xfault :=
  match l with
  | [] => []
  | f :: r => match abs_pooled tk udp f with
              | Some a => repeat a (pool_copies tk) ++ abs_pool tk udp r
              | None => abs_pool tk udp r
              end
  end.

Definition run_case (tk : tkind) (udp : bool) (pool dialf : list sfault) : option xoutcome :=
  run_script tk (abs_pool tk udp pool) (map (abs_dial tk udp) dialf).

(* ---- the property's own oracle (independent of [step]): when must an exchange succeed? ----
   the server is healthy for fresh connections, and every pooled connection either works or fails detectably *)
Definition detectable (f : sfault) : bool :=
  match f with
  | SEarlyFin | SEarlyRst | SGarbage | SFin | SRst | SIdleFin | SIdleRst | SIdleGarbage | SIdleDown | SRefuse => true
  | _ => false
  end.

Definition must_succeed (tk : tkind) (udp : bool) (pool dialf : list sfault) : bool :=
  forallb (fun f => match f with SOk => true | _ => false end) dialf &&
  forallb (fun f => match f with
                    | SOk => true
                    | SGarbage => negb udp && negb (match tk with TQuic => true | _ => false end)
                    | SIdleFin | SIdleRst => true
                    | _ => match tk with
                           | TQuic => false   (* a server that fails every stream of the live connection is not healthy *)
                           | _ => detectable f
                           end
                    end) pool.

(* ================================================================================================================
   The idle read deadline of a pipelined connection (pipeline_conn.go readLoop / write).

     readLoop:  for { c.c.SetReadDeadline(time.Now().Add(idleTimeout)); r, err := read(); if err != nil {
                       closeWithErr(ErrIdleTimeOut / err); return }; deliver r }
     write:     c.c.Write(b)                       -- touches NO deadline

   The read deadline is re-armed only after a message has been READ.  It is the only thing that detects a connection
   that went silent without FIN/RST, so it must fire one idle time-out after the last read WHATEVER the exchanges
   write meanwhile.  One pooled connection shared by any number of exchange goroutines (each an instance of the LTS
   above on TPipe), with an abstract clock: [ix_since] = time units since the read loop last armed its deadline.

   [wr] = "a write re-arms the read deadline".  The code is [wr = false]; [wr = true] is what a SetDeadline (instead
   of SetWriteDeadline) in write would do, and is here only to show that the theorems are sensitive to it. *)

Record ixconn := mkIxC { ix_dead : bool; ix_since : nat }.
Record ixsys := mkIxS { ix_conn : ixconn; ix_ws : list xstate }.

Inductive ixlabel :=
| IxTick                       (* one unit of time passes *)
| IxRead                       (* the read loop reads a message (solicited or not): the deadline is re-armed *)
| IxIdleFire                   (* the read deadline fires: closeWithErr(ErrIdleTimeOut) *)
| IxKill                       (* any other death of the connection: read error, FIN, RST *)
| IxJoin                       (* a new ExchangeContext call starts *)
| IxW (i : nat) (l : xlabel).   (* exchange i makes step l of the exchange LTS *)

(* exchange w currently uses the shared pooled connection (newConn = false) *)
Definition ix_on_conn (w : xstate) : bool :=
  match pcv w with PWrite false | PWait false _ => true | _ => false end.

(* context cancellation is a broadcast: every exchange on the connection sees it *)
Definition ix_kill_w (w : xstate) : xstate :=
  if ix_on_conn w
  then mkSt (retry w) (ctxd w) true (pcv w) (dials w) (attempts w) (fails w) (g_fresh_fail w) (g_dial_fail w) (g_get_err w)
  else w.

Fixpoint ix_set_nth (i : nat) (w : xstate) (l : list xstate) : list xstate :=
  match l, i with
  | [], _ => []
  | _ :: r, 0 => w :: r
  | x :: r, S j => x :: ix_set_nth j w r
  end.

Definition ix_fire_enabled (idle : nat) (s : ixsys) : bool :=
  negb (ix_dead (ix_conn s)) && (idle <=? ix_since (ix_conn s)).

Definition ix_step (wr : bool) (idle : nat) (s : ixsys) (l : ixlabel) : option ixsys :=
  let c := ix_conn s in
  match l with
  | IxTick => Some (mkIxS (mkIxC (ix_dead c) (S (ix_since c))) (ix_ws s))
  | IxRead => if ix_dead c then None else Some (mkIxS (mkIxC false 0) (ix_ws s))
  | IxIdleFire =>
      if ix_fire_enabled idle s then Some (mkIxS (mkIxC true (ix_since c)) (map ix_kill_w (ix_ws s))) else None
  | IxKill =>
      if ix_dead c then None else Some (mkIxS (mkIxC true (ix_since c)) (map ix_kill_w (ix_ws s)))
  | IxJoin => Some (mkIxS c (ix_ws s ++ [xinit]))
  | IxW i l =>
      match nth_error (ix_ws s) i with
      | None => None
      | Some w =>
        let on := ix_on_conn w in
        let allowed :=
          match l with
          | EKill => negb on                          (* the shared connection dies only through IxIdleFire / IxKill *)
          | AGet true => negb (ix_dead c)             (* the pool never hands out a connection it knows to be closed *)
          | EDeliver _ => negb (on && ix_dead c)      (* nothing is read from a closed connection *)
          | _ => true
          end in
        if allowed then
          match xstep TPipe w l with
          | None => None
          | Some w' =>
            let c' :=
              match l with
              | EDeliver _ => if on then mkIxC (ix_dead c) 0 else c       (* a reply was read: re-armed *)
              | AWrite _ => if wr && on then mkIxC (ix_dead c) 0 else c   (* the code: a write re-arms nothing *)
              | _ => c
              end in
            Some (mkIxS c' (ix_set_nth i w' (ix_ws s)))
          end
        else None
      end
  end.

Fixpoint ix_exec (wr : bool) (idle : nat) (ls : list ixlabel) (s : ixsys) : option ixsys :=
  match ls with
  | [] => Some s
  | l :: r => match ix_step wr idle s l with Some s' => ix_exec wr idle r s' | None => None end
  end.

(* a label that reads from the shared connection *)
Definition ix_is_read (s : ixsys) (l : ixlabel) : bool :=
  match l with
  | IxRead => true
  | IxW i (EDeliver _) => match nth_error (ix_ws s) i with Some w => ix_on_conn w | None => false end
  | _ => false
  end.

(* "the connection stays silent along ls": no step of the execution reads from it *)
Fixpoint ix_silent (wr : bool) (idle : nat) (ls : list ixlabel) (s : ixsys) : bool :=
  match ls with
  | [] => true
  | l :: r => negb (ix_is_read s l) &&
              match ix_step wr idle s l with Some s' => ix_silent wr idle r s' | None => true end
  end.

Fixpoint ix_ticks (ls : list ixlabel) : nat :=
  match ls with [] => 0 | IxTick :: r => S (ix_ticks r) | _ :: r => ix_ticks r end.

Definition ix_init : ixsys := mkIxS (mkIxC false 0) [].

(* what a waiter of the dead pooled connection does next when the server is healthy for new connections:
   connection arm, retry, dial, write, reply *)
Definition ix_recovery : list xlabel :=
  [AArmConn; ACheck; AGet false; EDial true; AArmDial; AWrite true; EDeliver true; AArmRes].

(* ---- the harness scenario with a known idle time-out: a silent pipelined connection is killed by the idle read
   deadline before an exchange deadline that lies beyond it ---- *)
Definition abs_idle (tk : tkind) (idle_before_deadline : bool) (f : xfault) : xfault :=
  match tk, f with
  | TPipe, FSilent => if idle_before_deadline then FDie else FSilent
  | _, _ => f
  end.

Definition run_case_idle (tk : tkind) (udp : bool) (idle_before_deadline : bool) (pool dialf : list sfault)
  : option xoutcome :=
  run_script tk (map (abs_idle tk idle_before_deadline) (abs_pool tk udp pool))
                (map (fun f => abs_idle tk idle_before_deadline (abs_dial tk udp f)) dialf).
