(* Net/SockOpts.v — model of app/router/socket_ctl_linux.go controlSocket: which of the configured socket options
   (SocketConfig: so_reuseport, so_rcvbuf, so_sndbuf, so_mark, so_bindtodevice, and the internal TCP_USER_TIMEOUT
   that listen() / initUpstream set to 5000 ms) is applied to a socket of which network.  The Control callback of
   net.Dialer / net.ListenConfig receives the network WITH the address family: tcp4 tcp6 udp4 udp6 (never "tcp").
   Executable definitions only; proofs in Net/SockOptsProofs.v. *)
From Mos Require Import Base.Prelude.

Local Open Scope N_scope.

Inductive sko_net := SkoTcp4 | SkoTcp6 | SkoUdp4 | SkoUdp6.

Definition sko_is_tcp (n : sko_net) : bool := match n with SkoTcp4 | SkoTcp6 => true | _ => false end.

Record sko_opts := {
  sko_reuseport : bool;
  sko_rcvbuf : N;            (* 0 = not configured *)
  sko_sndbuf : N;
  sko_mark : N;
  sko_dev : list N;          (* empty = not configured *)
  sko_utimeout : N           (* TCP_USER_TIMEOUT in ms; 0 = not set *)
}.

(* what setsockopt was called with (None = the option is left alone) *)
Record sko_applied := {
  ska_reuseport : bool;
  ska_rcvbuf : option N;
  ska_sndbuf : option N;
  ska_mark : option N;
  ska_dev : option (list N);
  ska_utimeout : option N
}.

Definition sko_pos (v : N) : option N := if v =? 0 then None else Some v.

(* controlSocket(opt)(network, _, conn) for the ip networks *)
Definition sko_control (o : sko_opts) (n : sko_net) : sko_applied :=
  {| ska_reuseport := sko_reuseport o;
     ska_rcvbuf := sko_pos (sko_rcvbuf o);
     ska_sndbuf := sko_pos (sko_sndbuf o);
     ska_mark := sko_pos (sko_mark o);
     ska_dev := match sko_dev o with [] => None | d => Some d end;
     ska_utimeout := if sko_is_tcp n then sko_pos (sko_utimeout o) else None |}.

(* the excluded design: routing options guarded by a white list of network NAMES that misses one the callback
   really receives ("tcp" instead of "tcp4") *)
Definition sko_control_whitelist (o : sko_opts) (n : sko_net) : sko_applied :=
  let a := sko_control o n in
  match n with
  | SkoTcp4 => {| ska_reuseport := ska_reuseport a; ska_rcvbuf := ska_rcvbuf a; ska_sndbuf := ska_sndbuf a;
                  ska_mark := None; ska_dev := None; ska_utimeout := ska_utimeout a |}
  | _ => a
  end.

(* listen() and initUpstream add the constant TCP_USER_TIMEOUT = 5000 ms to the configured options *)
Definition sko_router_utimeout : N := 5000.
Definition sko_router_control (o : sko_opts) (n : sko_net) : sko_applied :=
  sko_control {| sko_reuseport := sko_reuseport o; sko_rcvbuf := sko_rcvbuf o; sko_sndbuf := sko_sndbuf o;
                 sko_mark := sko_mark o; sko_dev := sko_dev o; sko_utimeout := sko_router_utimeout |} n.
