(* Net/ConnLock.v — the mutex discipline of one pipelined connection (C14, round 2).

   Mirrors internal/upstream/transport/pipeline_conn.go, every function that takes pipelineConn.m:

     closeWithErr : c.m.Lock(); if c.closed { c.m.Unlock(); return }; c.closed = true; c.m.Unlock();
                    c.cancelCause(err); c.c.Close()                       "Subsequent calls are noop."
     Status       : c.m.RLock(); read closed/nextQid/reserved; c.m.RUnlock()
     getQueueC    : c.m.RLock(); read queue; c.m.RUnlock()
     Reserve      : c.m.Lock(); ...; c.m.Unlock()
     addQueueC    : c.m.Lock(); ...; c.m.Unlock()
     deleteQueueC : c.m.Lock(); delete; eol := ...; c.m.Unlock(); if eol { closeWithErr(errPipelineConnEoL) }

   and who calls them: an exchange goroutine (addQueueC; write — whose UDP branch calls closeWithErr on a send error;
   deleteQueueC; then PipelineTransport.ExchangeContext releases the connection: pool.Release -> Status), the read
   loop (getQueueC per reply; closeWithErr on a read error / idle time-out), the pool (Status under the pool lock in
   Get; Close = closeWithErr in Pool.Close).  A connection is therefore closed TWICE whenever writer and reader see
   the same failure (refusing UDP port), at wire-id exhaustion (deleteQueueC, then the read loop whose socket was
   closed), and when the pool is closed.

   Any number of goroutines ("actors"), each running a list of these operations, in any interleaving of their
   atomic actions.  The atomic actions of an operation: [acquire] (blocks while the mutex is held), the critical
   section [section] (reads/writes the fields and releases), and for closeWithErr the two actions after the
   unlock (cancelCause; net.Conn.Close).
   Coarsening: a read-locked section only reads, it is modelled as an exclusive section (fewer interleavings of
   readers among themselves, the same blocking relation against writers).

   [unl] = "the already-closed branch of closeWithErr unlocks".  The code is [unl = true]; [unl = false] exists only
   for the sensitivity theorem (what a lost Unlock on that branch does).
   [eol] = "the wire ids are exhausted and the queue is empty": deleteQueueC then calls closeWithErr.
   No proofs in this file. *)
From Mos Require Import Base.Prelude Net.Shutdown.

Inductive cl_op := ClClose | ClStatus | ClGetQ | ClReserve | ClAdd | ClDel.

Inductive cl_pc :=
| ClIdle             (* not inside an operation: the next one (if any) starts with its acquire *)
| ClIn               (* holds c.m inside the critical section of the head operation *)
| ClCancel           (* closeWithErr after the unlock: cancelCause pending *)
| ClSock.            (* closeWithErr: c.c.Close() pending *)

Record cl_actor := mkClA { ca_prog : list cl_op; ca_pc : cl_pc }.

Record cl_conn := mkClC {
  cc_lock : option nat;   (* c.m: who holds it *)
  cc_closed : bool;       (* c.closed *)
  cc_cancel : bool;       (* c.ctx cancelled: every waiting exchange is woken *)
  cc_sock : bool          (* net.Conn closed: the read loop's read fails *)
}.

Record cl_state := mkClS { cs_conn : cl_conn; cs_actors : list cl_actor }.

Definition cl_conn0 : cl_conn := mkClC None false false false.
Definition cl_init (progs : list (list cl_op)) : cl_state :=
  mkClS cl_conn0 (map (fun p => mkClA p ClIdle) progs).

Definition cl_set (s : cl_state) (c : cl_conn) (a : nat) (k : cl_actor) : cl_state :=
  mkClS c (upd (cs_actors s) a k).

(* one atomic action of actor a; None = blocked / nothing to do / no such actor *)
Definition cl_step (unl eol : bool) (s : cl_state) (a : nat) : option cl_state :=
  let c := cs_conn s in
  match nth_error (cs_actors s) a with
  | None => None
  | Some k =>
    match ca_pc k, ca_prog k with
    | _, [] => None                                  (* every call of this goroutine has returned *)
    | ClIdle, _ :: _ =>                              (* c.m.Lock() / c.m.RLock() *)
        match cc_lock c with
        | Some _ => None
        | None => Some (cl_set s (mkClC (Some a) (cc_closed c) (cc_cancel c) (cc_sock c)) a (mkClA (ca_prog k) ClIn))
        end
    | ClIn, ClClose :: rest =>
        if cc_closed c
        then (* if c.closed { c.m.Unlock(); return } *)
             Some (cl_set s (mkClC (if unl then None else cc_lock c) true (cc_cancel c) (cc_sock c)) a (mkClA rest ClIdle))
        else (* c.closed = true; c.m.Unlock() *)
             Some (cl_set s (mkClC None true (cc_cancel c) (cc_sock c)) a (mkClA (ClClose :: rest) ClCancel))
    | ClIn, ClDel :: rest =>
        (* delete; eol := nextQid > 65535 && len(queue) == 0; Unlock; if eol { closeWithErr(EoL) } *)
        Some (cl_set s (mkClC None (cc_closed c) (cc_cancel c) (cc_sock c)) a
                     (mkClA (if eol then ClClose :: rest else rest) ClIdle))
    | ClIn, _ :: rest =>
        Some (cl_set s (mkClC None (cc_closed c) (cc_cancel c) (cc_sock c)) a (mkClA rest ClIdle))
    | ClCancel, o :: rest => Some (cl_set s (mkClC (cc_lock c) (cc_closed c) true (cc_sock c)) a (mkClA (o :: rest) ClSock))
    | ClSock, _ :: rest => Some (cl_set s (mkClC (cc_lock c) (cc_closed c) (cc_cancel c) true) a (mkClA rest ClIdle))
    end
  end.

(* a schedule = the actor chosen at each instant; a choice that is blocked is skipped (the goroutine stays parked) *)
Fixpoint cl_run (unl eol : bool) (sched : list nat) (s : cl_state) : cl_state :=
  match sched with
  | [] => s
  | a :: r => match cl_step unl eol s a with Some s' => cl_run unl eol r s' | None => cl_run unl eol r s end
  end.

(* strict executions, for reachability *)
Fixpoint cl_exec (unl eol : bool) (sched : list nat) (s : cl_state) : option cl_state :=
  match sched with
  | [] => Some s
  | a :: r => match cl_step unl eol s a with Some s' => cl_exec unl eol r s' | None => None end
  end.

Definition cl_actor_done (k : cl_actor) : bool := match ca_prog k with [] => true | _ => false end.
Definition cl_all_done (s : cl_state) : bool := forallb cl_actor_done (cs_actors s).
Definition cl_done_count (s : cl_state) : nat := length (filter cl_actor_done (cs_actors s)).

(* some goroutine can move *)
Definition cl_can_move (unl eol : bool) (s : cl_state) : bool :=
  existsb (fun a => match cl_step unl eol s a with Some _ => true | None => false end) (seq 0 (length (cs_actors s))).

(* the lock is held although no goroutine is inside a critical section: nobody will ever release it *)
Definition cl_in_section (k : cl_actor) : bool :=
  match ca_pc k, ca_prog k with ClIn, _ :: _ => true | _, _ => false end.
Definition cl_lock_orphaned (s : cl_state) : bool :=
  match cc_lock (cs_conn s) with
  | None => false
  | Some a => match nth_error (cs_actors s) a with Some k => negb (cl_in_section k) | None => true end
  end.

(* ---- progress measure: atomic actions still to be made ---- *)
Definition cl_op_cost (eol : bool) (o : cl_op) : nat :=
  match o with
  | ClClose => 4
  | ClDel => if eol then 6 else 2
  | _ => 2
  end.
Fixpoint cl_prog_cost (eol : bool) (p : list cl_op) : nat :=
  match p with [] => 0 | o :: r => cl_op_cost eol o + cl_prog_cost eol r end.
Definition cl_actor_cost (eol : bool) (k : cl_actor) : nat :=
  match ca_prog k with
  | [] => 0
  | o :: r => match ca_pc k with
              | ClIdle => cl_op_cost eol o
              | ClIn => cl_op_cost eol o - 1
              | ClCancel => 2
              | ClSock => 1
              end + cl_prog_cost eol r
  end.
Fixpoint cl_cost_list (eol : bool) (l : list cl_actor) : nat :=
  match l with [] => 0 | k :: r => cl_actor_cost eol k + cl_cost_list eol r end.
Definition cl_cost (eol : bool) (s : cl_state) : nat := cl_cost_list eol (cs_actors s).

(* ---- the deterministic runner used by the correspondence check: round robin until nobody can move ---- *)
Fixpoint cl_round_robin (unl eol : bool) (fuel : nat) (s : cl_state) : cl_state :=
  match fuel with
  | 0 => s
  | S n =>
    let s' := cl_run unl eol (seq 0 (length (cs_actors s))) s in
    if cl_can_move unl eol s' then cl_round_robin unl eol n s' else s'
  end.

Record cl_outcome := mkClO { co_done : nat; co_total : nat; co_closed : bool; co_cancel : bool; co_sock : bool; co_free : bool }.

Definition cl_outcome_of (s : cl_state) : cl_outcome :=
  mkClO (cl_done_count s) (length (cs_actors s)) (cc_closed (cs_conn s)) (cc_cancel (cs_conn s)) (cc_sock (cs_conn s))
        (match cc_lock (cs_conn s) with None => true | Some _ => false end).

(* the goroutines of a case plus, when [reader] is set, the read loop reacting to the dead socket with its own
   closeWithErr *)
Definition cl_case (unl eol : bool) (progs : list (list cl_op)) (reader : bool) : cl_outcome :=
  let ps := if reader then progs ++ [[ClClose]] else progs in
  let s0 := cl_init ps in
  cl_outcome_of (cl_round_robin unl eol (S (cl_cost eol s0)) s0).

(* does some goroutine of the case close the connection? (then the read loop follows with a second close) *)
Definition cl_closes (eol : bool) (progs : list (list cl_op)) : bool :=
  existsb (existsb (fun o => match o with ClClose => true | ClDel => eol | _ => false end)) progs.
