(* Net/TlsCfg.v — model of app/router/tls.go makeTlsConfig (config.go TlsConfig -> crypto/tls.Config) and of the
   decision taken by the crypto/tls handshake as a function of that Config and of abstract attributes of the peer's
   certificate.  x509 chain building, host-name matching and validity periods are ORACLES (Section variables):
   the model is the decision rule around them.  Executable definitions only; proofs in Net/AddrProofs.v. *)
From Mos Require Import Base.Prelude.

(* TlsConfig options as far as they matter (paths abstracted to "configured or not") *)
Record tls_opts := {
  o_ca : bool;                (* ca: <file> *)
  o_cert_key : bool;          (* cert: and key: both given *)
  o_insecure : bool;          (* insecure_skip_verify *)
  o_verify_client : bool      (* verify_client_cert *)
}.

Inductive ca_pool := SystemRoots | ConfiguredCA.

(* crypto/tls ClientAuthType *)
Inductive client_auth :=
| NoClientCert | RequestClientCert | RequireAnyClientCert | VerifyClientCertIfGiven | RequireAndVerifyClientCert.

Record tls_config := {
  c_insecure : bool;          (* InsecureSkipVerify *)
  c_roots : ca_pool;             (* RootCAs (nil = system roots) *)
  c_has_cert : bool;          (* Certificates non-empty *)
  c_client_auth : client_auth;
  c_client_cas : option ca_pool  (* ClientCAs (None = nil) *)
}.

Definition ca_pool_eqb (a b : ca_pool) : bool :=
  match a, b with SystemRoots, SystemRoots | ConfiguredCA, ConfiguredCA => true | _, _ => false end.

(* makeTlsConfig(cfg, requireCert)   (after the D11 fix: verify_client_cert is honoured) *)
Definition make_tls_config (o : tls_opts) (require_cert : bool) : res tls_config :=
  if require_cert && negb (o_cert_key o) then Err EOther            (* missing required cert or key *)
  else if o_verify_client o && negb (o_ca o) then Err EOther        (* verify_client_cert needs a ca *)
  else Ok {| c_insecure := o_insecure o;
             c_roots := if o_ca o then ConfiguredCA else SystemRoots;
             c_has_cert := o_cert_key o;
             c_client_auth := if o_verify_client o then RequireAndVerifyClientCert else NoClientCert;
             c_client_cas := if o_verify_client o then Some ConfiguredCA else None |}.

Section Handshake.
  Variable cert : Type.
  (* oracles: crypto/x509 *)
  Variable chains_to : ca_pool -> cert -> bool.        (* signature chain up to a root of the ca_pool *)
  Variable name_matches : cert -> list N -> bool.   (* VerifyHostname *)
  Variable time_valid : cert -> bool.               (* NotBefore <= now <= NotAfter along the chain *)

  (* client side of crypto/tls: the handshake completes (and only then is a query written) iff *)
  Definition client_accepts (c : tls_config) (server_name : list N) (peer : option cert) : bool :=
    match peer with
    | None => false                                  (* a server always presents a certificate *)
    | Some k => c_insecure c || (chains_to (c_roots c) k && time_valid k && name_matches k server_name)
    end.

  (* server side of crypto/tls: the client's first application data is delivered iff *)
  Definition server_accepts (c : tls_config) (peer : option cert) : bool :=
    let verified k :=
      chains_to (match c_client_cas c with Some p => p | None => SystemRoots end) k && time_valid k in
    match c_client_auth c with
    | NoClientCert | RequestClientCert => true
    | RequireAnyClientCert => match peer with Some _ => true | None => false end
    | VerifyClientCertIfGiven => match peer with Some k => verified k | None => true end
    | RequireAndVerifyClientCert => match peer with Some k => verified k | None => false end
    end.

  (* a TLS-based upstream configured with options [o] whose URL yields server name [sni] *)
  Definition upstream_exchange_ok (o : tls_opts) (sni : list N) (peer : option cert) : bool :=
    match make_tls_config o false with
    | Ok c => client_accepts c sni peer
    | _ => false
    end.

  (* a TLS-based listener configured with options [o] serves a client presenting [peer] *)
  Definition listener_serves (o : tls_opts) (peer : option cert) : bool :=
    match make_tls_config o true with
    | Ok c => server_accepts c peer
    | _ => false                                     (* the listener does not start *)
    end.
End Handshake.

(* ---- concrete instance run by the correspondence check: certificate kinds of the harness ---- *)
Inductive cert_kind := CValid | CWrongName | CUnknownCA | CExpired | CSelfSigned | CSysRoot | CSysRootWrongName.

(* the harness' CA is the "configured CA"; it is never among the system roots.  The system roots of the process are
   under the harness' control as well (SSL_CERT_FILE / SSL_CERT_DIR): exactly one "system" CA, which issues the
   CSysRoot* kinds and is never the configured CA.  The two pools are DISJOINT: a configured ca REPLACES the system
   roots (ConfiguredCA is not "system roots + ca"). *)
Definition ck_chains (p : ca_pool) (k : cert_kind) : bool :=
  match p, k with
  | ConfiguredCA, (CValid | CWrongName | CExpired) => true
  | SystemRoots, (CSysRoot | CSysRootWrongName) => true
  | _, _ => false
  end.
Definition ck_name (k : cert_kind) (_ : list N) : bool :=
  match k with CWrongName | CSysRootWrongName => false | _ => true end.
Definition ck_time (k : cert_kind) : bool :=
  match k with CExpired => false | _ => true end.

Definition tls_upstream_case (o : tls_opts) (peer : option cert_kind) : bool :=
  upstream_exchange_ok cert_kind ck_chains ck_name ck_time o [] peer.
Definition tls_listener_case (o : tls_opts) (peer : option cert_kind) : bool :=
  listener_serves cert_kind ck_chains ck_time o peer.
Definition tls_listener_starts (o : tls_opts) : bool := is_ok (make_tls_config o true).

(* the upstream's own start-up (initUpstream calls makeTlsConfig(cfg, false)) and a fake server that demands a
   client certificate: the upstream presents one iff cert/key are configured *)
Definition tls_upstream_starts (o : tls_opts) : bool := is_ok (make_tls_config o false).
Definition tls_upstream_case_req (o : tls_opts) (peer : option cert_kind) (server_requires_cert : bool) : bool :=
  tls_upstream_case o peer && (negb server_requires_cert || o_cert_key o).

(* ---- makeTlsConfig observed field by field (kind tlscfg): the pools are compared as SETS of certificates ---- *)
Definition tls_config_view (o : tls_opts) (require_cert : bool)
  : option (bool * ca_pool * bool * client_auth * option ca_pool) :=
  match make_tls_config o require_cert with
  | Ok c => Some (c_insecure c, c_roots c, c_has_cert c, c_client_auth c, c_client_cas c)
  | _ => None
  end.
