(* Net/ShutdownOwn.v — C18: an upstream is a COMPOSITE of the transports / sockets it owns, and its Close
   is a program over them (internal/upstream/upstream.go NewUpstream, udpWithFallback.Close, closers.Close,
   connTracker.Close; transport/doh_transport.go Close; transport/quic_transport.go Close).
   Executable definitions only; the proofs are in Net/ShutdownOwnProofs.v.

   Shutdown.v models each transport alone (parts 1, 2, 5) and the Close *call graph* (part 3).  What was
   missing is the step from "every transport closes its connections" to "the upstream closes every transport":
   a udp:// upstream owns TWO transports (the UDP pipeline and the TCP fallback ReuseConnTransport), a quic://
   upstream owns the QuicTransport, the quic-go quic.Transport and the UDP socket NewUpstream made, an h3://
   upstream the quic.Transport and the socket, an https:// upstream the connections its http.Transport dialled
   (connTracker).  Here
     - [uo_owned k]      : the parts an upstream of kind k owns,
     - [uo_close_prog k] : which of them Close() of that upstream closes, in order (indices into uo_owned k)
                           — this mirrors the code; a Close that forgets a part or closes one twice instead is a
                           different program,
     - a part is a state of the part-1/2/5 transition systems (reuse, pipeline, quic) or a counter of open
       sockets (library-owned parts: tracker, quic.Transport, UDP socket),
     - the composite steps: any step of any part EXCEPT its Close (nobody but the upstream closes a leg), and
       the upstream's Close = the close program.
   All names are prefixed uo_/Uo/Uc/us_/ul_. *)
From Mos Require Import Base.Prelude Net.Shutdown.

Inductive uo_part :=
| UoPipe      (* transport.PipelineTransport (connpool.Pool)            - Shutdown.v part 2 *)
| UoReuse     (* transport.ReuseConnTransport                           - part 1 *)
| UoQuicT     (* transport.QuicTransport (cached connection, one call)  - part 5 *)
| UoTracker   (* connTracker: the connections dialled for the http.Transport of an https upstream *)
| UoQuicLib   (* quic-go quic.Transport: demultiplexer, read loop and its QUIC connections *)
| UoSock.     (* the UDP socket NewUpstream opened with ListenPacket (quic, h3) *)

Definition uo_owned (k : ukind) : list uo_part :=
  match k with
  | KUdp => [UoPipe; UoReuse]
  | KTcp | KTls => [UoReuse]
  | KTcpPipeline | KTlsPipeline => [UoPipe]
  | KHttps => [UoTracker]
  | KH3 => [UoQuicLib; UoSock]
  | KQuic => [UoQuicT; UoQuicLib; UoSock]
  end.

(* Close() of the upstream, as the list of owned parts it closes, in order:
     udp   : u.u.Close(); u.t.Close()
     https : DoHTransport.Close -> closer = connTracker
     h3    : DoHTransport.Close -> closers{quic.Transport, socket}
     quic  : QuicTransport.Close: own state, then opts.Closer = closers{quic.Transport, socket} *)
Definition uo_close_prog (k : ukind) : list nat :=
  match k with
  | KUdp => [0; 1]
  | KTcp | KTls | KTcpPipeline | KTlsPipeline | KHttps => [0]
  | KH3 => [0; 1]
  | KQuic => [0; 1; 2]
  end.

(* a library-owned part: what it holds open *)
Record uo_lib := { ul_closed : bool; ul_idle : nat; ul_busy : nat }.

Inductive uo_comp :=
| UcReuse (s : rstate)
| UcPipe (s : sd_pstate)
| UcQuic (s : sdq_state)
| UcLib (l : uo_lib).

(* ghost counters: us_eff = number of open -> closed transitions, us_calls = number of Close invocations *)
Record uo_slot := { us_comp : uo_comp; us_eff : nat; us_calls : nat }.

Definition uo_state := list uo_slot.

Definition uo_comp_init (p : uo_part) : uo_comp :=
  match p with
  | UoPipe => UcPipe sdp_init
  | UoReuse => UcReuse r_init
  | UoQuicT => UcQuic sdq_init
  | UoTracker | UoQuicLib => UcLib {| ul_closed := false; ul_idle := 0; ul_busy := 0 |}
  | UoSock => UcLib {| ul_closed := false; ul_idle := 1; ul_busy := 0 |}    (* exists from NewUpstream on *)
  end.

Definition uo_new (k : ukind) : uo_state :=
  map (fun p => {| us_comp := uo_comp_init p; us_eff := 0; us_calls := 0 |}) (uo_owned k).

Definition uo_comp_closed (c : uo_comp) : bool :=
  match c with
  | UcReuse s => rs_closed s
  | UcPipe s => ps_closed s
  | UcQuic s => sq_closed s
  | UcLib l => ul_closed l
  end.

(* connections / sockets a counting observer still sees open *)
Definition uo_comp_open (c : uo_comp) : nat :=
  match c with
  | UcReuse s => r_open_count s
  | UcPipe s => sdp_open_count s
  | UcQuic s => sdq_open_count s
  | UcLib l => ul_idle l + ul_busy l
  end.

Definition uo_lib_close (l : uo_lib) : uo_lib :=
  if ul_closed l then l else {| ul_closed := true; ul_idle := 0; ul_busy := 0 |}.

(* Close of one part = the Close label of its own transition system *)
Definition uo_comp_close (c : uo_comp) : uo_comp :=
  match c with
  | UcReuse s => match r_step s RClose with Some s' => UcReuse s' | None => c end
  | UcPipe s => match sdp_step s PClose with Some s' => UcPipe s' | None => c end
  | UcQuic s => match sdq_step s SqClose with Some s' => UcQuic s' | None => c end
  | UcLib l => UcLib (uo_lib_close l)
  end.

Definition uo_slot_close (x : uo_slot) : uo_slot :=
  {| us_comp := uo_comp_close (us_comp x);
     us_eff := if uo_comp_closed (us_comp x) then us_eff x else S (us_eff x);
     us_calls := S (us_calls x) |}.

Definition uo_close_at (s : uo_state) (i : nat) : uo_state :=
  match nth_error s i with Some x => upd s i (uo_slot_close x) | None => s end.

(* run a close program *)
Definition uo_close_with (prog : list nat) (s : uo_state) : uo_state := fold_left uo_close_at prog s.

Definition uo_close (k : ukind) (s : uo_state) : uo_state := uo_close_with (uo_close_prog k) s.

(* ---- the composite transition system ---- *)
Definition r_is_close (l : rlabel) : bool := match l with RClose => true | _ => false end.
Definition sdp_is_close (l : sd_plabel) : bool := match l with PClose => true | _ => false end.
Definition sdq_is_close (l : sdq_label) : bool := match l with SqClose => true | _ => false end.

Inductive uo_label :=
| UoR (i : nat) (l : rlabel)
| UoP (i : nat) (l : sd_plabel)
| UoQ (i : nat) (l : sdq_label)
| UoLibDial (i : nat)          (* a library part opens a connection; after its Close the new connection is closed at once *)
| UoLibBusy (i : nat)          (* a request starts on an idle connection *)
| UoLibIdle (i : nat)          (* a request ends, its connection becomes idle *)
| UoLibDrop (i : nat) (busy : bool)   (* a connection goes away (peer, idle time-out) *)
| UoClose.

Definition uo_with_comp (x : uo_slot) (c : uo_comp) : uo_slot :=
  {| us_comp := c; us_eff := us_eff x; us_calls := us_calls x |}.

Definition uo_lib_step (l : uo_lib) (lab : uo_label) : option uo_lib :=
  match lab with
  | UoLibDial _ =>
      if ul_closed l then Some l
      else Some {| ul_closed := false; ul_idle := S (ul_idle l); ul_busy := ul_busy l |}
  | UoLibBusy _ =>
      match ul_idle l with
      | S n => Some {| ul_closed := ul_closed l; ul_idle := n; ul_busy := S (ul_busy l) |}
      | O => None
      end
  | UoLibIdle _ =>
      match ul_busy l with
      | S n => Some {| ul_closed := ul_closed l; ul_idle := S (ul_idle l); ul_busy := n |}
      | O => None
      end
  | UoLibDrop _ b =>
      if b then match ul_busy l with
                | S n => Some {| ul_closed := ul_closed l; ul_idle := ul_idle l; ul_busy := n |}
                | O => None
                end
      else match ul_idle l with
           | S n => Some {| ul_closed := ul_closed l; ul_idle := n; ul_busy := ul_busy l |}
           | O => None
           end
  | _ => None
  end.

Definition uo_part_step (c : uo_comp) (lab : uo_label) : option uo_comp :=
  match lab, c with
  | UoR _ l, UcReuse s =>
      if r_is_close l then None else match r_step s l with Some s' => Some (UcReuse s') | None => None end
  | UoP _ l, UcPipe s =>
      if sdp_is_close l then None else match sdp_step s l with Some s' => Some (UcPipe s') | None => None end
  | UoQ _ l, UcQuic s =>
      if sdq_is_close l then None else match sdq_step s l with Some s' => Some (UcQuic s') | None => None end
  | UoLibDial _, UcLib l | UoLibBusy _, UcLib l | UoLibIdle _, UcLib l | UoLibDrop _ _, UcLib l =>
      match uo_lib_step l lab with Some l' => Some (UcLib l') | None => None end
  | _, _ => None
  end.

Definition uo_label_idx (lab : uo_label) : option nat :=
  match lab with
  | UoR i _ | UoP i _ | UoQ i _ | UoLibDial i | UoLibBusy i | UoLibIdle i | UoLibDrop i _ => Some i
  | UoClose => None
  end.

Definition uo_step (k : ukind) (s : uo_state) (lab : uo_label) : option uo_state :=
  match uo_label_idx lab with
  | None => Some (uo_close k s)
  | Some i =>
      match nth_error s i with
      | Some x => match uo_part_step (us_comp x) lab with
                  | Some c' => Some (upd s i (uo_with_comp x c'))
                  | None => None
                  end
      | None => None
      end
  end.

Fixpoint uo_run (k : ukind) (s : uo_state) (ls : list uo_label) : option uo_state :=
  match ls with
  | [] => Some s
  | l :: tl => match uo_step k s l with Some s' => uo_run k s' tl | None => None end
  end.

Definition uo_is_close (lab : uo_label) : bool := match lab with UoClose => true | _ => false end.

(* =====================================================================================================
   What the harness replays (kind upown): a plan of exchanges that are either answered or left in flight,
   then Close, Close, the exchanges in flight, a new exchange.  Each plan step is a sequence of big steps
   (Shutdown.v part 4) of the legs it touches; [uo_plan_refines] (proofs) shows that every state so visited is
   reachable in the composite system.
     UoPlOk      answered                         (udp: by the UDP leg only)
     UoPlTc      udp: the UDP leg answers (TC), then the TCP fallback leg answers; other kinds = UoPlOk
     UoPlMute    never answered: in flight on the first leg
     UoPlTcMute  udp: the UDP leg answers (TC), in flight on the TCP fallback leg; other kinds = UoPlMute
   ===================================================================================================== *)
Inductive uo_plan := UoPlOk | UoPlTc | UoPlMute | UoPlTcMute.

(* one exchange on a leg: spawn, complete the dial if one was started, then the reply (or not).
   Returns the new state and the task index of the exchange. *)
Definition uo_r_exch (s : rstate) (reply : bool) : option (rstate * nat) :=
  let t := length (rs_tasks s) in
  match r_big true s XSpawn with
  | Some s1 =>
      match (if r_is_dialing s1 t then r_big true s1 (XDialOk t) else Some s1) with
      | Some s2 =>
          if reply then match r_big true s2 (XReply t) with Some s3 => Some (s3, t) | None => None end
          else Some (s2, t)
      | None => None
      end
  | None => None
  end.

Definition uo_p_exch (maxs : nat) (s : sd_pstate) (reply : bool) : option (sd_pstate * nat) :=
  let t := length (ps_tasks s) in
  let d := length (ps_dials s) in
  match sdp_big true maxs s XSpawn with
  | Some s1 =>
      match (if sdp_is_dialing s1 d then sdp_big true maxs s1 (XDialOk d) else Some s1) with
      | Some s2 =>
          if reply then match sdp_big true maxs s2 (XReply t) with Some s3 => Some (s3, t) | None => None end
          else Some (s2, t)
      | None => None
      end
  | None => None
  end.

Definition sdq_is_dialing (s : sdq_state) (d : nat) : bool :=
  match nth_error (sq_calls s) d with
  | Some dd => match qd_stage dd with QdDialing => true | _ => false end
  | None => false
  end.

Definition uo_q_exch (s : sdq_state) (reply : bool) : option (sdq_state * nat) :=
  let t := length (sq_tasks s) in
  let d := length (sq_calls s) in
  match sdq_big true s XSpawn with
  | Some s1 =>
      match (if sdq_is_dialing s1 d then sdq_big true s1 (XDialOk d) else Some s1) with
      | Some s2 =>
          if reply then match sdq_big true s2 (XReply t) with Some s3 => Some (s3, t) | None => None end
          else Some (s2, t)
      | None => None
      end
  | None => None
  end.

(* a library part.  mux = true: one connection carries every request (h2, QUIC); false: one request per
   connection, idle connections are reused (http/1.1).  A request on a closed part fails without dialling. *)
Definition uo_lib_exch (mux : bool) (l : uo_lib) (reply : bool) : uo_lib :=
  if ul_closed l then l
  else if mux then
    match ul_idle l, ul_busy l with
    | O, O => if reply then {| ul_closed := false; ul_idle := 1; ul_busy := 0 |}
              else {| ul_closed := false; ul_idle := 0; ul_busy := 1 |}
    | S n, O => if reply then l else {| ul_closed := false; ul_idle := n; ul_busy := 1 |}
    | _, _ => l
    end
  else
    match ul_idle l with
    | O => if reply then {| ul_closed := false; ul_idle := 1; ul_busy := ul_busy l |}
           else {| ul_closed := false; ul_idle := 0; ul_busy := S (ul_busy l) |}
    | S n => if reply then l else {| ul_closed := false; ul_idle := n; ul_busy := S (ul_busy l) |}
    end.

(* streams per pipelined connection: udp 4096, tcp/tls 64 (upstream.go) *)
Definition uo_maxs (k : ukind) : nat := match k with KUdp => 4096 | _ => 64 end.

(* an in-flight exchange: (part index, task index); library parts have no tasks: (i, 0) *)
Definition uo_handle := (nat * nat)%type.

Definition uo_set_comp (s : uo_state) (i : nat) (c : uo_comp) : uo_state :=
  match nth_error s i with Some x => upd s i (uo_with_comp x c) | None => s end.

(* an exchange on part i *)
Definition uo_exch_on (k : ukind) (mux : bool) (s : uo_state) (i : nat) (reply : bool)
  : option (uo_state * uo_handle) :=
  match nth_error s i with
  | Some x =>
      match us_comp x with
      | UcReuse rs => match uo_r_exch rs reply with
                      | Some (rs', t) => Some (uo_set_comp s i (UcReuse rs'), (i, t))
                      | None => None
                      end
      | UcPipe ps => match uo_p_exch (uo_maxs k) ps reply with
                     | Some (ps', t) => Some (uo_set_comp s i (UcPipe ps'), (i, t))
                     | None => None
                     end
      | UcQuic qs => match uo_q_exch qs reply with
                     | Some (qs', t) => Some (uo_set_comp s i (UcQuic qs'), (i, t))
                     | None => None
                     end
      | UcLib l => Some (uo_set_comp s i (UcLib (uo_lib_exch mux l reply)), (i, 0))
      end
  | None => None
  end.

(* the part that carries the requests of an upstream whose first part is a library part: h3 -> quic.Transport (0),
   https -> tracker (0); quic: the QuicTransport (0) AND the connection inside quic.Transport (1) *)
Definition uo_plan_step (k : ukind) (mux : bool) (s : uo_state) (p : uo_plan) : option (uo_state * option uo_handle) :=
  let mute := match p with UoPlMute | UoPlTcMute => true | _ => false end in
  match k with
  | KUdp =>
      match p with
      | UoPlOk => match uo_exch_on k mux s 0 true with Some (s1, _) => Some (s1, None) | None => None end
      | UoPlMute => match uo_exch_on k mux s 0 false with Some (s1, h) => Some (s1, Some h) | None => None end
      | UoPlTc =>
          match uo_exch_on k mux s 0 true with
          | Some (s1, _) => match uo_exch_on k mux s1 1 true with Some (s2, _) => Some (s2, None) | None => None end
          | None => None
          end
      | UoPlTcMute =>
          match uo_exch_on k mux s 0 true with
          | Some (s1, _) => match uo_exch_on k mux s1 1 false with Some (s2, h) => Some (s2, Some h) | None => None end
          | None => None
          end
      end
  | KQuic =>
      (* the QUIC connection lives inside quic.Transport: one multiplexed connection *)
      match uo_exch_on k true s 0 (negb mute) with
      | Some (s1, h) =>
          match uo_exch_on k true s1 1 (negb mute) with
          | Some (s2, _) => Some (s2, if mute then Some h else None)
          | None => None
          end
      | None => None
      end
  | _ =>
      match uo_exch_on k mux s 0 (negb mute) with
      | Some (s1, h) => Some (s1, if mute then Some h else None)
      | None => None
      end
  end.

Fixpoint uo_plan_run (k : ukind) (mux : bool) (s : uo_state) (ps : list uo_plan) (hs : list uo_handle)
  : option (uo_state * list uo_handle) :=
  match ps with
  | [] => Some (s, hs)
  | p :: tl =>
      match uo_plan_step k mux s p with
      | Some (s1, oh) => uo_plan_run k mux s1 tl (match oh with Some h => hs ++ [h] | None => hs end)
      | None => None
      end
  end.

(* after an external event every enabled internal step of every leg runs (Shutdown.v part 4: quiescence): the
   callers blocked on a connection that Close closed read their error, late results are closed, ... *)
Definition uo_comp_settle (k : ukind) (c : uo_comp) : uo_comp :=
  match c with
  | UcReuse s => UcReuse (r_quiesce true big_fuel s)
  | UcPipe s => UcPipe (sdp_quiesce true (uo_maxs k) big_fuel s)
  | UcQuic s => UcQuic (sdq_quiesce true big_fuel s)
  | UcLib l => UcLib l
  end.

Definition uo_settle_at (k : ukind) (s : uo_state) (i : nat) : uo_state :=
  match nth_error s i with
  | Some x => upd s i (uo_with_comp x (uo_comp_settle k (us_comp x)))
  | None => s
  end.

Definition uo_settle (k : ukind) (s : uo_state) : uo_state := fold_left (uo_settle_at k) (seq 0 (length s)) s.

(* Close() as the harness sees it: the close program, then quiescence *)
Definition uo_close_settled (k : ukind) (s : uo_state) : uo_state := uo_settle k (uo_close k s).

(* observers *)
Definition uo_open_at (s : uo_state) (i : nat) : nat :=
  match nth_error s i with Some x => uo_comp_open (us_comp x) | None => 0 end.

(* result of the in-flight exchange h: Some false = failed, Some true = answered, None = still waiting *)
Definition uo_result (s : uo_state) (h : uo_handle) : option bool :=
  match nth_error s (fst h) with
  | Some x =>
      match us_comp x with
      | UcReuse rs => r_result rs (snd h)
      | UcPipe ps => sdp_result ps (snd h)
      | UcQuic qs => sdq_result qs (snd h)
      | UcLib l => if ul_closed l then Some false else None
      end
  | None => None
  end.

(* a new exchange on part i after everything else: does it fail (without waiting for anything)? *)
Definition uo_new_fails (k : ukind) (s : uo_state) (i : nat) : bool :=
  match nth_error s i with
  | Some x =>
      match us_comp x with
      | UcReuse rs => match uo_r_exch rs false with
                      | Some (rs', t) => match r_result rs' t with Some false => true | _ => false end
                      | None => false
                      end
      | UcPipe ps => match uo_p_exch (uo_maxs k) ps false with
                     | Some (ps', t) => match sdp_result ps' t with Some false => true | _ => false end
                     | None => false
                     end
      | UcQuic qs => match uo_q_exch qs false with
                     | Some (qs', t) => match sdq_result qs' t with Some false => true | _ => false end
                     | None => false
                     end
      | UcLib l => ul_closed l
      end
  | None => false
  end.

(* sockets by network: udp = the UDP leg of a udp upstream / the socket of quic, h3; tcp = everything else that
   is a stream connection (the QUIC connections inside quic.Transport are not sockets) *)
Definition uo_part_net (p : uo_part) (k : ukind) : option bool :=    (* Some true = udp, Some false = tcp, None = no socket *)
  match p, k with
  | UoPipe, KUdp => Some true
  | UoPipe, _ => Some false
  | UoReuse, _ => Some false
  | UoTracker, _ => Some false
  | UoSock, _ => Some true
  | UoQuicT, _ | UoQuicLib, _ => None
  end.

Fixpoint uo_count_net (k : ukind) (udp : bool) (ps : list uo_part) (s : uo_state) : nat :=
  match ps, s with
  | p :: ptl, x :: stl =>
      (match uo_part_net p k with
       | Some b => if Bool.eqb b udp then uo_comp_open (us_comp x) else 0
       | None => 0
       end) + uo_count_net k udp ptl stl
  | _, _ => 0
  end.

Definition uo_sockets (k : ukind) (udp : bool) (s : uo_state) : nat := uo_count_net k udp (uo_owned k) s.

Definition uo_all_closed (s : uo_state) : bool := forallb (fun x => uo_comp_closed (us_comp x)) s.
Definition uo_all_eff_once (s : uo_state) : bool := forallb (fun x => us_eff x =? 1) s.
