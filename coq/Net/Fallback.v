(* Net/Fallback.v — model of internal/upstream/upstream.go  udpWithFallback.ExchangeContext.

     r, err := u.u.ExchangeContext(ctx, q)      (UDP leg, pipelined transport)
     if err != nil { return nil, err }
     if r.Header.Truncated { ReleaseMsg(r); return u.t.ExchangeContext(ctx, q) }   (TCP leg, same q, same dialAddr)
     return r, nil

   The two legs are oracles (section variables): any function from the query to "reply or failure"
   (error, time-out and undecodable reply all surface as an error from ExchangeContext: C14/C01). *)
From Mos Require Import Base.Prelude.

Section Fallback.
  Context {Q R : Type}.
  Variable tc : R -> bool.              (* Header.Truncated of a reply *)

  Inductive ev := EvUdp (q : Q) | EvTcp (q : Q).

  Definition exchange (udp tcp : Q -> option R) (q : Q) : option R * list ev :=
    match udp q with
    | None => (None, [EvUdp q])
    | Some r => if tc r then (tcp q, [EvUdp q; EvTcp q]) else (Some r, [EvUdp q])
    end.

  Definition tcp_attempts (t : list ev) : nat :=
    length (filter (fun e => match e with EvTcp _ => true | _ => false end) t).

  Lemma exchange_tc udp tcp q r :
    udp q = Some r -> tc r = true ->
    exchange udp tcp q = (tcp q, [EvUdp q; EvTcp q]).
  Proof. unfold exchange. intros -> ->. reflexivity. Qed.

  Lemma exchange_no_tc udp tcp q r :
    udp q = Some r -> tc r = false ->
    exchange udp tcp q = (Some r, [EvUdp q]).
  Proof. unfold exchange. intros -> ->. reflexivity. Qed.

  Lemma exchange_udp_fail udp tcp q :
    udp q = None -> exchange udp tcp q = (None, [EvUdp q]).
  Proof. unfold exchange. intros ->. reflexivity. Qed.

  (* whatever is returned is either an untruncated UDP reply or exactly the TCP leg's outcome *)
  Lemma exchange_result udp tcp q r' :
    fst (exchange udp tcp q) = Some r' ->
    (udp q = Some r' /\ tc r' = false /\ tcp_attempts (snd (exchange udp tcp q)) = 0) \/
    (exists r, udp q = Some r /\ tc r = true /\ tcp q = Some r' /\ tcp_attempts (snd (exchange udp tcp q)) = 1).
  Proof.
    unfold exchange. destruct (udp q) as [r|] eqn:E; [|discriminate].
    destruct (tc r) eqn:T; cbn; intros H.
    - right. exists r. auto.
    - left. inversion H; subst. auto.
  Qed.

  (* every leg sees exactly the caller's query *)
  Lemma exchange_same_query udp tcp q e :
    In e (snd (exchange udp tcp q)) -> e = EvUdp q \/ e = EvTcp q.
  Proof.
    unfold exchange. destruct (udp q) as [r|]; [destruct (tc r)|]; cbn; intuition.
  Qed.
End Fallback.

(* concrete instance run by the correspondence check: replies are (tc flag, mark) *)
Definition fb_tc (r : bool * N) : bool := fst r.
Definition fb_run (udp tcp : option (bool * N)) : option (bool * N) * nat :=
  let r := exchange fb_tc (fun _ : unit => udp) (fun _ => tcp) tt in
  (fst r, tcp_attempts (snd r)).
