(* Net/FramingTimed.v — the stream readers of Net/Framing.v with the clock: segments arrive at chosen instants and each
   reader has its idle timer.  NO PROOFS HERE; proofs are in Net/FramingTimedProofs.v.

   Mirrors (pinned tree):
     app/router/server_tcp.go  handleConn   for { c.SetReadDeadline(time.Now().Add(s.idleTimeout)); ReadMsgFromTCP(br) ... }
         the deadline is (re)armed ONCE PER MESSAGE, at the top of the loop, whatever the bufio reader still holds;
         it is an absolute instant of the connection: every conn.Read that has to WAIT for a segment arriving at or after
         that instant fails (i/o timeout), ReadFull fails, handleConn returns and the connection is closed.  Octets already
         in the bufio buffer are handed out without touching the connection (no deadline check).
     app/router/server_tcp_gnet_linux.go    OnOpen: idleTimer = time.AfterFunc(idleTimeout, c.Close);
                                            OnTraffic: cc.idleTimer.Reset(idleTimeout) as its first statement
         the timer is re-armed ONCE PER READ EVENT.

   Time is a natural number (milliseconds in the runner).  A timed segment (g, s) = the octets s arrive g after the
   previous segment arrived (the first one: g after the connection was accepted / the TLS handshake finished).  The reader
   itself takes no time: the clock only advances while it waits for a segment.  When a deadline and an arrival coincide the
   model lets the timer win (the theorems ask for "strictly before", so the choice does not matter to them).

   ft_policy = where handleConn re-arms the deadline:
     FtEveryMsg      the code as it is
     FtWhenDrained   the variant "re-arm only when the bufio reader is empty" (br.Buffered() == 0): kept ONLY to state
                     C13_rearm_when_drained_refuted — it is not what the code does. *)
From Mos Require Import Base.Prelude Codec.Msg Net.Framing.

Notation ft_seg := (nat * list N)%type (only parsing).
Definition ft_octets (segs : list ft_seg) : list N := concat (map snd segs).

Inductive ft_policy := FtEveryMsg | FtWhenDrained.
Inductive ft_status := FtNeedMore | FtClosed | FtTimedOut.

(* per octet of the stream: the time that passes between the arrival of the previous octet and its own arrival
   (the gap of its segment for the first octet of a segment, 0 for the others; empty segments are not events) *)
Fixpoint ft_ogaps (segs : list ft_seg) : list nat :=
  match segs with
  | [] => []
  | (g, s) :: r => match s with [] => ft_ogaps r | _ :: s' => g :: repeat 0 (length s') ++ ft_ogaps r end
  end.

(* THE PACING HYPOTHESIS of the per-message deadline.  sizes = the lengths (prefix included) of the frames still to come,
   og = the per-octet gaps of the octets still to come: the last octet of every frame arrives LESS than idle after the
   last octet of the frame before it (the first frame: after the accept). *)
Fixpoint ft_paced (idle : nat) (sizes : list nat) (og : list nat) : bool :=
  match sizes with
  | [] => true
  | sz :: r => (list_sum (firstn sz og) <? idle) && ft_paced idle r (skipn sz og)
  end.
Definition ft_sizes (frames : list (list N)) : list nat := map (fun f => 2 + length f) frames.

(* the pacing hypothesis of the per-event timer: every segment arrives less than idle after the one before *)
Definition ft_gaps_below (idle : nat) (segs : list ft_seg) : bool := forallb (fun ts => fst ts <? idle) segs.

Definition ft_lift (r : list (list N) * rd_status) : list (list N) * ft_status :=
  (fst r, match snd r with RdNeedMore => FtNeedMore | RdClosed => FtClosed end).

Section TimedReaders.
  Variable ok : list N -> bool.
  Variable cap : nat.
  Variable idle : nat.
  Variable pol : ft_policy.

  (* ---------------------------------------------------------------- (a) handleConn with its read deadline *)
  Inductive ft_cr := FtcData (d : list N) (now : nat) (segs : list ft_seg) | FtcTimeout | FtcBlocked.

  (* net.Conn.Read(p), len p = n >= 1, at instant now under the deadline dl *)
  Fixpoint ft_conn_read (n now dl : nat) (segs : list ft_seg) : ft_cr :=
    match segs with
    | [] => FtcBlocked                                  (* end of the observation: still waiting *)
    | (g, s) :: r =>
      if dl <=? now + g then FtcTimeout                 (* the deadline passes before (or when) the segment arrives *)
      else match s with
           | [] => ft_conn_read n (now + g) dl r
           | _ => if length s <=? n then FtcData s (now + g) r
                  else FtcData (firstn n s) (now + g) ((0, skipn n s) :: r)    (* the rest is already there *)
           end
    end.

  Inductive ft_br := FtbData (d br : list N) (now : nat) (segs : list ft_seg) | FtbTimeout | FtbBlocked.

  (* bufio.Reader.Read(p): buffered octets are returned without touching the connection *)
  Definition ft_br_read (n : nat) (br : list N) (now dl : nat) (segs : list ft_seg) : ft_br :=
    match br with
    | [] =>
      if cap <=? n
      then match ft_conn_read n now dl segs with
           | FtcData d now' segs' => FtbData d [] now' segs' | FtcTimeout => FtbTimeout | FtcBlocked => FtbBlocked end
      else match ft_conn_read cap now dl segs with
           | FtcData d now' segs' => FtbData (firstn n d) (skipn n d) now' segs'
           | FtcTimeout => FtbTimeout | FtcBlocked => FtbBlocked end
    | _ => FtbData (firstn n br) (skipn n br) now segs
    end.

  Inductive ft_rf := FtfOk (data br : list N) (now : nat) (segs : list ft_seg) | FtfShort | FtfTimeout | FtfFuel.

  Fixpoint ft_read_full (fuel want : nat) (br : list N) (now dl : nat) (segs : list ft_seg) (acc : list N) : ft_rf :=
    match want with
    | 0 => FtfOk acc br now segs
    | _ =>
      match fuel with
      | 0 => FtfFuel
      | S f =>
        match ft_br_read want br now dl segs with
        | FtbBlocked => FtfShort
        | FtbTimeout => FtfTimeout
        | FtbData d br' now' segs' => ft_read_full f (want - length d) br' now' dl segs' (acc ++ d)
        end
      end
    end.

  Definition ft_arm (br : list N) (now dl : nat) : nat :=
    match pol with
    | FtEveryMsg => now + idle
    | FtWhenDrained => match br with [] => now + idle | _ => dl end
    end.

  Fixpoint ft_tcp_conn (fuel : nat) (br : list N) (now dl : nat) (segs : list ft_seg)
    : res (list (list N) * ft_status) :=
    match fuel with
    | 0 => OutOfFuel
    | S f =>
      let dl1 := ft_arm br now dl in
      match ft_read_full 2 2 br now dl1 segs [] with
      | FtfFuel => OutOfFuel
      | FtfShort => Ok ([], FtNeedMore)
      | FtfTimeout => Ok ([], FtTimedOut)                (* read error: handleConn returns, the conn is closed *)
      | FtfOk hdr br1 now1 segs1 =>
        let len := N.to_nat (u16_hd hdr) in
        match ft_read_full len len br1 now1 dl1 segs1 [] with
        | FtfFuel => OutOfFuel
        | FtfShort => Ok ([], FtNeedMore)
        | FtfTimeout => Ok ([], FtTimedOut)              (* mid-frame: the half-received query is never decoded *)
        | FtfOk body br2 now2 segs2 =>
          if ok body
          then do (fs, st) <- ft_tcp_conn f br2 now2 dl1 segs2; Ok (body :: fs, st)
          else Ok ([], FtClosed)
        end
      end
    end.

  Definition ft_tcp_run (segs : list ft_seg) : res (list (list N) * ft_status) :=
    ft_tcp_conn (S (length (ft_octets segs))) [] 0 0 segs.

  (* ---------------------------------------------------------------- (b) gnet: OnTraffic with the idle timer *)
  (* el = time since the timer was last (re)armed.  An empty segment is no read event: the timer keeps running. *)
  Fixpoint ft_gnet_feed (st : gstate) (inb : list N) (el : nat) (segs : list ft_seg)
    : res (list (list N) * ft_status) :=
    match segs with
    | [] => Ok ([], FtNeedMore)
    | (g, s) :: r =>
      if idle <=? el + g then Ok ([], FtTimedOut)        (* time.AfterFunc(idleTimeout, c.Close) fires first *)
      else match s with
           | [] => ft_gnet_feed st inb (el + g) r
           | _ =>
             let inb1 := inb ++ s in
             do (fs, st', inb', a) <- on_traffic ok (S (length inb1)) st inb1;     (* idleTimer.Reset, then the loop *)
             match a with
             | GaClose => Ok (fs, FtClosed)
             | GaNone => do (fs2, stt) <- ft_gnet_feed st' inb' 0 r; Ok (fs ++ fs2, stt)
             end
           end
    end.

  Definition ft_gnet_run (segs : list ft_seg) : res (list (list N) * ft_status) :=
    ft_gnet_feed g_init [] 0 segs.
End TimedReaders.

(* ------------------------------------------------------------------ instances used by the runner *)
Definition ft_tcp_run_dns (idle : nat) (segs : list ft_seg) := ft_tcp_run dns_ok cap1k idle FtEveryMsg segs.
Definition ft_tcp_run_dns_drained (idle : nat) (segs : list ft_seg) := ft_tcp_run dns_ok cap1k idle FtWhenDrained segs.
Definition ft_gnet_run_dns (idle : nat) (segs : list ft_seg) := ft_gnet_run dns_ok idle segs.
Definition ft_paced_segs (idle : nat) (frames : list (list N)) (segs : list ft_seg) : bool :=
  ft_paced idle (ft_sizes frames) (ft_ogaps segs).

Definition ft_lift_res (r : res (list (list N) * rd_status)) : res (list (list N) * ft_status) :=
  match r with Ok x => Ok (ft_lift x) | Err e => Err e | Panic => Panic | OutOfFuel => OutOfFuel end.
