(* Net/FramingProofs.v — proofs about Net/Framing.v (C13, and the stream clause of C01). Qed only. *)
From Mos Require Import Base.Prelude Codec.Msg Net.Framing.
From Coq Require Import Permutation.

(* ------------------------------------------------------------------ list helpers *)
Lemma firstn_app_le {A} n (a b : list A) : n <= length a -> firstn n (a ++ b) = firstn n a.
Proof.
  intros H. rewrite firstn_app. replace (n - length a) with 0 by lia. cbn. now rewrite app_nil_r.
Qed.

Lemma skipn_app_le {A} n (a b : list A) : n <= length a -> skipn n (a ++ b) = skipn n a ++ b.
Proof.
  intros H. rewrite skipn_app. replace (n - length a) with 0 by lia. reflexivity.
Qed.

Lemma firstn_exact {A} (x y : list A) : firstn (length x) (x ++ y) = x.
Proof. rewrite firstn_app, Nat.sub_diag, firstn_all. cbn. now rewrite app_nil_r. Qed.

Lemma skipn_exact {A} (x y : list A) : skipn (length x) (x ++ y) = y.
Proof. rewrite skipn_app, Nat.sub_diag, skipn_all. reflexivity. Qed.

(* a ++ t = x ++ y and x fits in a: a starts with x *)
Lemma prefix_split {A} (a t x y : list A) :
  a ++ t = x ++ y -> length x <= length a ->
  firstn (length x) a = x /\ skipn (length x) a ++ t = y.
Proof.
  intros E H. split.
  - rewrite <- (firstn_app_le _ a t H), E. apply firstn_exact.
  - rewrite <- (skipn_app_le _ a t H), E. apply skipn_exact.
Qed.

Lemma length_zero_nil {A} (l : list A) : length l = 0 -> l = [].
Proof. destruct l; [reflexivity|discriminate]. Qed.

(* ------------------------------------------------------------------ frames *)
Definition fits (f : list N) : Prop := (N.of_nat (length f) < 65536)%N.     (* body length <= 65535 *)
Definition good (f : list N) : Prop := 1 <= length f /\ fits f.             (* a query: 1..65535 octets *)

Lemma unit_hd f : fits f ->
  exists a b, unit_of f = a :: b :: f /\ N.to_nat (u16_of a b) = length f.
Proof.
  unfold fits, unit_of, be16. intros H.
  exists ((N.of_nat (length f) / 256) mod 256)%N, (N.of_nat (length f) mod 256)%N. split; [reflexivity|].
  rewrite u16_be16 by exact H. apply Nat2N.id.
Qed.

Lemma stream_cons f r : stream_of (f :: r) = unit_of f ++ stream_of r.
Proof. reflexivity. Qed.

Lemma stream_app a b : stream_of (a ++ b) = stream_of a ++ stream_of b.
Proof. unfold stream_of. now rewrite map_app, concat_app. Qed.

Lemma unit_len f : length (unit_of f) = 2 + length f.
Proof. unfold unit_of. now rewrite app_length, be16_len. Qed.

Lemma stream_short frames : length (stream_of frames) < 2 -> frames = [].
Proof.
  destruct frames as [|f r]; [reflexivity|]. rewrite stream_cons, app_length, unit_len. lia.
Qed.

Lemma stream_count frames : length frames <= length (stream_of frames).
Proof.
  induction frames as [|f r IH]; [cbn; lia|]. rewrite stream_cons, app_length, unit_len. cbn [length]. lia.
Qed.

(* ------------------------------------------------------------------ rd_expect *)
Section Expect.
  Variable ok : list N -> bool.

  Lemma expect_all frames : forallb ok frames = true -> rd_expect ok frames = (frames, RdNeedMore).
  Proof.
    induction frames as [|f r IH]; cbn; [reflexivity|]. intros H. apply andb_true_iff in H. destruct H as [Hf Hr].
    rewrite Hf, (IH Hr). reflexivity.
  Qed.

  Lemma expect_app_ok fs rem : forallb ok fs = true ->
    rd_expect ok (fs ++ rem) = (fs ++ fst (rd_expect ok rem), snd (rd_expect ok rem)).
  Proof.
    induction fs as [|f r IH]; cbn; intros H.
    - now destruct (rd_expect ok rem).
    - apply andb_true_iff in H. destruct H as [Hf Hr]. rewrite Hf, (IH Hr). reflexivity.
  Qed.

  Lemma expect_app_bad fs bad rem : forallb ok fs = true -> ok bad = false ->
    rd_expect ok (fs ++ bad :: rem) = (fs, RdClosed).
  Proof.
    intros H Hb. rewrite (expect_app_ok _ _ H). cbn. rewrite Hb. cbn. now rewrite app_nil_r.
  Qed.

  (* the frames delivered are a prefix of the frames sent: in order, none twice, none invented *)
  Lemma expect_prefix frames : exists rest, frames = fst (rd_expect ok frames) ++ rest.
  Proof.
    induction frames as [|f r [rest IH]]; cbn; [now exists []|].
    destruct (ok f); [|now exists (f :: r)].
    destruct (rd_expect ok r) as [fs st]. cbn in *. exists rest. now rewrite IH at 1.
  Qed.
End Expect.

(* ================================================================== (a) the TCP reader *)
Section Tcp.
  Variable ok : list N -> bool.
  Variable cap : nat.
  Hypothesis cap_pos : 1 <= cap.

  Lemma conn_read_spec n segs : 1 <= n ->
    match conn_read n segs with
    | Some (d, segs') => d ++ concat segs' = concat segs /\ 1 <= length d /\ length d <= n
    | None => concat segs = []
    end.
  Proof.
    intros Hn. induction segs as [|s r IH]; cbn [conn_read]; [reflexivity|].
    destruct s as [|x s'].
    - exact IH.
    - destruct (length (x :: s') <=? n) eqn:E.
      + apply Nat.leb_le in E. cbn [concat]. repeat split; auto. cbn; lia.
      + apply Nat.leb_gt in E. cbn [concat]. repeat split.
        * now rewrite app_assoc, firstn_skipn.
        * rewrite firstn_length. lia.
        * rewrite firstn_length. lia.
  Qed.

  Lemma br_read_spec n br segs : 1 <= n ->
    match br_read cap n br segs with
    | Some (d, br', segs') => d ++ br' ++ concat segs' = br ++ concat segs /\ 1 <= length d /\ length d <= n
    | None => br ++ concat segs = []
    end.
  Proof.
    intros Hn. unfold br_read. destruct br as [|x br0].
    - destruct (cap <=? n).
      + pose proof (conn_read_spec n segs Hn) as H. destruct (conn_read n segs) as [[d segs']|]; [|exact H].
        cbn [app]. exact H.
      + pose proof (conn_read_spec cap segs cap_pos) as H. destruct (conn_read cap segs) as [[d segs']|]; [|exact H].
        destruct H as [H1 [H2 H3]]. cbn [app]. repeat split.
        * now rewrite app_assoc, firstn_skipn.
        * rewrite firstn_length. lia.
        * rewrite firstn_length. lia.
    - repeat split.
      + now rewrite app_assoc, firstn_skipn.
      + rewrite firstn_length. cbn [length]. lia.
      + rewrite firstn_length. lia.
  Qed.

  Lemma read_full_spec fuel : forall want br segs acc, want <= fuel ->
    (want <= length (br ++ concat segs) ->
       exists br' segs', read_full cap fuel want br segs acc = RFOk (acc ++ firstn want (br ++ concat segs)) br' segs' /\
                         br' ++ concat segs' = skipn want (br ++ concat segs)) /\
    (length (br ++ concat segs) < want -> read_full cap fuel want br segs acc = RFShort).
  Proof.
    induction fuel as [|f IH]; intros want br segs acc Hw.
    - assert (want = 0) as -> by lia. cbn. split; [|lia]. intros _. exists br, segs. now rewrite app_nil_r.
    - destruct want as [|w].
      + cbn. split; [|lia]. intros _. exists br, segs. now rewrite app_nil_r.
      + cbn [read_full].
        pose proof (br_read_spec (S w) br segs ltac:(lia)) as H.
        destruct (br_read cap (S w) br segs) as [[[d br'] segs']|].
        * destruct H as [E [H1 H2]].
          destruct (IH (S w - length d) br' segs' (acc ++ d) ltac:(lia)) as [IHa IHb].
          rewrite <- E. rewrite app_length. split.
          -- intros Hl. destruct (IHa ltac:(lia)) as [br2 [segs2 [R1 R2]]]. exists br2, segs2. split.
             ++ rewrite R1. f_equal. rewrite <- app_assoc. f_equal.
                rewrite (firstn_app (S w) d (br' ++ concat segs')). rewrite (firstn_all2 (n:=S w) d) by lia. reflexivity.
             ++ rewrite R2. rewrite (skipn_app (S w) d (br' ++ concat segs')). rewrite (skipn_all2 (n:=S w) d) by lia. reflexivity.
          -- intros Hl. apply IHb. lia.
        * rewrite H. cbn. split; [lia|]. reflexivity.
  Qed.

  (* decode-once, TCP reader: invariant  br ++ concat segs = stream of the frames not yet delivered *)
  Lemma tcp_conn_frames : forall frames fuel br segs,
    Forall fits frames -> br ++ concat segs = stream_of frames -> length (stream_of frames) < fuel ->
    tcp_conn ok cap fuel br segs = Ok (rd_expect ok frames).
  Proof.
    induction frames as [|f r IH]; intros fuel br segs Hf E Hl.
    - destruct fuel as [|fu]; [lia|]. cbn [tcp_conn].
      destruct (read_full_spec 2 2 br segs [] (le_n _)) as [_ Hs].
      rewrite Hs; [reflexivity|]. rewrite E. cbn. lia.
    - destruct fuel as [|fu]; [lia|]. cbn [tcp_conn].
      inversion Hf as [|? ? Hff Hfr]; subst.
      destruct (unit_hd f Hff) as [a [b [Eu El]]].
      rewrite stream_cons, Eu in E. rewrite stream_cons, app_length, unit_len in Hl.
      destruct (read_full_spec 2 2 br segs [] (le_n _)) as [Ho _].
      destruct Ho as [br1 [segs1 [R1 R2]]]; [rewrite E; cbn; lia|].
      rewrite R1, E. cbn [firstn app]. unfold u16_hd. cbn [nth]. rewrite E in R2. cbn [skipn app] in R2.
      rewrite El.
      destruct (read_full_spec (length f) (length f) br1 segs1 [] (le_n _)) as [Ho2 _].
      destruct Ho2 as [br2 [segs2 [S1 S2]]]; [rewrite R2, app_length; lia|].
      rewrite S1, R2. cbn [app]. rewrite firstn_exact. rewrite R2, skipn_exact in S2.
      cbn [rd_expect]. destruct (ok f); [|reflexivity].
      rewrite (IH fu br2 segs2 Hfr S2 ltac:(lia)). cbn. now destruct (rd_expect ok r).
  Qed.

  Theorem tcp_decode_once frames segs :
    Forall fits frames -> segmentation segs (stream_of frames) ->
    tcp_run ok cap segs = Ok (rd_expect ok frames).
  Proof.
    unfold segmentation, tcp_run. intros Hf E. apply tcp_conn_frames; auto.
    rewrite E. lia.
  Qed.

  (* safety on arbitrary octets *)
  Lemma tcp_conn_safe : forall fuel br segs, length (br ++ concat segs) < fuel ->
    exists fs st, tcp_conn ok cap fuel br segs = Ok (fs, st).
  Proof.
    induction fuel as [|fu IH]; intros br segs Hl; [lia|]. cbn [tcp_conn].
    destruct (read_full_spec 2 2 br segs [] (le_n _)) as [Ho Hs].
    destruct (Nat.lt_ge_cases (length (br ++ concat segs)) 2) as [Hlt|Hge].
    - rewrite (Hs Hlt). eauto.
    - destruct (Ho Hge) as [br1 [segs1 [R1 R2]]]. rewrite R1.
      set (len := N.to_nat (u16_hd ([] ++ firstn 2 (br ++ concat segs)))).
      destruct (read_full_spec len len br1 segs1 [] (le_n _)) as [Ho2 Hs2].
      destruct (Nat.lt_ge_cases (length (br1 ++ concat segs1)) len) as [Hlt2|Hge2].
      + rewrite (Hs2 Hlt2). eauto.
      + destruct (Ho2 Hge2) as [br2 [segs2 [S1 S2]]]. rewrite S1.
        destruct (ok _); [|eauto].
        destruct (IH br2 segs2) as [fs [st Ef]].
        * rewrite S2, skipn_length, R2, skipn_length. lia.
        * rewrite Ef. cbn. eauto.
  Qed.

  Theorem tcp_stream_safe segs : exists fs st, tcp_run ok cap segs = Ok (fs, st).
  Proof. unfold tcp_run. apply tcp_conn_safe. cbn. lia. Qed.
End Tcp.

Lemma cap1k_pos : 1 <= cap1k.
Proof. unfold cap1k. lia. Qed.

(* ================================================================== (b) the gnet machine *)
Section Gnet.
  Variable ok : list N -> bool.

  Lemma next_short n inb : length inb < n -> gnet_next (Z.of_nat n) inb = ([], inb).
  Proof.
    intros H. unfold gnet_next. assert ((Z.of_nat (length inb) <? Z.of_nat n)%Z = true) as -> by (apply Z.ltb_lt; lia).
    reflexivity.
  Qed.

  Lemma next_enough n inb : 1 <= n -> n <= length inb -> gnet_next (Z.of_nat n) inb = (firstn n inb, skipn n inb).
  Proof.
    intros H1 H2. unfold gnet_next.
    assert ((Z.of_nat (length inb) <? Z.of_nat n)%Z = false) as -> by (apply Z.ltb_ge; lia).
    assert ((Z.of_nat n <=? 0)%Z = false) as -> by (apply Z.leb_gt; lia).
    now rewrite Nat2Z.id.
  Qed.

  Lemma next_zero inb : gnet_next 0%Z inb = (inb, []).
  Proof.
    unfold gnet_next. assert ((Z.of_nat (length inb) <? 0)%Z = false) as -> by (apply Z.ltb_ge; lia). reflexivity.
  Qed.

  Lemma copy_into_nil buf : copy_into buf 0 [] = Ok (buf, 0).
  Proof.
    unfold copy_into. cbn [Nat.ltb Nat.leb length]. rewrite Nat.min_0_r. reflexivity.
  Qed.

  Lemma copy_into_full buf src : length buf = length src -> copy_into buf 0 src = Ok (src, length src).
  Proof.
    intros H. unfold copy_into. cbn [Nat.ltb Nat.leb]. rewrite Nat.sub_0_r, H, Nat.min_id.
    cbn [firstn app Nat.add]. rewrite firstn_all, skipn_all2 by lia. now rewrite app_nil_r.
  Qed.

  Lemma get_buf_len n : length (get_buf n) = n.
  Proof. apply repeat_length. Qed.

  (* ---- decode-once ---- *)
  (* what the connCtx means, relative to the octets not yet consumed (buffered ++ still to arrive) *)
  Definition R (st : gstate) (frames : list (list N)) (s : list N) : Prop :=
    match g_buf st with
    | None => s = stream_of frames
    | Some b => g_readN st = 0 /\
        if g_hdr st then length b = 2 /\ s = stream_of frames
        else exists f r, frames = f :: r /\ length b = length f /\ 1 <= length f /\ s = f ++ stream_of r
    end.

  (* OnTraffic returned None because the buffered octets do not complete the awaited piece *)
  Definition stuck (st : gstate) (inb : list N) : Prop :=
    match g_buf st with
    | None => inb = []
    | Some b => if g_hdr st then length inb < 2 else length inb < length b
    end.

  (* outcome of one pass from "read:" (inb0 = what was buffered when the pass began) *)
  Definition iter_post (res : res giter) (inb0 tail : list N) (frames : list (list N)) : Prop :=
    (exists st' inb', res = Ok (GWait st' inb') /\ R st' frames (inb' ++ tail) /\ stuck st' inb') \/
    (exists f r st' inb', frames = f :: r /\ res = Ok (GGot f st' inb') /\ g_buf st' = None /\
                          inb' ++ tail = stream_of r /\ length inb' < length inb0).

  Lemma body_phase_post buf inb0 inb tail f r :
    length buf = length f -> 1 <= length f -> inb ++ tail = f ++ stream_of r -> length inb <= length inb0 ->
    iter_post (body_phase buf 0 inb) inb0 tail (f :: r).
  Proof.
    intros Hb Hf E Hi. unfold iter_post, body_phase. rewrite Z.sub_0_r, Hb.
    destruct (Nat.lt_ge_cases (length inb) (length f)) as [Hlt|Hge].
    - left. rewrite (next_short _ _ Hlt), copy_into_nil. cbn [bind Nat.add].
      assert (0 <? length buf = true) as -> by (apply Nat.ltb_lt; lia).
      eexists; eexists. split; [reflexivity|]. unfold R, stuck. cbn [g_buf g_readN g_hdr]. split.
      + split; [reflexivity|]. exists f, r. auto.
      + lia.
    - right.
      destruct (prefix_split inb tail f (stream_of r) E Hge) as [P1 P2].
      rewrite (next_enough _ _ Hf Hge), P1, (copy_into_full buf f Hb). cbn [bind Nat.add].
      rewrite Nat.ltb_irrefl. exists f, r. eexists; eexists. split; [reflexivity|]. split; [reflexivity|].
      cbn [g_buf]. split; [reflexivity|]. split; [exact P2|]. rewrite skipn_length. lia.
  Qed.

  Lemma g_iter_R st inb tail frames :
    Forall good frames -> R st frames (inb ++ tail) -> iter_post (g_iter st inb) inb tail frames.
  Proof.
    intros Hg HR. unfold g_iter, R in *.
    destruct st as [[buf|] readN hdr]; cbn [g_buf g_readN g_hdr] in *.
    - destruct HR as [-> HR]. destruct hdr.
      + (* buffer != nil, readingHdr *)
        destruct HR as [Hb Es]. rewrite Hb. change (Z.of_nat 2 - Z.of_nat 0)%Z with (Z.of_nat 2).
        destruct (Nat.lt_ge_cases (length inb) 2) as [Hlt|Hge].
        * left. rewrite (next_short _ _ Hlt), copy_into_nil. cbn [bind Nat.add Nat.ltb Nat.leb].
          eexists; eexists. split; [reflexivity|]. unfold R, stuck. cbn. auto.
        * destruct frames as [|f r].
          { exfalso. apply (f_equal (@length N)) in Es. rewrite app_length in Es. cbn in Es. lia. }
          inversion Hg as [|? ? [Hf1 Hf2] Hgr]; subst.
          destruct (unit_hd f Hf2) as [a [b [Eu El]]]. rewrite stream_cons, Eu in Es.
          destruct (prefix_split inb tail [a; b] (f ++ stream_of r) Es Hge) as [P1 P2]. cbn [length] in P1, P2.
          rewrite (next_enough 2 inb ltac:(lia) Hge), P1.
          rewrite (copy_into_full buf [a; b] Hb). cbn [bind Nat.add length Nat.ltb Nat.leb]. rewrite El.
          apply body_phase_post; auto using get_buf_len. rewrite skipn_length. lia.
      + (* buffer != nil, reading the body *)
        destruct HR as [f [r [-> [Hb [Hf Es]]]]]. apply body_phase_post; auto.
    - (* buffer == nil *)
      subst. change 2%Z with (Z.of_nat 2).
      destruct (Nat.lt_ge_cases (length inb) 2) as [Hlt|Hge].
      + left. rewrite (next_short _ _ Hlt). cbn [length Nat.ltb Nat.leb]. rewrite copy_into_nil. cbn [bind].
        eexists; eexists. split; [reflexivity|]. unfold R, stuck. cbn. auto.
      + destruct frames as [|f r].
        { exfalso. apply (f_equal (@length N)) in HR. rewrite app_length in HR. cbn in HR. lia. }
        inversion Hg as [|? ? [Hf1 Hf2] Hgr]; subst.
        destruct (unit_hd f Hf2) as [a [b [Eu El]]]. rewrite stream_cons, Eu in HR.
        destruct (prefix_split inb tail [a; b] (f ++ stream_of r) HR Hge) as [P1 P2]. cbn [length] in P1, P2.
        rewrite (next_enough 2 inb ltac:(lia) Hge), P1. change (length [a; b] <? 2) with false. cbv iota.
        unfold u16_hd. cbn [nth]. rewrite El.
        destruct (Nat.lt_ge_cases (length (skipn 2 inb)) (length f)) as [Hlt|Hge2].
        * left. rewrite (next_short _ _ Hlt).
          replace (length (@nil N) <? length f) with true by (symmetry; apply Nat.ltb_lt; cbn [length]; lia).
          rewrite copy_into_nil. cbn [bind].
          eexists; eexists. split; [reflexivity|]. unfold R, stuck. cbn [g_buf g_readN g_hdr]. rewrite get_buf_len. split.
          -- split; [reflexivity|]. exists f, r. auto.
          -- exact Hlt.
        * right. destruct (prefix_split (skipn 2 inb) tail f (stream_of r) P2 Hge2) as [Q1 Q2].
          rewrite (next_enough _ _ Hf1 Hge2), Q1. rewrite Nat.ltb_irrefl.
          exists f, r. eexists; eexists. split; [reflexivity|]. split; [reflexivity|]. cbn [g_buf].
          split; [reflexivity|]. split; [exact Q2|]. rewrite !skipn_length. lia.
  Qed.

  Lemma on_traffic_R : forall fuel st inb tail frames,
    Forall good frames -> R st frames (inb ++ tail) -> length inb < fuel ->
    exists fs st' inb' a, on_traffic ok fuel st inb = Ok (fs, st', inb', a) /\
      ((a = GaNone /\ exists rem, frames = fs ++ rem /\ forallb ok fs = true /\
                                 R st' rem (inb' ++ tail) /\ stuck st' inb') \/
       (a = GaClose /\ exists bad rem, frames = fs ++ bad :: rem /\ forallb ok fs = true /\ ok bad = false)).
  Proof.
    induction fuel as [|fu IH]; intros st inb tail frames Hg HR Hl; [lia|]. cbn [on_traffic].
    destruct (g_iter_R st inb tail frames Hg HR) as [[st' [inb' [E [HR' Hs]]]]|[f [r [st' [inb' [-> [E [Hn [Es Hd]]]]]]]]];
      rewrite E; cbn [bind].
    - exists [], st', inb', GaNone. split; [reflexivity|]. left. split; [reflexivity|]. exists frames. auto.
    - inversion Hg as [|? ? Hgf Hgr]; subst.
      destruct (ok f) eqn:Ef.
      + destruct (0 <? length inb') eqn:Ei.
        * assert (R st' r (inb' ++ tail)) as HR' by (unfold R; rewrite Hn; exact Es).
          destruct (IH st' inb' tail r Hgr HR' ltac:(lia)) as [fs [st2 [inb2 [a [E2 H2]]]]].
          rewrite E2. cbn [bind]. exists (f :: fs), st2, inb2, a. split; [reflexivity|].
          destruct H2 as [[-> [rem [-> [Hok [HR2 Hs2]]]]]|[-> [bad [rem [-> [Hok Hbad]]]]]].
          -- left. split; [reflexivity|]. exists rem. cbn. rewrite Ef, Hok. auto.
          -- right. split; [reflexivity|]. exists bad, rem. cbn. rewrite Ef, Hok. auto.
        * apply Nat.ltb_ge in Ei. assert (inb' = []) as -> by (apply length_zero_nil; lia).
          exists [f], st', [], GaNone. split; [reflexivity|]. left. split; [reflexivity|]. exists r. cbn. rewrite Ef.
          repeat split; auto.
          -- unfold R. rewrite Hn. exact Es.
          -- unfold stuck. now rewrite Hn.
      + exists [], st', inb', GaClose. split; [reflexivity|]. right. split; [reflexivity|]. exists f, r. auto.
  Qed.

  Lemma stuck_end st inb frames : Forall good frames -> R st frames (inb ++ []) -> stuck st inb -> frames = [].
  Proof.
    intros Hg HR Hs. rewrite app_nil_r in HR. unfold R, stuck in *. destruct (g_buf st) as [b|].
    - destruct HR as [_ HR]. destruct (g_hdr st).
      + destruct HR as [_ ->]. now apply stream_short.
      + destruct HR as [f [r [-> [Hb [_ ->]]]]]. rewrite app_length in Hs. lia.
    - rewrite Hs in HR. apply stream_short. rewrite <- HR. cbn. lia.
  Qed.

  Lemma gnet_feed_R : forall segs st inb frames,
    Forall good frames -> R st frames (inb ++ concat segs) -> stuck st inb ->
    exists tr, gnet_feed ok st inb segs = Ok (fst (rd_expect ok frames), snd (rd_expect ok frames), tr).
  Proof.
    induction segs as [|s r IH]; intros st inb frames Hg HR Hs.
    - cbn [concat] in HR. rewrite (stuck_end st inb frames Hg HR Hs). cbn. eauto.
    - cbn [gnet_feed]. destruct s as [|x s'].
      + apply IH; auto.
      + set (s := x :: s') in *. cbn [concat] in HR. rewrite app_assoc in HR.
        destruct (on_traffic_R (S (length (inb ++ s))) st (inb ++ s) (concat r) frames Hg HR ltac:(lia))
          as [fs [st' [inb' [a [E H]]]]].
        rewrite E. cbn [bind].
        destruct H as [[-> [rem [-> [Hok [HR' Hs']]]]]|[-> [bad [rem [-> [Hok Hbad]]]]]].
        * assert (Forall good rem) as Hgr by (apply Forall_app in Hg; tauto).
          destruct (IH st' inb' rem Hgr HR' Hs') as [tr Et]. rewrite Et. cbn [bind].
          rewrite (expect_app_ok ok fs rem Hok). cbn [fst snd]. eauto.
        * rewrite (expect_app_bad ok fs bad rem Hok Hbad). cbn [fst snd]. eauto.
  Qed.

  Theorem gnet_decode_once frames segs :
    Forall good frames -> segmentation segs (stream_of frames) ->
    gnet_run ok segs = Ok (rd_expect ok frames).
  Proof.
    unfold segmentation, gnet_run. intros Hg E.
    destruct (gnet_feed_R segs g_init [] frames Hg) as [tr Et].
    - unfold R. cbn. exact E.
    - reflexivity.
    - rewrite Et. cbn. now destruct (rd_expect ok frames).
  Qed.

  (* ---- safety on arbitrary octets ---- *)
  Definition Inv (st : gstate) : Prop :=
    match g_buf st with
    | None => True
    | Some b => g_readN st = 0 /\ if g_hdr st then length b = 2 else 1 <= length b
    end.

  Definition safe_post (res : res giter) (inb0 : list N) : Prop :=
    (exists st' inb', res = Ok (GWait st' inb') /\ Inv st') \/
    (exists m st' inb', res = Ok (GGot m st' inb') /\ g_buf st' = None /\ (length inb' < length inb0 \/ inb' = [])).

  Lemma next_cases n inb :
    (length inb < n /\ gnet_next (Z.of_nat n) inb = ([], inb)) \/
    (n = 0 /\ gnet_next (Z.of_nat n) inb = (inb, [])) \/
    (1 <= n /\ n <= length inb /\ gnet_next (Z.of_nat n) inb = (firstn n inb, skipn n inb)).
  Proof.
    destruct (Nat.lt_ge_cases (length inb) n) as [H|H]; [left; split; auto using next_short|].
    right. destruct n as [|n]; [left; split; auto using next_zero|].
    right. repeat split; try lia. apply next_enough; lia.
  Qed.

  Lemma body_phase_safe buf inb0 inb : length inb <= length inb0 -> safe_post (body_phase buf 0 inb) inb0.
  Proof.
    intros Hi. unfold safe_post, body_phase. rewrite Z.sub_0_r.
    destruct (next_cases (length buf) inb) as [[Hlt ->]|[[Hz ->]|[H1 [H2 ->]]]].
    - left. rewrite copy_into_nil. cbn [bind Nat.add].
      assert (0 <? length buf = true) as -> by (apply Nat.ltb_lt; lia).
      eexists; eexists. split; [reflexivity|]. unfold Inv. cbn. split; [reflexivity|lia].
    - right. apply length_zero_nil in Hz. subst buf. unfold copy_into. cbn.
      eexists; eexists; eexists. split; [reflexivity|]. cbn. auto.
    - right. rewrite copy_into_full by (rewrite firstn_length; lia). cbn [bind Nat.add].
      rewrite firstn_length, Nat.min_l by lia. rewrite Nat.ltb_irrefl.
      eexists; eexists; eexists. split; [reflexivity|]. cbn [g_buf]. split; [reflexivity|].
      left. rewrite skipn_length. lia.
  Qed.

  Lemma g_iter_safe st inb : Inv st -> safe_post (g_iter st inb) inb.
  Proof.
    intros HI. unfold g_iter, Inv in *. destruct st as [[buf|] readN hdr]; cbn [g_buf g_readN g_hdr] in *.
    - destruct HI as [-> HI]. destruct hdr.
      + rewrite HI. change (Z.of_nat 2 - Z.of_nat 0)%Z with (Z.of_nat 2).
        destruct (next_cases 2 inb) as [[Hlt ->]|[[Hz _]|[_ [H2 ->]]]]; [| discriminate |].
        * left. rewrite copy_into_nil. cbn [bind Nat.add Nat.ltb Nat.leb].
          eexists; eexists. split; [reflexivity|]. unfold Inv. cbn. auto.
        * destruct inb as [|a [|b inb2]]; cbn [length] in H2; try lia. cbn [firstn skipn].
          rewrite (copy_into_full buf [a; b] HI). cbn [bind Nat.add length Nat.ltb Nat.leb].
          apply body_phase_safe. cbn [length]. lia.
      + apply body_phase_safe. lia.
    - change 2%Z with (Z.of_nat 2).
      destruct (next_cases 2 inb) as [[Hlt ->]|[[Hz _]|[_ [H2 ->]]]]; [| discriminate |].
      + left. cbn [length Nat.ltb Nat.leb]. rewrite copy_into_nil. cbn [bind].
        eexists; eexists. split; [reflexivity|]. unfold Inv. cbn. auto.
      + destruct inb as [|a [|b inb2]]; cbn [length] in H2; try lia. cbn [firstn skipn].
        change (length [a; b] <? 2) with false. cbv iota.
        set (l := N.to_nat (u16_hd [a; b])).
        destruct (next_cases l inb2) as [[Hlt ->]|[[Hz ->]|[H1 [H3 ->]]]].
        * left. replace (length (@nil N) <? l) with true by (symmetry; apply Nat.ltb_lt; cbn [length]; lia).
          rewrite copy_into_nil. cbn [bind].
          eexists; eexists. split; [reflexivity|]. unfold Inv. cbn [g_buf g_readN g_hdr]. rewrite get_buf_len.
          split; [reflexivity|lia].
        * right. replace (length inb2 <? l) with false by (symmetry; apply Nat.ltb_ge; lia).
          eexists; eexists; eexists. split; [reflexivity|]. cbn [g_buf]. auto.
        * right. rewrite firstn_length, Nat.min_l by lia. rewrite Nat.ltb_irrefl.
          eexists; eexists; eexists. split; [reflexivity|]. cbn [g_buf]. split; [reflexivity|].
          left. rewrite skipn_length. cbn [length]. lia.
  Qed.

  Lemma on_traffic_safe : forall fuel st inb, Inv st -> length inb < fuel ->
    exists fs st' inb' a, on_traffic ok fuel st inb = Ok (fs, st', inb', a) /\ Inv st'.
  Proof.
    induction fuel as [|fu IH]; intros st inb HI Hl; [lia|]. cbn [on_traffic].
    destruct (g_iter_safe st inb HI) as [[st' [inb' [E HI']]]|[m [st' [inb' [E [Hn Hd]]]]]]; rewrite E; cbn [bind].
    - eauto 8.
    - assert (Inv st') as HI' by (unfold Inv; now rewrite Hn).
      destruct (ok m); [|eauto 8].
      destruct (0 <? length inb') eqn:Ei; [|eauto 8].
      apply Nat.ltb_lt in Ei.
      destruct Hd as [Hd | ->]; [|cbn in Ei; lia].
      destruct (IH st' inb' HI' ltac:(lia)) as [fs [st2 [inb2 [a [E2 HI2]]]]]. rewrite E2. cbn [bind]. eauto 8.
  Qed.

  Lemma gnet_feed_safe : forall segs st inb, Inv st ->
    exists fs stt tr, gnet_feed ok st inb segs = Ok (fs, stt, tr).
  Proof.
    induction segs as [|s r IH]; intros st inb HI; cbn [gnet_feed]; [eauto|].
    destruct s as [|x s']; [auto|]. set (s := x :: s').
    destruct (on_traffic_safe (S (length (inb ++ s))) st (inb ++ s) HI ltac:(lia)) as [fs [st' [inb' [a [E HI']]]]].
    rewrite E. cbn [bind]. destruct a; [|eauto].
    destruct (IH st' inb' HI') as [fs2 [stt [tr Et]]]. rewrite Et. cbn [bind]. eauto.
  Qed.

  Theorem gnet_stream_safe segs : exists fs st, gnet_run ok segs = Ok (fs, st).
  Proof.
    unfold gnet_run. destruct (gnet_feed_safe segs g_init [] I) as [fs [stt [tr E]]]. rewrite E. cbn. eauto.
  Qed.
End Gnet.

(* ================================================================== (c) writers *)
Lemma parse_units_stream : forall frames fuel, Forall fits frames -> length frames <= fuel ->
  parse_units fuel (stream_of frames) = Some frames.
Proof.
  induction frames as [|f r IH]; intros fuel Hf Hl; [destruct fuel; reflexivity|].
  inversion Hf as [|? ? Hff Hfr]; subst. destruct (unit_hd f Hff) as [a [b [Eu El]]].
  rewrite stream_cons, Eu. destruct fuel as [|fu]; [cbn in Hl; lia|]. cbn [app parse_units]. rewrite El.
  assert (length (f ++ stream_of r) <? length f = false) as -> by (apply Nat.ltb_ge; rewrite app_length; lia).
  rewrite skipn_exact, firstn_exact. rewrite IH; auto. cbn in Hl. lia.
Qed.

Theorem parse_stream_units frames : Forall fits frames -> parse_stream (stream_of frames) = Some frames.
Proof. intros H. apply parse_units_stream; auto. apply stream_count. Qed.

(* every reachable state of the writers: the octets written are whole units, in the order of the writes,
   and (written ++ pending) is a rearrangement of the responses started *)
Lemma wreach_inv started st : wreach started st ->
  let '(p, o, w) := st in o = stream_of w /\ Permutation (w ++ p) started.
Proof.
  induction 1 as [|started p o w b H IH|started p1 b p2 o w H IH].
  - split; [reflexivity|constructor].
  - destruct IH as [-> IH]. split; [reflexivity|].
    apply Permutation_sym. apply Permutation_cons_app. now apply Permutation_sym.
  - destruct IH as [-> IH]. split.
    + rewrite stream_app. cbn. now rewrite app_nil_r.
    + rewrite <- app_assoc. cbn [app]. eapply Permutation_trans; [|exact IH].
      apply Permutation_app_head. apply Permutation_middle.
Qed.

Theorem writers_contiguous started p o w :
  wreach started (p, o, w) -> Forall fits started ->
  o = stream_of w /\ Permutation (w ++ p) started /\ parse_stream o = Some w.
Proof.
  intros H Hf. destruct (wreach_inv _ _ H) as [-> HP]. repeat split; auto.
  apply parse_stream_units.
  assert (Forall fits (w ++ p)) as Hw by (eapply Permutation_Forall; [apply Permutation_sym; exact HP|exact Hf]).
  apply Forall_app in Hw. tauto.
Qed.

(* the executable scheduler is one run of the small-step system *)
Lemma write_sched_reach : forall sched started p o w,
  wreach started (p, o, w) ->
  exists p' w', wreach started (p', write_sched p sched o, w').
Proof.
  induction sched as [|i r IH]; intros started p o w H; cbn [write_sched]; [eauto|].
  destruct (nth_error p i) as [b|] eqn:E; [|eauto].
  apply nth_error_split in E. destruct E as [p1 [p2 [-> <-]]].
  rewrite firstn_exact.
  assert (skipn (S (length p1)) (p1 ++ b :: p2) = p2) as ->.
  { replace (S (length p1)) with (length (p1 ++ [b])) by (rewrite app_length; cbn; lia).
    replace (p1 ++ b :: p2) with ((p1 ++ [b]) ++ p2) by (now rewrite <- app_assoc). apply skipn_exact. }
  eapply IH. apply wr_write. exact H.
Qed.

(* ================================================================== (d) the in-flight counter *)
Section Counter.
  Variable L : nat.

  Definition cinv (st : infl_state) : Prop := infl_n st = length (infl_fl st) /\ infl_n st <= L.

  Lemma remove_one_len q l : 0 < count_nat q l -> length (remove_one q l) = length l - 1.
  Proof.
    induction l as [|x r IH]; cbn; [lia|]. destruct (Nat.eqb x q); cbn; [lia|].
    intros H. rewrite IH by lia. destruct r; cbn in *; lia.
  Qed.

  Lemma count_remove_one q q' l : 0 < count_nat q' l ->
    count_nat q (remove_one q' l) = count_nat q l - (if Nat.eqb q' q then 1 else 0).
  Proof.
    induction l as [|x r IH]; cbn; [lia|]. destruct (Nat.eqb x q') eqn:E.
    - apply Nat.eqb_eq in E. subst x. intros _. destruct (Nat.eqb q' q); lia.
    - intros H. cbn. rewrite IH by lia. destruct (Nat.eqb x q) eqn:E2; [|lia].
      apply Nat.eqb_eq in E2. subst x. rewrite (Nat.eqb_sym q' q), E. lia.
  Qed.

  Lemma cstep_inv st e st' o : cinv st -> infl_step L st e = Some (st', o) -> cinv st'.
  Proof.
    unfold cinv, infl_step. intros [H1 H2]. destruct e as [q|q].
    - destruct (L <? S (infl_n st)) eqn:E; intros X; inversion X; subst; cbn.
      + lia.
      + apply Nat.ltb_ge in E. lia.
    - destruct (0 <? count_nat q (infl_fl st)) eqn:E; [|discriminate]. apply Nat.ltb_lt in E.
      intros X; inversion X; subst; cbn. rewrite remove_one_len by exact E. lia.
  Qed.

  Lemma crun_inv : forall evs st st' o, cinv st -> infl_run L st evs = Some (st', o) -> cinv st'.
  Proof.
    induction evs as [|e r IH]; intros st st' o Hi; cbn.
    - intros X; inversion X; subst; auto.
    - destruct (infl_step L st e) as [[st1 o1]|] eqn:E; [|discriminate].
      destruct (infl_run L st1 r) as [[st2 o2]|] eqn:E2; [|discriminate].
      intros X; inversion X; subst. eapply IH; [|exact E2]. eapply cstep_inv; eauto.
  Qed.

  Lemma cinit_inv : cinv infl_init.
  Proof. unfold cinv. cbn. lia. Qed.

  (* beyond the limit: REFUSED at once, and the state (counter included) is unchanged *)
  Lemma over_limit_refused st q : L < infl_n st + 1 -> infl_step L st (InflArrive q) = Some (st, [InflRefused q]).
  Proof.
    intros H. unfold infl_step. assert (L <? S (infl_n st) = true) as -> by (apply Nat.ltb_lt; lia).
    destruct st as [n fl]. cbn. repeat f_equal. lia.
  Qed.

  Lemma within_limit_accepted st q : infl_n st + 1 <= L ->
    infl_step L st (InflArrive q) = Some (mkInfl (S (infl_n st)) (q :: infl_fl st), [InflAccepted q]).
  Proof.
    intros H. unfold infl_step. assert (L <? S (infl_n st) = false) as -> by (apply Nat.ltb_ge; lia). reflexivity.
  Qed.

  (* bookkeeping: arrivals = refused + answered + still running, per query *)
  Definition n_arrive (q : nat) (evs : list infl_ev) : nat :=
    length (filter (fun e => match e with InflArrive x => Nat.eqb x q | _ => false end) evs).
  Definition n_refused (q : nat) (outs : list infl_out) : nat :=
    length (filter (fun o => match o with InflRefused x => Nat.eqb x q | _ => false end) outs).
  Definition n_answer (q : nat) (outs : list infl_out) : nat :=
    length (filter (fun o => match o with InflAnswer x => Nat.eqb x q | _ => false end) outs).

  Lemma cstep_account q st e st' o : infl_step L st e = Some (st', o) ->
    count_nat q (infl_fl st) + n_arrive q [e] = n_refused q o + n_answer q o + count_nat q (infl_fl st').
  Proof.
    unfold infl_step, n_arrive, n_refused, n_answer. destruct e as [x|x].
    - destruct (L <? S (infl_n st)); intros X; inversion X; subst; cbn; destruct (Nat.eqb x q); cbn; lia.
    - destruct (0 <? count_nat x (infl_fl st)) eqn:E; [|discriminate]. apply Nat.ltb_lt in E.
      intros X; inversion X; subst; cbn. rewrite (count_remove_one q x _ E).
      destruct (Nat.eqb x q) eqn:E2; cbn; [|lia]. apply Nat.eqb_eq in E2. subst. lia.
  Qed.

  Lemma crun_account q : forall evs st st' o, infl_run L st evs = Some (st', o) ->
    count_nat q (infl_fl st) + n_arrive q evs = n_refused q o + n_answer q o + count_nat q (infl_fl st').
  Proof.
    induction evs as [|e r IH]; intros st st' o; cbn [infl_run].
    - intros X; inversion X; subst. cbn. lia.
    - destruct (infl_step L st e) as [[st1 o1]|] eqn:E; [|discriminate].
      destruct (infl_run L st1 r) as [[st2 o2]|] eqn:E2; [|discriminate].
      intros X; inversion X; subst.
      pose proof (cstep_account q _ _ _ _ E) as A1. pose proof (IH _ _ _ E2) as A2.
      unfold n_arrive, n_refused, n_answer in *. rewrite !filter_app, !app_length.
      change (e :: r) with ([e] ++ r). rewrite filter_app, app_length. lia.
  Qed.
End Counter.
