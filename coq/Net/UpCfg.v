(* Net/UpCfg.v — model of the ROUTER's mapping "upstream config entry -> upstream"  (app/router/upstream.go
   router.initUpstream  followed by  internal/upstream/upstream.go NewUpstream):

     UpstreamConfig{Tag, Addr, DialAddr, Tls{CA, Cert, Key, InsecureSkipVerify}}
        --initUpstream-->   upstream.Opt{DialAddr, TLSConfig}           (upc_init_opt)
        --NewUpstream--->   transport: endpoint (Net/Addr.v) + the tls.Config its handshakes use   (upc_new_upstream)

   initUpstream calls makeTlsConfig(&cfg.Tls, false) for EVERY upstream, whatever the scheme of Addr, and hands the
   result to NewUpstream as Opt.TLSConfig; cfg.DialAddr is handed over as Opt.DialAddr untouched.  NewUpstream parses
   the scheme (url.Parse lower-cases it; helper schemes tcp+pipeline / tls+pipeline / h3 / doq) and, on the TLS based
   transports (tls, https, h3, quic/doq), uses Opt.TLSConfig — or new(tls.Config) (system roots, no client
   certificate, verification on) when Opt.TLSConfig is nil.
   Executable definitions only; proofs in Net/UpCfgProofs.v. *)
From Mos Require Import Base.Prelude Net.Addr Net.TlsCfg.

Local Open Scope N_scope.

(* one entry of `upstreams:` as far as C17 is concerned *)
Record upc_config := {
  upc_tag : list N;
  upc_addr : list N;            (* addr: [protocol://]host[:port][/path] *)
  upc_dial_addr : list N;       (* dial_addr: (empty = not configured) *)
  upc_tls : tls_opts            (* tls: {ca, cert, key, insecure_skip_verify} *)
}.

(* the upstream.Opt fields that decide whom the upstream reaches and how it authenticates it *)
Record upc_opt := {
  uo_dial_addr : list N;              (* Opt.DialAddr *)
  uo_tls : option tls_config          (* Opt.TLSConfig (None = nil) *)
}.

(* router.initUpstream up to the call of NewUpstream, on a router that has no upstream with that tag yet *)
Definition upc_init_opt (c : upc_config) : res upc_opt :=
  match upc_tag c with
  | [] => Err EOther                                    (* missing tag *)
  | _ :: _ =>
    match upc_addr c with
    | [] => Err EOther                                  (* missing addr *)
    | _ :: _ =>
      match make_tls_config (upc_tls c) false with      (* for every scheme *)
      | Ok t => Ok {| uo_dial_addr := upc_dial_addr c; uo_tls := Some t |}
      | _ => Err EOther                                 (* failed to init tls config *)
      end
    end
  end.

(* new(tls.Config): what crypto/tls does with a zero Config — system roots, verification on, no certificate *)
Definition upc_default_tls : tls_config :=
  {| c_insecure := false; c_roots := SystemRoots; c_has_cert := false;
     c_client_auth := NoClientCert; c_client_cas := None |}.

Record upc_upstream := {
  uu_ep : endpoint;                   (* whom it reaches: Net/Addr.v *)
  uu_tls : option tls_config          (* the tls.Config of its handshakes; None on the plain transports *)
}.

(* NewUpstream(addr, opt) *)
Definition upc_new_upstream (addr : list N) (o : upc_opt) : res upc_upstream :=
  match endpoint_of addr (uo_dial_addr o) with
  | Ok ep =>
    Ok {| uu_ep := ep;
          uu_tls := if uses_tls (ep_scheme ep)
                    then Some (match uo_tls o with Some t => t | None => upc_default_tls end)
                    else None |}
  | Err e => Err e
  | Panic => Panic
  | OutOfFuel => OutOfFuel
  end.

(* initUpstream *)
Definition upc_init_upstream (c : upc_config) : res upc_upstream :=
  match upc_init_opt c with
  | Ok o => upc_new_upstream (upc_addr c) o
  | Err e => Err e
  | Panic => Panic
  | OutOfFuel => OutOfFuel
  end.

Section UpcHandshake.
  Variable cert : Type.
  Variable chains_to : ca_pool -> cert -> bool.
  Variable name_matches : cert -> list N -> bool.
  Variable time_valid : cert -> bool.

  (* an exchange through the upstream that the router builds from [c] can proceed, the peer presenting [peer]:
     plain transports do not authenticate; TLS based ones complete their handshake first *)
  Definition upc_exchange_ok (c : upc_config) (peer : option cert) : bool :=
    match upc_init_upstream c with
    | Ok u =>
      match uu_tls u with
      | None => true
      | Some t =>
        match ep_sni (uu_ep u) with
        | Some sni => client_accepts cert chains_to name_matches time_valid t sni peer
        | None => false
        end
      end
    | _ => false
    end.
End UpcHandshake.

(* ---- the instance run by the correspondence check (kind upcfg) ---- *)
Definition upc_tag_u : list N := [117].     (* "u" *)

(* None = the upstream does not start;  Some (ok, tls based, dial target):  ok = an exchange with a server presenting
   [peer] (and demanding a client certificate iff [srvreq]) gets its answer *)
Definition upc_case (addr da : list N) (o : tls_opts) (peer : option cert_kind) (srvreq : bool)
  : option (bool * bool * list N) :=
  match upc_init_upstream {| upc_tag := upc_tag_u; upc_addr := addr; upc_dial_addr := da; upc_tls := o |} with
  | Ok u =>
    Some (match uu_tls u with
          | None => true
          | Some t => client_accepts cert_kind ck_chains ck_name ck_time t [] peer
                      && (negb srvreq || c_has_cert t)
          end,
          match uu_tls u with Some _ => true | None => false end,
          ep_dial (uu_ep u))
  | _ => None
  end.
