(* Net/OutageProofs.v — proofs about Net/Outage.v and about the shared dialing call of QuicTransport
   (Net/Shutdown.v Part 5) that C14 needs: a dialing call occupies t.dialingCall only while its dial is in flight. *)
From Mos Require Import Base.Prelude Net.Exchange Net.ExchangeProofs Net.Shutdown Net.ShutdownProofs Net.Outage.

(* t.dialingCall points at a call whose DialContext is still running or has just returned (the critical section of
   runDialingCall not yet executed): never at a finished call *)
Definition og_slot_ok (s : sdq_state) : Prop :=
  forall d, sq_call s = Some d ->
            exists dd, nth_error (sq_calls s) d = Some dd /\ qd_inflight (qd_stage dd) = true.

Lemma og_slot_init : og_slot_ok sdq_init.
Proof. intros d H. discriminate. Qed.

Ltac og_break H :=
  repeat match type of H with
  | context [match ?x with _ => _ end] => destruct x eqn:?; try discriminate
  end.

Lemma og_slot_same s s' :
  og_slot_ok s -> sq_call s' = sq_call s -> sq_calls s' = sq_calls s -> og_slot_ok s'.
Proof. intros I A B d H. rewrite A in H. rewrite B. exact (I d H). Qed.

Lemma og_slot_io_fail s t k f : og_slot_ok s -> og_slot_ok (sdq_io_fail s t k f).
Proof.
  intros I. unfold sdq_io_fail. destruct (qt_res k); [|destruct (negb f && (qt_retry k <? 5))];
    (eapply og_slot_same; [exact I|reflexivity|reflexivity]).
Qed.

Lemma og_slot_set_call_inflight s d x :
  og_slot_ok s -> qd_inflight (qd_stage x) = true -> og_slot_ok (sdq_set_call s d x).
Proof.
  intros I Hx d0 H. cbn in *. destruct (I _ H) as (dd & E & F).
  rewrite nth_error_upd. destruct (Nat.eqb_spec d d0) as [->|Hne]; cbn [andb].
  - assert (L : d0 < length (sq_calls s)) by (apply nth_error_Some; congruence).
    apply Nat.ltb_lt in L. rewrite L. exists x. split; [reflexivity|exact Hx].
  - exists dd. split; assumption.
Qed.

Lemma og_slot_end_other s d dd x calls' :
  og_slot_ok s -> nth_error (sq_calls s) d = Some dd -> qd_inflight (qd_stage dd) = false ->
  calls' = upd (sq_calls s) d x ->
  forall s', sq_call s' = sq_call s -> sq_calls s' = calls' -> og_slot_ok s'.
Proof.
  intros I E F -> s' A B d0 H. rewrite A in H. rewrite B. destruct (I _ H) as (dd0 & E0 & F0).
  assert (d <> d0) by (intros ->; congruence).
  exists dd0. split; [|exact F0]. rewrite nth_error_upd_neq by assumption. exact E0.
Qed.

Theorem og_slot_step s l s' : og_slot_ok s -> sdq_step s l = Some s' -> og_slot_ok s'.
Proof.
  intros I H. destruct l; cbn [sdq_step] in H.
  - (* SqSpawn *) inversion H; subst s'. eapply og_slot_same; [exact I|reflexivity|reflexivity].
  - (* SqGet *)
    og_break H; inversion H; subst s'; clear H;
      try (eapply og_slot_same; [exact I|reflexivity|reflexivity]).
    all: intros d0 Hd; cbn in *; inversion Hd; subst d0.
    all: try (match goal with Hc : sq_call _ = Some _ |- _ => exact (I _ Hc) end).
    all: try (rewrite nth_error_app2 by lia; rewrite Nat.sub_diag; cbn; eexists; split; reflexivity).
  - (* SqDialOk *)
    og_break H; inversion H; subst s'. apply og_slot_set_call_inflight; [exact I|reflexivity].
  - (* SqDialFail *)
    og_break H; inversion H; subst s'. apply og_slot_set_call_inflight; [exact I|reflexivity].
  - (* SqFinish *)
    og_break H; inversion H; subst s'; intros d0 Hd; cbn in Hd; discriminate.
  - (* SqNotify *)
    og_break H; inversion H; subst s'; clear H.
    all: eapply (og_slot_end_other s d q); [exact I|eassumption| |reflexivity|reflexivity|reflexivity].
    all: match goal with Hs : qd_stage _ = _ |- _ => rewrite Hs end; reflexivity.
  - (* SqWake *)
    og_break H; inversion H; subst s'; (eapply og_slot_same; [exact I|reflexivity|reflexivity]).
  - (* SqIoOk *)
    og_break H; inversion H; subst s'; (eapply og_slot_same; [exact I|reflexivity|reflexivity]).
  - (* SqIoClosed *)
    og_break H; inversion H; subst s'; apply og_slot_io_fail; exact I.
  - (* SqIoPeerErr *)
    og_break H; inversion H; subst s'; apply og_slot_io_fail; exact I.
  - (* SqPeerDead *)
    og_break H; inversion H; subst s'; (eapply og_slot_same; [exact I|reflexivity|reflexivity]).
  - (* SqCancel *)
    og_break H; inversion H; subst s'; (eapply og_slot_same; [exact I|reflexivity|reflexivity]).
  - (* SqClose *)
    og_break H; inversion H; subst s'; (eapply og_slot_same; [exact I|reflexivity|reflexivity]).
Qed.

Lemma og_slot_run ls : forall s s', og_slot_ok s -> sdq_run s ls = Some s' -> og_slot_ok s'.
Proof.
  induction ls as [|l ls IH]; intros s s' I H; cbn in H; [inversion H; subst; exact I|].
  destruct (sdq_step s l) as [s1|] eqn:E; [|discriminate]. eapply IH; [|exact H]. eapply og_slot_step; eauto.
Qed.

Theorem og_slot_reachable ls s : sdq_run sdq_init ls = Some s -> og_slot_ok s.
Proof. apply og_slot_run. apply og_slot_init. Qed.

(* the critical section of runDialingCall clears t.dialingCall whether the dial succeeded or failed *)
Theorem og_finish_clears s d s' : sdq_step s (SqFinish d) = Some s' -> sq_call s' = None.
Proof. intros H. cbn [sdq_step] in H. og_break H; inversion H; subst s'; reflexivity. Qed.

(* getConn leaves the existing calls alone *)
Lemma og_get_calls s t s' d dd :
  sdq_step s (SqGet t) = Some s' -> nth_error (sq_calls s) d = Some dd -> nth_error (sq_calls s') d = Some dd.
Proof.
  intros H E. cbn [sdq_step] in H. og_break H; inversion H; subst s'; clear H; cbn; try exact E.
  all: unfold sdq_set_task; cbn; try exact E.
  all: rewrite nth_error_app1; [exact E|apply nth_error_Some; congruence].
Qed.

(* an exchange that getConn parks on a dialing call is parked on the call in t.dialingCall *)
Lemma og_get_wait_slot s t s' k d :
  sdq_step s (SqGet t) = Some s' -> nth_error (sq_tasks s') t = Some k -> qt_stage k = QsWait d ->
  sq_call s' = Some d.
Proof.
  intros H E W. cbn [sdq_step] in H. destruct (nth_error (sq_tasks s) t) as [q|] eqn:Eq; [|discriminate].
  assert (L : t < length (sq_tasks s)) by (apply nth_error_Some; congruence).
  og_break H; inversion H; subst s'; clear H; cbn in *.
  all: rewrite nth_error_upd_eq in E by exact L; inversion E; subst k; cbn in W; try discriminate.
  all: inversion W; subst; try reflexivity; try assumption.
Qed.

Lemma og_step_run1 s l s' : sdq_step s l = Some s' -> sdq_run s [l] = Some s'.
Proof. intros H. cbn. now rewrite H. Qed.

(* getConn joins a dialing call only while its dial is in flight: the call has not published a result *)
Theorem og_join_only_inflight ls s t s' k d :
  sdq_run sdq_init ls = Some s -> sdq_step s (SqGet t) = Some s' ->
  nth_error (sq_tasks s') t = Some k -> qt_stage k = QsWait d ->
  exists dd, nth_error (sq_calls s') d = Some dd /\ qd_inflight (qd_stage dd) = true /\ qd_result dd = None.
Proof.
  intros R H E W.
  assert (R' : sdq_run sdq_init (ls ++ [SqGet t]) = Some s')
    by (rewrite (sdq_run_app _ _ _ _ R); apply og_step_run1; exact H).
  pose proof (og_slot_reachable _ _ R') as I. pose proof (sdq_reachable_inv _ _ R') as Q.
  destruct (I _ (og_get_wait_slot _ _ _ _ _ H E W)) as (dd & Ed & F).
  exists dd. repeat split; try assumption.
  pose proof (q_calls _ Q) as FA. rewrite Forall_forall in FA.
  destruct (FA dd (nth_error_In _ _ Ed)) as (_ & B & _). apply B. intros Hs. rewrite Hs in F. discriminate.
Qed.

(* once the critical section of a dialing call has run (its dial succeeded OR failed) no getConn ever joins it *)
Theorem og_finished_never_joined ls s d dd t s' k :
  sdq_run sdq_init ls = Some s ->
  nth_error (sq_calls s) d = Some dd -> qd_inflight (qd_stage dd) = false ->
  sdq_step s (SqGet t) = Some s' -> nth_error (sq_tasks s') t = Some k -> qt_stage k <> QsWait d.
Proof.
  intros R E F H Ek W. destruct (og_join_only_inflight _ _ _ _ _ _ R H Ek W) as (dd' & E' & F' & _).
  rewrite (og_get_calls _ _ _ _ _ H E) in E'. inversion E'; subst dd'. congruence.
Qed.

Lemma og_io_fail_calls s t k f : sq_calls (sdq_io_fail s t k f) = sq_calls s.
Proof. unfold sdq_io_fail. destruct (qt_res k); [|destruct (negb f && (qt_retry k <? 5))]; reflexivity. Qed.

(* ... and "finished" is stable: a call whose critical section has run never becomes in-flight again *)
Lemma og_not_inflight_step s l s' d dd :
  sdq_step s l = Some s' -> nth_error (sq_calls s) d = Some dd -> qd_inflight (qd_stage dd) = false ->
  exists dd', nth_error (sq_calls s') d = Some dd' /\ qd_inflight (qd_stage dd') = false.
Proof.
  intros H E F.
  assert (L : d < length (sq_calls s)) by (apply nth_error_Some; congruence).
  destruct l; cbn [sdq_step] in H.
  all: og_break H; inversion H; subst s'; clear H; cbn.
  all: try (exists dd; split; [exact E|exact F]).
  all: try (rewrite og_io_fail_calls; exists dd; split; [exact E|exact F]).
  all: try (exists dd; split; [rewrite nth_error_app1 by exact L; exact E|exact F]).
  all: rewrite nth_error_upd;
       match goal with |- context [(?a =? ?b) && _] => destruct (Nat.eqb_spec a b) as [->|Hne]; cbn [andb] end;
       try (exists dd; split; [exact E|exact F]).
  all: try (match goal with Hq : nth_error (sq_calls _) _ = Some ?q, Hs : qd_stage ?q = _ |- _ =>
              rewrite E in Hq; inversion Hq; subst q; rewrite Hs in F; discriminate end).
  all: apply Nat.ltb_lt in L; rewrite L; eexists; split; reflexivity.
Qed.

Theorem og_finished_stays_finished ls : forall s s' d dd,
  sdq_run s ls = Some s' -> nth_error (sq_calls s) d = Some dd -> qd_inflight (qd_stage dd) = false ->
  exists dd', nth_error (sq_calls s') d = Some dd' /\ qd_inflight (qd_stage dd') = false.
Proof.
  induction ls as [|l ls IH]; intros s s' d dd H E F; cbn in H; [inversion H; subst; eauto|].
  destruct (sdq_step s l) as [s1|] eqn:S1; [|discriminate].
  destruct (og_not_inflight_step _ _ _ _ _ S1 E F) as (dd1 & E1 & F1). eapply IH; eauto.
Qed.

(* ---- after a failed (or any finished) dial the next exchange dials again and, the server being healthy, succeeds ----
   From ANY state the transport can be in with t.dialingCall empty, no usable cached connection and not closed (in
   particular: right after the critical section of a dialing call whose dial failed), a new exchange starts a NEW
   dialing call; when that dial succeeds and the stream I/O works the exchange returns the reply. *)
Lemma og_nth_app_len {A} (l : list A) x : nth_error (l ++ [x]) (length l) = Some x.
Proof. rewrite nth_error_app2 by lia. rewrite Nat.sub_diag. reflexivity. Qed.

Lemma og_upd_app_len {A} (l : list A) x y : upd (l ++ [x]) (length l) y = l ++ [y].
Proof. induction l as [|z l IH]; cbn; [reflexivity|]. f_equal. exact IH. Qed.

Definition og_redial_path (s : sdq_state) : list sdq_label :=
  let t := length (sq_tasks s) in
  let d := length (sq_calls s) in
  [SqSpawn; SqGet t; SqDialOk d; SqFinish d; SqNotify d; SqWake t; SqIoOk t].

Theorem og_redial_recovers s :
  sq_closed s = false -> sq_call s = None ->
  (forall c, sq_cache s = Some c -> sdq_conn_open s c = false) ->
  exists s', sdq_run s (og_redial_path s) = Some s' /\
             sdq_result s' (length (sq_tasks s)) = Some true /\
             length (sq_calls s') = S (length (sq_calls s)) /\
             sq_call s' = None.
Proof.
  intros C L A. unfold og_redial_path.
  destruct s as [cl cache call conns calls tasks]. cbn in C, L, A. subst cl call. cbn [sq_tasks sq_calls].
  set (t := length tasks). set (d := length calls). set (c := length conns).
  pose (mk := fun cache call conns cl tk => {| sq_closed := false; sq_cache := cache; sq_call := call; sq_conns := conns;
                                             sq_calls := calls ++ [cl]; sq_tasks := tasks ++ [tk] |}).
  pose (s1 := {| sq_closed := false; sq_cache := cache; sq_call := None; sq_conns := conns; sq_calls := calls;
                 sq_tasks := tasks ++ [{| qt_stage := QsStart; qt_res := None; qt_retry := 0 |}] |}).
  pose (s2 := mk None (Some d) conns {| qd_stage := QdDialing; qd_result := None |} {| qt_stage := QsWait d; qt_res := None; qt_retry := 0 |}).
  pose (s3 := mk None (Some d) conns {| qd_stage := QdGot true; qd_result := None |} {| qt_stage := QsWait d; qt_res := None; qt_retry := 0 |}).
  pose (s4 := mk (Some c) None (conns ++ [{| qc_open := true |}]) {| qd_stage := QdReady (Some c); qd_result := None |} {| qt_stage := QsWait d; qt_res := None; qt_retry := 0 |}).
  pose (s5 := mk (Some c) None (conns ++ [{| qc_open := true |}]) {| qd_stage := QdEnd; qd_result := Some (Some c) |} {| qt_stage := QsWait d; qt_res := None; qt_retry := 0 |}).
  pose (s6 := mk (Some c) None (conns ++ [{| qc_open := true |}]) {| qd_stage := QdEnd; qd_result := Some (Some c) |} {| qt_stage := QsHas c true; qt_res := None; qt_retry := 0 |}).
  pose (s7 := mk (Some c) None (conns ++ [{| qc_open := true |}]) {| qd_stage := QdEnd; qd_result := Some (Some c) |} {| qt_stage := QsDone; qt_res := Some true; qt_retry := 0 |}).
  assert (E1 : sdq_step {| sq_closed := false; sq_cache := cache; sq_call := None; sq_conns := conns; sq_calls := calls; sq_tasks := tasks |} SqSpawn = Some s1) by reflexivity.
  assert (E2 : sdq_step s1 (SqGet t) = Some s2).
  { unfold s1, s2, mk, t, d. cbn. rewrite og_nth_app_len. cbn.
    assert (G : match cache with Some c0 => sdq_conn_open {| sq_closed := false; sq_cache := cache; sq_call := None; sq_conns := conns;
                    sq_calls := calls; sq_tasks := tasks ++ [{| qt_stage := QsStart; qt_res := None; qt_retry := 0 |}] |} c0 | None => false end = false).
    { destruct cache as [c0|]; [|reflexivity]. specialize (A c0 eq_refl). unfold sdq_conn_open in *. cbn in *. exact A. }
    destruct cache as [c0|]; [rewrite G|]; rewrite og_upd_app_len; reflexivity. }
  assert (E3 : sdq_step s2 (SqDialOk d) = Some s3).
  { unfold s2, s3, mk, d. cbn. rewrite og_nth_app_len. cbn. unfold sdq_set_call. cbn. rewrite og_upd_app_len. reflexivity. }
  assert (E4 : sdq_step s3 (SqFinish d) = Some s4).
  { unfold s3, s4, mk, d, c. cbn. rewrite og_nth_app_len. cbn. rewrite og_upd_app_len. reflexivity. }
  assert (E5 : sdq_step s4 (SqNotify d) = Some s5).
  { unfold s4, s5, mk, d. cbn. rewrite og_nth_app_len. cbn. unfold sdq_set_call. cbn. rewrite og_upd_app_len. reflexivity. }
  assert (E6 : sdq_step s5 (SqWake t) = Some s6).
  { unfold s5, s6, mk, t, d. cbn. rewrite og_nth_app_len. cbn. rewrite og_nth_app_len. cbn. unfold sdq_set_task. cbn. rewrite og_upd_app_len. reflexivity. }
  assert (E7 : sdq_step s6 (SqIoOk t) = Some s7).
  { unfold s6, s7, mk, t, c. cbn. rewrite og_nth_app_len. cbn. unfold sdq_conn_open. cbn. rewrite og_nth_app_len. cbn.
    unfold sdq_set_task. cbn. rewrite og_upd_app_len. reflexivity. }
  exists s7. split.
  - cbn [sdq_run]. rewrite E1, E2, E3, E4, E5, E6, E7. reflexivity.
  - unfold s7, mk, sdq_result. cbn. fold t. unfold t. rewrite og_nth_app_len. cbn. repeat split. rewrite app_length. cbn. lia.
Qed.

(* the critical section of a dialing call whose dial FAILED leaves exactly the state [og_redial_recovers] starts from *)
Theorem og_failed_dial_leaves_clean_slot s d dd s' :
  nth_error (sq_calls s) d = Some dd -> qd_stage dd = QdGot false -> sq_closed s = false ->
  sdq_step s (SqFinish d) = Some s' ->
  sq_closed s' = false /\ sq_call s' = None /\ sq_cache s' = None /\ sq_tasks s' = sq_tasks s /\
  length (sq_calls s') = length (sq_calls s).
Proof.
  intros E S C H. cbn [sdq_step] in H. rewrite E, S, C in H. inversion H; subst s'. cbn.
  repeat split. apply upd_length.
Qed.

Theorem og_dial_fails_once_then_recovers s d dd :
  nth_error (sq_calls s) d = Some dd -> qd_stage dd = QdGot false -> sq_closed s = false ->
  exists s1 s', sdq_step s (SqFinish d) = Some s1 /\
                sdq_run s1 (og_redial_path s1) = Some s' /\
                sdq_result s' (length (sq_tasks s)) = Some true /\
                length (sq_calls s') = S (length (sq_calls s)).
Proof.
  intros E S C.
  assert (exists s1, sdq_step s (SqFinish d) = Some s1) as [s1 H1].
  { cbn [sdq_step]. rewrite E, S, C. eexists. reflexivity. }
  destruct (og_failed_dial_leaves_clean_slot _ _ _ _ E S C H1) as (C1 & L1 & K1 & T1 & N1).
  destruct (og_redial_recovers s1 C1 L1) as (s' & R & Res & Len & _).
  { intros c Hc. congruence. }
  exists s1, s'. rewrite <- T1, <- N1. repeat split; assumption.
Qed.

(* ---- the scenarios of the harness, exhaustively over the generated parameter ranges ---- *)
Definition og_grid_quic : bool :=
  forallb (fun warm => forallb (fun hang => forallb (fun conc => forallb (fun after =>
    match og_session TQuic false true hang warm OgRefuse conc after with
    | Some e => og_spec (og_nd_known TQuic hang) after e
    | None => false
    end) (seq 0 5)) (seq 1 8)) [false; true]) (seq 0 3).

Definition og_grid_pooled : bool :=
  forallb (fun tkudp => forallb (fun hs => forallb (fun warm => forallb (fun d => forallb (fun conc => forallb (fun after =>
    match d, fst tkudp with
    | OgRwFail, TDoH => true       (* not a scenario of the harness: net/http owns the connections *)
    | _, _ =>
      match og_session (fst tkudp) (snd tkudp) hs false warm d conc after with
      | Some e => og_spec (og_nd_known (fst tkudp) false) after e
      | None => false
      end
    end) (seq 0 5)) [1; 2; 8; 32]) [OgRefuse; OgHsFail; OgRwFail]) (seq 0 8)) [false; true])
  [(TPipe, false); (TPipe, true); (TReuse, false); (TDoH, false)].

Theorem og_sessions_recover : og_grid_quic = true /\ og_grid_pooled = true.
Proof. split; vm_compute; reflexivity. Qed.

(* any number of stale idle connections left over by the outage: the one-at-a-time transport still recovers *)
Theorem og_reuse_recovers_any_left n warm f conc after :
  oe_after (og_pooled_session TReuse false warm n f conc (S after)) = repeat (Some true) (S after) /\
  oe_newdials (og_pooled_session TReuse false warm n f conc (S after)) = 1.
Proof.
  assert (E : abs_pool TReuse false (repeat SIdleFin n) = repeat FDie n).
  { induction n as [|m IH]; cbn; [reflexivity|]. rewrite IH. reflexivity. }
  assert (A0 : run_case TReuse false (repeat SIdleFin n) [] = Some (mkOut RReply 1 (S (Nat.min n 6)) false)).
  { unfold run_case. cbn [map]. rewrite E. apply script_many_stale_survived. }
  assert (A1 : run_case TReuse false [SOk] [] = Some (mkOut RReply 0 1 false)) by (vm_compute; reflexivity).
  unfold og_pooled_session. cbn [oe_after oe_newdials]. rewrite A0, A1. cbn [og_class og_ndials o_class o_dials].
  split; [reflexivity|]. rewrite Nat.mul_0_r. reflexivity.
Qed.

(* ---- sensitivity: the slot not cleared on a failed dial ---- *)
Theorem og_uncleared_slot_is_joined_for_ever :
  (* the code: the second exchange starts a second dialing call *)
  (exists s, sdq_run sdq_init og_refused_once = Some s /\ length (sq_calls s) = 2 /\ sq_call s = Some 1) /\
  (* without the clearing: it joins the finished call (no dial) and takes its stale error *)
  (exists s s', og_keep_run sdq_init og_refused_once = Some s /\ length (sq_calls s) = 1 /\ sq_call s = Some 0 /\
                (exists dd, nth_error (sq_calls s) 0 = Some dd /\ qd_inflight (qd_stage dd) = false) /\
                og_keep_run s [SqWake 1] = Some s' /\ sdq_result s' 1 = Some false).
Proof.
  split.
  - eexists. split; [vm_compute; reflexivity|]. split; reflexivity.
  - eexists. eexists. split; [vm_compute; reflexivity|]. split; [reflexivity|]. split; [reflexivity|].
    split; [eexists; split; reflexivity|]. split; vm_compute; reflexivity.
Qed.

Theorem og_finished_never_joined_later ls ls' s s1 d dd t s' k :
  sdq_run sdq_init ls = Some s ->
  nth_error (sq_calls s) d = Some dd -> qd_inflight (qd_stage dd) = false ->
  sdq_run s ls' = Some s1 ->
  sdq_step s1 (SqGet t) = Some s' -> nth_error (sq_tasks s') t = Some k -> qt_stage k <> QsWait d.
Proof.
  intros R E F R1 H Ek.
  destruct (og_finished_stays_finished _ _ _ _ _ R1 E F) as (dd1 & E1 & F1).
  apply (og_finished_never_joined (ls ++ ls') s1 d dd1 t s' k); auto.
  rewrite (sdq_run_app _ _ _ _ R). exact R1.
Qed.

Theorem og_slot_only_inflight ls s d :
  sdq_run sdq_init ls = Some s -> sq_call s = Some d ->
  exists dd, nth_error (sq_calls s) d = Some dd /\ qd_inflight (qd_stage dd) = true.
Proof. intros R. exact (og_slot_reachable ls s R d). Qed.
