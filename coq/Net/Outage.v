(* Net/Outage.v — a SEQUENCE of exchanges of one transport across a server outage (C14, round 2).

   The harness scenario (harness/cmd/implrun/c14b.go, kind "outage"):
     1. [warm] exchanges succeed; their connections are pooled.
     2. the server drops every connection and refuses / fails every handshake / (scripted) hands out connections
        whose Write and Read both fail; [conc] exchanges are made meanwhile.
     3. the server is back, healthy; [after] exchanges follow one after the other, each with a new deadline.

   What is carried from one exchange to the next is the transport's connection state: the pool (pipelined, reuse) or
   the cached connection plus the shared dialing call (QUIC).  For the pooled transports each exchange is one run of
   the exchange LTS of Net/Exchange.v ([run_case]) from the pool the previous exchanges left behind.  For QUIC the
   whole sequence is ONE execution of the shared-dial LTS of Net/Shutdown.v Part 5 ([sdq_step]: getConn /
   runDialingCall / dialingQuicCall.wait), so that what a finished dialing call leaves in t.dialingCall is part of
   the state the next exchange starts from.
   No proofs in this file. *)
From Mos Require Import Base.Prelude Net.Exchange Net.Shutdown.

Record og_expect := mkOgE {
  oe_burst : list (option bool);    (* per exchange of the outage: Some true = reply, Some false = error, None = pending *)
  oe_after : list (option bool);    (* per exchange after the recovery *)
  oe_newdials : nat                 (* dials started after the recovery *)
}.

Definition og_class (o : option xoutcome) : option bool :=
  match o with
  | Some r => Some (match o_class r with RReply => true | RErr => false end)
  | None => None
  end.
Definition og_ndials (o : option xoutcome) : nat := match o with Some r => o_dials r | None => 0 end.

(* ---- pooled transports: every exchange is a run of the exchange LTS ----
   [f] is what a connection dialled during the outage meets; the connections pooled before are stale (closed by the
   server while idle).  After the recovery the first exchange meets what is left of the stale connections ([left])
   and a healthy server, the following ones the connection pooled by their predecessor. *)
Definition og_pooled_session (tk : tkind) (udp : bool) (warm left : nat) (f : sfault) (conc after : nat) : og_expect :=
  let b := run_case tk udp (repeat SIdleFin warm) [f] in
  let a0 := run_case tk udp (repeat SIdleFin left) [] in     (* an empty dial script = every dial meets a healthy server *)
  let a1 := run_case tk udp [SOk] [] in
  mkOgE (repeat (og_class b) conc)
        (match after with 0 => [] | S n => og_class a0 :: repeat (og_class a1) n end)
        (match after with 0 => 0 | S n => og_ndials a0 + n * og_ndials a1 end).

(* ---- QUIC: one execution of the shared-dial LTS ---- *)
Fixpoint og_bigs (s : sdq_state) (es : list xev) : option sdq_state :=
  match es with
  | [] => Some s
  | e :: tl => match sdq_big true s e with Some s' => og_bigs s' tl | None => None end
  end.

(* [hang]: the dial of the outage neither succeeds nor fails before the exchanges give up (packets vanish): they
   are cancelled by their deadlines, the call stays in flight and completes once the server is back. *)
Definition og_quic_events (warm hang : bool) (conc after : nat) : list xev :=
  let d := if warm then 1 else 0 in      (* index of the dialing call of the outage = first task of the burst *)
  (if warm then [XSpawn; XDialOk 0; XReply 0; XIdle] else []) ++
  repeat XSpawn conc ++
  (if hang then map (fun i => XCancel (d + i)) (seq 0 conc) else [XDialFail d]) ++
  flat_map (fun i => XSpawn :: (if i =? 0 then [XDialOk (if hang then d else S d)] else []) ++ [XReply (d + conc + i)])
           (seq 0 after).

Definition og_quic_session (warm hang : bool) (conc after : nat) : option og_expect :=
  let d := if warm then 1 else 0 in
  match og_bigs sdq_init (og_quic_events warm hang conc after) with
  | Some s =>
      Some (mkOgE (map (fun i => sdq_result s (d + i)) (seq 0 conc))
                  (map (fun i => sdq_result s (d + conc + i)) (seq 0 after))
                  (length (sq_calls s) - S d))
  | None => None
  end.

(* what the outage does to a new connection, per transport flavour of the harness *)
Inductive og_down := OgRefuse | OgHsFail | OgRwFail.

(* [hs]: dialling includes a handshake (TLS, QUIC) whose failure is a dial error; plain TCP / DoH see the accepted
   connection closed before the query is read *)
Definition og_fault (tk : tkind) (hs : bool) (d : og_down) : sfault :=
  match d with
  | OgRefuse => SRefuse
  | OgHsFail => match tk with TDoH => SEarlyFin | _ => if hs then SRefuse else SEarlyFin end
  | OgRwFail => SWriteErr
  end.

Definition og_session (tk : tkind) (udp hs hang : bool) (warm : nat) (d : og_down) (conc after : nat) : option og_expect :=
  match tk with
  | TQuic => og_quic_session (0 <? warm) hang conc after
  | _ => Some (og_pooled_session tk udp warm 0 (og_fault tk hs d) conc after)
  end.

Definition og_all (v : bool) (l : list (option bool)) : bool :=
  forallb (fun x => match x with Some b => Bool.eqb b v | None => false end) l.

(* the property's expectation for the scenario: every exchange of the outage fails (the server is down), every
   exchange after the recovery gets its reply, and a dial was needed for that (nothing usable was left) *)
Definition og_spec (nd_known : bool) (after : nat) (e : og_expect) : bool :=
  og_all false (oe_burst e) && og_all true (oe_after e) &&
  (match after with 0 => true | _ => if nd_known then oe_newdials e =? 1 else true end).

(* dials are not observable at this level for DoH (net/http owns the connections), and none is needed after an
   outage during which the dial stayed in flight *)
Definition og_nd_known (tk : tkind) (hang : bool) : bool :=
  match tk with TDoH => false | TQuic => negb hang | _ => true end.

(* ---- sensitivity: a dialing call that is NOT cleared when its dial fails ----
   [og_keep_step] is [sdq_step] except that the critical section of runDialingCall leaves t.dialingCall pointing at
   the call when the dial failed (an early return before `t.dialingCall = nil`). *)
Definition og_keep_step (s : sdq_state) (l : sdq_label) : option sdq_state :=
  match l, sdq_step s l with
  | SqFinish d, Some s' =>
      match nth_error (sq_calls s) d with
      | Some dd => match qd_stage dd with
                   | QdGot false =>
                       if sq_closed s then Some s'
                       else Some {| sq_closed := sq_closed s'; sq_cache := sq_cache s'; sq_call := Some d;
                                    sq_conns := sq_conns s'; sq_calls := sq_calls s'; sq_tasks := sq_tasks s' |}
                   | _ => Some s'
                   end
      | None => Some s'
      end
  | _, r => r
  end.

Fixpoint og_keep_run (s : sdq_state) (ls : list sdq_label) : option sdq_state :=
  match ls with
  | [] => Some s
  | l :: tl => match og_keep_step s l with Some s' => og_keep_run s' tl | None => None end
  end.

(* first dial refused, then a second exchange against the healthy server *)
Definition og_refused_once : list sdq_label :=
  [SqSpawn; SqGet 0; SqDialFail 0; SqFinish 0; SqNotify 0; SqWake 0; SqSpawn; SqGet 1].
