(* Net/UpCfgProofs.v — proofs about Net/UpCfg.v (the router's config entry -> upstream mapping) and about the
   letter-case variants of the scheme spellings NewUpstream accepts (url.Parse lower-cases the scheme). *)
From Mos Require Import Base.Prelude Net.Addr Net.TlsCfg Net.AddrProofs Net.UpCfg.
From Coq Require Import Lia.

Local Open Scope N_scope.

(* ------------------------------------------------------------------ scheme spellings, any letter case *)

(* [st] is a spelling of the table entry [k]: its lower-cased text is one of the ten scheme texts *)
Definition scheme_spelling (st : list N) (k : scheme * bool * bool) : Prop :=
  In (map to_lower st, k) scheme_table.

Lemma to_lower_colon x : (ch_colon =? to_lower x) = (ch_colon =? x).
Proof.
  unfold to_lower, is_upper, ch_colon. destruct (65 <=? x) eqn:A; cbn [andb]; [|reflexivity].
  destruct (x <=? 90) eqn:B; [|reflexivity].
  apply N.leb_le in A. apply N.leb_le in B.
  transitivity false; [|symmetry]; apply N.eqb_neq; lia.
Qed.

Lemma has_colon_lower s : has_byte ch_colon (map to_lower s) = has_byte ch_colon s.
Proof.
  induction s as [|x t IH]; [reflexivity|].
  cbn [map]. rewrite !has_byte_cons, to_lower_colon, IH. reflexivity.
Qed.

Lemma sch_first_lower x :
  is_lower (to_lower x) || is_upper (to_lower x) = true -> is_lower x || is_upper x = true.
Proof.
  unfold to_lower. destruct (is_upper x) eqn:E; [intros _; apply orb_true_r|].
  rewrite E. trivial.
Qed.

Definition sch_rest_char (x : N) : bool :=
  is_lower x || is_upper x || is_digit x || (x =? 43) || (x =? ch_dash) || (x =? ch_dot).

Lemma sch_rest_lower x : sch_rest_char (to_lower x) = true -> sch_rest_char x = true.
Proof.
  unfold sch_rest_char, to_lower. destruct (is_upper x) eqn:E; [intros _|rewrite E; trivial].
  destruct (is_lower x); reflexivity.
Qed.

Lemma forallb_map_back (P : N -> bool) (f : N -> N) s :
  (forall x, P (f x) = true -> P x = true) -> forallb P (map f s) = true -> forallb P s = true.
Proof.
  intros Hf. induction s as [|x t IH]; [trivial|].
  cbn [map forallb]. intros H. apply andb_true_iff in H. destruct H as [H1 H2].
  rewrite (Hf _ H1), (IH H2). reflexivity.
Qed.

Lemma scheme_chars_lower st : scheme_chars_ok (map to_lower st) = true -> scheme_chars_ok st = true.
Proof.
  destruct st as [|c t]; [trivial|]. cbn [map scheme_chars_ok]. intros H.
  apply andb_true_iff in H. destruct H as [H1 H2].
  rewrite (sch_first_lower _ H1). cbn [andb].
  exact (forallb_map_back sch_rest_char to_lower t sch_rest_lower H2).
Qed.

Lemma spelling_facts st k : scheme_spelling st k ->
  has_byte ch_colon st = false /\ scheme_chars_ok st = true /\ parse_scheme st = Some k.
Proof.
  unfold scheme_spelling, parse_scheme. intros Hin.
  assert (has_byte ch_colon (map to_lower st) = false /\ scheme_chars_ok (map to_lower st) = true /\
          assoc_str (map to_lower st) scheme_table = Some k) as (A & B & C).
  { remember (map to_lower st) as t eqn:Ht. clear Ht. cbn in Hin.
    repeat (destruct Hin as [Hin|Hin]; [inversion Hin; subst; repeat split; reflexivity|]).
    contradiction. }
  rewrite has_colon_lower in A. split; [exact A|]. split; [exact (scheme_chars_lower _ B)|exact C].
Qed.

(* an exact (lower-case) table text is a spelling of its entry *)
Lemma spelling_of_entry st k : In (st, k) scheme_table -> scheme_spelling st k.
Proof.
  unfold scheme_spelling. intros Hin. cbn in Hin.
  repeat (destruct Hin as [Hin|Hin]; [inversion Hin; subst; cbn; tauto|]).
  contradiction.
Qed.

(* NewUpstream on ANY letter-case spelling of an accepted scheme *)
Lemma endpoint_of_spelling st k h p path d :
  scheme_spelling st k ->
  wf_host h = true -> wf_port_opt p = true -> wf_path path = true ->
  endpoint_of (url_of (Some st) h p path) d =
  Ok (endpoint_core (fst (fst k)) (snd (fst k)) (snd k) (authority h p) d).
Proof.
  intros Hsp W Wp Wpath.
  destruct (authority_other_free h p W Wp) as (_ & Fs & Fq & Fh).
  pose proof (authority_host_ok h p W Wp) as Hok.
  destruct (spelling_facts st k Hsp) as (Hc & Hsc & Hps).
  unfold url_of, endpoint_of.
  rewrite (cut_sep_app _ _ Hc), Hsc, Hps. cbn [negb].
  destruct k as [[sc pl] h3]. cbn [fst snd].
  rewrite (url_host_app _ _ Fs Fq Fh Wpath), Hok. reflexivity.
Qed.

(* the letter case of the scheme is immaterial: every theorem about the ten table texts carries over *)
Lemma scheme_case_insensitive st k h p path d :
  scheme_spelling st k ->
  wf_host h = true -> wf_port_opt p = true -> wf_path path = true ->
  endpoint_of (url_of (Some st) h p path) d = endpoint_of (url_of (Some (map to_lower st)) h p path) d.
Proof.
  intros Hsp W Wp Wpath.
  rewrite (endpoint_of_spelling st k h p path d Hsp W Wp Wpath).
  symmetry. apply (endpoint_of_scheme (map to_lower st) k h p path d Hsp W Wp Wpath).
Qed.

(* ------------------------------------------------------------------ initUpstream *)

Lemma make_tls_client_ok o :
  (o_verify_client o = true -> o_ca o = true) ->
  make_tls_config o false =
    Ok {| c_insecure := o_insecure o;
          c_roots := if o_ca o then ConfiguredCA else SystemRoots;
          c_has_cert := o_cert_key o;
          c_client_auth := if o_verify_client o then RequireAndVerifyClientCert else NoClientCert;
          c_client_cas := if o_verify_client o then Some ConfiguredCA else None |}.
Proof.
  intros H. unfold make_tls_config. cbn [andb].
  destruct (o_verify_client o) eqn:Hv; cbn [andb]; [|reflexivity].
  rewrite (H eq_refl). reflexivity.
Qed.

(* what the mapping hands over, for ANY config entry the router accepts *)
Lemma upc_mapping c u :
  upc_init_upstream c = Ok u ->
  endpoint_of (upc_addr c) (upc_dial_addr c) = Ok (uu_ep u) /\
  (uses_tls (ep_scheme (uu_ep u)) = false -> uu_tls u = None) /\
  (uses_tls (ep_scheme (uu_ep u)) = true ->
     exists t, uu_tls u = Some t /\ make_tls_config (upc_tls c) false = Ok t /\
       c_insecure t = o_insecure (upc_tls c) /\
       c_roots t = (if o_ca (upc_tls c) then ConfiguredCA else SystemRoots) /\
       c_has_cert t = o_cert_key (upc_tls c)).
Proof.
  unfold upc_init_upstream, upc_init_opt.
  destruct (upc_tag c) as [|t0 tg]; [discriminate|].
  destruct (upc_addr c) as [|a0 ad] eqn:Ha; [discriminate|].
  destruct (make_tls_config (upc_tls c) false) as [t| | |] eqn:Hm; try discriminate.
  unfold upc_new_upstream. cbn [uo_dial_addr uo_tls].
  destruct (endpoint_of (a0 :: ad) (upc_dial_addr c)) as [ep| | |] eqn:He; try discriminate.
  intros H. inversion H; subst u; clear H. cbn [uu_ep uu_tls].
  split; [reflexivity|]. split.
  - intros E. rewrite E. reflexivity.
  - intros E. rewrite E. exists t. split; [reflexivity|]. split; [reflexivity|].
    destruct (tls_config_fields _ _ _ Hm) as (A & B & C & _). auto.
Qed.

Lemma upc_init_upstream_eq tag addr da o t :
  tag <> [] -> addr <> [] -> make_tls_config o false = Ok t ->
  upc_init_upstream {| upc_tag := tag; upc_addr := addr; upc_dial_addr := da; upc_tls := o |} =
  upc_new_upstream addr {| uo_dial_addr := da; uo_tls := Some t |}.
Proof.
  intros Ht Ha Hm. unfold upc_init_upstream, upc_init_opt. cbn [upc_tag upc_addr upc_dial_addr upc_tls].
  destruct tag; [congruence|]. destruct addr; [congruence|]. rewrite Hm. reflexivity.
Qed.

Lemma url_of_scheme_nonempty st h p path : scheme_chars_ok st = true -> url_of (Some st) h p path <> [].
Proof. destruct st; [discriminate|]. intros _. cbn. discriminate. Qed.

(* the upstream built from a config entry of the grammar, any spelling of any accepted scheme, any dial_addr *)
Lemma upc_init_spelling st k h p path tag da o :
  scheme_spelling st k -> wf_path path = true -> wf_host h = true -> wf_port_opt p = true ->
  tag <> [] -> (o_verify_client o = true -> o_ca o = true) ->
  let sc := fst (fst k) in
  exists t,
    make_tls_config o false = Ok t /\
    upc_init_upstream {| upc_tag := tag; upc_addr := url_of (Some st) h p path; upc_dial_addr := da; upc_tls := o |} =
    Ok {| uu_ep := endpoint_core sc (snd (fst k)) (snd k) (authority h p) da;
          uu_tls := if uses_tls sc then Some t else None |}.
Proof.
  intros Hsp Wpath W Wp Ht Hv sc.
  destruct (spelling_facts st k Hsp) as (_ & Hsc & _).
  eexists. split; [apply (make_tls_client_ok o Hv)|].
  rewrite (upc_init_upstream_eq tag _ da o _ Ht (url_of_scheme_nonempty st h p path Hsc) (make_tls_client_ok o Hv)).
  unfold upc_new_upstream. cbn [uo_dial_addr uo_tls].
  rewrite (endpoint_of_spelling st k h p path da Hsp W Wp Wpath).
  rewrite endpoint_core_scheme. reflexivity.
Qed.

Section UpcTls.
  Variable cert : Type.
  Variable chains_to : ca_pool -> cert -> bool.
  Variable name_matches : cert -> list N -> bool.
  Variable time_valid : cert -> bool.

  (* EVERY spelling of EVERY TLS based scheme: the exchange decision is x509 verification against exactly the
     configured CA (system roots iff none is configured) with the URL host as server name, unless
     insecure_skip_verify — whatever dial_addr is *)
  Lemma upc_every_tls_spelling st k h p path tag da o peer :
    scheme_spelling st k -> uses_tls (fst (fst k)) = true ->
    wf_path path = true -> wf_host h = true -> wf_port_opt p = true ->
    tag <> [] -> (o_verify_client o = true -> o_ca o = true) ->
    upc_exchange_ok cert chains_to name_matches time_valid
      {| upc_tag := tag; upc_addr := url_of (Some st) h p path; upc_dial_addr := da; upc_tls := o |} peer =
    match peer with
    | None => false
    | Some c => o_insecure o ||
                (chains_to (if o_ca o then ConfiguredCA else SystemRoots) c && time_valid c &&
                 name_matches c (host_name h))
    end.
  Proof.
    intros Hsp Htls Wpath W Wp Ht Hv.
    destruct (upc_init_spelling st k h p path tag da o Hsp Wpath W Wp Ht Hv) as (t & Hm & Hu).
    unfold upc_exchange_ok. rewrite Hu. cbn [uu_tls uu_ep]. rewrite Htls.
    unfold endpoint_core. cbn [ep_sni]. rewrite Htls.
    destruct (url_host_facts h p (default_port (fst (fst k))) W Wp) as [_ Hs]. rewrite Hs.
    rewrite (make_tls_client_ok o Hv) in Hm. inversion Hm; subst t; clear Hm.
    unfold client_accepts. cbn [c_insecure c_roots]. reflexivity.
  Qed.

  (* plain transports: no tls.Config at all — the TLS options of the entry are not used *)
  Lemma upc_plain_spelling st k h p path tag da o peer :
    scheme_spelling st k -> uses_tls (fst (fst k)) = false ->
    wf_path path = true -> wf_host h = true -> wf_port_opt p = true ->
    tag <> [] -> (o_verify_client o = true -> o_ca o = true) ->
    upc_exchange_ok cert chains_to name_matches time_valid
      {| upc_tag := tag; upc_addr := url_of (Some st) h p path; upc_dial_addr := da; upc_tls := o |} peer = true.
  Proof.
    intros Hsp Htls Wpath W Wp Ht Hv.
    destruct (upc_init_spelling st k h p path tag da o Hsp Wpath W Wp Ht Hv) as (t & Hm & Hu).
    unfold upc_exchange_ok. rewrite Hu. cbn [uu_tls uu_ep]. rewrite Htls. reflexivity.
  Qed.
End UpcTls.

(* dial_addr of the config entry reaches every socket of the upstream, unchanged: any spelling, any scheme *)
Lemma upc_dial_addr_override st k h p path tag dh dpo o :
  scheme_spelling st k -> wf_path path = true -> wf_host h = true -> wf_port_opt p = true ->
  wf_host dh = true -> wf_port_opt dpo = true ->
  tag <> [] -> (o_verify_client o = true -> o_ca o = true) ->
  let sc := fst (fst k) in let h3 := snd k in
  let target := join_host_port (host_name dh) (port_or_default sc dpo) in
  exists u,
    upc_init_upstream {| upc_tag := tag; upc_addr := url_of (Some st) h p path;
                         upc_dial_addr := dial_text dh dpo; upc_tls := o |} = Ok u /\
    ep_dial (uu_ep u) = target /\
    In (expected_net sc h3, target) (ep_sockets (uu_ep u)) /\
    (forall s, In s (ep_sockets (uu_ep u)) -> snd s = target) /\
    ep_sni (uu_ep u) = (if uses_tls sc then Some (host_name h) else None).
Proof.
  intros Hsp Wpath W Wp Wd Wdp Ht Hv sc h3 target.
  destruct (upc_init_spelling st k h p path tag (dial_text dh dpo) o Hsp Wpath W Wp Ht Hv) as (t & _ & Hu).
  eexists. split; [exact Hu|]. cbn [uu_ep].
  assert (scheme_entry (Some (map to_lower st)) k) as Hse by exact Hsp.
  destruct (all_sockets_override (Some (map to_lower st)) k h p path dh dpo Hse Wpath W Wp Wd Wdp)
    as (ep & He & Hin & _ & Hall).
  destruct (dial_target_override (Some (map to_lower st)) k h p path dh dpo Hse Wpath W Wp Wd Wdp)
    as (ep' & He' & Hd & _ & Hsni & _).
  rewrite He in He'. inversion He'; subst ep'; clear He'.
  cbn [url_of] in He. rewrite (endpoint_of_scheme _ k h p path _ Hsp W Wp Wpath) in He.
  inversion He; subst ep; clear He.
  split; [exact Hd|]. split; [exact Hin|]. split; [|exact Hsni].
  intros s Hs. exact (proj1 (Hall s Hs)).
Qed.

(* no dial_addr configured: every socket goes to the URL's host and port (or the scheme's default) *)
Lemma upc_no_dial_addr st k h p path tag o :
  scheme_spelling st k -> wf_path path = true -> wf_host h = true -> wf_port_opt p = true ->
  tag <> [] -> (o_verify_client o = true -> o_ca o = true) ->
  let sc := fst (fst k) in let h3 := snd k in
  let target := join_host_port (host_name h) (port_or_default sc p) in
  exists u,
    upc_init_upstream {| upc_tag := tag; upc_addr := url_of (Some st) h p path;
                         upc_dial_addr := []; upc_tls := o |} = Ok u /\
    ep_dial (uu_ep u) = target /\
    In (expected_net sc h3, target) (ep_sockets (uu_ep u)) /\
    (forall s, In s (ep_sockets (uu_ep u)) -> snd s = target).
Proof.
  intros Hsp Wpath W Wp Ht Hv sc h3 target.
  destruct (upc_init_spelling st k h p path tag [] o Hsp Wpath W Wp Ht Hv) as (t & _ & Hu).
  eexists. split; [exact Hu|]. cbn [uu_ep].
  assert (scheme_entry (Some (map to_lower st)) k) as Hse by exact Hsp.
  destruct (all_sockets (Some (map to_lower st)) k h p path Hse Wpath W Wp) as (ep & He & Hin & _ & Hall).
  destruct (dial_target (Some (map to_lower st)) k h p path Hse Wpath W Wp) as (ep' & He' & _ & _ & _ & Hd & _).
  rewrite He in He'. inversion He'; subst ep'; clear He'.
  cbn [url_of] in He. rewrite (endpoint_of_scheme _ k h p path _ Hsp W Wp Wpath) in He.
  inversion He; subst ep; clear He.
  split; [exact Hd|]. split; [exact Hin|].
  intros s Hs. exact (proj1 (Hall s Hs)).
Qed.

(* a broken start-up refuses every exchange: nothing is sent when the entry is rejected *)
Lemma upc_not_started (cert : Type) (chains_to : ca_pool -> cert -> bool)
    (name_matches : cert -> list N -> bool) (time_valid : cert -> bool) c peer :
  is_ok (upc_init_upstream c) = false ->
  upc_exchange_ok cert chains_to name_matches time_valid c peer = false.
Proof.
  unfold upc_exchange_ok. destruct (upc_init_upstream c); [discriminate|reflexivity..].
Qed.

(* ------------------------------------------------------------------ round 4: the HTTP Host / :authority *)

(* default ports are ports of the grammar: "the default port written out" is inside every theorem's hypotheses *)
Lemma default_port_wf sc : wf_port (default_port sc) = true.
Proof. destruct sc; reflexivity. Qed.

(* For EVERY spelling x every address of the grammar (IPv6 literal with any port — the scheme's default included) x
   ANY dial_addr: the Host of a DoH upstream is the URL authority exactly as written, brackets and port included;
   the other transports have none; the TLS server name is the bare host. *)
Lemma http_host_any st k h p path d :
  scheme_spelling st k -> wf_path path = true -> wf_host h = true -> wf_port_opt p = true ->
  let sc := fst (fst k) in
  exists ep, endpoint_of (url_of (Some st) h p path) d = Ok ep /\
    ep_host ep = (if uses_http sc then Some (authority h p) else None) /\
    ep_sni ep = (if uses_tls sc then Some (host_name h) else None).
Proof.
  intros Hsp Wpath W Wp sc. eexists. split; [apply (endpoint_of_spelling st k h p path d Hsp W Wp Wpath)|].
  unfold endpoint_core. cbn [ep_host ep_sni].
  destruct (url_host_facts h p (default_port (fst (fst k))) W Wp) as [_ Hs]. rewrite Hs. split; reflexivity.
Qed.

(* ... in particular with the scheme's default port written out: it stays in the Host *)
Lemma http_host_default_port st k h path d :
  scheme_spelling st k -> uses_http (fst (fst k)) = true -> wf_path path = true -> wf_host h = true ->
  let sc := fst (fst k) in
  exists ep, endpoint_of (url_of (Some st) h (Some (default_port sc)) path) d = Ok ep /\
    ep_host ep = Some (host_text h ++ ch_colon :: default_port sc).
Proof.
  intros Hsp Hh Wpath W sc.
  destruct (http_host_any st k h (Some (default_port sc)) path d Hsp Wpath W (default_port_wf sc)) as (ep & He & Hho & _).
  exists ep. split; [exact He|]. subst sc. cbv zeta in Hho. rewrite Hho, Hh. reflexivity.
Qed.

(* ... and the same through the router's mapping (initUpstream) *)
Lemma upc_http_host st k h p path tag da o :
  scheme_spelling st k -> wf_path path = true -> wf_host h = true -> wf_port_opt p = true ->
  tag <> [] -> (o_verify_client o = true -> o_ca o = true) ->
  let sc := fst (fst k) in
  exists u,
    upc_init_upstream {| upc_tag := tag; upc_addr := url_of (Some st) h p path; upc_dial_addr := da; upc_tls := o |} = Ok u /\
    ep_host (uu_ep u) = (if uses_http sc then Some (authority h p) else None).
Proof.
  intros Hsp Wpath W Wp Ht Hv sc.
  destruct (upc_init_spelling st k h p path tag da o Hsp Wpath W Wp Ht Hv) as (t & _ & Hu).
  eexists. split; [exact Hu|]. reflexivity.
Qed.
