(* Net/ShutdownProofs.v — invariants of the close-race transition systems of Net/Shutdown.v (C18).
   Everything is proved for ALL reachable states, i.e. for every interleaving of any number of
   dials, exchanges, releases, idle timers, cancellations and Close calls. *)
From Mos Require Import Base.Prelude Net.Shutdown.

(* ---------- list update ---------- *)
Lemma upd_length {A} (l : list A) i x : length (upd l i x) = length l.
Proof. revert i. induction l as [|y l IH]; intros [|i]; cbn; auto. Qed.

Lemma nth_error_upd_eq {A} (l : list A) i x : i < length l -> nth_error (upd l i x) i = Some x.
Proof. revert i. induction l as [|y l IH]; intros [|i] H; cbn in *; try lia; auto. apply IH. lia. Qed.

Lemma nth_error_upd_neq {A} (l : list A) i j x : i <> j -> nth_error (upd l i x) j = nth_error l j.
Proof. revert i j. induction l as [|y l IH]; intros [|i] [|j] H; cbn; auto; try congruence. Qed.

Lemma upd_out {A} (l : list A) j x : length l <= j -> upd l j x = l.
Proof. revert j. induction l as [|y l IH]; intros [|j] H; cbn in *; auto; try lia. f_equal. apply IH. lia. Qed.

Lemma nth_error_upd {A} (l : list A) i j x :
  nth_error (upd l i x) j = if (i =? j) && (i <? length l) then Some x else nth_error l j.
Proof.
  destruct (Nat.eqb_spec i j) as [->|Hne].
  - destruct (Nat.ltb_spec j (length l)) as [H|H]; cbn [andb].
    + now apply nth_error_upd_eq.
    + now rewrite upd_out.
  - cbn [andb]. now apply nth_error_upd_neq.
Qed.

Lemma Forall_upd {A} (P : A -> Prop) l i x : Forall P l -> P x -> Forall P (upd l i x).
Proof.
  revert i. induction l as [|y l IH]; intros [|i] H Hx; cbn; auto; inversion H; subst; constructor; auto.
Qed.

Lemma Forall_snoc {A} (P : A -> Prop) l x : Forall P l -> P x -> Forall P (l ++ [x]).
Proof. intros H Hx. apply Forall_app. split; [exact H|constructor; [exact Hx|constructor]]. Qed.

Lemma nth_error_some_lt {A} (l : list A) i x : nth_error l i = Some x -> i < length l.
Proof. intros H. apply nth_error_Some. congruence. Qed.

Lemma nth_error_nth' {A} (l : list A) i x d : nth_error l i = Some x -> nth i l d = x.
Proof. apply nth_error_nth. Qed.

Lemma Forall_nth_error {A} (P : A -> Prop) l i x : Forall P l -> nth_error l i = Some x -> P x.
Proof. intros H E. rewrite Forall_forall in H. apply H. eapply nth_error_In; eauto. Qed.

Lemma nth_upd_eq {A} (l : list A) i x d : i < length l -> nth i (upd l i x) d = x.
Proof. intros H. apply nth_error_nth. now apply nth_error_upd_eq. Qed.

Lemma nth_upd_neq {A} (l : list A) i j x d : i <> j -> nth j (upd l i x) d = nth j l d.
Proof.
  intros H. revert i j H. induction l as [|y l IH]; intros [|i] [|j] H; cbn; auto; try congruence.
Qed.

Ltac destr H :=
  repeat match type of H with
         | match ?x with _ => _ end = Some _ => let E := fresh "E" in destruct x eqn:E; try discriminate
         | (if ?x then _ else _) = Some _ => let E := fresh "E" in destruct x eqn:E; try discriminate
         end.

(* =====================================================================================================
   Part 1 — ReuseConnTransport
   ===================================================================================================== *)

Definition cinv (closed : bool) (k : rconn) : Prop :=
  (closed = true -> rc_open k = false) /\
  (rc_open k = true -> rc_tracked k = true) /\
  (rc_dead k = true -> rc_open k = false).

Definition tinv (conns : list rconn) (k : rtask) : Prop :=
  match rt_stage k with
  | RsDeliver (Some c) | RsHas c _ => c < length conns
  | RsRel1 c _ => c < length conns /\ rt_res k <> None
  | RsRel2 c err => c < length conns /\ rt_res k <> None /\ (err = true -> rc_open (nth c conns rconn_none) = false)
  | RsDone => rt_res k <> None
  | _ => True
  end.

Definition RInv (s : rstate) : Prop :=
  Forall (cinv (rs_closed s)) (rs_conns s) /\ Forall (tinv (rs_conns s)) (rs_tasks s).

(* conns' extends conns and no connection re-opens *)
Definition conns_le (a b : list rconn) : Prop :=
  length a <= length b /\
  forall c, c < length a -> rc_open (nth c b rconn_none) = true -> rc_open (nth c a rconn_none) = true.

Lemma conns_le_refl a : conns_le a a.
Proof. split; auto. Qed.

Lemma conns_le_snoc a k : conns_le a (a ++ [k]).
Proof. split; [rewrite app_length; lia|]. intros c H. now rewrite app_nth1. Qed.

Lemma conns_le_upd a c kc k' :
  nth_error a c = Some kc -> (rc_open k' = true -> rc_open kc = true) -> conns_le a (upd a c k').
Proof.
  intros E H. split; [now rewrite upd_length|]. intros j Hj.
  destruct (Nat.eq_dec c j) as [->|Hne].
  - rewrite nth_upd_eq by exact Hj. rewrite (nth_error_nth' _ _ _ rconn_none E). exact H.
  - now rewrite nth_upd_neq.
Qed.

Lemma tinv_mono a b k : conns_le a b -> tinv a k -> tinv b k.
Proof.
  intros [Hl Ho]. unfold tinv. destruct (rt_stage k) as [| | |[c|]|c f|c e|c e|]; auto; try lia.
  - intros [H1 H2]. split; [lia|exact H2].
  - intros (H1 & H2 & H3). split; [lia|]. split; [exact H2|]. intros He. specialize (H3 He).
    destruct (rc_open (nth c b rconn_none)) eqn:E; [|reflexivity]. apply Ho in E; [congruence|exact H1].
Qed.

Lemma Forall_tinv_mono a b l : conns_le a b -> Forall (tinv a) l -> Forall (tinv b) l.
Proof. intros H. apply Forall_impl. intros k. now apply tinv_mono. Qed.

Lemma cinv_kill b k : cinv b k -> cinv b (rc_kill k).
Proof. unfold cinv, rc_kill. destruct (rc_dead k); cbn; intuition congruence. Qed.

Lemma cinv_idle_fire b k : cinv b k -> cinv b (rc_idle_fire k).
Proof. unfold cinv, rc_idle_fire. destruct (rc_serving k); cbn; intuition congruence. Qed.

Lemma cinv_netclose k : cinv false k -> cinv true (rc_netclose_if_tracked k).
Proof.
  unfold cinv, rc_netclose_if_tracked. intros (_ & H2 & H3).
  destruct (rc_tracked k) eqn:T; cbn; [intuition congruence|].
  destruct (rc_open k) eqn:O; [specialize (H2 eq_refl); congruence|]. intuition congruence.
Qed.

Lemma cinv_set_keep b k i sv : cinv b k -> cinv b (rc_set k (rc_tracked k) i sv).
Proof. unfold cinv, rc_set. cbn. tauto. Qed.

Lemma cinv_set_closed b k t i sv : cinv b k -> rc_open k = false -> cinv b (rc_set k t i sv).
Proof. unfold cinv, rc_set. cbn. intuition congruence. Qed.

Lemma cinv_set_tracked b k i sv : cinv b k -> cinv b (rc_set k true i sv).
Proof. unfold cinv, rc_set. cbn. tauto. Qed.

Lemma rinit_inv : RInv r_init.
Proof. split; constructor. Qed.

Lemma tinv_task_at s t k : RInv s -> nth_error (rs_tasks s) t = Some k -> tinv (rs_conns s) k.
Proof. intros [_ H] E. eapply Forall_nth_error; eauto. Qed.

Lemma cinv_conn_at s c k : RInv s -> nth_error (rs_conns s) c = Some k -> cinv (rs_closed s) k.
Proof. intros [H _] E. eapply Forall_nth_error; eauto. Qed.

Lemma r_io_fail_inv s t k c fresh :
  RInv s -> nth_error (rs_tasks s) t = Some k -> c < length (rs_conns s) -> RInv (r_io_fail s t k c fresh).
Proof.
  intros [Hc Ht] E Hlt. unfold r_io_fail.
  destruct (rt_res k) eqn:R; [|destruct (negb fresh && (rt_retry k <=? 5))]; split; cbn; auto.
  - apply Forall_upd; auto. unfold tinv; cbn. split; [exact Hlt|congruence].
  - apply Forall_snoc; [apply Forall_upd; auto; exact I|]. unfold tinv; cbn. split; [exact Hlt|congruence].
  - apply Forall_upd; auto. unfold tinv; cbn. split; [exact Hlt|congruence].
Qed.

Theorem r_step_inv s l s' : RInv s -> r_step s l = Some s' -> RInv s'.
Proof.
  intros HI Hs. pose proof HI as [Hc Ht].
  destruct l; cbn in Hs.
  - (* RSpawn *) inversion Hs; subst. split; cbn; auto. apply Forall_snoc; auto. exact I.
  - (* RGetIdle *)
    destruct (nth_error (rs_tasks s) t) as [k|] eqn:Ek; [|discriminate].
    pose proof (tinv_task_at _ _ _ HI Ek) as Tk.
    destruct (rt_stage k) eqn:Sk; try discriminate.
    destruct (rs_closed s) eqn:Cl.
    + inversion Hs; subst. split; cbn; auto. rewrite Cl. auto.
      apply Forall_upd; auto. unfold tinv; cbn. destruct (rt_res k); cbn; congruence.
    + destruct pick as [c|].
      * destruct (nth_error (rs_conns s) c) as [kc|] eqn:Ec; [|discriminate].
        pose proof (cinv_conn_at _ _ _ HI Ec) as Ck. rewrite Cl in Ck.
        destruct (rc_idle kc); [|discriminate].
        destruct (rc_dead kc) eqn:Dk.
        { inversion Hs; subst. split; cbn; rewrite ?Cl.
          - apply Forall_upd; auto. apply cinv_set_closed; auto. apply Ck. exact Dk.
          - eapply Forall_tinv_mono; [|exact Ht]. eapply conns_le_upd; eauto. }
        destruct (rc_open kc) eqn:Ok.
        { inversion Hs; subst. split; cbn; rewrite ?Cl.
          - apply Forall_upd; auto. apply cinv_set_tracked; auto.
          - apply Forall_upd.
            + eapply Forall_tinv_mono; [|exact Ht]. eapply conns_le_upd; eauto.
            + unfold tinv; cbn. rewrite upd_length. eapply nth_error_some_lt; eauto. }
        { inversion Hs; subst. split; cbn; rewrite ?Cl.
          - apply Forall_upd; auto. apply cinv_set_closed; auto.
          - eapply Forall_tinv_mono; [|exact Ht]. eapply conns_le_upd; eauto. }
      * destruct (existsb rc_idle (rs_conns s)); [discriminate|]. inversion Hs; subst.
        split; cbn; rewrite ?Cl; auto. apply Forall_upd; auto. exact I.
  - (* RDialOk *)
    destruct (nth_error (rs_tasks s) t) as [k|] eqn:Ek; [|discriminate].
    destruct (rt_stage k) eqn:Sk; try discriminate. inversion Hs; subst.
    split; cbn; auto. apply Forall_upd; auto. exact I.
  - (* RDialFail *)
    destruct (nth_error (rs_tasks s) t) as [k|] eqn:Ek; [|discriminate].
    destruct (rt_stage k) eqn:Sk; try discriminate. inversion Hs; subst.
    split; cbn; auto. apply Forall_upd; auto. exact I.
  - (* RRegister *)
    destruct (nth_error (rs_tasks s) t) as [k|] eqn:Ek; [|discriminate].
    destruct (rt_stage k) eqn:Sk; try discriminate.
    destruct (rs_closed s) eqn:Cl; inversion Hs; subst; split; cbn; rewrite ?Cl.
    + apply Forall_snoc; auto. unfold cinv, rconn_late; cbn. intuition congruence.
    + apply Forall_upd; [|exact I]. eapply Forall_tinv_mono; [apply conns_le_snoc|exact Ht].
    + apply Forall_snoc; auto. unfold cinv, rconn_new; cbn. intuition congruence.
    + apply Forall_upd; [eapply Forall_tinv_mono; [apply conns_le_snoc|exact Ht]|].
      unfold tinv; cbn. rewrite app_length; cbn. lia.
  - (* RDeliver *)
    destruct (nth_error (rs_tasks s) t) as [k|] eqn:Ek; [|discriminate].
    pose proof (tinv_task_at _ _ _ HI Ek) as Tk.
    destruct (rt_stage k) eqn:Sk; try discriminate. unfold tinv in Tk. rewrite Sk in Tk.
    destruct (rt_res k) eqn:R; destruct c as [c|]; inversion Hs; subst; split; cbn; auto;
      apply Forall_upd; auto; unfold tinv; cbn; try rewrite R; try congruence; try exact Tk.
    split; [exact Tk|congruence].
  - (* RIoOk *)
    destruct (nth_error (rs_tasks s) t) as [k|] eqn:Ek; [|discriminate].
    destruct (rt_stage k) eqn:Sk; try discriminate.
    destruct (nth_error (rs_conns s) c) as [kc|] eqn:Ec; [|discriminate].
    destruct (rc_open kc); [|discriminate]. inversion Hs; subst. split; cbn; auto.
    apply Forall_upd; auto. unfold tinv; cbn. split; [eapply nth_error_some_lt; eauto|].
    destruct (rt_res k); cbn; congruence.
  - (* RIoClosed *)
    destruct (nth_error (rs_tasks s) t) as [k|] eqn:Ek; [|discriminate].
    destruct (rt_stage k) eqn:Sk; try discriminate.
    destruct (nth_error (rs_conns s) c) as [kc|] eqn:Ec; [|discriminate].
    destruct (rc_open kc); [discriminate|]. inversion Hs; subst.
    apply r_io_fail_inv; auto. eapply nth_error_some_lt; eauto.
  - (* RIoPeerErr *)
    destruct (nth_error (rs_tasks s) t) as [k|] eqn:Ek; [|discriminate].
    destruct (rt_stage k) eqn:Sk; try discriminate.
    destruct (nth_error (rs_conns s) c) as [kc|] eqn:Ec; [|discriminate].
    inversion Hs; subst. apply r_io_fail_inv; auto. eapply nth_error_some_lt; eauto.
  - (* RRel1 *)
    destruct (nth_error (rs_tasks s) t) as [k|] eqn:Ek; [|discriminate].
    pose proof (tinv_task_at _ _ _ HI Ek) as Tk.
    destruct (rt_stage k) eqn:Sk; try discriminate. unfold tinv in Tk. rewrite Sk in Tk.
    destruct (nth_error (rs_conns s) c) as [kc|] eqn:Ec; [|discriminate].
    pose proof (cinv_conn_at _ _ _ HI Ec) as Ck.
    pose proof (nth_error_some_lt _ _ _ Ec) as Hlt.
    inversion Hs; subst. split; cbn.
    + apply Forall_upd; auto. destruct err; [now apply cinv_kill|now apply cinv_set_keep].
    + apply Forall_upd.
      * eapply Forall_tinv_mono; [|exact Ht]. eapply conns_le_upd; eauto.
        destruct err; [unfold rc_kill; destruct (rc_dead kc); cbn; congruence|cbn; auto].
      * unfold tinv; cbn. rewrite upd_length. split; [exact Hlt|]. split; [apply Tk|].
        intros ->. rewrite nth_upd_eq by exact Hlt. unfold rc_kill.
        destruct (rc_dead kc) eqn:D; [apply Ck; exact D|reflexivity].
  - (* RRel2 *)
    destruct (nth_error (rs_tasks s) t) as [k|] eqn:Ek; [|discriminate].
    pose proof (tinv_task_at _ _ _ HI Ek) as Tk.
    destruct (rt_stage k) eqn:Sk; try discriminate. unfold tinv in Tk. rewrite Sk in Tk.
    destruct Tk as (Hlt & Hres & Hop).
    destruct (nth_error (rs_conns s) c) as [kc|] eqn:Ec; [|discriminate].
    pose proof (cinv_conn_at _ _ _ HI Ec) as Ck.
    rewrite (nth_error_nth' _ _ _ rconn_none Ec) in Hop.
    inversion Hs; subst. split; cbn.
    + apply Forall_upd; auto.
      destruct (rs_closed s); [destruct err; [exact Ck|now apply cinv_kill]|].
      destruct err; [apply cinv_set_closed; auto|now apply cinv_set_keep].
    + apply Forall_upd.
      * eapply Forall_tinv_mono; [|exact Ht]. eapply conns_le_upd; eauto.
        destruct (rs_closed s); [destruct err; auto; unfold rc_kill; destruct (rc_dead kc); cbn; congruence|].
        destruct err; cbn; auto.
      * unfold tinv; cbn. exact Hres.
  - (* RIdleFire *)
    destruct (nth_error (rs_conns s) c) as [kc|] eqn:Ec; [|discriminate].
    pose proof (cinv_conn_at _ _ _ HI Ec) as Ck.
    inversion Hs; subst. split; cbn.
    + apply Forall_upd; auto. now apply cinv_idle_fire.
    + eapply Forall_tinv_mono; [|exact Ht]. eapply conns_le_upd; eauto.
      unfold rc_idle_fire. destruct (rc_serving kc); cbn; congruence.
  - (* RCancel *)
    destruct (nth_error (rs_tasks s) t) as [k|] eqn:Ek; [|discriminate].
    pose proof (tinv_task_at _ _ _ HI Ek) as Tk.
    inversion Hs; subst. split; cbn; auto. apply Forall_upd; auto.
    unfold tinv in *; cbn. destruct (rt_stage k) as [| | |[c|]|c f|c e|c e|]; auto;
      destruct (rt_res k); cbn; intuition congruence.
  - (* RClose *)
    destruct (rs_closed s) eqn:Cl; inversion Hs; subst; [exact HI|]. split; cbn.
    + apply Forall_map. eapply Forall_impl; [|exact Hc]. intros k. apply cinv_netclose.
    + eapply Forall_tinv_mono; [|exact Ht]. split; [now rewrite map_length|].
      intros c Hlt. change rconn_none with (rc_netclose_if_tracked rconn_none) at 1. rewrite map_nth.
      unfold rc_netclose_if_tracked. destruct (rc_tracked _); cbn; congruence.
Qed.

Theorem r_run_inv ls : forall s s', RInv s -> r_run s ls = Some s' -> RInv s'.
Proof.
  induction ls as [|l ls IH]; intros s s' HI H; cbn in H; [inversion H; subst; exact HI|].
  destruct (r_step s l) as [s1|] eqn:E; [|discriminate]. eapply IH; [|exact H]. eapply r_step_inv; eauto.
Qed.

Theorem r_reachable_inv ls s : r_run r_init ls = Some s -> RInv s.
Proof. apply r_run_inv. exact rinit_inv. Qed.

(* closed is stable *)
Lemma r_io_fail_closed s t k c f : rs_closed (r_io_fail s t k c f) = rs_closed s.
Proof. unfold r_io_fail. destruct (rt_res k); [|destruct (_ && _)]; reflexivity. Qed.

Lemma r_step_closed s l s' : r_step s l = Some s' -> rs_closed s = true -> rs_closed s' = true.
Proof.
  intros Hs Cl. destruct l; cbn in Hs; try rewrite Cl in Hs; destr Hs; inversion Hs; subst; cbn;
    rewrite ?r_io_fail_closed; auto.
Qed.

Lemma r_run_closed ls : forall s s', r_run s ls = Some s' -> rs_closed s = true -> rs_closed s' = true.
Proof.
  induction ls as [|l ls IH]; intros s s' H Cl; cbn in H; [inversion H; subst; exact Cl|].
  destruct (r_step s l) as [s1|] eqn:E; [|discriminate]. eapply IH; eauto. eapply r_step_closed; eauto.
Qed.

(* ---- C18_close_idempotent (reuse) ---- *)
Lemma r_close_total s : exists s', r_step s RClose = Some s' /\ rs_closed s' = true.
Proof. cbn. destruct (rs_closed s) eqn:E; eexists; split; eauto. Qed.

Lemma r_close_idempotent s s' : r_step s RClose = Some s' -> r_step s' RClose = Some s'.
Proof. cbn. destruct (rs_closed s) eqn:E; intros H; inversion H; subst; cbn; [now rewrite E|reflexivity]. Qed.

(* ---- C18_no_leak (reuse) ---- *)
Lemma r_no_leak ls s :
  r_run r_init ls = Some s -> rs_closed s = true -> forall k, In k (rs_conns s) -> rc_open k = false.
Proof.
  intros H Cl k Hin. apply r_reachable_inv in H. destruct H as [Hc _].
  rewrite Forall_forall in Hc. destruct (Hc k Hin) as [H1 _]. apply H1. exact Cl.
Qed.

Lemma filter_none {A} (p : A -> bool) l : (forall x, In x l -> p x = false) -> filter p l = [].
Proof.
  induction l as [|x l IH]; intros H; cbn; [reflexivity|].
  rewrite (H x (or_introl eq_refl)). apply IH. intros y Hy. apply H. now right.
Qed.

(* what a counting dialer sees open after Close = exactly the dials that returned a connection and have not
   yet executed their own completion step *)
Lemma r_open_after_close ls s :
  r_run r_init ls = Some s -> rs_closed s = true ->
  r_open_count s = length (filter is_returned (rs_tasks s)).
Proof.
  intros H Cl. unfold r_open_count. rewrite filter_none; [reflexivity|]. eapply r_no_leak; eauto.
Qed.

(* the completion step of a dial that returns after Close is enabled and closes the connection itself *)
Lemma r_late_dial ls s t k :
  r_run r_init ls = Some s -> rs_closed s = true ->
  nth_error (rs_tasks s) t = Some k -> rt_stage k = RsReturned ->
  exists s', r_step s (RRegister t) = Some s' /\
             rs_conns s' = rs_conns s ++ [rconn_late] /\
             (forall k', In k' (rs_conns s') -> rc_open k' = false) /\
             (exists k', nth_error (rs_tasks s') t = Some k' /\ rt_stage k' = RsDeliver None) /\
             length (filter is_returned (rs_tasks s')) < length (filter is_returned (rs_tasks s)).
Proof.
  intros H Cl Ek Sk. cbn. rewrite Ek, Sk, Cl. eexists. split; [reflexivity|]. cbn.
  split; [reflexivity|]. split.
  - intros k' Hin. apply in_app_iff in Hin. destruct Hin as [Hin|[<-|[]]]; [|reflexivity].
    eapply r_no_leak; eauto.
  - split.
    + eexists. split; [apply nth_error_upd_eq; eapply nth_error_some_lt; eauto|reflexivity].
    + clear H Cl. revert t Ek. generalize (rs_tasks s) as l.
      induction l as [|y l IH]; intros [|t] Ek; cbn in *; try discriminate.
      * inversion Ek; subst. unfold is_returned at 2. rewrite Sk. cbn. lia.
      * specialize (IH t Ek). destruct (is_returned y); cbn; lia.
Qed.

(* ---- C18_fail_not_hang (reuse) ---- *)
Lemma r_new_exchange_fails s :
  rs_closed s = true ->
  exists s', r_run s [RSpawn; RGetIdle (length (rs_tasks s)) None] = Some s' /\
             r_result s' (length (rs_tasks s)) = Some false.
Proof.
  intros Cl. cbn. rewrite nth_error_app2 by lia. rewrite Nat.sub_diag. cbn. rewrite Cl.
  eexists. split; [reflexivity|]. unfold r_result; cbn.
  rewrite nth_error_upd_eq by (rewrite app_length; cbn; lia). reflexivity.
Qed.

(* ---- results of callers ---- *)
Lemma r_result_set_task s t0 x t :
  r_result (rset_task s t0 x) t = if (t0 =? t) && (t0 <? length (rs_tasks s)) then rt_res x else r_result s t.
Proof. unfold r_result; cbn. rewrite nth_error_upd. destruct (_ && _); reflexivity. Qed.

Lemma r_result_add_task s x t :
  t < length (rs_tasks s) -> r_result (radd_task s x) t = r_result s t.
Proof. intros H. unfold r_result; cbn. now rewrite nth_error_app1. Qed.

Lemma r_result_none_lt s t : r_result s t <> None -> t < length (rs_tasks s).
Proof. unfold r_result. destruct (nth_error (rs_tasks s) t) eqn:E; [|congruence]. intros _. eapply nth_error_some_lt; eauto. Qed.

Definition not_true (r : option bool) : Prop := r <> Some true.

(* a step never turns a result that is not [Some true] into [Some true] except RIoOk on an open connection *)
Lemma r_set_task_not_true s t0 x k t :
  nth_error (rs_tasks s) t0 = Some k -> (not_true (rt_res k) -> not_true (rt_res x)) ->
  not_true (r_result s t) -> not_true (r_result (rset_task s t0 x) t).
Proof.
  intros Ek Hx Hr. rewrite r_result_set_task.
  destruct (Nat.eqb_spec t0 t) as [->|]; cbn [andb]; [|exact Hr].
  destruct (t <? length (rs_tasks s)); [|exact Hr]. apply Hx. unfold r_result in Hr. now rewrite Ek in Hr.
Qed.

Lemma r_add_task_not_true s x t :
  not_true (rt_res x) -> not_true (r_result s t) -> not_true (r_result (radd_task s x) t).
Proof.
  intros Hx Hr. unfold r_result in *; cbn.
  destruct (Nat.lt_ge_cases t (length (rs_tasks s))) as [Hlt|Hge].
  - now rewrite nth_error_app1.
  - rewrite nth_error_app2 by exact Hge. destruct (t - length (rs_tasks s)) as [|[|n]]; cbn; auto; unfold not_true; congruence.
Qed.

Lemma r_io_fail_not_true s t0 k c f t :
  nth_error (rs_tasks s) t0 = Some k -> not_true (r_result s t) -> not_true (r_result (r_io_fail s t0 k c f) t).
Proof.
  intros Ek Hr. unfold r_io_fail.
  destruct (rt_res k) eqn:R; [|destruct (negb f && (rt_retry k <=? 5))].
  - eapply r_set_task_not_true; eauto.
  - apply r_add_task_not_true; [unfold not_true; cbn; congruence|].
    eapply r_set_task_not_true; eauto. unfold not_true; cbn; congruence.
  - eapply r_set_task_not_true; eauto. unfold not_true; cbn; congruence.
Qed.

Lemma fail_res_not_true r : not_true r -> not_true (fail_res r).
Proof. unfold not_true. destruct r as [[|]|]; cbn; congruence. Qed.

(* after Close no caller can be handed a reply any more *)
Lemma r_no_success_after_close s l s' t :
  RInv s -> rs_closed s = true -> r_step s l = Some s' ->
  r_result s t <> Some true -> r_result s' t <> Some true.
Proof.
  intros HI Cl Hs Hr. fold (not_true (r_result s t)) in Hr. fold (not_true (r_result s' t)).
  destruct l; cbn in Hs; rewrite ?Cl in Hs.
  - inversion Hs; subst. apply r_add_task_not_true; auto. unfold not_true; cbn; congruence.
  - destr Hs. inversion Hs; subst. eapply r_set_task_not_true; eauto. cbn. apply fail_res_not_true.
  - destr Hs. inversion Hs; subst. eapply r_set_task_not_true; eauto.
  - destr Hs. inversion Hs; subst. eapply r_set_task_not_true; eauto.
  - destr Hs. inversion Hs; subst. eapply (r_set_task_not_true (radd_conn s rconn_late)); eauto.
  - destr Hs; inversion Hs; subst; eapply r_set_task_not_true; eauto; cbn; unfold not_true; congruence.
  - (* RIoOk: the connection would have to be open *)
    destr Hs. exfalso. pose proof (cinv_conn_at _ _ _ HI E1) as (H1 & _). rewrite (H1 Cl) in E2. discriminate.
  - destr Hs. inversion Hs; subst. eapply r_io_fail_not_true; eauto.
  - destr Hs. inversion Hs; subst. eapply r_io_fail_not_true; eauto.
  - destr Hs. inversion Hs; subst.
    match goal with |- not_true (r_result (rset_task (rset_conn ?s0 ?c ?kc) ?t0 ?x) ?t) =>
      apply (r_set_task_not_true (rset_conn s0 c kc) t0 x r t); auto end.
  - destr Hs. inversion Hs; subst.
    match goal with |- not_true (r_result (rset_task (rset_conn ?s0 ?c ?kc) ?t0 ?x) ?t) =>
      apply (r_set_task_not_true (rset_conn s0 c kc) t0 x r t); auto end.
  - destr Hs. inversion Hs; subst. exact Hr.
  - destr Hs. inversion Hs; subst. eapply r_set_task_not_true; eauto. cbn. apply fail_res_not_true.
  - inversion Hs; subst. exact Hr.
Qed.

(* ---- C18_fail_not_hang (reuse): from every reachable closed state, a caller that is still waiting
   reaches an error by the labels of [r_fail_path] (none of which needs the peer or the caller's deadline:
   dial failure = t.ctx cancelled by Close; RIoClosed = the connection was closed locally) ---- *)
Lemma r_result_set_task_eq s t x : t < length (rs_tasks s) -> r_result (rset_task s t x) t = rt_res x.
Proof. intros H. rewrite r_result_set_task, Nat.eqb_refl. apply Nat.ltb_lt in H. now rewrite H. Qed.

Ltac rfin := rewrite r_result_set_task_eq;
  [cbn; try reflexivity | cbn; rewrite ?app_length, ?upd_length; cbn; lia].

Lemma r_fail_not_hang s t k :
  RInv s -> rs_closed s = true -> nth_error (rs_tasks s) t = Some k -> rt_res k = None ->
  exists s', r_run s (r_fail_path s t) = Some s' /\ r_result s' t = Some false.
Proof.
  intros HI Cl Ek R. pose proof (tinv_task_at _ _ _ HI Ek) as Tk.
  pose proof (nth_error_some_lt _ _ _ Ek) as Hlt.
  unfold r_fail_path. rewrite Ek. unfold tinv in Tk.
  destruct (rt_stage k) as [| | |[c|]|c f|c e|c e|] eqn:Sk; try (exfalso; intuition congruence).
  - (* RsStart *)
    cbn [r_run r_step]. rewrite Ek, Sk, Cl. eexists. split; [reflexivity|].
    rfin. now rewrite R.
  - (* RsDialing *)
    cbn [r_run r_step]. rewrite Ek, Sk. cbn [rset_task rs_tasks].
    rewrite nth_error_upd_eq by exact Hlt. cbn [rt_stage with_stage rt_res]. rewrite R.
    eexists. split; [reflexivity|].
    rfin.
  - (* RsReturned *)
    cbn [r_run r_step]. rewrite Ek, Sk, Cl. cbn [rset_task radd_conn rs_tasks].
    rewrite nth_error_upd_eq by exact Hlt. cbn [rt_stage with_stage rt_res]. rewrite R.
    eexists. split; [reflexivity|].
    rfin.
  - (* RsDeliver (Some c) *)
    destruct (nth_error (rs_conns s) c) as [kc|] eqn:Ec; [|apply nth_error_None in Ec; lia].
    pose proof (cinv_conn_at _ _ _ HI Ec) as (H1 & _). specialize (H1 Cl).
    cbn [r_run r_step]. rewrite Ek, Sk, R. cbn [rset_task rs_tasks rs_conns].
    rewrite nth_error_upd_eq by exact Hlt. cbn [rt_stage with_stage]. rewrite Ec, H1.
    eexists. split; [reflexivity|]. unfold r_io_fail. cbn [rt_res with_stage]. rewrite R. cbn [negb andb].
    rfin.
  - (* RsDeliver None *)
    cbn [r_run r_step]. rewrite Ek, Sk, R. eexists. split; [reflexivity|].
    rfin.
  - (* RsHas c f *)
    destruct (nth_error (rs_conns s) c) as [kc|] eqn:Ec; [|apply nth_error_None in Ec; lia].
    pose proof (cinv_conn_at _ _ _ HI Ec) as (H1 & _). specialize (H1 Cl).
    destruct (negb f && (rt_retry k <=? 5)) eqn:Rt.
    + cbn [r_run r_step]. rewrite Ek, Sk, Ec, H1. unfold r_io_fail. rewrite R, Rt.
      cbn [radd_task rset_task rs_tasks rs_closed rs_conns].
      rewrite nth_error_app1 by (now rewrite upd_length). rewrite nth_error_upd_eq by exact Hlt.
      cbn [rt_stage]. rewrite Cl. eexists. split; [reflexivity|].
      rfin.
    + cbn [r_run r_step]. rewrite Ek, Sk, Ec, H1. unfold r_io_fail. rewrite R, Rt.
      eexists. split; [reflexivity|].
      rfin.
Qed.

(* every prefix of the failing path is made of enabled steps, and the path is short *)
Lemma r_fail_path_short s t : length (r_fail_path s t) <= 2.
Proof.
  unfold r_fail_path. destruct (nth_error (rs_tasks s) t) as [k|]; [|cbn; lia].
  destruct (rt_stage k) as [| | |[c|]|c f|c e|c e|]; cbn; try lia. destruct (_ && _); cbn; lia.
Qed.

(* =====================================================================================================
   Part 3 — Close terminates for every upstream kind
   ===================================================================================================== *)
Lemma close_terminates k n : exists l, close_calls false (3 + n) (upstream_closee k) = Ok l /\ In (upstream_closee k) l.
Proof. destruct k; cbn; eexists; (split; [reflexivity|cbn; auto]). Qed.

(* the h3 upstream's Close reaches the extra closer (the quic.Transport), exactly once, and not itself again *)
Lemma close_h3_delegates n : close_calls false (3 + n) (upstream_closee KH3) = Ok [CeDoH true; CeExtra].
Proof. reflexivity. Qed.

(* pinned tree: DoHTransport.Close with an extra closer calls itself — no stack depth suffices *)
Lemma close_pinned_diverges fuel : close_calls true fuel (CeDoH true) = OutOfFuel.
Proof. induction fuel as [|f IH]; cbn; auto. Qed.

(* =====================================================================================================
   Part 4 — the big steps replayed by the harness are schedules of the small-step systems
   ===================================================================================================== *)
Lemma r_run_app a : forall s s1 b, r_run s a = Some s1 -> r_run s (a ++ b) = r_run s1 b.
Proof.
  induction a as [|l a IH]; intros s s1 b H; cbn in *; [inversion H; reflexivity|].
  destruct (r_step s l); [|discriminate]. now apply IH.
Qed.

Lemma r_quiesce_refines h fuel : forall s, exists ls, r_run s ls = Some (r_quiesce h fuel s).
Proof.
  induction fuel as [|f IH]; intros s; cbn; [exists []; reflexivity|].
  destruct (r_first_internal h s (rs_tasks s) 0) as [l|]; [|exists []; reflexivity].
  destruct (r_step s l) as [s'|] eqn:E; [|exists []; reflexivity].
  destruct (IH s') as [ls H]. exists (l :: ls). cbn. now rewrite E.
Qed.

Lemma r_big_refines h s e s' : r_big h s e = Some s' -> exists ls, r_run s ls = Some s'.
Proof.
  unfold r_big. destruct (r_run s (r_ext_labels s e)) as [s1|] eqn:E; [|discriminate].
  intros H. inversion H; subst. destruct (r_quiesce_refines h big_fuel s1) as [ls Hl].
  exists (r_ext_labels s e ++ ls). now rewrite (r_run_app _ _ _ _ E).
Qed.

Fixpoint r_bigs (h : bool) (s : rstate) (es : list xev) : option rstate :=
  match es with
  | [] => Some s
  | e :: tl => match r_big h s e with Some s' => r_bigs h s' tl | None => None end
  end.

Lemma r_bigs_refines h es : forall s s', r_bigs h s es = Some s' -> exists ls, r_run s ls = Some s'.
Proof.
  induction es as [|e es IH]; intros s s' H; cbn in H; [inversion H; exists []; reflexivity|].
  destruct (r_big h s e) as [s1|] eqn:E; [|discriminate].
  destruct (r_big_refines _ _ _ _ E) as [l1 H1]. destruct (IH _ _ H) as [l2 H2].
  exists (l1 ++ l2). now rewrite (r_run_app _ _ _ _ H1).
Qed.

Lemma sdp_run_app a : forall s s1 b, sdp_run s a = Some s1 -> sdp_run s (a ++ b) = sdp_run s1 b.
Proof.
  induction a as [|l a IH]; intros s s1 b H; cbn [sdp_run app] in *; [inversion H; reflexivity|].
  destruct (sdp_step s l); [|discriminate]. now apply IH.
Qed.

Lemma sdp_quiesce_refines h m fuel : forall s, exists ls, sdp_run s ls = Some (sdp_quiesce h m fuel s).
Proof.
  induction fuel as [|f IH]; intros s; cbn [sdp_quiesce]; [exists []; reflexivity|].
  destruct (sdp_first_internal h m s) as [l|]; [|exists []; reflexivity].
  destruct (sdp_step s l) as [s'|] eqn:E; [|exists []; reflexivity].
  destruct (IH s') as [ls H]. exists (l :: ls). cbn [sdp_run]. now rewrite E.
Qed.

Lemma sdp_big_refines h m s e s' : sdp_big h m s e = Some s' -> exists ls, sdp_run s ls = Some s'.
Proof.
  unfold sdp_big. destruct (sdp_ext_labels s e) as [l0|]; [|discriminate].
  destruct (sdp_run s l0) as [s1|] eqn:E; [|discriminate].
  intros H. inversion H; subst. destruct (sdp_quiesce_refines h m big_fuel s1) as [ls Hl].
  exists (l0 ++ ls). now rewrite (sdp_run_app _ _ _ _ E).
Qed.

Fixpoint sdp_bigs (h : bool) (m : nat) (s : sd_pstate) (es : list xev) : option sd_pstate :=
  match es with
  | [] => Some s
  | e :: tl => match sdp_big h m s e with Some s' => sdp_bigs h m s' tl | None => None end
  end.

Lemma sdp_bigs_refines h m es : forall s s', sdp_bigs h m s es = Some s' -> exists ls, sdp_run s ls = Some s'.
Proof.
  induction es as [|e es IH]; intros s s' H; cbn in H; [inversion H; exists []; reflexivity|].
  destruct (sdp_big h m s e) as [s1|] eqn:E; [|discriminate].
  destruct (sdp_big_refines _ _ _ _ _ E) as [l1 H1]. destruct (IH _ _ H) as [l2 H2].
  exists (l1 ++ l2). now rewrite (sdp_run_app _ _ _ _ H1).
Qed.

(* =====================================================================================================
   Part 2 — PipelineTransport on connpool.Pool
   ===================================================================================================== *)
Lemma sdp_close_total s : exists s', sdp_step s PClose = Some s' /\ ps_closed s' = true.
Proof. cbn. destruct (ps_closed s) eqn:E; eexists; split; eauto. Qed.

Lemma sdp_close_idempotent s s' : sdp_step s PClose = Some s' -> sdp_step s' PClose = Some s'.
Proof. cbn. destruct (ps_closed s) eqn:E; intros H; inversion H; subst; cbn; [now rewrite E|reflexivity]. Qed.

Definition sdp_result_of (s : sd_pstate) (t : nat) := sdp_result s t.

Lemma sdp_new_exchange_fails s :
  ps_closed s = true ->
  exists s', sdp_run s [PSpawn; SdGet (length (ps_tasks s)) GNew] = Some s' /\
             sdp_result s' (length (ps_tasks s)) = Some false.
Proof.
  intros Cl. cbn [sdp_run sdp_step]. cbn [padd_task ps_tasks ps_closed].
  rewrite nth_error_app2 by lia. rewrite Nat.sub_diag. cbn [nth_error pt_stage]. rewrite Cl.
  eexists. split; [reflexivity|]. unfold sdp_result; cbn.
  rewrite nth_error_upd_eq by (rewrite app_length; cbn; lia). reflexivity.
Qed.

(* every dial call without a result is still listed and the pool is open:
   Pool.Close gives every pending call a result (cancelDial), and no call is created afterwards *)
Definition dinv (closed : bool) (dd : pdial) : Prop :=
  pd_result dd = None -> pd_listed dd = true /\ closed = false.

Definition DInv (s : sd_pstate) : Prop := Forall (dinv (ps_closed s)) (ps_dials s).

Lemma sdp_trim_dials : forall trim s s', sdp_trim s trim = Some s' -> ps_dials s' = ps_dials s /\ ps_closed s' = ps_closed s.
Proof.
  induction trim as [|c tl IH]; intros s s' H; cbn in H; [inversion H; auto|].
  destr H. apply IH in H. cbn in H. exact H.
Qed.

Lemma sdp_io_fail_dials s t k c f : ps_dials (sdp_io_fail s t k c f) = ps_dials s /\ ps_closed (sdp_io_fail s t k c f) = ps_closed s.
Proof. unfold sdp_io_fail. destruct (pt_res k); [|destruct (_ && _)]; auto. Qed.

Lemma sdp_step_dinv s l s' : DInv s -> sdp_step s l = Some s' -> DInv s'.
Proof.
  unfold DInv. intros HD Hs.
  destruct l; cbn in Hs.
  - inversion Hs; subst; exact HD.
  - (* SdGet *)
    destruct (nth_error (ps_tasks s) t) as [k|]; [|discriminate].
    destruct (pt_stage k); try discriminate.
    destruct (ps_closed s) eqn:Cl; [inversion Hs; subst; cbn; now rewrite Cl|].
    destruct g.
    + destr Hs. inversion Hs; subst; cbn. now rewrite Cl.
    + destr Hs. inversion Hs; subst; cbn. now rewrite Cl.
    + destr Hs. inversion Hs; subst; cbn. rewrite Cl. apply Forall_upd; auto.
      pose proof (Forall_nth_error _ _ _ _ HD E0) as Hd. unfold dinv in *; cbn. exact Hd.
    + inversion Hs; subst; cbn. apply Forall_snoc; auto. unfold dinv; cbn. auto.
  - destr Hs. inversion Hs; subst; cbn. apply Forall_upd; auto.
    pose proof (Forall_nth_error _ _ _ _ HD E) as Hd. unfold dinv in *; cbn. exact Hd.
  - destr Hs. inversion Hs; subst; cbn. apply Forall_upd; auto.
    pose proof (Forall_nth_error _ _ _ _ HD E) as Hd. unfold dinv in *; cbn. exact Hd.
  - (* PDialFinish *)
    destruct (nth_error (ps_dials s) d) as [dd|] eqn:E; [|discriminate].
    pose proof (Forall_nth_error _ _ _ _ HD E) as Hd.
    destruct (pd_stage dd); try discriminate.
    destruct (ps_closed s || match pd_result dd with Some _ => true | None => false end) eqn:Cn;
      inversion Hs; subst; clear Hs.
    + destruct ok; cbn; (apply Forall_upd; auto); unfold dinv in *; cbn; intros R; specialize (Hd R);
        destruct Hd as [_ Hc]; rewrite Hc, R in Cn; discriminate.
    + apply orb_false_iff in Cn. destruct Cn as [Cl _].
      destruct ok; cbn; rewrite Cl in *; (apply Forall_upd; auto); unfold dinv; cbn; discriminate.
  - destr Hs; inversion Hs; subst; exact HD.
  - destr Hs; inversion Hs; subst; exact HD.
  - destr Hs; inversion Hs; subst.
    match goal with |- context [sdp_io_fail ?s0 ?t0 ?k0 ?c0 ?f0] => destruct (sdp_io_fail_dials s0 t0 k0 c0 f0) as [-> ->] end. exact HD.
  - destr Hs; inversion Hs; subst;
    match goal with |- context [sdp_io_fail ?s0 ?t0 ?k0 ?c0 ?f0] => destruct (sdp_io_fail_dials s0 t0 k0 c0 f0) as [A B] end;
    destruct kill; cbn; rewrite ?A, ?B; exact HD.
  - destr Hs; inversion Hs; subst; exact HD.
  - destr Hs; inversion Hs; subst; exact HD.
  - (* PRel2 *)
    destr Hs; inversion Hs; subst; cbn; try exact HD.
    all: match goal with H : sdp_trim _ _ = Some _ |- _ => apply sdp_trim_dials in H; cbn in H; destruct H as [-> ->]; exact HD end.
  - destr Hs; inversion Hs; subst; exact HD.
  - destr Hs; inversion Hs; subst; exact HD.
  - destr Hs; inversion Hs; subst; exact HD.
  - (* PCancel *)
    destr Hs; inversion Hs; subst; cbn; try exact HD.
    all: apply Forall_upd; auto.
    all: match goal with H : nth_error (ps_dials _) _ = Some ?dd |- dinv _ _ =>
           pose proof (Forall_nth_error _ _ _ _ HD H) as Hd; unfold dinv in *; cbn; intros _; apply Hd; assumption end.
  - (* PClose *)
    destruct (ps_closed s) eqn:Cl; inversion Hs; subst; cbn; [now rewrite Cl|].
    apply Forall_map. eapply Forall_impl; [|exact HD]. intros dd Hd. unfold dinv, pd_cancel in *.
    destruct (pd_listed dd) eqn:L; [destruct (pd_result dd) eqn:R; cbn; congruence|].
    intros R. destruct (Hd R) as [H _]. congruence.
Qed.

Lemma sdp_run_dinv ls : forall s s', DInv s -> sdp_run s ls = Some s' -> DInv s'.
Proof.
  induction ls as [|l ls IH]; intros s s' HI H; cbn [sdp_run] in H; [inversion H; subst; exact HI|].
  destruct (sdp_step s l) as [s1|] eqn:E; [|discriminate]. eapply IH; [|exact H]. eapply sdp_step_dinv; eauto.
Qed.

Lemma sdp_dials_resolved ls s :
  sdp_run sdp_init ls = Some s -> ps_closed s = true ->
  forall d dd, nth_error (ps_dials s) d = Some dd -> pd_result dd <> None.
Proof.
  intros H Cl d dd E R. assert (DInv s) as HD by (eapply sdp_run_dinv; [|exact H]; constructor).
  pose proof (Forall_nth_error _ _ _ _ HD E) as Hd. destruct (Hd R) as [_ Hc]. congruence.
Qed.

(* the stream/datagram upstreams built on the two modelled transports close in an orderly way; the HTTP and
   QUIC based ones did not before the K6a / K6c / K6d fixes (k6 = false) and do since (k6 = true) *)
Lemma up_orderly_classic k6 k : In k [KUdp; KTcp; KTcpPipeline; KTls; KTlsPipeline] -> up_orderly k6 k = true.
Proof. destruct k6; cbn; intuition (subst; reflexivity). Qed.

Lemma up_orderly_all k : up_orderly true k = true.
Proof. destruct k; reflexivity. Qed.

Lemma up_orderly_refuted : up_orderly false KHttps = false /\ up_orderly false KH3 = false /\ up_orderly false KQuic = false.
Proof. repeat split. Qed.

(* ---- C18_no_leak (pipeline): an open connection is either still in the open pool, or marked closed with a
   closer about to close the net.Conn, or removed from the pool with a closer about to run ---- *)
Definition has_stage (tasks : list ptask) (st : pstage) : Prop :=
  exists t k, nth_error tasks t = Some k /\ pt_stage k = st.

Definition kc (closed : bool) (tasks : list ptask) (c : nat) (k : pconn) : Prop :=
  pc_open k = true ->
    (pc_closed k = false /\ pc_where k <> PNone /\ closed = false) \/
    (pc_closed k = true /\ has_stage tasks (PsCloseB c)) \/
    (pc_closed k = false /\ has_stage tasks (PsCloseA c)).

Definition rel2inv (conns : list pconn) (k : ptask) : Prop :=
  match pt_stage k with
  | PsRel2 c _ true => exists kc, nth_error conns c = Some kc /\ pc_closed kc = true
  | _ => True
  end.

Definition KInv (s : sd_pstate) : Prop :=
  (forall c k, nth_error (ps_conns s) c = Some k -> kc (ps_closed s) (ps_tasks s) c k) /\
  Forall (rel2inv (ps_conns s)) (ps_tasks s).

Definition closers_le (a b : list ptask) : Prop :=
  forall c, (has_stage a (PsCloseA c) -> has_stage b (PsCloseA c)) /\ (has_stage a (PsCloseB c) -> has_stage b (PsCloseB c)).

Lemma kc_mono cl a b c k : closers_le a b -> kc cl a c k -> kc cl b c k.
Proof.
  intros H K Ho. destruct (K Ho) as [K1|[[K1 K2]|[K1 K2]]]; [left; exact K1|right; left|right; right];
    (split; [exact K1|]); apply H; exact K2.
Qed.

Lemma has_stage_snoc_l a x st : has_stage a st -> has_stage (a ++ [x]) st.
Proof. intros (t & k & E & S). exists t, k. split; [|exact S]. rewrite nth_error_app1; [exact E|eapply nth_error_some_lt; eauto]. Qed.

Lemma has_stage_snoc_r a x : has_stage (a ++ [x]) (pt_stage x).
Proof. exists (length a), x. split; [|reflexivity]. rewrite nth_error_app2 by lia. now rewrite Nat.sub_diag. Qed.

Lemma closers_le_snoc a x : closers_le a (a ++ [x]).
Proof. intros c. split; apply has_stage_snoc_l. Qed.

Lemma has_stage_upd_other a t k0 x st :
  nth_error a t = Some k0 -> pt_stage k0 <> st -> has_stage a st -> has_stage (upd a t x) st.
Proof.
  intros E Hne (t' & k & E' & S). exists t', k. split; [|exact S].
  rewrite nth_error_upd_neq; [exact E'|]. intros ->. rewrite E in E'. inversion E'; subst. contradiction.
Qed.

Lemma has_stage_upd_same a t x : t < length a -> has_stage (upd a t x) (pt_stage x).
Proof. intros H. exists t, x. split; [now apply nth_error_upd_eq|reflexivity]. Qed.

Definition not_closer (st : pstage) : Prop := (forall c, st <> PsCloseA c) /\ (forall c, st <> PsCloseB c).

Lemma closers_le_upd a t k0 x : nth_error a t = Some k0 -> not_closer (pt_stage k0) -> closers_le a (upd a t x).
Proof. intros E [HA HB] c. split; apply (has_stage_upd_other _ _ _ _ _ E); auto. Qed.

Lemma closers_le_refl a : closers_le a a.
Proof. intros c; split; auto. Qed.

Definition closed_mono (a b : list pconn) : Prop :=
  forall c k, nth_error a c = Some k -> pc_closed k = true -> exists k', nth_error b c = Some k' /\ pc_closed k' = true.

Lemma rel2inv_mono a b k : closed_mono a b -> rel2inv a k -> rel2inv b k.
Proof.
  intros H. unfold rel2inv. destruct (pt_stage k); auto. destruct wasclosed; auto.
  intros (kc0 & E & C). eapply H; eauto.
Qed.

Lemma closed_mono_upd a c0 k0 k' :
  nth_error a c0 = Some k0 -> (pc_closed k0 = true -> pc_closed k' = true) -> closed_mono a (upd a c0 k').
Proof.
  intros E H c k Ec Cc. rewrite nth_error_upd. destruct (Nat.eqb_spec c0 c) as [->|]; cbn [andb].
  - assert (c <? length a = true) as -> by (apply Nat.ltb_lt; eapply nth_error_some_lt; eauto).
    exists k'. split; [reflexivity|]. apply H. rewrite E in Ec. inversion Ec; subst. exact Cc.
  - exists k. auto.
Qed.

Lemma closed_mono_snoc a x : closed_mono a (a ++ [x]).
Proof. intros c k E C. exists k. split; [|exact C]. rewrite nth_error_app1; [exact E|eapply nth_error_some_lt; eauto]. Qed.

(* state-level building blocks *)
Lemma KInv_set_task s t k0 x :
  KInv s -> nth_error (ps_tasks s) t = Some k0 -> not_closer (pt_stage k0) -> rel2inv (ps_conns s) x ->
  KInv (pset_task s t x).
Proof.
  intros [HK HR] E Hn Hx. split; cbn.
  - intros c k Ec. eapply kc_mono; [eapply closers_le_upd; eauto|]. apply HK; exact Ec.
  - apply Forall_upd; auto.
Qed.

Lemma KInv_add_task s x : KInv s -> rel2inv (ps_conns s) x -> KInv (padd_task s x).
Proof.
  intros [HK HR] Hx. split; cbn.
  - intros c k Ec. eapply kc_mono; [apply closers_le_snoc|]. apply HK; exact Ec.
  - apply Forall_snoc; auto.
Qed.

Lemma KInv_set_conn s c0 k0 k' :
  KInv s -> nth_error (ps_conns s) c0 = Some k0 -> (pc_closed k0 = true -> pc_closed k' = true) ->
  kc (ps_closed s) (ps_tasks s) c0 k' -> KInv (pset_conn s c0 k').
Proof.
  intros [HK HR] E Hm Hk. split; cbn.
  - intros c k Ec. rewrite nth_error_upd in Ec. destruct (Nat.eqb_spec c0 c) as [->|]; cbn [andb] in Ec.
    + destruct (c <? length (ps_conns s)); [inversion Ec; subst; exact Hk|apply HK; exact Ec].
    + apply HK; exact Ec.
  - eapply Forall_impl; [|exact HR]. intros k. apply rel2inv_mono. eapply closed_mono_upd; eauto.
Qed.

Lemma KInv_add_conn s k' :
  KInv s -> kc (ps_closed s) (ps_tasks s) (length (ps_conns s)) k' -> KInv (padd_conn s k').
Proof.
  intros [HK HR] Hk. split; cbn.
  - intros c k Ec. destruct (Nat.lt_ge_cases c (length (ps_conns s))) as [Hlt|Hge].
    + rewrite nth_error_app1 in Ec by exact Hlt. apply HK; exact Ec.
    + rewrite nth_error_app2 in Ec by exact Hge. destruct (c - length (ps_conns s)) as [|n] eqn:En.
      * cbn in Ec. inversion Ec; subst. replace c with (length (ps_conns s)) by lia. exact Hk.
      * destruct n; discriminate.
  - eapply Forall_impl; [|exact HR]. intros k. apply rel2inv_mono. apply closed_mono_snoc.
Qed.

Lemma KInv_set_dial s d x : KInv s -> KInv (pset_dial s d x).
Proof. intros H; exact H. Qed.
Lemma KInv_set_last s l : KInv s -> KInv (pset_last s l).
Proof. intros H; exact H. Qed.

(* where-only changes that keep the connection in the pool *)
Lemma kc_at_inpool cl tasks c k w : w <> PNone -> kc cl tasks c k -> pc_where k <> PNone -> kc cl tasks c (pc_at k w).
Proof.
  intros Hw K Hk Ho. cbn in Ho. destruct (K Ho) as [(A & B & C)|[K1|K1]]; [left; cbn; auto|right; left; exact K1|right; right; exact K1].
Qed.

(* removing a connection from the pool and starting a closer for it (idle trimming) *)
Lemma KInv_trim_one s c k0 :
  KInv s -> nth_error (ps_conns s) c = Some k0 ->
  KInv (padd_task (pset_conn s c (pc_at k0 PNone)) (closer_task c)).
Proof.
  intros [HK HR] E. split; cbn.
  - intros c' k Ec. rewrite nth_error_upd in Ec. destruct (Nat.eqb_spec c c') as [<-|]; cbn [andb] in Ec.
    + assert (c <? length (ps_conns s) = true) as Hl by (apply Nat.ltb_lt; eapply nth_error_some_lt; eauto).
      rewrite Hl in Ec. inversion Ec; subst. intros Ho. cbn in Ho.
      destruct (pc_closed k0) eqn:Ck.
      * destruct (HK _ _ E Ho) as [(A & _)|[[_ K2]|[A _]]]; try congruence.
        right; left. split; [exact Ck|]. apply has_stage_snoc_l. exact K2.
      * right; right. split; [exact Ck|]. apply (has_stage_snoc_r _ (closer_task c)).
    + eapply kc_mono; [apply closers_le_snoc|]. apply HK; exact Ec.
  - apply Forall_snoc; [|exact I]. eapply Forall_impl; [|exact HR]. intros k. apply rel2inv_mono.
    eapply closed_mono_upd; eauto.
Qed.

Lemma sdp_trim_KInv : forall trim s s', KInv s -> sdp_trim s trim = Some s' -> KInv s'.
Proof.
  induction trim as [|c tl IH]; intros s s' HI H; cbn in H; [inversion H; subst; exact HI|].
  destruct (nth_error (ps_conns s) c) as [k0|] eqn:E; [|discriminate].
  destruct (pc_where k0); try discriminate. eapply IH; [|exact H]. now apply KInv_trim_one.
Qed.

Lemma sdp_trim_tasks_prefix : forall trim s s' t k, sdp_trim s trim = Some s' ->
  nth_error (ps_tasks s) t = Some k -> nth_error (ps_tasks s') t = Some k.
Proof.
  induction trim as [|c tl IH]; intros s s' t k H E; cbn in H; [inversion H; subst; exact E|].
  destr H. eapply IH; [exact H|]. cbn. rewrite nth_error_app1; [exact E|eapply nth_error_some_lt; eauto].
Qed.

Lemma sdp_io_fail_KInv s t k c f :
  KInv s -> nth_error (ps_tasks s) t = Some k -> pt_stage k = PsHas c f -> KInv (sdp_io_fail s t k c f).
Proof.
  intros HI E S. unfold sdp_io_fail.
  assert (Hn : not_closer (pt_stage k)) by (rewrite S; split; intros; discriminate).
  destruct (pt_res k); [|destruct (_ && _)]; eapply KInv_set_task; eauto; exact I.
Qed.

Lemma pinit_KInv : KInv sdp_init.
Proof. split; [intros c k E; destruct c; discriminate|constructor]. Qed.

Lemma kc_upd_task_other cl a t k0 x c k :
  nth_error a t = Some k0 -> pt_stage k0 <> PsCloseA c -> pt_stage k0 <> PsCloseB c ->
  kc cl a c k -> kc cl (upd a t x) c k.
Proof.
  intros E HA HB K Ho. destruct (K Ho) as [K1|[[K1 K2]|[K1 K2]]]; [left; exact K1|right; left|right; right];
    (split; [exact K1|]); eapply has_stage_upd_other; eauto.
Qed.

Lemma KInv_set_task_same s t k0 x :
  KInv s -> nth_error (ps_tasks s) t = Some k0 -> pt_stage x = pt_stage k0 -> KInv (pset_task s t x).
Proof.
  intros [HK HR] E Hs. split; cbn.
  - intros c k Ec. eapply kc_mono; [|apply HK; exact Ec].
    intros c'. split; intros (t' & k' & E' & S'); (destruct (Nat.eq_dec t t') as [<-|Hne];
      [exists t, x; split; [apply nth_error_upd_eq; eapply nth_error_some_lt; eauto|rewrite E in E'; inversion E'; subst; congruence]
      |exists t', k'; split; [rewrite nth_error_upd_neq; auto|exact S']]).
  - apply Forall_upd; auto. pose proof (Forall_nth_error _ _ _ _ HR E) as H0. unfold rel2inv in *. now rewrite Hs.
Qed.

Lemma closed_mono_pool_close a : closed_mono a (map pc_pool_close a).
Proof.
  intros c k E C. exists (pc_pool_close k). split; [now rewrite nth_error_map, E|].
  unfold pc_pool_close. destruct (pc_where k); auto; rewrite C; exact C.
Qed.

Theorem sdp_step_KInv s l s' : KInv s -> sdp_step s l = Some s' -> KInv s'.
Proof.
  intros HI Hs. pose proof HI as [HK HR]. destruct l; cbn in Hs.
  - (* PSpawn *) inversion Hs; subst. apply KInv_add_task; auto. exact I.
  - (* SdGet *)
    destruct (nth_error (ps_tasks s) t) as [k|] eqn:Ek; [|discriminate].
    destruct (pt_stage k) eqn:Sk; try discriminate.
    assert (Hn : not_closer (pt_stage k)) by (rewrite Sk; split; intros; discriminate).
    destruct (ps_closed s) eqn:Cl.
    { inversion Hs; subst. eapply KInv_set_task; eauto. exact I. }
    assert (HK' : forall c k, nth_error (ps_conns s) c = Some k -> kc (ps_closed s) (ps_tasks s) c k)
      by (rewrite Cl; exact HK).
    destruct g as [c|c| |].
    + destruct (nth_error (ps_conns s) c) as [k0|] eqn:Ec; [|discriminate].
      destruct (pc_where k0) eqn:W; try discriminate. destruct (pc_closed k0); [discriminate|].
      inversion Hs; subst. eapply KInv_set_task; [|exact Ek|exact Hn|exact I].
      eapply KInv_set_conn; eauto. apply kc_at_inpool; [discriminate|apply HK'; exact Ec|rewrite W; discriminate].
    + destruct (nth_error (ps_conns s) c) as [k0|] eqn:Ec; [|discriminate].
      destruct (pc_where k0) eqn:W; try discriminate. destruct (pc_closed k0); [discriminate|].
      inversion Hs; subst. eapply KInv_set_task; [|exact Ek|exact Hn|exact I].
      eapply KInv_set_conn; eauto. apply kc_at_inpool; [discriminate|apply HK'; exact Ec|rewrite W; discriminate].
    + destruct (ps_last s) as [d|]; [|discriminate].
      destruct (nth_error (ps_dials s) d) as [dd|]; [|discriminate].
      inversion Hs; subst. eapply (KInv_set_task (pset_dial s d _)); eauto. exact I.
    + inversion Hs; subst.
      match goal with |- KInv (pset_task ?s0 _ _) => assert (H0 : KInv s0) by (split; cbn; [exact HK|exact HR]) end.
      eapply KInv_set_task; [exact H0|exact Ek|exact Hn|exact I].
  - (* PDialOk *) destr Hs. inversion Hs; subst. exact HI.
  - (* PDialFail *) destr Hs. inversion Hs; subst. exact HI.
  - (* PDialFinish *)
    destruct (nth_error (ps_dials s) d) as [dd|] eqn:Ed; [|discriminate].
    destruct (pd_stage dd); try discriminate.
    destruct (ps_closed s || match pd_result dd with Some _ => true | None => false end) eqn:Cn; inversion Hs; subst; clear Hs.
    + destruct ok; [|exact HI]. apply (KInv_set_dial (padd_conn s _)). apply KInv_add_conn; auto. intros Ho; discriminate.
    + apply orb_false_iff in Cn. destruct Cn as [Cl _].
      apply KInv_set_last. destruct ok; [|exact HI].
      apply (KInv_set_dial (padd_conn s _)). apply KInv_add_conn; auto.
      intros _. left. cbn. split; [reflexivity|]. split; [destruct (pd_queue dd); discriminate|exact Cl].
  - (* PWake *)
    destruct (nth_error (ps_tasks s) t) as [k|] eqn:Ek; [|discriminate].
    destruct (pt_stage k) eqn:Sk; try discriminate.
    assert (Hn : not_closer (pt_stage k)) by (rewrite Sk; split; intros; discriminate).
    destr Hs; inversion Hs; subst; eapply KInv_set_task; eauto; exact I.
  - (* PIoOk *)
    destruct (nth_error (ps_tasks s) t) as [k|] eqn:Ek; [|discriminate].
    destruct (pt_stage k) eqn:Sk; try discriminate.
    assert (Hn : not_closer (pt_stage k)) by (rewrite Sk; split; intros; discriminate).
    destr Hs; inversion Hs; subst; eapply KInv_set_task; eauto; exact I.
  - (* PIoClosed *)
    destruct (nth_error (ps_tasks s) t) as [k|] eqn:Ek; [|discriminate].
    destruct (pt_stage k) eqn:Sk; try discriminate.
    destr Hs; inversion Hs; subst. eapply sdp_io_fail_KInv; eauto.
  - (* PIoPeerErr *)
    destruct (nth_error (ps_tasks s) t) as [k|] eqn:Ek; [|discriminate].
    destruct (pt_stage k) eqn:Sk; try discriminate.
    destr Hs; inversion Hs; subst. destruct kill; [apply KInv_add_task; [|exact I]|]; eapply sdp_io_fail_KInv; eauto.
  - (* PReadErr *) destr Hs. inversion Hs; subst. apply KInv_add_task; auto. exact I.
  - (* PRel1 *)
    destruct (nth_error (ps_tasks s) t) as [k|] eqn:Ek; [|discriminate].
    destruct (pt_stage k) eqn:Sk; try discriminate.
    assert (Hn : not_closer (pt_stage k)) by (rewrite Sk; split; intros; discriminate).
    destruct (nth_error (ps_conns s) c) as [k0|] eqn:Ec; [|discriminate].
    inversion Hs; subst. eapply KInv_set_task; eauto. unfold rel2inv; cbn.
    destruct (pc_closed k0) eqn:Ck; [eauto|exact I].
  - (* PRel2 *)
    destruct (nth_error (ps_tasks s) t) as [k|] eqn:Ek; [|discriminate].
    destruct (pt_stage k) eqn:Sk; try discriminate.
    assert (Hn : not_closer (pt_stage k)) by (rewrite Sk; split; intros; discriminate).
    pose proof (Forall_nth_error _ _ _ _ HR Ek) as Rk. unfold rel2inv in Rk. rewrite Sk in Rk.
    destruct (nth_error (ps_conns s) c) as [k0|] eqn:Ec; [|discriminate].
    assert (Hnext : forall cs, rel2inv cs (pwith_stage k (if again then PsStart else PsDone)))
      by (intros cs; unfold rel2inv; cbn; destruct again; exact I).
    destruct (pc_where k0) eqn:W.
    + destruct wasclosed.
      * destruct trim; [|discriminate]. inversion Hs; subst.
        eapply KInv_set_task; [|exact Ek|exact Hn|apply Hnext].
        eapply KInv_set_conn; eauto. intros Ho. cbn in Ho.
        destruct Rk as (k1 & E1 & C1). inversion E1; subst k1.
        destruct (HK _ _ Ec Ho) as [(A & _)|[K1|[A _]]]; try congruence. right; left. exact K1.
      * destruct n as [|[|m]].
        -- destruct (sdp_trim (pset_conn s c (pc_at k0 PIdle)) trim) as [s1|] eqn:Tr; [|discriminate].
           inversion Hs; subst. eapply KInv_set_task; [|eapply sdp_trim_tasks_prefix; [exact Tr|exact Ek]|exact Hn|apply Hnext].
           eapply sdp_trim_KInv; [|exact Tr]. eapply KInv_set_conn; eauto.
           apply kc_at_inpool; [discriminate|apply HK; exact Ec|rewrite W; discriminate].
        -- destruct (sdp_trim (pset_conn s c (pc_at k0 PIdle)) trim) as [s1|] eqn:Tr; [|discriminate].
           inversion Hs; subst. eapply KInv_set_task; [|eapply sdp_trim_tasks_prefix; [exact Tr|exact Ek]|exact Hn|apply Hnext].
           eapply sdp_trim_KInv; [|exact Tr]. eapply KInv_set_conn; eauto.
           apply kc_at_inpool; [discriminate|apply HK; exact Ec|rewrite W; discriminate].
        -- destruct trim; [|discriminate]. inversion Hs; subst.
           eapply KInv_set_task; [|exact Ek|exact Hn|apply Hnext].
           eapply KInv_set_conn; eauto. apply kc_at_inpool; [discriminate|apply HK; exact Ec|rewrite W; discriminate].
    + destruct trim; [|discriminate]. inversion Hs; subst. eapply KInv_set_task; eauto.
    + destruct trim; [|discriminate]. inversion Hs; subst. eapply KInv_set_task; eauto.
  - (* PCloseA *)
    destruct (nth_error (ps_tasks s) t) as [k|] eqn:Ek; [|discriminate].
    destruct (pt_stage k) eqn:Sk; try discriminate.
    destruct (nth_error (ps_conns s) c) as [k0|] eqn:Ec; [|discriminate].
    pose proof (nth_error_some_lt _ _ _ Ek) as Hlt.
    destruct (pc_closed k0) eqn:Ck; inversion Hs; subst; clear Hs; split; cbn.
    + intros c' k' Ec'. destruct (Nat.eq_dec c' c) as [->|Hne].
      * rewrite Ec in Ec'. inversion Ec'; subst k'. intros Ho.
        destruct (HK _ _ Ec Ho) as [(A & _)|[[K1 K2]|[A _]]]; try congruence.
        right; left. split; [exact K1|]. eapply has_stage_upd_other; eauto. rewrite Sk. discriminate.
      * eapply kc_upd_task_other; [exact Ek| | |apply HK; exact Ec']; rewrite Sk; congruence.
    + apply Forall_upd; auto. exact I.
    + intros c' k' Ec'. rewrite nth_error_upd in Ec'. destruct (Nat.eqb_spec c c') as [<-|Hne]; cbn [andb] in Ec'.
      * assert (c <? length (ps_conns s) = true) as Hl by (apply Nat.ltb_lt; eapply nth_error_some_lt; eauto).
        rewrite Hl in Ec'. inversion Ec'; subst k'. intros _. right; left. split; [reflexivity|].
        apply (has_stage_upd_same _ _ (pwith_stage k (PsCloseB c))). exact Hlt.
      * eapply kc_upd_task_other; [exact Ek| | |apply HK; exact Ec']; rewrite Sk; congruence.
    + apply Forall_upd; [|exact I]. eapply Forall_impl; [|exact HR]. intros k1. apply rel2inv_mono.
      eapply closed_mono_upd; eauto.
  - (* PCloseB *)
    destruct (nth_error (ps_tasks s) t) as [k|] eqn:Ek; [|discriminate].
    destruct (pt_stage k) eqn:Sk; try discriminate.
    destruct (nth_error (ps_conns s) c) as [k0|] eqn:Ec; [|discriminate].
    inversion Hs; subst; clear Hs; split; cbn.
    + intros c' k' Ec'. rewrite nth_error_upd in Ec'. destruct (Nat.eqb_spec c c') as [<-|Hne]; cbn [andb] in Ec'.
      * assert (c <? length (ps_conns s) = true) as Hl by (apply Nat.ltb_lt; eapply nth_error_some_lt; eauto).
        rewrite Hl in Ec'. inversion Ec'; subst k'. intros Ho; discriminate.
      * eapply kc_upd_task_other; [exact Ek| | |apply HK; exact Ec']; rewrite Sk; congruence.
    + apply Forall_upd; [|exact I]. eapply Forall_impl; [|exact HR]. intros k1. apply rel2inv_mono.
      eapply closed_mono_upd; eauto.
  - (* PGc *)
    destruct (nth_error (ps_conns s) c) as [k0|] eqn:Ec; [|discriminate].
    destruct (pc_closed k0) eqn:Ck; [|discriminate]. inversion Hs; subst.
    eapply KInv_set_conn; eauto. intros Ho. cbn in Ho.
    destruct (HK _ _ Ec Ho) as [(A & _)|[K1|[A _]]]; try congruence. right; left. exact K1.
  - (* PCancel *)
    destruct (nth_error (ps_tasks s) t) as [k|] eqn:Ek; [|discriminate].
    destruct (pt_stage k) eqn:Sk.
    all: try (inversion Hs; subst; eapply KInv_set_task_same; [exact HI|exact Ek|cbn; now rewrite Sk]).
    + destruct (pt_res k).
      * inversion Hs; subst; eapply KInv_set_task_same; [exact HI|exact Ek|cbn; now rewrite Sk].
      * destr Hs; inversion Hs; subst.
        -- eapply KInv_set_task_same; [exact HI|exact Ek|cbn; now rewrite Sk].
        -- eapply (KInv_set_task (pset_dial s d _)); [exact HI|exact Ek|rewrite Sk; split; intros; discriminate|exact I].
    + assert (Hn : not_closer (pt_stage k)) by (rewrite Sk; split; intros; discriminate).
      destruct (pt_res k); inversion Hs; subst; eapply KInv_set_task; eauto; exact I.
  - (* PClose *)
    destruct (ps_closed s) eqn:Cl; inversion Hs; subst; [exact HI|]. split; cbn.
    + intros c k Ec. rewrite nth_error_map in Ec. destruct (nth_error (ps_conns s) c) as [k0|] eqn:E0; [|discriminate].
      cbn in Ec. inversion Ec; subst k. intros Ho. unfold pc_pool_close in *.
      destruct (pc_where k0) eqn:W.
      * destruct (pc_closed k0) eqn:Ck; [|cbn in Ho; discriminate].
        destruct (HK _ _ E0 Ho) as [(A & _)|[K1|[A _]]]; try congruence. right; left. exact K1.
      * destruct (pc_closed k0) eqn:Ck; [|cbn in Ho; discriminate].
        destruct (HK _ _ E0 Ho) as [(A & _)|[K1|[A _]]]; try congruence. right; left. exact K1.
      * destruct (HK _ _ E0 Ho) as [(_ & B & _)|[K1|K1]]; [congruence|right; left; exact K1|right; right; exact K1].
    + eapply Forall_impl; [|exact HR]. intros k1. apply rel2inv_mono. apply closed_mono_pool_close.
Qed.

Theorem sdp_run_KInv ls : forall s s', KInv s -> sdp_run s ls = Some s' -> KInv s'.
Proof.
  induction ls as [|l ls IH]; intros s s' HI H; cbn [sdp_run] in H; [inversion H; subst; exact HI|].
  destruct (sdp_step s l) as [s1|] eqn:E; [|discriminate]. eapply IH; [|exact H]. eapply sdp_step_KInv; eauto.
Qed.

Lemma sdp_no_leak ls s :
  sdp_run sdp_init ls = Some s -> ps_closed s = true ->
  forall c k, nth_error (ps_conns s) c = Some k -> pc_open k = true ->
    (pc_closed k = true /\ has_stage (ps_tasks s) (PsCloseB c)) \/
    (pc_closed k = false /\ has_stage (ps_tasks s) (PsCloseA c)).
Proof.
  intros H Cl c k E Ho. assert (KInv s) as [HK _] by (eapply sdp_run_KInv; [apply pinit_KInv|exact H]).
  destruct (HK _ _ E Ho) as [(_ & _ & C)|[K1|K1]]; [congruence|left; exact K1|right; exact K1].
Qed.

(* the pending closers are enabled and close the connection: PsCloseB in one step, PsCloseA in two *)
Lemma sdp_closer_progress s t k c k0 :
  nth_error (ps_tasks s) t = Some k -> nth_error (ps_conns s) c = Some k0 ->
  (pt_stage k = PsCloseB c ->
     exists s', sdp_step s (PCloseB t) = Some s' /\ exists k', nth_error (ps_conns s') c = Some k' /\ pc_open k' = false) /\
  (pt_stage k = PsCloseA c -> pc_closed k0 = false ->
     exists s', sdp_run s [PCloseA t; PCloseB t] = Some s' /\ exists k', nth_error (ps_conns s') c = Some k' /\ pc_open k' = false).
Proof.
  intros Ek Ec. pose proof (nth_error_some_lt _ _ _ Ek) as Ht. pose proof (nth_error_some_lt _ _ _ Ec) as Hc. split.
  - intros Sk. cbn. rewrite Ek, Sk, Ec. eexists. split; [reflexivity|]. cbn.
    eexists. split; [apply nth_error_upd_eq; exact Hc|reflexivity].
  - intros Sk Ck. cbn [sdp_run sdp_step]. rewrite Ek, Sk, Ec, Ck. cbn [pset_task pset_conn ps_tasks ps_conns].
    rewrite nth_error_upd_eq by exact Ht. cbn [pt_stage pwith_stage]. rewrite nth_error_upd_eq by exact Hc.
    eexists. split; [reflexivity|]. cbn. eexists. split; [apply nth_error_upd_eq; rewrite upd_length; exact Hc|reflexivity].
Qed.

(* =====================================================================================================
   Part 5 — QuicTransport
   ===================================================================================================== *)
Definition qd_inflight (st : qdstage) : bool :=
  match st with QdDialing | QdGot _ => true | _ => false end.

Definition qcall_inv (nconns : nat) (dd : qcall) : Prop :=
  (qd_stage dd = QdEnd -> qd_result dd <> None) /\
  (qd_stage dd <> QdEnd -> qd_result dd = None) /\
  (forall c, qd_stage dd = QdReady (Some c) -> c < nconns) /\
  (forall c, qd_result dd = Some (Some c) -> c < nconns).

Definition qtask_inv (nconns ncalls : nat) (k : qtask) : Prop :=
  match qt_stage k with
  | QsWait d => d < ncalls
  | QsHas c _ => c < nconns
  | QsDone => qt_res k <> None
  | QsStart => True
  end.

Record QInv (s : sdq_state) : Prop := {
  q_open  : forall c k, nth_error (sq_conns s) c = Some k -> qc_open k = true ->
                        sq_cache s = Some c /\ sq_closed s = false;
  q_call  : forall d, sq_call s = Some d -> sq_cache s = None /\ d < length (sq_calls s);
  q_infl  : forall d dd, nth_error (sq_calls s) d = Some dd -> qd_inflight (qd_stage dd) = true -> sq_call s = Some d;
  q_calls : Forall (qcall_inv (length (sq_conns s))) (sq_calls s);
  q_tasks : Forall (qtask_inv (length (sq_conns s)) (length (sq_calls s))) (sq_tasks s)
}.

Lemma sdq_init_inv : QInv sdq_init.
Proof.
  constructor; cbn.
  - intros c k E. destruct c; discriminate.
  - intros d H. discriminate.
  - intros d dd E. destruct d; discriminate.
  - constructor.
  - constructor.
Qed.

Lemma qcall_inv_mono n m dd : n <= m -> qcall_inv n dd -> qcall_inv m dd.
Proof. intros H (A & B & C & D). repeat split; auto; intros c Hc; [specialize (C c Hc)|specialize (D c Hc)]; lia. Qed.

Lemma qtask_inv_mono n m a b k : n <= m -> a <= b -> qtask_inv n a k -> qtask_inv m b k.
Proof. unfold qtask_inv. destruct (qt_stage k); intros; auto; lia. Qed.

Lemma sdq_io_fail_tasks s t k f :
  nth_error (sq_tasks s) t = Some k ->
  exists x, sdq_io_fail s t k f = sdq_set_task s t x /\
            (qt_stage x = QsStart \/ (qt_stage x = QsDone /\ qt_res x <> None)).
Proof.
  intros E. unfold sdq_io_fail. destruct (qt_res k) eqn:R; [|destruct (_ && _)]; eexists; split; try reflexivity; cbn;
    auto; right; split; auto; congruence.
Qed.

Lemma QInv_set_task s t x :
  QInv s -> qtask_inv (length (sq_conns s)) (length (sq_calls s)) x -> QInv (sdq_set_task s t x).
Proof. intros [A B C D E] Hx. constructor; cbn; auto. apply Forall_upd; auto. Qed.

Theorem sdq_step_inv s l s' : QInv s -> sdq_step s l = Some s' -> QInv s'.
Proof.
  intros HI Hs. pose proof HI as [A B C D E]. destruct l; cbn in Hs.
  - (* SqSpawn *) inversion Hs; subst. constructor; cbn; auto. apply Forall_snoc; [solve [auto]|]. exact I.
  - (* SqGet *)
    destruct (nth_error (sq_tasks s) t) as [k|] eqn:Ek; [|discriminate].
    destruct (qt_stage k) eqn:Sk; try discriminate.
    destruct (sq_closed s) eqn:Cl.
    { inversion Hs; subst. apply QInv_set_task; auto. unfold qtask_inv; cbn. destruct (qt_res k); cbn; congruence. }
    assert (Hjoin : forall x, (match sq_call s with
              | Some d => Some {| sq_closed := false; sq_cache := None; sq_call := Some d; sq_conns := sq_conns s;
                                  sq_calls := sq_calls s; sq_tasks := upd (sq_tasks s) t (qwith_stage k (QsWait d)) |}
              | None => Some {| sq_closed := false; sq_cache := None; sq_call := Some (length (sq_calls s)); sq_conns := sq_conns s;
                                sq_calls := sq_calls s ++ [{| qd_stage := QdDialing; qd_result := None |}];
                                sq_tasks := upd (sq_tasks s) t (qwith_stage k (QsWait (length (sq_calls s)))) |}
              end) = Some x ->
            (forall c k0, nth_error (sq_conns s) c = Some k0 -> qc_open k0 = true -> False) -> QInv x).
    { intros x Hx Hdead. destruct (sq_call s) as [d|] eqn:Ca; inversion Hx; subst; clear Hx.
      - destruct (B d eq_refl) as [_ Hd]. constructor; cbn.
        + intros c k0 E0 O0. exfalso; eauto.
        + intros d' Hd'. inversion Hd'; subst. auto.
        + exact C.
        + exact D.
        + apply Forall_upd; [solve [auto]|]. unfold qtask_inv; cbn. exact Hd.
      - constructor; cbn.
        + intros c k0 E0 O0. exfalso; eauto.
        + intros d' Hd'. inversion Hd'; subst. split; auto. rewrite app_length; cbn; lia.
        + intros d dd Ed Hin. destruct (Nat.lt_ge_cases d (length (sq_calls s))) as [Hlt|Hge].
          * rewrite nth_error_app1 in Ed by exact Hlt. specialize (C _ _ Ed Hin). congruence.
          * rewrite nth_error_app2 in Ed by exact Hge. destruct (d - length (sq_calls s)) as [|n] eqn:En; [|destruct n; discriminate].
            f_equal. lia.
        + apply Forall_snoc; [solve [auto]|]. unfold qcall_inv; cbn. repeat split; intros; congruence.
        + apply Forall_upd.
          * eapply Forall_impl; [|exact E]. intros k0. apply qtask_inv_mono; auto. rewrite app_length; lia.
          * unfold qtask_inv; cbn. rewrite app_length; cbn; lia. }
    destruct (sq_cache s) as [c|] eqn:Cc.
    + destruct (sdq_conn_open s c) eqn:Oc.
      * inversion Hs; subst. apply QInv_set_task; auto. unfold qtask_inv; cbn.
        unfold sdq_conn_open in Oc. destruct (nth_error (sq_conns s) c) eqn:Ec; [|discriminate]. eapply nth_error_some_lt; eauto.
      * apply Hjoin; [exact Hs|]. intros c' k0 E0 O0. destruct (A _ _ E0 O0) as [H1 _]. inversion H1; subst c'.
        unfold sdq_conn_open in Oc. rewrite E0 in Oc. congruence.
    + apply Hjoin; [exact Hs|]. intros c' k0 E0 O0. destruct (A _ _ E0 O0) as [H1 _]. discriminate.
  - (* SqDialOk *)
    destruct (nth_error (sq_calls s) d) as [dd|] eqn:Ed; [|discriminate].
    destruct (qd_stage dd) eqn:Sd; try discriminate. inversion Hs; subst.
    pose proof (Forall_nth_error _ _ _ _ D Ed) as (D1 & D2 & D3 & D4).
    constructor; cbn; rewrite ?upd_length.
    + exact A.
    + exact B.
    + intros d' dd' Ed' Hin. rewrite nth_error_upd in Ed'. destruct (Nat.eqb_spec d d') as [<-|]; cbn [andb] in Ed'.
      * apply (C _ _ Ed). now rewrite Sd.
      * eapply C; eauto.
    + apply Forall_upd; [exact D|]. unfold qcall_inv; cbn. repeat split; intros; try congruence; try (apply D2; congruence); eauto.
    + exact E.
  - (* SqDialFail *)
    destruct (nth_error (sq_calls s) d) as [dd|] eqn:Ed; [|discriminate].
    destruct (qd_stage dd) eqn:Sd; try discriminate. inversion Hs; subst.
    pose proof (Forall_nth_error _ _ _ _ D Ed) as (D1 & D2 & D3 & D4).
    constructor; cbn; rewrite ?upd_length.
    + exact A.
    + exact B.
    + intros d' dd' Ed' Hin. rewrite nth_error_upd in Ed'. destruct (Nat.eqb_spec d d') as [<-|]; cbn [andb] in Ed'.
      * apply (C _ _ Ed). now rewrite Sd.
      * eapply C; eauto.
    + apply Forall_upd; [exact D|]. unfold qcall_inv; cbn. repeat split; intros; try congruence; try (apply D2; congruence); eauto.
    + exact E.
  - (* SqFinish *)
    destruct (nth_error (sq_calls s) d) as [dd|] eqn:Ed; [|discriminate].
    destruct (qd_stage dd) eqn:Sd; try discriminate.
    pose proof (Forall_nth_error _ _ _ _ D Ed) as (D1 & D2 & D3 & D4).
    assert (Hcall : sq_call s = Some d) by (apply (C _ _ Ed); now rewrite Sd).
    destruct (B _ Hcall) as [Hcache Hdlt].
    assert (Hother : forall d' dd', d <> d' -> nth_error (sq_calls s) d' = Some dd' -> qd_inflight (qd_stage dd') = false).
    { intros d' dd' Hne Ed'. destruct (qd_inflight (qd_stage dd')) eqn:Hin; auto. specialize (C _ _ Ed' Hin). congruence. }
    assert (Hinfl : forall st x d' dd', qd_inflight st = false ->
               nth_error (upd (sq_calls s) d {| qd_stage := st; qd_result := x |}) d' = Some dd' ->
               qd_inflight (qd_stage dd') = true -> None = Some d').
    { intros st x d' dd' Hst Ed' Hin. rewrite nth_error_upd in Ed'. destruct (Nat.eqb_spec d d') as [<-|Hne]; cbn [andb] in Ed'.
      - apply Nat.ltb_lt in Hdlt. rewrite Hdlt in Ed'. inversion Ed'; subst. cbn in Hin. congruence.
      - rewrite (Hother _ _ Hne Ed') in Hin. discriminate. }
    assert (Hnone : sq_closed s = false -> forall c k0, nth_error (sq_conns s) c = Some k0 -> qc_open k0 = false).
    { intros _ c k0 E0. destruct (qc_open k0) eqn:O0; auto. destruct (A _ _ E0 O0). congruence. }
    destruct (sq_closed s) eqn:Cl; inversion Hs; subst; clear Hs.
    + constructor; cbn; rewrite ?upd_length.
      * intros c k0 E0 O0. destruct (A _ _ E0 O0). congruence.
      * discriminate.
      * intros d' dd' Ed' Hin. eapply Hinfl; [|exact Ed'|exact Hin]. reflexivity.
      * apply Forall_upd; [exact D|]. unfold qcall_inv; cbn. repeat split; intros; try congruence; try (apply D2; congruence); eauto.
      * exact E.
    + specialize (Hnone eq_refl). destruct ok.
      * constructor; cbn; rewrite ?upd_length, ?app_length; cbn.
        -- intros c k0 E0 O0. destruct (Nat.lt_ge_cases c (length (sq_conns s))) as [Hlt|Hge].
           ++ rewrite nth_error_app1 in E0 by exact Hlt. rewrite (Hnone _ _ E0) in O0. discriminate.
           ++ rewrite nth_error_app2 in E0 by exact Hge. destruct (c - length (sq_conns s)) as [|n] eqn:En; [|destruct n; discriminate].
              split; auto. f_equal. lia.
        -- discriminate.
        -- intros d' dd' Ed' Hin. eapply Hinfl; [|exact Ed'|exact Hin]. reflexivity.
        -- apply Forall_upd.
           ++ eapply Forall_impl; [|exact D]. intros x. apply qcall_inv_mono. lia.
           ++ unfold qcall_inv; cbn. repeat split; intros; try congruence; try (apply D2; congruence).
              ** inversion H; subst. lia.
              ** specialize (D4 _ H). lia.
        -- eapply Forall_impl; [|exact E]. intros x. apply qtask_inv_mono; lia.
      * constructor; cbn; rewrite ?upd_length.
        -- intros c k0 E0 O0. rewrite (Hnone _ _ E0) in O0. discriminate.
        -- discriminate.
        -- intros d' dd' Ed' Hin. eapply Hinfl; [|exact Ed'|exact Hin]. reflexivity.
        -- apply Forall_upd; [exact D|]. unfold qcall_inv; cbn. repeat split; intros; try congruence; try (apply D2; congruence); eauto.
        -- exact E.
  - (* SqNotify *)
    destruct (nth_error (sq_calls s) d) as [dd|] eqn:Ed; [|discriminate].
    pose proof (Forall_nth_error _ _ _ _ D Ed) as (D1 & D2 & D3 & D4).
    assert (Hinfl : forall x d' dd', nth_error (upd (sq_calls s) d {| qd_stage := QdEnd; qd_result := x |}) d' = Some dd' ->
                       qd_inflight (qd_stage dd') = true -> sq_call s = Some d').
    { intros x d' dd' Ed' Hin. rewrite nth_error_upd in Ed'. destruct (Nat.eqb_spec d d') as [<-|Hne]; cbn [andb] in Ed'.
      - destruct (d <? length (sq_calls s)); [inversion Ed'; subst; discriminate|]. eapply C; eauto.
      - eapply C; eauto. }
    destruct (qd_stage dd) eqn:Sd; try discriminate; inversion Hs; subst; clear Hs.
    + (* late *)
      destruct ok.
      * constructor; cbn; rewrite ?upd_length, ?app_length; cbn.
        -- intros c k0 E0 O0. destruct (Nat.lt_ge_cases c (length (sq_conns s))) as [Hlt|Hge].
           ++ rewrite nth_error_app1 in E0 by exact Hlt. eauto.
           ++ rewrite nth_error_app2 in E0 by exact Hge. destruct (c - length (sq_conns s)) as [|n]; [|destruct n; discriminate].
              inversion E0; subst. discriminate.
        -- exact B.
        -- apply Hinfl.
        -- apply Forall_upd.
           ++ eapply Forall_impl; [|exact D]. intros x. apply qcall_inv_mono. lia.
           ++ unfold qcall_inv; cbn. repeat split; intros; congruence.
        -- eapply Forall_impl; [|exact E]. intros x. apply qtask_inv_mono; lia.
      * constructor; cbn; rewrite ?upd_length.
        -- exact A.
        -- exact B.
        -- apply Hinfl.
        -- apply Forall_upd; [exact D|]. unfold qcall_inv; cbn. repeat split; intros; congruence.
        -- exact E.
    + constructor; cbn; rewrite ?upd_length.
      * exact A.
      * exact B.
      * apply Hinfl.
      * apply Forall_upd; [exact D|]. unfold qcall_inv; cbn. repeat split; intros; try congruence.
        inversion H; subst. apply D3. reflexivity.
      * exact E.
  - (* SqWake *)
    destruct (nth_error (sq_tasks s) t) as [k|] eqn:Ek; [|discriminate].
    destruct (qt_stage k) eqn:Sk; try discriminate.
    destruct (nth_error (sq_calls s) d) as [dd|] eqn:Ed; [|discriminate].
    pose proof (Forall_nth_error _ _ _ _ D Ed) as (D1 & D2 & D3 & D4).
    destruct (qd_result dd) as [[c|]|] eqn:R; try discriminate; inversion Hs; subst; apply QInv_set_task; auto;
      unfold qtask_inv; cbn; [apply D4; reflexivity|destruct (qt_res k); cbn; congruence].
  - (* SqIoOk *)
    destruct (nth_error (sq_tasks s) t) as [k|] eqn:Ek; [|discriminate].
    destruct (qt_stage k) eqn:Sk; try discriminate. destruct (sdq_conn_open s c); [|discriminate].
    inversion Hs; subst. apply QInv_set_task; auto. unfold qtask_inv; cbn. destruct (qt_res k); cbn; congruence.
  - (* SqIoClosed *)
    destruct (nth_error (sq_tasks s) t) as [k|] eqn:Ek; [|discriminate].
    destruct (qt_stage k) eqn:Sk; try discriminate. destruct (sdq_conn_open s c); [discriminate|].
    inversion Hs; subst. destruct (sdq_io_fail_tasks s t k fresh Ek) as (x & -> & Hx).
    apply QInv_set_task; auto. unfold qtask_inv. destruct Hx as [->|[-> Hr]]; auto.
  - (* SqIoPeerErr *)
    destruct (nth_error (sq_tasks s) t) as [k|] eqn:Ek; [|discriminate].
    destruct (qt_stage k) eqn:Sk; try discriminate.
    inversion Hs; subst. destruct (sdq_io_fail_tasks s t k fresh Ek) as (x & -> & Hx).
    apply QInv_set_task; auto. unfold qtask_inv. destruct Hx as [->|[-> Hr]]; auto.
  - (* SqPeerDead *)
    destruct (nth_error (sq_conns s) c) as [k0|] eqn:Ec; [|discriminate]. inversion Hs; subst.
    constructor; cbn; rewrite ?upd_length.
    + intros c' k1 E1 O1. rewrite nth_error_upd in E1. destruct (Nat.eqb_spec c c') as [<-|]; cbn [andb] in E1.
      * destruct (c <? length (sq_conns s)); [inversion E1; subst; discriminate|eauto].
      * eauto.
    + exact B.
    + exact C.
    + exact D.
    + exact E.
  - (* SqCancel *)
    destruct (nth_error (sq_tasks s) t) as [k|] eqn:Ek; [|discriminate].
    destruct (qt_stage k) eqn:Sk; inversion Hs; subst; apply QInv_set_task; auto; unfold qtask_inv; cbn; auto;
      destruct (qt_res k); cbn; congruence.
  - (* SqClose *)
    destruct (sq_closed s) eqn:Cl; inversion Hs; subst; [exact HI|].
    assert (Hlen : length (match sq_cache s with Some c => upd (sq_conns s) c {| qc_open := false |} | None => sq_conns s end)
                   = length (sq_conns s)) by (destruct (sq_cache s); [apply upd_length|reflexivity]).
    constructor; cbn; rewrite ?Hlen.
    + intros c k0 E0 O0. exfalso. destruct (sq_cache s) as [cc|] eqn:Cc.
      * rewrite nth_error_upd in E0. destruct (Nat.eqb_spec cc c) as [<-|Hne]; cbn [andb] in E0.
        -- destruct (Nat.ltb_spec cc (length (sq_conns s))); [inversion E0; subst; discriminate|].
           apply nth_error_some_lt in E0. lia.
        -- destruct (A _ _ E0 O0) as [H _]. congruence.
      * destruct (A _ _ E0 O0) as [H _]. discriminate.
    + exact B.
    + exact C.
    + exact D.
    + exact E.
Qed.

Theorem sdq_run_inv ls : forall s s', QInv s -> sdq_run s ls = Some s' -> QInv s'.
Proof.
  induction ls as [|l ls IH]; intros s s' HI H; cbn [sdq_run] in H; [inversion H; subst; exact HI|].
  destruct (sdq_step s l) as [s1|] eqn:E; [|discriminate]. eapply IH; [|exact H]. eapply sdq_step_inv; eauto.
Qed.

Theorem sdq_reachable_inv ls s : sdq_run sdq_init ls = Some s -> QInv s.
Proof. apply sdq_run_inv. exact sdq_init_inv. Qed.

Lemma sdq_close_total s : exists s', sdq_step s SqClose = Some s' /\ sq_closed s' = true.
Proof. cbn. destruct (sq_closed s) eqn:E; eexists; split; eauto. Qed.

Lemma sdq_close_idempotent s s' : sdq_step s SqClose = Some s' -> sdq_step s' SqClose = Some s'.
Proof. cbn. destruct (sq_closed s) eqn:E; intros H; inversion H; subst; cbn; [now rewrite E|reflexivity]. Qed.

Lemma sdq_run_app a : forall s s1 b, sdq_run s a = Some s1 -> sdq_run s (a ++ b) = sdq_run s1 b.
Proof.
  induction a as [|l a IH]; intros s s1 b H; cbn [sdq_run app] in *; [inversion H; reflexivity|].
  destruct (sdq_step s l); [|discriminate]. now apply IH.
Qed.

(* ---- C18_no_leak_quic ---- *)
Lemma sdq_closed_all_closed s : QInv s -> sq_closed s = true -> forall k, In k (sq_conns s) -> qc_open k = false.
Proof.
  intros HI Cl k Hin. destruct (In_nth_error _ _ Hin) as [c Ec].
  destruct (qc_open k) eqn:O; auto. destruct (q_open _ HI _ _ Ec O) as [_ H]. congruence.
Qed.

Lemma sdq_no_leak ls s :
  sdq_run sdq_init ls = Some s -> sq_closed s = true ->
  (forall k, In k (sq_conns s) -> qc_open k = false) /\
  sdq_open_count s = length (filter qd_holds_raw (sq_calls s)).
Proof.
  intros H Cl. apply sdq_reachable_inv in H. split; [now apply sdq_closed_all_closed|].
  unfold sdq_open_count. rewrite filter_none; [reflexivity|]. now apply sdq_closed_all_closed.
Qed.

(* completing a call: enabled from every stage, leaves the tasks alone, ends with a published result;
   when the transport is closed and the call had not yet passed its critical section the result is the error
   and a dialled connection enters the table CLOSED (the completion step itself closes it) *)
Lemma sdq_complete s d dd :
  nth_error (sq_calls s) d = Some dd ->
  (qd_stage dd = QdEnd -> qd_result dd <> None) ->
  exists s', sdq_run s (sdq_complete_path s d) = Some s' /\
             sq_tasks s' = sq_tasks s /\ sq_closed s' = sq_closed s /\
             (exists dd', nth_error (sq_calls s') d = Some dd' /\ qd_stage dd' = QdEnd /\ qd_result dd' <> None /\
                          (sq_closed s = true ->
                           match qd_stage dd with QdDialing | QdGot _ | QdLate _ => qd_result dd' = Some None | _ => True end)) /\
             (sq_closed s = true ->
              match qd_stage dd with
              | QdGot true | QdLate true => sq_conns s' = sq_conns s ++ [{| qc_open := false |}]
              | _ => sq_conns s' = sq_conns s
              end).
Proof.
  intros Ed Hend. pose proof (nth_error_some_lt _ _ _ Ed) as Hlt.
  unfold sdq_complete_path. rewrite Ed.
  destruct s as [cl cache call conns calls tasks]. cbn [sq_calls sq_closed sq_conns sq_tasks] in *.
  assert (Hupd : forall x, nth_error (upd calls d x) d = Some x) by (intros; now apply nth_error_upd_eq).
  assert (Hupd2 : forall x y, nth_error (upd (upd calls d x) d y) d = Some y)
    by (intros; apply nth_error_upd_eq; now rewrite upd_length).
  destruct (qd_stage dd) as [|ok|ok|r|] eqn:Sd.
  - cbn [sdq_run sdq_step sq_calls]. rewrite Ed, Sd. cbn [sdq_set_call sq_calls sq_closed sq_cache sq_call sq_conns sq_tasks].
    rewrite Hupd. cbn [qd_stage qd_result].
    destruct cl; cbn [sq_calls]; rewrite Hupd2; cbn [qd_stage qd_result sdq_set_call sq_calls sq_closed sq_cache sq_call sq_conns sq_tasks].
    + eexists. split; [reflexivity|]. cbn. repeat split; auto.
      eexists. split; [apply nth_error_upd_eq; now rewrite !upd_length|]. cbn. repeat split; congruence.
    + eexists. split; [reflexivity|]. cbn. repeat split; auto; try discriminate.
      eexists. split; [apply nth_error_upd_eq; now rewrite !upd_length|]. cbn. repeat split; try congruence; try discriminate.
  - cbn [sdq_run sdq_step sq_calls]. rewrite Ed, Sd. cbn [sq_closed].
    destruct cl; cbn [sq_calls]; rewrite Hupd; cbn [qd_stage qd_result sdq_set_call sq_calls sq_closed sq_cache sq_call sq_conns sq_tasks].
    + eexists. split; [reflexivity|]. cbn. repeat split; auto.
      * eexists. split; [apply nth_error_upd_eq; now rewrite !upd_length|]. cbn. repeat split; congruence.
      * intros _. destruct ok; reflexivity.
    + eexists. split; [reflexivity|]. cbn. repeat split; auto; try discriminate.
      eexists. split; [apply nth_error_upd_eq; now rewrite !upd_length|]. cbn. repeat split; try congruence; try discriminate.
  - cbn [sdq_run sdq_step sq_calls]. rewrite Ed, Sd.
    eexists. split; [reflexivity|]. cbn. repeat split; auto.
    + eexists. split; [apply nth_error_upd_eq; exact Hlt|]. cbn. repeat split; congruence.
    + intros _. destruct ok; reflexivity.
  - cbn [sdq_run sdq_step sq_calls]. rewrite Ed, Sd.
    eexists. split; [reflexivity|]. cbn. repeat split; auto.
    eexists. split; [apply nth_error_upd_eq; exact Hlt|]. cbn. repeat split; congruence.
  - cbn [sdq_run]. eexists. split; [reflexivity|]. cbn. repeat split; auto.
    exists dd. repeat split; auto.
Qed.

(* ---- C18_quic_waiters_woken: every waiter of a call is woken by the call's completion ---- *)
Lemma sdq_waiters_woken s t k d :
  QInv s -> nth_error (sq_tasks s) t = Some k -> qt_stage k = QsWait d ->
  exists s' s'' k', sdq_run s (sdq_complete_path s d) = Some s' /\
                    sdq_step s' (SqWake t) = Some s'' /\
                    nth_error (sq_tasks s'') t = Some k' /\
                    ((exists c, qt_stage k' = QsHas c true) \/ (qt_stage k' = QsDone /\ qt_res k' <> None)) /\
                    (sq_closed s = true -> qt_res k = None -> qt_res k' = Some false \/ exists c, qt_stage k' = QsHas c true /\ sdq_conn_open s'' c = false /\ qt_res k' = None).
Proof.
  intros HI Ek Sk.
  pose proof (Forall_nth_error _ _ _ _ (q_tasks _ HI) Ek) as Tk. unfold qtask_inv in Tk. rewrite Sk in Tk.
  destruct (nth_error (sq_calls s) d) as [dd|] eqn:Ed; [|apply nth_error_None in Ed; lia].
  pose proof (Forall_nth_error _ _ _ _ (q_calls _ HI) Ed) as (D1 & _).
  destruct (sdq_complete s d dd Ed D1) as (s' & Hrun & Htasks & Hcl & (dd' & Ed' & Sd' & Rd' & _) & _).
  assert (HI' : QInv s') by (eapply sdq_run_inv; eauto).
  pose proof (nth_error_some_lt _ _ _ Ek) as Hlt.
  exists s'. cbn [sdq_step]. rewrite Htasks, Ek, Sk, Ed'.
  destruct (qd_result dd') as [[c|]|] eqn:R; [| |congruence].
  - eexists. eexists. split; [exact Hrun|]. split; [reflexivity|]. cbn. rewrite Htasks.
    split; [apply nth_error_upd_eq; exact Hlt|]. split; [left; eexists; reflexivity|].
    intros Cl Rk. right. exists c. cbn. repeat split; auto.
    unfold sdq_conn_open; cbn. destruct (nth_error (sq_conns s') c) as [kc|] eqn:Ec; auto.
    destruct (qc_open kc) eqn:O; auto. destruct (q_open _ HI' _ _ Ec O) as [_ H]. congruence.
  - eexists. eexists. split; [exact Hrun|]. split; [reflexivity|]. cbn. rewrite Htasks.
    split; [apply nth_error_upd_eq; exact Hlt|]. split.
    + right. cbn. split; auto. destruct (qt_res k); cbn; congruence.
    + intros _ Rk. left. cbn. now rewrite Rk.
Qed.

(* ---- fail, not hang (QUIC): after Close every caller that is still waiting reaches an error by enabled steps
   (complete the call it waits for, wake, I/O on the closed connection); new exchanges fail at once ---- *)
Lemma sdq_result_set_task s t x : t < length (sq_tasks s) -> sdq_result (sdq_set_task s t x) t = qt_res x.
Proof. intros H. unfold sdq_result; cbn. now rewrite nth_error_upd_eq. Qed.

Lemma sdq_fail_not_hang s t k :
  QInv s -> sq_closed s = true -> nth_error (sq_tasks s) t = Some k -> qt_res k = None ->
  exists ls s', sdq_run s ls = Some s' /\ sdq_result s' t = Some false.
Proof.
  intros HI Cl Ek R. pose proof (nth_error_some_lt _ _ _ Ek) as Hlt.
  pose proof (Forall_nth_error _ _ _ _ (q_tasks _ HI) Ek) as Tk. unfold qtask_inv in Tk.
  assert (Hget : forall s0 k0, sq_closed s0 = true -> nth_error (sq_tasks s0) t = Some k0 -> qt_stage k0 = QsStart -> qt_res k0 = None ->
             exists s1, sdq_step s0 (SqGet t) = Some s1 /\ sdq_result s1 t = Some false).
  { intros s0 k0 C0 E0 S0 R0. cbn. rewrite E0, S0, C0. eexists. split; [reflexivity|].
    rewrite sdq_result_set_task by (eapply nth_error_some_lt; eauto). cbn. now rewrite R0. }
  assert (Hio : forall s0 k0 c f, sq_closed s0 = true -> nth_error (sq_tasks s0) t = Some k0 -> qt_stage k0 = QsHas c f ->
             qt_res k0 = None -> sdq_conn_open s0 c = false ->
             exists ls s1, sdq_run s0 ls = Some s1 /\ sdq_result s1 t = Some false).
  { intros s0 k0 c f C0 E0 S0 R0 O0. pose proof (nth_error_some_lt _ _ _ E0) as Hl0.
    destruct (negb f && (qt_retry k0 <? 5)) eqn:Rt.
    - set (s1 := sdq_set_task s0 t {| qt_stage := QsStart; qt_res := None; qt_retry := S (qt_retry k0) |}).
      destruct (Hget s1 {| qt_stage := QsStart; qt_res := None; qt_retry := S (qt_retry k0) |}) as (s2 & H2 & R2); auto.
      { unfold s1; cbn. now apply nth_error_upd_eq. }
      assert (H1 : sdq_step s0 (SqIoClosed t) = Some s1)
        by (cbn [sdq_step]; rewrite E0, S0, O0; unfold sdq_io_fail; rewrite R0, Rt; reflexivity).
      exists [SqIoClosed t; SqGet t], s2. cbn [sdq_run]. rewrite H1, H2. split; auto.
    - exists [SqIoClosed t]. eexists. cbn [sdq_run sdq_step]. rewrite E0, S0, O0. unfold sdq_io_fail. rewrite R0, Rt.
      split; [reflexivity|]. now rewrite sdq_result_set_task. }
  destruct (qt_stage k) as [|d|c f|] eqn:Sk.
  - destruct (Hget s k Cl Ek Sk R) as (s1 & H1 & R1). exists [SqGet t], s1. cbn [sdq_run]. rewrite H1. auto.
  - destruct (sdq_waiters_woken s t k d HI Ek Sk) as (s' & s'' & k' & Hrun & Hwake & Ek' & _ & Hcl).
    assert (Cl'' : sq_closed s'' = true).
    { destruct (nth_error (sq_calls s) d) as [dd|] eqn:Ed; [|apply nth_error_None in Ed; lia].
      pose proof (Forall_nth_error _ _ _ _ (q_calls _ HI) Ed) as (D1 & _).
      destruct (sdq_complete s d dd Ed D1) as (s0 & Hrun0 & _ & Hcl0 & _). rewrite Hrun in Hrun0. inversion Hrun0; subst s0.
      cbn in Hwake. destr Hwake; inversion Hwake; subst; cbn; congruence. }
    destruct (Hcl Cl R) as [Hf|(c & Sc & Oc & Rc)].
    + exists (sdq_complete_path s d ++ [SqWake t]), s''. rewrite (sdq_run_app _ _ _ _ Hrun). cbn [sdq_run]. rewrite Hwake.
      split; auto. unfold sdq_result. now rewrite Ek'.
    + destruct (Hio s'' k' c true Cl'' Ek' Sc Rc Oc) as (ls & s3 & H3 & R3).
      exists (sdq_complete_path s d ++ SqWake t :: ls), s3. rewrite (sdq_run_app _ _ _ _ Hrun). cbn [sdq_run]. rewrite Hwake. auto.
  - apply (Hio s k c f Cl Ek Sk R).
    unfold sdq_conn_open. destruct (nth_error (sq_conns s) c) as [kc|] eqn:Ec; auto.
    destruct (qc_open kc) eqn:O; auto. destruct (q_open _ HI _ _ Ec O) as [_ H]. congruence.
  - congruence.
Qed.

Lemma sdq_new_exchange_fails s :
  sq_closed s = true ->
  exists s', sdq_run s [SqSpawn; SqGet (length (sq_tasks s))] = Some s' /\
             sdq_result s' (length (sq_tasks s)) = Some false.
Proof.
  intros Cl. cbn [sdq_run sdq_step sq_tasks sq_closed]. rewrite nth_error_app2 by lia. rewrite Nat.sub_diag.
  cbn [nth_error qt_stage]. rewrite Cl. eexists. split; [reflexivity|].
  rewrite sdq_result_set_task by (cbn; rewrite app_length; cbn; lia). reflexivity.
Qed.

Lemma sdq_quiesce_refines h fuel : forall s, exists ls, sdq_run s ls = Some (sdq_quiesce h fuel s).
Proof.
  induction fuel as [|f IH]; intros s; cbn [sdq_quiesce]; [exists []; reflexivity|].
  destruct (sdq_first_internal h s) as [l|]; [|exists []; reflexivity].
  destruct (sdq_step s l) as [s'|] eqn:E; [|exists []; reflexivity].
  destruct (IH s') as [ls H]. exists (l :: ls). cbn [sdq_run]. now rewrite E.
Qed.

Lemma sdq_big_refines h s e s' : sdq_big h s e = Some s' -> exists ls, sdq_run s ls = Some s'.
Proof.
  unfold sdq_big. destruct (sdq_ext_labels s e) as [l0|]; [|discriminate].
  destruct (sdq_run s l0) as [s1|] eqn:E; [|discriminate].
  intros H. inversion H; subst. destruct (sdq_quiesce_refines h big_fuel s1) as [ls Hl].
  exists (l0 ++ ls). now rewrite (sdq_run_app _ _ _ _ E).
Qed.

Fixpoint sdq_bigs (h : bool) (s : sdq_state) (es : list xev) : option sdq_state :=
  match es with
  | [] => Some s
  | e :: tl => match sdq_big h s e with Some s' => sdq_bigs h s' tl | None => None end
  end.

Lemma sdq_bigs_refines h es : forall s s', sdq_bigs h s es = Some s' -> exists ls, sdq_run s ls = Some s'.
Proof.
  induction es as [|e es IH]; intros s s' H; cbn in H; [inversion H; exists []; reflexivity|].
  destruct (sdq_big h s e) as [s1|] eqn:E; [|discriminate].
  destruct (sdq_big_refines _ _ _ _ E) as [l1 H1]. destruct (IH _ _ H) as [l2 H2].
  exists (l1 ++ l2). now rewrite (sdq_run_app _ _ _ _ H1).
Qed.
