(* Net/ConnLockProofs.v — proofs about Net/ConnLock.v (C14, round 2): the connection mutex is never left locked,
   no reachable deadlock, every call returns within a bounded number of atomic actions, a second close is a no-op;
   and the sensitivity witness for a lost Unlock on the already-closed branch. *)
From Mos Require Import Base.Prelude Net.Shutdown Net.ShutdownProofs Net.ConnLock.

(* the mutex is held by exactly the goroutine that is inside a critical section *)
Definition cl_inv (s : cl_state) : Prop :=
  (forall a, cc_lock (cs_conn s) = Some a ->
             exists k, nth_error (cs_actors s) a = Some k /\ cl_in_section k = true) /\
  (forall b k, nth_error (cs_actors s) b = Some k -> ca_pc k = ClIn ->
               cc_lock (cs_conn s) = Some b /\ ca_prog k <> []).

Lemma cl_init_inv progs : cl_inv (cl_init progs).
Proof.
  split; cbn.
  - intros a H. discriminate.
  - intros b k E P. rewrite nth_error_map in E. destruct (nth_error progs b); cbn in E; [|discriminate].
    inversion E; subst. cbn in P. discriminate.
Qed.

Lemma cl_nth_lt {A} (l : list A) a k : nth_error l a = Some k -> a < length l.
Proof. intros E. apply nth_error_Some. congruence. Qed.

(* the three shapes of a step *)
Lemma cl_inv_acquire s a k c' :
  cl_inv s -> nth_error (cs_actors s) a = Some k -> ca_prog k <> [] ->
  cc_lock (cs_conn s) = None -> cc_lock c' = Some a ->
  cl_inv (cl_set s c' a (mkClA (ca_prog k) ClIn)).
Proof.
  intros [I1 I2] E Hp L L'. pose proof (cl_nth_lt _ _ _ E) as Hlt. split; cbn.
  - intros a' H. rewrite L' in H. inversion H; subst a'. eexists. split; [apply nth_error_upd_eq; exact Hlt|].
    unfold cl_in_section. cbn. destruct (ca_prog k); [congruence|reflexivity].
  - intros b kb Eb Pb. rewrite nth_error_upd in Eb. destruct (Nat.eqb_spec a b) as [->|Hne]; cbn [andb] in Eb.
    + apply Nat.ltb_lt in Hlt. rewrite Hlt in Eb. inversion Eb; subst kb. cbn. split; [exact L'|exact Hp].
    + destruct (I2 _ _ Eb Pb) as [H _]. congruence.
Qed.

Lemma cl_inv_release s a k c' k' :
  cl_inv s -> nth_error (cs_actors s) a = Some k -> ca_pc k = ClIn ->
  cc_lock c' = None -> ca_pc k' <> ClIn ->
  cl_inv (cl_set s c' a k').
Proof.
  intros [I1 I2] E P L' P'. pose proof (cl_nth_lt _ _ _ E) as Hlt. destruct (I2 _ _ E P) as [La _]. split; cbn.
  - intros a' H. congruence.
  - intros b kb Eb Pb. rewrite nth_error_upd in Eb. destruct (Nat.eqb_spec a b) as [->|Hne]; cbn [andb] in Eb.
    + apply Nat.ltb_lt in Hlt. rewrite Hlt in Eb. inversion Eb; subst kb. contradiction.
    + destruct (I2 _ _ Eb Pb) as [H _]. rewrite La in H. inversion H. contradiction.
Qed.

Lemma cl_inv_outside s a k c' k' :
  cl_inv s -> nth_error (cs_actors s) a = Some k -> ca_pc k <> ClIn ->
  cc_lock c' = cc_lock (cs_conn s) -> ca_pc k' <> ClIn ->
  cl_inv (cl_set s c' a k').
Proof.
  intros [I1 I2] E P L' P'. pose proof (cl_nth_lt _ _ _ E) as Hlt. split; cbn.
  - intros a' H. rewrite L' in H. destruct (I1 _ H) as (k0 & E0 & S0).
    destruct (Nat.eq_dec a a') as [->|Hne].
    + rewrite E in E0. inversion E0; subst k0. unfold cl_in_section in S0. destruct (ca_pc k); try discriminate. congruence.
    + exists k0. split; [|exact S0]. rewrite nth_error_upd_neq by exact Hne. exact E0.
  - intros b kb Eb Pb. rewrite nth_error_upd in Eb. destruct (Nat.eqb_spec a b) as [->|Hne]; cbn [andb] in Eb.
    + apply Nat.ltb_lt in Hlt. rewrite Hlt in Eb. inversion Eb; subst kb. contradiction.
    + rewrite L'. exact (I2 _ _ Eb Pb).
Qed.

Theorem cl_step_inv eol s a s' : cl_inv s -> cl_step true eol s a = Some s' -> cl_inv s'.
Proof.
  intros I H. unfold cl_step in H. destruct (nth_error (cs_actors s) a) as [k|] eqn:E; [|discriminate].
  destruct (ca_pc k) eqn:P; destruct (ca_prog k) as [|o rest] eqn:Pr; try discriminate.
  - (* acquire *)
    destruct (cc_lock (cs_conn s)) eqn:L; [discriminate|]. inversion H; subst s'.
    rewrite <- Pr. apply cl_inv_acquire; auto. congruence.
  - (* critical section *)
    destruct o.
    + destruct (cc_closed (cs_conn s)); inversion H; subst s';
        (eapply cl_inv_release; [exact I|exact E|exact P|reflexivity|cbn; discriminate]).
    + inversion H; subst s'. eapply cl_inv_release; [exact I|exact E|exact P|reflexivity|cbn; discriminate].
    + inversion H; subst s'. eapply cl_inv_release; [exact I|exact E|exact P|reflexivity|cbn; discriminate].
    + inversion H; subst s'. eapply cl_inv_release; [exact I|exact E|exact P|reflexivity|cbn; discriminate].
    + inversion H; subst s'. eapply cl_inv_release; [exact I|exact E|exact P|reflexivity|cbn; discriminate].
    + inversion H; subst s'. eapply cl_inv_release; [exact I|exact E|exact P|reflexivity|cbn; discriminate].
  - inversion H; subst s'. eapply cl_inv_outside; [exact I|exact E|rewrite P; discriminate|reflexivity|cbn; discriminate].
  - inversion H; subst s'. eapply cl_inv_outside; [exact I|exact E|rewrite P; discriminate|reflexivity|cbn; discriminate].
Qed.

Lemma cl_exec_inv eol sched : forall s s', cl_inv s -> cl_exec true eol sched s = Some s' -> cl_inv s'.
Proof.
  induction sched as [|a r IH]; intros s s' I H; cbn in H; [inversion H; subst; exact I|].
  destruct (cl_step true eol s a) as [s1|] eqn:E; [|discriminate]. eapply IH; [|exact H]. eapply cl_step_inv; eauto.
Qed.

Lemma cl_run_inv eol sched : forall s, cl_inv s -> cl_inv (cl_run true eol sched s).
Proof.
  induction sched as [|a r IH]; intros s I; cbn; [exact I|].
  destruct (cl_step true eol s a) as [s1|] eqn:E; [|auto]. apply IH. eapply cl_step_inv; eauto.
Qed.

Definition cl_reachable (eol : bool) (progs : list (list cl_op)) (s : cl_state) : Prop :=
  exists sched, cl_exec true eol sched (cl_init progs) = Some s.

Lemma cl_reachable_inv eol progs s : cl_reachable eol progs s -> cl_inv s.
Proof. intros [sched H]. eapply cl_exec_inv; [apply cl_init_inv|exact H]. Qed.

(* ---- the mutex is never held by nobody ---- *)
Theorem cl_lock_never_orphaned eol progs s : cl_reachable eol progs s -> cl_lock_orphaned s = false.
Proof.
  intros R. destruct (cl_reachable_inv _ _ _ R) as [I1 _]. unfold cl_lock_orphaned.
  destruct (cc_lock (cs_conn s)) as [a|] eqn:L; [|reflexivity].
  destruct (I1 _ eq_refl) as (k & E & S). rewrite E, S. reflexivity.
Qed.

(* the holder's next action is enabled and releases the mutex *)
Theorem cl_holder_releases eol progs s a :
  cl_reachable eol progs s -> cc_lock (cs_conn s) = Some a ->
  exists s', cl_step true eol s a = Some s' /\ cc_lock (cs_conn s') = None.
Proof.
  intros R L. destruct (cl_reachable_inv _ _ _ R) as [I1 _]. destruct (I1 _ L) as (k & E & S).
  unfold cl_in_section in S. unfold cl_step. rewrite E.
  destruct (ca_pc k); try discriminate. destruct (ca_prog k) as [|o rest]; [discriminate|].
  destruct o; try (eexists; split; [reflexivity|reflexivity]).
  destruct (cc_closed (cs_conn s)); eexists; split; reflexivity.
Qed.

(* ---- no deadlock ---- *)
Lemma cl_can_move_intro unl eol s a s' : cl_step unl eol s a = Some s' -> cl_can_move unl eol s = true.
Proof.
  intros H. unfold cl_can_move. apply existsb_exists. exists a. split; [|now rewrite H].
  apply in_seq. unfold cl_step in H. destruct (nth_error (cs_actors s) a) eqn:E; [|discriminate].
  pose proof (cl_nth_lt _ _ _ E). lia.
Qed.

Lemma cl_not_done_actor s : cl_all_done s = false ->
  exists b k, nth_error (cs_actors s) b = Some k /\ ca_prog k <> [].
Proof.
  unfold cl_all_done. generalize (cs_actors s). induction l as [|k l IH]; cbn; [discriminate|].
  intros H. apply andb_false_iff in H. destruct H as [H|H].
  - exists 0, k. split; [reflexivity|]. unfold cl_actor_done in H. destruct (ca_prog k); [discriminate|discriminate].
  - destruct (IH H) as (b & k0 & E & P). exists (S b), k0. split; assumption.
Qed.

Theorem cl_no_deadlock eol s : cl_inv s -> cl_all_done s = false -> cl_can_move true eol s = true.
Proof.
  intros [I1 I2] H. destruct (cc_lock (cs_conn s)) as [a|] eqn:L.
  - destruct (I1 _ eq_refl) as (k & E & S). unfold cl_in_section in S.
    destruct (ca_pc k) eqn:P; try discriminate. destruct (ca_prog k) as [|o rest] eqn:Pr; [discriminate|].
    assert (exists s', cl_step true eol s a = Some s') as [s' Hs].
    { unfold cl_step. rewrite E, P, Pr. destruct o; try (eexists; reflexivity). destruct (cc_closed (cs_conn s)); eexists; reflexivity. }
    eapply cl_can_move_intro; exact Hs.
  - destruct (cl_not_done_actor _ H) as (b & k & E & Pn).
    assert (exists s', cl_step true eol s b = Some s') as [s' Hs].
    { unfold cl_step. rewrite E. destruct (ca_prog k) as [|o rest] eqn:Pr; [congruence|].
      destruct (ca_pc k) eqn:P.
      - rewrite L. eexists; reflexivity.
      - destruct (I2 _ _ E P) as [Hl _]. congruence.
      - eexists; reflexivity.
      - eexists; reflexivity. }
    eapply cl_can_move_intro; exact Hs.
Qed.

(* ---- every atomic action consumes the measure ---- *)
Lemma cl_cost_list_upd eol l a k k' :
  nth_error l a = Some k -> cl_actor_cost eol k' < cl_actor_cost eol k ->
  cl_cost_list eol (upd l a k') < cl_cost_list eol l.
Proof.
  revert a. induction l as [|x l IH]; intros [|a] E H; cbn in *; try discriminate.
  - inversion E; subst. lia.
  - specialize (IH _ E H). lia.
Qed.

Theorem cl_step_cost unl eol s a s' : cl_step unl eol s a = Some s' -> cl_cost eol s' < cl_cost eol s.
Proof.
  intros H. unfold cl_step in H. destruct (nth_error (cs_actors s) a) as [k|] eqn:E; [|discriminate].
  unfold cl_cost.
  destruct (ca_pc k) eqn:P; destruct (ca_prog k) as [|o rest] eqn:Pr; try discriminate.
  - destruct (cc_lock (cs_conn s)); [discriminate|]. inversion H; subst s'. cbn.
    apply (cl_cost_list_upd _ _ _ k); [exact E|]. unfold cl_actor_cost. cbn. rewrite Pr, P.
    destruct o; cbn; try lia. destruct eol; lia.
  - destruct o.
    + destruct (cc_closed (cs_conn s)); inversion H; subst s'; cbn;
        (apply (cl_cost_list_upd _ _ _ k); [exact E|]); unfold cl_actor_cost; cbn; rewrite Pr, P; cbn.
      * destruct rest; cbn; lia.
      * lia.
    + inversion H; subst s'; cbn. apply (cl_cost_list_upd _ _ _ k); [exact E|]. unfold cl_actor_cost; cbn; rewrite Pr, P; cbn.
      destruct rest; cbn; lia.
    + inversion H; subst s'; cbn. apply (cl_cost_list_upd _ _ _ k); [exact E|]. unfold cl_actor_cost; cbn; rewrite Pr, P; cbn.
      destruct rest; cbn; lia.
    + inversion H; subst s'; cbn. apply (cl_cost_list_upd _ _ _ k); [exact E|]. unfold cl_actor_cost; cbn; rewrite Pr, P; cbn.
      destruct rest; cbn; lia.
    + inversion H; subst s'; cbn. apply (cl_cost_list_upd _ _ _ k); [exact E|]. unfold cl_actor_cost; cbn; rewrite Pr, P; cbn.
      destruct rest; cbn; lia.
    + inversion H; subst s'; cbn. apply (cl_cost_list_upd _ _ _ k); [exact E|]. unfold cl_actor_cost; cbn; rewrite Pr, P; cbn.
      destruct eol; cbn; [lia|destruct rest; cbn; lia].
  - inversion H; subst s'; cbn. apply (cl_cost_list_upd _ _ _ k); [exact E|]. unfold cl_actor_cost; cbn; rewrite Pr, P; cbn. lia.
  - inversion H; subst s'; cbn. apply (cl_cost_list_upd _ _ _ k); [exact E|]. unfold cl_actor_cost; cbn; rewrite Pr, P; cbn.
    destruct rest; cbn; lia.
Qed.

(* an execution is never longer than the measure of its first state *)
Theorem cl_exec_bounded unl eol sched : forall s s',
  cl_exec unl eol sched s = Some s' -> length sched + cl_cost eol s' <= cl_cost eol s.
Proof.
  induction sched as [|a r IH]; intros s s' H; cbn in H; [inversion H; subst; cbn; lia|].
  destruct (cl_step unl eol s a) as [s1|] eqn:E; [|discriminate].
  specialize (IH _ _ H). pose proof (cl_step_cost _ _ _ _ _ E). cbn. lia.
Qed.

Lemma cl_run_cost unl eol sched : forall s, cl_cost eol (cl_run unl eol sched s) <= cl_cost eol s.
Proof.
  induction sched as [|a r IH]; intros s; cbn; [lia|].
  destruct (cl_step unl eol s a) as [s1|] eqn:E; [|apply IH].
  specialize (IH s1). pose proof (cl_step_cost _ _ _ _ _ E). lia.
Qed.

Lemma cl_run_progress unl eol sched : forall s a s1,
  In a sched -> cl_step unl eol s a = Some s1 -> cl_cost eol (cl_run unl eol sched s) < cl_cost eol s.
Proof.
  induction sched as [|b r IH]; intros s a s1 Hin Hs; [destruct Hin|]. cbn.
  destruct (cl_step unl eol s b) as [s2|] eqn:E.
  - pose proof (cl_step_cost _ _ _ _ _ E). pose proof (cl_run_cost unl eol r s2). lia.
  - destruct Hin as [->|Hin]; [congruence|]. eapply IH; eauto.
Qed.

Lemma cl_run_stuck unl eol sched : forall s, cl_can_move unl eol s = false -> Forall (fun a => a < length (cs_actors s)) sched ->
  cl_run unl eol sched s = s.
Proof.
  induction sched as [|a r IH]; intros s H F; cbn; [reflexivity|]. inversion F; subst.
  destruct (cl_step unl eol s a) as [s1|] eqn:E; [|apply IH; assumption].
  rewrite (cl_can_move_intro _ _ _ _ _ E) in H. discriminate.
Qed.

Lemma cl_seq_lt n : Forall (fun a => a < n) (seq 0 n).
Proof. apply Forall_forall. intros a H. apply in_seq in H. lia. Qed.

Lemma cl_can_move_elim unl eol s : cl_can_move unl eol s = true ->
  exists a s1, In a (seq 0 (length (cs_actors s))) /\ cl_step unl eol s a = Some s1.
Proof.
  unfold cl_can_move. intros H. apply existsb_exists in H. destruct H as (a & Hin & Hs).
  destruct (cl_step unl eol s a) as [s1|] eqn:E; [|discriminate]. exists a, s1. split; assumption.
Qed.

(* the round-robin runner of the correspondence check ends with every call returned and the mutex free *)
Theorem cl_round_robin_done eol fuel : forall s,
  cl_inv s -> cl_cost eol s < fuel -> cl_all_done (cl_round_robin true eol fuel s) = true.
Proof.
  induction fuel as [|n IH]; intros s I Hc; [lia|]. cbn [cl_round_robin].
  set (s' := cl_run true eol (seq 0 (length (cs_actors s))) s).
  assert (I' : cl_inv s') by (apply cl_run_inv; exact I).
  destruct (cl_can_move true eol s') eqn:M'.
  - apply IH; [exact I'|].
    destruct (cl_can_move true eol s) eqn:M.
    + destruct (cl_can_move_elim _ _ _ M) as (a & s1 & Hin & Hs).
      pose proof (cl_run_progress true eol _ _ _ _ Hin Hs). fold s' in H. lia.
    + assert (s' = s) by (apply cl_run_stuck; [exact M|apply cl_seq_lt]). congruence.
  - destruct (cl_all_done s') eqn:D; [reflexivity|]. rewrite (cl_no_deadlock eol s' I' D) in M'. discriminate.
Qed.

Lemma cl_all_done_count s : cl_all_done s = true -> cl_done_count s = length (cs_actors s).
Proof.
  unfold cl_all_done, cl_done_count. generalize (cs_actors s). induction l as [|k l IH]; cbn; [reflexivity|].
  intros H. apply andb_true_iff in H. destruct H as [H1 H2]. rewrite H1. cbn. f_equal. auto.
Qed.

Lemma cl_all_done_free s : cl_inv s -> cl_all_done s = true -> cc_lock (cs_conn s) = None.
Proof.
  intros [I1 _] D. destruct (cc_lock (cs_conn s)) as [a|] eqn:L; [|reflexivity].
  destruct (I1 _ eq_refl) as (k & E & S). unfold cl_in_section in S.
  assert (cl_actor_done k = true).
  { unfold cl_all_done in D. rewrite forallb_forall in D. apply D. eapply nth_error_In; exact E. }
  unfold cl_actor_done in H. destruct (ca_pc k); try discriminate. destruct (ca_prog k); discriminate.
Qed.

Theorem cl_case_all_return eol progs reader :
  let o := cl_case true eol progs reader in
  co_done o = co_total o /\ co_free o = true.
Proof.
  cbn zeta. unfold cl_case.
  set (ps := if reader then progs ++ [[ClClose]] else progs).
  set (s0 := cl_init ps).
  assert (D : cl_all_done (cl_round_robin true eol (S (cl_cost eol s0)) s0) = true)
    by (apply cl_round_robin_done; [apply cl_init_inv|lia]).
  assert (I : cl_inv (cl_round_robin true eol (S (cl_cost eol s0)) s0)).
  { generalize (S (cl_cost eol s0)). intros fuel. generalize (cl_init_inv ps). fold s0. generalize s0.
    induction fuel as [|n IH]; intros s I; cbn [cl_round_robin]; [exact I|].
    set (s' := cl_run true eol (seq 0 (length (cs_actors s))) s).
    assert (I' : cl_inv s') by (apply cl_run_inv; exact I).
    destruct (cl_can_move true eol s'); [apply IH; exact I'|exact I']. }
  unfold cl_outcome_of. cbn [co_done co_total co_free]. split.
  - apply cl_all_done_count. exact D.
  - rewrite (cl_all_done_free _ I D). reflexivity.
Qed.

(* ---- a second closeWithErr is a no-op that leaves the mutex free ---- *)
Lemma cl_upd_upd {A} (l : list A) a x y : upd (upd l a x) a y = upd l a y.
Proof. revert a. induction l as [|z l IH]; intros [|a]; cbn; auto. f_equal. apply IH. Qed.

Theorem cl_second_close_noop eol s a rest :
  nth_error (cs_actors s) a = Some (mkClA (ClClose :: rest) ClIdle) ->
  cc_lock (cs_conn s) = None -> cc_closed (cs_conn s) = true ->
  cl_exec true eol [a; a] s = Some (cl_set s (cs_conn s) a (mkClA rest ClIdle)).
Proof.
  intros E L C. pose proof (cl_nth_lt _ _ _ E) as Hlt. cbn [cl_exec]. unfold cl_step at 1. rewrite E. cbn. rewrite L.
  unfold cl_step. cbn. rewrite nth_error_upd_eq by exact Hlt. cbn. rewrite C. unfold cl_set. cbn.
  rewrite cl_upd_upd. destruct s as [c acts]. destruct c as [l cl cn sk]. cbn in *. subst. reflexivity.
Qed.

(* ---- sensitivity: without the Unlock on the already-closed branch ----
   an exchange on a UDP connection whose write fails (addQueueC; closeWithErr; deleteQueueC; pool.Release = Status)
   and the read loop reporting the same failure (closeWithErr): the second close leaves the mutex locked, the
   exchange is stuck in deleteQueueC for ever, and so is everybody who asks for the connection's Status *)
Definition cl_leak_progs : list (list cl_op) := [[ClAdd; ClClose; ClDel; ClStatus]; [ClClose]; [ClStatus]].
Definition cl_leak_sched : list nat := [0; 0; 0; 0; 0; 0; 1; 1].
Definition cl_leak_state : cl_state :=
  Eval vm_compute in cl_run false false cl_leak_sched (cl_init cl_leak_progs).

Theorem cl_lost_unlock_deadlocks :
  cl_exec false false cl_leak_sched (cl_init cl_leak_progs) = Some cl_leak_state /\
  cl_lock_orphaned cl_leak_state = true /\
  cl_can_move false false cl_leak_state = false /\
  cl_all_done cl_leak_state = false /\
  cl_done_count (cl_round_robin false false 40 (cl_init cl_leak_progs)) < 3 /\
  (* the same goroutines and schedule with the code as it is *)
  cl_lock_orphaned (cl_run true false cl_leak_sched (cl_init cl_leak_progs)) = false /\
  cl_all_done (cl_round_robin true false 40 (cl_init cl_leak_progs)) = true.
Proof. vm_compute. repeat split; try reflexivity; lia. Qed.

Theorem cl_reachable_no_deadlock eol progs s :
  cl_reachable eol progs s -> cl_all_done s = false -> cl_can_move true eol s = true.
Proof. intros R. apply cl_no_deadlock. eapply cl_reachable_inv; exact R. Qed.
