(* Net/HandOverProofs.v — proofs about the reply hand-over of the pipelined read loop (C14, round 3), over the LTS of
   Net/Pipeline.v. *)
From Mos Require Import Base.Prelude Net.Pipeline Net.PipelineProofs Net.HandOver.
Local Open Scope N_scope.

(* ---- the read loop is never blocked: in every reachable state its own next action is enabled ----
   idle: it is in (or on its way into) its read, any message the peer sends is received;
   holding a message: the lookup is enabled; holding a message and a channel: the hand-over is enabled - whether the
   channel is empty or FULL - and takes the loop back to its read. *)
Theorem ho_reader_never_blocked tcp q0 s :
  q0 <= 65536 -> reachable tcp q0 s ->
  match pl_rl s with
  | PlRIdle => pl_closed s = false -> forall i tag, i < 65536 -> exists s', pl_step s (PlLRecv i tag) = Some s'
  | PlRHold _ => exists s', pl_step s PlLLookup = Some s'
  | PlRSend _ _ => exists s', pl_step s PlLSend = Some s' /\ pl_rl s' = PlRIdle
  end.
Proof.
  intros Hq R. pose proof (reachable_inv _ _ _ Hq R) as I. pose proof (inv_rl _ _ I) as RL.
  destruct (pl_rl s) as [|m|m t] eqn:E.
  - intros C i tag Hi. cbn [pl_step]. rewrite C, E. apply N.ltb_lt in Hi. rewrite Hi. eexists. reflexivity.
  - cbn [pl_step]. rewrite E. eexists. reflexivity.
  - destruct RL as (_ & th & Et & _). cbn [pl_step]. rewrite E, Et. eexists. split; [reflexivity|].
    destruct (pl_tchan th); reflexivity.
Qed.

(* a full channel: the message is dropped, nothing else changes *)
Theorem ho_full_channel_drops s m t th x :
  pl_rl s = PlRSend m t -> pl_tget s t = Some th -> pl_tchan th = Some x ->
  pl_step s PlLSend = Some (pl_set_rl PlRIdle s).
Proof. intros E Et Ec. cbn [pl_step]. rewrite E, Et, Ec. reflexivity. Qed.

(* ---- the blocking variant ---- *)
Lemma ho_block_sub s l s' : ho_block_step s l = Some s' -> pl_step s l = Some s'.
Proof.
  destruct l; cbn [ho_block_step]; auto.
  destruct (pl_rl s) as [|m|m t]; try discriminate. destruct (pl_tget s t) as [th|] eqn:Et; try discriminate.
  destruct (pl_tchan th); [discriminate|auto].
Qed.

(* wedged: the read loop holds a message for an exchange that will never receive again and whose buffer is full *)
Lemma ho_wedged_elim s : ho_wedged s = true ->
  exists m t th x, pl_rl s = PlRSend m t /\ pl_tget s t = Some th /\ pl_tchan th = Some x /\ ho_past_wait (pl_tpc th) = true.
Proof.
  unfold ho_wedged. destruct (pl_rl s) as [|m|m t]; try discriminate.
  destruct (pl_tget s t) as [th|] eqn:Et; try discriminate. destruct (pl_tchan th) as [x|] eqn:C; try discriminate.
  intros H. exists m, t, th, x. repeat split; auto.
Qed.

Lemma ho_wedged_intro s m t th x :
  pl_rl s = PlRSend m t -> pl_tget s t = Some th -> pl_tchan th = Some x -> ho_past_wait (pl_tpc th) = true ->
  ho_wedged s = true.
Proof. intros E Et C P. unfold ho_wedged. rewrite E, Et, C. exact P. Qed.

(* the read loop of a wedged connection cannot make any of its steps, and nothing is received any more *)
Theorem ho_wedged_reader_stuck s :
  ho_wedged s = true ->
  ho_block_step s PlLSend = None /\ ho_block_step s PlLLookup = None /\ ho_block_step s PlLGarbage = None /\
  forall i tag, ho_block_step s (PlLRecv i tag) = None.
Proof.
  intros W. destruct (ho_wedged_elim _ W) as (m & t & th & x & E & Et & C & P).
  cbn [ho_block_step pl_step]. rewrite E, Et, C. repeat split; try reflexivity.
  - destruct (pl_closed s); reflexivity.
  - intros i tag. destruct (pl_closed s); [reflexivity|]. destruct (i <? 65536); reflexivity.
Qed.

Ltac ho_break H :=
  repeat match type of H with
  | context [match ?x with _ => _ end] => destruct x eqn:?; try discriminate
  end.

Lemma ho_alookup_unfold s t : pl_tget s t = pl_alookup t (pl_threads s).
Proof. reflexivity. Qed.

(* the thread table after an update of thread t': thread t keeps its entry unless t = t' *)
Lemma ho_wedged_after_tput rl thr m t th x t' th' :
  rl = PlRSend m t -> pl_alookup t thr = Some th -> pl_tchan th = Some x -> ho_past_wait (pl_tpc th) = true ->
  (t' = t -> pl_tchan th' = Some x /\ ho_past_wait (pl_tpc th') = true) ->
  match rl with
  | PlRSend _ t0 => match pl_alookup t0 (pl_aupd t' th' thr) with
                    | Some th0 => match pl_tchan th0 with Some _ => ho_past_wait (pl_tpc th0) | None => false end
                    | None => false
                    end
  | _ => false
  end = true.
Proof.
  intros -> Et C P H. destruct (N.eq_dec t' t) as [->|Hn].
  - rewrite alookup_aupd_same, Et. destruct (H eq_refl) as [A B]. rewrite A. exact B.
  - rewrite alookup_aupd_other by auto. rewrite Et, C. exact P.
Qed.

(* once wedged, always wedged: whatever the exchanges, the pool, the peer and time do *)
Theorem ho_wedged_forever q0 s l s' :
  Inv q0 s -> ho_wedged s = true -> ho_block_step s l = Some s' -> ho_wedged s' = true.
Proof.
  intros I W H. destruct (ho_wedged_reader_stuck _ W) as (S1 & S2 & S3 & S4).
  destruct (ho_wedged_elim _ W) as (m & t & th & x & E & Et & C & P).
  assert (Hsub := ho_block_sub _ _ _ H).
  destruct l as [c|t'| |t'|t' ok|i tag| | | |t'|t'|t'|t'|t'| ]; try congruence; try (rewrite S4 in H; discriminate);
    clear H; cbn [pl_step] in Hsub.
  - (* Spawn: the new thread gets a fresh number *)
    inversion Hsub; subst s'. apply (ho_wedged_intro _ m t th x); auto.
    unfold pl_tget. cbn. destruct (N.eqb_spec t (pl_nthreads s)) as [->|Hn]; [|exact Et].
    destruct (inv_threads _ _ I _ _ Et) as [Hlt _]. lia.
  - (* Cancel *)
    destruct (pl_tget s t') as [q|] eqn:Eq; [|discriminate]. inversion Hsub; subst s'. unfold ho_wedged, pl_tget, pl_tput. cbn.
    eapply ho_wedged_after_tput; [exact E|exact Et|exact C|exact P|].
    intros ->. rewrite Et in Eq. inversion Eq; subst q. cbn. split; assumption.
  - (* Reserve *)
    inversion Hsub; subst s'. destruct (pl_nextQid s + pl_reserved s <? 65535); exact W.
  - (* Add *)
    destruct (pl_tget s t') as [q|] eqn:Eq; [|discriminate]. destruct (pl_tpc q) eqn:Pq; try discriminate.
    ho_break Hsub; inversion Hsub; subst s'; unfold ho_wedged, pl_tget, pl_tput; cbn.
    all: eapply ho_wedged_after_tput; [exact E|exact Et|exact C|exact P|].
    all: intros ->; rewrite Et in Eq; inversion Eq; subst q; rewrite Pq in P; discriminate.
  - (* Write *)
    destruct (pl_tget s t') as [q|] eqn:Eq; [|discriminate]. destruct (pl_tpc q) eqn:Pq; try discriminate.
    ho_break Hsub; inversion Hsub; subst s'; unfold ho_wedged, pl_tget, pl_tput; cbn.
    all: eapply ho_wedged_after_tput; [exact E|exact Et|exact C|exact P|].
    all: intros ->; rewrite Et in Eq; inversion Eq; subst q; rewrite Pq in P; discriminate.
  - (* TakeReply *)
    destruct (pl_tget s t') as [q|] eqn:Eq; [|discriminate]. destruct (pl_tpc q) eqn:Pq; try discriminate.
    ho_break Hsub; inversion Hsub; subst s'; unfold ho_wedged, pl_tget, pl_tput; cbn.
    all: eapply ho_wedged_after_tput; [exact E|exact Et|exact C|exact P|].
    all: intros ->; rewrite Et in Eq; inversion Eq; subst q; rewrite Pq in P; discriminate.
  - (* CtxArm *)
    destruct (pl_tget s t') as [q|] eqn:Eq; [|discriminate]. destruct (pl_tpc q) eqn:Pq; try discriminate.
    ho_break Hsub; inversion Hsub; subst s'; unfold ho_wedged, pl_tget, pl_tput; cbn.
    all: eapply ho_wedged_after_tput; [exact E|exact Et|exact C|exact P|].
    all: intros ->; rewrite Et in Eq; inversion Eq; subst q; rewrite Pq in P; discriminate.
  - (* ConnArm *)
    destruct (pl_tget s t') as [q|] eqn:Eq; [|discriminate]. destruct (pl_tpc q) eqn:Pq; try discriminate.
    ho_break Hsub; inversion Hsub; subst s'; unfold ho_wedged, pl_tget, pl_tput; cbn.
    all: eapply ho_wedged_after_tput; [exact E|exact Et|exact C|exact P|].
    all: intros ->; rewrite Et in Eq; inversion Eq; subst q; rewrite Pq in P; discriminate.
  - (* Delete: the exchange returns; the read loop still holds its channel *)
    destruct (pl_tget s t') as [q|] eqn:Eq; [|discriminate]. destruct (pl_tpc q) eqn:Pq; try discriminate.
    ho_break Hsub; inversion Hsub; subst s'; unfold ho_wedged, pl_tget, pl_tput; cbn.
    all: eapply ho_wedged_after_tput; [exact E|exact Et|exact C|exact P|].
    all: intros ->; rewrite Et in Eq; inversion Eq; subst q; cbn; split; [exact C|].
    all: reflexivity.
  - (* EolClose *)
    destruct (pl_tget s t') as [q|] eqn:Eq; [|discriminate]. destruct (pl_tpc q) eqn:Pq; try discriminate.
    ho_break Hsub; inversion Hsub; subst s'; unfold ho_wedged, pl_tget, pl_tput; cbn.
    all: eapply ho_wedged_after_tput; [exact E|exact Et|exact C|exact P|].
    all: intros ->; rewrite Et in Eq; inversion Eq; subst q; cbn; split; [exact C|reflexivity].
  - (* Close *)
    inversion Hsub; subst s'. exact W.
Qed.

Lemma ho_block_run_wedged q0 ls : forall s s',
  Inv q0 s -> ho_wedged s = true -> ho_block_run ls s = Some s' -> Inv q0 s' /\ ho_wedged s' = true.
Proof.
  induction ls as [|l ls IH]; intros s s' I W H; cbn in H; [inversion H; subst; auto|].
  destruct (ho_block_step s l) as [s1|] eqn:E; [|discriminate].
  apply (IH s1 s'); [eapply step_inv; [exact I|apply ho_block_sub; exact E]|eapply ho_wedged_forever; eauto|exact H].
Qed.

Lemma ho_block_run_inv q0 ls : forall s s', Inv q0 s -> ho_block_run ls s = Some s' -> Inv q0 s'.
Proof.
  induction ls as [|l ls IH]; intros s s' I H; cbn in H; [inversion H; subst; auto|].
  destruct (ho_block_step s l) as [s1|] eqn:E; [|discriminate].
  apply (IH s1 s'); [eapply step_inv; [exact I|apply ho_block_sub; exact E]|exact H].
Qed.

Definition ho_wedge_state (tcp : bool) : pl_state :=
  match ho_block_run (removelast (ho_copies 3)) (pl_init tcp 0) with Some s => s | None => pl_init tcp 0 end.

(* THREE copies of one reply, with the blocking hand-over: the third copy finds the channel registered and full; the
   read loop is wedged and stays wedged in every continuation - it never reads again (no reply to any later exchange,
   no idle time-out, no close on a read error) - whereas two copies pass, and with the select/default of the code the
   same three copies are dropped and the next exchange on the connection gets its reply. *)
Theorem ho_blocking_handover_wedges tcp :
  ho_block_run (removelast (ho_copies 3)) (pl_init tcp 0) = Some (ho_wedge_state tcp) /\
  ho_wedged (ho_wedge_state tcp) = true /\
  ho_block_run (ho_copies 3) (pl_init tcp 0) = None /\
  (forall ls s', ho_block_run ls (ho_wedge_state tcp) = Some s' ->
     ho_wedged s' = true /\ ho_block_step s' PlLSend = None /\ ho_block_step s' PlLLookup = None /\
     ho_block_step s' PlLGarbage = None /\ forall i tag, ho_block_step s' (PlLRecv i tag) = None) /\
  (exists s2, ho_block_run (ho_copies 2 ++ ho_follow_up) (pl_init tcp 0) = Some s2 /\ pl_rl s2 = PlRIdle) /\
  (exists s3 th, pl_run (ho_copies 3 ++ ho_follow_up) (pl_init tcp 0) = Some s3 /\ pl_rl s3 = PlRIdle /\
                 pl_tget s3 1 = Some th /\ pl_tpc th = PlPLeaving (PlRMsg (PlMkMsg 3 9 50))).
Proof.
  assert (R : ho_block_run (removelast (ho_copies 3)) (pl_init tcp 0) = Some (ho_wedge_state tcp))
    by (destruct tcp; vm_compute; reflexivity).
  assert (W : ho_wedged (ho_wedge_state tcp) = true) by (destruct tcp; vm_compute; reflexivity).
  split; [exact R|]. split; [exact W|]. split; [destruct tcp; vm_compute; reflexivity|]. split.
  - intros ls s' H.
    assert (I : Inv 0 (ho_wedge_state tcp)) by (eapply ho_block_run_inv; [apply inv_init; lia|exact R]).
    destruct (ho_block_run_wedged 0 ls _ _ I W H) as [_ W']. split; [exact W'|]. apply ho_wedged_reader_stuck. exact W'.
  - split.
    + destruct tcp; eexists; (split; [vm_compute; reflexivity|reflexivity]).
    + destruct tcp; eexists; eexists; (split; [vm_compute; reflexivity|]); repeat split; vm_compute; reflexivity.
Qed.
