(* Net/DohStatus.v — what a DoH exchange (internal/upstream/transport/doh_transport.go, DoHTransport.exchange) does with
   the HTTP answer: ONE request (RoundTripper.RoundTrip — no http.Client, no redirect following); status 200 -> the
   body is the DNS answer; every other status (3xx with a Location included) -> the exchange fails.
   The excluded design follows redirects as http.Client does.  Executable definitions only. *)
From Mos Require Import Base.Prelude Net.Addr.

Local Open Scope N_scope.

Record doh_answer := {
  da_status : N;
  da_location : option (list N);      (* Location header: the URL text a redirect points at *)
  da_body : list N
}.

(* the servers of the world: what the request for a URL text is answered with *)
Definition doh_world := list N -> doh_answer.

Definition doh_is_redirect (s : N) : bool :=
  (s =? 301) || (s =? 302) || (s =? 303) || (s =? 307) || (s =? 308).

(* (the URLs requested, in order; the result) *)
Definition doh_exchange (w : doh_world) (url : list N) : list (list N) * res (list N) :=
  let a := w url in
  ([url], if da_status a =? 200 then Ok (da_body a) else Err EOther).

(* http.Client.Do: follow up to [fuel] redirects *)
Fixpoint doh_exchange_follow (fuel : nat) (w : doh_world) (url : list N) : list (list N) * res (list N) :=
  let a := w url in
  if da_status a =? 200 then ([url], Ok (da_body a))
  else
    match fuel, da_location a with
    | S f, Some loc =>
      if doh_is_redirect (da_status a)
      then let '(reqs, r) := doh_exchange_follow f w loc in (url :: reqs, r)
      else ([url], Err EOther)
    | _, _ => ([url], Err EOther)
    end.

(* the instance the dohredir kind runs: (exchange ok, number of requests) for a first answer with [status] *)
Definition doh_case (status : N) (loc : option (list N)) : bool * nat :=
  let w : doh_world := fun u => {| da_status := status; da_location := loc; da_body := [1] |} in
  let '(reqs, r) := doh_exchange w [117] in
  (is_ok r, List.length reqs).
