(* Net/PipelineProofs.v — invariants of the pipelined-connection LTS (Net/Pipeline.v), for ALL reachable
   states: any number of exchange threads, any schedule of the atomic actions, any server behaviour. *)
From Mos Require Import Base.Prelude Net.Pipeline.
From Coq Require Import ZifyN ZifyNat ZifyBool.
Local Open Scope N_scope.

(* ---------- association lists ---------- *)
Lemma alookup_aupd_same {A} k (v : A) l :
  alookup k (aupd k v l) = match alookup k l with Some _ => Some v | None => None end.
Proof.
  induction l as [|[k' v'] l IH]; cbn; auto.
  destruct (k =? k') eqn:E; cbn; rewrite E; auto.
Qed.

Lemma alookup_aupd_other {A} k k' (v : A) l : k' <> k -> alookup k' (aupd k v l) = alookup k' l.
Proof.
  intros Hn. induction l as [|[k2 v2] l IH]; cbn; auto.
  destruct (k =? k2) eqn:E; cbn.
  - apply N.eqb_eq in E. subst. destruct (k' =? k2) eqn:E2; auto. apply N.eqb_eq in E2. congruence.
  - destruct (k' =? k2); auto.
Qed.

Lemma alookup_aremove_same {A} k (l : list (N * A)) : alookup k (aremove k l) = None.
Proof.
  induction l as [|[k' v'] l IH]; cbn; auto.
  destruct (k =? k') eqn:E; cbn; auto. rewrite E. auto.
Qed.

Lemma alookup_aremove_other {A} k k' (l : list (N * A)) : k' <> k -> alookup k' (aremove k l) = alookup k' l.
Proof.
  intros Hn. induction l as [|[k2 v2] l IH]; cbn; auto.
  destruct (k =? k2) eqn:E; cbn.
  - apply N.eqb_eq in E. subst. destruct (k' =? k2) eqn:E2; auto. apply N.eqb_eq in E2. congruence.
  - destruct (k' =? k2); auto.
Qed.

Lemma in_snd_nodup {A B} (l : list (A * B)) a b w :
  NoDup (map snd l) -> In (a, w) l -> In (b, w) l -> a = b.
Proof.
  induction l as [|[x y] l IH]; cbn; [tauto|].
  intros Hnd [H1|H1] [H2|H2]; inversion Hnd; subst.
  - congruence.
  - inversion H1; subst. exfalso. apply H3. apply (in_map snd) in H2. exact H2.
  - inversion H2; subst. exfalso. apply H3. apply (in_map snd) in H1. exact H1.
  - eauto.
Qed.

Lemma in_mid_nodup (l : list pmsg) a b :
  NoDup (map mid l) -> In a l -> In b l -> mid a = mid b -> a = b.
Proof.
  induction l as [|x l IH]; cbn; [tauto|].
  intros Hnd [H1|H1] [H2|H2] E; inversion Hnd; subst; auto.
  - exfalso. apply H3. rewrite E. apply in_map. exact H2.
  - exfalso. apply H3. rewrite <- E. apply in_map. exact H1.
Qed.

(* ---------- thread table ---------- *)
Lemma tget_tput_same t th' s :
  tget (tput t th' s) t = match tget s t with Some _ => Some th' | None => None end.
Proof. unfold tget, tput. cbn. apply alookup_aupd_same. Qed.

Lemma tget_tput_other t t' th' s : t' <> t -> tget (tput t th' s) t' = tget s t'.
Proof. unfold tget, tput. cbn. apply alookup_aupd_other. Qed.

Lemma tget_tput_inv t t' th' s x :
  tget (tput t th' s) t' = Some x ->
  (t' = t /\ x = th' /\ exists th, tget s t = Some th) \/ (t' <> t /\ tget s t' = Some x).
Proof.
  destruct (N.eq_dec t' t) as [->|Hn].
  - rewrite tget_tput_same. destruct (tget s t) eqn:E; [|discriminate].
    intros H. inversion H; subst. left. eauto.
  - rewrite tget_tput_other by auto. auto.
Qed.

(* ---------- the invariant ---------- *)
Definition active (p : xpc) : Prop :=
  match p with PAdded | PWaiting | PLeaving _ => True | _ => False end.

Definition pc_result (p : xpc) : option presult :=
  match p with PLeaving r | PEol r | PReturned r => Some r | _ => None end.

(* newest first: the newest id is next-1, each older one is one less, the oldest is q0 *)
Fixpoint alog_ok (q0 next : N) (l : list (N * N)) : Prop :=
  match l with
  | [] => next = q0
  | (_, w) :: r => next = w + 1 /\ alog_ok q0 w r
  end.

Definition thread_ok (s : pstate) (t : N) (th : pthread) : Prop :=
  t < nthreads s /\
  (forall w, twid th = Some w -> In (t, w) (alog s)) /\
  (tpc th = PStart -> twid th = None) /\
  (forall m, tchan th = Some m -> twid th = Some (mhid m) /\ In m (emitted s)) /\
  (forall r, pc_result (tpc th) = Some (RMsg r) ->
     exists w, twid th = Some w /\ In (with_id r w) (emitted s) /\ mhid r = cid th).

Definition rl_ok (s : pstate) (r : rloop) : Prop :=
  match r with
  | RIdle => True
  | RHold m => In m (emitted s)
  | RSend m t => In m (emitted s) /\ exists th, tget s t = Some th /\ twid th = Some (mhid m)
  end.

Definition queue_ok (s : pstate) (q : list (N * N)) : Prop :=
  forall w t, alookup w q = Some t ->
    exists th, tget s t = Some th /\ twid th = Some w /\ active (tpc th).

Record Inv (q0 : N) (s : pstate) : Prop := {
  inv_next : nextQid s <= 65536;
  inv_alog : alog_ok q0 (nextQid s) (alog s);
  inv_threads : forall t th, tget s t = Some th -> thread_ok s t th;
  inv_log_wid : forall t w, In (t, w) (alog s) -> exists th, tget s t = Some th /\ twid th = Some w;
  inv_queue : queue_ok s (queue s);
  inv_rl : rl_ok s (rl s);
  inv_mid : forall m, In m (emitted s) -> mid m < nemit s;
  inv_mid_nodup : NoDup (map mid (emitted s))
}.

Lemma alog_ok_bounds q0 n l : alog_ok q0 n l -> q0 <= n /\ forall t w, In (t, w) l -> q0 <= w < n.
Proof.
  revert n. induction l as [|[t0 w0] l IH]; cbn; intros n H.
  - split; [lia|tauto].
  - destruct H as [-> H]. apply IH in H. destruct H as [H1 H2]. split; [lia|].
    intros t w [E|E]; [inversion E; subst; lia|]. apply H2 in E. lia.
Qed.

Lemma alog_ok_nodup q0 n l : alog_ok q0 n l -> NoDup (map snd l).
Proof.
  revert n. induction l as [|[t0 w0] l IH]; cbn; intros n H; [constructor|].
  destruct H as [-> H]. constructor; eauto.
  intros Hin. apply in_map_iff in Hin. destruct Hin as [[t w] [E Hin]]. cbn in E. subst.
  apply alog_ok_bounds in H. destruct H as [_ H]. apply H in Hin. lia.
Qed.

Lemma thread_ok_mono s s' t th :
  nthreads s <= nthreads s' -> incl (alog s) (alog s') -> incl (emitted s) (emitted s') ->
  thread_ok s t th -> thread_ok s' t th.
Proof.
  intros Hn Ha He (H1 & H2 & H3 & H4 & H5). repeat split; auto.
  - lia.
  - apply H4 in H. tauto.
  - apply He. apply H4 in H. tauto.
  - intros r Hr. destruct (H5 r Hr) as (w & ? & ? & ?). exists w. auto.
Qed.

Lemma wid_inj q0 s t1 t2 th1 th2 w :
  Inv q0 s -> tget s t1 = Some th1 -> tget s t2 = Some th2 ->
  twid th1 = Some w -> twid th2 = Some w -> t1 = t2.
Proof.
  intros I G1 G2 W1 W2.
  destruct (inv_threads _ _ I _ _ G1) as (_ & A1 & _).
  destruct (inv_threads _ _ I _ _ G2) as (_ & A2 & _).
  eapply in_snd_nodup; [eapply alog_ok_nodup, (inv_alog _ _ I)| |]; eauto.
Qed.

(* ---------- generic preservation lemmas ---------- *)
Lemma inv_init tcp q0 : q0 <= 65536 -> Inv q0 (pinit tcp q0).
Proof.
  intros H. constructor; cbn; auto; try tauto; try discriminate.
  constructor.
Qed.

Lemma inv_set_closed q0 b s : Inv q0 s -> Inv q0 (set_closed b s).
Proof. intros [A B C D E F G H]. constructor; auto. Qed.

Lemma inv_set_reserved q0 v s : Inv q0 s -> Inv q0 (set_reserved v s).
Proof. intros [A B C D E F G H]. constructor; auto. Qed.

Lemma inv_set_rl q0 r s : Inv q0 s -> rl_ok s r -> Inv q0 (set_rl r s).
Proof.
  intros [A B C D E F G H] R. constructor; auto.
Qed.

Lemma inv_set_queue q0 q s : Inv q0 s -> queue_ok s q -> Inv q0 (set_queue q s).
Proof.
  intros [A B C D E F G H] R. constructor; auto.
Qed.

(* replacing one thread's record, wire id unchanged *)
Lemma inv_tput q0 s t th th' :
  Inv q0 s -> tget s t = Some th -> twid th' = twid th -> thread_ok s t th' ->
  (forall w, alookup w (queue s) = Some t -> active (tpc th')) ->
  Inv q0 (tput t th' s).
Proof.
  intros I G W OK Q. destruct I as [A B C D E F Gm H].
  constructor; auto.
  - intros t' x Hx. apply tget_tput_inv in Hx.
    destruct Hx as [(-> & -> & _)|(Hn & Hx)].
    + eapply thread_ok_mono; [| | |exact OK]; cbn; auto using incl_refl. lia.
    + eapply thread_ok_mono; [| | |exact (C _ _ Hx)]; cbn; auto using incl_refl. lia.
  - intros t' w Hin. destruct (D _ _ Hin) as (x & Hx & Hw).
    destruct (N.eq_dec t' t) as [->|Hn].
    + exists th'. rewrite tget_tput_same, G. split; auto. rewrite W. congruence.
    + exists x. rewrite tget_tput_other by auto. auto.
  - intros w t' Hq. change (queue (tput t th' s)) with (queue s) in Hq.
    destruct (E _ _ Hq) as (x & Hx & Hw & Ha).
    destruct (N.eq_dec t' t) as [->|Hn].
    + exists th'. rewrite tget_tput_same, G. repeat split; eauto. rewrite W. congruence.
    + exists x. rewrite tget_tput_other by auto. auto.
  - change (rl (tput t th' s)) with (rl s). unfold rl_ok in *. destruct (rl s) as [|m|m t']; auto.
    destruct F as (F1 & x & Hx & Hw). split; auto.
    destruct (N.eq_dec t' t) as [->|Hn].
    + exists th'. rewrite tget_tput_same, G. split; auto. rewrite W. congruence.
    + exists x. rewrite tget_tput_other by auto. auto.
Qed.

Lemma with_id_id m i : with_id (with_id m i) (mhid m) = m.
Proof. destruct m; reflexivity. Qed.

Ltac usek4 K4 :=
  try (match goal with H : tchan _ = Some _ |- _ => destruct (K4 _ H); assumption end).

(* ---------- every step preserves the invariant ---------- *)
Lemma step_inv q0 s l s' : Inv q0 s -> pstep s l = Some s' -> Inv q0 s'.
Proof.
  intros I. destruct l; cbn [pstep].
  - (* LSpawn *)
    intros H. inversion H; subst; clear H.
    assert (Hold : forall t th, tget s t = Some th ->
              tget (set_nthreads (nthreads s + 1)
                     (set_threads ((nthreads s, mkPthread c None PStart None false) :: threads s) s)) t = Some th).
    { intros t th G. pose proof (inv_threads _ _ I _ _ G) as (Hlt & _).
      unfold tget. cbn. destruct (t =? nthreads s) eqn:E; auto. apply N.eqb_eq in E. lia. }
    destruct I as [A B C D E F Gm H].
    constructor; auto.
    + intros t th G. unfold tget in G. cbn in G.
      destruct (t =? nthreads s) eqn:Et.
      * apply N.eqb_eq in Et. inversion G; subst. unfold thread_ok; cbn. repeat split; try discriminate. lia.
      * eapply thread_ok_mono; [| | |exact (C _ _ G)]; cbn; auto using incl_refl. lia.
    + intros t w Hin. destruct (D _ _ Hin) as (x & Hx & Hw). exists x. auto.
    + intros w t Hq. destruct (E _ _ Hq) as (x & Hx & Hw). exists x. auto.
    + unfold rl_ok in *. cbn [rl set_nthreads set_threads]. destruct (rl s); auto.
      destruct F as (F1 & x & Hx & Hw). split; [exact F1|]. exists x. split; auto.
  - (* LCancel *)
    destruct (tget s t) as [th|] eqn:G; [|discriminate]. intros H; inversion H; subst; clear H.
    eapply inv_tput; eauto.
    + pose proof (inv_threads _ _ I _ _ G) as OK. exact OK.
    + intros w Hq. destruct (inv_queue _ _ I _ _ Hq) as (x & Hx & _ & Ha). rewrite G in Hx. inversion Hx; subst. exact Ha.
  - (* LReserve *)
    intros H; inversion H; subst; clear H. destruct (_ <? _); auto using inv_set_reserved.
  - (* LAdd *)
    destruct (tget s t) as [th|] eqn:G; [|discriminate].
    destruct (tpc th) eqn:P; try discriminate.
    set (s1 := if 0 <? reserved s then set_reserved (reserved s - 1) s else s).
    assert (I1 : Inv q0 s1) by (unfold s1; destruct (_ <? _); auto using inv_set_reserved).
    assert (G1 : tget s1 t = Some th) by (unfold s1; destruct (_ <? _); auto).
    assert (N1 : nextQid s1 = nextQid s) by (unfold s1; destruct (_ <? _); auto).
    assert (Q1 : queue s1 = queue s) by (unfold s1; destruct (_ <? _); auto).
    assert (A1 : alog s1 = alog s) by (unfold s1; destruct (_ <? _); auto).
    pose proof (inv_threads _ _ I1 _ _ G1) as (K1 & K2 & K3 & K4 & K5).
    pose proof (K3 P) as Wn.
    destruct (65535 <? nextQid s) eqn:Eol.
    + (* errPipelineConnEoL *)
      intros H; inversion H; subst; clear H.
      eapply inv_tput; eauto.
      * unfold thread_ok; cbn. repeat split; auto; try discriminate; usek4 K4.
      * intros w Hq. destruct (inv_queue _ _ I1 _ _ Hq) as (x & Hx & Hw & _).
        rewrite G1 in Hx. inversion Hx; subst. congruence.
    + intros H; inversion H; subst; clear H.
      apply N.ltb_ge in Eol.
      assert (Hq : nextQid s mod 65536 = nextQid s) by (apply N.mod_small; lia).
      rewrite Hq. clear Hq.
      fold s1.
      set (q := nextQid s).
      set (th' := th_pc PAdded (th_wid (Some q) th)).
      set (s2 := set_alog ((t, q) :: alog s) (set_queue (aset q t (queue s)) (set_nextQid (q + 1) s1))).
      assert (G2 : tget s2 t = Some th) by exact G1.
      assert (Hother : forall t' x, t' <> t -> tget s1 t' = Some x -> tget (tput t th' s2) t' = Some x).
      { intros t' x Hn Hx. rewrite tget_tput_other by auto. exact Hx. }
      assert (Hsame : tget (tput t th' s2) t = Some th').
      { rewrite tget_tput_same, G2. reflexivity. }
      destruct I1 as [A B C D E F Gm Hnd].
      constructor.
      * cbn. unfold q. lia.
      * cbn. split; [reflexivity|]. rewrite <- A1. unfold q. rewrite <- N1. exact B.
      * intros t' x Hx. apply tget_tput_inv in Hx.
        destruct Hx as [(-> & -> & _)|(Hn & Hx)].
        -- unfold thread_ok, th'; cbn. repeat split; auto; try discriminate.
           ++ intros w Hw. inversion Hw; subst. left. reflexivity.
           ++ destruct (K4 _ H) as [W _]. congruence.
           ++ destruct (K4 _ H) as [W _]. congruence.
        -- eapply thread_ok_mono; [| | |exact (C _ _ Hx)]; cbn; auto using incl_refl; try lia.
           rewrite A1. apply incl_tl, incl_refl.
      * intros t' w Hin. cbn in Hin. destruct Hin as [Hin|Hin].
        -- inversion Hin; subst. exists th'. split; auto.
        -- rewrite <- A1 in Hin. destruct (D _ _ Hin) as (x & Hx & Hw).
           destruct (N.eq_dec t' t) as [->|Hn]; [rewrite G1 in Hx; inversion Hx; subst; congruence|].
           exists x. auto.
      * intros w t' Hlk. change (queue (tput t th' s2)) with (aset q t (queue s)) in Hlk.
        unfold aset in Hlk. cbn in Hlk.
        destruct (w =? q) eqn:Ew.
        -- apply N.eqb_eq in Ew. inversion Hlk; subst. exists th'. repeat split; auto.
        -- apply N.eqb_neq in Ew. rewrite alookup_aremove_other in Hlk by auto.
           rewrite <- Q1 in Hlk. destruct (E _ _ Hlk) as (x & Hx & Hw & Ha).
           destruct (N.eq_dec t' t) as [->|Hn]; [rewrite G1 in Hx; inversion Hx; subst; congruence|].
           exists x. auto.
      * change (rl (tput t th' s2)) with (rl s1). unfold rl_ok in *.
        destruct (rl s1) as [|m|m t']; auto.
        destruct F as (F1 & x & Hx & Hw). split; [exact F1|].
        destruct (N.eq_dec t' t) as [->|Hn]; [rewrite G1 in Hx; inversion Hx; subst; congruence|].
        exists x. auto.
      * exact Gm.
      * exact Hnd.
  - (* LWrite *)
    destruct (tget s t) as [th|] eqn:G; [|discriminate].
    destruct (tpc th) eqn:P; try discriminate.
    pose proof (inv_threads _ _ I _ _ G) as (K1 & K2 & K3 & K4 & K5).
    destruct ok.
    + destruct (closed s); [discriminate|]. intros H; inversion H; subst; clear H.
      eapply inv_tput; eauto.
      * unfold thread_ok; cbn. repeat split; auto; try discriminate; usek4 K4.
      * intros; cbn; trivial.
    + intros H; inversion H; subst; clear H.
      eapply inv_tput; eauto.
      * unfold thread_ok; cbn. repeat split; auto; try discriminate; usek4 K4.
      * intros; cbn; trivial.
  - (* LRecv *)
    destruct (closed s); [discriminate|]. destruct (i <? 65536); [|discriminate].
    destruct (rl s) eqn:R; try discriminate. intros H; inversion H; subst; clear H.
    destruct I as [A B C D E F Gm Hnd].
    constructor; auto.
    + intros t th G. eapply thread_ok_mono; [| | |exact (C _ _ G)]; cbn; auto using incl_refl; try lia.
      apply incl_tl, incl_refl.
    + cbn. left. reflexivity.
    + cbn. intros m [<-|Hin]; cbn; [lia|]. apply Gm in Hin. lia.
    + cbn. constructor; auto. intros Hin. apply in_map_iff in Hin. destruct Hin as (m & Em & Hin).
      apply Gm in Hin. lia.
  - (* LGarbage *)
    destruct (closed s); [discriminate|]. destruct (rl s); try discriminate.
    intros H; inversion H; subst; clear H. destruct (istcp s); auto using inv_set_closed.
  - (* LLookup *)
    destruct (rl s) as [|m|m t] eqn:R; try discriminate. intros H; inversion H; subst; clear H.
    apply inv_set_rl; auto.
    pose proof (inv_rl _ _ I) as F. rewrite R in F. cbn in F.
    destruct (alookup (mhid m) (queue s)) as [t|] eqn:Q; cbn; auto.
    destruct (inv_queue _ _ I _ _ Q) as (x & Hx & Hw & _). split; eauto.
  - (* LSend *)
    destruct (rl s) as [|m|m t] eqn:R; try discriminate.
    destruct (tget s t) as [th|] eqn:G; [|discriminate]. intros H; inversion H; subst; clear H.
    pose proof (inv_rl _ _ I) as F. rewrite R in F. cbn in F. destruct F as (F1 & x & Hx & Hw).
    rewrite G in Hx. inversion Hx; subst x; clear Hx.
    pose proof (inv_threads _ _ I _ _ G) as (K1 & K2 & K3 & K4 & K5).
    apply inv_set_rl; [|cbn; trivial].
    destruct (tchan th) eqn:Ch; auto.
    eapply inv_tput; eauto.
    + unfold thread_ok; cbn. repeat split; auto.
      * inversion H; subst; auto.
      * inversion H; subst; auto.
    + intros w Hq. destruct (inv_queue _ _ I _ _ Hq) as (x & Hx & _ & Ha). rewrite G in Hx. inversion Hx; subst. exact Ha.
  - (* LTakeReply *)
    destruct (tget s t) as [th|] eqn:G; [|discriminate].
    destruct (tpc th) eqn:P; try discriminate.
    destruct (tchan th) as [m|] eqn:Ch; [|discriminate]. intros H; inversion H; subst; clear H.
    pose proof (inv_threads _ _ I _ _ G) as (K1 & K2 & K3 & K4 & K5).
    destruct (K4 _ Ch) as [W Hin].
    eapply inv_tput; eauto.
    + unfold thread_ok; cbn. repeat split; auto; try discriminate; usek4 K4.
      intros r Hr. inversion Hr; subst. exists (mhid m). rewrite with_id_id. auto.
    + intros; cbn; trivial.
  - (* LCtxArm *)
    destruct (tget s t) as [th|] eqn:G; [|discriminate].
    destruct (tpc th) eqn:P; try discriminate.
    destruct (tcancel th); [|discriminate]. intros H; inversion H; subst; clear H.
    pose proof (inv_threads _ _ I _ _ G) as (K1 & K2 & K3 & K4 & K5).
    eapply inv_tput; eauto.
    + unfold thread_ok; cbn. repeat split; auto; try discriminate; usek4 K4.
    + intros; cbn; trivial.
  - (* LConnArm *)
    destruct (tget s t) as [th|] eqn:G; [|discriminate].
    destruct (tpc th) eqn:P; try discriminate.
    destruct (closed s); [|discriminate]. intros H; inversion H; subst; clear H.
    pose proof (inv_threads _ _ I _ _ G) as (K1 & K2 & K3 & K4 & K5).
    eapply inv_tput; eauto.
    + unfold thread_ok; cbn. repeat split; auto; try discriminate; usek4 K4.
    + intros; cbn; trivial.
  - (* LDelete *)
    destruct (tget s t) as [th|] eqn:G; [|discriminate].
    destruct (tpc th) eqn:P; try discriminate.
    destruct (twid th) as [w|] eqn:W; [|discriminate]. intros H; inversion H; subst; clear H.
    pose proof (inv_threads _ _ I _ _ G) as (K1 & K2 & K3 & K4 & K5).
    assert (QO : queue_ok s (aremove w (queue s))).
    { intros w' t' Hq. destruct (N.eq_dec w' w) as [->|Hn]; [rewrite alookup_aremove_same in Hq; discriminate|].
      rewrite alookup_aremove_other in Hq by auto. exact (inv_queue _ _ I _ _ Hq). }
    eapply inv_tput; [apply inv_set_queue; eauto|exact G|reflexivity| |].
    + unfold thread_ok. rewrite P in K5.
      destruct (_ && _); cbn; repeat split; auto; try discriminate; usek4 K4.
    + intros w' Hq. cbn in Hq.
      destruct (N.eq_dec w' w) as [->|Hn]; [rewrite alookup_aremove_same in Hq; discriminate|].
      rewrite alookup_aremove_other in Hq by auto.
      destruct (inv_queue _ _ I _ _ Hq) as (x & Hx & Hw & _). rewrite G in Hx. inversion Hx; subst. congruence.
  - (* LEolClose *)
    destruct (tget s t) as [th|] eqn:G; [|discriminate].
    destruct (tpc th) eqn:P; try discriminate. intros H; inversion H; subst; clear H.
    pose proof (inv_threads _ _ I _ _ G) as (K1 & K2 & K3 & K4 & K5).
    eapply inv_tput; [apply inv_set_closed; eauto|exact G|reflexivity| |].
    + unfold thread_ok. rewrite P in K5. cbn. repeat split; auto; try discriminate; usek4 K4.
    + intros w' Hq. cbn in Hq.
      destruct (inv_queue _ _ I _ _ Hq) as (x & Hx & _ & Ha). rewrite G in Hx. inversion Hx; subst.
      rewrite P in Ha. exact Ha.
  - (* LClose *)
    intros H; inversion H; subst; clear H. apply inv_set_closed; auto.
Qed.

Lemma run_inv q0 ls s s' : Inv q0 s -> run ls s = Some s' -> Inv q0 s'.
Proof.
  revert s. induction ls as [|l ls IH]; cbn; intros s I H.
  - inversion H; subst; auto.
  - destruct (pstep s l) eqn:E; [|discriminate]. eapply IH; [|exact H]. eapply step_inv; eauto.
Qed.

Definition reachable (tcp : bool) (q0 : N) (s : pstate) : Prop :=
  exists ls, run ls (pinit tcp q0) = Some s.

Lemma reachable_inv tcp q0 s : q0 <= 65536 -> reachable tcp q0 s -> Inv q0 s.
Proof. intros H [ls R]. eapply run_inv; [apply inv_init; exact H|exact R]. Qed.

Lemma run_app ls1 ls2 s s1 s2 : run ls1 s = Some s1 -> run ls2 s1 = Some s2 -> run (ls1 ++ ls2) s = Some s2.
Proof.
  revert s. induction ls1 as [|l ls1 IH]; cbn; intros s H1 H2.
  - inversion H1; subst; auto.
  - destruct (pstep s l); [|discriminate]. eauto.
Qed.

Lemma reachable_run tcp q0 s ls s' : reachable tcp q0 s -> run ls s = Some s' -> reachable tcp q0 s'.
Proof. intros [l0 R] H. exists (l0 ++ ls). eapply run_app; eauto. Qed.

(* ====================================================================================== *)
(* C05_ids_fresh                                                                          *)
(* ====================================================================================== *)
Fixpoint nseq (a : N) (n : nat) : list N :=
  match n with O => [] | S k => a :: nseq (a + 1) k end.

(* wire ids in the order they were assigned *)
Definition assigned_ids (s : pstate) : list N := rev (map snd (alog s)).

Lemma nseq_snoc a n : nseq a n ++ [a + N.of_nat n] = nseq a (S n).
Proof.
  revert a. induction n as [|n IH]; intros a.
  - cbn. f_equal. lia.
  - cbn [nseq app]. f_equal. specialize (IH (a + 1)). cbn [nseq] in IH. rewrite <- IH. f_equal. f_equal. lia.
Qed.

Lemma alog_ok_seq q0 n l :
  alog_ok q0 n l -> rev (map snd l) = nseq q0 (length l) /\ n = q0 + N.of_nat (length l).
Proof.
  revert n. induction l as [|[t w] l IH]; cbn [alog_ok map rev length snd]; intros n H.
  - split; [reflexivity|]. cbn. lia.
  - destruct H as [-> H]. destruct (IH _ H) as [E1 E2]. split.
    + rewrite E1. rewrite E2 at 1. apply nseq_snoc.
    + lia.
Qed.

Lemma nseq_in a n x : In x (nseq a n) -> a <= x < a + N.of_nat n.
Proof.
  revert a. induction n as [|n IH]; cbn [nseq]; intros a H; [destruct H|].
  destruct H as [<-|H]; [lia|]. apply IH in H. lia.
Qed.

Lemma nseq_nodup a n : NoDup (nseq a n).
Proof.
  revert a. induction n as [|n IH]; intros a; cbn [nseq]; constructor; auto.
  intros H. apply nseq_in in H. lia.
Qed.

Theorem ids_fresh tcp q0 s :
  q0 <= 65536 -> reachable tcp q0 s ->
  assigned_ids s = nseq q0 (length (alog s)) /\
  nextQid s = q0 + N.of_nat (length (alog s)) /\
  nextQid s <= 65536 /\
  (forall w, In w (assigned_ids s) -> q0 <= w <= 65535) /\
  NoDup (assigned_ids s).
Proof.
  intros Hq R. pose proof (reachable_inv _ _ _ Hq R) as I.
  destruct (alog_ok_seq _ _ _ (inv_alog _ _ I)) as [E1 E2].
  pose proof (inv_next _ _ I) as Hn.
  unfold assigned_ids. rewrite E1. repeat split; auto.
  - apply nseq_in in H. lia.
  - apply nseq_in in H. lia.
  - apply nseq_nodup.
Qed.

(* the id an exchange holds is the one logged for it, and two exchanges never hold the same id *)
Theorem ids_exchange tcp q0 s :
  q0 <= 65536 -> reachable tcp q0 s ->
  (forall t th w, tget s t = Some th -> twid th = Some w -> In w (assigned_ids s)) /\
  (forall t1 t2 th1 th2 w, tget s t1 = Some th1 -> tget s t2 = Some th2 ->
     twid th1 = Some w -> twid th2 = Some w -> t1 = t2).
Proof.
  intros Hq R. pose proof (reachable_inv _ _ _ Hq R) as I. split.
  - intros t th w G W. destruct (inv_threads _ _ I _ _ G) as (_ & K2 & _).
    unfold assigned_ids. rewrite <- in_rev. apply K2 in W. apply (in_map snd) in W. exact W.
  - intros. eapply wid_inj; eauto.
Qed.

(* the waiter table is never overwritten: the id addQueueC is about to assign has no entry *)
Theorem add_no_overwrite tcp q0 s :
  q0 <= 65536 -> reachable tcp q0 s -> forall w, nextQid s <= w -> alookup w (queue s) = None.
Proof.
  intros Hq R w Hw. pose proof (reachable_inv _ _ _ Hq R) as I.
  destruct (alookup w (queue s)) as [t|] eqn:Q; auto.
  destruct (inv_queue _ _ I _ _ Q) as (x & Hx & Hwid & _).
  destruct (inv_threads _ _ I _ _ Hx) as (_ & K2 & _).
  apply K2 in Hwid. apply (alog_ok_bounds _ _ _ (inv_alog _ _ I)) in Hwid. lia.
Qed.

(* after the last id (65535) has been used addQueueC fails: nothing is assigned, nothing wraps *)
Theorem add_exhausted tcp q0 s t th :
  q0 <= 65536 -> reachable tcp q0 s -> nextQid s = 65536 ->
  tget s t = Some th -> tpc th = PStart ->
  status_available s = false /\
  exists s' th', pstep s (LAdd t) = Some s' /\
    tget s' t = Some th' /\ tpc th' = PReturned RErrEoL /\ twid th' = None /\
    nextQid s' = 65536 /\ alog s' = alog s /\ queue s' = queue s.
Proof.
  intros Hq R Hn G P. pose proof (reachable_inv _ _ _ Hq R) as I.
  destruct (inv_threads _ _ I _ _ G) as (_ & _ & K3 & _).
  split.
  - unfold status_available. rewrite Hn. apply N.leb_gt. lia.
  - cbn [pstep]. rewrite G, P. rewrite Hn. cbn [N.ltb N.compare Pos.compare Pos.compare_cont].
    replace (65535 <? 65536) with true by reflexivity.
    eexists. eexists. split; [reflexivity|].
    rewrite tget_tput_same.
    assert (E : tget (if 0 <? reserved s then set_reserved (reserved s - 1) s else s) t = Some th)
      by (destruct (0 <? reserved s); exact G).
    rewrite E. repeat split; cbn; auto; destruct (0 <? reserved s); cbn; auto.
Qed.

(* ... and the exhausted connection retires itself when its last waiter leaves *)
Theorem retire_when_drained s t th r w :
  nextQid s = 65536 -> tget s t = Some th -> tpc th = PLeaving r -> twid th = Some w ->
  queue s = [(w, t)] ->
  exists s1 s2, pstep s (LDelete t) = Some s1 /\ pstep s1 (LEolClose t) = Some s2 /\
    closed s2 = true /\ queue s2 = [] /\ status_available s2 = false /\
    exists th2, tget s2 t = Some th2 /\ tpc th2 = PReturned r.
Proof.
  intros Hn G P W Q.
  set (s1 := tput t (th_pc (PEol r) th) (set_queue [] s)).
  assert (S1 : pstep s (LDelete t) = Some s1).
  { cbn [pstep]. rewrite G, P, W, Q, Hn. cbn [aremove]. rewrite N.eqb_refl. reflexivity. }
  assert (G1 : tget s1 t = Some (th_pc (PEol r) th)).
  { unfold s1. rewrite tget_tput_same. change (tget (set_queue [] s) t) with (tget s t). rewrite G. reflexivity. }
  set (s2 := tput t (th_pc (PReturned r) (th_pc (PEol r) th)) (set_closed true s1)).
  assert (S2 : pstep s1 (LEolClose t) = Some s2).
  { cbn [pstep]. rewrite G1. reflexivity. }
  exists s1, s2. repeat split; auto.
  - unfold status_available. cbn. rewrite Hn. apply N.leb_gt. lia.
  - eexists. split.
    + unfold s2. rewrite tget_tput_same. change (tget (set_closed true s1) t) with (tget s1 t). rewrite G1. reflexivity.
    + reflexivity.
Qed.

(* ====================================================================================== *)
(* C05_delivery, C05_no_double                                                            *)
(* ====================================================================================== *)
Lemma with_id_back r w : with_id (with_id r w) (mhid r) = r.
Proof. destruct r; reflexivity. Qed.

Theorem delivery tcp q0 s t th r :
  q0 <= 65536 -> reachable tcp q0 s ->
  tget s t = Some th -> pc_result (tpc th) = Some (RMsg r) ->
  exists w m, twid th = Some w /\ In m (emitted s) /\ mhid m = w /\ mhid m < 65536 /\ r = with_id m (cid th).
Proof.
  intros Hq R G P. pose proof (reachable_inv _ _ _ Hq R) as I.
  destruct (inv_threads _ _ I _ _ G) as (_ & K2 & _ & _ & K5).
  destruct (K5 _ P) as (w & W & Hin & Hc).
  exists w, (with_id r w). repeat split; auto.
  - cbn. apply K2 in W. apply (alog_ok_bounds _ _ _ (inv_alog _ _ I)) in W.
    pose proof (inv_next _ _ I). lia.
  - rewrite <- Hc. symmetry. apply with_id_back.
Qed.

Theorem no_double tcp q0 s t1 t2 th1 th2 r1 r2 :
  q0 <= 65536 -> reachable tcp q0 s ->
  tget s t1 = Some th1 -> tget s t2 = Some th2 ->
  pc_result (tpc th1) = Some (RMsg r1) -> pc_result (tpc th2) = Some (RMsg r2) ->
  mid r1 = mid r2 -> t1 = t2.
Proof.
  intros Hq R G1 G2 P1 P2 E. pose proof (reachable_inv _ _ _ Hq R) as I.
  destruct (inv_threads _ _ I _ _ G1) as (_ & _ & _ & _ & K5).
  destruct (inv_threads _ _ I _ _ G2) as (_ & _ & _ & _ & L5).
  destruct (K5 _ P1) as (w1 & W1 & In1 & _). destruct (L5 _ P2) as (w2 & W2 & In2 & _).
  assert (Em : with_id r1 w1 = with_id r2 w2).
  { eapply in_mid_nodup; eauto using (inv_mid_nodup _ _ I). }
  assert (w1 = w2) by (inversion Em; auto). subst w2.
  eapply wid_inj; eauto.
Qed.

(* the one-slot channel never holds, and the read loop never forwards, a message for a foreign id *)
Theorem routing tcp q0 s :
  q0 <= 65536 -> reachable tcp q0 s ->
  (forall t th m, tget s t = Some th -> tchan th = Some m -> twid th = Some (mhid m) /\ In m (emitted s)) /\
  (forall m t, rl s = RSend m t -> exists th, tget s t = Some th /\ twid th = Some (mhid m)).
Proof.
  intros Hq R. pose proof (reachable_inv _ _ _ Hq R) as I. split.
  - intros t th m G C. destruct (inv_threads _ _ I _ _ G) as (_ & _ & _ & K4 & _). auto.
  - intros m t E. pose proof (inv_rl _ _ I) as F. rewrite E in F. cbn in F. tauto.
Qed.

(* ====================================================================================== *)
(* C05_late_reply                                                                         *)
(* ====================================================================================== *)
(* Once exchange t has chosen its outcome ... *)
Definition decided (th : pthread) : Prop := pc_result (tpc th) <> None.
(* ... and its deferred deleteQueueC has run *)
Definition left_queue (th : pthread) : Prop :=
  match tpc th with PEol _ | PReturned _ => True | _ => False end.

(* what can never be undone by later steps *)
Definition ext (s s' : pstate) : Prop :=
  incl (emitted s) (emitted s') /\ nemit s <= nemit s' /\
  forall t th, tget s t = Some th ->
    exists th', tget s' t = Some th' /\ cid th' = cid th /\
      (forall w, twid th = Some w -> twid th' = Some w) /\
      (forall r, pc_result (tpc th) = Some r -> pc_result (tpc th') = Some r) /\
      (left_queue th -> left_queue th').

Lemma ext_refl s : ext s s.
Proof. repeat split; auto using incl_refl; try lia. intros t th G. exists th. auto. Qed.

Lemma ext_trans a b c : ext a b -> ext b c -> ext a c.
Proof.
  intros (A1 & A2 & A3) (B1 & B2 & B3). repeat split.
  - eapply incl_tran; eauto.
  - lia.
  - intros t th G. destruct (A3 _ _ G) as (x & Gx & C1 & W1 & R1 & L1).
    destruct (B3 _ _ Gx) as (y & Gy & C2 & W2 & R2 & L2).
    exists y. repeat split; auto. congruence.
Qed.

Lemma ext_same s s' :
  threads s' = threads s -> emitted s' = emitted s -> nemit s' = nemit s -> ext s s'.
Proof.
  intros T E Nn. unfold ext, tget. rewrite T, E, Nn. repeat split; auto using incl_refl; try lia.
  intros t th G. exists th. auto.
Qed.

Lemma ext_tput s t th th' :
  tget s t = Some th -> cid th' = cid th ->
  (forall w, twid th = Some w -> twid th' = Some w) ->
  (forall r, pc_result (tpc th) = Some r -> pc_result (tpc th') = Some r) ->
  (left_queue th -> left_queue th') ->
  ext s (tput t th' s).
Proof.
  intros G C W P L. split; [apply incl_refl|]. split; [cbn; lia|].
  intros t' x Gx. destruct (N.eq_dec t' t) as [->|Hn].
  - rewrite G in Gx. inversion Gx; subst x. exists th'. rewrite tget_tput_same, G. auto.
  - exists x. rewrite tget_tput_other by auto. auto.
Qed.

Ltac exttac P :=
  eapply ext_tput; eauto; unfold left_queue; try rewrite P; cbn; try discriminate; try tauto.

Lemma step_ext q0 s l s' : Inv q0 s -> pstep s l = Some s' -> ext s s'.
Proof.
  intros I. destruct l; cbn [pstep].
  - intros H; inversion H; subst; clear H. repeat split; cbn; auto using incl_refl; try lia.
    intros t th G. exists th. repeat split; auto.
    destruct (inv_threads _ _ I _ _ G) as (K1 & _).
    unfold tget. cbn. destruct (t =? nthreads s) eqn:E; auto. apply N.eqb_eq in E. lia.
  - destruct (tget s t) as [th|] eqn:G; [|discriminate]. intros H; inversion H; subst; clear H.
    eapply ext_tput; eauto.
  - intros H; inversion H; subst; clear H. destruct (_ <? _); [apply ext_same; reflexivity|apply ext_refl].
  - destruct (tget s t) as [th|] eqn:G; [|discriminate].
    destruct (tpc th) eqn:P; try discriminate.
    destruct (inv_threads _ _ I _ _ G) as (_ & _ & K3 & _). pose proof (K3 P) as Wn.
    set (s1 := if 0 <? reserved s then set_reserved (reserved s - 1) s else s).
    assert (E1 : ext s s1) by (unfold s1; destruct (_ <? _); [apply ext_same; reflexivity|apply ext_refl]).
    assert (G1 : tget s1 t = Some th) by (unfold s1; destruct (_ <? _); auto).
    destruct (65535 <? nextQid s).
    + intros H; inversion H; subst; clear H. eapply ext_trans; [exact E1|].
      exttac P.
    + intros H; inversion H; subst; clear H. eapply ext_trans; [exact E1|]. fold s1.
      eapply ext_trans; [|eapply ext_tput with (th := th)]; [apply ext_same; reflexivity|exact G1|reflexivity| | |].
      * rewrite Wn. discriminate.
      * rewrite P. discriminate.
      * unfold left_queue. rewrite P. tauto.
  - destruct (tget s t) as [th|] eqn:G; [|discriminate].
    destruct (tpc th) eqn:P; try discriminate.
    destruct ok.
    + destruct (closed s); [discriminate|]. intros H; inversion H; subst; clear H.
      exttac P.
    + intros H; inversion H; subst; clear H.
      exttac P.
  - destruct (closed s); [discriminate|]. destruct (i <? 65536); [|discriminate].
    destruct (rl s); try discriminate. intros H; inversion H; subst; clear H.
    repeat split; cbn; try lia.
    + apply incl_tl, incl_refl.
    + intros t th G. exists th. auto.
  - destruct (closed s); [discriminate|]. destruct (rl s); try discriminate.
    intros H; inversion H; subst; clear H. destruct (istcp s); [apply ext_same; reflexivity|apply ext_refl].
  - destruct (rl s); try discriminate. intros H; inversion H; subst; clear H. apply ext_same; reflexivity.
  - destruct (rl s) as [|m|m t]; try discriminate.
    destruct (tget s t) as [th|] eqn:G; [|discriminate]. intros H; inversion H; subst; clear H.
    destruct (tchan th).
    + apply ext_same; reflexivity.
    + eapply ext_trans; [eapply ext_tput with (th := th) (th' := th_chan (Some m) th); eauto|].
      apply ext_same; reflexivity.
  - destruct (tget s t) as [th|] eqn:G; [|discriminate].
    destruct (tpc th) eqn:P; try discriminate.
    destruct (tchan th); [|discriminate]. intros H; inversion H; subst; clear H.
    exttac P.
  - destruct (tget s t) as [th|] eqn:G; [|discriminate].
    destruct (tpc th) eqn:P; try discriminate.
    destruct (tcancel th); [|discriminate]. intros H; inversion H; subst; clear H.
    exttac P.
  - destruct (tget s t) as [th|] eqn:G; [|discriminate].
    destruct (tpc th) eqn:P; try discriminate.
    destruct (closed s); [|discriminate]. intros H; inversion H; subst; clear H.
    exttac P.
  - destruct (tget s t) as [th|] eqn:G; [|discriminate].
    destruct (tpc th) eqn:P; try discriminate.
    destruct (twid th) as [w|] eqn:W; [|discriminate]. intros H; inversion H; subst; clear H.
    eapply ext_trans; [apply (ext_same s (set_queue (aremove w (queue s)) s)); reflexivity|].
    eapply ext_tput; eauto.
    + rewrite P. cbn. intros r0 Hr. destruct (_ && _); exact Hr.
    + unfold left_queue. rewrite P. tauto.
  - destruct (tget s t) as [th|] eqn:G; [|discriminate].
    destruct (tpc th) eqn:P; try discriminate. intros H; inversion H; subst; clear H.
    eapply ext_trans; [apply (ext_same s (set_closed true s)); reflexivity|].
    eapply ext_tput; eauto.
    + rewrite P. cbn. auto.
    + unfold left_queue. cbn. auto.
  - intros H; inversion H; subst; clear H. apply ext_same; reflexivity.
Qed.

Lemma run_ext q0 ls s s' : Inv q0 s -> run ls s = Some s' -> ext s s'.
Proof.
  revert s. induction ls as [|l ls IH]; cbn; intros s I H.
  - inversion H; subst. apply ext_refl.
  - destruct (pstep s l) as [s1|] eqn:E; [|discriminate].
    eapply ext_trans; [eapply step_ext; eauto|]. eapply IH; eauto. eapply step_inv; eauto.
Qed.

(* (a) discarded: after deleteQueueC the id has no waiter (and never will: ids are fresh), so getQueueC
       returns nil for any later message carrying it *)
Theorem late_reply_discarded tcp q0 s t th w :
  q0 <= 65536 -> reachable tcp q0 s ->
  tget s t = Some th -> twid th = Some w -> left_queue th ->
  forall ls s', run ls s = Some s' -> alookup w (queue s') = None.
Proof.
  intros Hq R G W L ls s' Run.
  pose proof (reachable_inv _ _ _ Hq R) as I.
  pose proof (run_inv _ _ _ _ I Run) as I'.
  destruct (run_ext _ _ _ _ I Run) as (_ & _ & E3).
  destruct (E3 _ _ G) as (th' & G' & _ & W' & P' & L').
  destruct (alookup w (queue s')) as [t'|] eqn:Q; auto.
  destruct (inv_queue _ _ I' _ _ Q) as (x & Gx & Wx & Ax).
  assert (t' = t) by (eapply wid_inj; eauto). subst t'.
  rewrite G' in Gx. inversion Gx; subst x; clear Gx.
  apply L' in L. unfold left_queue in L. destruct (tpc th'); cbn in *; contradiction.
Qed.

(* (b) a message instance received after exchange t decided (instance number >= nemit s), carrying t's
       wire id, is never returned by ANY exchange, whatever happens later *)
Theorem late_reply_never_returned tcp q0 s t th w :
  q0 <= 65536 -> reachable tcp q0 s ->
  tget s t = Some th -> twid th = Some w -> decided th ->
  forall ls s', run ls s = Some s' ->
  forall m, In m (emitted s') -> nemit s <= mid m -> mhid m = w ->
  forall t' th' r, tget s' t' = Some th' -> pc_result (tpc th') = Some (RMsg r) -> mid r <> mid m.
Proof.
  intros Hq R G W D ls s' Run m Hm Hlate Hid t' th' r G' P' Emid.
  pose proof (reachable_inv _ _ _ Hq R) as I.
  pose proof (run_inv _ _ _ _ I Run) as I'.
  destruct (run_ext _ _ _ _ I Run) as (_ & _ & E3).
  destruct (E3 _ _ G) as (th1 & G1 & _ & W1 & P1 & _).
  destruct (inv_threads _ _ I' _ _ G') as (_ & _ & _ & _ & K5).
  destruct (K5 _ P') as (w' & Ww' & Hin' & _).
  assert (Em : with_id r w' = m).
  { eapply in_mid_nodup; eauto using (inv_mid_nodup _ _ I'). }
  assert (w' = w) by (rewrite <- Hid, <- Em; reflexivity). subst w'.
  assert (t' = t) by (eapply wid_inj; eauto). subst t'.
  rewrite G1 in G'. inversion G'; subst th'; clear G'.
  unfold decided in D. destruct (pc_result (tpc th)) as [r0|] eqn:P0; [|congruence].
  specialize (P1 _ eq_refl). rewrite P1 in P'. inversion P'; subst r0; clear P'.
  destruct (inv_threads _ _ I _ _ G) as (_ & _ & _ & _ & L5).
  destruct (L5 _ P0) as (w0 & Ww0 & Hin0 & _).
  apply (inv_mid _ _ I) in Hin0. cbn in Hin0. lia.
Qed.

(* ====================================================================================== *)
(* big_refines_small                                                                      *)
(* ====================================================================================== *)
Definition sched (s s' : pstate) : Prop := exists ls, run ls s = Some s'.

Lemma sched_refl s : sched s s. Proof. exists []. reflexivity. Qed.
Lemma sched_trans a b c : sched a b -> sched b c -> sched a c.
Proof. intros [l1 H1] [l2 H2]. exists (l1 ++ l2). eapply run_app; eauto. Qed.

Lemma sched_exec s l : sched s (pexec s l).
Proof.
  unfold pexec. destruct (pstep s l) as [s'|] eqn:E; [|apply sched_refl].
  exists [l]. cbn. rewrite E. reflexivity.
Qed.

Lemma sched_fold {A} (f : pstate -> A -> pstate) (l : list A) :
  (forall s a, sched s (f s a)) -> forall s, sched s (fold_left f l s).
Proof.
  intros Hf. induction l as [|a l IH]; cbn; intros s; [apply sched_refl|].
  eapply sched_trans; [apply Hf|apply IH].
Qed.

Lemma sched_settle t s : sched s (settle t s).
Proof. unfold settle. apply sched_fold. apply sched_exec. Qed.

Lemma sched_settle_all s : sched s (settle_all s).
Proof. unfold settle_all. apply sched_fold. intros. apply sched_settle. Qed.

Lemma sched_do_emit i tag s : sched s (do_emit i tag s).
Proof.
  unfold do_emit.
  set (s1 := pexec (pexec s (LRecv i tag)) LLookup).
  assert (H1 : sched s s1) by (eapply sched_trans; apply sched_exec).
  assert (H2 : sched s (pexec s1 LSend)) by (eapply sched_trans; [exact H1|apply sched_exec]).
  destruct (rl s1); auto. eapply sched_trans; [exact H2|apply sched_settle].
Qed.

Lemma sched_big_step s e : sched s (big_step s e).
Proof.
  destruct e; cbn [big_step].
  - eapply sched_trans; [|apply sched_settle]. apply sched_fold. apply sched_exec.
  - destruct (tget s k) as [th|]; [|apply sched_refl].
    destruct (twid th); [apply sched_do_emit|apply sched_refl].
  - apply sched_do_emit.
  - eapply sched_trans; [apply sched_exec|apply sched_settle_all].
  - eapply sched_trans; [apply sched_exec|apply sched_settle].
  - eapply sched_trans; [apply sched_exec|apply sched_settle_all].
Qed.

(* every quiescent history's big-step result is reached by a schedule of the small-step system *)
Theorem big_refines_small tcp q0 evs : reachable tcp q0 (run_history tcp q0 evs).
Proof.
  unfold reachable, run_history. apply (sched_fold big_step evs sched_big_step).
Qed.
